"""Shared harness pieces: imports PyXAB from /repo's working tree, RNG control, instrumented
partition subclasses (no source hooks needed), canonical state dumps, Lean driver runner."""
import os, sys, struct, json, math, random, subprocess, time, hashlib, contextlib

REPO = os.environ.get("PYXAB_REPO", "/repo")
VERIF = os.path.dirname(os.path.dirname(os.path.abspath(__file__)))
if sys.path[0] != REPO:
    sys.path.insert(0, REPO)
import warnings
warnings.filterwarnings("ignore")
import numpy as np  # noqa: E402

LEAN_DIR = os.path.join(VERIF, "lean")
DRIVER = os.path.join(LEAN_DIR, ".lake", "build", "bin", "driver")


# ---------------------------------------------------------------- floats
def fbits(x):
    try:
        return str(struct.unpack("<Q", struct.pack("<d", float(x)))[0])
    except Exception:
        return f"?{type(x).__name__}"      # a field that should hold a number holds something else


def from_bits(s):
    return struct.unpack("<d", struct.pack("<Q", int(s)))[0]


# ---------------------------------------------------------------- RNG control
class RngCtl:
    """Replaces np.random.randint/uniform/choice/seed for the duration of a case.  Values come
    from the case's own seeded stream; every call is logged so the model can be given the same
    draws.  `qmode` selects how split fractions are drawn (end points included)."""

    def __init__(self, rnd, qmode="mixed", dimmode="random"):
        self.rnd = rnd
        self.qmode = qmode
        self.dimmode = dimmode
        self.log = []       # (name, args, value) of every call
        self.buf = []       # draws since last take()
        self.choice_hook = None
        self._saved = None

    def _q(self):
        m = self.qmode
        if m == "mixed":
            m = self.rnd.choice(["dyadic", "dyadic", "random", "end", "half", "tiny"])
        if m == "tiny":         # a cut very close to, but not on, an end of the range
            e = 2.0 ** -self.rnd.randint(14, 45)
            return self.rnd.choice([e, e, 1.0 - e])
        if m == "half":
            return 0.5
        if m == "end":
            return self.rnd.choice([0.0, 1.0])
        if m == "dyadic":
            k = self.rnd.randint(1, 6)
            return self.rnd.randint(0, 2 ** k) / 2 ** k
        return self.rnd.random()

    def randint(self, low, high=None, size=None, dtype=int):
        if high is None:
            low, high = 0, low
        if self.dimmode == "zero":
            v = low
        elif self.dimmode == "last":
            v = high - 1
        else:
            v = self.rnd.randrange(low, high)
        self.log.append(("randint", (low, high), v))
        self.buf.append(("int", v))
        return v

    def uniform(self, low=0.0, high=1.0, size=None):
        if size is not None:
            # VROOM-style vector draw is never used with size; keep simple
            raise NotImplementedError("uniform(size=...)")
        q = self._q()
        v = low + q * (high - low)
        if q == 1.0 or v > high:
            v = high
        if v < low:
            v = low
        v = float(v)
        self.log.append(("uniform", (float(low), float(high)), v))
        self.buf.append(("flt", v))
        return v

    def choice(self, a, size=None, replace=True, p=None):
        n = a if isinstance(a, int) else len(a)
        if p is not None:
            # numpy validates the weights before sampling
            if abs(math.fsum(float(x) for x in p) - 1.0) > 1.4901161193847656e-08:
                raise ValueError("probabilities do not sum to 1")
        if self.choice_hook is not None:
            i = self.choice_hook(n, p)
        else:
            i = self.rnd.randrange(n)
        self.log.append(("choice", (n, None if p is None else list(map(float, p))), i))
        self.buf.append(("choice", i, None if p is None else [float(x) for x in p]))
        return i if isinstance(a, int) else a[i]

    def seed(self, *a, **k):
        self.log.append(("seed", a, None))

    def take(self):
        b, self.buf = self.buf, []
        return b

    def __enter__(self):
        self._saved = (np.random.randint, np.random.uniform, np.random.choice, np.random.seed)
        np.random.randint, np.random.uniform, np.random.choice, np.random.seed = (
            self.randint, self.uniform, self.choice, self.seed)
        return self

    def __exit__(self, *exc):
        np.random.randint, np.random.uniform, np.random.choice, np.random.seed = self._saved
        return False


# ---------------------------------------------------------------- instrumented partitions
KINDS = ["binary", "randBinary", "dimBinary", "kary", "randKary"]


def _base_class(kind):
    from PyXAB.partition.BinaryPartition import BinaryPartition
    from PyXAB.partition.RandomBinaryPartition import RandomBinaryPartition
    from PyXAB.partition.DimensionBinaryPartition import DimensionBinaryPartition
    from PyXAB.partition.KaryPartition import KaryPartition
    from PyXAB.partition.RandomKaryPartition import RandomKaryPartition
    return {"binary": BinaryPartition, "randBinary": RandomBinaryPartition,
            "dimBinary": DimensionBinaryPartition, "kary": KaryPartition,
            "randKary": RandomKaryPartition}[kind]


_INSTR_CLASSES = {}


def make_partition_class(kind, K=3, rng=None, observer=None, pre_observer=None):
    """Subclass of the real partition class that (i) accepts the (domain, node) constructor
    signature the algorithms use while forwarding K, (ii) numbers nodes in creation order
    (`_vid`), keeps every node ever created in `_all`, and (iii) logs each make_children call
    with the random draws it consumed (`_calls`).  The real make_children does all the work."""
    # one instrumented class per (kind, K) and process, re-armed for each case: a user hands the same partition class to
    # every algorithm instance, and anything in the library that is keyed on the class must see that here too
    key_ = (kind, K if kind in ("kary", "randKary") else 0)
    if key_ in _INSTR_CLASSES:
        Instr = _INSTR_CLASSES[key_]
        Instr._rng = rng
        Instr._observer = observer
        Instr._pre_observer = pre_observer
        Instr._glog = []
        return Instr
    base = _base_class(kind)
    from PyXAB.partition.Node import P_node

    class Instr(base):
        _rng = rng
        _kind = kind
        _K = K
        _observer = observer
        _pre_observer = pre_observer
        _glog = []          # every make_children call of every instance of this class, in order

        def __init__(self, domain=None, node=P_node):
            if kind in ("kary", "randKary"):
                base.__init__(self, domain=domain, K=K, node=node)
            else:
                base.__init__(self, domain=domain, node=node)
            self.root._vid = 0
            self._all = [self.root]
            self._calls = []            # (no registry of instances: a partition nobody refers to any more is freed)

        def make_children(self, parent, newlayer=False):
            orig = self.node
            created = []

            def factory(*a, **kw):
                nd = orig(*a, **kw)
                nd._vid = len(self._all)
                self._all.append(nd)
                created.append(nd)
                return nd

            rng = Instr._rng
            mark = len(rng.log) if rng is not None else 0
            was_leaf = parent.get_children() is None
            flag_ok = bool(newlayer) == (parent.get_depth() >= self.get_depth())
            if Instr._pre_observer is not None:
                Instr._pre_observer(self, parent, bool(newlayer))
            self.node = factory
            try:
                base.make_children(self, parent, newlayer)
            finally:
                self.node = orig
                used = rng.log[mark:] if rng is not None else []
                dim = 0
                pts = []
                for (nm, _a, v) in used:
                    if nm == "randint":
                        dim = v
                    elif nm == "uniform":
                        pts.append(v)
                call = {"log_range": (mark, len(rng.log) if rng is not None else 0),
                        "parent": getattr(parent, "_vid", None), "newlayer": bool(newlayer),
                        "dim": dim, "pts": pts, "created": [c._vid for c in created],
                        "was_leaf": was_leaf, "flag_ok": flag_ok}
                self._calls.append(call)
                Instr._glog.append(call)
                if Instr._observer is not None:
                    Instr._observer(self, parent, call)

    Instr.__name__ = base.__name__
    Instr.__qualname__ = base.__qualname__
    _INSTR_CLASSES[key_] = Instr
    return Instr


def draw_str(call):
    return f"{call['dim']} {len(call['pts'])}" + "".join(" " + fbits(p) for p in call["pts"])


def draws_str(calls):
    return f"{len(calls)}" + "".join(" " + draw_str(c) for c in calls)


def kind_str(kind, K):
    return f"{kind} {K if kind in ('kary', 'randKary') else 0}"


def box_str(domain):
    return f"{len(domain)}" + "".join(f" {fbits(lo)} {fbits(hi)}" for lo, hi in domain)


def vid(nd):
    return "-" if nd is None else str(getattr(nd, "_vid", "?"))


def dump_part(part, st_str=lambda nd: ""):
    """Canonical dump; must agree character for character with Lean `Drv.dumpPart`."""
    nodes = []
    for i, nd in enumerate(part._all):
        ch = nd.get_children()
        chs = "-" if ch is None else "[" + ",".join(vid(c) for c in ch) + "]"
        bx = "[" + ",".join(fbits(iv[0]) + ":" + fbits(iv[1]) for iv in nd.get_domain()) + "]"
        nodes.append(f"{i}:{nd.get_depth()}:{nd.get_index()}:{vid(nd.get_parent())}:{chs}:{bx}:{st_str(nd)}")
    layers = ",".join("[" + ",".join(vid(n) for n in layer) + "]" for layer in part.get_node_list())
    return f"depth={part.get_depth()} layers=[{layers}] nodes={' '.join(nodes)}"


# ---------------------------------------------------------------- boxes
def gen_box(rnd, d, mode=None):
    mode = mode or rnd.choice(["unit", "shift", "neg", "scale", "pow2", "arb", "pow2", "tiny", "zeroedge", "far", "cube"])
    if mode == "cube":            # the same interval on every axis (written by users as [[lo, hi]] * d)
        a = float(rnd.randint(-20, 20)) * rnd.choice([1.0, 0.5, 0.25]); w = rnd.choice([1.0, 2.0, 10.0, 0.5, 3.0])
        return [[a, a + w] for _ in range(d)], mode
    box = []
    for _ in range(d):
        if mode == "unit":
            lo, hi = 0.0, 1.0
        elif mode == "shift":
            a = float(rnd.randint(-50, 50)); lo, hi = a, a + rnd.choice([1.0, 2.0, 0.5, 8.0])
        elif mode == "neg":
            hi = -float(rnd.randint(1, 20)); lo = hi - rnd.choice([1.0, 4.0, 0.25])
        elif mode == "scale":
            s = 10.0 ** rnd.randint(-6, 6); lo, hi = -s * rnd.random(), s * (0.1 + rnd.random())
        elif mode == "tiny":
            s = 10.0 ** rnd.randint(-12, -7); lo = s * rnd.choice([0.0, -1.0, 1.0, -rnd.random(), rnd.random()]); hi = lo + s * (0.5 + rnd.random())
        elif mode == "far":          # far from the origin relative to its size: cells reach float resolution after a few dozen levels
            lo = rnd.choice([-1.0, 1.0]) * 10.0 ** rnd.randint(8, 16) * (1 + rnd.random()); hi = lo + max(abs(lo) * 2.0 ** -rnd.randint(30, 50), 2.0 ** rnd.randint(0, 10))
            hi = max(hi, math.nextafter(lo, math.inf) + abs(lo) * 2.0 ** -45)
        elif mode == "zeroedge":
            w = rnd.choice([1.0, 2.0, 3.0, 0.5, 10.0]); lo, hi = rnd.choice([(0.0, w), (-w, 0.0), (-w, w), (-w, 2 * w)])
        elif mode == "pow2":
            e = rnd.randint(-4, 6); a = float(rnd.randint(-8, 8)) * 2.0 ** e
            lo, hi = a, a + 2.0 ** rnd.randint(e, e + 4)
        else:
            lo = rnd.uniform(-1e3, 1e3); hi = lo + rnd.uniform(1e-3, 1e3)
        box.append([lo, hi])
    return box, mode


# ---------------------------------------------------------------- driver
def ensure_driver():
    if not os.path.exists(DRIVER):
        raise SystemExit("driver not built: run ./setup.sh")


def run_driver(lines, timeout=1200):
    ensure_driver()
    data = ("\n".join(lines) + "\n").encode()
    p = subprocess.run([DRIVER], input=data, stdout=subprocess.PIPE, stderr=subprocess.PIPE,
                       timeout=timeout)
    if p.returncode != 0:
        raise RuntimeError("driver failed: " + p.stderr.decode()[-2000:])
    out = p.stdout.decode().split("\n")
    if out and out[-1] == "":
        out.pop()
    return out


def exc_name(e):
    """Map a Python exception to the model's error enum name."""
    if isinstance(e, IndexError):
        return "IndexError"
    if isinstance(e, (AttributeError, TypeError)):
        return "NoneDeref"
    if isinstance(e, ValueError):
        return "ValueError"
    if type(e).__name__ == "HangError":
        return "OutOfFuel"
    return type(e).__name__


# ---------------------------------------------------------------- hang safety
import signal


class HangError(Exception):
    """an implementation call exceeded its time budget (treated as 'never returns')"""


def _on_alarm(signum, frame):
    raise HangError("call exceeded its time budget")


def guarded(fn, *args, budget=3.0):
    """Run one implementation call under a budget of CPU time of this process (ITIMER_VIRTUAL; main thread only):
    a call that never returns burns CPU and is cut off, a process that is merely descheduled on a loaded machine is not."""
    old = signal.signal(signal.SIGVTALRM, _on_alarm)
    signal.setitimer(signal.ITIMER_VIRTUAL, budget)
    try:
        return fn(*args)
    finally:
        signal.setitimer(signal.ITIMER_VIRTUAL, 0)
        signal.signal(signal.SIGVTALRM, old)
