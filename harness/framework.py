"""Case running, model/implementation comparison, verdicts, evidence, replays, known findings."""
import os, sys, json, time, hashlib, random, subprocess, re, collections
from common import VERIF, LEAN_DIR, run_driver

EVID_DIR = os.environ.get("VERIF_EVIDENCE_DIR") or os.path.join(VERIF, "evidence")      # (the override is for runs against a deliberately modified tree)
REPLAY_DIR = os.path.join(VERIF, "replays")
KNOWN_PATH = os.path.join(VERIF, "known_findings.json")


class Case:
    """One implementation execution: `ops` = [(driver_line, expected_output)], `meta` = what is
    needed to regenerate it, `monitor` = list of property-monitor failures (dicts)."""

    def __init__(self, name, meta):
        self.name = name
        self.meta = meta
        self.ops = []
        self.monitor = []      # [{'property':..., 'sig':..., 'detail':..., 'step':...}]
        self.tags = collections.Counter()
        self.stopped = None    # reason the implementation run stopped early (exception)
        self.trace = None      # {"points": [...], "last": ..., "rewards": [...]} for relational checks
        self.cov = []          # thorough tier: (file, line) pairs of the library first executed by this case

    def op(self, line, expected):
        self.ops.append((line, expected))

    def fail(self, prop, sig, detail, step=None, **extra):
        d = {"property": prop, "sig": sig, "detail": detail, "step": step}
        d.update(extra)
        self.monitor.append(d)


def compare(cases, chunk=None, workers=12, view=None):
    """`view`: optional projection applied to both the implementation's and the model's output before comparing
    (a property whose theorems speak about part of the state compares that part).
    Run the Lean driver on all cases' op lines (several driver processes in parallel, one chunk of cases each);
    return list of mismatches (case, op_index, line, expected, got).  Only the first mismatch per case is kept."""
    from concurrent.futures import ThreadPoolExecutor
    if not cases:
        return [], 0
    total = sum(len(c.ops) for c in cases)
    if chunk is None:
        chunk = max(1, min(400, len(cases) // (workers * 2) + 1)) if total > 20000 else 400
    parts = [cases[s:s + chunk] for s in range(0, len(cases), chunk)]

    def run_part(part):
        lines = []
        for c in part:
            lines.append("case " + c.name)
            lines += [l for (l, _e) in c.ops]
        out = run_driver(lines, timeout=2400)
        if len(out) != len(lines):
            raise RuntimeError(f"driver produced {len(out)} lines for {len(lines)} ops")
        return out

    with ThreadPoolExecutor(max_workers=workers) as ex:
        outs = list(ex.map(run_part, parts))
    mism = []
    n_ops = 0
    for part, out in zip(parts, outs):
        k = 0
        for c in part:
            k += 1
            found = False
            for i, (l, e) in enumerate(c.ops):
                got = out[k]
                k += 1
                n_ops += 1
                if e is not None and not found:
                    if (got != e) if view is None else (view(got) != view(e)):
                        mism.append((c, i, l, e, got))
                        found = True
    return mism, n_ops


def first_diff(a, b):
    ta, tb = a.split(" "), b.split(" ")
    for i, (x, y) in enumerate(zip(ta, tb)):
        if x != y:
            return f"token {i}: impl={x[:160]} model={y[:160]}"
    return f"length impl={len(ta)} model={len(tb)}"


# ---------------------------------------------------------------- known findings
def load_known():
    if not os.path.exists(KNOWN_PATH):
        return {"known": [], "fixed": []}
    return json.load(open(KNOWN_PATH))


def match_known(prop, failure, known):
    """A failure (dict with 'sig' and context keys) matches a known finding when the property
    and signature are equal and every key of the finding's `where` equals the failure's."""
    for k in known.get("known", []):
        if k["property"] != prop or k["sig"] != failure.get("sig"):
            continue
        ok = True
        for key, val in k.get("where", {}).items():
            fv = failure
            for part in key.split("."):
                fv = fv.get(part) if isinstance(fv, dict) else None
            if isinstance(val, dict) and "in" in val:
                ok = ok and fv in val["in"]
            elif isinstance(val, dict) and "not" in val:
                ok = ok and fv != val["not"]
            elif isinstance(val, dict) and "le" in val:
                ok = ok and fv is not None and fv <= val["le"]
            elif isinstance(val, dict) and "ge" in val:
                ok = ok and fv is not None and fv >= val["ge"]
            else:
                ok = ok and fv == val
        if ok:
            return k
    return None


# ---------------------------------------------------------------- replays / evidence
def write_replay(prop, payload):
    os.makedirs(REPLAY_DIR, exist_ok=True)
    s = json.dumps(payload, sort_keys=True, default=str)
    h = hashlib.sha1(s.encode()).hexdigest()[:10]
    path = os.path.join(REPLAY_DIR, f"{prop}-{h}.json")
    with open(path, "w") as f:
        json.dump(payload, f, indent=1, sort_keys=True, default=str)
    return path


def write_evidence(prop, tier, seed, coverage, assumptions, wall_s, violations, level="proof"):
    os.makedirs(EVID_DIR, exist_ok=True)
    ev = {"property_id": prop, "tier": tier, "seed": int(seed), "level": level,
          "coverage": coverage, "assumptions": assumptions, "wall_s": round(wall_s, 2),
          "violations": int(violations)}
    with open(os.path.join(EVID_DIR, f"{prop}.json"), "w") as f:
        json.dump(ev, f, indent=1, default=str)
    return ev


def line_coverage(cases, repo):
    """aggregate the library lines executed by the cases of a thorough run, per file, against the executable
    statements found with `ast`"""
    import ast, collections
    hit = collections.defaultdict(set)
    for c in cases:
        for fn, ln in getattr(c, "cov", []) or []:
            hit[fn].add(ln)
    out = {}
    for fn, lines in sorted(hit.items()):
        try:
            tree = ast.parse(open(os.path.join(repo, "PyXAB", fn)).read())
        except Exception:
            continue
        stm = [n for n in ast.walk(tree) if isinstance(n, ast.stmt) and not isinstance(n, (ast.FunctionDef, ast.ClassDef, ast.Import, ast.ImportFrom))
               and not (isinstance(n, ast.Expr) and isinstance(getattr(n, "value", None), ast.Constant))]

        def head_hit(n):      # a statement counts as executed when a line of its header (or its only line) was traced
            last = n.body[0].lineno - 1 if getattr(n, "body", None) and isinstance(n.body, list) and n.body else getattr(n, "end_lineno", n.lineno)
            return any(l in lines for l in range(n.lineno, max(n.lineno, last) + 1))
        missed = sorted({n.lineno for n in stm if not head_hit(n)})
        out[fn] = {"executed": len({n.lineno for n in stm}) - len(missed), "statements": len({n.lineno for n in stm}), "missed_lines": missed[:25]}
    return out
