"""Order-type tie for the selection rules (see lean/PyXABProofs/Spec/OrderType.lean).

The REAL methods (optTraverse, updateBackwardTree, VROOM.rank, POO/GPO.get_last_point, Zooming.pull) are run on
order-only values: objects that can be compared with each other (and shifted by one common finite constant) and
nothing else.  One run per order type (dense rank list) of the values; what the code chose goes into a table of
lean/PyXABProofs/Generated/OrderTie.lean.  Lean then checks, by evaluation, that the model rule agrees on every entry
and that the table is complete, and the hand-proved lifting theorems (Props/OrderTie.lean) turn that into: for ALL
values of any linear order (of the covered arities) the model's choice is the code's choice.

Anything else the code does with the values (arithmetic between two of them, comparison with a finite literal,
a tolerance test, truthiness) raises `NotOrderOnly`: the rule is then no longer a function of the order type, the
table cannot be written and the tie is reported broken."""
import os, sys, math, itertools
sys.path.insert(0, os.path.dirname(os.path.abspath(__file__)))
from common import REPO            # noqa: F401  (puts the repository on sys.path)
import numpy as np
import numpy.random                # noqa: F401


class NotOrderOnly(Exception):
    pass


class Ord:
    """a value of an arbitrary linear order, known only through its dense rank within the current list.
    `bot`-rules: rank 0 is the least element and stands for the literal -inf."""
    __slots__ = ("rank", "shift")
    BOT_RULE = False

    def __init__(self, rank, shift=0.0):
        self.rank, self.shift = rank, shift

    def _other(self, o):
        if isinstance(o, Ord):
            if Ord.BOT_RULE and (self.rank == 0 or o.rank == 0):
                return o.rank          # -inf shifted by a finite constant is -inf
            if o.shift != self.shift:
                raise NotOrderOnly(f"values shifted by different amounts are compared ({self.shift} vs {o.shift})")
            return o.rank
        if isinstance(o, (float, np.floating)) and o == -math.inf and Ord.BOT_RULE:
            return 0
        raise NotOrderOnly(f"a value is compared with {o!r}")

    def __lt__(s, o): return s.rank < s._other(o)
    def __le__(s, o): return s.rank <= s._other(o)
    def __gt__(s, o): return s.rank > s._other(o)
    def __ge__(s, o): return s.rank >= s._other(o)
    def __eq__(s, o): return s.rank == s._other(o)
    def __ne__(s, o): return s.rank != s._other(o)
    __hash__ = None

    def _sh(s, c, sign):
        if isinstance(c, (int, float, np.floating, np.integer)) and not isinstance(c, bool) and math.isfinite(c):
            return Ord(s.rank, s.shift + sign * float(c))       # x -> x + c is strictly increasing
        raise NotOrderOnly(f"arithmetic of a value with {c!r}")
    def __add__(s, c): return s._sh(c, 1)
    def __radd__(s, c): return s._sh(c, 1)
    def __sub__(s, c): return s._sh(c, -1)

    def __bool__(s): raise NotOrderOnly("truth value of a value")
    def __float__(s): raise NotOrderOnly("a value is converted to float")
    def __repr__(s): return f"Ord({s.rank})"


def _as_ord(x):
    if isinstance(x, Ord):
        return x
    if isinstance(x, (float, np.floating)) and x == -math.inf and Ord.BOT_RULE:
        return Ord(0)
    raise NotOrderOnly(f"np.maximum/np.minimum applied to {x!r}")


_NP_MAX, _NP_MIN = np.maximum, np.minimum


def _maximum(a, b):
    if not isinstance(a, Ord) and not isinstance(b, Ord):
        return _NP_MAX(a, b)          # plain numbers (e.g. the confidence schedule): NumPy itself
    a, b = _as_ord(a), _as_ord(b)
    return b if b.rank > a.rank else a


def _minimum(a, b):
    if not isinstance(a, Ord) and not isinstance(b, Ord):
        return _NP_MIN(a, b)
    a, b = _as_ord(a), _as_ord(b)
    return b if b.rank < a.rank else a


def _argmax(xs):
    """np.argmax: index of the first maximal element (documented NumPy semantics; NumPy itself is trusted)"""
    xs = list(xs)
    if not xs:
        raise ValueError("attempt to get argmax of an empty sequence")
    best = 0
    for i in range(1, len(xs)):
        if xs[i] > xs[best]:
            best = i
    return best


class patched:
    def __init__(self, bot):
        self.bot = bot

    def __enter__(self):
        self.saved = (np.maximum, np.minimum, np.argmax, np.array, Ord.BOT_RULE)
        np.maximum, np.minimum, np.argmax = _maximum, _minimum, _argmax
        _arr = self.saved[3]
        np.array = lambda x, *a, **k: list(x) if (isinstance(x, list) and x and isinstance(x[0], Ord)) else _arr(x, *a, **k)
        Ord.BOT_RULE = self.bot

    def __exit__(self, *a):
        np.maximum, np.minimum, np.argmax, np.array, Ord.BOT_RULE = self.saved


def dense_lists(k):
    out = []
    for rs in itertools.product(range(k), repeat=k):
        m = max(rs)
        if all(v in rs for v in range(m + 1)):
            out.append(list(rs))
    return out


# ---------------------------------------------------------------- the rules on the real classes
def _kary(k):
    from PyXAB.partition.KaryPartition import KaryPartition

    class P(KaryPartition):
        def __init__(self, domain=None, node=None):
            KaryPartition.__init__(self, domain=domain, K=k, node=node)
    return P


def _tree_algo(name, k):
    if name == "T_HOO":
        from PyXAB.algos.HOO import T_HOO
        return T_HOO(nu=1.0, rho=0.5, rounds=100, domain=[[0.0, 1.0]], partition=_kary(k))
    if name == "HCT":
        from PyXAB.algos.HCT import HCT
        return HCT(nu=1.0, rho=0.5, domain=[[0.0, 1.0]], partition=_kary(k))
    from PyXAB.algos.VHCT import VHCT
    return VHCT(nu=1.0, rho=0.5, domain=[[0.0, 1.0]], partition=_kary(k))


def rule_pick(name):
    def run(rs):
        a = _tree_algo(name, len(rs))
        root = a.partition.get_root()
        kids = root.get_children()
        if kids is None or len(kids) != len(rs):
            raise NotOrderOnly("the constructor did not split the root into K cells")
        for c, r in zip(kids, rs):
            c.b_value = Ord(r)
        root.visited_times = 10 ** 9          # HCT/VHCT: the root has reached its threshold, the walk goes on
        _node, path = a.optTraverse()
        if len(path) != 2:
            raise NotOrderOnly(f"the walk from the root has {len(path)} cells")
        return [[id(c) for c in kids].index(id(path[1]))]
    return run


def rule_backB(name):
    def run(rs):               # rs = bot :: u :: bs
        a = _tree_algo(name, len(rs) - 2)
        # the backward pass covers the layers depth..1: the cell is the first cell of depth 1, its children are leaves
        root = a.partition.get_root().get_children()[0]
        a.partition.make_children(root, newlayer=True)
        kids = root.get_children()
        root.u_value = Ord(rs[1])
        for c, r in zip(kids, rs[2:]):
            c.u_value = Ord(r)          # leaves: B := U in the first pass of the backward update
            c.b_value = None
        a.updateBackwardTree()
        for c, r in zip(kids, rs[2:]):
            if not isinstance(c.b_value, Ord) or c.b_value.rank != r:
                raise NotOrderOnly("a leaf's B-value is not its U-value")
        b = root.b_value
        if not isinstance(b, Ord):
            b = _as_ord(b)
        return [b.rank]
    return run


def rule_sortD(rs):
    import PyXAB.algos.VROOM as VM

    class Nd:
        def __init__(self, i, r):
            self.i, self.m, self.ranks = i, Ord(r), []
        def get_eval_time(self): return 2
        def get_mean_reward(self): return self.m
        def add_rank(self, r): self.ranks.append(r)
    a = VM.VROOM.__new__(VM.VROOM)
    a.n, a.delta = 16, 0.5
    nodes = [Nd(i, r) for i, r in enumerate(rs)]
    a.rank(nodes)
    if sorted(n.ranks[0] for n in nodes if len(n.ranks) == 1) != list(range(1, len(rs) + 1)):
        raise NotOrderOnly("ranks are not a permutation of 1..k")
    return [n.i for n in sorted(nodes, key=lambda n: n.ranks[0])]


def rule_amaxFirst(which):
    def run(rs):
        if which == "POO":
            from PyXAB.algos.POO import POO

            class L:
                def __init__(self, i): self.i = i
                def pull(self, time=0): return [self.i]
            a = POO.__new__(POO)
            a.V_reward = [Ord(r) for r in rs]
            a.V_algo = [L(i) for i in range(len(rs))]
            return list(a.get_last_point())
        from PyXAB.algos.GPO import GPO
        a = GPO.__new__(GPO)
        a.V_reward = [Ord(r) for r in rs]
        a.V_x = [[i] for i in range(len(rs))]
        return list(a.get_last_point())
    return run


def rule_amaxArm(rs):          # rs = bot :: indices
    from PyXAB.algos.Zooming import Zooming

    class ArmObj:
        def __init__(self, i): self.i = i
        def get_point(self): return [self.i]
    a = Zooming.__new__(Zooming)
    arms = [ArmObj(i) for i in range(len(rs) - 1)]
    a.active_points = {arm: None for arm in arms}
    a.average_rewards = {arm: Ord(r) for arm, r in zip(arms, rs[1:])}
    a.pulled_times = {arm: 3 for arm in arms}
    a.phase = 2
    a.time = 5
    return list(a.pull(6))


def _split_root(a):
    root = a.partition.get_root()
    if root.get_children() is None:
        a.partition.make_children(root, newlayer=True)
    return root, root.get_children()


def _who(nodes, pt):
    hit = [i for i, n in enumerate(nodes) if n.get_cpoint() is pt]
    if len(hit) != 1:
        raise NotOrderOnly("the returned point is not the representative of exactly one candidate cell")
    return hit


def rule_sweep(which, site):
    """rs = bot :: values.  `pull`: the root's K children are evaluated leaves carrying the values; which one is
    chosen (SOO, DOO: split; StoSOO: handed out again; SequOOL: opened).  `last`: which cell is recommended."""
    def run(rs):
        k = len(rs) - 1
        vals = [Ord(r) for r in rs[1:]]
        if which == "SOO":
            from PyXAB.algos.SOO import SOO
            if site == "pull":
                a = SOO(n=100, h_max=100, domain=[[0.0, 1.0]], partition=_kary(k))
                root, kids = _split_root(a)
                root.visited = True
                for c, v in zip(kids, vals):
                    c.visited, c.reward = True, v
                a.pull(1)
                ch = [i for i, c in enumerate(kids) if c.get_children() is not None]
                if len(ch) != 1:
                    raise NotOrderOnly(f"{len(ch)} cells were split")
                return ch
            a = SOO(n=100, h_max=100, domain=[[0.0, 1.0]], partition=_kary(k - 1))
            root, kids = _split_root(a)          # candidates: every cell of the tree, root first
            cand = [root] + kids
            for c, v in zip(cand, vals):
                c.visited, c.reward = True, v
            return _who(cand, a.get_last_point())
        if which == "DOO":
            from PyXAB.algos.DOO import DOO
            if site == "pull":
                a = DOO(n=100, delta=lambda h: 0.25, domain=[[0.0, 1.0]], partition=_kary(k))
                root, kids = _split_root(a)
                root.visited = True
                for c, v in zip(kids, vals):
                    c.visited, c.reward = True, v
                a.pull(1)
                ch = [i for i, c in enumerate(kids) if c.get_children() is not None]
                if len(ch) != 1:
                    raise NotOrderOnly(f"{len(ch)} cells were split")
                return ch
            a = DOO(n=100, delta=lambda h: 0.25, domain=[[0.0, 1.0]], partition=_kary(k - 1))
            root, kids = _split_root(a)
            cand = [root] + kids
            for c, v in zip(cand, vals):
                c.visited, c.reward = True, v
            return _who(cand, a.get_last_point())
        if which == "StoSOO":
            from PyXAB.algos.StoSOO import StoSOO
            a = StoSOO(n=100, k=5, h_max=100, delta=0.1, domain=[[0.0, 1.0]], partition=_kary(k))
            root, kids = _split_root(a)
            for c, v in zip(kids, vals):
                c.visited_times, c.rewards, c.mean_reward = 2, [0.0, 0.0], v
            if site == "pull":
                import PyXAB.algos.StoSOO as SM
                orig = SM.StoSOO_node.compute_b_value

                def cb(node, n, k, delta):           # the b-value of a cell evaluated twice: its mean plus one common width
                    if isinstance(node.mean_reward, Ord):
                        node.b_value = node.mean_reward + math.sqrt(math.log(n * k / delta) / (2 * node.visited_times))
                    else:
                        orig(node, n, k, delta)
                SM.StoSOO_node.compute_b_value = cb
                try:
                    pt = a.pull(1)
                finally:
                    SM.StoSOO_node.compute_b_value = orig
                if a.max_b_node_h != 1:
                    raise NotOrderOnly("the cell handed out is not one of the candidates")
                return [a.max_b_node_ind]
            return _who(kids, a.get_last_point())
        from PyXAB.algos.SequOOL import SequOOL
        a = SequOOL(n=100, domain=[[0.0, 1.0]], partition=_kary(k))
        root, kids = _split_root(a)
        for c, v in zip(kids, vals):
            c.rewards = [v]
        if site == "pull":
            a.curr_depth, a.loc, a.budget = 1, 0, 5
            a.chosen = list(kids)
            a.pull(k + 1)
            ch = [i for i, c in enumerate(kids) if c.get_children() is not None]
            if len(ch) != 1:
                raise NotOrderOnly(f"{len(ch)} cells were opened")
            return ch
        a.chosen = list(kids)
        return _who(kids, a.get_last_point())
    return run


# name -> (lean rule, side condition, lengths, python runner, what it is)
RULES = {
    "pick_T_HOO": ("pick", None, [2, 3, 4], rule_pick("T_HOO"), "T_HOO.optTraverse: child followed among K children carrying B-values"),
    "pick_HCT": ("pick", None, [2, 3, 4], rule_pick("HCT"), "HCT.optTraverse"),
    "pick_VHCT": ("pick", None, [2, 3, 4], rule_pick("VHCT"), "VHCT.optTraverse"),
    "backB_T_HOO": ("backB", "botFirst", [4, 5], rule_backB("T_HOO"), "T_HOO.updateBackwardTree: B of a cell from its U and its 2..3 children's B (-inf, U, B1..)"),
    "backB_HCT": ("backB", "botFirst", [4, 5], rule_backB("HCT"), "HCT.updateBackwardTree"),
    "backB_VHCT": ("backB", "botFirst", [4, 5], rule_backB("VHCT"), "VHCT.updateBackwardTree"),
    "sortD_VROOM": ("sortD", None, [2, 3, 4], rule_sortD, "VROOM.rank: cells in the order of their ranks 1..k"),
    "amaxFirst_POO": ("amaxFirst", None, [1, 2, 3, 4], rule_amaxFirst("POO"), "POO.get_last_point: learner whose recommendation is returned"),
    "amaxFirst_GPO": ("amaxFirst", None, [1, 2, 3, 4], rule_amaxFirst("GPO"), "GPO.get_last_point: validated point returned"),
    "lastMax_SOO_pull": ("amaxArm", "botFirst", [3, 4, 5], rule_sweep("SOO", "pull"), "SOO.pull: evaluated leaf of a layer that is split (-inf, then the rewards of the layer's 2..4 leaves)"),
    "lastMax_SOO_last": ("amaxArm", "botFirst", [4, 5], rule_sweep("SOO", "last"), "SOO.get_last_point: cell recommended among root + 2..3 children"),
    "lastMax_DOO_pull": ("amaxArm", "botFirst", [3, 4, 5], rule_sweep("DOO", "pull"), "DOO.pull: leaf that is split (equal depth: one common bound delta(h))"),
    "lastMax_DOO_last": ("amaxArm", "botFirst", [4, 5], rule_sweep("DOO", "last"), "DOO.get_last_point: cell recommended among root + 2..3 children"),
    "lastMax_StoSOO_pull": ("amaxArm", "botFirst", [3, 4, 5], rule_sweep("StoSOO", "pull"), "StoSOO.pull: leaf of a layer handed out (equal evaluation counts: one common confidence width)"),
    "lastMax_StoSOO_last": ("amaxArm", "botFirst", [3, 4, 5], rule_sweep("StoSOO", "last"), "StoSOO.get_last_point: deepest-layer cell recommended"),
    "lastMax_SequOOL_pull": ("amaxArm", "botFirst", [3, 4, 5], rule_sweep("SequOOL", "pull"), "SequOOL.pull: unopened cell of the current depth that is opened"),
    "lastMax_SequOOL_last": ("amaxArm", "botFirst", [3, 4, 5], rule_sweep("SequOOL", "last"), "SequOOL.get_last_point: evaluated cell recommended"),
    "amaxArm_Zooming": ("amaxArm", "botFirst", [2, 3, 4, 5], rule_amaxArm, "Zooming.pull: arm chosen (-inf, then the indices of 1..4 active arms)"),
}
SUBSETS = {"C05": ["pick_T_HOO", "pick_HCT", "pick_VHCT", "backB_T_HOO", "backB_HCT", "backB_VHCT"],
           "C07": ["amaxFirst_POO", "amaxFirst_GPO", "lastMax_SOO_last", "lastMax_DOO_last", "lastMax_StoSOO_last", "lastMax_SequOOL_last"],
           "C08": ["lastMax_SOO_pull", "lastMax_DOO_pull", "lastMax_StoSOO_pull"], "C12": ["lastMax_SequOOL_pull", "lastMax_SequOOL_last"], "C10": ["amaxFirst_POO"], "C09": ["amaxFirst_GPO"],
           "C11": ["amaxArm_Zooming"], "C13": ["sortD_VROOM"]}


def tables(names=None):
    out, problems = {}, []
    for nm in (names or RULES):
        lean_rule, side, ks, run, _what = RULES[nm]
        rows = []
        try:
            with patched(bot=side == "botFirst"):
                for k in ks:
                    for rs in dense_lists(k):
                        if side == "botFirst" and rs[0] != 0:
                            continue
                        rows.append((rs, [int(x) for x in run(rs)]))
            out[nm] = rows
        except Exception as e:      # noqa
            problems.append(f"{nm}: {type(e).__name__}: {e}")
    return out, problems


def lean_text(tabs, module="OrderTie"):
    L = ["/-", "  GENERATED by harness/translate_rules.py from /repo's classes: what the real selection code chose on every",
         "  order type of its inputs.  Do not edit: rewritten and re-checked on every check run.", "-/",
         "import PyXABProofs.Props.OrderTie", "namespace PyXAB.GeneratedOT." + module, "open PyXAB PyXAB.OT", ""]
    for nm, rows in tabs.items():
        lean_rule, side, ks, _run, what = RULES[nm]
        ok = "botFirst" if side == "botFirst" else "(fun _ => true)"
        ent = ",\n   ".join(f"({rs}, {res})" for rs, res in rows)
        kl = "[" + ", ".join(map(str, ks)) + "]"
        minlen = 2 if lean_rule == "backB" else 1
        L += [f"/-- {what} -/", f"def {nm} : Table :=\n  [{ent}]", "",
              f"theorem {nm}_agrees : agrees ({lean_rule} (S := Nat)) {nm} = true := by decide +kernel",
              f"theorem {nm}_complete : complete {nm} {kl} {ok} = true := by decide +kernel", ""]
        hyp = ("\n    (hbot : ∀ b, vs.head? = some b → ∀ x ∈ vs, b ≤ x)" if side == "botFirst" else "")
        arg = " hbot" if side == "botFirst" else ""
        L += [f"/-- for ALL values of any linear order (list lengths {kl}): the model rule `{lean_rule}` returns what the real code",
              f"returned on the list's order type -/",
              f"theorem {nm}_tie {{S : Type}} [LinearOrder S] [Inhabited S] (vs : List S) (hk : vs.length ∈ {kl}){hyp} :",
              f"    lookup {nm} (denseRanks vs) = some ({lean_rule} vs) :=",
              f"  {lean_rule}_tie {nm} {kl} {nm}_agrees {nm}_complete vs hk",
              f"    (by have h := hk; simp only [List.mem_cons, List.not_mem_nil, or_false] at h; omega){arg}", ""]
    L.append("end PyXAB.GeneratedOT." + module)
    return "\n".join(L) + "\n"


def generate(pid=None):
    names = SUBSETS.get(pid) if pid else None
    tabs, problems = tables(names)
    mod = f"OrderTie{pid}" if pid else "OrderTie"
    path = os.path.join(os.path.dirname(os.path.abspath(__file__)), "..", "lean", "PyXABProofs", "Generated", mod + ".lean")
    text = lean_text(tabs, mod)
    old = open(path).read() if os.path.exists(path) else None
    if old != text:
        with open(path, "w") as f:
            f.write(text)
    return {"theorems": [f"{n}_tie" for n in tabs], "problems": problems, "changed": old != text,
            "entries": {n: len(r) for n, r in tabs.items()}}


if __name__ == "__main__":
    pids = sys.argv[1:] or sorted(SUBSETS)
    for p in pids:
        print(p, generate(p))
