"""Translator tie for the partition geometry (C02, C16): executes the REAL `make_children` of
each partition class from /repo on expression-recording scalars and emits
lean/PyXABProofs/Generated/Geometry.lean — one obligation per traced instance stating that the
traced children (bounds, index labels, representative points) are what the hand-written model
`childBoxes` / `childIndex` / `Box.cpoint` computes, as an identity over every ordered field.
Lean re-proves these on every run; a semantic change to any formula makes one fail."""
import os, sys, itertools
from common import *
import numpy as np


class Sym:
    """expression-recording scalar"""

    def __init__(self, s, atom=True):
        self.s = s
        self.atom = atom

    def _p(self):
        return self.s if self.atom else f"({self.s})"

    @staticmethod
    def lift(x):
        if isinstance(x, Sym):
            return x
        if isinstance(x, (bool, np.bool_)):
            raise TypeError("bool in arithmetic")
        if isinstance(x, (int, np.integer)):
            return Sym(f"({int(x)} : α)") if int(x) >= 0 else Sym(f"(-({-int(x)} : α))")
        if isinstance(x, (float, np.floating)):
            if float(x) == int(x):
                return Sym.lift(int(x))
            raise TypeError(f"non-integer float constant {x}")
        raise TypeError(f"cannot lift {type(x)}")

    def _bin(self, o, op, rev=False):
        o = Sym.lift(o)
        a, b = (o, self) if rev else (self, o)
        return Sym(f"{a._p()} {op} {b._p()}", atom=False)

    def __add__(self, o): return self._bin(o, "+")
    def __radd__(self, o): return self._bin(o, "+", True)
    def __sub__(self, o): return self._bin(o, "-")
    def __rsub__(self, o): return self._bin(o, "-", True)
    def __mul__(self, o): return self._bin(o, "*")
    def __rmul__(self, o): return self._bin(o, "*", True)
    def __truediv__(self, o): return self._bin(o, "/")
    def __rtruediv__(self, o): return self._bin(o, "/", True)
    def __neg__(self): return Sym(f"-{self._p()}", atom=False)
    def __repr__(self): return self.s
    # comparisons are not expected inside make_children
    def __lt__(self, o): raise TypeError("comparison on symbolic scalar")
    __le__ = __gt__ = __ge__ = __lt__
    def __bool__(self): raise TypeError("truth value of symbolic scalar")


class NSym:
    """symbolic natural number (parent index label)"""
    def __init__(self, s, atom=True):
        self.s, self.atom = s, atom
    def _p(self): return self.s if self.atom else f"({self.s})"
    @staticmethod
    def lift(x):
        if isinstance(x, NSym): return x
        if isinstance(x, (int, np.integer)) and int(x) >= 0: return NSym(str(int(x)))
        raise TypeError(f"cannot lift {x!r} to a natural")
    def _bin(self, o, op, rev=False):
        o = NSym.lift(o); a, b = (o, self) if rev else (self, o)
        return NSym(f"{a._p()} {op} {b._p()}", atom=False)
    def __add__(self, o): return self._bin(o, "+")
    def __radd__(self, o): return self._bin(o, "+", True)
    def __sub__(self, o): return self._bin(o, "-")
    def __rsub__(self, o): return self._bin(o, "-", True)
    def __mul__(self, o): return self._bin(o, "*")
    def __rmul__(self, o): return self._bin(o, "*", True)


def lean_kind(kind, K):
    return {"binary": ".binary", "randBinary": ".randBinary", "dimBinary": ".dimBinary",
            "kary": f"(.kary {K})", "randKary": f"(.randKary {K})"}[kind]


def lean_box(box):
    return "[" + ", ".join(f"⟨{lo}, {hi}⟩" for lo, hi in box) + "]"


def trace_instance(kind, K, d, dim):
    """Run the real make_children once with symbolic bounds; returns dict of Lean terms."""
    from PyXAB.partition.Node import P_node
    cls = _base = None
    box = [[Sym(f"l{j}"), Sym(f"h{j}")] for j in range(d)]
    draws = []

    def randint(lo, hi=None, *a, **k):
        return dim

    def uniform(lo, hi, *a, **k):
        s = Sym(f"s{len(draws)}")
        draws.append((s, lo, hi))
        return s

    saved = (np.random.randint, np.random.uniform)
    np.random.randint, np.random.uniform = randint, uniform
    try:
        base = __import__("common")._base_class(kind)
        part = base(domain=box, K=K) if kind in ("kary", "randKary") else base(domain=box)
        root = part.get_root()
        root.index = NSym("i")
        root_cpoint = list(root.get_cpoint())
        part.make_children(root, newlayer=True)
        kids = root.get_children()
        res = {
            "kind": kind, "K": K, "d": d, "dim": dim,
            "vars": [v for j in range(d) for v in (f"l{j}", f"h{j}")] + [s.s for s, _, _ in draws],
            "box": lean_box(box),
            "draw": f"⟨{dim}, [{', '.join(s.s for s, _, _ in draws)}]⟩",
            "uniform_ranges": [(s.s, str(lo), str(hi)) for s, lo, hi in draws],
            "kids": [lean_box(k.get_domain()) for k in kids],
            "cpoints": ["[" + ", ".join(str(Sym.lift(c)) for c in k.get_cpoint()) + "]" for k in kids],
            "root_cpoint": "[" + ", ".join(str(c) for c in root_cpoint) + "]",
            "indices": [NSym.lift(k.get_index()).s for k in kids],
            "depths": [k.get_depth() for k in kids],
            "parent_ok": all(k.get_parent() is root for k in kids),
            "layer_ok": (part.get_node_list()[1] == list(kids) and part.get_depth() == 1
                         and part.get_node_list()[1] is not kids),
        }
        return res
    finally:
        np.random.randint, np.random.uniform = saved


HEADER = """/-
  GENERATED by harness/translate_geometry.py from /repo's current partition classes.
  Do not edit: rewritten (and re-proved) on every check run.
-/
import PyXABProofs.Lemmas.GeoTac
set_option linter.unusedVariables false
set_option linter.unusedSimpArgs false
set_option linter.unusedTactic false
set_option linter.unreachableTactic false
namespace PyXAB.Generated
open PyXAB
"""



def instances(tier="quick"):
    out = []
    ds = [1, 2, 3]
    for d in ds:
        for dim in range(d):
            out.append(("binary", 0, d, dim))
            out.append(("randBinary", 0, d, dim))
        out.append(("dimBinary", 0, d, 0))
    Ks = [2, 3, 4, 5]
    for K in Ks:
        for d in ([1, 2] if tier == "quick" else [1, 2, 3]):
            for dim in range(d):
                out.append(("kary", K, d, dim))
                out.append(("randKary", K, d, dim))
    return out


def generate(tier="quick", path=None):
    path = path or os.path.join(LEAN_DIR, "PyXABProofs", "Generated", "Geometry.lean")
    ipath = os.path.join(os.path.dirname(path), "Indices.lean")
    insts = instances(tier)
    body = [HEADER]
    ibody = [HEADER.replace("namespace PyXAB.Generated", "namespace PyXAB.GeneratedIdx")]
    names = []
    inames = []
    problems = []
    for (kind, K, d, dim) in insts:
        try:
            t = trace_instance(kind, K, d, dim)
        except Exception as e:  # the source no longer fits the translator
            problems.append(f"{kind} K={K} d={d} dim={dim}: {type(e).__name__}: {e}")
            continue
        if not t["parent_ok"] or not t["layer_ok"] or any(dp != 1 for dp in t["depths"]):
            problems.append(f"{kind} K={K} d={d} dim={dim}: bookkeeping of the traced call is off "
                            f"(parent_ok={t['parent_ok']} layer_ok={t['layer_ok']} depths={t['depths']})")
        nm = f"{kind}_K{K}_d{d}_dim{dim}"
        vs = " ".join(t["vars"])
        kidl = "[" + ",\n      ".join(t["kids"]) + "]"
        body.append(f"""
/-- traced children of `{kind}` (K={K}) on a {d}-D box split along dimension {dim} -/
theorem boxes_{nm} {{α : Type}} [Field α] [LinearOrder α] [IsStrictOrderedRing α] ({vs} : α) :
    childBoxes {lean_kind(kind, K)} ({t['box']} : Box α) {t['draw']} =
     {kidl} := by
  geo_boxes
""")
        names.append(f"boxes_{nm}")
        cps = "[" + ", ".join(t["cpoints"]) + "]"
        body.append(f"""theorem cpoints_{nm} {{α : Type}} [Field α] [LinearOrder α] [IsStrictOrderedRing α] ({vs} : α) :
    ({kidl} : List (Box α)).map Box.cpoint = {cps} := by
  geo_cpoints
""")
        names.append(f"cpoints_{nm}")
        idx = "[" + ", ".join(t["indices"]) + "]"
        n = len(t["kids"])
        ibody.append(f"""/-- traced index labels of the children of `{kind}` (K={K}), {d}-D box -/
theorem indices_{nm} (i : Nat) (hi : 1 ≤ i) :
    (List.range {n}).map (childIndex {lean_kind(kind, K)} {d} i) = {idx} := by
  geo_index
""")
        inames.append(f"indices_{nm}")
    body.append("\nend PyXAB.Generated\n")
    ibody.append("\nend PyXAB.GeneratedIdx\n")
    changed = False
    for pth, txt in ((path, "\n".join(body)), (ipath, "\n".join(ibody))):
        old = open(pth).read() if os.path.exists(pth) else None
        if old != txt:
            os.makedirs(os.path.dirname(pth), exist_ok=True)
            with open(pth, "w") as f:
                f.write(txt)
            changed = True
    return {"instances": len(insts), "theorems": names, "index_theorems": inames, "problems": problems, "changed": changed, "path": path}


if __name__ == "__main__":
    r = generate(sys.argv[1] if len(sys.argv) > 1 else "quick")
    print({k: (v if k != "theorems" else len(v)) for k, v in r.items()})
