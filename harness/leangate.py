"""Lean side of a check: regenerate tied files, build, audit axioms, scan sources."""
import os, re, subprocess, time, glob
from common import LEAN_DIR, VERIF

ALLOWED_AXIOMS = {"propext", "Classical.choice", "Quot.sound"}
FORBIDDEN = re.compile(r"\bsorry\b|\badmit\b|^\s*axiom\s|native_decide|bv_decide|implemented_by|\bunsafe\s|maxHeartbeats\s+0\b")


def _run(cmd, timeout=3000):
    t = time.time()
    p = subprocess.run(cmd, cwd=LEAN_DIR, stdout=subprocess.PIPE, stderr=subprocess.STDOUT, timeout=timeout)
    out = "\n".join(l for l in p.stdout.decode(errors="replace").split("\n") if "WARNING conda" not in l)
    return p.returncode, out, time.time() - t


def strip_comments(src):
    # remove block comments (nested not handled beyond one level) and line comments
    src = re.sub(r"/-.*?-/", "", src, flags=re.S)
    src = re.sub(r"--.*", "", src)
    return src


def scan_sources():
    hits = []
    files = glob.glob(os.path.join(LEAN_DIR, "PyXABModel", "**", "*.lean"), recursive=True) + \
        glob.glob(os.path.join(LEAN_DIR, "PyXABProofs", "**", "*.lean"), recursive=True) + \
        [os.path.join(LEAN_DIR, "Driver.lean")]
    for f in files:
        if f.endswith("AuditTool.lean"):
            continue
        for i, line in enumerate(strip_comments(open(f).read()).split("\n")):
            if FORBIDDEN.search(line):
                hits.append(f"{os.path.relpath(f, LEAN_DIR)}:{i+1}: {line.strip()[:100]}")
    return hits, len(files)


def build_driver():
    rc, out, dt = _run(["lake", "build", "driver"])
    return rc == 0, out, dt


def build_and_audit(prop, extra_modules=()):
    """Build Props/<prop> (+ generated tie modules) and audit every theorem in them.  Returns dict
    with ok, obligations, discharged, theorems [(name, axioms)], bad [(name, axioms)], log."""
    mod = f"PyXABProofs.Props.{prop}"
    res = {"module": mod, "ok": False, "obligations": 0, "discharged": 0, "theorems": [], "bad": [],
           "log": "", "build_s": 0.0, "failed_decls": [], "generated_theorems": 0}
    if not os.path.exists(os.path.join(LEAN_DIR, "PyXABProofs", "Props", f"{prop}.lean")):
        res["log"] = "no Props module"
        return res
    rc, out, dt = _run(["lake", "build", mod, "PyXABProofs.AuditTool"] + list(extra_modules))
    res["build_s"] = dt
    if rc != 0:
        res["log"] = out[-6000:]
        res["failed_decls"] = re.findall(r"error: ([^\n]*)", out)[:20]
        return res
    os.makedirs(os.path.join(LEAN_DIR, ".lake", "audit"), exist_ok=True)
    af = os.path.join(LEAN_DIR, ".lake", "audit", f"Audit_{prop}.lean")
    with open(af, "w") as f:
        f.write(f"import PyXABProofs.AuditTool\nimport {mod}\n" + "".join(f"import {m}\n" for m in extra_modules)
                + f"#audit_module {mod}\n" + "".join(f"#audit_module {m}\n" for m in extra_modules))
    rc, out, dt2 = _run(["lake", "env", "lean", af])
    res["build_s"] += dt2
    thms = re.findall(r"AUDIT-THM (\S+) AXIOMS \[(.*?)\]", out)
    done = re.findall(r"AUDIT-DONE \S+ (\d+)", out)
    if rc != 0 or len(done) != 1 + len(extra_modules):
        res["log"] = out[-4000:]
        return res
    for name, axs in thms:
        if re.search(r"\.(eq_def|eq_\d+|induct|induct_unfolding|fun_cases|fun_cases_unfolding|congr_simp|sizeOf_spec|injEq|inj|noConfusion)$", name):
            continue   # auto-generated equation/induction lemmas realised in this module
        axl = [a.strip() for a in axs.split(",") if a.strip()]
        res["theorems"].append((name, axl))
        if ".Generated" in name:
            res["generated_theorems"] += 1
        if set(axl) <= ALLOWED_AXIOMS:
            res["discharged"] += 1
        else:
            res["bad"].append((name, axl))
    res["obligations"] = len(res["theorems"])
    res["ok"] = (res["obligations"] > 0 and not res["bad"])
    return res


def leanchecker(modules, timeout=1800):
    """thorough tier: re-check the compiled .olean files of the property modules with the toolchain's
    independent checker"""
    rc, out, dt = _run(["lake", "env", "leanchecker"] + list(modules), timeout=timeout)
    return {"ok": rc == 0, "seconds": round(dt, 1), "modules": list(modules), "tail": out[-400:]}
