"""Translator tie for the synthetic objectives (C17): parses PyXAB/synthetic_obj/*.py from /repo with
`ast` and emits, from ONE intermediate representation,
  lean/PyXABProofs/Generated/ObjectivesReal.lean   noncomputable definitions over ℝ (theorems in Props/C17)
  lean/PyXABModel/Generated/ObjectivesFloat.lean   the same expressions over Float (driver cross-check)
Unknown syntax makes the translation fail (reported as a broken tie)."""
import ast, os, sys
from common import REPO, LEAN_DIR

FILES = ["Garland", "DoubleSine", "DifficultFunc", "Ackley", "Himmelblau", "Rastrigin", "Cexample"]


class Unsupported(Exception):
    pass


# ---------------------------------------------------------------- IR: nested tuples
def expr(node, env):
    """Python expression AST -> IR.  env: names bound to IR (locals), 'self' attributes -> ('param', name)."""
    if isinstance(node, ast.Constant):
        if isinstance(node.value, bool) or not isinstance(node.value, (int, float)):
            raise Unsupported(f"constant {node.value!r}")
        return ("const", repr(node.value))
    if isinstance(node, ast.Name):
        if node.id in env:
            return env[node.id]
        raise Unsupported(f"free name {node.id}")
    if isinstance(node, ast.Attribute):
        if isinstance(node.value, ast.Name) and node.value.id == "self":
            return ("param", node.attr)
        if isinstance(node.value, ast.Name) and node.value.id in ("np", "math") and node.attr in ("pi", "e"):
            return (node.attr,)
        if isinstance(node.value, ast.Name) and env.get(node.value.id, (None,))[0] == "vec" and node.attr == "size":
            return ("size",)
        raise Unsupported(f"attribute {ast.dump(node)[:60]}")
    if isinstance(node, ast.UnaryOp) and isinstance(node.op, ast.USub):
        return ("neg", expr(node.operand, env))
    if isinstance(node, ast.BinOp):
        ops = {ast.Add: "add", ast.Sub: "sub", ast.Mult: "mul", ast.Div: "div", ast.Pow: "pow"}
        for k, v in ops.items():
            if isinstance(node.op, k):
                if v == "pow":
                    if isinstance(node.right, ast.Constant) and isinstance(node.right.value, int) and node.right.value >= 0:
                        return ("ipow", expr(node.left, env), node.right.value)
                    return ("rpow", expr(node.left, env), expr(node.right, env))
                return (v, expr(node.left, env), expr(node.right, env))
        raise Unsupported(f"binop {type(node.op).__name__}")
    if isinstance(node, ast.Subscript):
        if isinstance(node.value, ast.Name) and node.value.id in env and env[node.value.id][0] == "vec":
            if isinstance(node.slice, ast.Constant):
                return ("idx", node.slice.value)
            if isinstance(node.slice, ast.Name) and env.get(node.slice.id, (None,))[0] == "loopvar":
                return ("elem",)
        raise Unsupported("subscript")
    if isinstance(node, ast.Call):
        fn = node.func
        name = None
        if isinstance(fn, ast.Attribute) and isinstance(fn.value, ast.Name) and fn.value.id in ("np", "math"):
            name = fn.attr
        elif isinstance(fn, ast.Name):
            name = fn.id
        args = [expr(a, env) for a in node.args]
        un = {"sqrt": "sqrt", "abs": "abs", "fabs": "abs", "sin": "sin", "cos": "cos", "exp": "exp", "floor": "floor"}
        if name in un and len(args) == 1:
            return (un[name], args[0])
        if name == "log" and len(args) == 1:
            return ("log", args[0])
        if name == "log" and len(args) == 2:
            return ("div", ("log", args[0]), ("log", args[1]))
        if name == "pow" and len(args) == 2:
            return ("rpow", args[0], args[1])
        if name in env.get("__helpers__", {}):
            return ("call", name, args)
        raise Unsupported(f"call {name}/{len(args)}")
    raise Unsupported(type(node).__name__)


def cond(node, env):
    if isinstance(node, ast.Compare) and len(node.ops) == 1:
        ops = {ast.Eq: "eq", ast.Lt: "lt", ast.LtE: "le", ast.Gt: "gt", ast.GtE: "ge", ast.NotEq: "ne"}
        for k, v in ops.items():
            if isinstance(node.ops[0], k):
                return (v, expr(node.left, env), expr(node.comparators[0], env))
    raise Unsupported("condition")


def is_dim_guard(st):
    """`if len(x) != d: raise ValueError(...)` -> d"""
    if isinstance(st, ast.If) and isinstance(st.test, ast.Compare) and isinstance(st.test.left, ast.Call) \
            and getattr(st.test.left.func, "id", None) == "len" and isinstance(st.test.ops[0], ast.NotEq) \
            and len(st.body) == 1 and isinstance(st.body[0], ast.Raise):
        exc = st.body[0].exc
        nm = exc.func.id if isinstance(exc, ast.Call) else getattr(exc, "id", None)
        if nm != "ValueError":
            raise Unsupported(f"dimension guard raises {nm}")
        return st.test.comparators[0].value
    return None


def body(stmts, env):
    """statement list -> IR value (with let / ite)"""
    if not stmts:
        raise Unsupported("function falls off the end")
    st, rest = stmts[0], stmts[1:]
    if isinstance(st, ast.Expr) and isinstance(st.value, ast.Constant):   # docstring
        return body(rest, env)
    if isinstance(st, ast.Return):
        return expr(st.value, env)
    if isinstance(st, ast.Assign) and len(st.targets) == 1 and isinstance(st.targets[0], ast.Name):
        tgt = st.targets[0].id
        if isinstance(st.value, ast.Call) and getattr(st.value.func, "attr", None) == "array":
            return body(rest, env)                       # x = np.array(x)
        v = expr(st.value, env)
        e2 = dict(env); e2[tgt] = ("var", tgt + "_")
        return ("let", tgt + "_", v, body(rest, e2))
    if isinstance(st, ast.If):
        c = cond(st.test, env)
        if st.orelse:
            return ("ite", c, body(st.body + rest, env), body(st.orelse + rest, env))
        return ("ite", c, body(st.body + rest, env), body(rest, env))
    if isinstance(st, ast.For):
        # for i in range(x.size): S = <expr>   ->  fold over the coordinates
        if not (isinstance(st.target, ast.Name) and len(st.body) == 1 and isinstance(st.body[0], ast.Assign)):
            raise Unsupported("for-loop shape")
        acc = st.body[0].targets[0].id
        e2 = dict(env); e2[st.target.id] = ("loopvar",); e2[acc] = ("var", "acc")
        step = expr(st.body[0].value, e2)
        e3 = dict(env); e3[acc] = ("var", acc + "_")
        return ("let", acc + "_", ("fold", env[acc], step), body(rest, e3))
    raise Unsupported(type(st).__name__)


# ---------------------------------------------------------------- printers
class RealP:
    ty = "ℝ"
    def const(self, s):
        return f"({s} : ℝ)"
    un = {"sqrt": "Real.sqrt", "sin": "Real.sin", "cos": "Real.cos", "exp": "Real.exp", "log": "Real.log"}
    def p(self, e):
        k = e[0]
        if k == "const": return self.const(e[1])
        if k == "var": return e[1]
        if k == "param": return e[1]
        if k == "pi": return "Real.pi"
        if k == "e": return "(Real.exp 1)"
        if k == "idx": return f"x{e[1]}"
        if k == "elem": return "xi"
        if k == "size": return "(xs.length : ℝ)"
        if k == "neg": return f"(-{self.p(e[1])})"
        if k in ("add", "sub", "mul", "div"):
            return f"({self.p(e[1])} {dict(add='+', sub='-', mul='*', div='/')[k]} {self.p(e[2])})"
        if k == "ipow": return f"({self.p(e[1])} ^ ({e[2]} : ℕ))"
        if k == "rpow": return f"({self.p(e[1])} ^ ({self.p(e[2])} : ℝ))"
        if k == "abs": return f"|{self.p(e[1])}|"
        if k == "floor": return f"((⌊{self.p(e[1])}⌋ : ℤ) : ℝ)"
        if k in self.un: return f"({self.un[k]} {self.p(e[1])})"
        if k == "call": return f"({e[1]} {' '.join(self.p(a) for a in e[2])})"
        if k == "let": return f"(let {e[1]} := {self.p(e[2])}\n    {self.p(e[3])})"
        if k == "ite": return f"(if {self.c(e[1])} then {self.p(e[2])} else {self.p(e[3])})"
        if k == "fold": return f"(xs.foldl (fun acc xi => {self.p(e[2])}) {self.p(e[1])})"
        raise Unsupported(k)
    def c(self, c):
        op = dict(eq="=", lt="<", le="≤", gt=">", ge="≥", ne="≠")[c[0]]
        return f"{self.p(c[1])} {op} {self.p(c[2])}"


class FloatP(RealP):
    ty = "Float"
    def const(self, s):
        return f"({float(s)!r} : Float)"
    un = {"sqrt": "Float.sqrt", "sin": "Float.sin", "cos": "Float.cos", "exp": "Float.exp", "log": "Float.log"}
    def p(self, e):
        k = e[0]
        if k == "pi": return "(3.141592653589793 : Float)"
        if k == "e": return "(2.718281828459045 : Float)"
        if k == "ipow": return f"(Float.pow {self.p(e[1])} ({float(e[2])!r} : Float))"
        if k == "rpow": return f"(Float.pow {self.p(e[1])} {self.p(e[2])})"
        if k == "abs": return f"(Float.abs {self.p(e[1])})"
        if k == "floor": return f"(Float.floor {self.p(e[1])})"
        if k == "size": return "xs.length.toFloat"
        return super().p(e)
    def c(self, c):
        op = dict(eq="==", lt="<", le="≤", gt=">", ge="≥", ne="!=")[c[0]]
        return f"{self.p(c[1])} {op} {self.p(c[2])}"


def params_of(e, acc=None):
    acc = acc if acc is not None else []
    if isinstance(e, tuple):
        if e and e[0] == "param" and e[1] not in acc:
            acc.append(e[1])
        for x in e[1:]:
            if isinstance(x, (tuple, list)):
                params_of(x, acc)
    elif isinstance(e, list):
        for x in e:
            params_of(x, acc)
    return acc


def translate_module(name):
    src = open(os.path.join(REPO, "PyXAB", "synthetic_obj", name + ".py")).read()
    tree = ast.parse(src)
    helpers = {}
    classes = []
    for node in tree.body:
        if isinstance(node, ast.FunctionDef):
            env = {a.arg: ("var", a.arg) for a in node.args.args}
            env["__helpers__"] = dict(helpers)
            helpers[node.name] = ([a.arg for a in node.args.args], body(node.body, env))
        elif isinstance(node, ast.ClassDef):
            info = {"name": node.name, "attrs": {}, "ctor_args": [], "random": []}
            for fn in node.body:
                if isinstance(fn, ast.FunctionDef) and fn.name == "__init__":
                    info["ctor_args"] = [a.arg for a in fn.args.args[1:]]
                    env = {a: ("var", a) for a in info["ctor_args"]}
                    env["__helpers__"] = helpers
                    for st in fn.body:
                        if isinstance(st, ast.Assign) and isinstance(st.targets[0], ast.Attribute):
                            attr = st.targets[0].attr
                            v = st.value
                            if isinstance(v, ast.Call) and getattr(v.func, "attr", None) == "normal":
                                info["random"].append(attr)           # self.perturb = np.random.normal(0, 1)
                                continue
                            e2 = dict(env)
                            info["attrs"][attr] = expr(v, e2)
                        elif isinstance(st, ast.If) and all(isinstance(b, ast.Raise) for b in st.body):
                            continue                                   # argument validation (hypotheses of the theorems)
                        elif isinstance(st, ast.Expr):
                            continue
                        else:
                            raise Unsupported(f"{node.name}.__init__: {type(st).__name__}")
                if isinstance(fn, ast.FunctionDef) and fn.name == "f":
                    stmts = [s for s in fn.body if not (isinstance(s, ast.Expr) and isinstance(s.value, ast.Constant))]
                    dim = None
                    if stmts and is_dim_guard(stmts[0]) is not None:
                        dim = is_dim_guard(stmts[0]); stmts = stmts[1:]
                    env = {"x": ("vec",), "__helpers__": helpers}
                    # `x = x[0]` rebinding / x1 = x[0]
                    info["dim"] = dim
                    info["f"] = body(stmts, env)
            classes.append(info)
    return helpers, classes


def emit(printer, helpers_by_mod, classes_by_mod, real):
    P = printer
    out = []
    for mod in FILES:
        for hn, (args, b) in helpers_by_mod[mod].items():
            out.append(f"{'noncomputable ' if real else ''}def {hn} ({' '.join(args)} : {P.ty}) : {P.ty} :=\n  {P.p(b)}\n")
        for c in classes_by_mod[mod]:
            nm = c["name"]
            for attr, e in c["attrs"].items():
                ps = [a for a in c["ctor_args"] if ("var", a) in flatten(e)] + [r for r in c["random"] if ("param", r) in flatten(e)]
                sig = "".join(f" ({a} : {P.ty})" for a in ps)
                out.append(f"{'noncomputable ' if real else ''}def {nm}.{attr}{sig} : {P.ty} :=\n  {P.p(e)}\n")
            ps = params_of(c["f"])
            sig = "".join(f" ({a} : {P.ty})" for a in ps)
            if c["dim"] is None:
                out.append(f"{'noncomputable ' if real else ''}def {nm}.f{sig} (xs : List {P.ty}) : Except Err {P.ty} :=\n  .ok {P.p(c['f'])}\n")
            else:
                pat = "[" + ", ".join(f"x{i}" for i in range(c["dim"])) + "]"
                out.append(f"{'noncomputable ' if real else ''}def {nm}.f{sig} (x : List {P.ty}) : Except Err {P.ty} :=\n"
                           f"  match x with\n  | {pat} => .ok {P.p(c['f'])}\n  | _ => .error .valueError\n")
    if not real:
        # dispatch table for the driver: class name, parameter values (in the order of `f`'s signature), point
        out.append("def evalObj (name : String) (ps : List Float) (x : List Float) : Option (Except Err Float) :=")
        out.append("  match name, ps with")
        for mod in FILES:
            for c in classes_by_mod[mod]:
                ps = params_of(c["f"])
                pat = "[" + ", ".join(ps) + "]"
                out.append(f"  | \"{c['name']}\", {pat} => some ({c['name']}.f {' '.join(ps)} x)")
        out.append("  | _, _ => none\n")
        out.append("def objParams : List (String × List String) := [" + ", ".join(
            "(\"" + c["name"] + "\", [" + ", ".join("\"" + p + "\"" for p in params_of(c["f"])) + "])"
            for mod in FILES for c in classes_by_mod[mod]) + "]\n")
    return "\n".join(out)


def flatten(e):
    out = []
    if isinstance(e, tuple):
        out.append(e)
        for x in e[1:]:
            out += flatten(x)
    elif isinstance(e, list):
        for x in e:
            out += flatten(x)
    return out


def generate():
    problems = []
    helpers_by_mod, classes_by_mod = {}, {}
    for mod in FILES:
        try:
            h, c = translate_module(mod)
        except Exception as e:
            problems.append(f"{mod}: {type(e).__name__}: {e}")
            h, c = {}, []
        helpers_by_mod[mod], classes_by_mod[mod] = h, c
    real = ("/-\n  GENERATED by harness/translate_objectives.py from /repo/PyXAB/synthetic_obj/*.py. Do not edit.\n-/\n"
            "import PyXABModel.Model.Partition\nimport Mathlib.Analysis.SpecialFunctions.Pow.Real\n"
            "import Mathlib.Analysis.SpecialFunctions.Trigonometric.Basic\nimport Mathlib.Analysis.SpecialFunctions.Sqrt\n"
            "import Mathlib.Analysis.SpecialFunctions.Log.Basic\nset_option linter.unusedVariables false\n"
            "namespace PyXAB.Obj\nopen PyXAB\n\n" + emit(RealP(), helpers_by_mod, classes_by_mod, True) + "\nend PyXAB.Obj\n")
    flt = ("/-\n  GENERATED by harness/translate_objectives.py from /repo/PyXAB/synthetic_obj/*.py. Do not edit.\n-/\n"
           "import PyXABModel.Model.Partition\nset_option linter.unusedVariables false\n"
           "namespace PyXAB.ObjF\nopen PyXAB\n\n" + emit(FloatP(), helpers_by_mod, classes_by_mod, False) + "\nend PyXAB.ObjF\n")
    changed = False
    for path, text in [(os.path.join(LEAN_DIR, "PyXABProofs", "Generated", "ObjectivesReal.lean"), real),
                       (os.path.join(LEAN_DIR, "PyXABModel", "Generated", "ObjectivesFloat.lean"), flt)]:
        os.makedirs(os.path.dirname(path), exist_ok=True)
        old = open(path).read() if os.path.exists(path) else None
        if old != text:
            open(path, "w").write(text); changed = True
    classes = [c["name"] for m in FILES for c in classes_by_mod[m]]
    sigs = {c["name"]: {"params": params_of(c["f"]), "dim": c["dim"], "ctor_args": c["ctor_args"], "random": c["random"],
                        "attrs": list(c["attrs"])} for m in FILES for c in classes_by_mod[m]}
    return {"problems": problems, "classes": classes, "changed": changed, "theorems": [], "sigs": sigs}


if __name__ == "__main__":
    print(generate())
