"""C17: evaluate the real synthetic objectives on seeded / grid / near-maximiser points; compare with the
Float instance of the translated definitions (validates the translator) and run the C17 monitor."""
import math, random, importlib
from common import *
from framework import Case
import numpy as np

DOMAINS = {
    "Garland": [[0.0, 1.0]], "Perturbed_Garland": [[0.0, 1.0]],
    "DoubleSine": [[0.0, 1.0]], "Perturbed_DoubleSine": [[0.0, 1.0]],
    "DifficultFunc": [[0.0, 1.0]],
    "Ackley": [[-1.0, 1.0], [-1.0, 1.0]], "Ackley_Normalized": [[-1.0, 1.0], [-1.0, 1.0]],
    "Himmelblau": [[-5.0, 5.0], [-5.0, 5.0]], "Himmelblau_Normalized": [[-5.0, 5.0], [-5.0, 5.0]],
    "Rastrigin": None, "Rastrigin_Normalized": None,          # [-1,1]^d, d = 1..4
    "Cexample": [[0.0, 1 / math.e]],
}
MAXIMISER = {
    # the documented maximiser is the constructor argument tmax (not whatever the object stored)
    "DoubleSine": lambda o: [getattr(o, "_verif_args", {}).get("tmax", 0.5)],
    "Perturbed_DoubleSine": lambda o: [getattr(o, "_verif_args", {}).get("tmax", 0.5)], "DifficultFunc": lambda o: [0.5],
    "Ackley": lambda o: [0.0, 0.0], "Ackley_Normalized": lambda o: [0.0, 0.0],
    "Himmelblau": lambda o: [3.0, 2.0], "Himmelblau_Normalized": lambda o: [3.0, 2.0],
    "Rastrigin": lambda o: [0.0, 0.0], "Rastrigin_Normalized": lambda o: [0.0, 0.0, 0.0], "Cexample": lambda o: [0.0],
}
MODULE = {"Perturbed_Garland": "Garland", "Perturbed_DoubleSine": "DoubleSine", "Ackley_Normalized": "Ackley",
          "Himmelblau_Normalized": "Himmelblau", "Rastrigin_Normalized": "Rastrigin"}


def construct(cls_name, rnd):
    mod = importlib.import_module("PyXAB.synthetic_obj." + MODULE.get(cls_name, cls_name))
    cls = getattr(mod, cls_name)
    args = {}
    if "DoubleSine" in cls_name:
        args = {"rho1": rnd.choice([0.3, 0.05, 1.0, rnd.uniform(0.05, 1)]), "rho2": rnd.choice([0.8, 0.05, 1.0, rnd.uniform(0.05, 1)]),
                "tmax": rnd.choice([0.5, 0.0, 1.0, rnd.uniform(0, 1)])}
    saved = np.random.normal
    pert = rnd.choice([0.0, -1.5, 2.25, rnd.gauss(0, 1)])
    np.random.normal = lambda *a, **k: pert
    try:
        obj = cls(**args)
    finally:
        np.random.normal = saved
    try:
        obj._verif_args = dict(args)
    except Exception:
        pass
    return obj, args


def gen_points(rnd, cls_name, obj, n):
    dom = DOMAINS[cls_name]
    if dom is None:
        d = rnd.choice([1, 2, 3, 4])
        dom = [[-1.0, 1.0]] * d
    pts = []
    for _ in range(n):
        m = rnd.random()
        if m < 0.15:
            p = [rnd.choice([lo, hi, (lo + hi) / 2]) for lo, hi in dom]
        elif m < 0.35 and cls_name in MAXIMISER:
            c = MAXIMISER[cls_name](obj)
            c = (c + [0.0] * len(dom))[:len(dom)]
            p = [min(hi, max(lo, x + rnd.choice([0, 1e-12, -1e-9, 1e-6, -1e-3, 2.0 ** -rnd.randint(1, 40)]))) for x, (lo, hi) in zip(c, dom)]
        elif m < 0.5:
            p = [lo + (hi - lo) * rnd.randint(0, 64) / 64 for lo, hi in dom]
        else:
            p = [rnd.uniform(lo, hi) for lo, hi in dom]
        pts.append(p)
    return pts


def gen_obj_case(seed, idx, sigs, cls_name=None, n_points=60):
    rnd = random.Random(f"obj-{seed}-{idx}-{cls_name}")
    cls_name = cls_name or rnd.choice(sorted(DOMAINS))
    obj, args = construct(cls_name, rnd)
    meta = {"gen": "objective", "seed": seed, "idx": idx, "class": cls_name, "args": args,
            "perturb": getattr(obj, "perturb", None)}
    case = Case(f"obj-{cls_name}-{seed}-{idx}", meta)
    case.tags[f"class={cls_name}"] += 1
    sig = sigs.get(cls_name)
    fmax = obj.fmax
    pts = gen_points(rnd, cls_name, obj, n_points)
    meta["ops"] = [[round(x, 6) for x in p] for p in pts[:3]]
    for p in pts:
        try:
            v = obj.f(list(p))
            v2 = obj.f(list(p))
        except Exception as e:
            case.fail("C17", "exception-in-domain", f"{type(e).__name__}: {e} at {p}", cls=cls_name); continue
        v = float(v)
        if sig is not None:
            ps = [float(getattr(obj, a)) for a in sig["params"]]
            case.op(f"O.eval {cls_name} {len(ps)} " + " ".join(fbits(x) for x in ps) + f" {len(p)} " + " ".join(fbits(x) for x in p),
                    ("ok", v))
        if not math.isfinite(v):
            case.fail("C17", "non-finite", f"f({p}) = {v!r}", cls=cls_name)
        elif v > fmax:
            case.fail("C17", "exceeds-fmax", f"f({p}) = {v!r} > fmax = {fmax!r}", cls=cls_name)
        if float(v2) != v:
            case.fail("C17", "impure", f"two evaluations at {p} differ", cls=cls_name)
        # the same point handed over as the caller's own float64 array (a row of a grid), as a tuple: same value, and the
        # caller's array comes back untouched
        if rnd.random() < 0.25:
            grid = np.array([list(p), list(p)], dtype=float)
            row = grid[1]
            try:
                va = float(obj.f(row)); vb = float(obj.f(row)); vt = float(obj.f(tuple(p)))
            except Exception as e:
                case.fail("C17", "exception-in-domain", f"{type(e).__name__}: {e} at {p} given as an array / tuple", cls=cls_name); continue
            if grid.tolist() != [list(p), list(p)]:
                case.fail("C17", "argument-modified", f"the caller's array {list(p)} came back as {row.tolist()}", cls=cls_name)
            elif va != v or vb != v or vt != v:
                case.fail("C17", "impure", f"f({p}) = {v!r} as a list, {va!r} / {vb!r} as an array, {vt!r} as a tuple", cls=cls_name)
    # one mutable point object refilled in place between evaluations (a list, a NumPy buffer swept over a grid): the value
    # is a function of the coordinates, not of the object they arrive in
    try:
        buf_l, buf_a = list(pts[0]), np.array(pts[0], dtype=float)
        for p in pts[1:8]:
            if len(p) != len(buf_l):
                continue
            want = float(obj.f(list(p)))
            obj.f(buf_l); buf_l[:] = list(p); got_l = float(obj.f(buf_l))
            obj.f(buf_a); buf_a[:] = p; got_a = float(obj.f(buf_a))
            if got_l != want or got_a != want:
                case.fail("C17", "impure", f"a point buffer refilled in place with {p}: f = {got_l!r} (list) / {got_a!r} (array), a fresh list gives {want!r}", cls=cls_name)
                break
    except Exception as e:
        case.fail("C17", "exception-in-domain", f"{type(e).__name__}: {e} with a reused point buffer", cls=cls_name)
    # purity across calls: the same object must give what a fresh object gives, whatever it evaluated before
    if DOMAINS[cls_name] is None:
        fresh, _ = construct(cls_name, random.Random(f"obj-{seed}-{idx}-{cls_name}"))
        for dd in (2, 1, 3, 4, 2, 1):
            p = [rnd.uniform(-1, 1) for _ in range(dd)]
            try:
                v1 = float(obj.f(list(p)))
                f2, _ = construct(cls_name, random.Random(f"obj-{seed}-{idx}-{cls_name}"))
                v2 = float(f2.f(list(p)))
                if v1 != v2:
                    case.fail("C17", "impure", f"f({p}) = {v1!r} on an object that evaluated other points before, {v2!r} on a fresh object", cls=cls_name)
                    break
            except Exception as e:
                case.fail("C17", "exception-in-domain", f"{type(e).__name__}: {e} at {p}", cls=cls_name); break
    # attainment
    if cls_name in MAXIMISER:
        xs = MAXIMISER[cls_name](obj)
        v = float(obj.f(list(xs)))
        if abs(v - fmax) > 1e-9 * max(1.0, abs(fmax)):
            case.fail("C17", "fmax-not-attained", f"f({xs}) = {v!r}, fmax = {fmax!r}", cls=cls_name)
    elif "Garland" in cls_name:
        v = float(obj.f([math.pi / 6]))
        if not (0 <= fmax - v < 0.003):
            case.fail("C17", "garland-gap", f"fmax - f(pi/6) = {fmax - v!r}", cls=cls_name)
    # wrong dimension
    want = len(DOMAINS[cls_name]) if DOMAINS[cls_name] else None
    if want is not None:
        grid = [[0.1 + 0.05 * j_] * want for j_ in range(want + 1)]         # (want+1) points of the right dimension, stacked
        for bad in ([0.1] * (want + 1), [], grid, np.array(grid)):
            try:
                obj.f(bad if isinstance(bad, np.ndarray) else list(bad))
                case.fail("C17", "wrong-dimension-accepted", f"an argument of {len(bad)} entries ({type(bad).__name__}) accepted", cls=cls_name)
            except ValueError:
                if sig is not None:
                    ps = [float(getattr(obj, a)) for a in sig["params"]]
                    if bad is not grid and not isinstance(bad, np.ndarray):
                        case.op(f"O.eval {cls_name} {len(ps)} " + " ".join(fbits(x) for x in ps) + f" {len(bad)} " + " ".join(fbits(x) for x in bad),
                                "ERR ValueError")
            except Exception as e:
                case.fail("C17", "wrong-dimension-other-exception", f"{type(e).__name__}", cls=cls_name)
    return case


def compare_obj(cases):
    """numeric comparison (1e-9 relative) of the driver's Float evaluation with the real f"""
    lines = []
    for c in cases:
        lines += [l for l, _ in c.ops]
    out = run_driver(lines) if lines else []
    mism, k = [], 0
    for c in cases:
        for i, (l, e) in enumerate(c.ops):
            got = out[k]; k += 1
            ok = True
            if isinstance(e, tuple):
                if not got.startswith("ok "):
                    ok = False
                else:
                    g = from_bits(got.split()[1])
                    ok = (g == e[1]) or (math.isnan(g) and math.isnan(e[1])) or abs(g - e[1]) <= 1e-9 * max(abs(g), abs(e[1]), 1e-300) + 1e-12
                exp = f"ok {e[1]!r}"
            else:
                ok = got == e
                exp = e
            if not ok and not any(m[0] is c for m in mism):
                mism.append((c, i, l, exp, got if not got.startswith("ok ") else f"ok {from_bits(got.split()[1])!r}"))
    return mism, k
