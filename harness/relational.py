"""Relational runs on the real classes for C14 (reproducible / isolated / inputs untouched),
C15 (time labels ignored, recommendation queries harmless) and C16 (affine equivariance)."""
import random, math, copy, sys
from common import *
from framework import Case
import algo_cases
from algo_cases import ADAPTERS, gen_algo_case, make_reward_fn, guarded

CFG_KEYS = ("kind", "K", "d", "box", "T", "rmode", "qmode", "params")


def base_force(meta, **extra):
    f = {k: copy.deepcopy(meta[k]) for k in CFG_KEYS}
    f["bmode"] = meta["bmode"]
    f["mid_queries"] = []
    f.update(extra)
    return f


def same_points(a, b, tol=0.0):
    if a is None or b is None:
        return a is b
    if len(a) != len(b):
        return False
    for p, q in zip(a, b):
        if p is None or q is None:
            if p is not q:
                return False
            continue
        if len(p) != len(q):
            return False
        for x, y in zip(p, q):
            if x != y and not (tol and abs(x - y) <= tol * max(abs(x), abs(y), 1e-300)):
                return False
    return True


def first_diff_idx(a, b):
    for i, (p, q) in enumerate(zip(a, b)):
        if list(p) != list(q):
            return i
    return min(len(a), len(b))


# ------------------------------------------------------------------ C15
C15_LABEL_ALGOS = ["T_HOO", "HCT", "VHCT", "Zooming", "POO", "GPO", "PCT", "VPCT", "DOO", "SOO", "SequOOL", "VROOM"]
C15_QUERY_ALGOS = ["T_HOO", "HCT", "VHCT", "Zooming", "POO"]


def c15_group(seed, idx, algo):
    f0 = {"t0": 1, "query_rounds": [], "mid_queries": []}
    if algo in ("POO", "GPO"):
        f0["base"] = ["T_HOO", "HCT", "VHCT"][idx % 3]      # every base learner under every wrapper
        if algo == "POO":
            f0["T"] = [150, 100][idx % 2]                     # long enough for a queried learner to be served again several times
    base = gen_algo_case(seed, idx, algo, force=f0)
    out = [base]
    if base.trace is None or base.trace["stopped"]:
        return out
    T = base.meta["T"]
    rnd = random.Random(f"c15-{seed}-{idx}-{algo}")
    variants = [("t0=0", {"t0": 0, "query_rounds": []}), ("t0=17", {"t0": 17, "query_rounds": []})]
    lab = []
    cur = rnd.randint(0, 5)
    for _ in range(T):
        cur += rnd.randint(1, 4); lab.append(cur)
    variants.append(("labels=increasing", {"labels": lab, "query_rounds": []}))
    variants.append(("labels=constant", {"labels": [7] * T, "query_rounds": []}))
    far0 = rnd.choice([10 ** 3, 10 ** 6, 10 ** 9])
    variants.append(("labels=far", {"labels": [far0 + rnd.choice([1, 1000]) * i for i in range(T)], "query_rounds": []}))
    if algo in C15_QUERY_ALGOS:
        qs = sorted(set(rnd.sample(range(1, T), min(T - 1, rnd.choice([1, 3, 10])))))
        variants.append((f"queries@{qs[:5]}", {"t0": 1, "query_rounds": qs}))
        variants.append(("queries@every-round", {"t0": 1, "query_rounds": list(range(1, T))}))
    for nm, extra in variants:
        v = gen_algo_case(seed, idx, algo, force=base_force(base.meta, **extra))
        v.name += "-" + nm
        v.meta["variant"] = nm
        if v.trace is None or not same_points(base.trace["points"], v.trace["points"]) or not same_points([base.trace["last"]], [v.trace["last"]]):
            i = first_diff_idx(base.trace["points"], v.trace["points"]) if v.trace else 0
            sig = "query-dependence" if nm.startswith("queries") else "time-dependence"
            base.fail("C15", sig, f"variant {nm}: run differs from the t0=1 run at round {i}", algo=algo, variant=nm)
        out.append(v)
    base.tags[f"c15-variants={len(variants)}"] += 1
    return out


# ------------------------------------------------------------------ C16
def affine_box(box, a, b):
    return [[a[j] * lo + b[j], a[j] * hi + b[j]] for j, (lo, hi) in enumerate(box)]


def c16_group(seed, idx, algo, directed=None):
    rnd = random.Random(f"c16-{seed}-{idx}-{algo}")
    exact = rnd.random() < 0.7 or directed is not None
    force0 = {"t0": 1, "query_rounds": [], "mid_queries": [], "rmode": rnd.choice(["dyadic", "negative", "few", "const", "alt", "zero", "objective", "objective"])}
    if exact:
        force0["bmode"] = rnd.choice(["unit", "shift", "pow2", "neg"])
        force0["qmode"] = rnd.choice(["dyadic", "half", "end"])
    if idx % 8 in (2, 4):
        force0["bmode"] = rnd.choice(["unit", "shift", "zeroedge"])      # the random partitions on integer-spelled boxes
    force0["spell_ints"] = (idx % 2 == 0)       # integral bounds written as Python ints in the base run and in its images
    if algo not in ("VROOM", "StroquOOL"):
        # every partition class, and odd as well as even arities, under every algorithm
        force0["kind"] = ["binary", "kary", "randBinary", "dimBinary", "randKary", "kary", "kary", "binary"][idx % 8]
        force0["K"] = [3, 5, 7, 2, 4, 3, 11, 3][idx % 8]
    if directed is not None:
        force0.update(directed)
    base = gen_algo_case(seed, idx, algo, force=force0)
    out = [base]
    if base.trace is None or base.trace["stopped"]:
        return out
    d = base.meta["d"]
    kind = base.meta["kind"]
    doo_default = (algo == "DOO" and "delta_c" not in base.meta["params"])
    maps = []
    sc = [2.0 ** rnd.randint(-6, 8) for _ in range(d)]
    if not doo_default:
        maps.append(("scale-pow2", sc, [0.0] * d, True))
    tr = [float(rnd.randint(-64, 64)) * 2.0 ** rnd.randint(-3, 3) for _ in range(d)]
    # a translation is exact only while every coordinate keeps few fractional bits: midpoint partitions, or random
    # splits at fractions 0, 1/2, 1 (dyadic fractions k/2^6 add up to six bits per level and overflow the mantissa)
    tr_exact = exact and (kind in ("binary", "dimBinary") or (kind == "randBinary" and base.meta["qmode"] in ("half", "end")))
    if algo == "VROOM" and base.meta["qmode"] == "dyadic":
        tr_exact = False
    maps.append(("translate", [1.0] * d, tr, tr_exact))
    if not doo_default:
        maps.append(("affine", sc, tr, tr_exact))
        maps.append(("scale-arbitrary", [rnd.uniform(0.1, 10) for _ in range(d)], [0.0] * d, False))
    if exact and not doo_default:
        maps.append(("scale-tiny", [2.0 ** -rnd.randint(25, 40) for _ in range(d)], [0.0] * d, True))
        maps.append(("scale-huge", [2.0 ** rnd.randint(25, 40) for _ in range(d)], [0.0] * d, True))
    if exact and kind in ("binary", "dimBinary") and base.meta["bmode"] in ("unit", "shift") and base.meta["T"] <= 300:
        # far translation: exact while the cells keep fewer than ~25 fractional bits
        maps.append(("translate-far", [1.0] * d, [float(rnd.choice([-1, 1])) * 2.0 ** rnd.randint(18, 24) for _ in range(d)], True))
    for nm, a, b, is_exact in maps:
        nb = affine_box(base.meta["box"], a, b)
        if base.meta["rmode"] == "objective" and not is_exact:
            continue      # rewards computed from the points: only maps that are exact in floating point keep them identical
        v = gen_algo_case(seed, idx, algo, force=base_force(base.meta, box=nb, t0=1, query_rounds=[], mid_queries=[], spell_ints=(idx % 2 == 0),
                                                             reward_box=base.meta["box"], pullback=(a, b)))
        v.name += "-" + nm
        v.meta["variant"] = nm
        if v.trace is None:
            base.fail("C16", "variant-failed", nm, algo=algo); out.append(v); continue
        mapped = [[a[j] * x + b[j] for j, x in enumerate(p)] for p in base.trace["points"]]
        ml = None if base.trace["last"] is None else [a[j] * x + b[j] for j, x in enumerate(base.trace["last"])]
        if is_exact:
            # the map must really be exact on everything this run produced (deep chains of cells run out of mantissa
            # bits after a translation): check the round trip on every coordinate, else compare with the tolerance
            pts_all = base.trace["points"] + ([base.trace["last"]] if base.trace["last"] is not None else [])
            is_exact = all(((a[j] * x + b[j]) - b[j]) / a[j] == x for p in pts_all for j, x in enumerate(p))
            if not is_exact:
                base.tags["c16-exactness-lost-in-deep-cells"] += 1
        if is_exact:
            ok = same_points(mapped, v.trace["points"]) and same_points([ml], [v.trace["last"]])
            if not ok and len(mapped) == len(v.trace["points"]):
                # the image run computes its own midpoints: deep in the tree its cells can need one more mantissa bit than the
                # base run's (larger magnitude after the map).  A first difference of a few ulps, after many rounds of exact
                # agreement, is that; the comparison of this pair continues with the tolerance
                k0 = first_diff_idx(mapped, v.trace["points"])
                if k0 is not None and 10 <= k0 < len(mapped) and len(mapped[k0]) == len(v.trace["points"][k0]) and \
                        all(abs(x - y) <= 4 * math.ulp(max(abs(x), abs(y))) for x, y in zip(mapped[k0], v.trace["points"][k0])):
                    base.tags["c16-exactness-lost-in-deep-cells"] += 1
                    is_exact = False
        if not is_exact:
            # inexact map: compare to 1e-9 relative to the size of the image box in each dimension
            scale = [max(abs(lo), abs(hi), abs(hi - lo)) for lo, hi in nb]

            def close(p, q):
                return len(p) == len(q) and all(abs(x - y) <= 1e-9 * scale[j] for j, (x, y) in enumerate(zip(p, q)))
            ok = len(mapped) == len(v.trace["points"]) and all(close(p, q) for p, q in zip(mapped, v.trace["points"]))
            ok = ok and ((ml is None) == (v.trace["last"] is None)) and (ml is None or close(ml, v.trace["last"]))
            if not ok and len(mapped) == len(v.trace["points"]):
                # an inexact map moves every coordinate by a rounding error: a decision that sits exactly on a tie in the base
                # run (an arm on a shared face of two cells, ...) may legitimately fall the other way in the image, after which
                # the two runs have nothing to do with each other.  Reported for an inexact map: deviations that are small
                # (a loss of precision); a gross divergence only if the runs never agreed (it starts in the first rounds)
                bad = [k_ for k_, (p_, q_) in enumerate(zip(mapped, v.trace["points"])) if not close(p_, q_)]
                if bad:
                    k0 = bad[0]
                    dev = max(abs(x - y) / scale[j] for j, (x, y) in enumerate(zip(mapped[k0], v.trace["points"][k0])))
                    if dev > 1e-4 and k0 >= 3:
                        base.tags["c16-gross-divergence-under-inexact-map-not-counted"] += 1
                        ok = True
        if not ok:
            i = first_diff_idx(mapped, v.trace["points"])
            base.fail("C16", "not-equivariant", f"map {nm} (a={a}, b={b}, exact={is_exact}): image run differs from the mapped run at round {i}: "
                      f"{v.trace['points'][i] if i < len(v.trace['points']) else None} vs {mapped[i] if i < len(mapped) else None}", algo=algo, variant=nm)
        base.tags[f"c16-map={nm}{'-exact' if is_exact else ''}"] += 1
        out.append(v)
    return out


# ------------------------------------------------------------------ C14
def plain_run(algo, meta, rewards, np_seed, pcls=None, construct_only=False):
    """documented loop with the REAL NumPy generator seeded once; returns (points, last, algo object)"""
    ad = ADAPTERS[algo]
    if algo in ("POO", "GPO", "PCT", "VPCT"):
        ad = copy.copy(ad)
    np.random.seed(np_seed)
    pcls = pcls or make_partition_class(meta["kind"], meta["K"], None)
    box = [list(iv) for iv in meta["box"]]
    a = guarded(ad.construct, copy.deepcopy(meta["params"]), box, pcls, budget=20.0)
    if construct_only:
        return a, box
    pts = []
    for i, r in enumerate(rewards):
        try:
            p = guarded(a.pull, meta["t0"] + i)
            pts.append(list(map(float, p)))
            guarded(a.receive_reward, meta["t0"] + i, r)
        except Exception as e:          # a crash is part of the (reproducible) behaviour, not a C14 matter
            pts.append(["EXC", type(e).__name__]); break
    try:
        last = list(map(float, guarded(a.get_last_point)))
    except Exception as e:
        last = ["EXC", type(e).__name__]
    return pts, last, box


def step_instance(a, t, r, pts):
    try:
        p = guarded(a.pull, t)
        pts.append(list(map(float, p)))
        guarded(a.receive_reward, t, r)
        return True
    except Exception as e:
        pts.append(["EXC", type(e).__name__])
        return False


def call_instance(a, what, t, r, pts):
    try:
        if what == "pull":
            pts.append(list(map(float, guarded(a.pull, t))))
        else:
            guarded(a.receive_reward, t, r)
        return True
    except Exception as e:
        pts.append(["EXC", type(e).__name__])
        return False


def last_of(a):
    try:
        return list(map(float, guarded(a.get_last_point)))
    except Exception as e:
        return ["EXC", type(e).__name__]


FRESH_SCRIPT = """
import sys, json
sys.path.insert(0, %r)
import relational
args = json.loads(sys.stdin.read())
pts, last, box = relational.plain_run(args['algo'], args['meta'], args['rewards'], args['seed'])
print('RESULT ' + json.dumps({'pts': pts, 'last': last, 'box_ok': box == args['meta']['box']}))
"""


def fresh_plain_run(algo, meta, rewards, np_seed):
    """the same documented loop in a brand-new interpreter: the reference for 'an instance behaves as if it
    were alone in the process'"""
    import subprocess, json, os
    m = {k: meta[k] for k in ("kind", "K", "box", "params", "t0")}
    p = subprocess.run([sys.executable, "-c", FRESH_SCRIPT % os.path.dirname(os.path.abspath(__file__))],
                       input=json.dumps({"algo": algo, "meta": m, "rewards": rewards, "seed": np_seed}).encode(),
                       stdout=subprocess.PIPE, stderr=subprocess.DEVNULL, timeout=300)
    for line in p.stdout.decode().split("\n"):
        if line.startswith("RESULT "):
            r = json.loads(line[7:])
            return r["pts"], r["last"]
    return None


def c14_group(seed, idx, algo, directed=None):
    rmode = random.Random(f"c14r-{seed}-{idx}").choice(["dyadic", "negative", "few", "alt"])
    # 1. learn the configuration with a one-round run, 2. let every one-argument variation of it run in this
    #    process, 3. only then run the case itself (lock-step with the model) and compare with a fresh interpreter:
    #    state shared between instances (class attributes, module-level caches, mutable defaults) that is keyed on
    #    only part of the configuration is then already poisoned when the real run starts
    pre = gen_algo_case(seed, idx, algo, force=dict({"t0": 1, "query_rounds": [], "mid_queries": [], "rmode": rmode, "max_rounds": 1}, **(directed or {})))
    if pre.trace is None:
        return [pre]
    Tsel = pre.meta["T"]
    drnd = random.Random(f"c14d-{seed}-{idx}-{algo}")
    alt = ADAPTERS[algo].gen_params(drnd, Tsel)
    dkeys = [k for k in pre.meta["params"] if k in alt and alt[k] != pre.meta["params"][k] and k not in ("base", "n", "rounds", "h_max", "k")]
    decoys = 0
    for kk in dkeys:
        try:
            plain_run(algo, dict(pre.meta, params=dict(pre.meta["params"], **{kk: alt[kk]})),
                      [drnd.randint(0, 1024) / 1024.0 for _ in range(min(Tsel, 70))], 12345)
            decoys += 1
        except Exception:
            pass
    base = gen_algo_case(seed, idx, algo, force=base_force(pre.meta, t0=1, query_rounds=[], mid_queries=[], rmode=rmode, T=Tsel))
    base.tags["c14-decoy-runs"] += decoys
    out = [base]
    if base.trace is None or base.trace["stopped"]:
        return out
    meta = base.meta
    rewards = list(base.trace["rewards"])
    rnd = random.Random(f"c14-{seed}-{idx}-{algo}")
    s = rnd.randint(0, 2 ** 31 - 1)
    def heap_fill(v):
        # NumPy recycles small freed blocks: whatever an np.empty() of the algorithm reads is what the process left there
        for k_ in range(1, 97):
            a_ = np.full(k_, v); del a_
    try:
        heap_fill(np.nan)
        r1 = plain_run(algo, meta, rewards, s)
        heap_fill(0.5)
        r2 = plain_run(algo, meta, rewards, s)
        if True:
            ref = fresh_plain_run(algo, meta, rewards, s)
            if ref is not None:
                base.tags["c14-fresh-process-references"] += 1
                if [list(p) for p in r1[0]] != ref[0] or list(r1[1]) != ref[1]:
                    i = first_diff_idx(r1[0], ref[0])
                    base.fail("C14", "depends-on-process-history", f"the run differs from the same run in a fresh interpreter at round {i} "
                              f"(another instance of the class ran earlier in this process)", algo=algo)
        if r1[0] != r2[0] or r1[1] != r2[1]:
            i = first_diff_idx(r1[0], r2[0])
            base.fail("C14", "not-reproducible", f"two runs with np.random.seed({s}) differ at round {i}", algo=algo)
        if r1[2] != meta["box"] or r2[2] != meta["box"]:
            base.fail("C14", "domain-mutated", "user domain object modified", algo=algo)
        base.tags["c14-seeded-pairs"] += 1
    except Exception as e:
        base.fail("C14", "plain-run-exception", f"{type(e).__name__}: {e}", algo=algo)
        return out
    # the user's domain exactly as written: one range given high-to-low (the library's own partition tests do that)
    # must come back untouched whatever the run does with it (an exception of the run is not this clause's business)
    try:
        jj = rnd.randrange(len(meta["box"]))
        written = [[hi, lo] if j == jj else [lo, hi] for j, (lo, hi) in enumerate(meta["box"])]
        rd = plain_run(algo, dict(meta, box=written), rewards[:40], s)
        base.tags["c14-descending-range-runs"] += 1
        if rd[2] != written:
            base.fail("C14", "domain-mutated", f"user domain {written} came back as {rd[2]}", algo=algo, kind=meta["kind"])
    except Exception:
        base.tags["c14-descending-range-run-raised"] += 1
    # isolation: two instances interleaved (partitions whose geometry does not depend on the generator state)
    # (VROOM draws from the generator in every pull, so it is outside the interleaving part of the quantifier)
    if algo != "VROOM" and (meta["kind"] == "dimBinary" or (meta["kind"] in ("binary", "kary") and meta["d"] == 1)):
        other = rnd.choice([algo, algo, rnd.choice(["T_HOO", "HCT", "Zooming", "DOO", "SequOOL"])])
        try:
            meta2 = dict(meta)
            if other != algo:
                meta2 = dict(meta, params=ADAPTERS[other].gen_params(rnd, meta["T"]))
            elif rnd.random() < 0.7:
                # same class, ONE constructor argument changed: state shared between instances and keyed on
                # only part of the configuration shows up here
                alt = ADAPTERS[algo].gen_params(rnd, meta["T"])
                keys = [k for k in meta["params"] if k in alt and alt[k] != meta["params"][k] and k not in ("base", "h_max")]
                if algo == "T_HOO" and alt.get("rounds") == meta["params"].get("rounds"):
                    alt["rounds"] = meta["params"]["rounds"] * 7 + 3
                    keys.append("rounds")
                if keys:
                    k = rnd.choice(keys)
                    meta2 = dict(meta, params=dict(meta["params"], **{k: alt[k]}))
            rew2 = [rnd.randint(0, 1024) / 1024.0 for _ in rewards]
            aloneA = plain_run(algo, meta, rewards, s)
            aloneB = plain_run(other, meta2, rew2, s + 1)
            np.random.seed(s)
            A, boxA = plain_run(algo, meta, rewards, s, construct_only=True)
            B, boxB = plain_run(other, meta2, rew2, s + 1, construct_only=True)
            pa, pb, ia, ib = [], [], 0, 0
            n = len(rewards)
            deadA = deadB = False
            # interleaving at the level of single calls: one instance may pull (and the other complete whole rounds, or
            # pull as well) between an instance's pull and the receive_reward that answers it
            halfA = halfB = False            # a pull is waiting for its reward
            call_level = rnd.random() < 0.6
            while (ia < n and not deadA) or (ib < n and not deadB):
                burst = rnd.choice([1, 1, 1, 2, 5])
                who = rnd.choice("AB")
                for _ in range(burst):
                    if who == "A" and ia < n and not deadA:
                        if not call_level:
                            deadA = not step_instance(A, meta["t0"] + ia, rewards[ia], pa); ia += 1
                        elif not halfA:
                            deadA = not call_instance(A, "pull", meta["t0"] + ia, None, pa); halfA = True
                        else:
                            deadA = not call_instance(A, "recv", meta["t0"] + ia, rewards[ia], pa); halfA = False; ia += 1
                    elif who == "B" and ib < n and not deadB:
                        if not call_level:
                            deadB = not step_instance(B, meta["t0"] + ib, rew2[ib], pb); ib += 1
                        elif not halfB:
                            deadB = not call_instance(B, "pull", meta["t0"] + ib, None, pb); halfB = True
                        else:
                            deadB = not call_instance(B, "recv", meta["t0"] + ib, rew2[ib], pb); halfB = False; ib += 1
            base.tags["c14-call-level-interleavings" if call_level else "c14-round-level-interleavings"] += 1
            la, lb = last_of(A), last_of(B)
            if pa != aloneA[0] or la != aloneA[1]:
                base.fail("C14", "instances-interfere", f"{algo} interleaved with {other}: differs from running alone at round {first_diff_idx(pa, aloneA[0])}", algo=algo, other=other)
            if pb != aloneB[0] or lb != aloneB[1]:
                base.fail("C14", "instances-interfere", f"{other} interleaved with {algo}: differs from running alone at round {first_diff_idx(pb, aloneB[0])}", algo=other, other=algo)
            base.tags["c14-interleavings"] += 1
        except Exception as e:
            base.fail("C14", "interleave-exception", f"{type(e).__name__}: {e}", algo=algo)
    return out
