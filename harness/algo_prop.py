"""Factory for property modules whose exploration is 'run these algorithms with these monitors'."""
import os, json, multiprocessing as mp
from common import *
import framework as fw
import algo_cases, monitors

HOOKS = {
    "T_HOO": lambda: monitors.tree_bandit_hooks("T_HOO"),
    "HCT": lambda: monitors.tree_bandit_hooks("HCT"),
    "VHCT": lambda: monitors.tree_bandit_hooks("VHCT"),
    "SOO": lambda: monitors.sweep_hooks("SOO"),
    "DOO": lambda: monitors.sweep_hooks("DOO"),
    "StoSOO": lambda: monitors.sweep_hooks("StoSOO"),
    "SequOOL": lambda: monitors.sequool_hooks(),
    "Zooming": lambda: monitors.zooming_hooks(),
    "VROOM": lambda: monitors.vroom_hooks(),
    "StroquOOL": lambda: monitors.stroquool_hooks(),
    "POO": lambda: monitors.poo_hooks(),
    "GPO": lambda: monitors.gpo_hooks("GPO"),
    "PCT": lambda: monitors.gpo_hooks("PCT"),
    "VPCT": lambda: monitors.gpo_hooks("VPCT"),
}


_SEEN = set()


def _one(args):
    seed, idx, algo, force = args
    hk = HOOKS.get(algo, lambda: {})()
    if os.environ.get("PYXAB_VERIF_TIER") != "thorough":
        return algo_cases.gen_algo_case(seed, idx, algo, force=force, hooks=hk)
    # thorough tier: record which source lines of the library this case executes (reported in evidence)
    import sys
    root = os.path.join(REPO, "PyXAB") + os.sep
    new = set()

    def tracer(frame, event, arg):
        fn = frame.f_code.co_filename
        if not fn.startswith(root) or "tests" in fn:
            return None

        def local(fr, ev, a):
            if ev == "line":
                k = (fr.f_code.co_filename[len(root):], fr.f_lineno)
                if k not in _SEEN:
                    _SEEN.add(k); new.add(k)
            return local
        return local
    sys.settrace(tracer)
    try:
        c = algo_cases.gen_algo_case(seed, idx, algo, force=force, hooks=hk)
    finally:
        sys.settrace(None)
    c.cov = sorted(new)
    return c


def run_cases(specs, parallel=True):
    if parallel and len(specs) > 8:
        with mp.Pool(min(16, os.cpu_count() or 4)) as pool:
            return pool.map(_one, specs, chunksize=2)
    return [_one(s) for s in specs]


def make(pid, algos, quick_per_algo=12, thorough_per_algo=150, forces=None, salt=0, long_runs=()):
    forces = forces or [None]

    def budget(tier):
        return {"quick": quick_per_algo, "thorough": thorough_per_algo}[tier]

    # extreme but documented configurations met by every algorithm on every run: a box far from the origin (cells reach
    # float resolution after a few dozen levels), a tiny box, and parameters that make the tree deep quickly
    DEEP = {"Zooming": {"nu": 1e3, "rho": 0.9}, "DOO": {"n": 150, "delta_c": 1.0, "delta_g": 0.5, "delta_kind": "zero"},
            "VROOM": {"n": 128, "h_max": 100, "b": 1.0, "f_max": 1.0}}

    def specs(seed, n, extra_salt=0):
        out = []
        for a in algos:
            for i in range(n):
                out.append((seed + salt + extra_salt, i, a, forces[i % len(forces)]))
            if forces == [None]:
                for j, bm in enumerate(["far", "tiny", "far"]):
                    f = {"bmode": bm}
                    if a in DEEP and j != 1:
                        f["params"] = dict(DEEP[a]); f["T"] = 150 if a != "VROOM" else 30
                        if a == "VROOM":
                            f.update(kind="binary", K=2, d=2)
                    out.append((seed + salt + extra_salt, 300000 + j, a, f))
            if forces == [None] and a not in ("VROOM", "StroquOOL"):
                # the largest arities: 2^3 children per split, five children in three dimensions
                out.append((seed + salt + extra_salt, 300010, a, {"kind": "dimBinary", "d": 3}))
                out.append((seed + salt + extra_salt, 300011, a, {"kind": "kary", "K": 5, "d": 3}))
        # a few runs in the thousands of rounds (what only shows once a cell holds > 1000 rewards, a counter passes 2^10, ...)
        for j, (a, f) in enumerate(long_runs):
            out.append((seed + salt + extra_salt, 400000 + j, a, dict(f)))
        return out

    def explore(tier, seed, n):
        cases = run_cases(specs(seed, n))
        mism, n_ops = fw.compare(cases)
        return {"cases": cases, "mism": mism, "n_ops": n_ops}

    def search(tier, seed, n, hint=None):
        sp = specs(seed, 4 * n, extra_salt=7919)
        # next to the divergent cases: same algorithm and reward regime (and, every other case, the same partition class),
        # fresh configuration, geometry and history
        seen = []
        for m in hint or []:
            k = (m.get("algo"), m.get("rmode"), m.get("kind"))
            if m.get("gen") == "algo" and k not in seen and k[0] in algos:
                seen.append(k)
        for j, (a, rm, kd) in enumerate(seen[:6]):
            for i in range(60):
                f = {"rmode": rm}
                if i % 2 and kd:
                    f["kind"] = kd
                sp.append((seed + salt + 104729 + j, i + 200000, a, f))
        return run_cases(sp)

    def replay(path):
        r = json.load(open(path))
        m = r.get("case") or (r.get("no_longer_checks") or [{}])[0].get("case")
        if not m or m.get("gen") != "algo":
            print("replay file names no concrete algorithm case:", json.dumps(r, indent=1)[:3000]); return 1
        c = _one((m["seed"], m["idx"], m["algo"], m.get("force") or None))
        mism, _ = fw.compare([c])
        for f in c.monitor[:10]:
            print("monitor:", f)
        for (_c, i, l, e, g) in mism:
            print("correspondence:", i, l[:80], fw.first_diff(e, g))
        return 1 if (c.monitor or mism) else 0

    return budget, explore, search, replay
