"""Translator ties regenerated from /repo on every run, per property (formulas + selection rules)."""


def regen(pid):
    import translate_formulas, translate_rules
    out = {"theorems": [], "problems": [], "changed": False}
    if pid in translate_formulas.SUBSETS:
        r = translate_formulas.generate(pid)
        out["theorems"] += r["theorems"]; out["problems"] += r["problems"]; out["changed"] |= r["changed"]
    if pid in translate_rules.SUBSETS:
        r = translate_rules.generate(pid)
        out["theorems"] += r["theorems"]; out["problems"] += r["problems"]; out["changed"] |= r["changed"]
        out["order_type_entries"] = r["entries"]
    return out


def lean_extra(pid):
    import translate_formulas, translate_rules
    mods = []
    if pid in translate_formulas.SUBSETS:
        mods.append(f"PyXABProofs.Generated.Formulas{pid}")
    if pid in translate_rules.SUBSETS:
        mods.append(f"PyXABProofs.Generated.OrderTie{pid}")
    return mods
