"""Raw partition op sequences (deepen / make_children interleavings) on the real classes:
correspondence lines for the Lean driver + C02/C03 monitors."""
import random
import numpy as np
from common import *
from framework import Case
import monitors


def leaves_of(part):
    return [n for n in monitors.reachable(part.get_root()) if n.get_children() is None]


def gen_partition_case(seed, idx, wellformed=True, max_nodes=260, force=None):
    rnd = random.Random(f"part-{seed}-{idx}")
    force = force or {}
    kind = force.get("kind") or rnd.choice(KINDS)
    K = force.get("K") or rnd.choice([2, 3, 3, 4, 5])
    d = force.get("d") or rnd.choice([1, 1, 2, 2, 3, 4] if kind != "dimBinary" else [1, 2, 2, 3])
    box, bmode = gen_box(rnd, d, force.get("bmode"))
    qmode = force.get("qmode") or rnd.choice(["mixed", "mixed", "dyadic", "random", "end"])
    meta = {"gen": "partition", "seed": seed, "idx": idx, "wellformed": wellformed, "kind": kind,
            "K": K, "d": d, "box": box, "bmode": bmode, "qmode": qmode, "force": dict(force)}
    case = Case(f"part-{seed}-{idx}", meta)
    case.tags[f"kind={kind}"] += 1
    case.tags[f"d={d}"] += 1
    case.tags[f"box={bmode}"] += 1
    case.tags[f"q={qmode}"] += 1
    if kind in ("kary", "randKary"):
        case.tags[f"K={K}"] += 1
    arity = {"binary": 2, "randBinary": 2, "dimBinary": 2 ** d, "kary": K, "randKary": K}[kind]
    # a quarter of the well-formed cases descend along one branch (towards 0, a corner, a point, or a fixed child
    # position) far deeper than a random op sequence gets: index labels beyond 2^63, cells at float resolution
    shape = force.get("shape") or ("chain" if (wellformed and rnd.random() < 0.25) else "random")
    chain = None
    if shape == "chain":
        pol = force.get("policy") or rnd.choice(["first", "last", "mid", "zero", "zero", "point", "corner"])
        tgt = None
        if pol == "zero":
            tgt = [min(max(0.0, lo), hi) for lo, hi in box]
        elif pol == "point":
            tgt = [lo + rnd.random() * (hi - lo) for lo, hi in box]
        elif pol == "corner":
            tgt = [rnd.choice([lo, hi]) for lo, hi in box]
        depth_goal = max(1, min(force.get("chain_depth") or rnd.choice([12, 25, 40, 60]), 700 // arity))
        chain = {"pol": pol, "tgt": tgt, "cur": None}
        meta.update(shape="chain", policy=pol, chain_depth=depth_goal)
        max_nodes = force.get("max_nodes") or 1000
        case.tags[f"chain={pol}"] += 1
    ops_done = []
    with RngCtl(rnd, qmode=qmode) as rng:
        cls = make_partition_class(kind, K, rng)
        dom = [list(iv) for iv in box]
        if all(float(x).is_integer() and abs(x) < 2 ** 50 for iv in box for x in iv) and rnd.random() < 0.4:
            dom = [[int(iv[0]), int(iv[1])] for iv in box]      # integer bounds, as in the library's own tests
            case.tags["domain=integer-bounds"] += 1
        # how the caller writes the box (all accepted by the library): one row object repeated ([[0, 1]] * d), rows as
        # tuples, NumPy scalars, a NumPy array
        wrnd = random.Random(f"written-{seed}-{idx}")
        wstyle = wrnd.choice(["plain", "plain", "plain", "tuples", "npscalars", "nparray", "aliased", "aliased"])
        if wstyle == "aliased" and len(dom) > 1:
            # a cube written as [[lo, hi]] * d: every row is the same list object
            box = [list(box[0]) for _ in box]; meta["box"] = box
            dom = [dom[0]] * len(dom)
            case.tags["written=aliased-rows"] += 1
        elif wstyle == "tuples":
            dom = [tuple(r) for r in dom]; case.tags["written=tuples"] += 1
        elif wstyle == "npscalars":
            dom = [[np.float64(r[0]), np.float64(r[1])] for r in dom]; case.tags["written=npscalars"] += 1
        elif wstyle == "nparray":
            dom = np.array([[float(r[0]), float(r[1])] for r in dom]); case.tags["written=nparray"] += 1
        dom_before = [[float(x) for x in r] for r in dom]
        part = cls(domain=dom)
        case.op(f"P.init {kind_str(kind, K)} {box_str(box)}", "ok")
        case.op("P.dump", dump_part(part))
        nops = rnd.randint(2, 9) if chain is None else depth_goal
        if chain is not None:
            chain["cur"] = part.get_root()
        for step in range(nops):
            n_nodes = len(part._all)
            deepest = part.get_node_list()[part.get_depth()] if part.get_depth() < len(part.get_node_list()) else []
            can_deepen = n_nodes + len(deepest) * arity <= max_nodes
            mark = len(part._calls)
            if chain is not None:
                opk = ("mk", chain["cur"], chain["cur"].get_depth() >= part.get_depth())
            elif wellformed:
                lv = leaves_of(part)
                if can_deepen and rnd.random() < 0.3:
                    opk = ("deepen",)
                elif n_nodes + arity <= max_nodes:
                    leaf = rnd.choice(lv)
                    opk = ("mk", leaf, leaf.get_depth() >= part.get_depth())
                else:
                    break
            else:
                r = rnd.random()
                if r < 0.25 and can_deepen:
                    opk = ("deepen",)
                else:
                    nd = rnd.choice(part._all)
                    flag = rnd.random() < 0.5 if r < 0.7 else nd.get_depth() >= part.get_depth()
                    opk = ("mk", nd, flag)
            err = None
            try:
                if opk[0] == "deepen":
                    part.deepen()
                else:
                    part.make_children(opk[1], newlayer=opk[2])
            except Exception as e:  # noqa
                err = e
            calls = part._calls[mark:]
            if opk[0] == "deepen":
                line = f"P.deepen {draws_str(calls)}"
                case.tags["op=deepen"] += 1
                ops_done.append(["deepen"])
            else:
                c = calls[-1] if calls else {"dim": 0, "pts": []}
                line = f"P.mk {opk[1]._vid} {int(opk[2])} {draw_str(c)}"
                case.tags["op=mk"] += 1
                ops_done.append(["mk", opk[1]._vid, bool(opk[2])])
            if err is not None:
                case.op(line, "ERR " + exc_name(err))
                case.tags["op-error=" + exc_name(err)] += 1
                case.stopped = repr(err)
                if wellformed:
                    case.fail("C03", "exception", f"{type(err).__name__}: {err}", step=step, kind=kind)
                break
            case.op(line, "ok")
            case.op("P.dump", dump_part(part))
            if chain is not None:
                kids_ = chain["cur"].get_children() or []
                if not kids_:
                    pass
                elif chain["pol"] == "first":
                    chain["cur"] = kids_[0]
                elif chain["pol"] == "last":
                    chain["cur"] = kids_[-1]
                elif chain["pol"] == "mid":
                    chain["cur"] = kids_[len(kids_) // 2]
                else:
                    inside = [k for k in kids_ if all(lo <= x <= hi for x, (lo, hi) in zip(chain["tgt"], k.get_domain()))]
                    chain["cur"] = rnd.choice(inside) if inside else rnd.choice(kids_)
            if wellformed:
                # arity of every split cell of the tree (a child list may grow after the split that created it)
                arity_now = {"binary": 2, "randBinary": 2, "dimBinary": 2 ** d, "kary": K, "randKary": K}[kind]
                for nd_ in part._all:
                    ch_ = nd_.get_children()
                    if ch_ is not None and len(ch_) != arity_now:
                        case.fail("C02", "arity", f"cell (depth {nd_.get_depth()}, index {nd_.get_index()}) has {len(ch_)} children, documented arity {arity_now}",
                                  step=step, kind=kind, K=K, d=d)
                        break
                for c in calls:
                    par = part._all[c["parent"]]
                    kids = [part._all[i] for i in c["created"]]
                    nch = len(par.get_children()) if (par.get_children() is not None and c is calls[-1]) else None
                    for sig, det in monitors.c02_split(kind, K, par.get_domain(), [k.get_domain() for k in kids],
                                                       [k.get_cpoint() for k in kids], c, n_children=nch):
                        case.fail("C02", sig, det, step=step, kind=kind, K=K, d=d)
                for sig, det in monitors.c03_tree(part, arity=arity):
                    case.fail("C03", sig, det, step=step, kind=kind, K=K, d=d, via="partition-ops")
        if wellformed:
            for sig, det in monitors.c02_leaves_tile(box, [n.get_domain() for n in leaves_of(part)]):
                case.fail("C02", sig, det, step="end", kind=kind, K=K, d=d)
            if [[float(x) for x in r] for r in dom] != dom_before:
                case.fail("C14", "domain-mutated", "user domain object modified", kind=kind)
    meta["ops"] = ops_done
    meta["n_nodes"] = len(part._all)
    return case


# extreme but documented configurations (all arities, all dimensions): one or two levels of a very wide tree
EXTREME = [
    {"kind": "dimBinary", "d": 9, "shape": "chain", "policy": "last", "chain_depth": 1, "max_nodes": 3000},
    {"kind": "dimBinary", "d": 10, "shape": "chain", "policy": "first", "chain_depth": 1, "max_nodes": 3000},
    {"kind": "dimBinary", "d": 6, "shape": "chain", "policy": "last", "chain_depth": 12, "max_nodes": 3000},
    {"kind": "kary", "K": 64, "d": 2, "shape": "chain", "policy": "mid", "chain_depth": 6, "max_nodes": 3000},
    {"kind": "kary", "K": 300, "d": 1, "shape": "chain", "policy": "last", "chain_depth": 3, "max_nodes": 3000},
    {"kind": "kary", "K": 1000, "d": 1, "shape": "chain", "policy": "zero", "chain_depth": 2, "max_nodes": 3000},
    {"kind": "randKary", "K": 40, "d": 3, "shape": "chain", "policy": "point", "chain_depth": 5, "max_nodes": 3000},
    {"kind": "randKary", "K": 260, "d": 1, "shape": "chain", "policy": "first", "chain_depth": 2, "max_nodes": 3000},
]


def extreme_cases(seed):
    return [gen_partition_case(seed, 770000 + j, wellformed=True, force=dict(f)) for j, f in enumerate(EXTREME)]


if __name__ == "__main__":
    import sys
    from framework import compare, first_diff
    seed = int(sys.argv[1]) if len(sys.argv) > 1 else 0
    n = int(sys.argv[2]) if len(sys.argv) > 2 else 50
    cases = [gen_partition_case(seed, i, wellformed=(i % 4 != 3)) for i in range(n)]
    mism, nops = compare(cases)
    print("cases", len(cases), "ops", nops, "mismatches", len(mism))
    for (c, i, l, e, g) in mism[:5]:
        print(c.name, c.meta["kind"], c.meta["K"], c.meta["d"], "op", i, l[:80]); print("  ", first_diff(e, g))
    mf = [(c.name, f) for c in cases for f in c.monitor]
    print("monitor failures", len(mf))
    import collections
    print(collections.Counter((f["property"], f["sig"], f.get("kind")) for _n, f in mf))
