"""./check <ID> --quick|--thorough|--replay F   (exit 0 held / 1 VIOLATION / 2 machinery error)"""
import sys, os, time, json, traceback
sys.path.insert(0, os.path.dirname(os.path.abspath(__file__)))
from common import *
import framework as fw
import leangate


def load_prop(pid):
    import importlib
    return importlib.import_module(f"props.{pid}")


def main():
    args = sys.argv[1:]
    if not args:
        print(__doc__); return 2
    pid = args[0]
    tier = "quick"
    replay = None
    if "--thorough" in args:
        tier = "thorough"
    if os.environ.get("VERIF_TIER") in ("quick", "thorough") and "--quick" not in args and "--thorough" not in args:
        tier = os.environ["VERIF_TIER"]
    if "--replay" in args:
        replay = args[args.index("--replay") + 1]
    seed = int(os.environ.get("VERIF_SEED", "0"))
    t0 = time.time()
    try:
        mod = load_prop(pid)
        if replay:
            return mod.replay(replay)
        from runner import run_property
        return run_property(pid, mod, tier, seed, t0)
    except SystemExit:
        raise
    except Exception:
        traceback.print_exc()
        print(f"MACHINERY-ERROR property={pid}")
        return 2


if __name__ == "__main__":
    sys.exit(main())
