"""Generic flow of one property check (DESIGN §2.2): regenerate → build+audit → correspondence +
monitors → verdict (known findings / violation with replay / no-failing-input-found) → evidence."""
import os, sys, time, json, collections
from common import *
import framework as fw
import leangate


def run_property(pid, mod, tier, seed, t0):
    os.environ["PYXAB_VERIF_TIER"] = tier      # thorough: longer horizons (up to 600 rounds, 2100 for the refresh schedule)
    known = fw.load_known()
    notes = []
    broken = []           # names of theorems / correspondences that no longer check
    # the generated Lean files and lake's build directory are shared by all checks: regeneration + build + audit run
    # under an exclusive lock, so that checks started in parallel do not rebuild the same target at the same time
    import fcntl
    _lock = open(os.path.join(os.path.dirname(os.path.abspath(__file__)), "..", "lean", ".verif.lock"), "w")
    fcntl.flock(_lock, fcntl.LOCK_EX)
    # 1. translators (the Float objectives are part of the driver: keep them in step with the source for every check)
    if pid != "C17":
        try:
            import translate_objectives
            translate_objectives.generate()
        except Exception as e:
            notes.append(f"objective translator: {e}")
    gen_info = {}
    if hasattr(mod, "regenerate"):
        gen_info = mod.regenerate(tier)
        for p in gen_info.get("problems", []):
            broken.append({"kind": "translator", "what": p})
    # 2. lean
    ok, out, dt = leangate.build_driver()
    if not ok:
        print(out[-3000:]); print(f"MACHINERY-ERROR property={pid} driver does not build"); return 2
    hits, nfiles = leangate.scan_sources()
    if hits:
        print("\n".join(hits)); print(f"MACHINERY-ERROR property={pid} forbidden construct in Lean sources"); return 2
    audit = leangate.build_and_audit(pid, getattr(mod, "LEAN_EXTRA", ()))
    if not audit["ok"]:
        if audit["bad"]:
            print(audit["bad"]); print(f"MACHINERY-ERROR property={pid} non-standard axioms"); return 2
        # a property whose definitions are regenerated from the source: the hand-written proofs are re-checked
        # against them, so a failure to build is a broken tie (on the unchanged tree they build: setup + vp check)
        generated_broken = ("Generated" in audit["log"]) or hasattr(mod, "regenerate")
        if not generated_broken:
            print(audit["log"][-3000:]); print(f"MACHINERY-ERROR property={pid} hand-written proofs do not build"); return 2
        broken.append({"kind": "proof-obligation", "what": "regenerated definitions no longer satisfy the tie obligations",
                       "errors": audit["failed_decls"][:10], "log_tail": audit["log"][-1500:]})
    lc = None
    if tier == "thorough" and audit["ok"]:
        lc = leangate.leanchecker([f"PyXABProofs.Props.{pid}"] + list(getattr(mod, "LEAN_EXTRA", ())))
        if not lc["ok"]:
            print(lc["tail"]); print(f"MACHINERY-ERROR property={pid} leanchecker rejected a compiled module"); return 2
    fcntl.flock(_lock, fcntl.LOCK_UN); _lock.close()
    # 3. correspondence + monitors
    budget = mod.budget(tier)
    res = mod.explore(tier, seed, budget)          # -> dict(cases, mism, n_ops, extra)
    cases, mism = res["cases"], res["mism"]
    failures = []        # (case, failure-dict)
    outside = 0
    for c in cases:
        for f in c.monitor:
            if f["property"] == "*":
                broken.append({"kind": "monitor-exception", "what": f"{c.name}: {f['detail']}", "case": c.meta})
            if f["property"] == pid:
                if f.get("outside_quantifier"):
                    outside += 1          # configuration the property does not quantify over
                else:
                    failures.append((c, f))
    for (c, i, line, exp, got) in mism:
        broken.append({"kind": "correspondence", "what": f"{c.name} op#{i} `{line[:60]}`", "diff": fw.first_diff(exp, got),
                       "case": c.meta})
    # 4. search when the tie is broken and no monitor failure is at hand
    searched = 0
    def _unlisted(fs):
        return [cf for cf in fs if fw.match_known(pid, dict(cf[0].meta, **cf[1]), known) is None]
    if broken and not _unlisted(failures) and hasattr(mod, "search"):
        import inspect
        if "hint" in inspect.signature(mod.search).parameters:
            # directed search: more runs of the configurations next to the ones where model and code part ways
            more = mod.search(tier, seed, budget, hint=[b["case"] for b in broken if isinstance(b.get("case"), dict)])
        else:
            more = mod.search(tier, seed, budget)
        searched = len(more)
        for c in more:
            for f in c.monitor:
                if f["property"] == pid and not f.get("outside_quantifier"):
                    failures.append((c, f))
    # 5. verdict
    violations = []
    known_hits = collections.Counter()
    for c, f in failures:
        ctx = dict(c.meta); ctx.update(f)
        k = fw.match_known(pid, ctx, known)
        if k is not None:
            known_hits[k["id"]] += 1
        else:
            violations.append((c, f))
    for kid, n in known_hits.items():
        k = [x for x in known["known"] if x["id"] == kid][0]
        print(f"KNOWN-FINDING: property={pid} {k['what']} [{kid}; seen {n}x this run]")
    rc = 0
    if violations:
        c, f = min(violations, key=lambda cf: (cf[0].meta.get("n_nodes", 0), len(cf[0].ops)))
        path = fw.write_replay(pid, {"property": pid, "kind": "failing-input", "failure": f, "case": c.meta,
                                     "ops": [l for l, _ in c.ops][:400], "also_broken": broken[:5]})
        print(f"VIOLATION property={pid} replay={path}")
        print(f"  {f['sig']}: {str(f['detail'])[:300]}")
        rc = 1
    elif broken:
        path = fw.write_replay(pid, {"property": pid, "kind": "unchecked", "no_longer_checks": broken[:20],
                                     "searched_cases": searched + len(cases)})
        print(f"VIOLATION property={pid} replay={path} no-failing-input-found")
        for b in broken[:3]:
            print("  ", b["kind"], b["what"], b.get("diff", ""))
        rc = 1
    # 6. evidence
    tags = collections.Counter()
    for c in cases:
        tags.update(c.tags)
    distinct = len({json.dumps(c.meta.get("ops", c.name), sort_keys=True, default=str) + c.meta.get("kind", "") for c in cases if len(c.ops) > 3})
    cov = {
        "obligations": audit["obligations"] if audit["ok"] else max(1, audit["obligations"]),
        "discharged": audit["discharged"] if audit["ok"] else 0,
        "checker_cmd": f"cd lean && lake build PyXABProofs.Props.{pid} && lake env lean .lake/audit/Audit_{pid}.lean   # `#audit_module` = #print axioms on every theorem of the module",
        "trusted_base": ["Lean 4.33.0 kernel", "Mathlib v4.33.0 (kernel-checked library)"]
                        + sorted({a for _n, axs in audit["theorems"] for a in axs})
                        + getattr(mod, "TRUSTED", []),
        "property_theorems": [n for n, _ in audit["theorems"] if ".Generated" not in n],
        "generated_tie_obligations": audit["generated_theorems"],
        "lean_sources_scanned": nfiles,
        "leanchecker": lc,
        "forbidden_constructs_found": 0,
        "evaluations": len(cases),
        "distinct_nontrivial": distinct,
        "rule": getattr(mod, "RULE", ""),
        "traces_validated_against_impl": len(cases) - len({id(m[0]) for m in mism}),
        "model_transitions_compared": res["n_ops"],
        "correspondence_mismatches": len(mism),
        "monitor_failures": len(failures),
        "failures_outside_the_quantifier": outside,
        "known_findings_seen": dict(known_hits),
        "input_distribution": dict(sorted(tags.items())),
        "samples": [{"case": c.meta, "first_ops": [l[:120] for l, _ in c.ops[:6]]} for c in cases[:2]],
    }
    cov.update(res.get("extra", {}))
    if tier == "thorough":
        lc_ = fw.line_coverage(cases, REPO)
        if lc_:
            cov["library_line_coverage_under_this_check"] = lc_
    fw.write_evidence(pid, tier, seed, cov, getattr(mod, "ASSUMPTIONS", []), time.time() - t0, len(violations) + (1 if broken and not violations else 0))
    print(f"property={pid} tier={tier} seed={seed} theorems={audit['discharged']}/{audit['obligations']} "
          f"tie-obligations={audit['generated_theorems']} cases={len(cases)} ops={res['n_ops']} mismatches={len(mism)} "
          f"monitor-failures={len(failures)} known={sum(known_hits.values())} wall={time.time()-t0:.1f}s rc={rc}")
    return rc
