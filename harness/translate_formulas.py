"""Translator tie for the numeric index / threshold formulas (C05, C06, C08): the REAL node methods of /repo are
executed on expression-recording scalars (math.* / np.* patched to record) and the traced expressions are emitted as
lean/PyXABProofs/Generated/Formulas.lean together with one obligation each: traced = published formula
(Spec/Formulas.lean) over every field with uninterpreted sqrt / log / ceil / pow.  Re-proved on every run."""
import os, sys, math
from common import *
import numpy as np
import numpy.random  # loaded before math.* is patched (its module init calls math functions)


class E:
    """expression-recording scalar over a field with uninterpreted functions"""
    def __init__(self, s, atom=True):
        self.s, self.atom = s, atom
    def _p(self): return self.s if self.atom else f"({self.s})"
    @staticmethod
    def lift(x):
        if isinstance(x, E): return x
        if isinstance(x, (bool, np.bool_)): raise TypeError("bool")
        if isinstance(x, (int, np.integer)):
            return E(f"({int(x)} : α)") if int(x) >= 0 else E(f"(-({-int(x)} : α))")
        if isinstance(x, (float, np.floating)) and float(x) == int(x):
            return E.lift(int(x))
        if isinstance(x, (float, np.floating)):
            for k in range(1, 12):
                if float(x) * 2 ** k == int(float(x) * 2 ** k):
                    n = int(float(x) * 2 ** k)
                    return E(f"(({n} : α) / {2 ** k})") if n >= 0 else E(f"(-(({-n} : α) / {2 ** k}))")
        raise TypeError(f"cannot lift {x!r}")
    def _b(self, o, op, rev=False):
        o = E.lift(o); a, b = (o, self) if rev else (self, o)
        return E(f"{a._p()} {op} {b._p()}", False)
    def __add__(s, o): return s._b(o, "+")
    def __radd__(s, o): return s._b(o, "+", True)
    def __sub__(s, o): return s._b(o, "-")
    def __rsub__(s, o): return s._b(o, "-", True)
    def __mul__(s, o): return s._b(o, "*")
    def __rmul__(s, o): return s._b(o, "*", True)
    def __truediv__(s, o): return s._b(o, "/")
    def __rtruediv__(s, o): return s._b(o, "/", True)
    def __neg__(s): return E(f"-{s._p()}", False)
    def __pow__(s, o):
        if isinstance(o, (int, np.integer)) and not isinstance(o, bool) and int(o) >= 0:
            return E(f"{s._p()} ^ {int(o)}", False)
        return E(f"rpow {s._p()} {E.lift(o)._p()}", False)
    def __rpow__(s, o): return E(f"rpow {E.lift(o)._p()} {s._p()}", False)
    CAP = []
    def __ge__(s, o): E.CAP.append((">=", s, o)); return True
    def __le__(s, o): E.CAP.append(("<=", s, o)); return True
    def __gt__(s, o): E.CAP.append((">", s, o)); return False
    def __lt__(s, o): E.CAP.append(("<", s, o)); return False
    def __eq__(s, o): return False            # `visited_times == 0` takes the "visited" branch
    def __ne__(s, o): return True
    def __hash__(s): return hash(s.s)
    def __repr__(s): return s.s


def fn(name):
    def f(x, *a):
        if isinstance(x, E) or any(isinstance(y, E) for y in a):
            return E(f"{name} {E.lift(x)._p()}", False)
        if isinstance(x, (int, np.integer)) and not isinstance(x, bool):
            return E(f"{name} {E.lift(x)._p()}", False)      # e.g. np.log(2) inside a symbolic formula
        return getattr(_REAL, name)(x, *a)
    return f


class _Real:
    sqrt = staticmethod(math.sqrt); log = staticmethod(math.log); ceil = staticmethod(math.ceil); floor = staticmethod(math.floor)
_REAL = _Real()


class Rewards(list):
    """the node's reward list: np.sum / np.average / np.var of it are atoms of the traced expression"""


def trace(fn_, patches):
    saved = []
    try:
        for mod, name, val in patches:
            saved.append((mod, name, getattr(mod, name)))
            setattr(mod, name, val)
        return fn_()
    finally:
        for mod, name, val in saved:
            setattr(mod, name, val)


def patches():
    def arr(x): return x
    def sm(x): return E("sumR") if isinstance(x, Rewards) else sum(x)
    def avg(x): return E("avgR") if isinstance(x, Rewards) else sum(x) / len(x)
    def var(x): return E("varR") if isinstance(x, Rewards) else 0.0
    def mx(a, b): return E(f"max {E.lift(a)._p()} {E.lift(b)._p()}", False)
    return [(math, "sqrt", fn("sqrt")), (math, "log", fn("log")), (np, "sqrt", fn("sqrt")), (np, "log", fn("log")),
            (np, "ceil", fn("ceil")), (np, "array", arr), (np, "sum", sm), (np, "average", avg), (np, "var", var),
            (np, "maximum", mx), (np, "power", lambda a, b: E.lift(a) ** b)]


def make_node(cls):
    nd = cls.__new__(cls)
    nd.depth = E("h"); nd.index = 1; nd.parent = None; nd.children = None; nd.domain = []
    nd.visited_times = E("T"); nd.rewards = Rewards(); nd.mean_reward = E("mean0")
    nd.u_value = None; nd.b_value = None
    return nd


def traced():
    out = {}
    problems = []
    from PyXAB.algos.HOO import HOO_node
    from PyXAB.algos.HCT import HCT_node
    from PyXAB.algos.VHCT import VHCT_node
    from PyXAB.algos.StoSOO import StoSOO_node
    from PyXAB.algos.DOO import DOO_node

    def run(name, f):
        try:
            out[name] = trace(f, patches())
        except Exception as e:
            problems.append(f"{name}: {type(e).__name__}: {e}")

    def hoo():
        nd = make_node(HOO_node)
        nd.compute_u_value(nu=E("nu"), rho=E("rho"), rounds=E("rounds"))
        return ("nu rho rounds sumR T h", nd.u_value, "Published.hooU sqrt log rpow nu rho rounds (sumR / T) T h")
    run("hoo_u", hoo)

    def hct():
        nd = make_node(HCT_node)
        nd.compute_u_value(nu=E("nu"), rho=E("rho"), c=E("c"), delta_tilde=E("dt"))
        return ("nu rho c dt sumR T h", nd.u_value, "Published.hctU sqrt log rpow nu rho c dt (sumR / T) T h")
    run("hct_u", hct)

    def vhct():
        nd = make_node(VHCT_node)
        nd.variance = E("var")
        nd.compute_u_value(nu=E("nu"), rho=E("rho"), c=E("c"), bound=E("bound"), delta_tilde=E("dt"))
        return ("nu rho c bound dt avgR var T h", nd.u_value, "Published.vhctU sqrt log rpow nu rho c bound dt avgR var T h")
    run("vhct_u", vhct)

    def vtau():
        nd = make_node(VHCT_node)
        nd.variance = E("var")
        nd.compute_tau_hi_value(nu=E("nu"), rho=E("rho"), c=E("c"), bound=E("bound"), delta_tilde=E("dt"))
        return ("nu rho c bound dt var h", nd.tau, "Published.vhctTau sqrt log ceil rpow nu rho c bound dt var h")
    run("vhct_tau", vtau)

    def sto():
        nd = make_node(StoSOO_node)
        nd.compute_b_value(n=E("n"), k=E("k"), delta=E("delta"))
        return ("n k delta sumR T", nd.b_value, "Published.stoB sqrt log n k delta (sumR / T) T")
    run("sto_b", sto)

    def doo():
        nd = make_node(DOO_node)
        nd.reward = E("reward")
        nd.compute_b_value(E("delta"))
        return ("reward delta", nd.b_value, "Published.dooB reward delta")
    run("doo_b", doo)

    def hct_tau():
        # HCT computes its per-depth thresholds inside optTraverse: run it on a stub with a leaf root
        from PyXAB.algos.HCT import HCT
        import PyXAB.algos.HCT as HM

        class Root:
            def get_visited_times(self): return 0
            def get_depth(self): return 0
            def get_children(self): return None

        class Part:
            def get_depth(self): return 1
            def get_root(self): return Root()
        a = HCT.__new__(HCT)
        a.iteration = 1; a.c1 = E("c1"); a.delta = E("delta"); a.c = E("c"); a.rho = E("rho"); a.nu = E("nu")
        a.partition = Part()
        saved = HM.compute_t_plus
        HM.compute_t_plus = lambda x: E("tplus")
        try:
            mn = np.minimum
            np.minimum = lambda x, y: E("dt")        # δ̃ = min(1/2, c1 δ / t⁺) is an atom here (its arguments are checked below)
            try:
                a.optTraverse()
            finally:
                np.minimum = mn
        finally:
            HM.compute_t_plus = saved
        return ("nu rho c dt", a.tau_h[1], "Published.hctTau log ceil rpow nu rho c dt (1 : α)")
    run("hct_tau", hct_tau)

    def hoo_depth():
        # T-HOO's truncation depth: the right-hand side of `path[-1].depth <= ceil(...)` in updateAllTree
        from PyXAB.algos.HOO import T_HOO
        cap = {}

        class Depth:
            def __le__(self, o): cap["rhs"] = o; return False

        class Nd:
            depth = Depth()
        a = T_HOO.__new__(T_HOO)
        a.rounds = E("rounds"); a.nu = E("nu"); a.rho = E("rho")
        a.updateRewardTree = lambda p, r: None
        a.updateUvalueTree = lambda: None
        a.updateBackwardTree = lambda: None
        a.updateAllTree([Nd()], 0.0)
        return ("nu rho rounds", cap["rhs"], "Published.hooDepth log ceil nu rho rounds")
    run("hoo_depth", hoo_depth)

    def zoom_index():
        from PyXAB.algos.Zooming import Zooming, point
        a = Zooming.__new__(Zooming)
        arm = point([0.5])
        a.active_points = {arm: None}; a.average_rewards = {arm: E("avg")}; a.pulled_times = {arm: E("pulls")}
        a.phase = E("phase")
        E.CAP.clear()
        a.pull(1)
        op, lhs, _rhs = E.CAP[0]
        return ("avg phase pulls", lhs, "Published.zoomIndex sqrt avg phase pulls")
    run("zoom_index", zoom_index)

    def vroom_lcb():
        import PyXAB.algos.VROOM as VM
        cap = []

        class Nd:
            def get_eval_time(self): return E("T")
            def get_mean_reward(self): return E("mean")
            def add_rank(self, r): pass
        a = VM.VROOM.__new__(VM.VROOM)
        a.n = E("n"); a.delta = E("delta")
        VM.sorted = lambda nodes, key=None, reverse=False: (cap.append(key(nodes[0])), list(nodes))[1]
        try:
            a.rank([Nd()])
        finally:
            del VM.sorted
        return ("n delta mean T", cap[0], "Published.vroomLcb sqrt log n delta mean T")
    run("vroom_lcb", vroom_lcb)

    def poo_score():
        from PyXAB.algos.POO import POO

        class L:
            def receive_reward(self, t, r): pass
        a = POO.__new__(POO)
        a.N = E("N"); a.n = E("n"); a.Dmax = E("Dmax"); a.counter = E("k"); a.phase = E("phase")
        a.V_algo = [L()]; a.V_reward = [E("V")]; a.Times = [0]
        E.CAP.clear()
        a.receive_reward(1, E("r"))
        return ("V k r", a.V_reward[-1], "Published.runningMean V k r")
    run("poo_score", poo_score)

    def hct_dt(which, variance=False):
        # δ̃ as HCT / VHCT compute it: the two arguments of np.minimum in optTraverse (thresholds) / updateAllTree (U-values)
        def f():
            if variance:
                from PyXAB.algos.VHCT import VHCT as HCT
                import PyXAB.algos.VHCT as HM
            else:
                from PyXAB.algos.HCT import HCT
                import PyXAB.algos.HCT as HM
            cap = []

            class Root:
                def get_visited_times(self): return 0
                def get_depth(self): return 0
                def get_children(self): return None
                def update_reward(self, r): pass
                def compute_u_value(self, **k): pass
                def get_tau_hi_value(self): return 0.0

            class Part:
                def get_depth(self): return 0
                def get_root(self): return Root()
                def get_node_list(self): return [[Root()]]
                def make_children(self, parent=None, newlayer=False): pass
            a = HCT.__new__(HCT)
            a.iteration = 3; a.c1 = E("c1"); a.delta = E("delta"); a.c = E("c"); a.rho = E("rho"); a.nu = E("nu")
            a.partition = Part(); a.tau_h = [0.0]; a.bound = E("bound")
            saved = HM.compute_t_plus
            HM.compute_t_plus = lambda x: E("tplus")
            mn = np.minimum
            np.minimum = lambda x, y: (cap.append((x, y)), E("dt"))[1]
            try:
                if which == "half":
                    a.optTraverse()
                else:
                    a.updateBackwardTree = lambda: None
                    a.updateAllTree([Root()], 0.0)
            finally:
                np.minimum = mn
                HM.compute_t_plus = saved
            x, y = cap[0]
            ex = E(f"min2 {E.lift(x)._p()} {E.lift(y)._p()}", False)
            cap_val = "((1 : α) / 2)" if which == "half" else "(1 : α)"
            return ("c1 delta tplus", ex, f"Published.hctDt min2 {cap_val} c1 delta tplus")
        return f
    run("hct_dt_half", hct_dt("half"))
    run("hct_dt_one", hct_dt("one"))
    run("vhct_dt_half", hct_dt("half", True))
    run("vhct_dt_one", hct_dt("one", True))

    def gpo_consts():
        from PyXAB.algos.GPO import GPO
        from PyXAB.algos.HCT import HCT
        fl = np.floor
        np.floor = fn("floor")
        try:
            g = GPO(numax=E("numax"), rhomax=E("rhomax"), rounds=E("n"), domain=[[0.0, 1.0]], partition=object, algo=HCT)
        finally:
            np.floor = fl
        return g
    def gpo_N():
        g = gpo_consts()
        return ("rhomax n", g.N, "Published.gpoN log ceil rhomax n")
    run("gpo_N", gpo_N)

    def gpo_half():
        g = gpo_consts()
        # N is a sub-expression of the phase length: name it
        Ns = g.N.s
        ex = E(g.half_phase_length.s.replace(g.N._p(), "N"), False)
        return ("n N", ex, "Published.gpoHalf floor n N")
    run("gpo_half", gpo_half)

    def poo_rho_and_cond():
        from PyXAB.algos.POO import POO
        got = {}

        class Base:
            def __init__(self, **kw): got.update(kw)
            def pull(self, t): return [0.5]
        Base.__name__ = "HCT"
        a = POO.__new__(POO)
        a.N = E("N"); a.n = E("n"); a.Dmax = E("Dmax"); a.counter = 0; a.phase = E("phase")
        a.rhomax = E("rhomax"); a.numax = E("numax"); a.domain = [[0.0, 1.0]]; a.partition = object; a.algo = Base; a.rounds = 100
        a.V_algo = []; a.V_reward = []; a.Times = []
        E.CAP.clear()
        a.pull(1)
        return got, list(E.CAP)
    def poo_rho():
        got, cap = poo_rho_and_cond()
        return ("rhomax N phase", got["rho"], "Published.gridRho rpow rhomax N phase")
    run("poo_rho", poo_rho)

    def poo_cond():
        got, cap = poo_rho_and_cond()
        op, lhs, rhs = cap[0]
        return ("Dmax n", E.lift(rhs), "Published.pooBound log Dmax n")
    run("poo_cond", poo_cond)

    def zoom_refine(side):
        def f():
            from PyXAB.algos.Zooming import Zooming, point

            class Cell:
                def get_depth(self): return E("h")
                def get_children(self): return []

            class Part:
                def get_depth(self): return 0
                def make_children(self, parent=None, newlayer=False): pass
            a = Zooming.__new__(Zooming)
            arm = point([0.5])
            a.best_arm = arm
            a.active_points = {arm: Cell()}; a.average_rewards = {arm: E("avg")}; a.pulled_times = {arm: E("pulls")}
            a.phase = E("phase"); a.time = 0; a.next_end_time = 10 ** 9; a.nu = E("nu"); a.rho = E("rho"); a.partition = Part()
            E.CAP.clear()
            a.receive_reward(1, E("r"))
            op, lhs, rhs = [c for c in E.CAP if c[0] == "<="][0]
            if side == "radius":
                return ("phase pulls", lhs, "Published.zoomRadius sqrt phase (pulls + 1)")
            return ("nu rho h", E.lift(rhs), "Published.zoomThreshold rpow nu rho h")
        return f
    run("zoom_radius", zoom_refine("radius"))
    run("zoom_threshold", zoom_refine("threshold"))

    def zoom_mean():
        from PyXAB.algos.Zooming import Zooming, point

        class Cell:
            def get_depth(self): return E("h")
            def get_children(self): return []

        class Part:
            def get_depth(self): return 0
            def make_children(self, parent=None, newlayer=False): pass
        a = Zooming.__new__(Zooming)
        arm = point([0.5])
        a.best_arm = arm
        a.active_points = {arm: Cell()}; a.average_rewards = {arm: E("V")}; a.pulled_times = {arm: E("k")}
        a.phase = E("phase"); a.time = 0; a.next_end_time = 10 ** 9; a.nu = E("nu"); a.rho = E("rho"); a.partition = Part()
        a.receive_reward(1, E("r"))
        return ("V k r", a.average_rewards[arm], "Published.runningMean V k r")
    run("zoom_mean", zoom_mean)

    def vroom_prob():
        import PyXAB.algos.VROOM as VM

        class Nd:
            def get_rank(self): return [E("rank")]
            def get_children(self): return None
            def sample_uniform(self): return [0.5]

        class Part:
            def get_node_list(self): return [[Nd()], [Nd()]]
            def get_depth(self): return 1
        a = VM.VROOM.__new__(VM.VROOM)
        a.search_depth = 1; a.const = E("C"); a.h_max = 1; a.partition = Part(); a.rank = lambda nodes: None
        ch = np.random.choice
        np.random.choice = lambda *x, **k: 0
        try:
            a.pull(1)
        finally:
            np.random.choice = ch
        return ("rank C", a.prob[0], "Published.vroomProb (1 : α) rank C")
    run("vroom_prob", vroom_prob)

    def vroom_tilde():
        import PyXAB.algos.VROOM as VM
        got = {}

        class Nd:
            def get_depth(self): return 1
            def update_reward(self, r): pass
            def update_reward_tilde(self, v): got["v"] = v
        a = VM.VROOM.__new__(VM.VROOM)
        a.update_list = [Nd()]; a.prob = [E(f"p{i}") for i in range(6)]
        a.receive_reward(1, E("r"))
        return ("r p0 p1", got["v"], "Published.vroomTilde r ((0 : α) + p0 + p1) (1 : α)")
    run("vroom_tilde", vroom_tilde)

    def vhct_varfloor():
        from PyXAB.algos.VHCT import VHCT_node
        nd = make_node(VHCT_node)
        nd.visited_times = 3
        nd.minvariance = E("minvar"); nd.variance = E("var0")
        nd.update_reward(E("r"))
        return ("varR minvar", nd.variance, "Published.varFloor max varR minvar")
    run("vhct_varfloor", vhct_varfloor)

    class StubPart:
        """a partition stand-in for tracing constructors: deep enough that no constructor loop touches it"""
        def __init__(self, domain=None, node=None): pass
        def get_depth(self): return 10 ** 6
        def get_root(self): return None
        def get_node_list(self): return [[None]]
        def deepen(self): pass

    def c1_of(modname, clsname):
        def f():
            import importlib
            cls = getattr(importlib.import_module(modname), clsname)
            a = cls.__new__(cls)
            try:
                a.__init__(nu=E("nu"), rho=E("rho"), domain=[[0, 1]], partition=StubPart)
            except AttributeError:
                pass                      # the root expansion on the stand-in partition; c1 is set before it
            return ("nu rho", a.c1, "Published.hctC1 rpow nu rho")
        return f
    run("hct_c1", c1_of("PyXAB.algos.HCT", "HCT"))
    run("vhct_c1", c1_of("PyXAB.algos.VHCT", "VHCT"))

    def vroom_delta():
        import PyXAB.algos.VROOM as VM
        a = VM.VROOM(n=4, h_max=3, b=E("b"), f_max=E("fmax"), domain=[[0, 1]], partition=StubPart)
        return ("b fmax", a.delta, "Published.vroomDelta sqrt b fmax (4 : α)")
    run("vroom_delta", vroom_delta)
    return out, problems


HEADER = """/-
  GENERATED by harness/translate_formulas.py from /repo's node classes. Do not edit: rewritten and re-proved on
  every check run.
-/
import PyXABProofs.Spec.Formulas
set_option linter.unusedVariables false
set_option linter.unusedSectionVars false
set_option linter.unusedSimpArgs false
set_option linter.unusedTactic false
set_option linter.unreachableTactic false
namespace PyXAB.GeneratedF
variable {α : Type} [Field α] (sqrt log ceil floor : α → α) (rpow : α → α → α) (max min2 : α → α → α)
"""


SUBSETS = {"C05": ["hoo_u", "hct_u", "vhct_u"], "C06": ["hct_tau", "vhct_tau", "hoo_depth"], "C08": ["sto_b", "doo_b"],
           "C10": ["poo_score", "poo_rho", "poo_cond"], "C11": ["zoom_index", "zoom_radius", "zoom_threshold", "zoom_mean"],
           "C13": ["vroom_lcb", "vroom_prob", "vroom_tilde", "vroom_delta"], "C09": ["gpo_N", "gpo_half"], "C04": ["vhct_varfloor"]}
SUBSETS["C05"] += ["hct_dt_one", "vhct_dt_one"]
SUBSETS["C06"] += ["hct_dt_half", "vhct_dt_half"]
SUBSETS["C05"] += ["hct_c1", "vhct_c1"]
SUBSETS["C06"] += ["hct_c1", "vhct_c1"]


def generate(prop=None):
    """prop in C05 / C06 / C08: write Generated/Formulas<prop>.lean with that property's formulas (None: all three)"""
    if prop is None:
        r = {"theorems": [], "problems": [], "changed": False}
        for p in SUBSETS:
            x = generate(p)
            r["theorems"] += x["theorems"]; r["problems"] += x["problems"]; r["changed"] |= x["changed"]
        return r
    out, problems = traced()
    problems = [p for p in problems if p.split(":")[0] in SUBSETS[prop]]
    out = {k: v for k, v in out.items() if k in SUBSETS[prop]}
    for k in SUBSETS[prop]:
        if k not in out and not any(p.startswith(k + ":") for p in problems):
            problems.append(f"{k}: not traced")
    body = [HEADER.replace("namespace PyXAB.GeneratedF", f"namespace PyXAB.GeneratedF{prop}")]
    names = []
    for name, (vs, ex, spec) in out.items():
        if not isinstance(ex, E):
            problems.append(f"{name}: the method did not produce a symbolic value ({ex!r})")
            continue
        body.append(f"""
/-- what the real method computes (traced) equals the published formula -/
theorem {name} ({vs} : α) :
    {ex.s} = {spec} := by
  (simp only [Published.hooU, Published.hctU, Published.vhctU, Published.hctTau, Published.vhctTau, Published.stoB, Published.dooB,
    Published.hooDepth, Published.zoomIndex, Published.vroomLcb, Published.runningMean, Published.hctDt, Published.gpoN,
    Published.gpoHalf, Published.gridRho, Published.pooBound, Published.zoomRadius, Published.zoomThreshold,
    Published.vroomProb, Published.vroomTilde, Published.varFloor,
    Published.hctC1, Published.vroomDelta])
    <;> (first | rfl | ring | (ring_nf; done) | (congr 1 <;> ring_nf; done) | (congr 2 <;> ring_nf; done))
""")
        names.append(name)
    body.append(f"\nend PyXAB.GeneratedF{prop}\n")
    path = os.path.join(LEAN_DIR, "PyXABProofs", "Generated", f"Formulas{prop}.lean")
    text = "\n".join(body)
    old = open(path).read() if os.path.exists(path) else None
    if old != text:
        open(path, "w").write(text)
    return {"theorems": names, "problems": problems, "changed": old != text}


if __name__ == "__main__":
    print(generate())
