"""C17 — synthetic objectives never exceed their declared maximum and attain it."""
from common import *
import framework as fw
import obj_cases, translate_objectives

LEAN_EXTRA = ["PyXABProofs.Generated.ObjectivesReal"]
RULE = ("(i) translator: every objective class is re-translated from /repo's source (ast) into Lean definitions over R and the "
        "theorems of Props/C17 are re-checked against them; (ii) the Float instance of the same translation is compared (1e-9) "
        "with the real f on seeded points of the documented domain: uniform, 1/64 grid, corners/centres, neighbourhoods of the "
        "maximiser down to 1e-12, DoubleSine parameters over [0.05,1]^2 x [0,1], perturbed variants with several offsets, "
        "Rastrigin in dimension 1..4; monitor: finite, f <= fmax exactly, attainment at the documented maximiser, purity, "
        "ValueError on wrong dimension; non-trivial = every case (60 points each); distinct = distinct (class, parameters, points)")
ASSUMPTIONS = ["theorems are about the real-valued function denoted by the code's expression (decimal literals read as exact "
               "rationals, np/math functions as the real functions); IEEE rounding of f is covered by the sampled monitor only",
               "np.random.normal's offset is a universally quantified parameter"]
TRUSTED = ["harness/translate_objectives.py (renders what it parsed; validated numerically against the real f each run)",
           "harness/obj_cases.py", "lean/PyXABModel/Drv"]
_SIGS = {}


def regenerate(tier):
    r = translate_objectives.generate()
    _SIGS.update(r.get("sigs", {}))
    return r


def budget(tier):
    return {"quick": 8, "thorough": 120}[tier]


def explore(tier, seed, n):
    cases = []
    for cls in sorted(obj_cases.DOMAINS):
        for i in range(n):
            cases.append(obj_cases.gen_obj_case(seed, i, _SIGS, cls, n_points=60 if tier == "quick" else 200))
    mism, n_ops = obj_cases.compare_obj(cases)
    return {"cases": cases, "mism": mism, "n_ops": n_ops}


def search(tier, seed, n):
    return [obj_cases.gen_obj_case(seed + 7919, i, _SIGS, cls, n_points=400) for cls in sorted(obj_cases.DOMAINS) for i in range(2 * n)]


def replay(path):
    import json
    r = json.load(open(path))
    m = r.get("case") or (r.get("no_longer_checks") or [{}])[0].get("case")
    if not m:
        print(json.dumps(r, indent=1)[:3000]); return 1
    regenerate("quick")
    c = obj_cases.gen_obj_case(m["seed"], m["idx"], _SIGS, m["class"])
    mism, _ = obj_cases.compare_obj([c])
    for f in c.monitor[:10]:
        print("monitor:", f)
    for (_c, i, l, e, g) in mism:
        print("correspondence:", l[:80], e, g)
    return 1 if (c.monitor or mism) else 0
