from algo_prop import make
LEAN_EXTRA = ["PyXABProofs.Props.SequOOLBudget", "PyXABProofs.Lemmas.OT_Bridge", "PyXABProofs.Generated.OrderTieC12"]
ALGOS = ['SequOOL']
budget, explore, search, replay = make("C12", ALGOS, quick_per_algo=24, thorough_per_algo=300, salt=1200)
RULE = ("the documented pull/receive loop on the real classes: algorithm x partition class (K 2..5) x dimension 1..3 x box shape x "
        "parameters from the documented ranges x ten reward modes (dyadic noise, all-negative, zero, constant, few-valued ties, "
        "alternating sign, large, objective+noise) x five split-fraction modes, 20..150 rounds, time labels t0+i, recommendation "
        "queries at random rounds; after every call the full abstract state is compared bit-for-bit with the Lean model and the "
        "property monitor (own opening ledger: budgets per depth, best unopened cell, child order, exhaustion) runs on the live objects; non-trivial = >= 3 rounds completed; distinct = distinct configuration+history")
ASSUMPTIONS = ["theorems are about the Lean models of SequOOL; they are tied to /repo by differential execution of every generated run "
               "(free-running lock-step, bit-exact floats; constants the code computes with NumPy transcendental kernels are read from the "
               "object and cross-checked to 1e-9)",
               "score theorems hold for every linear order of scores and every formula record; IEEE rounding is not modelled"]
TRUSTED = ["harness/algo_cases.py, harness/monitors.py, harness/common.py (instrumented partition subclasses, RNG patching)", "lean/PyXABModel/Drv (driver)"]

# directed cases: small budgets whose schedule is exhausted well before the end of the run, rewards for which the
# domain centre would win a naive comparison (constant / all-negative / ties)
DIRECTED = [
    ("SequOOL", {"params": {"n": 10}, "kind": "binary", "d": 1, "T": 40, "rmode": "const"}),
    ("SequOOL", {"params": {"n": 25}, "kind": "binary", "d": 1, "T": 60, "rmode": "zero"}),
    ("SequOOL", {"params": {"n": 25}, "kind": "kary", "K": 3, "d": 2, "T": 60, "rmode": "few"}),
    ("SequOOL", {"params": {"n": 30}, "kind": "binary", "d": 1, "T": 60, "rmode": "negative"}),
]
_explore = explore


def explore(tier, seed, n):
    import algo_prop, framework as fw
    res = _explore(tier, seed, n)
    directed = algo_prop.run_cases([(960000 + j + 100 * seed, 0, a, f) for j, (a, f) in enumerate(DIRECTED)], parallel=False)
    mism, n_ops = fw.compare(directed)
    res["cases"] = directed + res["cases"]
    res["mism"] = mism + res["mism"]
    res["n_ops"] += n_ops
    return res

# --- enumeration of h_max = floor(n / H_n): the real constructor against exact rational arithmetic and the driver
_explore2 = explore


def hmax_sweep(tier):
    from fractions import Fraction
    from framework import Case
    from common import fbits
    from PyXAB.algos.SequOOL import SequOOL
    from PyXAB.partition.BinaryPartition import BinaryPartition
    c = Case("sequool-hmax-sweep", {"gen": "sequool-hmax", "kind": "binary", "ops": "sweep"})
    H = Fraction(0)
    top = 1200 if tier == "quick" else 4000
    checked = 0
    for n in range(1, top + 1):
        H += Fraction(1, n)
        if n < 10:
            continue
        q = Fraction(n) / H
        a = SequOOL(n=n, domain=[[0.0, 1.0]], partition=BinaryPartition)
        checked += 1
        if a.h_max != q.numerator // q.denominator:
            c.fail("C12", "h_max", f"n={n}: h_max={a.h_max}, floor(n/H_n)={q.numerator // q.denominator}", algo="SequOOL", n=n)
            if len(c.monitor) > 5:
                break
        if n % 9 == 0 or a.h_max != q.numerator // q.denominator:
            c.op(f"SequOOL.init binary 0 1 {fbits(0.0)} {fbits(1.0)} {n} {a.h_max}", "ok")
    c.meta["n_checked"] = checked
    c.tags[f"hmax-sweep-checked={checked}"] += 1
    return c


def explore(tier, seed, n):
    import framework as fw
    res = _explore2(tier, seed, n)
    sw = hmax_sweep(tier)
    mism, n_ops = fw.compare([sw])
    res["cases"] = [sw] + res["cases"]
    res["mism"] = mism + res["mism"]
    res["n_ops"] += n_ops
    res.setdefault("extra", {})["hmax_values_enumerated"] = sw.meta["n_checked"]
    return res


def regenerate(tier):
    """translator ties re-proved on every run: numeric formulas traced from the real methods = published formulas over every
    field (Spec/Formulas.lean), and selection rules run on order-only values for every order type = the model rules for all
    values of any linear order (Spec/OrderType.lean, Props/OrderTie.lean)"""
    import ties
    return ties.regen("C12")
