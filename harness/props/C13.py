from algo_prop import make
LEAN_EXTRA = ["PyXABProofs.Generated.OrderTieC13", "PyXABProofs.Generated.FormulasC13"]
ALGOS = ['VROOM']
# the depth cap below, at and above the ranking depth floor(log2 n), and above the budget (directed, on every run)
CAPS = [("VROOM", {"params": {"n": 40, "h_max": hm, "b": 1.0, "f_max": 1.0}, "kind": kd, "K": 2, "d": dd, "T": 40})
        for hm, kd, dd in [(0, "binary", 1), (1, "randBinary", 2), (5, "binary", 2), (6, "binary", 1), (100, "randBinary", 1), (0, "binary", 2)]]
budget, explore, search, replay = make("C13", ALGOS, quick_per_algo=24, thorough_per_algo=300, salt=1300, long_runs=CAPS)
RULE = ("the documented pull/receive loop on the real classes: algorithm x partition class (K 2..5) x dimension 1..3 x box shape x "
        "parameters from the documented ranges x ten reward modes (dyadic noise, all-negative, zero, constant, few-valued ties, "
        "alternating sign, large, objective+noise) x five split-fraction modes, 20..150 rounds, time labels t0+i, recommendation "
        "queries at random rounds; after every call the full abstract state is compared bit-for-bit with the Lean model and the "
        "property monitor (ranks a permutation non-increasing in the lower confidence value, weights 1/(h r C) summing to one, sampled cell a descendant of the drawn cell down to the cap, point inside, credit path) runs on the live objects; non-trivial = >= 3 rounds completed; distinct = distinct configuration+history")
ASSUMPTIONS = ["theorems are about the Lean models of VROOM; they are tied to /repo by differential execution of every generated run "
               "(free-running lock-step, bit-exact floats; constants the code computes with NumPy transcendental kernels are read from the "
               "object and cross-checked to 1e-9)",
               "score theorems hold for every linear order of scores and every formula record; IEEE rounding is not modelled"]
TRUSTED = ["harness/algo_cases.py, harness/monitors.py, harness/common.py (instrumented partition subclasses, RNG patching)", "lean/PyXABModel/Drv (driver)"]


def regenerate(tier):
    """translator ties re-proved on every run: numeric formulas traced from the real methods = published formulas over every
    field (Spec/Formulas.lean), and selection rules run on order-only values for every order type = the model rules for all
    values of any linear order (Spec/OrderType.lean, Props/OrderTie.lean)"""
    import ties
    return ties.regen("C13")
