from algo_prop import make
ALGOS = ["T_HOO", "HCT", "VHCT", "SOO", "DOO", "StoSOO", "SequOOL", "StroquOOL", "VROOM", "Zooming", "POO", "GPO"]
LEAN_EXTRA = ["PyXABProofs.Generated.FormulasC04", "PyXABProofs.Props.C08", "PyXABProofs.Props.C11", "PyXABProofs.Props.C12", "PyXABProofs.Props.C13", "PyXABProofs.Props.StroquOOL"]
budget, explore, search, replay = make("C04", ALGOS, quick_per_algo=10, thorough_per_algo=60, salt=400, long_runs=__import__("props.C05", fromlist=["LONG"]).LONG)
RULE = ("the documented pull/receive loop on the real classes: algorithm x partition class (K 2..5) x dimension 1..3 x box shape x "
        "parameters from the documented ranges x ten reward modes (dyadic noise, all-negative, zero, constant, few-valued ties, "
        "alternating sign, large, objective+noise) x five split-fraction modes, 20..150 rounds, time labels t0+i, recommendation "
        "queries at random rounds; after every call the full abstract state (tree links, layers, counts, last reward, mean, U, B, "
        "tau, path, iteration) is compared bit-for-bit with the Lean model and the property monitor (own ledger / published "
        "formulas) runs on the live objects; non-trivial = >= 3 rounds completed; distinct = distinct configuration+history")
ASSUMPTIONS = ["theorems are about the Lean models HOO/HCT(VHCT); they are tied to /repo by differential execution of every "
               "generated run (free-running lock-step, bit-exact floats: math.* and ** are the same glibc calls as Lean's Float, "
               "np.sum/np.var are re-implemented in Lean; c1 is read from the object and cross-checked to 1e-9)",
               "score theorems hold for every linear order of scores and every formula record; IEEE rounding is not modelled"]
TRUSTED = ["harness/algo_cases.py, harness/monitors.py, harness/common.py (instrumented partition subclasses, RNG patching)", "lean/PyXABModel/Drv (driver)"]


def regenerate(tier):
    """translator tie: VHCT's variance floor max(np.var, 1e-3) traced from update_reward and re-proved each run"""
    import translate_formulas
    return translate_formulas.generate("C04")
