from algo_prop import make
LEAN_EXTRA = ["PyXABProofs.Props.ZoomingOptimism", "PyXABProofs.Generated.OrderTieC11", "PyXABProofs.Generated.FormulasC11"]
ALGOS = ['Zooming']
budget, explore, search, replay = make("C11", ALGOS, quick_per_algo=24, thorough_per_algo=300, salt=1100)
RULE = ("the documented pull/receive loop on the real classes: algorithm x partition class (K 2..5) x dimension 1..3 x box shape x "
        "parameters from the documented ranges x ten reward modes (dyadic noise, all-negative, zero, constant, few-valued ties, "
        "alternating sign, large, objective+noise) x five split-fraction modes, 20..150 rounds, time labels t0+i, recommendation "
        "queries at random rounds; after every call the full abstract state is compared bit-for-bit with the Lean model and the "
        "property monitor (own per-arm ledger, cover of leaves by arms, index argmax, refinement rule) runs on the live objects; non-trivial = >= 3 rounds completed; distinct = distinct configuration+history")
ASSUMPTIONS = ["theorems are about the Lean models of Zooming; they are tied to /repo by differential execution of every generated run "
               "(free-running lock-step, bit-exact floats; constants the code computes with NumPy transcendental kernels are read from the "
               "object and cross-checked to 1e-9)",
               "score theorems hold for every linear order of scores and every formula record; IEEE rounding is not modelled"]
TRUSTED = ["harness/algo_cases.py, harness/monitors.py, harness/common.py (instrumented partition subclasses, RNG patching)", "lean/PyXABModel/Drv (driver)"]

# directed cases: dyadic parameters for which the confidence radius meets nu*rho^depth EXACTLY (the rule is "<=")
DIRECTED = [
    ("Zooming", {"params": {"nu": 2.0, "rho": 0.5}, "kind": "binary", "d": 1, "T": 80, "rmode": "const", "bmode": "unit"}),
    ("Zooming", {"params": {"nu": 1.0, "rho": 0.5}, "kind": "binary", "d": 1, "T": 260, "rmode": "const", "bmode": "unit"}),
    ("Zooming", {"params": {"nu": 4.0, "rho": 0.5}, "kind": "kary", "K": 3, "d": 2, "T": 120, "rmode": "const"}),
]
_explore = explore


def explore(tier, seed, n):
    import algo_prop, framework as fw
    res = _explore(tier, seed, n)
    directed = algo_prop.run_cases([(970000 + j + 100 * seed, 0, a, f) for j, (a, f) in enumerate(DIRECTED)], parallel=False)
    mism, n_ops = fw.compare(directed)
    res["cases"] = directed + res["cases"]
    res["mism"] = mism + res["mism"]
    res["n_ops"] += n_ops
    return res


def regenerate(tier):
    """translator ties re-proved on every run: numeric formulas traced from the real methods = published formulas over every
    field (Spec/Formulas.lean), and selection rules run on order-only values for every order type = the model rules for all
    values of any linear order (Spec/OrderType.lean, Props/OrderTie.lean)"""
    import ties
    return ties.regen("C11")
