"""C02 — child cells exactly tile their parent cell in every partition."""
from common import *
import framework as fw
import part_cases, translate_geometry

RULE = ("(i) translator: the real make_children of each class is executed on symbolic scalars for d in 1..3, every split "
        "dimension, K in 2..5 and each traced instance is re-proved equal to the model in every ordered field; "
        "(ii) seeded float cases: deepen/make_children interleavings on the five classes, boxes of seven shapes, split "
        "fractions incl. exact end points; children compared bit-for-bit with the model's Float instance; the C02 monitor "
        "(grid-sweep tiling, shared faces, widths, centres, leaf tiling) runs on every real split; non-trivial = >= 2 expansions")
ASSUMPTIONS = ["theorems hold over ordered fields; IEEE-754 rounding is not modelled (float behaviour is covered by the "
               "bit-level comparison and the monitor on explored inputs only)",
               "np.random.uniform(lo,hi) returns a value in [lo,hi]; np.random.randint(0,d) a value in [0,d)"]
LEAN_EXTRA = ["PyXABProofs.Generated.Geometry", "PyXABProofs.Props.C02tree"]
TRUSTED = ["harness/translate_geometry.py (renders what it traced)", "harness/part_cases.py, harness/monitors.py", "lean/PyXABModel/Drv"]


def regenerate(tier):
    return translate_geometry.generate(tier)


def budget(tier):
    return {"quick": 150, "thorough": 2500}[tier]


def geometry_view(s):
    """C02 is about the cells' boxes: of a partition dump keep, per node, (id, depth, box); the index labels, the
    parent/child links and the per-depth lists are C03's subject and are compared there."""
    if not s.startswith("depth="):
        return s
    try:
        nodes = s.split(" nodes=", 1)[1].split(" ")
        out = []
        for nd in nodes:
            f_ = nd.split(":")
            out.append(f_[0] + ":" + f_[1] + ":" + ":".join(f_[5:]))
        return " ".join(out)
    except Exception:
        return s


def explore(tier, seed, n):
    cases = part_cases.extreme_cases(seed + 101) + [part_cases.gen_partition_case(seed + 101, i, wellformed=True) for i in range(n)]
    mism, n_ops = fw.compare(cases, view=geometry_view)
    return {"cases": cases, "mism": mism, "n_ops": n_ops}


def search(tier, seed, n):
    out = []
    for qmode in ["end", "dyadic", "random", "mixed"]:
        out += [part_cases.gen_partition_case(seed + 9001, i, wellformed=True, force={"qmode": qmode}) for i in range(n)]
    return out


replay = __import__("props.C03", fromlist=["replay"]).replay
