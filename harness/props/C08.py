from algo_prop import make
LEAN_EXTRA = ["PyXABProofs.Lemmas.OT_Bridge", "PyXABProofs.Props.DOOOptimism", "PyXABProofs.Generated.OrderTieC08", "PyXABProofs.Generated.FormulasC08"]
ALGOS = ['SOO', 'StoSOO', 'DOO']
# StoSOO with depth caps the tree actually reaches and small evaluation caps (directed, on every run; consecutive cases
# differ in n, k and delta)
STO_CAPS = [("StoSOO", {"params": {"n": n_, "h_max": hm_, "k": k_, **({"delta": dl_} if dl_ else {})}, "kind": kd_, "K": 3, "d": 1, "T": t_})
            for n_, hm_, k_, dl_, kd_, t_ in [(60, 2, 1, None, "binary", 30), (200, 3, 2, 0.1, "binary", 60), (40, 1, 1, None, "kary", 20),
                                             (120, 4, 3, 0.01, "randBinary", 100), (80, 2, 2, 0.5, "binary", 40)]]
budget, explore, search, replay = make("C08", ALGOS, quick_per_algo=14, thorough_per_algo=150, salt=800, long_runs=STO_CAPS)
RULE = ("the documented pull/receive loop on the real classes: algorithm x partition class (K 2..5) x dimension 1..3 x box shape x "
        "parameters from the documented ranges x ten reward modes (dyadic noise, all-negative, zero, constant, few-valued ties, "
        "alternating sign, large, objective+noise) x five split-fraction modes, 20..150 rounds, time labels t0+i, recommendation "
        "queries at random rounds; after every call the full abstract state is compared bit-for-bit with the Lean model and the "
        "property monitor (published sweep rules re-derived from tree snapshots at every expansion and hand-out) runs on the live objects; non-trivial = >= 3 rounds completed; distinct = distinct configuration+history")
ASSUMPTIONS = ["theorems are about the Lean models of SOO, StoSOO, DOO; they are tied to /repo by differential execution of every generated run "
               "(free-running lock-step, bit-exact floats; constants the code computes with NumPy transcendental kernels are read from the "
               "object and cross-checked to 1e-9)",
               "score theorems hold for every linear order of scores and every formula record; IEEE rounding is not modelled"]
TRUSTED = ["harness/algo_cases.py, harness/monitors.py, harness/common.py (instrumented partition subclasses, RNG patching)", "lean/PyXABModel/Drv (driver)"]

# directed cases: depth caps the budget actually reaches (the sweep must stop at the cap), default delta of DOO on
# partitions whose cells of one depth differ in width
DIRECTED = [
    ("StoSOO", {"params": {"n": 60, "h_max": 2, "k": 1}, "kind": "binary", "d": 1, "T": 40}),
    ("StoSOO", {"params": {"n": 80, "h_max": 3, "k": 1}, "kind": "binary", "d": 1, "T": 60}),
    ("StoSOO", {"params": {"n": 80, "h_max": 2, "k": 2, "delta": 0.1}, "kind": "kary", "K": 3, "d": 2, "T": 60}),
    ("SOO", {"params": {"n": 100, "h_max": 3}, "kind": "binary", "d": 1, "T": 40}),
    ("DOO", {"params": {"n": 100}, "kind": "binary", "d": 2, "T": 100, "rmode": "objective"}),
    ("DOO", {"params": {"n": 100}, "kind": "randBinary", "d": 2, "T": 100, "rmode": "objective"}),
]
_explore = explore


def explore(tier, seed, n):
    import algo_prop, framework as fw
    res = _explore(tier, seed, n)
    directed = algo_prop.run_cases([(980000 + j + 100 * seed, 0, a, f) for j, (a, f) in enumerate(DIRECTED)], parallel=False)
    mism, n_ops = fw.compare(directed)
    res["cases"] = directed + res["cases"]
    res["mism"] = mism + res["mism"]
    res["n_ops"] += n_ops
    return res


def regenerate(tier):
    """translator ties re-proved on every run: numeric formulas traced from the real methods = published formulas over every
    field (Spec/Formulas.lean), and selection rules run on order-only values for every order type = the model rules for all
    values of any linear order (Spec/OrderType.lean, Props/OrderTie.lean)"""
    import ties
    return ties.regen("C08")
