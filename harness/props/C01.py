from algo_prop import make
ALGOS = ["T_HOO", "HCT", "VHCT", "POO", "GPO", "PCT", "VPCT", "DOO", "SOO", "StoSOO", "SequOOL", "StroquOOL", "VROOM", "Zooming"]
LEAN_EXTRA = ["PyXABProofs.Props.C06", "PyXABProofs.Props.C08", "PyXABProofs.Props.C09", "PyXABProofs.Props.C10", "PyXABProofs.Props.C11", "PyXABProofs.Props.C12", "PyXABProofs.Props.C13", "PyXABProofs.Props.StroquOOL"]
budget, explore, search, replay = make("C01", ALGOS, quick_per_algo=15, thorough_per_algo=70, salt=100)
RULE = ("the documented pull/receive loop on all 14 real classes (wrappers over each base learner): algorithm x partition class "
        "(K 2..5) x dimension 1..3 x seven box shapes x documented parameter ranges x ten reward modes x five split-fraction modes, "
        "20..150 rounds (StroquOOL: its full budget), each call under a CPU-time budget (a hang is reported, never a stuck check); "
        "every returned point must be a d-vector of finite floats inside the box, no call may raise or return None; every call is "
        "also compared with the Lean model (error enum included); configurations outside the quantifier (depth cap < rounds) are "
        "counted separately; non-trivial = >= 3 rounds completed; distinct = distinct configuration+history")
ASSUMPTIONS = ["totality / in-domain theorems are about the Lean models over ordered fields; they are tied to /repo by differential "
               "execution; IEEE overflow of lo+hi is not modelled (boxes up to 1e6 are explored)",
               "StroquOOL: modelled and compared in lock-step like the others; its theorems (Props/StroquOOL.lean) cover crediting, "
               "the recommendation and the end behaviour, not a loop-totality theorem of its own"]
TRUSTED = ["harness/algo_cases.py, harness/monitors.py, harness/common.py (instrumented partition subclasses, RNG patching, SIGALRM budget)", "lean/PyXABModel/Drv (driver)"]

# directed cases, run first on every check: one per recorded finding (so that each is re-established
# against the real code on every run) + boundary configurations next to them that must NOT fail
DIRECTED = [
    ("POO", {"params": {"base": "HCT", "numax": 1.0, "rhomax": 0.8, "rounds": 100}, "kind": "binary", "d": 1, "T": 20}),     # K1
    ("POO", {"params": {"base": "T_HOO", "numax": 1.0, "rhomax": 0.84, "rounds": 100}, "kind": "binary", "d": 1, "T": 40}),  # just inside
    ("VROOM", {"params": {"n": 20, "h_max": 5, "b": 1.0, "f_max": 1.0}, "kind": "kary", "K": 3, "d": 1, "T": 20}),          # K2
    ("VROOM", {"params": {"n": 20, "h_max": 5, "b": 1.0, "f_max": 1.0}, "kind": "kary", "K": 2, "d": 1, "T": 20}),          # binary: fine
    ("GPO", {"params": {"base": "HCT", "numax": 1.0, "rhomax": 0.6, "rounds": 100}, "kind": "binary", "d": 1, "T": 3}),      # K3
    ("SequOOL", {"params": {"n": 100}, "kind": "binary", "d": 1, "T": 20, "queries": 0}),
    ("GPO", {"params": {"base": "T_HOO", "numax": 1.0, "rhomax": 0.99, "rounds": 100}, "kind": "binary", "d": 2, "T": 20}),  # K4
    ("PCT", {"params": {"base": "HCT", "numax": 1.0, "rhomax": 0.9, "rounds": 100}, "kind": "binary", "d": 2, "T": 100}),
    ("GPO", {"params": {"base": "HCT", "numax": 1.0, "rhomax": 0.3, "rounds": 100}, "kind": "binary", "d": 1, "T": 100}),    # one phase (N = 1): fine
    ("VPCT", {"params": {"base": "VHCT", "numax": 1.0, "rhomax": 0.2, "rounds": 300}, "kind": "kary", "K": 3, "d": 2, "T": 60}),
    ("StroquOOL", {"params": {"n": 1000}, "kind": "binary", "d": 1, "T": 60}),
    ("StroquOOL", {"params": {"n": 100}, "kind": "binary", "d": 1, "T": 100}),                                               # smaller budget after a larger one
]
_explore = explore


def explore(tier, seed, n):
    import algo_prop, framework as fw
    res = _explore(tier, seed, n)
    directed = algo_prop.run_cases([(990000 + j, 0, a, f) for j, (a, f) in enumerate(DIRECTED)], parallel=False)
    mism, n_ops = fw.compare(directed)
    res["cases"] = directed + res["cases"]
    res["mism"] = mism + res["mism"]
    res["n_ops"] += n_ops
    return res
