from algo_prop import make
LEAN_EXTRA = ["PyXABProofs.Generated.OrderTieC09", "PyXABProofs.Generated.FormulasC09"]
from common import fbits
ALGOS = ['GPO', 'PCT', 'VPCT']
budget, explore, search, replay = make("C09", ALGOS, quick_per_algo=12, thorough_per_algo=150, salt=900)
RULE = ("the documented pull/receive loop on the real classes: algorithm x partition class (K 2..5) x dimension 1..3 x box shape x "
        "parameters from the documented ranges x ten reward modes (dyadic noise, all-negative, zero, constant, few-valued ties, "
        "alternating sign, large, objective+noise) x five split-fraction modes, 20..150 rounds, time labels t0+i, recommendation "
        "queries at random rounds; after every call the full abstract state is compared bit-for-bit with the Lean model and the "
        "property monitor (schedule re-derived from n and rho_max with math.*; recording base learner) runs on the live objects; non-trivial = >= 3 rounds completed; distinct = distinct configuration+history")
ASSUMPTIONS = ["theorems are about the Lean models of GPO, PCT, VPCT; they are tied to /repo by differential execution of every generated run "
               "(free-running lock-step, bit-exact floats; constants the code computes with NumPy transcendental kernels are read from the "
               "object and cross-checked to 1e-9)",
               "score theorems hold for every linear order of scores and every formula record; IEEE rounding is not modelled"]
TRUSTED = ["harness/algo_cases.py, harness/monitors.py, harness/common.py (instrumented partition subclasses, RNG patching)", "lean/PyXABModel/Drv (driver)"]

# --- exhaustive enumeration of the (reward-independent) schedule constants: the real constructor's N and
# half_phase_length against the published formula (math.*) and against the Lean driver's recomputation
_explore = explore


def schedule_sweep(tier):
    import math
    from framework import Case
    from PyXAB.algos.GPO import GPO
    from PyXAB.algos.HCT import HCT
    from PyXAB.partition.BinaryPartition import BinaryPartition
    c = Case("gpo-schedule-sweep", {"gen": "gpo-schedule", "kind": "binary", "ops": "sweep"})
    ns = range(100, 1501) if tier == "quick" else range(100, 5001)
    checked = skipped = 0
    for rhomax in (0.5, 0.6, 0.75, 0.9):
        for n in ns:
            g = GPO(numax=1.0, rhomax=rhomax, rounds=n, domain=[[0.0, 1.0]], partition=BinaryPartition, algo=HCT)
            Dmax = math.log(2) / math.log(1 / rhomax)
            pre = 0.5 * Dmax * math.log((n / 2) / math.log(n / 2))
            if abs(pre - round(pre)) < 1e-9:
                skipped += 1
                continue
            N = math.ceil(pre)
            half = math.floor(n / (2 * N))
            checked += 1
            if g.N != N or g.half_phase_length != half:
                c.fail("C09", "schedule-constants", f"n={n} rho_max={rhomax}: N={g.N}, half={g.half_phase_length}; published formula gives {N}, {half}",
                       algo="GPO", n=n, rhomax=rhomax)
                if len(c.monitor) > 5:
                    break
            if n % 7 == 0 or g.N != N:
                c.op(f"GPO.init HCT binary 0 1 {fbits(0.0)} {fbits(1.0)} {fbits(1.0)} {fbits(rhomax)} {n} {fbits(g.N)} {fbits(g.half_phase_length)}", "ok")
    c.tags[f"schedule-sweep-checked={checked}"] += 1
    c.tags[f"schedule-sweep-near-integer-skipped={skipped}"] += 1
    c.meta["n_checked"] = checked
    return c


def explore(tier, seed, n):
    import framework as fw
    from common import fbits  # noqa
    res = _explore(tier, seed, n)
    sw = schedule_sweep(tier)
    mism, n_ops = fw.compare([sw])
    res["cases"] = [sw] + res["cases"]
    res["mism"] = mism + res["mism"]
    res["n_ops"] += n_ops
    res.setdefault("extra", {})["schedule_constants_enumerated"] = sw.meta["n_checked"]
    return res


def regenerate(tier):
    """translator ties re-proved on every run: numeric formulas traced from the real methods = published formulas over every
    field (Spec/Formulas.lean), and selection rules run on order-only values for every order type = the model rules for all
    values of any linear order (Spec/OrderType.lean, Props/OrderTie.lean)"""
    import ties
    return ties.regen("C09")
