"""C03 — partition tree and per-depth index stay mutually consistent."""
from common import *
import framework as fw
import part_cases

RULE = ("seeded random interleavings of deepen()/make_children(leaf, newlayer=(leaf at deepest level)) on the five real "
        "partition classes (K 2..5, d 1..4, seven box shapes, five split-fraction modes incl. end points), plus a "
        "malformed stream (non-leaf targets, wrong flags) for the model's misuse fidelity; a case is non-trivial when it "
        "performs >= 2 expansions; distinct = distinct (kind, op sequence)")
ASSUMPTIONS = ["theorems are about the Lean model Part.makeChildren/deepen; the model is tied to /repo by differential "
               "execution of every generated op sequence (complete link structure compared after every op)",
               "CPython list semantics"]
TRUSTED = ["harness/part_cases.py + harness/common.py (instrumented subclasses, canonical dump)", "lean/PyXABModel/Drv (driver parser/printer)"]


LEAN_EXTRA = ["PyXABProofs.Generated.Indices"]


def regenerate(tier):
    """translator tie for the index labels: the real make_children of each class is run with a SYMBOLIC parent index
    and the traced child labels are re-proved equal to the model's `childIndex` (omega) on every run"""
    import translate_geometry
    return translate_geometry.generate(tier)


def budget(tier):
    return {"quick": 150, "thorough": 2500}[tier]


ALGOS = ["T_HOO", "HCT", "VHCT", "SOO", "DOO", "StoSOO", "SequOOL", "Zooming", "POO", "GPO", "VROOM"]


def explore(tier, seed, n):
    import algo_prop
    cases = part_cases.extreme_cases(seed) + [part_cases.gen_partition_case(seed, i, wellformed=(i % 5 != 4)) for i in range(n)]
    per = {"quick": 3, "thorough": 40}[tier]
    acases = algo_prop.run_cases([(seed + 300, i, a, None) for a in ALGOS for i in range(per)])
    # The C03 theorems are about the partition operations; an algorithm run is tied to them by checking, on the live
    # objects, that every make_children call it issues is a *legal op* of `ops_WF` (leaf target, right flag) and that
    # the five clauses hold after every round.  The algorithms' own decisions (which cell to expand) are not part of
    # C03, so their lock-step lines are not compared here (they are in C01/C04-C13).
    for c in acases:
        c.ops = [(l, None) for l, _e in c.ops]
    cases += acases
    mism, n_ops = fw.compare(cases)
    return {"cases": cases, "mism": mism, "n_ops": n_ops}


def search(tier, seed, n):
    import algo_prop
    return [part_cases.gen_partition_case(seed + 7919, i, wellformed=True) for i in range(4 * n)] + \
        algo_prop.run_cases([(seed + 8300, i, a, None) for a in ALGOS for i in range(24)])


def replay(path):
    import json
    r = json.load(open(path))
    m = r.get("case") or (r.get("no_longer_checks") or [{}])[0].get("case")
    if not m:
        print("replay file names no concrete case:", json.dumps(r.get("no_longer_checks"), indent=1)[:2000]); return 1
    if m.get("gen") == "algo":
        import algo_prop
        c = algo_prop._one((m["seed"], m["idx"], m["algo"], m.get("force") or None))
    else:
        c = part_cases.gen_partition_case(m["seed"], m["idx"], wellformed=m["wellformed"], force=m.get("force") or None)
    mism, _ = fw.compare([c])
    for f in c.monitor:
        print("monitor:", f)
    for (_c, i, l, e, g) in mism:
        print("correspondence:", i, l[:80], fw.first_diff(e, g))
    return 1 if (c.monitor or mism) else 0
