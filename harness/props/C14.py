"""C14 — runs are reproducible, instances are isolated, user inputs are not mutated."""
import os, multiprocessing as mp
from common import *
import framework as fw
import relational

ALGOS = ["T_HOO", "HCT", "VHCT", "Zooming", "POO", "GPO", "PCT", "VPCT", "SOO", "DOO", "StoSOO", "SequOOL", "VROOM", "StroquOOL"]
GROUP = relational.c14_group
PID = "C14"
RULE = ("for each algorithm: (a) the documented loop twice with the REAL NumPy generator and np.random.seed(s): identical points and recommendation; (b) two independently constructed instances (same or different algorithm) on partitions whose geometry does not depend on the generator state, interleaved round by round and in random bursts, vs each alone (VROOM excluded: it samples in every pull); (c) deep comparison of the user's domain object before/after; plus the patched-RNG lock-step comparison of the base run with the Lean model; non-trivial = group where (a) ran; distinct = distinct configuration")
ASSUMPTIONS = ["in the pure Lean models determinism and isolation hold by construction (product-machine theorem); isolation of the implementation is established on the explored schedules: a shared mutable default or class attribute would make some transition of one instance differ from the model's transition from its own abstract state"]
TRUSTED = ["harness/relational.py, harness/algo_cases.py", "lean/PyXABModel/Drv"]


def _grp(args):
    seed, idx, algo = args
    return GROUP(seed, idx, algo)


def run_groups(specs):
    if len(specs) > 6:
        with mp.Pool(min(16, os.cpu_count() or 4)) as pool:
            gs = pool.map(_grp, specs, chunksize=1)
    else:
        gs = [_grp(s) for s in specs]
    return [c for g in gs for c in g]


def budget(tier):
    return {"quick": 6, "thorough": 40}[tier]


def explore(tier, seed, n):
    cases = run_groups([(seed + 1400, i, a) for a in ALGOS for i in range(n)])
    mism, n_ops = fw.compare(cases)
    return {"cases": cases, "mism": mism, "n_ops": n_ops}


def search(tier, seed, n):
    return run_groups([(seed + 9400, i, a) for a in ALGOS for i in range(3 * n)])


def replay(path):
    import json
    r = json.load(open(path))
    m = r.get("case") or (r.get("no_longer_checks") or [{}])[0].get("case")
    if not m or m.get("gen") != "algo":
        print(json.dumps(r, indent=1)[:3000]); return 1
    cs = GROUP(m["seed"], m["idx"], m["algo"])
    mism, _ = fw.compare(cs)
    bad = [f for c in cs for f in c.monitor if f["property"] == PID]
    for f in bad[:10]:
        print("monitor:", f)
    for (_c, i, l, e, g) in mism:
        print("correspondence:", _c.name, i, l[:80], fw.first_diff(e, g))
    return 1 if (bad or mism) else 0
