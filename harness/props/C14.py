"""C14 — runs are reproducible, instances are isolated, user inputs are not mutated."""
import os, multiprocessing as mp
from common import *
import framework as fw
import relational

ALGOS = ["T_HOO", "HCT", "VHCT", "Zooming", "POO", "GPO", "PCT", "VPCT", "SOO", "DOO", "StoSOO", "SequOOL", "VROOM", "StroquOOL"]
GROUP = relational.c14_group
PID = "C14"
RULE = ("for each algorithm: (a) the documented loop twice with the REAL NumPy generator and np.random.seed(s): identical points and recommendation; (b) two independently constructed instances (same or different algorithm) on partitions whose geometry does not depend on the generator state, interleaved round by round and in random bursts, vs each alone (VROOM excluded: it samples in every pull); (c) deep comparison of the user's domain object before/after; plus the patched-RNG lock-step comparison of the base run with the Lean model; non-trivial = group where (a) ran; distinct = distinct configuration")
ASSUMPTIONS = ["in the pure Lean models determinism and isolation hold by construction (product-machine theorem); isolation of the implementation is established on the explored schedules: a shared mutable default or class attribute would make some transition of one instance differ from the model's transition from its own abstract state"]
TRUSTED = ["harness/relational.py, harness/algo_cases.py", "lean/PyXABModel/Drv"]


# directed groups (on every run): configurations whose constructor takes a rarely used branch — state that such a branch
# leaves behind in the class shows in the next instance of the same process
DIRECTED = [
    ("VROOM", {"params": {"n": 40, "h_max": 100, "b": 1.0, "f_max": 1.0}, "kind": "binary", "K": 2, "d": 1, "T": 40}),      # cap above the budget
    ("VROOM", {"params": {"n": 64, "h_max": 1000, "b": 0.5, "f_max": 2.0}, "kind": "randBinary", "K": 2, "d": 2, "T": 30}),
    ("StoSOO", {"params": {"n": 60, "h_max": 100}, "kind": "binary", "K": 2, "d": 1, "T": 60}),                             # k and delta left to their defaults
    ("DOO", {"params": {"n": 100}, "kind": "kary", "K": 3, "d": 1, "T": 60}),                                                # default delta
]


def _grp(args):
    if len(args) == 4:
        return GROUP(args[0], args[1], args[2], directed=args[3])
    seed, idx, algo = args
    return GROUP(seed, idx, algo)


def run_groups(specs):
    if len(specs) > 6:
        with mp.Pool(min(16, os.cpu_count() or 4)) as pool:
            gs = pool.map(_grp, specs, chunksize=1)
    else:
        gs = [_grp(s) for s in specs]
    return [c for g in gs for c in g]


def budget(tier):
    return {"quick": 6, "thorough": 40}[tier]


def explore(tier, seed, n):
    cases = run_groups([(seed + 1400, 890000 + j, a, f) for j, (a, f) in enumerate(DIRECTED)] + [(seed + 1400, i, a) for a in ALGOS for i in range(n)])
    mism, n_ops = fw.compare(cases)
    return {"cases": cases, "mism": mism, "n_ops": n_ops}


def search(tier, seed, n):
    return run_groups([(seed + 9400, i, a) for a in ALGOS for i in range(3 * n)])


def replay(path):
    import json
    r = json.load(open(path))
    m = r.get("case") or (r.get("no_longer_checks") or [{}])[0].get("case")
    if not m or m.get("gen") != "algo":
        print(json.dumps(r, indent=1)[:3000]); return 1
    cs = GROUP(m["seed"], m["idx"], m["algo"])
    mism, _ = fw.compare(cs)
    bad = [f for c in cs for f in c.monitor if f["property"] == PID]
    for f in bad[:10]:
        print("monitor:", f)
    for (_c, i, l, e, g) in mism:
        print("correspondence:", _c.name, i, l[:80], fw.first_diff(e, g))
    return 1 if (bad or mism) else 0
