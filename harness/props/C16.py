"""C16 — algorithms see the domain only through the partition (affine equivariance)."""
import os, multiprocessing as mp
from common import *
import framework as fw
import relational

ALGOS = ["T_HOO", "HCT", "VHCT", "Zooming", "POO", "GPO", "SOO", "DOO", "StoSOO", "SequOOL", "VROOM", "PCT"]
GROUP = relational.c16_group
PID = "C16"
RULE = ("for each algorithm a base run on a box B and runs on images phi(B) (per-dimension power-of-two scaling, translation, both, arbitrary scaling) with the same rewards and the same split fractions / sampling fractions; the image run must return exactly phi(points) and phi(recommendation) when phi is exact in floating point (dyadic boxes, power-of-two scalings; translations on midpoint partitions), else to 1e-9; DOO with its default diameter function only under translations (documented exception); every run is also compared call by call with the Lean model; non-trivial = group with >= 2 maps")
ASSUMPTIONS = ["geometry commutes with per-dimension affine maps over every ordered field (theorems); the algorithm models read cell coordinates only through cpoint / Zooming.contains / DOO's delta / VROOM's sampled point (by construction of the models: the box payload is opaque to every decision); the implementation is tied to the models by lock-step runs on both the box and its images"]
TRUSTED = ["harness/relational.py, harness/algo_cases.py", "lean/PyXABModel/Drv"]


# directed groups: a sampling algorithm that walks down to cells of zero width (the default depth cap) on boxes whose images
# are far from the origin: whatever depends on the absolute position of a cell at float resolution shows here
DIRECTED = [
    ("VROOM", {"kind": "binary", "K": 2, "d": 2, "bmode": "unit", "qmode": "half", "T": 30, "params": {"n": 128, "h_max": 100, "b": 1.0, "f_max": 1.0}}),
    ("VROOM", {"kind": "binary", "K": 2, "d": 3, "bmode": "shift", "qmode": "half", "T": 20, "params": {"n": 256, "h_max": 160, "b": 1.0, "f_max": 2.0}}),
    ("DOO", {"kind": "binary", "K": 2, "d": 2, "bmode": "unit", "qmode": "half", "T": 150, "rmode": "corner", "params": {"n": 150, "delta_c": 1.0, "delta_g": 0.5, "delta_kind": "zero"}}),
]


def _grp(args):
    if len(args) == 4:
        return GROUP(args[0], args[1], args[2], directed=args[3])
    seed, idx, algo = args
    return GROUP(seed, idx, algo)


def run_groups(specs):
    if len(specs) > 6:
        with mp.Pool(min(16, os.cpu_count() or 4)) as pool:
            gs = pool.map(_grp, specs, chunksize=1)
    else:
        gs = [_grp(s) for s in specs]
    return [c for g in gs for c in g]


def budget(tier):
    return {"quick": 8, "thorough": 40}[tier]


def explore(tier, seed, n):
    cases = run_groups([(seed + 1600, 880000 + j, a, f) for j, (a, f) in enumerate(DIRECTED)] + [(seed + 1600, i, a) for a in ALGOS for i in range(n)])
    mism, n_ops = fw.compare(cases)
    return {"cases": cases, "mism": mism, "n_ops": n_ops}


def search(tier, seed, n):
    return run_groups([(seed + 9600, i, a) for a in ALGOS for i in range(3 * n)])


def replay(path):
    import json
    r = json.load(open(path))
    m = r.get("case") or (r.get("no_longer_checks") or [{}])[0].get("case")
    if not m or m.get("gen") != "algo":
        print(json.dumps(r, indent=1)[:3000]); return 1
    cs = GROUP(m["seed"], m["idx"], m["algo"])
    mism, _ = fw.compare(cs)
    bad = [f for c in cs for f in c.monitor if f["property"] == PID]
    for f in bad[:10]:
        print("monitor:", f)
    for (_c, i, l, e, g) in mism:
        print("correspondence:", _c.name, i, l[:80], fw.first_diff(e, g))
    return 1 if (bad or mism) else 0
