from algo_prop import make
LEAN_EXTRA = ["PyXABProofs.Props.HOOOptimism", "PyXABProofs.Generated.OrderTieC05", "PyXABProofs.Generated.FormulasC05"]
ALGOS = ["T_HOO", "HCT", "VHCT"]
LONG = [("T_HOO", {"params": {"nu": 1.0, "rho": 0.5, "rounds": 4000}, "kind": "binary", "d": 1, "T": 2600, "queries": 0}),
        ("HCT", {"params": {"nu": 1.0, "rho": 0.5, "c": 0.1, "delta": 0.01}, "kind": "binary", "d": 1, "T": 2100, "queries": 0}),
        ("VHCT", {"params": {"nu": 1.0, "rho": 0.5, "c": 0.1, "delta": 0.01, "bound": 1.0}, "kind": "kary", "K": 3, "d": 2, "T": 1100, "queries": 0})]
budget, explore, search, replay = make("C05", ALGOS, salt=500, long_runs=LONG)
RULE = ("the documented pull/receive loop on the real classes: algorithm x partition class (K 2..5) x dimension 1..3 x box shape x "
        "parameters from the documented ranges x ten reward modes (dyadic noise, all-negative, zero, constant, few-valued ties, "
        "alternating sign, large, objective+noise) x five split-fraction modes, 20..150 rounds, time labels t0+i, recommendation "
        "queries at random rounds; after every call the full abstract state (tree links, layers, counts, last reward, mean, U, B, "
        "tau, path, iteration) is compared bit-for-bit with the Lean model and the property monitor (own ledger / published "
        "formulas) runs on the live objects; non-trivial = >= 3 rounds completed; distinct = distinct configuration+history")
ASSUMPTIONS = ["theorems are about the Lean models HOO/HCT(VHCT); they are tied to /repo by differential execution of every "
               "generated run (free-running lock-step, bit-exact floats: math.* and ** are the same glibc calls as Lean's Float, "
               "np.sum/np.var are re-implemented in Lean; c1 is read from the object and cross-checked to 1e-9)",
               "score theorems hold for every linear order of scores and every formula record; IEEE rounding is not modelled"]
TRUSTED = ["harness/algo_cases.py, harness/monitors.py, harness/common.py (instrumented partition subclasses, RNG patching)", "lean/PyXABModel/Drv (driver)"]


def regenerate(tier):
    """translator ties re-proved on every run: numeric formulas traced from the real methods = published formulas over every
    field (Spec/Formulas.lean), and selection rules run on order-only values for every order type = the model rules for all
    values of any linear order (Spec/OrderType.lean, Props/OrderTie.lean)"""
    import ties
    return ties.regen("C05")
