from algo_prop import make
ALGOS = ['DOO', 'SOO', 'SequOOL', 'StoSOO', 'StroquOOL', 'POO', 'GPO', 'PCT', 'VPCT']
# StoSOO with depth caps the tree actually reaches and small evaluation caps (directed, on every run; consecutive cases
# differ in n, k and delta)
STO_CAPS = [("StoSOO", {"params": {"n": n_, "h_max": hm_, "k": k_, **({"delta": dl_} if dl_ else {})}, "kind": kd_, "K": 3, "d": 1, "T": t_})
            for n_, hm_, k_, dl_, kd_, t_ in [(60, 2, 1, None, "binary", 30), (200, 3, 2, 0.1, "binary", 60), (40, 1, 1, None, "kary", 20),
                                             (120, 4, 3, 0.01, "randBinary", 100), (80, 2, 2, 0.5, "binary", 40)]]
budget, explore, search, replay = make("C07", ALGOS, quick_per_algo=12, thorough_per_algo=100, salt=700, long_runs=STO_CAPS)
LEAN_EXTRA = ["PyXABProofs.Lemmas.OT_Bridge", "PyXABProofs.Generated.OrderTieC07", "PyXABProofs.Props.C07sweep", "PyXABProofs.Props.C07seq", "PyXABProofs.Props.C09", "PyXABProofs.Props.C10", "PyXABProofs.Props.StroquOOL"]
RULE = ("the documented pull/receive loop on the real classes: algorithm x partition class (K 2..5) x dimension 1..3 x box shape x "
        "parameters from the documented ranges x ten reward modes (dyadic noise, all-negative, zero, constant, few-valued ties, "
        "alternating sign, large, objective+noise) x five split-fraction modes, 20..150 rounds, time labels t0+i, recommendation "
        "queries at random rounds; after every call the full abstract state is compared bit-for-bit with the Lean model and the "
        "property monitor (own (point, reward) ledger: recommended cell evaluated and best) runs on the live objects; non-trivial = >= 3 rounds completed; distinct = distinct configuration+history")
ASSUMPTIONS = ["theorems are about the Lean models of DOO, SOO, SequOOL, StoSOO, POO, GPO, PCT, VPCT; they are tied to /repo by differential execution of every generated run "
               "(free-running lock-step, bit-exact floats; constants the code computes with NumPy transcendental kernels are read from the "
               "object and cross-checked to 1e-9)",
               "score theorems hold for every linear order of scores and every formula record; IEEE rounding is not modelled"]
TRUSTED = ["harness/algo_cases.py, harness/monitors.py, harness/common.py (instrumented partition subclasses, RNG patching)", "lean/PyXABModel/Drv (driver)"]


def regenerate(tier):
    """translator ties re-proved on every run: numeric formulas traced from the real methods = published formulas over every
    field (Spec/Formulas.lean), and selection rules run on order-only values for every order type = the model rules for all
    values of any linear order (Spec/OrderType.lean, Props/OrderTie.lean)"""
    import ties
    return ties.regen("C07")
