"""C15 — anytime algorithms ignore the time argument and tolerate recommendation queries."""
import os, multiprocessing as mp
from common import *
import framework as fw
import relational

ALGOS = relational.C15_LABEL_ALGOS
GROUP = relational.c15_group
PID = "C15"
RULE = ("for each algorithm a base run (labels 1..T, no queries) and variants with the SAME configuration, rewards and draws but "
        "labels from 0, from 17, random increasing labels, constant labels, and (T-HOO, HCT, VHCT, Zooming, POO) get_last_point "
        "inserted at random rounds and at every round; point sequences and recommendations must be identical; every run is also "
        "compared call by call with the Lean model; non-trivial = group with >= 4 variants; distinct = distinct base configuration")
ASSUMPTIONS = ["the Lean models of T-HOO/HCT/VHCT/Zooming take no time argument at all and the others only store it (time_irrelevant "
               "theorems); the implementation is tied to them by lock-step runs under every label scheme explored"]
TRUSTED = ["harness/relational.py, harness/algo_cases.py", "lean/PyXABModel/Drv"]


def _grp(args):
    seed, idx, algo = args
    return GROUP(seed, idx, algo)


def run_groups(specs):
    if len(specs) > 6:
        with mp.Pool(min(16, os.cpu_count() or 4)) as pool:
            gs = pool.map(_grp, specs, chunksize=1)
    else:
        gs = [_grp(s) for s in specs]
    return [c for g in gs for c in g]


def budget(tier):
    return {"quick": 6, "thorough": 30}[tier]


def explore(tier, seed, n):
    cases = run_groups([(seed + 1500, i, a) for a in ALGOS for i in range(n * (2 if a in ("POO", "GPO") else 1))])
    mism, n_ops = fw.compare(cases)
    return {"cases": cases, "mism": mism, "n_ops": n_ops}


def search(tier, seed, n):
    return run_groups([(seed + 9500, i, a) for a in ALGOS for i in range(3 * n)])


def replay(path):
    import json
    r = json.load(open(path))
    m = r.get("case") or (r.get("no_longer_checks") or [{}])[0].get("case")
    if not m or m.get("gen") != "algo":
        print(json.dumps(r, indent=1)[:3000]); return 1
    cs = GROUP(m["seed"], m["idx"], m["algo"])
    mism, _ = fw.compare(cs)
    bad = [f for c in cs for f in c.monitor if f["property"] == PID]
    for f in bad[:10]:
        print("monitor:", f)
    for (_c, i, l, e, g) in mism:
        print("correspondence:", _c.name, i, l[:80], fw.first_diff(e, g))
    return 1 if (bad or mism) else 0
