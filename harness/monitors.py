"""Executable statements of the properties over the *real* objects (used to search for a failing
input once a proof obligation or the correspondence breaks, and as a standing cross-check)."""
import math, itertools
import numpy as np


# ------------------------------------------------------------------ C02
def box_contains_box(outer, inner):
    return all(o[0] <= i[0] and i[1] <= o[1] for o, i in zip(outer, inner))


def box_volume(b):
    v = 1.0
    for lo, hi in b:
        v *= (hi - lo)
    return v


def interiors_disjoint(a, b):
    # open boxes intersect iff in every dimension max(lo) < min(hi)
    return not all(max(x[0], y[0]) < min(x[1], y[1]) for x, y in zip(a, b))


def tiles_exactly(parent, kids):
    """Grid sweep: every grid cell of positive volume inside the parent is in exactly one child;
    children are inside the parent.  Exact (no tolerance): uses only comparisons of the stored
    floats."""
    d = len(parent)
    for k in kids:
        if len(k) != d:
            return "child dimension differs"
        if not box_contains_box(parent, k):
            return "child not contained in parent"
        if any(iv[0] > iv[1] for iv in k):
            return "child with lo > hi"
    coords = []
    for j in range(d):
        s = {parent[j][0], parent[j][1]}
        for k in kids:
            s.add(k[j][0]); s.add(k[j][1])
        coords.append(sorted(s))
    ranges = [list(zip(c[:-1], c[1:])) for c in coords]
    total = 1
    for r in ranges:
        total *= len(r)
    if total > 200000:
        return None
    for cell in itertools.product(*ranges):
        cnt = 0
        for k in kids:
            if all(k[j][0] <= cell[j][0] and cell[j][1] <= k[j][1] for j in range(d)):
                cnt += 1
        if cnt != 1:
            return f"grid cell {cell} covered by {cnt} children"
    return None


def c02_split(kind, K, parent_box, kid_boxes, kid_cpoints, call):
    """All clauses of C02 for one real make_children call. Returns list of (sig, detail)."""
    out = []
    d = len(parent_box)
    arity = {"binary": 2, "randBinary": 2, "dimBinary": 2 ** d, "kary": K, "randKary": K}[kind]
    if len(kid_boxes) != arity:
        out.append(("arity", f"{len(kid_boxes)} children, documented arity {arity}"))
        return out
    t = tiles_exactly(parent_box, kid_boxes)
    if t:
        out.append(("tiling", t))
    # faces: in every dimension each child face is either the parent's own or shared bit-for-bit
    if kind != "dimBinary":
        dim = call["dim"]
        for j in range(d):
            if j == dim:
                continue
            for kb in kid_boxes:
                if kb[j][0] != parent_box[j][0] or kb[j][1] != parent_box[j][1]:
                    out.append(("outer-face", f"dimension {j} changed although split was along {dim}"))
        if kid_boxes[0][dim][0] != parent_box[dim][0] or kid_boxes[-1][dim][1] != parent_box[dim][1]:
            out.append(("outer-face", "first/last child does not keep the parent's face"))
        for a, b in zip(kid_boxes[:-1], kid_boxes[1:]):
            if a[dim][1] != b[dim][0]:
                out.append(("shared-boundary", f"{a[dim][1]!r} != {b[dim][0]!r}"))
    else:
        for i, kb in enumerate(kid_boxes):
            for j in range(d):
                lo, hi = parent_box[j]
                m = (lo + hi) / 2
                exp = [m, hi] if (i >> j) & 1 else [lo, m]
                if list(kb[j]) != exp:
                    out.append(("dimbinary-order", f"child {i} dim {j}: {kb[j]} expected {exp}"))
    if kind in ("binary", "kary", "dimBinary"):
        dims = range(d) if kind == "dimBinary" else [call["dim"]]
        per = 2 if kind != "kary" else K
        for j in dims:
            w = (parent_box[j][1] - parent_box[j][0]) / per
            for kb in kid_boxes:
                kw = kb[j][1] - kb[j][0]
                if abs(kw - w) > 1e-12 * max(abs(w), abs(parent_box[j][0]), abs(parent_box[j][1])) + 1e-300:
                    out.append(("equal-width", f"dim {j}: child width {kw!r} vs parent/arity {w!r}"))
    for kb, cp in zip(kid_boxes, kid_cpoints):
        for j in range(d):
            c = (kb[j][0] + kb[j][1]) / 2
            if cp[j] != c:
                out.append(("centre", f"c_point {cp[j]!r} != centre {c!r}"))
    return out


def c02_leaves_tile(root_box, leaf_boxes):
    out = []
    for lb in leaf_boxes:
        if not box_contains_box(root_box, lb):
            out.append(("leaf-outside-root", f"{lb}"))
            return out
    n = len(leaf_boxes)
    if n <= 400:
        for i in range(n):
            for j in range(i + 1, n):
                if not interiors_disjoint(leaf_boxes[i], leaf_boxes[j]):
                    out.append(("leaves-overlap", f"{leaf_boxes[i]} / {leaf_boxes[j]}"))
                    return out
    vs = math.fsum(box_volume(b) for b in leaf_boxes)
    vr = box_volume(root_box)
    if abs(vs - vr) > 1e-9 * abs(vr):
        out.append(("leaves-volume", f"sum of leaf volumes {vs!r} != root volume {vr!r}"))
    return out


# ------------------------------------------------------------------ C03
def reachable(root):
    seen, order, stack = set(), [], [root]
    while stack:
        nd = stack.pop()
        if id(nd) in seen:
            continue
        seen.add(id(nd)); order.append(nd)
        ch = nd.get_children()
        if ch is not None:
            stack.extend(ch)
    return order


def c03_tree(part):
    """The clauses of C03 on a real partition object. Returns list of (sig, detail)."""
    out = []
    nl = part.get_node_list()
    root = part.get_root()
    if len(nl) != part.get_depth() + 1:
        out.append(("depth", f"depth={part.get_depth()} but {len(nl)} layers"))
    for h, layer in enumerate(nl):
        if len(layer) == 0:
            out.append(("empty-layer", f"layer {h} empty"))
    reach = reachable(root)
    rid = {id(n) for n in reach}
    listed = [(h, n) for h, layer in enumerate(nl) for n in layer]
    lid = [id(n) for _h, n in listed]
    if len(set(lid)) != len(lid):
        out.append(("listed-twice", "a cell is listed more than once in the per-depth lists"))
    if set(lid) != rid:
        extra = len(set(lid) - rid); missing = len(rid - set(lid))
        out.append(("listed-vs-reachable", f"{extra} listed cells unreachable, {missing} reachable cells unlisted"))
    for h, n in listed:
        if n.get_depth() != h:
            out.append(("wrong-layer", f"cell (depth {n.get_depth()}, index {n.get_index()}) listed at depth {h}"))
            break
    for n in reach:
        ch = n.get_children()
        if ch is not None:
            for c in ch:
                if c.get_parent() is not n:
                    out.append(("foreign-child", f"child list of ({n.get_depth()},{n.get_index()}) holds a cell whose parent is another cell"))
                    break
                if c.get_depth() != n.get_depth() + 1:
                    out.append(("child-depth", "child depth != parent depth + 1"))
            K = len(ch)
            i = n.get_index()
            idx = [c.get_index() for c in ch]
            if idx != list(range(K * (i - 1) + 1, K * i + 1)):
                out.append(("child-index", f"children of index {i} carry {idx}"))
        p = n.get_parent()
        if n is not root:
            if p is None or p.get_children() is None or not any(c is n for c in p.get_children()):
                out.append(("not-parents-child", f"({n.get_depth()},{n.get_index()}) is not in its parent's child list"))
    labels = [(n.get_depth(), n.get_index()) for n in reach]
    if len(set(labels)) != len(labels):
        out.append(("label-dup", "two reachable cells share (depth, index)"))
    return out
