"""Executable statements of the properties over the *real* objects (used to search for a failing
input once a proof obligation or the correspondence breaks, and as a standing cross-check)."""
import math, collections, itertools
import numpy as np


# ------------------------------------------------------------------ C02
def box_contains_box(outer, inner):
    return all(o[0] <= i[0] and i[1] <= o[1] for o, i in zip(outer, inner))


def box_volume(b):
    v = 1.0
    for lo, hi in b:
        v *= (hi - lo)
    return v


def interiors_disjoint(a, b):
    # open boxes intersect iff in every dimension max(lo) < min(hi)
    return not all(max(x[0], y[0]) < min(x[1], y[1]) for x, y in zip(a, b))


def tiles_exactly(parent, kids):
    """Grid sweep: every grid cell of positive volume inside the parent is in exactly one child;
    children are inside the parent.  Exact (no tolerance): uses only comparisons of the stored
    floats."""
    d = len(parent)
    for k in kids:
        if len(k) != d:
            return "child dimension differs"
        if not box_contains_box(parent, k):
            return "child not contained in parent"
        if any(iv[0] > iv[1] for iv in k):
            return "child with lo > hi"
    coords = []
    for j in range(d):
        s = {parent[j][0], parent[j][1]}
        for k in kids:
            s.add(k[j][0]); s.add(k[j][1])
        coords.append(sorted(s))
    ranges = [list(zip(c[:-1], c[1:])) for c in coords]
    total = 1
    for r in ranges:
        total *= len(r)
    if total > 200000:
        return None
    for cell in itertools.product(*ranges):
        cnt = 0
        for k in kids:
            if all(k[j][0] <= cell[j][0] and cell[j][1] <= k[j][1] for j in range(d)):
                cnt += 1
        if cnt != 1:
            return f"grid cell {cell} covered by {cnt} children"
    return None


def c02_split(kind, K, parent_box, kid_boxes, kid_cpoints, call, n_children=None):
    """All clauses of C02 for one real make_children call. Returns list of (sig, detail)."""
    out = []
    if n_children is not None and n_children != len(kid_boxes):
        out.append(("arity", f"the split cell reports {n_children} children, {len(kid_boxes)} were created"))
    d = len(parent_box)
    arity = {"binary": 2, "randBinary": 2, "dimBinary": 2 ** d, "kary": K, "randKary": K}[kind]
    if len(kid_boxes) != arity:
        out.append(("arity", f"{len(kid_boxes)} children, documented arity {arity}"))
        return out
    t = tiles_exactly(parent_box, kid_boxes)
    if t:
        out.append(("tiling", t))
    # faces: in every dimension each child face is either the parent's own or shared bit-for-bit
    if kind != "dimBinary":
        dim = call["dim"]
        for j in range(d):
            if j == dim:
                continue
            for kb in kid_boxes:
                if kb[j][0] != parent_box[j][0] or kb[j][1] != parent_box[j][1]:
                    out.append(("outer-face", f"dimension {j} changed although split was along {dim}"))
        if kid_boxes[0][dim][0] != parent_box[dim][0] or kid_boxes[-1][dim][1] != parent_box[dim][1]:
            out.append(("outer-face", "first/last child does not keep the parent's face"))
        for a, b in zip(kid_boxes[:-1], kid_boxes[1:]):
            if a[dim][1] != b[dim][0]:
                out.append(("shared-boundary", f"{a[dim][1]!r} != {b[dim][0]!r}"))
    else:
        for i, kb in enumerate(kid_boxes):
            for j in range(d):
                lo, hi = parent_box[j]
                m = (lo + hi) / 2
                exp = [m, hi] if (i >> j) & 1 else [lo, m]
                if list(kb[j]) != exp:
                    out.append(("dimbinary-order", f"child {i} dim {j}: {kb[j]} expected {exp}"))
    if kind in ("binary", "kary", "dimBinary"):
        dims = range(d) if kind == "dimBinary" else [call["dim"]]
        per = 2 if kind != "kary" else K
        for j in dims:
            w = (parent_box[j][1] - parent_box[j][0]) / per
            for kb in kid_boxes:
                kw = kb[j][1] - kb[j][0]
                if abs(kw - w) > 1e-12 * max(abs(w), abs(parent_box[j][0]), abs(parent_box[j][1])) + 1e-300:
                    out.append(("equal-width", f"dim {j}: child width {kw!r} vs parent/arity {w!r}"))
    for kb, cp in zip(kid_boxes, kid_cpoints):
        for j in range(d):
            c = (kb[j][0] + kb[j][1]) / 2
            if cp[j] != c:
                out.append(("centre", f"c_point {cp[j]!r} != centre {c!r}"))
    return out


def c02_leaves_tile(root_box, leaf_boxes):
    out = []
    for lb in leaf_boxes:
        if not box_contains_box(root_box, lb):
            out.append(("leaf-outside-root", f"{lb}"))
            return out
    n = len(leaf_boxes)
    if n <= 400:
        for i in range(n):
            for j in range(i + 1, n):
                if not interiors_disjoint(leaf_boxes[i], leaf_boxes[j]):
                    out.append(("leaves-overlap", f"{leaf_boxes[i]} / {leaf_boxes[j]}"))
                    return out
    vs = math.fsum(box_volume(b) for b in leaf_boxes)
    vr = box_volume(root_box)
    if abs(vs - vr) > 1e-9 * abs(vr):
        out.append(("leaves-volume", f"sum of leaf volumes {vs!r} != root volume {vr!r}"))
    return out


# ------------------------------------------------------------------ C03
def reachable(root):
    seen, order, stack = set(), [], [root]
    while stack:
        nd = stack.pop()
        if id(nd) in seen:
            continue
        seen.add(id(nd)); order.append(nd)
        ch = nd.get_children()
        if ch is not None:
            stack.extend(ch)
    return order


def c03_tree(part, arity=None):
    """The clauses of C03 on a real partition object. Returns list of (sig, detail).
    `arity`: the documented number of children of the partition class (2, K or 2^d) when the caller knows it."""
    out = []
    nl = part.get_node_list()
    root = part.get_root()
    if len(nl) != part.get_depth() + 1:
        out.append(("depth", f"depth={part.get_depth()} but {len(nl)} layers"))
    for h, layer in enumerate(nl):
        if len(layer) == 0:
            out.append(("empty-layer", f"layer {h} empty"))
    reach = reachable(root)
    rid = {id(n) for n in reach}
    listed = [(h, n) for h, layer in enumerate(nl) for n in layer]
    lid = [id(n) for _h, n in listed]
    if len(set(lid)) != len(lid):
        out.append(("listed-twice", "a cell is listed more than once in the per-depth lists"))
    if set(lid) != rid:
        extra = len(set(lid) - rid); missing = len(rid - set(lid))
        out.append(("listed-vs-reachable", f"{extra} listed cells unreachable, {missing} reachable cells unlisted"))
    for h, n in listed:
        if n.get_depth() != h:
            out.append(("wrong-layer", f"cell (depth {n.get_depth()}, index {n.get_index()}) listed at depth {h}"))
            break
    for n in reach:
        ch = n.get_children()
        if ch is not None:
            for c in ch:
                if c.get_parent() is not n:
                    out.append(("foreign-child", f"child list of ({n.get_depth()},{n.get_index()}) holds a cell whose parent is another cell"))
                    break
                if c.get_depth() != n.get_depth() + 1:
                    out.append(("child-depth", "child depth != parent depth + 1"))
            K = arity or len(ch)
            i = n.get_index()
            idx = [c.get_index() for c in ch]
            if idx != list(range(K * (i - 1) + 1, K * i + 1)):
                out.append(("child-index", f"children of index {i} carry {idx[:12]}{'..' if len(idx) > 12 else ''} (arity {K})"))
        p = n.get_parent()
        if n is not root:
            if p is None or p.get_children() is None or not any(c is n for c in p.get_children()):
                out.append(("not-parents-child", f"({n.get_depth()},{n.get_index()}) is not in its parent's child list"))
    labels = [(n.get_depth(), n.get_index()) for n in reach]
    if len(set(labels)) != len(labels):
        out.append(("label-dup", "two reachable cells share (depth, index)"))
    return out


# ------------------------------------------------------------------ C01 (generic part)
def c01_point(case, box, pt, step, algo, what="pull"):
    d = len(box)
    try:
        ok_len = len(pt) == d
    except Exception:
        case.fail("C01", f"{what}-not-a-vector", f"{pt!r}", step=step, algo=algo); return
    if not ok_len:
        case.fail("C01", f"{what}-wrong-length", f"{len(pt)} coordinates for a {d}-D box", step=step, algo=algo); return
    for x, (lo, hi) in zip(pt, box):
        if not isinstance(x, (int, float, np.floating, np.integer)) or not math.isfinite(x):
            case.fail("C01", f"{what}-non-finite", f"{pt!r}", step=step, algo=algo); return
        if not (lo <= x <= hi):
            case.fail("C01", f"{what}-outside-box", f"{pt!r} not in {box}", step=step, algo=algo); return


def rel_close(a, b, tol=1e-9):
    if a == b:
        return True
    if math.isinf(a) or math.isinf(b) or math.isnan(a) or math.isnan(b):
        return False
    return abs(a - b) <= tol * max(abs(a), abs(b)) + 1e-300


def mean_close(stored, rs, tol=1e-9):
    """stored running / batch mean vs the exact mean of the history `rs`: tolerance relative to the magnitude of
    the rewards (a mean of 0 reached through cancellation carries an absolute rounding error)"""
    if not rs:
        return True
    exact = math.fsum(rs) / len(rs)
    if stored == exact:
        return True
    if math.isnan(stored) or math.isinf(stored):
        return False
    return abs(stored - exact) <= tol * max(max(abs(r) for r in rs), abs(exact), 1e-300)


def next_pow2(n):
    p = 1
    while p < n:
        p *= 2
    return p


# ------------------------------------------------------------------ tree bandits: C03/C04/C05/C06
def tree_bandit_hooks(name):
    """Monitors for T_HOO / HCT / VHCT written from the published description, not from the code:
    own ledger of (cell -> rewards), own ghost time stamps for the lazily refreshed U-values."""
    S = {}

    def params(ctx):
        return ctx["meta"]["params"]

    def after_init(ctx):
        S["ledger"] = {}
        S["dt"] = {}            # HCT/VHCT: delta-tilde each visited node's U was last computed with
        S["rounds"] = 0
        # the root is always split once at construction (whatever the truncation depth / thresholds)
        root = ctx["part"].get_root()
        kids = root.get_children()
        if not kids:
            ctx["case"].fail("C06", "root-not-split", "after construction the root has no children", step="init", algo=name)
        elif ctx["part"].get_depth() != 1 or any(k.get_children() is not None for k in kids):
            ctx["case"].fail("C06", "initial-tree", f"after construction the tree has depth {ctx['part'].get_depth()} (one split of the root expected)", step="init", algo=name)

    def c1(ctx):
        p = params(ctx)
        return (p["rho"] / (3 * p["nu"])) ** (1.0 / 8)

    def tau_ref(ctx, nd, it):
        p = params(ctx)
        dt = min(0.5, c1(ctx) * p["delta"] / next_pow2(it))
        h = nd.get_depth()
        base = p["c"] ** 2 * math.log(1 / dt) * p["rho"] ** (-2 * h) / p["nu"] ** 2
        if name == "HCT":
            return base
        var = max(float(np.var(np.array(S["ledger"].get(nd._vid, [])))) if S["ledger"].get(nd._vid) else 1e-3, 1e-3)
        b = p["bound"]; nr = p["nu"] * p["rho"] ** h
        return (var + 3 * b * nr + var * math.sqrt(1 + 6 * b * nr / var)) * base

    def width(ctx, nd, dt, cnt, var):
        p = params(ctx)
        if name == "T_HOO":
            return math.sqrt(2 * math.log(p["rounds"]) / cnt)
        if name == "HCT":
            return math.sqrt(p["c"] ** 2 * math.log(1 / dt) / cnt)
        return math.sqrt(p["c"] ** 2 * 2 * var * math.log(1 / dt) / cnt) + 3 * p["bound"] * p["c"] ** 2 * math.log(1 / dt) / cnt

    def u_ref(ctx, nd):
        rs = S["ledger"].get(nd._vid, [])
        if not rs:
            return math.inf
        p = params(ctx)
        mean = math.fsum(rs) / len(rs)
        var = max(float(np.var(np.array(rs))), 1e-3)
        return mean + p["nu"] * p["rho"] ** nd.get_depth() + width(ctx, nd, S["dt"].get(nd._vid), len(rs), var)

    def after_pull(ctx, t, pt):
        case, part, a = ctx["case"], ctx["part"], ctx["algo"]
        nd = node_of_point_m(part, pt)
        S["pulled"] = nd
        if nd is None:
            case.fail("C05", "point-not-a-representative", "returned point is not the c_point of any cell", step=t, algo=name); return
        # C05: greedy path from the root by B-values with the stopping rule
        it = 1 + S["rounds"]
        cur = part.get_root()
        steps = 0
        while True:
            ch = cur.get_children()
            if name == "T_HOO":
                stop = ch is None
            else:
                if cur is part.get_root():
                    stop = ch is None
                else:
                    tau = tau_ref(ctx, cur, it)
                    cnt = len(S["ledger"].get(cur._vid, []))
                    if abs(tau - round(tau)) < 1e-9 and abs(cnt - math.ceil(round(tau))) <= 1:
                        S["neartie"] = S.get("neartie", 0) + 1
                        return      # threshold within rounding of an integer: skip this round
                    stop = ch is None or cnt < math.ceil(tau)
            if stop:
                break
            bs = [c.get_b_value() for c in ch]
            mx = max(bs)
            # the pulled cell must continue through a maximal child
            nxt = None
            for c in ch:
                if is_ancestor_or_self(c, nd):
                    nxt = c
            if nxt is None:
                case.fail("C05", "path-stops-early", f"pulled cell is ({nd.get_depth()},{nd.get_index()}) but the rule continues below ({cur.get_depth()},{cur.get_index()})", step=t, algo=name)
                return
            if nxt.get_b_value() != mx:
                case.fail("C05", "non-maximal-child", f"descent went to a child with B={nxt.get_b_value()!r} while a sibling has B={mx!r}", step=t, algo=name)
                return
            cur = nxt
            steps += 1
            if steps > 10000:
                break
        if cur is not nd:
            case.fail("C05", "path-goes-deeper", f"rule stops at ({cur.get_depth()},{cur.get_index()}) but ({nd.get_depth()},{nd.get_index()}) was pulled", step=t, algo=name)
        S["was_leaf"] = nd.get_children() is None
        S["calls_mark"] = len(part._calls)
        S["pull_it"] = it
        S["tau_at_pull"] = None if name == "T_HOO" else tau_ref(ctx, nd, it)

    def after_recv(ctx, t, pt, r):
        case, part, a = ctx["case"], ctx["part"], ctx["algo"]
        nd = S.get("pulled")
        if nd is None:
            return
        p = params(ctx)
        it = 1 + S["rounds"]            # HCT's round counter at this receive (before increment)
        # ---- ledger (C04)
        credited = []
        if name == "T_HOO":
            x = nd
            while x is not None:
                credited.append(x); x = x.get_parent()
        else:
            credited = [nd]
        for x in credited:
            S["ledger"].setdefault(x._vid, []).append(r)
        S["rounds"] += 1
        # ghost time stamps for lazily refreshed U (C05)
        if name != "T_HOO":
            dt_now = min(1.0, c1(ctx) * p["delta"] / next_pow2(it))
            if it == next_pow2(it):
                for x in reachable(part.get_root()):
                    if S["ledger"].get(x._vid):
                        S["dt"][x._vid] = dt_now
            S["dt"][nd._vid] = dt_now
        reach = reachable(part.get_root())
        total = 0
        for x in reach:
            exp = S["ledger"].get(x._vid, [])
            if list(x.rewards) != exp:
                case.fail("C04", "reward-list", f"cell ({x.get_depth()},{x.get_index()}) holds {len(x.rewards)} rewards, history credits {len(exp)}", step=t, algo=name)
                break
            if x.visited_times != len(exp):
                case.fail("C04", "visit-count", f"cell ({x.get_depth()},{x.get_index()}) count {x.visited_times} != {len(exp)}", step=t, algo=name); break
            if exp and not mean_close(float(x.mean_reward), exp):
                case.fail("C04", "mean", f"stored mean {x.mean_reward!r} vs {math.fsum(exp)/len(exp)!r}", step=t, algo=name); break
            if name == "VHCT":
                v = max(float(np.var(np.array(exp))), 1e-3) if exp else 1e-3
                if not rel_close(float(x.variance), v, 1e-7):
                    case.fail("C04", "variance", f"stored variance {x.variance!r} vs {v!r}", step=t, algo=name); break
            total += len(exp)
        lost = sum(len(v) for k, v in S["ledger"].items()) - total
        if name == "T_HOO":
            if part.get_root().visited_times != S["rounds"]:
                case.fail("C04", "count-sum", f"root count {part.get_root().visited_times} after {S['rounds']} rounds", step=t, algo=name)
        elif total != S["rounds"]:
            case.fail("C04", "count-sum", f"counts of the reachable tree sum to {total} after {S['rounds']} rounds (evidence lost/duplicated)", step=t, algo=name)
        # ---- growth (C06)
        calls = part._calls[S["calls_mark"]:]
        if len(calls) > 1:
            case.fail("C06", "multiple-expansions", f"{len(calls)} make_children calls in one round", step=t, algo=name)
        for c in calls:
            if c["parent"] != nd._vid:
                case.fail("C06", "expanded-other-cell", f"expanded cell {c['parent']} but pulled {nd._vid}", step=t, algo=name)
            if not S["was_leaf"]:
                case.fail("C06", "expanded-internal-cell", f"cell ({nd.get_depth()},{nd.get_index()}) already had children when it was split again", step=t, algo=name)
            for i in c["created"]:
                k = part._all[i]
                if k.visited_times != 0 or not (math.isinf(k.u_value) and k.u_value > 0 and math.isinf(k.b_value) and k.b_value > 0):
                    case.fail("C06", "new-cell-state", "new cell does not start with zero pulls and infinite index", step=t, algo=name)
        expanded = len(calls) > 0
        if name == "T_HOO":
            Dv = (math.log(p["rounds"]) / 2 - math.log(1 / p["nu"])) / math.log(1 / p["rho"])
            if abs(Dv - round(Dv)) > 1e-9:
                D = math.ceil(Dv)
                should = nd.get_depth() <= D
                if should != expanded:
                    case.fail("C06", "expansion-rule", f"depth {nd.get_depth()}, bound {D}: expanded={expanded}", step=t, algo=name)
                if part.get_depth() > max(1, D + 1):
                    case.fail("C06", "too-deep", f"tree depth {part.get_depth()} > {max(1, D+1)}", step=t, algo=name)
        else:
            tau = S["tau_at_pull"]
            cnt = len(S["ledger"].get(nd._vid, []))
            if tau is not None and abs(tau - round(tau)) > 1e-6:
                if tau is not None:
                    should = S["was_leaf"] and cnt >= math.ceil(tau)
                    if should != expanded:
                        case.fail("C06", "expansion-rule", f"leaf={S['was_leaf']} count={cnt} tau={math.ceil(tau)}: expanded={expanded}", step=t, algo=name)
        # ---- B recursion / U formula (C05)
        root = part.get_root()
        for x in reach:
            if x is root:
                continue
            cnt = len(S["ledger"].get(x._vid, []))
            if cnt == 0:
                if not (math.isinf(x.u_value) and x.u_value > 0):
                    case.fail("C05", "unvisited-u", f"unvisited cell has U={x.u_value!r}", step=t, algo=name); break
            else:
                if name == "T_HOO":
                    S["dt"][x._vid] = None
                ur = u_ref(ctx, x)
                if not rel_close(float(x.u_value), ur, 1e-7 if name == "VHCT" else 1e-9):
                    case.fail("C05", "u-formula", f"cell ({x.get_depth()},{x.get_index()}) U={x.u_value!r}, published formula gives {ur!r}", step=t, algo=name); break
            ch = x.get_children()
            expB = x.u_value if ch is None else min(x.u_value, max(c.get_b_value() for c in ch))
            if x.get_b_value() != expB:
                case.fail("C05", "b-recursion", f"cell ({x.get_depth()},{x.get_index()}) B={x.get_b_value()!r} expected {expB!r}", step=t, algo=name); break

    return {"after_init": after_init, "after_pull": after_pull, "after_recv": after_recv}


def node_of_point_m(part, pt):
    for nd in part._all:
        if nd.get_cpoint() is pt:
            return nd
    return None


def is_ancestor_or_self(anc, nd):
    x = nd
    while x is not None:
        if x is anc:
            return True
        x = x.get_parent()
    return False


# ------------------------------------------------------------------ sweep family: C04/C07/C08
def leaves_by_layer(part):
    """reachable leaves grouped by their own depth, in node_list order within a depth"""
    reach = {id(n) for n in reachable(part.get_root())}
    out = {}
    for layer in part.get_node_list():
        for n in layer:
            if id(n) in reach and n.get_children() is None:
                out.setdefault(n.get_depth(), []).append(n)
    return out


def sweep_hooks(name):
    """Monitors for SOO / DOO / StoSOO from the published pseudo-code."""
    S = {}

    def params(ctx):
        return ctx["meta"]["params"]

    def after_init(ctx):
        S["ledger"] = {}
        S["rounds"] = 0
        S["in_pull"] = False
        S["exp"] = []

    def sto_b(ctx, nd):
        a = ctx["algo"]
        rs = S["ledger"].get(nd._vid, [])
        if not rs:
            return math.inf
        return math.fsum(rs) / len(rs) + math.sqrt(math.log(a.n * a.k / a.delta) / (2 * len(rs)))

    def doo_delta(ctx, part, h):
        p = params(ctx)
        if "delta_c" in p:
            import algo_cases
            return algo_cases.DOOAd.tab(p)[h]      # the user-supplied bound of this case
        best = -math.inf
        for n in reachable(part.get_root()):
            if n.get_depth() == h:
                lo, hi = n.get_domain()[0]
                c = (lo + hi) / 2
                best = max(best, (lo - c) ** 2, (hi - c) ** 2)
        return best

    def pre_expand(ctx, part, parent, newlayer):
        case, a = ctx["case"], ctx.get("algo")
        if a is None:
            return
        t = S["rounds"]
        led = S["ledger"]
        if parent.get_children() is not None:
            case.fail("C08", "expanded-internal-cell", f"({parent.get_depth()},{parent.get_index()}) already has children", step=t, algo=name); return
        lv = leaves_by_layer(part)
        h = parent.get_depth()
        k = getattr(a, "k", 1)
        need = k if name == "StoSOO" else 1
        if len(led.get(parent._vid, [])) < need:
            case.fail("C08", "expanded-unevaluated-leaf", f"leaf ({h},{parent.get_index()}) expanded after {len(led.get(parent._vid, []))} evaluations (needs {need})", step=t, algo=name)
        # no unevaluated leaf may precede it in the sweep
        if name in ("SOO", "DOO"):
            maxd = max(lv) if name == "DOO" else h
            for d in sorted(lv):
                if d > maxd:
                    break
                for n in lv[d]:
                    if d == h and n is parent and name == "SOO":
                        break
                    if not led.get(n._vid):
                        case.fail("C08", "unevaluated-leaf-precedes-expansion", f"leaf ({d},{n.get_index()}) is unevaluated when ({h},{parent.get_index()}) is expanded", step=t, algo=name)
                        break
        # best of its depth / of all leaves
        if name == "SOO":
            rew = lambda n: led[n._vid][0] if led.get(n._vid) else -math.inf
            best = max(rew(n) for n in lv.get(h, [parent]))
            if rew(parent) != best:
                case.fail("C08", "not-best-of-depth", f"expanded reward {rew(parent)!r}, best leaf of depth {h} has {best!r}", step=t, algo=name)
            for (ph, pv) in S["exp"]:
                if ph < h and not any(eh >= h for eh, _ in S["exp"][S["exp"].index((ph, pv)) + 1:]) and pv > rew(parent):
                    pass
            # monotone within a sweep: expansions of the current sweep = suffix with increasing depth
            cur = []
            for (eh, ev) in S["exp"]:
                if cur and eh <= cur[-1][0]:
                    cur = []
                cur.append((eh, ev))
            if cur and cur[-1][0] < h and any(ev > rew(parent) for _eh, ev in cur):
                case.fail("C08", "sweep-not-monotone", f"expanded reward {rew(parent)!r} at depth {h} below a shallower expansion of the same sweep", step=t, algo=name)
            S["exp"].append((h, rew(parent)))
        elif name == "StoSOO":
            bp = sto_b(ctx, parent)
            best = max(sto_b(ctx, n) for n in lv.get(h, [parent]))
            if not rel_close(bp, best):
                case.fail("C08", "not-best-of-depth", f"expanded b={bp!r}, best leaf of depth {h} has b={best!r}", step=t, algo=name)
            if any(ev > bp and not rel_close(ev, bp) for _eh, ev in S["exp"]):
                case.fail("C08", "sweep-not-monotone", f"expanded b={bp!r} below a shallower expansion of the same sweep", step=t, algo=name)
            S["exp"].append((h, bp))
        else:  # DOO
            def bval(n):
                return led[n._vid][0] + doo_delta(ctx, part, n.get_depth()) if led.get(n._vid) else -math.inf
            allv = [n for d in lv for n in lv[d]]
            best = max(bval(n) for n in allv)
            if not rel_close(bval(parent), best):
                case.fail("C08", "not-best-leaf", f"expanded reward+delta={bval(parent)!r}, best over all leaves {best!r}", step=t, algo=name)
            S["exp"].append((h, bval(parent)))
            if len(S["exp"]) > 1:
                case.fail("C08", "multiple-expansions", "more than one expansion in one pull", step=t, algo=name)

    def before_pull(ctx, t):
        S["exp"] = []

    def after_pull(ctx, t, pt):
        case, part, a = ctx["case"], ctx["part"], ctx["algo"]
        nd = node_of_point_m(part, pt)
        S["pulled"] = nd
        if nd is None:
            case.fail("C08", "point-not-a-representative", "returned point is not the c_point of any cell", step=t, algo=name); return
        led = S["ledger"]
        hmax = ctx["meta"]["params"].get("h_max", getattr(a, "h_max", None))      # the cap the caller asked for
        if nd.get_children() is not None:
            case.fail("C08", "handed-out-internal-cell", f"({nd.get_depth()},{nd.get_index()}) is not a leaf", step=t, algo=name)
        if name in ("SOO", "StoSOO") and nd.get_depth() > hmax:
            case.fail("C08", "beyond-depth-cap", f"evaluated depth {nd.get_depth()} > cap {hmax}", step=t, algo=name)
        lv = leaves_by_layer(part)
        if name in ("SOO", "DOO"):
            if led.get(nd._vid):
                case.fail("C08", "evaluated-twice", f"({nd.get_depth()},{nd.get_index()}) handed out again", step=t, algo=name)
            first = None
            for d in sorted(lv):
                for n in lv[d]:
                    if not led.get(n._vid):
                        first = n; break
                if first is not None:
                    break
            if first is not nd:
                case.fail("C08", "not-first-unevaluated", f"handed out ({nd.get_depth()},{nd.get_index()}) but the first unevaluated leaf top-down is "
                          f"({first.get_depth()},{first.get_index()})" if first is not None else "no unevaluated leaf", step=t, algo=name)
        else:
            k = a.k
            if len(led.get(nd._vid, [])) >= k:
                case.fail("C08", "evaluated-more-than-k", f"cell already has {len(led.get(nd._vid, []))} evaluations, k={k}", step=t, algo=name)
            bp = sto_b(ctx, nd)
            best = max(sto_b(ctx, n) for n in lv.get(nd.get_depth(), [nd]))
            if not rel_close(bp, best):
                case.fail("C08", "handed-out-not-max-b", f"b={bp!r} but depth best is {best!r}", step=t, algo=name)

    def after_recv(ctx, t, pt, r):
        case, part, a = ctx["case"], ctx["part"], ctx["algo"]
        nd = S.get("pulled")
        if nd is None:
            return
        S["ledger"].setdefault(nd._vid, []).append(r)
        S["rounds"] += 1
        led = S["ledger"]
        total = 0
        for x in reachable(part.get_root()):
            exp = led.get(x._vid, [])
            total += len(exp)
            if name in ("SOO", "DOO"):
                if exp and (x.reward != exp[-1] or not x.visited):
                    case.fail("C04", "reward", f"cell ({x.get_depth()},{x.get_index()}) stores {x.reward!r}, history credits {exp}", step=t, algo=name); break
                if not exp and x.visited and x is not nd:
                    case.fail("C04", "visited-without-reward", f"cell ({x.get_depth()},{x.get_index()}) marked evaluated without a reward", step=t, algo=name); break
            else:
                if list(x.rewards) != exp or x.visited_times != len(exp):
                    case.fail("C04", "reward-list", f"cell ({x.get_depth()},{x.get_index()}) holds {len(x.rewards)} rewards/count {x.visited_times}, history credits {len(exp)}", step=t, algo=name); break
                if exp and not mean_close(float(x.mean_reward), exp):
                    case.fail("C04", "mean", f"stored mean {x.mean_reward!r}", step=t, algo=name); break
        if total != S["rounds"]:
            case.fail("C04", "count-sum", f"evidence in the reachable tree sums to {total} after {S['rounds']} rounds", step=t, algo=name)

    def at_end(ctx):
        case, part, a = ctx["case"], ctx["part"], ctx["algo"]
        q = ctx.get("last")
        if q is None:
            return
        nd = node_of_point_m(part, q)
        led = S["ledger"]
        if nd is None:
            case.fail("C07", "recommendation-not-a-representative", f"{q!r}", step="end", algo=name); return
        if name in ("SOO", "DOO"):
            if not led.get(nd._vid):
                case.fail("C07", "recommended-unevaluated-cell", f"cell ({nd.get_depth()},{nd.get_index()}) was never evaluated (its stored reward is {nd.reward!r})", step="end", algo=name, rmode=ctx["meta"]["rmode"])
                return
            best = max(v[0] for v in led.values())
            if led[nd._vid][0] != best:
                case.fail("C07", "recommendation-not-best", f"recommended reward {led[nd._vid][0]!r}, best evaluated {best!r}", step="end", algo=name)
        else:
            deepest = max(n.get_depth() for n in reachable(part.get_root()))
            if nd.get_depth() != deepest:
                case.fail("C07", "recommendation-not-deepest", f"depth {nd.get_depth()} != {deepest}", step="end", algo=name); return
            mean = lambda n: (math.fsum(led[n._vid]) / len(led[n._vid])) if led.get(n._vid) else 0.0
            best = max(mean(n) for n in reachable(part.get_root()) if n.get_depth() == deepest)
            if not rel_close(mean(nd), best):
                case.fail("C07", "recommendation-not-best", f"mean {mean(nd)!r} vs best {best!r}", step="end", algo=name)

    return {"after_init": after_init, "before_pull": before_pull, "pre_expand": pre_expand, "after_pull": after_pull,
            "after_recv": after_recv, "at_end": at_end}


# ------------------------------------------------------------------ SequOOL: C12 / C07 / C04
def sequool_hooks():
    from fractions import Fraction
    S = {}
    name = "SequOOL"

    def after_init(ctx):
        a = ctx["algo"]
        n = ctx["meta"]["params"]["n"]
        H = sum(Fraction(1, i) for i in range(1, n + 1))
        q = Fraction(n) / H
        S.update(ledger={}, rounds=0, opened={}, opening=None, exhausted=False, search_cells=[], rec_at_exhaustion=None)
        if abs(float(q) - round(float(q))) > 1e-9:
            if a.h_max != math.floor(q):
                ctx["case"].fail("C12", "h_max", f"h_max={a.h_max}, floor(n/H_n)={math.floor(q)}", step="init", algo=name)
        S["hmax"] = a.h_max

    def pre_expand(ctx, part, parent, newlayer):
        case = ctx["case"]
        if ctx.get("algo") is None:
            return
        t = S["rounds"]
        h = parent.get_depth()
        led = S["ledger"]
        if S["opening"] is not None and S["opening"]["next"] < len(S["opening"]["kids"] or []):
            case.fail("C12", "opening-interrupted", "a new cell is opened before all children of the previous one were evaluated", step=t, algo=name)
        if parent._vid in S["opened"]:
            case.fail("C12", "opened-twice", f"({h},{parent.get_index()})", step=t, algo=name)
        if parent.get_children() is not None:
            case.fail("C12", "opened-internal-cell", f"({h},{parent.get_index()})", step=t, algo=name)
        if h > S["hmax"]:
            case.fail("C12", "opened-beyond-hmax", f"depth {h} > h_max {S['hmax']}", step=t, algo=name)
        if h >= 1:
            cnt = sum(1 for v, d in S["opened"].items() if d == h)
            if cnt + 1 > S["hmax"] // h:
                case.fail("C12", "budget-exceeded", f"{cnt+1} cells of depth {h} opened, floor(h_max/h)={S['hmax']//h}", step=t, algo=name)
            deeper = [d for d in S["opened"].values() if d > h]
            if deeper:
                case.fail("C12", "depth-order", f"opened depth {h} after depth {max(deeper)}", step=t, algo=name)
            # best unopened cell of this depth by observed reward
            cand = [n for n in reachable(part.get_root()) if n.get_depth() == h and n._vid not in S["opened"]]
            rew = lambda n: led[n._vid][0] if led.get(n._vid) else -math.inf
            if not led.get(parent._vid):
                case.fail("C12", "opened-unevaluated-cell", f"({h},{parent.get_index()})", step=t, algo=name)
            elif rew(parent) != max(rew(n) for n in cand):
                case.fail("C12", "opened-not-best", f"opened reward {rew(parent)!r}, best unopened of depth {h}: {max(rew(n) for n in cand)!r}", step=t, algo=name)
        else:
            if S["opened"]:
                case.fail("C12", "root-not-first", "root opened after other cells", step=t, algo=name)
        S["opened"][parent._vid] = h
        S["opening"] = {"cell": parent, "kids": None, "next": 0}

    def after_pull(ctx, t, pt):
        case, part, a = ctx["case"], ctx["part"], ctx["algo"]
        nd = node_of_point_m(part, pt)
        S["pulled"] = nd
        if nd is None:
            case.fail("C12", "point-not-a-representative", f"{pt!r}", step=t, algo=name); return
        root = part.get_root()
        if nd is root:
            if not S["exhausted"]:
                S["exhausted"] = True
                # the centre is handed out only once the whole schedule has been carried out: every depth 1..h_max has
                # had min(floor(h_max/h), cells of that depth) cells opened and no opening is in progress
                op = S["opening"]
                if op is not None and op["next"] < len(op["kids"] if op["kids"] is not None else (op["cell"].get_children() or [])):
                    case.fail("C12", "centre-before-exhaustion", "the centre is handed out while an opened cell still has unevaluated children", step=t, algo=name)
                else:
                    cells = collections.Counter(x.get_depth() for x in reachable(root))
                    for h in range(1, S["hmax"] + 1):
                        done = sum(1 for d in S["opened"].values() if d == h)
                        want = min(S["hmax"] // h, cells.get(h, 0))
                        if done != want:
                            case.fail("C12", "centre-before-exhaustion", f"the centre is handed out although depth {h} has {done} opened cells, "
                                      f"schedule: min(floor({S['hmax']}/{h}), {cells.get(h, 0)} cells) = {want}", step=t, algo=name)
                            break
                try:        # the recommendation at the moment the schedule is exhausted (before any further reward)
                    S["rec_at_exhaustion"] = list(a.get_last_point())
                except Exception:
                    S["rec_at_exhaustion"] = None
            return
        if S["exhausted"]:
            case.fail("C12", "search-after-exhaustion", "a search cell is handed out after the schedule was exhausted", step=t, algo=name)
        op = S["opening"]
        if op is None:
            case.fail("C12", "cell-without-opening", "handed out a cell although nothing was opened", step=t, algo=name); return
        if op["kids"] is None:
            op["kids"] = list(op["cell"].get_children() or [])
        if op["next"] >= len(op["kids"]) or op["kids"][op["next"]] is not nd:
            exp = op["kids"][op["next"]] if op["next"] < len(op["kids"]) else None
            case.fail("C12", "children-order", f"handed out ({nd.get_depth()},{nd.get_index()}), expected child #{op['next']} "
                      f"{'(' + str(exp.get_depth()) + ',' + str(exp.get_index()) + ')' if exp is not None else 'none left'} of the opened cell", step=t, algo=name)
        op["next"] += 1
        if S["ledger"].get(nd._vid) or nd._vid in S["search_cells"]:
            case.fail("C12", "evaluated-twice", f"({nd.get_depth()},{nd.get_index()})", step=t, algo=name)
        S["search_cells"].append(nd._vid)

    def after_recv(ctx, t, pt, r):
        case, part, a = ctx["case"], ctx["part"], ctx["algo"]
        nd = S.get("pulled")
        if nd is None:
            return
        S["ledger"].setdefault(nd._vid, []).append(r)
        S["rounds"] += 1
        total = 0
        for x in reachable(part.get_root()):
            exp = S["ledger"].get(x._vid, [])
            total += len(exp)
            if list(x.rewards) != exp:
                case.fail("C04", "reward-list", f"cell ({x.get_depth()},{x.get_index()}) holds {list(x.rewards)[:3]}.., history credits {exp[:3]}..", step=t, algo=name); break
        if total != S["rounds"]:
            case.fail("C04", "count-sum", f"evidence sums to {total} after {S['rounds']} rounds", step=t, algo=name)
        if S["exhausted"]:
            try:
                q = a.get_last_point()
            except Exception as e:
                q = None
            if S["rec_at_exhaustion"] is None:
                S["rec_at_exhaustion"] = q
            elif q is None or list(q) != list(S["rec_at_exhaustion"]):
                case.fail("C12", "recommendation-changed-after-exhaustion", f"{S['rec_at_exhaustion']} -> {q}", step=t, algo=name)

    def at_end(ctx):
        case, part = ctx["case"], ctx["part"]
        q = ctx.get("last")
        if q is None:
            return
        nd = node_of_point_m(part, q)
        led = S["ledger"]
        if nd is None or nd._vid not in S["search_cells"] or not led.get(nd._vid):
            case.fail("C07", "recommended-unevaluated-cell", f"{q!r} is not an evaluated search cell", step="end", algo=name); return
        best = max(led[v][0] for v in S["search_cells"] if led.get(v))
        if led[nd._vid][0] != best:
            case.fail("C07", "recommendation-not-best", f"recommended reward {led[nd._vid][0]!r}, best evaluated {best!r}", step="end", algo=name)

    return {"after_init": after_init, "pre_expand": pre_expand, "after_pull": after_pull, "after_recv": after_recv, "at_end": at_end}


# ------------------------------------------------------------------ POO: C10 / C04 / C07 ; GPO: C09 / C04 / C07
def poo_hooks():
    S = {}
    name = "POO"

    def after_init(ctx):
        S.update(ev=0, learners=[], rounds=0)

    def after_pull_poo(ctx, t, pt):
        # the learner that served this round = the last learner pulled up to the moment pull() returned
        evs = ctx["algo"]._log["events"]
        pulls = [e for e in evs[S["ev"]:] if e[0] == "pull"]
        S["served"] = pulls[-1][1] if pulls else None

    def check_grid(ctx, t):
        a, case = ctx["algo"], ctx["case"]
        p = ctx["meta"]["params"]
        rhos = []
        for e in a._log["created"]:
            kw = e["kw"]
            if kw.get("nu") != p["numax"]:
                case.fail("C10", "learner-nu", f"nu={kw.get('nu')!r} != numax", step=t, algo=name)
            rho = kw.get("rho")
            rhos.append(rho)
            if not (0 < rho < p["rhomax"]):
                case.fail("C10", "learner-rho-range", f"rho={rho!r} not in (0, rhomax)", step=t, algo=name)
            ex = math.log(rho) / math.log(p["rhomax"])
            ok = False
            N = 2
            while N <= 2 ** 20 and not ok:
                for i in range(N):
                    if abs(ex - 2 * N / (2 * i + 1)) <= 1e-9 * ex:
                        ok = True; break
                N *= 2
            if not ok:
                case.fail("C10", "learner-rho-grid", f"rho={rho!r} is not rhomax^(2N/(2i+1))", step=t, algo=name)
        if len(set(rhos)) != len(rhos):
            case.fail("C10", "learner-rho-duplicate", f"{rhos}", step=t, algo=name)

    def after_recv(ctx, t, pt, r):
        a, case = ctx["algo"], ctx["case"]
        log = a._log
        evs = log["events"][S["ev"]:]
        S["ev"] = len(log["events"])
        S["rounds"] += 1
        pulls = [e for e in evs if e[0] == "pull"]
        recvs = [e for e in evs if e[0] == "recv"]
        # recommendation queries also pull a learner (before the round, or between pull and receive_reward);
        # the learner serving the round is the one recorded when pull() returned
        served = S.get("served")
        if served is None or len(recvs) != 1:
            case.fail("C10", "routing", f"round served by {len(pulls)} pull(s), reward delivered {len(recvs)} time(s)", step=t, algo=name); return
        if recvs[0][1] != served or recvs[0][2] != r:
            case.fail("C10", "routing", f"point proposed by learner {served}, reward delivered to learner {recvs[0][1]}", step=t, algo=name)
            # the cell that was evaluated lives in the proposing learner's tree: the reward was credited to cells of another tree
            case.fail("C04", "reward-to-other-learner", f"the evaluated point came from learner {served}'s tree, the reward was credited in learner {recvs[0][1]}'s tree", step=t, algo=name)
        objs = [e["ref"]() for e in log["created"]]            # POO keeps every learner: all alive
        if list(a.V_algo) != objs or objs[:len(S["learners"])] != S["learners"]:
            case.fail("C10", "learners-not-append-only", "the learner list was reordered or a learner was dropped", step=t, algo=name)
        S["learners"] = objs
        for i, l in enumerate(objs):
            if a.Times[i] != len(l._rewards):
                case.fail("C10", "count", f"learner {i}: Times={a.Times[i]} but it received {len(l._rewards)} rewards", step=t, algo=name); break
            if l._rewards and not mean_close(float(a.V_reward[i]), l._rewards):
                case.fail("C10", "score", f"learner {i}: score {a.V_reward[i]!r} != mean of its rewards {math.fsum(l._rewards)/len(l._rewards)!r}", step=t, algo=name); break
            # C04: the learner's own tree holds exactly its rewards
            tot = sum(n.visited_times for n in reachable(l.partition.get_root())) if type(l).__name__ != "T_HOO" else l.partition.get_root().visited_times
            if tot != len(l._rewards):
                case.fail("C04", "count-sum", f"learner {i}: tree holds {tot} rewards, it was given {len(l._rewards)}", step=t, algo=name); break
        if sum(len(l._rewards) for l in objs) != S["rounds"]:
            case.fail("C04", "count-sum", "rewards delivered to learners do not sum to the number of rounds", step=t, algo=name)
        check_grid(ctx, t)
        # a learner is *run* with the parameters it was created with: for a T-HOO learner the U-values along the path
        # it has just updated are the published ones for its own (nu_max, rho_i, rounds)
        if 0 <= served < len(objs) and type(objs[served]).__name__ == "T_HOO":
            l = objs[served]
            kw = log["created"][served]["kw"]
            try:
                for nd in (getattr(l, "path", None) or [])[1:]:
                    T_ = nd.visited_times
                    if T_ > 0 and kw.get("rho") is not None:
                        want = float(nd.mean_reward) + math.sqrt(2 * math.log(kw.get("rounds", l.rounds)) / T_) + float(kw["nu"]) * float(kw["rho"]) ** nd.get_depth()
                        if not rel_close(float(nd.u_value), want, 1e-9):
                            case.fail("C10", "learner-runs-with-other-parameters", f"learner {served} (nu={kw['nu']!r}, rho={kw['rho']!r}): cell ({nd.get_depth()},{nd.get_index()}) "
                                      f"has U={float(nd.u_value)!r}, with the learner's own parameters it is {want!r}", step=t, algo=name)
                            break
            except Exception:
                pass


    def at_end(ctx):
        a, case = ctx["algo"], ctx["case"]
        q = ctx.get("last")
        if q is None or not a.V_reward:
            return
        owner = None
        for i, l in enumerate(a.V_algo):
            if any(nd.get_cpoint() is q for nd in l.partition._all):
                owner = i
        best = max(float(v) for v in a.V_reward)
        if owner is None or float(a.V_reward[owner]) != best:
            for prop in ("C07", "C10"):
                case.fail(prop, "recommendation-not-best-learner", f"point comes from learner {owner}, scores {list(map(float, a.V_reward))}", step="end", algo=name)

    return {"after_init": after_init, "after_pull": after_pull_poo, "after_recv": after_recv, "at_end": at_end}


def gpo_hooks(name="GPO"):
    S = {}

    def g_of(a):
        return getattr(a, "algorithm", a)

    def after_init(ctx):
        p = ctx["meta"]["params"]
        n = p["rounds"]
        Dmax = math.log(2) / math.log(1 / p["rhomax"])
        pre = 0.5 * Dmax * math.log((n / 2) / math.log(n / 2))
        S.update(ev=0, rounds=0, skip=abs(pre - round(pre)) < 1e-9, vals=[], last_prop={}, val_pts={})
        S["N"] = math.ceil(pre)
        S["half"] = math.floor(n / (2 * S["N"])) if S["N"] > 0 else 0
        g = g_of(ctx["algo"])
        if not S["skip"] and (g.N != S["N"] or g.half_phase_length != S["half"]):
            ctx["case"].fail("C09", "schedule-constants", f"N={g.N}, half={g.half_phase_length}; published formula gives {S['N']}, {S['half']}", step="init", algo=name)

    def after_pull(ctx, t, pt):
        S["pt"] = pt

    def after_recv(ctx, t, pt, r):
        a, case = ctx["algo"], ctx["case"]
        if S["skip"] or S["half"] < 1:
            return
        p = ctx["meta"]["params"]
        log = a._log
        evs = log["events"][S["ev"]:]
        S["ev"] = len(log["events"])
        k = S["rounds"]                 # 0-based index of this round
        S["rounds"] += 1
        N, half = S["N"], S["half"]
        ph, c = divmod(k, 2 * half)
        created = len(log["created"])
        if ph < N:
            if created != ph + 1:
                case.fail("C09", "learner-count", f"round {k+1}: {created} learners created, schedule says {ph+1} (N={N}, half={half})", step=t, algo=name)
                return
            l = log["created"][ph]["ref"]()
            kw = log["created"][ph]["kw"]
            exp_rho = p["rhomax"] ** (2 * N / (2 * (ph + 1) + 1))
            if kw.get("nu") != p["numax"] or not rel_close(kw.get("rho"), exp_rho):
                case.fail("C09", "learner-params", f"learner {ph+1}: nu={kw.get('nu')}, rho={kw.get('rho')!r}; schedule says ({p['numax']}, {exp_rho!r})", step=t, algo=name)
            if c < half:
                if [e[:2] for e in evs] != [("pull", ph), ("recv", ph)] or evs[1][2] != r:
                    case.fail("C09", "explore-routing", f"round {k+1} (phase {ph+1}, exploration): learner events {[(e[0], e[1]) for e in evs]}", step=t, algo=name)
                S["last_prop"][ph] = [float(x) for x in pt]        # by value: what was proposed, whatever becomes of the list object
            else:
                if evs:
                    case.fail("C09", "validation-routing", f"round {k+1} (phase {ph+1}, validation): reward reached a base learner {[(e[0], e[1]) for e in evs]}", step=t, algo=name)
                lp = S["last_prop"].get(ph)
                if lp is not None and list(pt) != list(lp):
                    case.fail("C09", "validation-point", f"validated point {pt} is not the learner's last proposal {lp}", step=t, algo=name)
                S["vals"].append((ph, r))
                if c == 2 * half - 1:
                    rs = [x for q_, x in S["vals"] if q_ == ph]
                    g = g_of(a)
                    if len(g.V_reward) <= ph or not mean_close(float(g.V_reward[ph]), rs) or len(rs) != half:
                        case.fail("C09", "validation-score", f"phase {ph+1}: score {g.V_reward[ph] if len(g.V_reward) > ph else None!r}, mean of its {len(rs)} validation rewards {math.fsum(rs)/len(rs)!r}", step=t, algo=name)
                    S["val_pts"][ph] = list(pt)
            if len(l._rewards) != min(half, c + 1):
                case.fail("C04", "learner-evidence", f"learner {ph+1} holds {len(l._rewards)} rewards after {min(half, c+1)} exploration rounds", step=t, algo=name)
        else:
            if created != N:
                case.fail("C09", "learner-count", f"{created} learners after the schedule ended (N={N})", step=t, algo=name)
            g = g_of(a)
            best = max(float(v) for v in g.V_reward) if g.V_reward else None
            idx = [i for i, v in enumerate(g.V_reward) if float(v) == best]
            if evs or not any(list(pt) == S["val_pts"].get(i) for i in idx):
                case.fail("C09", "final-point", f"after the last phase pull returned {pt}, best validated {[S['val_pts'].get(i) for i in idx]}", step=t, algo=name)
        rhos = [e["kw"].get("rho") for e in log["created"]]
        if len(set(rhos)) != len(rhos):
            case.fail("C09", "learner-rho-duplicate", f"{rhos}", step=t, algo=name)

    def at_end(ctx):
        a, case = ctx["algo"], ctx["case"]
        q = ctx.get("last")
        if q is None or S["skip"]:
            return
        g = g_of(a)
        if not g.V_reward:
            return
        best = max(float(v) for v in g.V_reward)
        idx = [i for i, v in enumerate(g.V_reward) if float(v) == best]
        # the validated points as they were proposed (snapshots by value), not as the object holds them now
        vx = lambda i: S["last_prop"].get(i, list(g.V_x[i]))
        if not any([float(x) for x in q] == [float(x) for x in vx(i)] for i in idx):
            case.fail("C07", "recommendation-not-best-validated", f"{q}", step="end", algo=name)
            if g.phase > g.N:        # all phases are over: the final choice is part of the published schedule
                case.fail("C09", "final-choice", f"all phases are over, get_last_point returns {q}, the validated point(s) of highest score: "
                          f"{[vx(i) for i in idx][:3]}", step="end", algo=name)

    return {"after_init": after_init, "after_pull": after_pull, "after_recv": after_recv, "at_end": at_end}


# ------------------------------------------------------------------ Zooming: C11 / C04
def zooming_hooks():
    S = {}
    name = "Zooming"

    def cover(ctx, t):
        case, a, part = ctx["case"], ctx["algo"], ctx["part"]
        cells = {}
        for arm, nd in a.active_points.items():
            p = arm.get_point()
            dom = nd.get_domain()
            if not all(lo <= x <= hi for x, (lo, hi) in zip(p, dom)):
                case.fail("C11", "arm-outside-its-cell", f"arm {p} not in cell {dom}", step=t, algo=name); return
            cells.setdefault(id(nd), []).append(arm)
        for lf in reachable(part.get_root()):
            if lf.get_children() is None and lf.get_depth() >= 1 and id(lf) not in cells:
                case.fail("C11", "leaf-without-arm", f"cell (depth {lf.get_depth()}, index {lf.get_index()}) {lf.get_domain()} has no active arm", step=t, algo=name,
                          kind=ctx["kind"])
                return
        for arm, nd in a.active_points.items():
            if nd.get_children() is not None:
                case.fail("C11", "arm-on-internal-cell", f"arm {arm.get_point()} is responsible for a refined cell", step=t, algo=name); return

    def after_init(ctx):
        S.update(ledger={}, phase=1, next_end=2, time=0)
        cover(ctx, "init")

    def index(ctx, arm):
        rs = S["ledger"].get(id(arm), [])
        mean = math.fsum(rs) / len(rs) if rs else 0.0
        return mean + 2 * math.sqrt(8 * S["phase"] / (2 + len(rs)))

    def after_pull(ctx, t, pt):
        case, a = ctx["case"], ctx["algo"]
        arm = None
        for x in a.active_points:
            if x.get_point() is pt:
                arm = x
        S["arm"] = arm
        if arm is None:
            case.fail("C11", "point-not-an-active-arm", f"{pt}", step=t, algo=name); return
        best = max(index(ctx, x) for x in a.active_points)
        if not rel_close(index(ctx, arm), best):
            case.fail("C11", "not-max-index", f"pulled index {index(ctx, arm)!r}, best active arm {best!r}", step=t, algo=name)
        S["cell"] = a.active_points[arm]
        S["calls"] = len(ctx["part"]._calls)

    def after_recv(ctx, t, pt, r):
        case, a, part = ctx["case"], ctx["algo"], ctx["part"]
        arm = S.get("arm")
        if arm is None:
            return
        S["ledger"].setdefault(id(arm), []).append(r)
        S["time"] += 1
        if S["time"] >= S["next_end"]:
            S["phase"] += 1
            S["next_end"] += 2 ** S["phase"]
        if a.phase != S["phase"]:
            case.fail("C11", "phase-schedule", f"phase {a.phase}, doubling schedule says {S['phase']}", step=t, algo=name)
        for x in a.active_points:
            rs = S["ledger"].get(id(x), [])
            if a.pulled_times[x] != len(rs):
                case.fail("C04", "arm-count", f"arm {x.get_point()} count {a.pulled_times[x]} != {len(rs)}", step=t, algo=name); break
            if rs and not mean_close(float(a.average_rewards[x]), rs):
                case.fail("C04", "arm-mean", f"arm {x.get_point()} mean {a.average_rewards[x]!r} != {math.fsum(rs)/len(rs)!r}", step=t, algo=name); break
        if sum(a.pulled_times[x] for x in a.active_points) != S["time"]:
            case.fail("C04", "count-sum", f"arm counts sum to {sum(a.pulled_times[x] for x in a.active_points)} after {S['time']} rounds", step=t, algo=name)
        p = ctx["meta"]["params"]
        cell = S["cell"]
        rad = math.sqrt(8 * S["phase"] / (2 + len(S["ledger"][id(arm)])))
        thr = p["nu"] * p["rho"] ** cell.get_depth()
        refined = len(part._calls) > S["calls"]
        if (rad == thr or abs(rad - thr) > 1e-9 * thr) and refined != (rad <= thr):
            case.fail("C11", "refinement-rule", f"radius {rad!r}, nu*rho^depth {thr!r}, refined={refined}", step=t, algo=name)
        if refined:
            c = part._calls[-1]
            if c["parent"] != cell._vid:
                case.fail("C11", "refined-other-cell", "", step=t, algo=name)
            for i in c["created"]:
                k = part._all[i]
                inside = all(lo <= x <= hi for x, (lo, hi) in zip(arm.get_point(), k.get_domain()))
                arms_here = [x for x, nd in a.active_points.items() if nd is k]
                if not inside:
                    if len(arms_here) != 1 or list(arms_here[0].get_point()) != list(k.get_cpoint()):
                        case.fail("C11", "child-without-new-arm", f"child {k.get_domain()} does not contain the arm and has arms {[x.get_point() for x in arms_here]}", step=t, algo=name)
        cover(ctx, t)

    return {"after_init": after_init, "after_pull": after_pull, "after_recv": after_recv}


# ------------------------------------------------------------------ VROOM: C13 / C04
def vroom_hooks():
    S = {}
    name = "VROOM"

    def after_init(ctx):
        S.update(ledger={}, rounds=0, params=ctx["meta"]["params"])

    def lcb(a, nd):
        rs = S["ledger"].get(nd._vid, [])
        if not rs:
            return -math.inf
        p = S["params"]            # the confidence parameter of the published pseudo-code, delta = 4b/(f_max sqrt(n)),
        delta = 4 * p["b"] / (p["f_max"] * math.sqrt(p["n"]))      # from the constructor arguments, not from the object
        return math.fsum(rs) / len(rs) - math.sqrt(math.log(4 * p["n"] ** 3 / delta) / (2 * len(rs)))

    def after_pull(ctx, t, pt):
        import PyXAB.algos.VROOM as VM
        case, a, part = ctx["case"], ctx["algo"], ctx["part"]
        sd = int(a.n).bit_length() - 1            # floor(log2 n), exactly
        if a.search_depth != sd:
            case.fail("C13", "ranking-depth", f"cells are ranked down to depth {a.search_depth}, floor(log2 {a.n}) = {sd}", step=t, algo=name); return
        nl = part.get_node_list()
        weights = []
        for h in range(1, sd + 1):
            layer = nl[h]
            ranks = [n.rank[-1] for n in layer]
            if sorted(ranks) != list(range(1, len(layer) + 1)):
                case.fail("C13", "ranks-not-a-permutation", f"depth {h}: ranks {sorted(ranks)[:8]}.. for {len(layer)} cells", step=t, algo=name); return
            if len(layer) != 2 ** h:
                case.fail("C13", "layer-size", f"depth {h} has {len(layer)} cells", step=t, algo=name, K=ctx["K"], kind=ctx["kind"]); return
            by_rank = sorted(layer, key=lambda n: n.rank[-1])
            vals = [lcb(a, n) for n in by_rank]
            for x, y in zip(vals[:-1], vals[1:]):
                if y > x and not rel_close(x, y):
                    case.fail("C13", "rank-order", f"depth {h}: lower confidence values not non-increasing in rank ({x!r} then {y!r})", step=t, algo=name); return
            weights += [(h, n.rank[-1]) for n in layer]
        C = math.fsum(1 / (h * r) for h, r in weights)
        if len(a.prob) != len(weights):
            case.fail("C13", "weights-length", f"{len(a.prob)} weights for {len(weights)} ranked cells", step=t, algo=name); return
        for p_, (h, r) in zip(a.prob, weights):
            if not rel_close(float(p_), 1 / (h * r * C), 1e-9):
                case.fail("C13", "weight-formula", f"weight {p_!r} for (depth {h}, rank {r}); 1/(h r C) = {1/(h*r*C)!r}", step=t, algo=name); return
        if abs(math.fsum(float(x) for x in a.prob) - 1) > 1e-9:
            case.fail("C13", "weights-sum", f"sum {math.fsum(a.prob)!r}", step=t, algo=name)
        drawn = a.curr_node
        last = getattr(VM.VROOM_node, "_verif_last", None)
        S["path"] = list(a.update_list)
        if last is None or not is_ancestor_or_self(drawn, last):
            case.fail("C13", "point-not-from-descendant", "the sampled cell is not a descendant of the drawn cell", step=t, algo=name); return
        pp = S["params"]
        cap = min(pp["h_max"], pp["n"])            # the documented cap: h_max, bounded by the budget n (from the arguments)
        want = max(drawn.get_depth(), cap)
        if last.get_depth() != want:
            case.fail("C13", "descent-depth", f"sampled at depth {last.get_depth()}, drawn depth {drawn.get_depth()}, cap {cap}", step=t, algo=name)
        for x, (lo, hi) in zip(pt, drawn.get_domain()):
            if not (lo <= x <= hi):
                case.fail("C13", "point-outside-drawn-cell", f"{pt} not in {drawn.get_domain()}", step=t, algo=name); break
        for x, (lo, hi) in zip(pt, last.get_domain()):
            if not (lo <= x <= hi):
                case.fail("C13", "point-outside-sampled-cell", f"{pt} not in {last.get_domain()}", step=t, algo=name); break
        # path = drawn cell followed by the descent
        chain = []
        x = last
        while x is not None and x is not drawn:
            chain.append(x); x = x.get_parent()
        chain.append(drawn); chain.reverse()
        if [id(n) for n in chain] != [id(n) for n in a.update_list]:
            case.fail("C13", "credit-path", "update_list is not the drawn cell followed by the descent", step=t, algo=name)
        S["chain"] = chain

    def after_recv(ctx, t, pt, r):
        case, a, part = ctx["case"], ctx["algo"], ctx["part"]
        for n in S.get("chain", []):
            S["ledger"].setdefault(n._vid, []).append(r)
        S["rounds"] += 1
        for x in reachable(part.get_root()):
            exp = S["ledger"].get(x._vid, [])
            if list(x.reward) != exp:
                case.fail("C04", "reward-list", f"cell ({x.get_depth()},{x.get_index()}) holds {len(x.reward)} rewards, history credits {len(exp)}", step=t, algo=name); break

    return {"after_init": after_init, "after_pull": after_pull, "after_recv": after_recv}


# ------------------------------------------------------------------ StroquOOL: C04 (with its documented exception) / C07
def stroquool_hooks():
    S = {}
    name = "StroquOOL"

    def after_init(ctx):
        S.update(ledger={}, since_reset={}, rounds=0, reset_done=False, dropped=0)

    def after_pull(ctx, t, pt):
        a, part = ctx["algo"], ctx["part"]
        S["pulled"] = node_of_point_m(part, pt)
        S["ended"] = bool(a.end)
        if a.candidate and not S["reset_done"]:
            S["reset_done"] = True
            S["cand"] = [c._vid for c in a.candidate]
            for v in S["cand"]:
                S["since_reset"][v] = []

    def after_recv(ctx, t, pt, r):
        case, a, part = ctx["case"], ctx["algo"], ctx["part"]
        nd = S.get("pulled")
        S["rounds"] += 1
        if S["ended"]:
            S["dropped"] += 1          # the schedule is over: rewards are ignored by design
            return
        if nd is None:
            case.fail("C04", "point-not-a-representative", f"{pt}", step=t, algo=name); return
        S["ledger"].setdefault(nd._vid, []).append(r)
        if S["reset_done"] and nd._vid in S["since_reset"]:
            S["since_reset"][nd._vid].append(r)
        for x in reachable(part.get_root()):
            exp = S["ledger"].get(x._vid, [])
            if x.visited_times != len(exp):
                case.fail("C04", "visit-count", f"cell ({x.get_depth()},{x.get_index()}) count {x.visited_times}, history credits {len(exp)}", step=t, algo=name); break
            want = S["since_reset"][x._vid] if (S["reset_done"] and x._vid in S["since_reset"]) else exp
            if list(x.rewards) != want:
                case.fail("C04", "reward-list", f"cell ({x.get_depth()},{x.get_index()}) holds {len(x.rewards)} rewards, expected {len(want)}", step=t, algo=name); break

    def at_end(ctx):
        case, a, part = ctx["case"], ctx["algo"], ctx["part"]
        q = ctx.get("last")
        if q is None or not S["reset_done"]:
            return
        nd = node_of_point_m(part, q)
        if nd is None or nd._vid not in S["since_reset"]:
            case.fail("C07", "recommendation-not-a-candidate", f"{q}", step="end", algo=name); return
        for c in a.candidate:
            rs = S["since_reset"].get(c._vid, [])
            if rs and not mean_close(float(c.mean_reward), rs):
                case.fail("C04", "validation-mean", f"candidate ({c.get_depth()},{c.get_index()}) holds mean {c.mean_reward!r}, its {len(rs)} validation rewards average {math.fsum(rs)/len(rs)!r}", step="end", algo=name)
                break
        mean = lambda v: (math.fsum(S["since_reset"][v]) / len(S["since_reset"][v])) if S["since_reset"][v] else -math.inf
        best = max(mean(v) for v in S["since_reset"])
        if not rel_close(mean(nd._vid), best):
            case.fail("C07", "recommendation-not-best-candidate", f"validation mean {mean(nd._vid)!r}, best {best!r}", step="end", algo=name)

    return {"after_init": after_init, "after_pull": after_pull, "after_recv": after_recv, "at_end": at_end}
