"""Algorithm executions on the real classes: the documented ask/tell loop with generated
configurations, rewards and draws; emits correspondence lines for the Lean driver and runs the
property monitors on the live objects."""
import random, math
from common import *
from framework import Case
import monitors


# ------------------------------------------------------------------ rewards
REWARD_MODES = ["dyadic", "dyadic", "negative", "zero", "const", "few", "alt", "large", "objective", "objective", "zeromax",
                "offset", "near", "corner"]


def make_reward_fn(rnd, mode, box):
    d = len(box)
    xstar = [lo + rnd.random() * (hi - lo) for lo, hi in box]
    scale = [max(hi - lo, 1e-12) for lo, hi in box]
    const = rnd.choice([0.25, -0.5, 1.0, 3.0])
    few = rnd.choice([[0.0, 1.0], [-1.0, -0.5], [0.25, 0.5, 0.75], [0.5]])
    offset = rnd.choice([1e10, -1e12, 1e8, -3e9])
    near = rnd.choice([1.0, -2.0, 0.75, 1e5])
    corner = [rnd.choice([lo, hi, hi]) for lo, hi in box]      # an objective that increases towards a corner of the box

    def fn(t, pt):
        if mode == "dyadic":
            return rnd.randint(0, 1024) / 1024.0
        if mode == "negative":
            return -rnd.randint(1, 1024) / 1024.0
        if mode == "zero":
            return 0.0
        if mode == "zeromax":
            return -rnd.choice([0, 1, 2, 3, 4, 6, 8]) / 8.0      # best value exactly 0.0, the rest negative
        if mode == "const":
            return const
        if mode == "few":
            return rnd.choice(few)
        if mode == "alt":
            return (1 if t % 2 else -1) * rnd.randint(0, 64) / 64.0
        if mode == "large":
            return rnd.choice([1e6, -1e6, 12345.5, -3e5]) * rnd.randint(1, 8)
        if mode == "corner":         # greedy searches dive along the boundary of the box, as deep as the budget allows
            return -sum(abs((p - x) / s_) for p, x, s_ in zip(pt, corner, scale)) / d
        if mode == "near":           # distinct values that agree to 10..14 digits (and exact ties)
            return near * (1.0 + rnd.choice([0, 0, 1, -1, 2, -3, 5]) * 2.0 ** -rnd.choice([36, 40, 44]))
        # objective + dyadic noise (objective itself is not dyadic)
        v = -sum(abs((p - x) / s) for p, x, s in zip(pt, xstar, scale)) / d
        if mode == "offset":         # an un-normalised objective: large constant level, variation of order one
            return offset + v
        return v + rnd.randint(-64, 64) / 1024.0
    return fn


class Delta:
    """delta-encoding of per-node dump strings (mirrors Lean `deltaDump`)"""
    def __init__(self):
        self.prev = []

    def dump(self, strs):
        out = [s for i, s in enumerate(strs) if i >= len(self.prev) or self.prev[i] != s]
        self.prev = list(strs)
        return " ".join(out)


def safe_dump(ad, a, delta):
    try:
        return ad.dump(a, delta)
    except Exception as e:
        return f"DUMP-EXC {type(e).__name__}"


def node_strs(part, st_str):
    out = []
    for i, nd in enumerate(part._all):
        ch = nd.get_children()
        chs = "-" if ch is None else "[" + ",".join(vid(c) for c in ch) + "]"
        bx = "[" + ",".join(fbits(iv[0]) + ":" + fbits(iv[1]) for iv in nd.get_domain()) + "]"
        out.append(f"{i}:{nd.get_depth()}:{nd.get_index()}:{vid(nd.get_parent())}:{chs}:{bx}:{st_str(nd)}")
    return out


def layers_str(part):
    return "[" + ",".join("[" + ",".join(vid(n) for n in layer) + "]" for layer in part.get_node_list()) + "]"


def flist(xs):
    return "[" + ",".join(fbits(x) for x in xs) + "]"


def idlist(nodes):
    return "-" if nodes is None else "[" + ",".join(vid(n) for n in nodes) + "]"


def tb_str(vhct):
    def f(nd):
        last = fbits(nd.rewards[-1]) if nd.rewards else "-"
        s = f"{nd.visited_times}:{len(nd.rewards)}:{last}:{fbits(nd.mean_reward)}:{fbits(nd.u_value)}:{fbits(nd.b_value)}"
        if vhct:
            s += f":{fbits(nd.variance)}:{fbits(nd.tau)}"
        return s
    return f


def node_of_point(part, pt):
    parts = part if isinstance(part, list) else [part]
    for p in parts:
        for nd in p._all:
            if nd.get_cpoint() is pt:
                return nd
    return None


# ------------------------------------------------------------------ per-algorithm adapters
def _ctor(p, cls, **kw):
    """call the real constructor; arguments listed in p["_omit"] are left out, so that the library's own defaults (and its
    handling of absent / None arguments) are what runs"""
    for k_ in p.get("_omit", ()):
        kw.pop(k_, None)
    return cls(**kw)


class Adapter:
    name = None

    def parts(self, a):
        return [a.partition]

    def pull_suffix(self, a, ctx):
        return ""

    def no_candidate(self, a):
        """True when the algorithm has nothing to recommend yet (get_last_point undefined)"""
        return None

    def outside(self, meta):
        """reason why this configuration is outside C01's quantifier (or None)"""
        return None

    def pull_line(self, t, calls, rlog, a, ctx):
        return f"A.pull {t} {draws_str(calls)}" + (self.pull_suffix(a, ctx) if a is not None else "")

    def last_line(self, calls, rlog, a, ctx):
        return "A.last"

    def pt_str(self, a, parts, pt):
        return f"pt {vid(node_of_point(parts, pt))} {flist(pt)}"
    def gen_params(self, rnd, T): ...
    def construct(self, params, box, pcls): ...
    def init_line(self, params, kind, K, box, calls, algo=None): ...
    def dump(self, algo, delta): ...
    def pulled(self, algo): ...


class HOOAd(Adapter):
    name = "T_HOO"
    families = ("tree",)

    def defaults(self, T):
        return {"nu": 1.0, "rho": 0.5, "rounds": 1000}

    def gen_params(self, rnd, T):
        # (nu = 0.01, 0.001: the truncation depth is negative, the tree stays at the root's children)
        return {"nu": rnd.choice([1.0, 0.5, 2.0, 0.1, 4.0, 0.01, 0.001]), "rho": rnd.choice([0.5, 0.25, 0.75, 0.9, 0.3]),
                "rounds": rnd.choice([T, T, 1000, 10 * T, 100])}

    def construct(self, p, box, pcls):
        from PyXAB.algos.HOO import T_HOO
        return _ctor(p, T_HOO, nu=p["nu"], rho=p["rho"], rounds=p["rounds"], domain=box, partition=pcls)

    def init_line(self, p, kind, K, box, calls, algo=None):
        return f"HOO.init {kind_str(kind, K)} {box_str(box)} {fbits(p['nu'])} {fbits(p['rho'])} {p['rounds']} {draws_str(calls)}", "ok"

    def dump(self, a, delta):
        part = a.partition
        return (f"it={a.iteration} path={idlist(getattr(a, 'path', None))} depth={part.get_depth()} "
                f"layers={layers_str(part)} nodes={delta.dump(node_strs(part, tb_str(False)))}")

    def pulled(self, a):
        return a.path[-1]


class HCTAd(Adapter):
    name = "HCT"
    families = ("tree",)
    variance = False

    def defaults(self, T):
        d = {"nu": 1.0, "rho": 0.5, "c": 0.1, "delta": 0.01}
        if self.variance:
            d["bound"] = 1.0
        return d

    def gen_params(self, rnd, T):
        p = {"nu": rnd.choice([1.0, 0.5, 2.0, 1.0]), "rho": rnd.choice([0.5, 0.25, 0.75, 0.6]),
             "c": rnd.choice([0.1, 0.05, 0.2, 0.5, 1.0]), "delta": rnd.choice([0.01, 0.1, 0.001, 0.5, 0.9, 0.99])}
        if self.variance:
            p["bound"] = rnd.choice([1.0, 1.0, 2.0, 0.5, 0.0])      # 0: a noise-free objective
        return p

    def construct(self, p, box, pcls):
        if self.variance:
            from PyXAB.algos.VHCT import VHCT
            return _ctor(p, VHCT, nu=p["nu"], rho=p["rho"], c=p["c"], delta=p["delta"], bound=p["bound"], domain=box, partition=pcls)
        from PyXAB.algos.HCT import HCT
        return _ctor(p, HCT, nu=p["nu"], rho=p["rho"], c=p["c"], delta=p["delta"], domain=box, partition=pcls)

    def init_line(self, p, kind, K, box, calls, algo=None):
        c1 = algo.c1 if algo is not None else (p["rho"] / (3 * p["nu"])) ** 0.125
        return (f"HCT.init {int(self.variance)} {kind_str(kind, K)} {box_str(box)} {fbits(p['nu'])} {fbits(p['rho'])} "
                f"{fbits(p['c'])} {fbits(p['delta'])} {fbits(p.get('bound', 1.0))} {fbits(c1)} {draws_str(calls)}"), "ok"

    def dump(self, a, delta):
        part = a.partition
        th = "-" if self.variance else flist(a.tau_h)
        return (f"it={a.iteration} path={idlist(getattr(a, 'path', None))} tauh={th} depth={part.get_depth()} "
                f"layers={layers_str(part)} nodes={delta.dump(node_strs(part, tb_str(self.variance)))}")

    def pulled(self, a):
        return a.path[-1]


class VHCTAd(HCTAd):
    name = "VHCT"
    variance = True


def sw_str(with_b):
    def f(nd):
        s_ = f"{int(bool(nd.visited))}:{fbits(nd.reward)}"
        if with_b:
            s_ += f":{fbits(nd.b_value)}"
        return s_
    return f


class SOOAd(Adapter):
    name = "SOO"

    def defaults(self, T):
        return {"n": 100, "h_max": 100}

    def outside(self, meta):
        return "depth cap smaller than the number of rounds" if meta["params"]["h_max"] < meta["T"] else None

    def gen_params(self, rnd, T):
        return {"n": rnd.choice([T, 100, 1000]), "h_max": rnd.choice([100, 100, 1000, 1000, T, T + 1, 5])}

    def construct(self, p, box, pcls):
        from PyXAB.algos.SOO import SOO
        return _ctor(p, SOO, n=p["n"], h_max=p["h_max"], domain=box, partition=pcls)

    def init_line(self, p, kind, K, box, calls, algo=None):
        return f"SOO.init {kind_str(kind, K)} {box_str(box)} {p['h_max']}", "ok"

    def dump(self, a, delta):
        part = a.partition
        return (f"it={a.iteration} curr={vid(a.curr_node)} depth={part.get_depth()} "
                f"layers={layers_str(part)} nodes={delta.dump(node_strs(part, sw_str(False)))}")


class DOOAd(Adapter):
    name = "DOO"

    def defaults(self, T):
        return {"n": 100}

    @staticmethod
    def tab(p):
        k = p.get("delta_kind", "geom")
        if k == "lin0":        # a user bound that reaches exactly 0 at some depth and stays there
            return [max(0.0, p["delta_c"] - p["delta_g"] * h) for h in range(1300)]
        if k == "zero":        # purely greedy
            return [0.0 for h in range(1300)]
        if k == "const":
            return [p["delta_c"] for h in range(1300)]
        return [p["delta_c"] * p["delta_g"] ** h for h in range(1300)]

    def gen_params(self, rnd, T):
        p = {"n": rnd.choice([T, 100])}
        if rnd.random() < 0.5:
            p["delta_c"], p["delta_g"] = rnd.choice([1.0, 0.5, 4.0]), rnd.choice([0.5, 0.25, 0.75])
            k = rnd.choice(["geom", "geom", "geom", "lin0", "lin0", "zero", "const"])
            if k != "geom":
                p["delta_kind"] = k
        return p

    def construct(self, p, box, pcls):
        from PyXAB.algos.DOO import DOO
        if "delta_c" in p:
            tab = self.tab(p)
            return DOO(n=p["n"], delta=lambda h: tab[h], domain=box, partition=pcls)
        return _ctor(p, DOO, n=p["n"], domain=box, partition=pcls)

    def init_line(self, p, kind, K, box, calls, algo=None):
        r0 = algo.partition.get_root().reward if algo is not None else float("-inf")
        tab = self.tab(p) if "delta_c" in p else None
        ts = "0" if tab is None else f"1 {len(tab)} " + " ".join(fbits(x) for x in tab)
        return f"DOO.init {kind_str(kind, K)} {box_str(box)} {fbits(r0)} {ts}", "ok"

    def dump(self, a, delta):
        part = a.partition
        return (f"it={a.iteration} curr={vid(getattr(a, 'curr_node', None))} depth={part.get_depth()} "
                f"layers={layers_str(part)} nodes={delta.dump(node_strs(part, sw_str(True)))}")


def sto_str(nd):
    last = fbits(nd.rewards[-1]) if nd.rewards else "-"
    return f"{nd.visited_times}:{len(nd.rewards)}:{last}:{fbits(nd.mean_reward)}:{fbits(nd.b_value)}"


class StoSOOAd(Adapter):
    name = "StoSOO"
    time_sensitive = True
    none_keeps_state = True       # the driver follows the implementation through a pull that returns None

    def outside(self, meta):
        return "depth cap smaller than the number of rounds" if meta["params"]["h_max"] < meta["T"] else None

    def gen_params(self, rnd, T):
        p = {"n": rnd.choice([T, T, 2 * T, 1000]), "h_max": rnd.choice([100, 100, 1000, 1000, max(T, 7), 4, 3])}
        if rnd.random() < 0.5 or p["h_max"] <= 6:
            p["k"] = rnd.choice([1, 1, 2, 3, 5])
        if rnd.random() < 0.3:
            p["delta"] = rnd.choice([0.1, 0.01, 0.5])
        p["_explicit_none"] = rnd.random() < 0.5
        return p

    def fix_T(self, p, T):
        return min(T, p["n"])

    def construct(self, p, box, pcls):
        from PyXAB.algos.StoSOO import StoSOO
        kw_ = dict(n=p["n"], h_max=p["h_max"], domain=box, partition=pcls)
        if "k" in p or p.get("_explicit_none"):
            kw_["k"] = p.get("k")
        if "delta" in p or p.get("_explicit_none"):
            kw_["delta"] = p.get("delta")          # absent optional arguments are sometimes written as None, sometimes left out
        return _ctor(p, StoSOO, **kw_)

    def init_line(self, p, kind, K, box, calls, algo=None):
        L = np.log(algo.n * algo.k / algo.delta)
        # budget and depth cap: what the caller passed (the model is not told what the object made of them)
        return (f"StoSOO.init {kind_str(kind, K)} {box_str(box)} {p['n']} {fbits(algo.k)} {fbits(algo.delta)} {fbits(L)} "
                f"{p['h_max']}"), "ok"

    def dump(self, a, delta):
        part = a.partition
        sel = f"{a.max_b_node_h},{a.max_b_node_ind}" if hasattr(a, "max_b_node_h") else "-"
        bm = fbits(a.b_max) if hasattr(a, "b_max") else fbits(float("-inf"))
        return (f"it={a.iteration} bmax={bm} sel={sel} depth={part.get_depth()} "
                f"layers={layers_str(part)} nodes={delta.dump(node_strs(part, sto_str))}")


def sq_str(nd):
    first = fbits(nd.rewards[0]) if nd.rewards else "-"
    last = fbits(nd.rewards[-1]) if nd.rewards else "-"
    return f"{len(nd.rewards)}:{first}:{last}:{int(bool(nd.opened))}"


class SequOOLAd(Adapter):
    name = "SequOOL"

    def defaults(self, T):
        return {"n": 1000}

    def no_candidate(self, a):
        return len(a.chosen) == 0

    def gen_params(self, rnd, T):
        return {"n": rnd.choice([T, T, 2 * T, 1000, 10, 25])}

    def construct(self, p, box, pcls):
        from PyXAB.algos.SequOOL import SequOOL
        return _ctor(p, SequOOL, n=p["n"], domain=box, partition=pcls)

    def init_line(self, p, kind, K, box, calls, algo=None):
        return f"SequOOL.init {kind_str(kind, K)} {box_str(box)} {p['n']} {algo.h_max}", "ok"

    def dump(self, a, delta):
        part = a.partition
        bud = getattr(a, "budget", None)
        return (f"it={a.iteration} hmax={a.h_max} cd={a.curr_depth} loc={a.loc} budget={'-' if bud is None else bud} "
                f"nchosen={len(a.chosen)} lastchosen={vid(a.chosen[-1]) if a.chosen else '-'} curr={vid(getattr(a, 'curr_node', None))} "
                f"depth={part.get_depth()} layers={layers_str(part)} nodes={delta.dump(node_strs(part, sq_str))}")


def recording_base(base_name, log):
    """Subclass of the real base learner with the same __name__ (POO/GPO dispatch on it) that
    records constructor arguments and every pull/receive_reward it is given."""
    import importlib
    mod = {"T_HOO": "PyXAB.algos.HOO", "HCT": "PyXAB.algos.HCT", "VHCT": "PyXAB.algos.VHCT"}[base_name]
    base = getattr(importlib.import_module(mod), base_name)

    class Rec(base):
        def __init__(self, *a, **kw):
            base.__init__(self, *a, **kw)
            self._lid = len(log["created"])
            self._rewards = []
            self._pulls = 0
            # only a weak reference: a wrapper that drops a learner really drops it (the recorder must not change lifetimes)
            import weakref
            log["created"].append({"kw": {k: v for k, v in kw.items() if k in ("nu", "rho", "rounds")}, "ref": weakref.ref(self),
                                   "rewards": self._rewards})

        # arguments are handed on exactly as the wrapper wrote them (positional or keyword: POO.get_last_point calls
        # pull(time=0)), so a renamed parameter of the base learner is not masked by this recorder
        def pull(self, *a, **kw):
            self._pulls += 1
            log["events"].append(("pull", self._lid))
            return base.pull(self, *a, **kw)

        def receive_reward(self, *a, **kw):
            reward = kw["reward"] if "reward" in kw else a[1]
            self._rewards.append(reward)
            log["events"].append(("recv", self._lid, reward))
            return base.receive_reward(self, *a, **kw)

    Rec.__name__ = base_name
    Rec.__qualname__ = base_name
    return Rec


LEARNER_ADS = {"T_HOO": HOOAd(), "HCT": HCTAd(), "VHCT": VHCTAd()}


class POOAd(Adapter):
    name = "POO"

    def defaults(self, T):
        return {"numax": 1, "rhomax": 0.9, "rounds": 1000}

    def no_candidate(self, a):
        return len(a.V_reward) == 0

    def gen_params(self, rnd, T):
        return {"base": rnd.choice(["T_HOO", "HCT", "VHCT"]), "numax": rnd.choice([1.0, 0.5, 2.0]),
                "rhomax": rnd.choice([0.9, 0.85, 0.95, 0.99, 0.84, 0.9, 0.95, 0.8, 0.5]), "rounds": rnd.choice([T, 1000, 10 * T])}

    def construct(self, p, box, pcls):
        from PyXAB.algos.POO import POO
        self.log = {"created": [], "events": []}
        a = _ctor(p, POO, numax=p["numax"], rhomax=p["rhomax"], rounds=p["rounds"], domain=box, partition=pcls,
                  algo=recording_base(p["base"], self.log))
        a._log = self.log
        a._deltas = {}
        a._touched = None
        a._nl_seen = 0
        return a

    def parts(self, a):
        return [l.partition for l in a.V_algo]

    def init_line(self, p, kind, K, box, calls, algo=None):
        return (f"POO.init {p['base']} {kind_str(kind, K)} {box_str(box)} {fbits(p['numax'])} {fbits(p['rhomax'])} "
                f"{p['rounds']} {fbits(algo.Dmax)}"), "ok"

    def pull_suffix(self, a, ctx):
        s_ = ""
        if len(a.V_algo) > a._nl_seen:
            a._nl_seen = len(a.V_algo)
            l = a.V_algo[-1]
            if hasattr(l, "c1"):
                s_ = f" c1 {fbits(l.c1)}"
        return s_

    def owner(self, a, pt):
        for i, l in enumerate(a.V_algo):
            for nd in l.partition._all:
                if nd.get_cpoint() is pt:
                    return i, nd
        return None, None

    def pt_str(self, a, parts, pt):
        i, nd = self.owner(a, pt)
        a._touched = i
        return f"pt {vid(nd)} {flist(pt)}"

    def dump(self, a, delta):
        i = a._touched
        if i is None:
            ld = "-"
        else:
            l = a.V_algo[i]
            d = a._deltas.setdefault(i, Delta())
            ld = f"L{i}:" + LEARNER_ADS[type(l).__name__].dump(l, d)
        ac = getattr(a, "algo_counter", None)
        return (f"N={a.N} n={a.n} phase={a.phase} counter={a.counter} ac={'-' if ac is None else ac} nl={len(a.V_algo)} "
                f"V={flist(a.V_reward)} times=[{','.join(str(int(x)) for x in a.Times)}] {ld}")


class GPOAd(Adapter):
    name = "GPO"

    def defaults(self, T):
        return {"numax": 1, "rhomax": 0.9, "rounds": 1000}
    wrapper = None     # "PCT" / "VPCT" for the fixed-base wrappers

    def gen_params(self, rnd, T):
        base = {"PCT": "HCT", "VPCT": "VHCT"}.get(self.wrapper) or rnd.choice(["T_HOO", "HCT", "VHCT"])
        return {"base": base, "numax": rnd.choice([1.0, 0.5, 2.0]),
                "rhomax": rnd.choice([0.5, 0.6, 0.7, 0.75, 0.8, 0.4, 0.5, 0.6, 0.97]), "rounds": rnd.choice([T, T, 100, 2 * T, T + 1, 2 * T + 1, 129, 191, 281])}

    def gpo(self, a):
        return a.algorithm if self.wrapper else a

    def no_candidate(self, a):
        return len(self.gpo(a).V_x) == 0

    def construct(self, p, box, pcls):
        self.log = {"created": [], "events": []}
        rec = recording_base(p["base"], self.log)
        if self.wrapper:
            import importlib
            m = importlib.import_module(f"PyXAB.algos.{self.wrapper}")
            saved = getattr(m, p["base"])
            setattr(m, p["base"], rec)
            try:
                a = _ctor(p, getattr(m, self.wrapper), numax=p["numax"], rhomax=p["rhomax"], rounds=p["rounds"], domain=box, partition=pcls)
            finally:
                setattr(m, p["base"], saved)
        else:
            from PyXAB.algos.GPO import GPO
            a = _ctor(p, GPO, numax=p["numax"], rhomax=p["rhomax"], rounds=p["rounds"], domain=box, partition=pcls, algo=rec)
        a._log = self.log
        a._deltas = {}
        a._created_seen = 0
        return a

    def parts(self, a):
        return [o.partition for o in (e["ref"]() for e in a._log["created"]) if o is not None]

    def init_line(self, p, kind, K, box, calls, algo=None):
        g = self.gpo(algo)
        return (f"GPO.init {p['base']} {kind_str(kind, K)} {box_str(box)} {fbits(p['numax'])} {fbits(p['rhomax'])} "
                f"{p['rounds']} {fbits(g.N)} {fbits(g.half_phase_length)}"), "ok"

    def pull_suffix(self, a, ctx):
        s_ = ""
        if len(a._log["created"]) > a._created_seen:
            a._created_seen = len(a._log["created"])
            l = a._log["created"][-1]["ref"]()
            if l is not None and hasattr(l, "c1"):
                s_ = f" c1 {fbits(l.c1)}"
        return s_

    def pt_str(self, a, parts, pt):
        return f"pt {flist(pt)}"

    def dump(self, a, delta):
        g = self.gpo(a)
        l = g.curr_algo
        if l is None:
            ld = "-"
        else:
            d = a._deltas.setdefault(getattr(l, "_lid", id(l)), Delta())      # (not id(l): a dropped learner's address is reused)
            ld = LEARNER_ADS[type(l).__name__].dump(l, d)
        gx = "-" if g.goodx is None else flist(g.goodx)
        lv = flist(g.V_x[-1]) if g.V_x else "-"
        return (f"phase={int(g.phase)} counter={int(g.counter)} created={len(a._log['created'])} goodx={gx} nVx={len(g.V_x)} "
                f"lastVx={lv} V={flist(g.V_reward)} L:{ld}")


class PCTAd(GPOAd):
    name = "PCT"
    wrapper = "PCT"


class VPCTAd(GPOAd):
    name = "VPCT"
    wrapper = "VPCT"


class ZoomingAd(Adapter):
    name = "Zooming"

    def defaults(self, T):
        return {"nu": 1.0, "rho": 0.9}

    def gen_params(self, rnd, T):
        # a large nu makes the refinement test pass at once: the tree gets one level deeper every few rounds
        return {"nu": rnd.choice([1.0, 0.5, 2.0, 4.0, 8.0, 1e3, 1e6]), "rho": rnd.choice([0.9, 0.5, 0.75, 0.95, 0.99])}

    def fix_T(self, p, T):
        return T * 3 if T >= 100 else T            # some long runs: refinement three and more levels deep

    def construct(self, p, box, pcls):
        from PyXAB.algos.Zooming import Zooming
        a = _ctor(p, Zooming, nu=p["nu"], rho=p["rho"], domain=box, partition=pcls)
        a._adelta = Delta()
        return a

    def init_line(self, p, kind, K, box, calls, algo=None):
        return f"Zooming.init {kind_str(kind, K)} {box_str(box)} {fbits(p['nu'])} {fbits(p['rho'])} {draws_str(calls)}", "ok"

    @staticmethod
    def arms(a):
        return list(a.active_points.keys())

    def pt_str(self, a, parts, pt):
        for i, arm in enumerate(self.arms(a)):
            if arm.get_point() is pt:
                return f"pt {i} {flist(pt)}"
        return f"pt ? {flist(pt)}"

    def dump(self, a, delta):
        part = a.partition
        arms = self.arms(a)
        astr = [f"{i}:{vid(a.active_points[arm])}:{a.pulled_times[arm]}:{fbits(a.average_rewards[arm])}:{flist(arm.get_point())}"
                for i, arm in enumerate(arms)]
        best = "-" if a.best_arm is None else str(arms.index(a.best_arm))
        return (f"phase={a.phase} next={a.next_end_time} time={a.time} best={best} depth={part.get_depth()} "
                f"layers={layers_str(part)} nodes={delta.dump(node_strs(part, lambda nd: ''))} arms={a._adelta.dump(astr)}")


def vr_str(nd):
    lr = fbits(nd.reward[-1]) if nd.reward else "-"
    lt = fbits(nd.reward_tilde[-1]) if nd.reward_tilde else "-"
    return f"{len(nd.reward)}:{lr}:{len(nd.rank)}:{nd.rank[-1] if nd.rank else '-'}:{len(nd.reward_tilde)}:{lt}"


class VROOMAd(Adapter):
    name = "VROOM"

    def fix_T(self, p, T):
        return min(T, 150)        # every pull walks down to the depth cap: trees grow by h_max cells per round

    def constrain(self, rnd, kind, K, d):
        # VROOM deepens the whole tree to floor(log2 n): only binary-child partitions are in the
        # property's quantifier; a few ternary ones are kept (tiny n) for the recorded crash
        r = rnd.random()
        if r < 0.12:
            return rnd.choice(["kary", "randKary"]), 3, d
        if kind == "dimBinary":
            return kind, K, 1
        if kind in ("kary", "randKary"):
            return kind, 2, d
        return kind, K, d

    def gen_params(self, rnd, T):
        T = min(T, 150)
        n = rnd.choice([T, T, 2 * T, 100, 64, 128, 20, 33])
        # the library's default cap is 100: with a smaller budget the constructor bounds the tree by n instead
        big = 1000 if n <= 33 else (100 if n < 100 else 10)
        return {"n": n, "h_max": rnd.choice([0, 1, 3, 5, 8, 8, 12, 16, 25, big, big]), "b": rnd.choice([1.0, 0.5, 2.0]),
                "f_max": rnd.choice([1.0, 2.0, 10.0])}

    def construct(self, p, box, pcls):
        import PyXAB.algos.VROOM as VM
        ad = self
        if not getattr(VM.VROOM_node, "_verif_wrapped", False):
            orig = VM.VROOM_node.sample_uniform

            def sample_uniform(node):
                VM.VROOM_node._verif_last = node
                return orig(node)
            VM.VROOM_node.sample_uniform = sample_uniform
            VM.VROOM_node._verif_wrapped = True
        if pcls._kind in ("kary", "randKary") and pcls._K > 2:
            p["n"] = min(p["n"], 20)
        a_ = _ctor(p, VM.VROOM, n=p["n"], h_max=p["h_max"], b=p["b"], f_max=p["f_max"], domain=box, partition=pcls)
        a_._verif_params = dict(p)       # budget, ranking depth floor(log2 n), cap min(h_max, n): from the arguments
        return a_

    def init_line(self, p, kind, K, box, calls, algo=None):
        a = algo
        L1 = np.log(4 * a.n ** 3 / a.delta)
        L2 = np.log(2 * a.n ** 2 / a.delta)
        p_ = getattr(a, "_verif_params", None) or {"n": a.n, "h_max": a.h_max, "b": a.b, "f_max": a.f_max}
        return (f"VROOM.init {kind_str(kind, K)} {box_str(box)} {p_['n']} {int(p_['n']).bit_length() - 1} {min(p_['h_max'], p_['n'])} {fbits(p_['b'])} {fbits(p_['f_max'])} "
                f"{fbits(L1)} {fbits(L2)} {fbits(a.const)} {draws_str(calls)}"), "ok"

    @staticmethod
    def vdraw(calls, rlog, base):
        """assemble the VDraw tokens from the RNG log of one pull / get_last_point"""
        choice = 0
        steps = []
        pts = []
        queue = sorted(calls, key=lambda c: c["log_range"][0])
        qi = 0
        for off, (nm, args, v) in enumerate(rlog):
            j = base + off
            if qi < len(queue) and queue[qi]["log_range"][0] <= j < queue[qi]["log_range"][1]:
                continue                     # a draw consumed inside make_children
            pending = None
            if qi < len(queue) and queue[qi]["log_range"][1] <= j:
                pending = queue[qi]; qi += 1
            if nm == "choice":
                choice = v
            elif nm == "randint":
                steps.append((pending, v))
            elif nm == "uniform":
                pts.append(v)
        s_ = f"{choice} {len(steps)}"
        for c, sign in steps:
            s_ += (f" 1 {draw_str(c)}" if c is not None else " 0") + f" {sign}"
        s_ += f" {len(pts)}" + "".join(" " + fbits(x) for x in pts)
        return s_

    def pull_line(self, t, calls, rlog, a, ctx):
        base = len(ctx["rng"].log) - len(rlog)
        return f"A.pull {t} {self.vdraw(calls, rlog, base)}"

    def last_line(self, calls, rlog, a, ctx):
        base = len(ctx["rng"].log) - len(rlog)
        return f"A.last {self.vdraw(calls, rlog, base)}"

    def pt_str(self, a, parts, pt):
        import PyXAB.algos.VROOM as VM
        last = getattr(VM.VROOM_node, "_verif_last", None)
        return f"pt {vid(last)} {flist(pt)}"

    def dump(self, a, delta):
        part = a.partition
        prob = getattr(a, "prob", [])
        ps = 0.0
        for x in prob:
            ps = ps + x
        ul = getattr(a, "update_list", [])
        return (f"it={a.iteration} curr={vid(getattr(a, 'curr_node', None))} ul={idlist(ul) if ul else '[]'} nprob={len(prob)} psum={fbits(ps)} "
                f"depth={part.get_depth()} layers={layers_str(part)} nodes={delta.dump(node_strs(part, vr_str))}")


def sk_str(nd):
    last = fbits(nd.rewards[-1]) if nd.rewards else "-"
    return f"{nd.visited_times}:{int(bool(nd.opened))}:{len(nd.rewards)}:{last}:{fbits(nd.mean_reward)}"


class StroquOOLAd(Adapter):
    name = "StroquOOL"
    time_sensitive = True

    def no_candidate(self, a):
        return not a.candidate

    def constrain(self, rnd, kind, K, d):
        # the code addresses children[0] and children[1] only: binary-child partitions
        if kind == "dimBinary":
            return kind, K, 1
        if kind in ("kary", "randKary"):
            return kind, 2, d
        return kind, K, d

    def gen_params(self, rnd, T):
        return {"n": rnd.choice([100, 200, 300, 500, 1000])}

    def fix_T(self, p, T):
        return p["n"] if T >= 60 else max(20, p["n"] // 3)

    def construct(self, p, box, pcls):
        from PyXAB.algos.StroquOOL import StroquOOL
        return _ctor(p, StroquOOL, n=p["n"], domain=box, partition=pcls)

    def init_line(self, p, kind, K, box, calls, algo=None):
        return f"StroquOOL.init {kind_str(kind, K)} {box_str(box)} {p['n']} {algo.h_max} {algo.p_max}", "ok"

    def dump(self, a, delta):
        part = a.partition
        cand = "[" + ",".join(vid(c) for c in a.candidate) + "]"
        return (f"it={a.iteration} cd={a.curr_depth} cp={a.curr_p} nchosen={len(a.chosen)} ts={a.time_stamp} cand={cand} loc={a.curr_loc} "
                f"curr={vid(a.curr_node)} eval={int(bool(a.eval))} max={vid(a.max_node)} end={int(bool(a.end))} "
                f"depth={part.get_depth()} layers={layers_str(part)} nodes={delta.dump(node_strs(part, sk_str))}")


ADAPTERS = {a.name: a for a in [HOOAd(), HCTAd(), VHCTAd(), SOOAd(), DOOAd(), StoSOOAd(), SequOOLAd(),
                                POOAd(), GPOAd(), PCTAd(), VPCTAd(), ZoomingAd(), VROOMAd(), StroquOOLAd()]}


# ------------------------------------------------------------------ generic case
def gen_algo_case(seed, idx, algo=None, force=None, monitors_on=True, T=None, hooks=None):
    """hooks: optional dict of callables invoked on the live objects:
       after_init(ctx), after_pull(ctx, t, pt), after_recv(ctx, t, pt, r), at_end(ctx)"""
    force = force or {}
    rnd = random.Random(f"algo-{seed}-{idx}-{algo}")
    ad = ADAPTERS[algo or rnd.choice(sorted(ADAPTERS))]
    kind = force.get("kind") or rnd.choice(["binary", "binary", "randBinary", "dimBinary", "kary", "randKary"])
    K = force.get("K") or rnd.choice([2, 3, 3, 4, 5])
    d = force.get("d") or rnd.choice([1, 1, 2, 2, 3] if kind != "dimBinary" else [1, 2, 2, 3])
    if hasattr(ad, "constrain") and not force.get("kind"):
        kind, K, d = ad.constrain(rnd, kind, K, d)
    box, bmode = gen_box(rnd, d, force.get("bmode"))
    if force.get("box") is not None:
        box = [list(iv) for iv in force["box"]]
    if os.environ.get("PYXAB_VERIF_TIER") == "thorough":
        tchoices = [60, 100, 150, 300, 600] + ([1100, 2100] if ad.name in ("HCT", "VHCT", "POO") and rnd.random() < 0.15 else [])
    else:
        tchoices = [20, 40, 60, 100, 150]
    T = T or force.get("T") or rnd.choice(tchoices)
    # reward regimes are stratified over the case index (every regime is met by every algorithm once the per-algorithm
    # budget reaches len(REWARD_MODES)); the starting point of the rotation depends on the seed and the algorithm
    _modes = sorted(set(REWARD_MODES)) + ["dyadic", "objective"]
    random.Random(f"modes-{seed}-{algo}").shuffle(_modes)
    _rm = rnd.choice(REWARD_MODES)       # (drawn in any case: keeps the configuration stream independent of the rotation)
    rmode = force.get("rmode") or (_modes[idx % len(_modes)] if idx < 10 ** 5 else _rm)
    qmode = force.get("qmode") or rnd.choice(["mixed", "dyadic", "random", "end", "half"])
    params = force.get("params") or ad.gen_params(rnd, T)
    if not force.get("params") and hasattr(ad, "defaults") and rnd.random() < 0.3:
        dflt_ = ad.defaults(T)
        params.update(dflt_)                   # the library's default arguments are the most used configuration
        if rnd.random() < 0.7:
            params["_omit"] = sorted(dflt_)    # ... and are usually not written at all
        case_defaults = True
    else:
        case_defaults = False
    if force.get("base") and "base" in params and not force.get("params"):
        params["base"] = force["base"]         # wrappers: the base learner is stratified by the caller
    if hasattr(ad, "fix_T") and not force.get("T"):
        T = ad.fix_T(params, T)
    t0 = force.get("t0", rnd.choice([1, 1, 0, 17]) if not getattr(ad, "time_sensitive", False) else 1)
    n_queries = force.get("queries", rnd.choice([0, 0, 1, 3]))
    meta = {"gen": "algo", "algo": ad.name, "seed": seed, "idx": idx, "kind": kind, "K": K, "d": d, "box": box,
            "bmode": bmode, "T": T, "rmode": rmode, "qmode": qmode, "params": params, "t0": t0, "force": force}
    meta["arity"] = {"binary": 2, "randBinary": 2, "dimBinary": 2 ** d}.get(kind, K)
    case = Case(f"algo-{ad.name}-{seed}-{idx}", meta)
    for k in ("kind", "d", "rmode", "qmode", "bmode"):
        case.tags[f"{k}={meta[k]}"] += 1
    case.tags[f"algo={ad.name}"] += 1
    if case_defaults:
        case.tags["params=library-defaults"] += 1
    if kind in ("kary", "randKary"):
        case.tags[f"K={K}"] += 1
    raw_hooks = hooks or {}

    def _safe(fn, nm):
        def call(*args):
            try:
                return fn(*args)
            except HangError:
                raise
            except Exception as e:      # the live objects are in a shape the monitor did not expect
                case.fail("*", "monitor-exception", f"{nm}: {type(e).__name__}: {e}", algo=ad.name)
        return call
    hooks = {k: _safe(v, k) for k, v in raw_hooks.items()}
    # independent streams: rewards, random draws and query positions do not depend on how the
    # configuration was chosen (relational checks re-run a case with parts of it forced)
    rrnd = random.Random(f"rew-{seed}-{idx}-{ad.name}")
    drnd = random.Random(f"draw-{seed}-{idx}-{ad.name}")
    qrnd = random.Random(f"query-{seed}-{idx}-{ad.name}")
    reward_fn = make_reward_fn(rrnd, rmode, force.get("reward_box") or box)
    if force.get("pullback"):
        _pa, _pb = force["pullback"]
        _rf = reward_fn
        reward_fn = lambda t_, pt_: _rf(t_, [(x_ - _pb[j_]) / _pa[j_] for j_, x_ in enumerate(pt_)])
    if force.get("query_rounds") is not None:
        query_rounds = set(force["query_rounds"])
    else:
        # a query between two rounds is "get_last_point after the loop" of the rounds played so far (C01); for the
        # algorithms outside C15's list it may change the rest of the run, which the model follows (A.last is an op)
        QRY = ("T_HOO", "HCT", "VHCT", "Zooming", "POO", "SOO", "DOO", "StoSOO", "SequOOL", "VROOM", "GPO", "PCT", "VPCT")
        query_rounds = set(qrnd.sample(range(T), min(n_queries, T))) if ad.name in QRY else set()
        if ad.name in ("GPO", "PCT", "VPCT") and qrnd.random() < 0.5:
            # queries while the last learners are being validated (the scores the final choice is made from are still moving)
            query_rounds |= set(qrnd.sample(range(max(0, T - max(T // 4, 1)), T), min(3, max(T // 4, 1))))
    labels = force.get("labels")
    if labels is None and "t0" not in force and ad.name in ("T_HOO", "HCT", "VHCT", "Zooming", "POO", "DOO", "SOO", "SequOOL", "VROOM") \
            and qrnd.random() < 0.12:
        # the algorithms documented as ignoring the time argument: labels that repeat (an epoch or batch number, a constant)
        step_ = qrnd.choice([2, 3, 10, 10 ** 6])
        labels = [i_ // step_ for i_ in range(T)]
        case.tags["labels=repeating"] += 1
        meta["labels"] = f"i//{step_}"
    MID = ("VROOM", "SOO", "DOO", "SequOOL", "StoSOO", "T_HOO", "HCT", "VHCT", "POO")
    if force.get("mid_queries") is not None:
        mid_queries = set(force["mid_queries"])
    else:
        mid_queries = set(qrnd.sample(range(T), min(T, qrnd.choice([3, 3, 8])))) if (ad.name in MID and qrnd.random() < 0.4) else set()
    if ad.name in ("POO", "GPO", "PCT", "VPCT"):
        import copy as _copy
        ad = _copy.copy(ad)      # adapters of wrappers keep per-case state
    delta = Delta()
    ctx = {"case": case, "ad": ad, "meta": meta, "rewards": [], "points": [], "pulled": [], "box": box, "kind": kind, "K": K}
    user_box = [list(iv) for iv in box]
    if all(float(x).is_integer() and abs(x) < 2 ** 50 for iv in box for x in iv) and \
            (force["spell_ints"] if force.get("spell_ints") is not None else random.Random(f"intbox-{seed}-{idx}-{ad.name}").random() < 0.4):
        # the domain as users (and the library's own tests) write it: integer bounds
        user_box = [[int(iv[0]), int(iv[1])] for iv in box]
        case.tags["domain=integer-bounds"] += 1
    # how the caller writes things (all accepted by the library): rows as tuples, NumPy scalars, a NumPy array; rewards as
    # ints / bools / NumPy scalars when the value allows; the time label as a NumPy integer.  Values are unchanged.
    wrnd = random.Random(f"written-{seed}-{idx}-{ad.name}")
    wstyle = wrnd.choice(["plain", "plain", "plain", "tuples", "npscalars", "nparray", "aliased"])
    if wstyle == "aliased":
        if len(user_box) > 1 and all(r == user_box[0] for r in user_box):
            user_box = [user_box[0]] * len(user_box)          # the cube written as [[lo, hi]] * d: one row object
            case.tags["written=aliased-rows"] += 1
        wstyle = "plain"
    if wstyle == "tuples":
        user_box = [tuple(iv) for iv in user_box]
    elif wstyle == "npscalars":
        user_box = [[np.float64(iv[0]), np.float64(iv[1])] for iv in user_box]
    elif wstyle == "nparray":
        user_box = np.array([[float(iv[0]), float(iv[1])] for iv in user_box])
    if wstyle != "plain":
        case.tags[f"written={wstyle}"] += 1

    def as_written(r_):
        if wstyle == "plain":
            return r_
        k_ = wrnd.random()
        if r_ == 0 and math.copysign(1.0, r_) < 0:
            return r_                    # -0.0 has no integer / bool spelling
        if r_ in (0.0, 1.0) and k_ < 0.3:
            return bool(r_)
        if float(r_).is_integer() and abs(r_) < 2 ** 50 and k_ < 0.6:
            return int(r_)
        return np.float64(r_) if k_ < 0.8 else r_
    with RngCtl(drnd, qmode=qmode) as rng:
        ctx["rng"] = rng
        pcls = make_partition_class(kind, K, rng)
        ctx["pcls"] = pcls
        if "pre_expand" in hooks:
            pcls._pre_observer = staticmethod(lambda part_, parent_, nl_: hooks["pre_expand"](ctx, part_, parent_, nl_))
        try:
            a = guarded(ad.construct, params, user_box, pcls, budget=10.0)
        except Exception as e:
            case.op("# construct", None)
            case.stopped = f"construct: {type(e).__name__}: {e}"
            case.fail("C01", "construct-exception", f"{type(e).__name__}: {e}", algo=ad.name, exc=type(e).__name__)
            return case
        ctx["algo"] = a
        glog = pcls._glog
        parts = lambda: ad.parts(a)
        # (wrappers: no lasting reference to a learner's partition, so that a learner the wrapper drops is really freed)
        part = (parts()[0] if parts() else None) if ad.name not in ("POO", "GPO", "PCT", "VPCT") else None
        ctx["part"] = part
        ctx["parts"] = parts
        try:
            line, exp = ad.init_line(params, kind, K, box, list(glog), a)
        except Exception as e:       # the constructed object is in a shape the adapter cannot describe: the run goes on
            line, exp = f"# init-line {type(e).__name__}", None
            case.fail("*", "monitor-exception", f"init line: {type(e).__name__}: {e}", algo=ad.name)
        case.op(line, exp)
        case.op("A.dump", safe_dump(ad, a, delta))
        if monitors_on:
            for p_ in parts():
                for sig, det in monitors.c03_tree(p_, arity=meta["arity"]):
                    case.fail("C03", sig, det, step="init", algo=ad.name, via="algorithm", kind=kind)
        if "after_init" in hooks:
            hooks["after_init"](ctx)
        c03_mark = [0]
        for i in range(T if not force.get("max_rounds") else min(T, force["max_rounds"])):
            t = labels[i] if labels else t0 + i
            if i in query_rounds:
                mark, rmark = len(glog), len(rng.log)
                try:
                    q = guarded(a.get_last_point)
                    case.op(ad.last_line(glog[mark:], rng.log[rmark:], a, ctx), ad.pt_str(a, parts(), q))
                    case.tags["op=query"] += 1
                    if monitors_on and i > 0:
                        monitors.c01_point(case, box, q, i, ad.name, what="get_last_point")
                except Exception as e:
                    case.op(ad.last_line(glog[mark:], rng.log[rmark:], a, ctx), "ERR " + exc_name(e))
                    case.fail("C01", "get_last_point-exception", f"{type(e).__name__}: {e}", step=i, algo=ad.name, exc=type(e).__name__,
                              no_candidate=ad.no_candidate(a))
                    case.stopped = "query"
                    break
            mark, rmark = len(glog), len(rng.log)
            if "before_pull" in hooks:
                hooks["before_pull"](ctx, i)
            try:
                pt = guarded(a.pull, (np.int64(t) if wstyle == "npscalars" else t))
            except Exception as e:
                case.op(ad.pull_line(t, glog[mark:], rng.log[rmark:], None, ctx), "ERR " + exc_name(e))
                case.fail("C01", "pull-exception", f"{type(e).__name__}: {e}", step=i, algo=ad.name, exc=type(e).__name__)
                case.stopped = "pull"
                break
            nd = node_of_point(parts(), pt) if pt is not None else None
            pull_line = ad.pull_line(t, glog[mark:], rng.log[rmark:], a, ctx)
            if pt is None:
                case.op(pull_line, "ERR ReturnedNone")
                case.fail("C01", "pull-returned-none", "pull returned None", step=i, algo=ad.name)
                case.stopped = "pull-none"
                if getattr(ad, "none_keeps_state", False):
                    case.op("A.dump", safe_dump(ad, a, delta))
                    mark, rmark = len(glog), len(rng.log)
                    try:
                        q = guarded(a.get_last_point)
                        case.op(ad.last_line(glog[mark:], rng.log[rmark:], a, ctx), ad.pt_str(a, parts(), q))
                        ctx["last"] = q
                        if "at_end" in hooks:
                            hooks["at_end"](ctx)
                    except Exception as e:
                        case.op(ad.last_line(glog[mark:], rng.log[rmark:], a, ctx), "ERR " + exc_name(e))
                break
            case.op(pull_line, ad.pt_str(a, parts(), pt))
            ctx["points"].append(list(pt)); ctx["pulled"].append(nd)
            if monitors_on:
                monitors.c01_point(case, box, pt, i, ad.name)
            if "after_pull" in hooks:
                hooks["after_pull"](ctx, i, pt)
            if i in mid_queries:
                # a recommendation query between pull and receive_reward must not disturb the crediting
                mark, rmark = len(glog), len(rng.log)
                try:
                    q = guarded(a.get_last_point)
                    case.op(ad.last_line(glog[mark:], rng.log[rmark:], a, ctx), ad.pt_str(a, parts(), q))
                    case.tags["op=mid-round-query"] += 1
                except Exception as e:
                    # C01 speaks of the recommendation after a loop of complete rounds: a query in the middle of a round
                    # is compared with the model (the ERR token) but is not a C01 failure
                    case.op(ad.last_line(glog[mark:], rng.log[rmark:], a, ctx), "ERR " + exc_name(e))
            r = float(reward_fn(i, pt))
            ctx["rewards"].append(r)
            mark = len(glog)
            try:
                guarded(a.receive_reward, (np.int64(t) if wstyle == "npscalars" else t), as_written(r))
            except Exception as e:
                case.op(f"A.recv {fbits(r)} {draws_str(glog[mark:])}", "ERR " + exc_name(e))
                case.fail("C01", "receive-exception", f"{type(e).__name__}: {e}", step=i, algo=ad.name, exc=type(e).__name__)
                case.stopped = "recv"
                break
            case.op(f"A.recv {fbits(r)} {draws_str(glog[mark:])}", "ok")
            case.op("A.dump", safe_dump(ad, a, delta))
            if monitors_on:
                for p_ in parts():
                    for sig, det in monitors.c03_tree(p_, arity=meta["arity"]):
                        case.fail("C03", sig, det, step=i, algo=ad.name, via="algorithm", kind=kind); break
                # every expansion the algorithm issued must be a legal op of the theorem `ops_WF`:
                # target a leaf, newlayer = (the leaf is at the current deepest level)
                for c_ in glog[c03_mark[0]:]:
                    if not c_["was_leaf"] or not c_["flag_ok"]:
                        case.fail("C03", "illegal-expansion", f"make_children on cell {c_['parent']} (was a leaf: {c_['was_leaf']}, newlayer flag right: {c_['flag_ok']})",
                                  step=i, algo=ad.name, via="algorithm", kind=kind)
                        break
                c03_mark[0] = len(glog)
            if "after_recv" in hooks:
                hooks["after_recv"](ctx, i, pt, r)
        if case.stopped is None:
            mark, rmark = len(glog), len(rng.log)
            try:
                q = guarded(a.get_last_point)
                case.op(ad.last_line(glog[mark:], rng.log[rmark:], a, ctx), ad.pt_str(a, parts(), q))
                ctx["last"] = q
                if monitors_on:
                    monitors.c01_point(case, box, q, "end", ad.name, what="get_last_point")
            except Exception as e:
                case.op(ad.last_line(glog[mark:], rng.log[rmark:], a, ctx), "ERR " + exc_name(e))
                case.fail("C01", "get_last_point-exception", f"{type(e).__name__}: {e}", step="end", algo=ad.name, exc=type(e).__name__,
                          no_candidate=ad.no_candidate(a))
            if "at_end" in hooks:
                hooks["at_end"](ctx)
        if [[float(x) for x in iv] for iv in user_box] != [[float(x) for x in iv] for iv in box]:
            case.fail("C14", "domain-mutated", "user domain object modified", algo=ad.name)
    meta["n_nodes"] = sum(len(p_._all) for p_ in parts())
    if not getattr(ad, "model", True):
        case.ops = [("# " + l, None) for l, _e in case.ops]
    why = ad.outside(meta)
    if why:
        meta["outside_quantifier"] = why
        for f_ in case.monitor:
            if f_["property"] == "C01":
                f_["outside_quantifier"] = why
    case.trace = {"points": ctx["points"], "last": list(ctx["last"]) if ctx.get("last") is not None else None,
                  "rewards": ctx["rewards"], "stopped": case.stopped}
    meta["rounds_done"] = len(ctx["rewards"])
    return case


if __name__ == "__main__":
    import sys, collections
    from framework import compare, first_diff
    seed = int(sys.argv[1]) if len(sys.argv) > 1 else 0
    n = int(sys.argv[2]) if len(sys.argv) > 2 else 20
    algo = sys.argv[3] if len(sys.argv) > 3 else None
    cases = [gen_algo_case(seed, i, algo) for i in range(n)]
    mism, nops = compare(cases)
    print("cases", len(cases), "ops", nops, "mismatches", len(mism))
    for (c, i, l, e, g) in mism[:6]:
        print(c.name, c.meta["kind"], c.meta["K"], c.meta["d"], c.meta["rmode"], str(c.meta["params"])[:150], "op", i, l[:60]); print("  ", first_diff(e, g))
    mf = [(c.name, f) for c in cases for f in c.monitor]
    print("monitor failures", len(mf))
    print(collections.Counter((f["property"], f["sig"]) for _n, f in mf))
