import PyXABModel.Drv.Util
import PyXABModel.Drv.TreeBandit
import PyXABModel.Model.Sweep
import PyXABModel.Model.SequOOL
namespace PyXAB.Drv

def b01 (b : Bool) : String := if b then "1" else "0"

def swStr (withB : Bool) (s : SwSt Float) : String :=
  if withB then s!"{b01 s.visited}:{fbits s.reward}:{fbits s.b}" else s!"{b01 s.visited}:{fbits s.reward}"

def stoStr (s : TBSt Float Float) : String :=
  let last := match s.rewards.getLast? with | some r => fbits r | none => "-"
  s!"{s.count}:{s.rewards.length}:{last}:{fbits s.mean}:{fbits s.b}"

def sqStr (s : SqSt Float) : String :=
  let first := match s.rewards.head? with | some r => fbits r | none => "-"
  let last := match s.rewards.getLast? with | some r => fbits r | none => "-"
  s!"{s.rewards.length}:{first}:{last}:{b01 s.opened}"

/-! ### SOO -/
structure SooD where
  s : SOO Float Float
  prev : Array String := #[]

def sooInit (args : List String) : Except String SooD :=
  (do let k ← kind; let b ← box; let hmax ← nat
      pure { s := SOO.init fNegInf k b hmax } : Rd _).run' args

def timeDraws : Rd (Nat × List (Draw Float)) := do
  let t ← nat; let ds ← draws; pure (t, ds)

def sooStep (d : SooD) (cmd : String) (args : List String) : SooD × String :=
  match cmd with
  | "A.pull" =>
    match timeDraws.run' args with
    | .ok (t, ds) =>
      match d.s.pull fNegInf t ds with
      | .ok (s', [], v) => ({ d with s := s' }, ptStr s'.P v)
      | .ok (_, _, _) => (d, "ERR DrawsLeft")
      | .error e => (d, s!"ERR {errName e}")
    | .error e => (d, s!"bad-op {e}")
  | "A.recv" =>
    match (do let r ← flt; let _ ← draws; pure r : Rd _).run' args with
    | .ok r =>
      match d.s.receive r with
      | .ok s' => ({ d with s := s' }, "ok")
      | .error e => (d, s!"ERR {errName e}")
    | .error e => (d, s!"bad-op {e}")
  | "A.last" =>
    match d.s.lastPoint fNegInf with
    | .ok v => (d, ptStr d.s.P v)
    | .error e => (d, s!"ERR {errName e}")
  | "A.dump" =>
    let cur := nodeStrs d.s.P (swStr false)
    ({ d with prev := cur },
     s!"it={d.s.iteration} curr={optNat d.s.curr} depth={d.s.P.depth} layers={layersStr d.s.P.layers} nodes={deltaDump d.prev cur}")
  | _ => (d, "bad-op")

/-! ### DOO -/
structure DooD where
  cfg : DOOCfg Float Float
  s : DOO Float Float
  prev : Array String := #[]

/-- `DOO.delta_init(h)` -/
def dooDeltaInit (P : Part Float (SwSt Float)) (h : Nat) : Except Err Float :=
  match P.layers[h]? with
  | none => .error .indexError
  | some layer =>
    layer.foldlM (fun mx id =>
      match P.nodes[id]? with
      | none => .ok mx
      | some nd =>
        match nd.box with
        | [] => .error .indexError
        | iv :: _ =>
          let pt := (iv.lo + iv.hi) / 2
          let a := Float.pow (iv.lo - pt) 2.0
          let b := Float.pow (iv.hi - pt) 2.0
          let m := if b > a then b else a
          .ok (if m ≥ mx then m else mx)) fNegInf

def dooCfg (user : Option (List Float)) (reward0 : Float) : DOOCfg Float Float :=
  { negInf := fNegInf, inf := fInf, reward0 := reward0
    bOf := fun r d => r + d
    delta := match user with
      | none => dooDeltaInit
      | some tab => fun _ h => match tab[h]? with | some v => .ok v | none => .error .indexError }

def dooInit (args : List String) : Except String DooD :=
  (do let k ← kind; let b ← box; let r0 ← flt; let user ← boolTok
      let tab ← (if user then do let n ← nat; let t ← rep n flt; pure (some t) else pure none)
      let cfg := dooCfg tab r0
      pure { cfg, s := DOO.init cfg k b } : Rd _).run' args

def dooStep (d : DooD) (cmd : String) (args : List String) : DooD × String :=
  match cmd with
  | "A.pull" =>
    match timeDraws.run' args with
    | .ok (t, ds) =>
      match d.s.pull d.cfg t ds with
      | .ok (s', [], v) => ({ d with s := s' }, ptStr s'.P v)
      | .ok (_, _, _) => (d, "ERR DrawsLeft")
      | .error e => (d, s!"ERR {errName e}")
    | .error e => (d, s!"bad-op {e}")
  | "A.recv" =>
    match (do let r ← flt; let _ ← draws; pure r : Rd _).run' args with
    | .ok r =>
      match d.s.receive r with
      | .ok s' => ({ d with s := s' }, "ok")
      | .error e => (d, s!"ERR {errName e}")
    | .error e => (d, s!"bad-op {e}")
  | "A.last" =>
    match d.s.lastPoint d.cfg with
    | .ok v => (d, ptStr d.s.P v)
    | .error e => (d, s!"ERR {errName e}")
  | "A.dump" =>
    let cur := nodeStrs d.s.P (swStr true)
    ({ d with prev := cur },
     s!"it={d.s.iteration} curr={optNat d.s.curr} depth={d.s.P.depth} layers={layersStr d.s.P.layers} nodes={deltaDump d.prev cur}")
  | _ => (d, "bad-op")

/-! ### StoSOO -/
structure StoD where
  cfg : StoCfg Float Float
  s : StoSOO Float Float Float
  prev : Array String := #[]

def stoInit (args : List String) : Except String (StoD × String) :=
  (do let k ← kind; let b ← box; let n ← nat; let kk ← flt; let delta ← flt; let L ← flt; let hmax ← nat
      let L' := Float.log (n.toFloat * kk / delta)
      let note := if relClose L L' then "ok" else s!"ERR ConstMismatch log(nk/delta) impl={L} model={L'}"
      let cfg : StoCfg Float Float :=
        { negInf := fNegInf, inf := fInf, zero := 0.0, n := n
          meanOf := fun rs c => npSum rs / c.toFloat
          bOf := fun m c => m + Float.sqrt (L / (2 * c).toFloat)
          countLT := fun c => c.toFloat < kk
          hmax := hmax }
      pure ({ cfg, s := StoSOO.init cfg k b }, note) : Rd _).run' args

def stoStep (d : StoD) (cmd : String) (args : List String) : StoD × String :=
  match cmd with
  | "A.pull" =>
    match timeDraws.run' args with
    | .ok (t, ds) =>
      match d.s.pull d.cfg t ds with
      | .ok (s', [], v) => ({ d with s := s' }, ptStr s'.P v)
      | .ok (_, _, _) => (d, "ERR DrawsLeft")
      | .error .returnedNone => ({ d with s := d.s.pullNone d.cfg t ds }, "ERR ReturnedNone")
      | .error e => (d, s!"ERR {errName e}")
    | .error e => (d, s!"bad-op {e}")
  | "A.recv" =>
    match (do let r ← flt; let _ ← draws; pure r : Rd _).run' args with
    | .ok r =>
      match d.s.receive d.cfg r with
      | .ok s' => ({ d with s := s' }, "ok")
      | .error e => (d, s!"ERR {errName e}")
    | .error e => (d, s!"bad-op {e}")
  | "A.last" =>
    match d.s.lastPoint d.cfg with
    | .ok v => (d, ptStr d.s.P v)
    | .error e => (d, s!"ERR {errName e}")
  | "A.dump" =>
    let cur := nodeStrs d.s.P stoStr
    let sel := match d.s.sel with | some (h, j) => s!"{h},{j}" | none => "-"
    ({ d with prev := cur },
     s!"it={d.s.iteration} bmax={fbits d.s.bmax} sel={sel} depth={d.s.P.depth} layers={layersStr d.s.P.layers} nodes={deltaDump d.prev cur}")
  | _ => (d, "bad-op")

/-! ### SequOOL -/
structure SqD where
  s : SequOOL Float Float
  prev : Array String := #[]

/-- `harmonic_series_sum(n)` with Python's operation order -/
def harmonic (n : Nat) : Float := Id.run do
  let mut res : Float := 0.0
  for i in [1:n+1] do res := res + 1.0 / i.toFloat
  return res

def sqInit (args : List String) : Except String (SqD × String) :=
  (do let k ← kind; let b ← box; let n ← nat; let hImpl ← nat
      let hmax := (Float.floor (n.toFloat / harmonic n)).toUInt64.toNat
      let note := if hmax == hImpl then "ok" else s!"ERR ConstMismatch h_max impl={hImpl} model={hmax}"
      pure ({ s := SequOOL.init k b hmax }, note) : Rd _).run' args

def sqStep (d : SqD) (cmd : String) (args : List String) : SqD × String :=
  match cmd with
  | "A.pull" =>
    match timeDraws.run' args with
    | .ok (t, ds) =>
      match d.s.pull fNegInf t ds with
      | .ok (s', [], v) => ({ d with s := s' }, ptStr s'.P v)
      | .ok (_, _, _) => (d, "ERR DrawsLeft")
      | .error e => (d, s!"ERR {errName e}")
    | .error e => (d, s!"bad-op {e}")
  | "A.recv" =>
    match (do let r ← flt; let _ ← draws; pure r : Rd _).run' args with
    | .ok r =>
      match d.s.receive r with
      | .ok s' => ({ d with s := s' }, "ok")
      | .error e => (d, s!"ERR {errName e}")
    | .error e => (d, s!"bad-op {e}")
  | "A.last" =>
    match d.s.lastPoint fNegInf with
    | .ok v => (d, ptStr d.s.P v)
    | .error e => (d, s!"ERR {errName e}")
  | "A.dump" =>
    let cur := nodeStrs d.s.P sqStr
    let s := d.s
    ({ d with prev := cur },
     s!"it={s.iteration} hmax={s.hmax} cd={s.currDepth} loc={s.loc} budget={optNat s.budget} nchosen={s.chosen.length} lastchosen={optNat s.chosen.getLast?} curr={optNat s.curr} depth={s.P.depth} layers={layersStr s.P.layers} nodes={deltaDump d.prev cur}")
  | _ => (d, "bad-op")

end PyXAB.Drv
