import PyXABModel.Drv.Util
import PyXABModel.Drv.TreeBandit
import PyXABModel.Model.Zooming
namespace PyXAB.Drv

structure ZoomD where
  cfg : ZoomCfg Float Float
  s : Zooming Float Float
  prev : Array String := #[]
  prevArms : Array String := #[]

def zoomCfg (nu rho : Float) : ZoomCfg Float Float :=
  { negInf := fNegInf, zero := 0.0
    indexOf := fun avg phase pulls => avg + 2 * Float.sqrt ((8 * phase).toFloat / (2 + pulls).toFloat)
    upd := fun avg pulls r => (avg * pulls.toFloat + r) / (pulls + 1).toFloat
    refine := fun phase pulls depth =>
      Float.sqrt ((8 * phase).toFloat / (2 + pulls).toFloat) ≤ nu * Float.pow rho depth.toFloat }

def zoomInit (args : List String) : Except String (Except Err ZoomD) :=
  (do let k ← kind; let b ← box; let nu ← flt; let rho ← flt; let ds ← draws
      let cfg := zoomCfg nu rho
      pure (match Zooming.init cfg k b ds with
        | .ok (s, []) => .ok { cfg, s }
        | .ok (_, _) => .error .noDraw
        | .error e => .error e) : Rd _).run' args

def armStrs (s : Zooming Float Float) : Array String :=
  (s.arms.mapIdx fun i a => s!"{i}:{a.cell}:{a.pulls}:{fbits a.avg}:{fList a.pt}").toArray

def zoomStep (d : ZoomD) (cmd : String) (args : List String) : ZoomD × String :=
  match cmd with
  | "A.pull" | "A.last" =>
    match d.s.pull d.cfg with
    | .ok (s', i, pt) => ({ d with s := s' }, s!"pt {i} {fList pt}")
    | .error e => (d, s!"ERR {errName e}")
  | "A.recv" =>
    match (do let r ← flt; let ds ← draws; pure (r, ds) : Rd _).run' args with
    | .ok (r, ds) =>
      match d.s.receive d.cfg r ds with
      | .ok (s', []) => ({ d with s := s' }, "ok")
      | .ok (_, _) => (d, "ERR DrawsLeft")
      | .error e => (d, s!"ERR {errName e}")
    | .error e => (d, s!"bad-op {e}")
  | "A.dump" =>
    let cur := nodeStrs d.s.P (fun _ => "")
    let ca := armStrs d.s
    let s := d.s
    ({ d with prev := cur, prevArms := ca },
     s!"phase={s.phase} next={s.nextEnd} time={s.time} best={optNat s.best} depth={s.P.depth} layers={layersStr s.P.layers} nodes={deltaDump d.prev cur} arms={deltaDump d.prevArms ca}")
  | _ => (d, "bad-op")

end PyXAB.Drv
