import PyXABModel.Drv.Util
import PyXABModel.Model.TreeBandit
namespace PyXAB.Drv

/-- render every node of a partition (skeleton + algorithm payload) -/
def nodeStrs {σ} (P : Part Float σ) (stStr : σ → String) : Array String :=
  (P.nodes.mapIdx fun i nd =>
    s!"{i}:{nd.depth}:{nd.index}:{optNat nd.parent}:{optNatList nd.children}:{boxStr nd.box}:{stStr nd.st}").toArray

/-- print only the entries that changed since the previous dump -/
def deltaDump (prev cur : Array String) : String := Id.run do
  let mut out : Array String := #[]
  for i in [0:cur.size] do
    if prev[i]? != some cur[i]! then out := out.push cur[i]!
  return " ".intercalate out.toList

def layersStr (ls : List (List Nat)) : String := "[" ++ ",".intercalate (ls.map natList) ++ "]"

def tbStr (vhct : Bool) (s : TBSt Float Float) : String :=
  let last := match s.rewards.getLast? with | some r => fbits r | none => "-"
  let base := s!"{s.count}:{s.rewards.length}:{last}:{fbits s.mean}:{fbits s.u}:{fbits s.b}"
  if vhct then base ++ s!":{fbits s.var}:{fbits s.tau}" else base

def relClose (a b : Float) (tol : Float := 1e-9) : Bool :=
  a == b || (a - b).abs ≤ tol * (max a.abs b.abs)

/-! Float instantiation of the formula records: exactly the expressions of HOO.py / HCT.py /
VHCT.py with Python's operator precedence; `math.*`/`**` are the same glibc calls as Lean's. -/

def hooCfg (nu rho : Float) (rounds : Nat) : HOOCfg Float Float :=
  let D := Float.ceil ((Float.log rounds.toFloat / 2 - Float.log (1 / nu)) / Float.log (1 / rho))
  { inf := fInf, negInf := fNegInf, mean0 := 0.0
    meanOf := fun rs n => npSum rs / n.toFloat
    uOf := fun m cnt depth =>
      m + Float.sqrt (2 * Float.log rounds.toFloat / cnt.toFloat) + nu * Float.pow rho depth.toFloat
    expandOK := fun depth => depth.toFloat ≤ D }

def hctCfg (variance : Bool) (nu rho c delta bound c1 : Float) : HCTCfg Float Float :=
  let c2 := Float.pow c 2.0
  let nu2 := Float.pow nu 2.0
  { variance := variance, inf := fInf, negInf := fNegInf, zero := 0.0, var0 := 1e-3
    meanOf := fun rs n => if variance then npMean rs else npSum rs / n.toFloat
    varOf := fun rs => max (npVar rs) 1e-3
    dtHalf := fun tp => min 0.5 (c1 * delta / tp.toFloat)
    dtOne := fun tp => min 1.0 (c1 * delta / tp.toFloat)
    tauH := fun dt h =>
      Float.ceil (c2 * Float.log (1 / dt) * Float.pow rho (Float.ofInt (-2 * (h : Int))) / nu2)
    tauNode := fun dt h var =>
      let rh := Float.pow rho h.toFloat
      Float.ceil ((var + 3 * bound * nu * rh + var * Float.sqrt (1 + 6 * bound * nu * rh / var))
        * (c2 * Float.log (1 / dt) * Float.pow rho (Float.ofInt (-2 * (h : Int))) / nu2))
    uOf := fun dt depth m cnt var =>
      if variance then
        let ucb := Float.sqrt (c2 * 2 * var * Float.log (1 / dt) / cnt.toFloat)
          + 3 * bound * c2 * Float.log (1 / dt) / cnt.toFloat
        m + ucb + nu * Float.pow rho depth.toFloat
      else
        m + nu * Float.pow rho depth.toFloat + Float.sqrt (c2 * Float.log (1 / dt) / cnt.toFloat)
    countGE := fun n t => t ≤ n.toFloat }

structure HooD where
  cfg : HOOCfg Float Float
  s : HOO Float Float Float
  prev : Array String := #[]

structure HctD where
  cfg : HCTCfg Float Float
  s : HCT Float Float Float
  prev : Array String := #[]

def ptStr {σ} (P : Part Float σ) (v : Nat) : String :=
  match P.nodes[v]? with
  | some nd => s!"pt {v} {fList (Box.cpoint nd.box)}"
  | none => "ERR BadId"

def hooInit (args : List String) : Except String (Except Err HooD) :=
  (do
    let k ← kind; let b ← box; let nu ← flt; let rho ← flt; let rounds ← nat; let ds ← draws
    let cfg := hooCfg nu rho rounds
    pure (match HOO.init cfg k b ds with
      | .ok (s, _) => .ok { cfg, s }
      | .error e => .error e) : Rd _).run' args

def hooStep (d : HooD) (cmd : String) (args : List String) : HooD × String :=
  match cmd with
  | "A.pull" | "A.last" =>
    match d.s.pull with
    | .ok (s', v) => ({ d with s := s' }, ptStr s'.P v)
    | .error e => (d, s!"ERR {errName e}")
  | "A.recv" =>
    match (do let r ← flt; let ds ← draws; pure (r, ds) : Rd _).run' args with
    | .ok (r, ds) =>
      match d.s.receive d.cfg r ds with
      | .ok (s', _) => ({ d with s := s' }, "ok")
      | .error e => (d, s!"ERR {errName e}")
    | .error e => (d, s!"bad-op {e}")
  | "A.dump" =>
    let cur := nodeStrs d.s.P (tbStr false)
    let path := match d.s.path with | some p => natList p | none => "-"
    ({ d with prev := cur },
     s!"it={d.s.iteration} path={path} depth={d.s.P.depth} layers={layersStr d.s.P.layers} nodes={deltaDump d.prev cur}")
  | _ => (d, "bad-op")

def hctInit (args : List String) : Except String (Except Err HctD × String) :=
  (do
    let variance ← boolTok
    let k ← kind; let b ← box; let nu ← flt; let rho ← flt; let c ← flt; let delta ← flt
    let bound ← flt; let c1 ← flt; let ds ← draws
    let cfg := hctCfg variance nu rho c delta bound c1
    let c1' := Float.pow (rho / (3 * nu)) (1.0 / 8)
    let note := if relClose c1 c1' then "ok" else s!"ERR ConstMismatch c1 impl={c1} model={c1'}"
    pure (match HCT.init cfg k b ds with
      | .ok (s, _) => (.ok { cfg, s }, note)
      | .error e => (.error e, note)) : Rd _).run' args

def hctStep (d : HctD) (cmd : String) (args : List String) : HctD × String :=
  match cmd with
  | "A.pull" | "A.last" =>
    match d.s.pull d.cfg with
    | .ok (s', v) => ({ d with s := s' }, ptStr s'.P v)
    | .error e => (d, s!"ERR {errName e}")
  | "A.recv" =>
    match (do let r ← flt; let ds ← draws; pure (r, ds) : Rd _).run' args with
    | .ok (r, ds) =>
      match d.s.receive d.cfg r ds with
      | .ok (s', _) => ({ d with s := s' }, "ok")
      | .error e => (d, s!"ERR {errName e}")
    | .error e => (d, s!"bad-op {e}")
  | "A.dump" =>
    let cur := nodeStrs d.s.P (tbStr d.cfg.variance)
    let path := match d.s.path with | some p => natList p | none => "-"
    let th := if d.cfg.variance then "-" else fList d.s.tauH
    ({ d with prev := cur },
     s!"it={d.s.iteration} path={path} tauh={th} depth={d.s.P.depth} layers={layersStr d.s.P.layers} nodes={deltaDump d.prev cur}")
  | _ => (d, "bad-op")

end PyXAB.Drv
