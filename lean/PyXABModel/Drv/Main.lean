import PyXABModel.Drv.Util
import PyXABModel.Drv.TreeBandit
import PyXABModel.Drv.Sweep
import PyXABModel.Drv.Meta
import PyXABModel.Drv.Zooming
import PyXABModel.Drv.VROOM
import PyXABModel.Drv.StroquOOL
import PyXABModel.Generated.ObjectivesFloat
namespace PyXAB.Drv

inductive DState where
  | none
  | part (P : Part Float Unit)
  | hoo (d : HooD)
  | hct (d : HctD)
  | soo (d : SooD)
  | doo (d : DooD)
  | sto (d : StoD)
  | sq (d : SqD)
  | poo (d : PooD)
  | gpo (d : GpoDD)
  | zoom (d : ZoomD)
  | vr (d : VrD)
  | sk (d : SkD)

def runRd {β} (r : Rd β) (toks : List String) : Except String β :=
  match r.run toks with
  | .ok (b, []) => .ok b
  | .ok (_, rest) => .error s!"trailing {rest}"
  | .error e => .error e

def partStep (st : DState) (cmd : String) (args : List String) : DState × String :=
  match cmd, st with
  | "P.init", _ =>
    match runRd (do let k ← kind; let b ← box; pure (k, b)) args with
    | .ok (k, b) => (.part (Part.init k b ()), "ok")
    | .error e => (st, s!"bad-op {e}")
  | "P.mk", .part P =>
    match runRd (do let p ← nat; let nl ← boolTok; let d ← draw; pure (p, nl, d)) args with
    | .ok (p, nl, d) =>
      match P.makeChildren () p nl d with
      | .ok P' => (.part P', "ok")
      | .error e => (st, s!"ERR {errName e}")
    | .error e => (st, s!"bad-op {e}")
  | "P.deepen", .part P =>
    match runRd draws args with
    | .ok ds =>
      match P.deepen () ds with
      | .ok (P', []) => (.part P', "ok")
      | .ok (_, _) => (st, "ERR DrawsLeft")
      | .error e => (st, s!"ERR {errName e}")
    | .error e => (st, s!"bad-op {e}")
  | "P.dump", .part P => (st, dumpPart P (fun _ => ""))
  | _, _ => (st, "bad-op")

def algoStep (st : DState) (cmd : String) (args : List String) : DState × String :=
  match cmd, st with
  | "HOO.init", _ =>
    match hooInit args with
    | .ok (.ok d) => (.hoo d, "ok")
    | .ok (.error e) => (.none, s!"ERR {errName e}")
    | .error e => (.none, s!"bad-op {e}")
  | "HCT.init", _ =>
    match hctInit args with
    | .ok (.ok d, note) => (.hct d, note)
    | .ok (.error e, _) => (.none, s!"ERR {errName e}")
    | .error e => (.none, s!"bad-op {e}")
  | "SOO.init", _ =>
    match sooInit args with
    | .ok d => (.soo d, "ok")
    | .error e => (.none, s!"bad-op {e}")
  | "DOO.init", _ =>
    match dooInit args with
    | .ok d => (.doo d, "ok")
    | .error e => (.none, s!"bad-op {e}")
  | "StoSOO.init", _ =>
    match stoInit args with
    | .ok (d, note) => (.sto d, note)
    | .error e => (.none, s!"bad-op {e}")
  | "SequOOL.init", _ =>
    match sqInit args with
    | .ok (d, note) => (.sq d, note)
    | .error e => (.none, s!"bad-op {e}")
  | "POO.init", _ =>
    match pooInit args with
    | .ok (d, note) => (.poo d, note)
    | .error e => (.none, s!"bad-op {e}")
  | "GPO.init", _ =>
    match gpoInit args with
    | .ok (d, note) => (.gpo d, note)
    | .error e => (.none, s!"bad-op {e}")
  | "Zooming.init", _ =>
    match zoomInit args with
    | .ok (.ok d) => (.zoom d, "ok")
    | .ok (.error e) => (.none, s!"ERR {errName e}")
    | .error e => (.none, s!"bad-op {e}")
  | "VROOM.init", _ =>
    match vrInit args with
    | .ok (.ok d, note) => (.vr d, note)
    | .ok (.error e, _) => (.none, s!"ERR {errName e}")
    | .error e => (.none, s!"bad-op {e}")
  | "StroquOOL.init", _ =>
    match skInit args with
    | .ok (d, note) => (.sk d, note)
    | .error e => (.none, s!"bad-op {e}")
  | _, .sk d => let (d', o) := skStep d cmd args; (.sk d', o)
  | _, .vr d => let (d', o) := vrStep d cmd args; (.vr d', o)
  | _, .zoom d => let (d', o) := zoomStep d cmd args; (.zoom d', o)
  | _, .poo d => let (d', o) := pooStep d cmd args; (.poo d', o)
  | _, .gpo d => let (d', o) := gpoStep d cmd args; (.gpo d', o)
  | _, .soo d => let (d', o) := sooStep d cmd args; (.soo d', o)
  | _, .doo d => let (d', o) := dooStep d cmd args; (.doo d', o)
  | _, .sto d => let (d', o) := stoStep d cmd args; (.sto d', o)
  | _, .sq d => let (d', o) := sqStep d cmd args; (.sq d', o)
  | _, .hoo d => let (d', o) := hooStep d cmd args; (.hoo d', o)
  | _, .hct d => let (d', o) := hctStep d cmd args; (.hct d', o)
  | _, _ => (st, "bad-op no-state")

/-- `O.eval <class> <np> params… <nx> coords…` : evaluate the translated objective at Float -/
def objStep (args : List String) : String :=
  match (do let name ← tok; let np ← nat; let ps ← rep np flt; let nx ← nat; let xs ← rep nx flt
            pure (name, ps, xs) : Rd _).run' args with
  | .ok (name, ps, xs) =>
    match ObjF.evalObj name ps xs with
    | some (.ok v) => s!"ok {fbits v}"
    | some (.error e) => s!"ERR {errName e}"
    | none => "bad-op unknown-objective"
  | .error e => s!"bad-op {e}"

def step (st : DState) (line : String) : DState × String :=
  match (line.trimAscii.toString.splitOn " ").filter (· ≠ "") with
  | [] => (st, "")
  | "case" :: rest => (.none, "case " ++ " ".intercalate rest)
  | cmd :: args =>
    if cmd == "O.eval" then (st, objStep args)
    else if cmd.startsWith "P." then partStep st cmd args else algoStep st cmd args

partial def loop (h : IO.FS.Stream) (out : IO.FS.Stream) (st : DState) : IO Unit := do
  let line ← h.getLine
  if line.isEmpty then return ()
  let (st', o) := step st line
  out.putStrLn o
  loop h out st'

def mainLoop : IO Unit := do
  let stdin ← IO.getStdin
  let stdout ← IO.getStdout
  loop stdin stdout .none
  stdout.flush

end PyXAB.Drv
