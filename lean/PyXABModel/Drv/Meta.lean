import PyXABModel.Drv.Util
import PyXABModel.Drv.TreeBandit
import PyXABModel.Model.Meta
namespace PyXAB.Drv

/-- a base learner inside POO/GPO: T_HOO or HCT/VHCT model with its formula record -/
inductive LearnerD where
  | hoo (d : HooD)
  | hct (d : HctD)

/-- constructor parameters handed to a new learner; `c1` is read from the real object -/
structure LParams where
  base : String          -- "T_HOO" | "HCT" | "VHCT"
  k : Kind
  domain : Box Float
  nu : Float
  rho : Float
  rounds : Nat
  c1 : Float

abbrev Pt := Nat × List Float

def learnerOps : LearnerOps LearnerD Float Float Pt LParams where
  create := fun p ds =>
    if p.base == "T_HOO" then
      let cfg := hooCfg p.nu p.rho p.rounds
      match HOO.init cfg p.k p.domain ds with
      | .ok (s, ds') => .ok (.hoo { cfg, s }, ds')
      | .error e => .error e
    else
      let cfg := hctCfg (p.base == "VHCT") p.nu p.rho 0.1 0.01 1.0 p.c1
      match HCT.init cfg p.k p.domain ds with
      | .ok (s, ds') => .ok (.hct { cfg, s }, ds')
      | .error e => .error e
  pull := fun l _ =>
    match l with
    | .hoo d =>
      match d.s.pull with
      | .ok (s', v) => .ok (.hoo { d with s := s' }, (v, match s'.P.nodes[v]? with | some nd => Box.cpoint nd.box | none => []))
      | .error e => .error e
    | .hct d =>
      match d.s.pull d.cfg with
      | .ok (s', v) => .ok (.hct { d with s := s' }, (v, match s'.P.nodes[v]? with | some nd => Box.cpoint nd.box | none => []))
      | .error e => .error e
  receive := fun l _ r ds =>
    match l with
    | .hoo d =>
      match d.s.receive d.cfg r ds with
      | .ok (s', ds') => .ok (.hoo { d with s := s' }, ds')
      | .error e => .error e
    | .hct d =>
      match d.s.receive d.cfg r ds with
      | .ok (s', ds') => .ok (.hct { d with s := s' }, ds')
      | .error e => .error e

def learnerDump (l : LearnerD) : LearnerD × String :=
  match l with
  | .hoo d => let (d', o) := hooStep d "A.dump" []; (.hoo d', o)
  | .hct d => let (d', o) := hctStep d "A.dump" []; (.hct d', o)

def ptS (p : Pt) : String := s!"pt {p.1} {fList p.2}"

/-! POO -/
structure PooD where
  base : String
  k : Kind
  domain : Box Float
  numax : Float
  rhomax : Float
  rounds : Nat
  dmax : Float
  s : POO LearnerD Float
  touched : Option Nat := none

def pooCfg (d : PooD) (c1 : Float) : POOCfg Float Float LParams where
  cond := fun N n => N.toFloat ≤ 0.5 * d.dmax * Float.log (n.toFloat / Float.log n.toFloat)
  rhoOf := fun N phase =>
    { base := d.base, k := d.k, domain := d.domain, nu := d.numax
      rho := Float.pow d.rhomax ((2 * N).toFloat / (2 * phase + 1).toFloat), rounds := d.rounds, c1 := c1 }
  upd := fun v k r => (v * k.toFloat + r) / (k + 1).toFloat
  zero := 0.0

def pooInit (args : List String) : Except String (PooD × String) :=
  (do let base ← tok; let k ← kind; let b ← box; let numax ← flt; let rhomax ← flt; let rounds ← nat; let dmax ← flt
      let dm' := Float.log 2 / Float.log (1 / rhomax)
      let note := if relClose dmax dm' then "ok" else s!"ERR ConstMismatch Dmax impl={dmax} model={dm'}"
      pure ({ base, k, domain := b, numax, rhomax, rounds, dmax, s := POO.init }, note) : Rd _).run' args

/-- optional trailing `c1 <bits>` (present when the real pull constructed a HCT/VHCT learner) -/
def optC1 : Rd Float := do
  match (← get) with
  | "c1" :: _ => let _ ← tok; flt
  | _ => pure 0.0

def pooDump (d : PooD) : PooD × String :=
  let s := d.s
  let (s', ldump) := match d.touched with
    | none => (s, "-")
    | some i =>
      match s.learners[i]? with
      | none => (s, "?")
      | some l => let (l', o) := learnerDump l; ({ s with learners := s.learners.set i l' }, s!"L{i}:" ++ o)
  ({ d with s := s' },
   s!"N={s.N} n={s.n} phase={s.phase} counter={s.counter} ac={optNat s.algoCounter} nl={s.learners.length} V={fList s.V} times={natList s.times} {ldump}")

def pooStep (d : PooD) (cmd : String) (args : List String) : PooD × String :=
  match cmd with
  | "A.pull" =>
    match (do let t ← nat; let ds ← draws; let c1 ← optC1; pure (t, ds, c1) : Rd _).run' args with
    | .ok (t, ds, c1) =>
      match d.s.pull learnerOps (pooCfg d c1) t ds with
      | .ok (s', [], i, pt) => ({ d with s := s', touched := some i }, ptS pt)
      | .ok (_, _, _, _) => (d, "ERR DrawsLeft")
      | .error e => (d, s!"ERR {errName e}")
    | .error e => (d, s!"bad-op {e}")
  | "A.recv" =>
    match (do let r ← flt; let ds ← draws; pure (r, ds) : Rd _).run' args with
    | .ok (r, ds) =>
      match d.s.receive learnerOps (pooCfg d 0.0) 0 r ds with
      | .ok (s', []) => ({ d with s := s' }, "ok")
      | .ok (_, _) => (d, "ERR DrawsLeft")
      | .error e => (d, s!"ERR {errName e}")
    | .error e => (d, s!"bad-op {e}")
  | "A.last" =>
    match d.s.lastPoint learnerOps with
    | .ok (s', i, pt) => ({ d with s := s', touched := some i }, ptS pt)
    | .error e => (d, s!"ERR {errName e}")
  | "A.dump" => pooDump d
  | _ => (d, "bad-op")

/-! GPO / PCT / VPCT -/
structure GpoD where
  base : String
  k : Kind
  domain : Box Float
  numax : Float
  rhomax : Float
  rounds : Nat
  nF : Float            -- N as the float the code holds
  s : GPO LearnerD Float Pt

def gpoCfg (d : GpoD) (half : Nat) (c1 : Float) : GPOCfg Float Float LParams where
  N := d.nF.toUInt64.toNat
  half := half
  rhoOf := fun phase =>
    { base := d.base, k := d.k, domain := d.domain, nu := d.numax
      rho := Float.pow d.rhomax (2 * d.nF / (2 * phase + 1).toFloat), rounds := d.rounds, c1 := c1 }
  upd := fun v k r => (v * k.toFloat + r) / (k + 1).toFloat
  zero := 0.0

structure GpoDD where
  d : GpoD
  half : Nat

def gpoInit (args : List String) : Except String (GpoDD × String) :=
  (do let base ← tok; let k ← kind; let b ← box; let numax ← flt; let rhomax ← flt; let rounds ← nat
      let nImpl ← flt; let halfImpl ← flt
      let dmax := Float.log 2 / Float.log (1 / rhomax)
      let r2 := rounds.toFloat / 2
      let pre := 0.5 * dmax * Float.log (r2 / Float.log r2)
      let nM := Float.ceil pre
      let halfM := Float.floor (rounds.toFloat / (2 * nImpl))
      let nearInt := (pre - Float.round pre).abs < 1e-9
      let note :=
        if (nM != nImpl && !nearInt) then s!"ERR ConstMismatch N impl={nImpl} model={nM}"
        else if halfM != halfImpl then s!"ERR ConstMismatch half impl={halfImpl} model={halfM}"
        else "ok"
      pure ({ d := { base, k, domain := b, numax, rhomax, rounds, nF := nImpl, s := GPO.init },
              half := halfImpl.toUInt64.toNat }, note) : Rd _).run' args

def gpoDump (g : GpoDD) : String :=
  let s := g.d.s
  let gx := match s.goodx with | some p => fList p.2 | none => "-"
  let lastVx := match s.Vx.getLast? with | some p => fList p.2 | none => "-"
  s!"phase={s.phase} counter={s.counter} created={s.created} goodx={gx} nVx={s.Vx.length} lastVx={lastVx} V={fList s.V}"

def gpoStep (g : GpoDD) (cmd : String) (args : List String) : GpoDD × String :=
  match cmd with
  | "A.pull" =>
    match (do let t ← nat; let ds ← draws; let c1 ← optC1; pure (t, ds, c1) : Rd _).run' args with
    | .ok (t, ds, c1) =>
      match g.d.s.pull learnerOps (gpoCfg g.d g.half c1) t ds with
      | .ok (s', [], pt) => ({ g with d := { g.d with s := s' } }, s!"pt {fList pt.2}")
      | .ok (_, _, _) => (g, "ERR DrawsLeft")
      | .error e => (g, s!"ERR {errName e}")
    | .error e => (g, s!"bad-op {e}")
  | "A.recv" =>
    match (do let r ← flt; let ds ← draws; pure (r, ds) : Rd _).run' args with
    | .ok (r, ds) =>
      match g.d.s.receive learnerOps (gpoCfg g.d g.half 0.0) 0 r ds with
      | .ok (s', []) => ({ g with d := { g.d with s := s' } }, "ok")
      | .ok (_, _) => (g, "ERR DrawsLeft")
      | .error e => (g, s!"ERR {errName e}")
    | .error e => (g, s!"bad-op {e}")
  | "A.last" =>
    match g.d.s.lastPoint with
    | .ok pt => (g, s!"pt {fList pt.2}")
    | .error e => (g, s!"ERR {errName e}")
  | "A.dump" =>
    let (curr', ld) := match g.d.s.curr with
      | none => (none, "-")
      | some l => let (l', o) := learnerDump l; (some l', o)
    ({ g with d := { g.d with s := { g.d.s with curr := curr' } } }, gpoDump g ++ " L:" ++ ld)
  | _ => (g, "bad-op")

end PyXAB.Drv
