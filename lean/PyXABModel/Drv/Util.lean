import PyXABModel.Model.Partition
import PyXABModel.Model.FloatInst
namespace PyXAB.Drv

def fbits (x : Float) : String := toString x.toBits.toNat
def pFloat (s : String) : Option Float := s.toNat?.map (fun n => Float.ofBits n.toUInt64)

def errName : Err → String
  | .indexError => "IndexError"
  | .noneDeref => "NoneDeref"
  | .valueError => "ValueError"
  | .badId => "BadId"
  | .noDraw => "NoDraw"
  | .outOfFuel => "OutOfFuel"
  | .returnedNone => "ReturnedNone"

/-- token reader -/
abbrev Rd := StateT (List String) (Except String)

def tok : Rd String := do
  match (← get) with
  | [] => throw "eol"
  | t :: ts => set ts; pure t
def nat : Rd Nat := do
  let t ← tok
  match t.toNat? with
  | some n => pure n
  | none => throw s!"nat? {t}"
def flt : Rd Float := do
  let t ← tok
  match pFloat t with
  | some x => pure x
  | none => throw s!"float? {t}"
def boolTok : Rd Bool := do return (← nat) != 0
def rep {β} (n : Nat) (r : Rd β) : Rd (List β) := do
  let mut out : Array β := #[]
  for _ in [0:n] do out := out.push (← r)
  return out.toList
def draw : Rd (Draw Float) := do
  let dim ← nat
  let k ← nat
  let pts ← rep k flt
  return { dim, pts }
def draws : Rd (List (Draw Float)) := do
  let n ← nat
  rep n draw
def kind : Rd Kind := do
  let t ← tok
  let K ← nat
  match t with
  | "binary" => pure .binary
  | "randBinary" => pure .randBinary
  | "dimBinary" => pure .dimBinary
  | "kary" => pure (.kary K)
  | "randKary" => pure (.randKary K)
  | _ => throw s!"kind? {t}"
def box : Rd (Box Float) := do
  let d ← nat
  rep d (do let lo ← flt; let hi ← flt; pure ⟨lo, hi⟩)

def natList (l : List Nat) : String := "[" ++ ",".intercalate (l.map toString) ++ "]"
def optNat : Option Nat → String
  | none => "-"
  | some n => toString n
def optNatList : Option (List Nat) → String
  | none => "-"
  | some l => natList l
def boxStr (b : Box Float) : String :=
  "[" ++ ",".intercalate (b.map fun i => fbits i.lo ++ ":" ++ fbits i.hi) ++ "]"
def fList (l : List Float) : String := "[" ++ ",".intercalate (l.map fbits) ++ "]"

/-- canonical dump of the partition skeleton; `stStr` renders the algorithm-specific part -/
def dumpPart {σ} (P : Part Float σ) (stStr : σ → String) : String :=
  let nodes := P.nodes.mapIdx fun i nd =>
    s!"{i}:{nd.depth}:{nd.index}:{optNat nd.parent}:{optNatList nd.children}:{boxStr nd.box}:{stStr nd.st}"
  s!"depth={P.depth} layers=[{",".intercalate (P.layers.map natList)}] nodes={" ".intercalate nodes}"

end PyXAB.Drv
