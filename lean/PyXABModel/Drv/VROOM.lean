import PyXABModel.Drv.Util
import PyXABModel.Drv.TreeBandit
import PyXABModel.Model.VROOM
namespace PyXAB.Drv

structure VrD where
  cfg : VrCfg Float Float
  s : VROOM Float Float Float
  prev : Array String := #[]

def vrStr (s : VrSt Float Float) : String :=
  let lr := match s.rewards.getLast? with | some r => fbits r | none => "-"
  let lt := match s.tilde.getLast? with | some r => fbits r | none => "-"
  s!"{s.rewards.length}:{lr}:{s.ranks.length}:{optNat s.ranks.getLast?}:{s.tilde.length}:{lt}"

def vrConst (sd : Nat) : Float := Id.run do
  let mut c : Float := 0.0
  for h in [1:sd+1] do
    for l in [1:2^h+1] do
      c := c + 1.0 / (h * l).toFloat
  return c

def vrInit (args : List String) : Except String (Except Err VrD × String) :=
  (do let k ← kind; let bx ← box; let n ← nat; let sd ← nat; let hmax ← nat; let b ← flt; let fmax ← flt
      let L1 ← flt; let L2 ← flt; let constI ← flt; let ds ← draws
      let delta := 4 * b / (fmax * Float.sqrt n.toFloat)
      let const := vrConst sd
      let L1' := Float.log (4 * (n ^ 3).toFloat / delta)
      let L2' := Float.log (2 * (n ^ 2).toFloat / delta)
      let note :=
        if !(2 ^ sd ≤ n && n < 2 ^ (sd + 1)) then s!"ERR ConstMismatch search_depth impl={sd} n={n}"
        else if const != constI then s!"ERR ConstMismatch const impl={constI} model={const}"
        else if !(relClose L1 L1' && relClose L2 L2') then s!"ERR ConstMismatch log terms"
        else "ok"
      let cfg : VrCfg Float Float :=
        { negInf := fNegInf, sd := sd, hmax := hmax
          lcb := fun rs => if rs.isEmpty then fNegInf else npMean rs - Float.sqrt (L1 / (2 * rs.length).toFloat)
          probOf := fun h rank => 1.0 / ((h * rank).toFloat * const)
          pzero := 0.0, pone := 1.0, padd := fun a b => a + b
          tildeOf := fun r p i => r / (p / (2 ^ i).toFloat)
          probOK := fun ps => ((ps.foldl (· + ·) 0.0) - 1.0).abs ≤ 1.4901161193847656e-08
          value := fun rs tl rk =>
            let t := if tl.isEmpty then fNegInf else npSum rs
            let sr := (rk.foldl (· + ·) 0).toFloat
            t - fmax * Float.sqrt ((2 * n).toFloat * const * L2 * sr) + fmax * const * (L2 / 3) }
      pure (match VROOM.init cfg k bx ds with
        | .ok (s, []) => (.ok { cfg, s }, note)
        | .ok (_, _) => (.error .noDraw, "ERR DrawsLeft")
        | .error e => (.error e, note)) : Rd _).run' args

def vdraw : Rd (VDraw Float) := do
  let choice ← nat
  let ns ← nat
  let steps ← rep ns (do
    let has ← boolTok
    let d ← (if has then do let d ← draw; pure (some d) else pure none)
    let sign ← nat
    pure (d, sign))
  let np ← nat
  let pt ← rep np flt
  return { choice, steps, pt }

def vrStep (d : VrD) (cmd : String) (args : List String) : VrD × String :=
  match cmd with
  | "A.pull" =>
    match (do let t ← nat; let dr ← vdraw; pure (t, dr) : Rd _).run' args with
    | .ok (t, dr) =>
      match d.s.pull d.cfg t dr with
      | .ok (s', last, pt) => ({ d with s := s' }, s!"pt {last} {fList pt}")
      | .error e => (d, s!"ERR {errName e}")
    | .error e => (d, s!"bad-op {e}")
  | "A.recv" =>
    match (do let r ← flt; let _ ← draws; pure r : Rd _).run' args with
    | .ok r =>
      match d.s.receive d.cfg r with
      | .ok s' => ({ d with s := s' }, "ok")
      | .error e => (d, s!"ERR {errName e}")
    | .error e => (d, s!"bad-op {e}")
  | "A.last" =>
    match vdraw.run' args with
    | .ok dr =>
      match d.s.lastPoint d.cfg dr with
      | .ok (s', _, last, pt) => ({ d with s := s' }, s!"pt {last} {fList pt}")
      | .error e => (d, s!"ERR {errName e}")
    | .error e => (d, s!"bad-op {e}")
  | "A.dump" =>
    let cur := nodeStrs d.s.P vrStr
    let s := d.s
    let psum := s.prob.foldl (· + ·) 0.0
    ({ d with prev := cur },
     s!"it={s.iteration} curr={optNat s.curr} ul={natList s.updateList} nprob={s.prob.length} psum={fbits psum} depth={s.P.depth} layers={layersStr s.P.layers} nodes={deltaDump d.prev cur}")
  | _ => (d, "bad-op")

end PyXAB.Drv
