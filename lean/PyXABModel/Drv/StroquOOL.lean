import PyXABModel.Drv.Util
import PyXABModel.Drv.TreeBandit
import PyXABModel.Drv.Sweep
import PyXABModel.Model.StroquOOL
namespace PyXAB.Drv

structure SkD where
  cfg : SkCfg Float Float
  s : StroquOOL Float Float Float
  prev : Array String := #[]

def skStr (s : SkSt Float Float) : String :=
  let last := match s.rewards.getLast? with | some r => fbits r | none => "-"
  s!"{s.visited}:{b01 s.opened}:{s.rewards.length}:{last}:{fbits s.mean}"

def skInit (args : List String) : Except String (SkD × String) :=
  (do let k ← kind; let b ← box; let n ← nat; let hImpl ← nat; let pImpl ← nat
      let hs := harmonic n + 1.0
      let hmax := (Float.floor (n.toFloat / (2.0 * Float.pow hs 2.0))).toUInt64.toNat
      let note := if hmax != hImpl then s!"ERR ConstMismatch h_max impl={hImpl} model={hmax}"
                  else if Nat.log2 hmax != pImpl then s!"ERR ConstMismatch p_max impl={pImpl} model={Nat.log2 hmax}" else "ok"
      let cfg : SkCfg Float Float :=
        { negInf := fNegInf, hmax := hmax, pmax := pImpl, meanOf := fun rs => npSum rs / rs.length.toFloat }
      pure ({ cfg, s := StroquOOL.init cfg k b }, note) : Rd _).run' args

def optOptNatList (l : List (Option Nat)) : String :=
  "[" ++ ",".intercalate (l.map optNat) ++ "]"

def skStep (d : SkD) (cmd : String) (args : List String) : SkD × String :=
  match cmd with
  | "A.pull" =>
    match timeDraws.run' args with
    | .ok (t, ds) =>
      match d.s.pull d.cfg t ds with
      | .ok (s', [], v) => ({ d with s := s' }, ptStr s'.P v)
      | .ok (_, _, _) => (d, "ERR DrawsLeft")
      | .error e => (d, s!"ERR {errName e}")
    | .error e => (d, s!"bad-op {e}")
  | "A.recv" =>
    match (do let r ← flt; let _ ← draws; pure r : Rd _).run' args with
    | .ok r => ({ d with s := d.s.receive r }, "ok")
    | .error e => (d, s!"bad-op {e}")
  | "A.last" =>
    match d.s.lastPoint d.cfg with
    | .ok (s', v) => ({ d with s := s' }, ptStr s'.P v)
    | .error e => (d, s!"ERR {errName e}")
  | "A.dump" =>
    let cur := nodeStrs d.s.P skStr
    let s := d.s
    ({ d with prev := cur },
     s!"it={s.iteration} cd={s.currDepth} cp={s.currP} nchosen={s.chosen.length} ts={s.timeStamp} cand={optOptNatList s.candidate} loc={s.currLoc} curr={s.curr} eval={b01 s.eval} max={optNat s.maxNode} end={b01 s.ended} depth={s.P.depth} layers={layersStr s.P.layers} nodes={deltaDump d.prev cur}")
  | _ => (d, "bad-op")

end PyXAB.Drv
