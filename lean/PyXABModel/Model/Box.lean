/-
  Model of PyXAB/partition/Node.py (geometry part) and of the child-box computation of the
  five partition classes.  Core Lean only (no imports): the same definitions are executed at
  `Float` by the driver and reasoned about over ordered fields in `Props/`.
-/
namespace PyXAB

/-- One coordinate range `[lo, hi]` of a cell (`domain[dim]` in the Python code). -/
structure Iv (α : Type) where
  lo : α
  hi : α
deriving Repr, BEq, DecidableEq, Inhabited

/-- A cell: one interval per dimension (`P_node.domain`). -/
abbrev Box (α : Type) := List (Iv α)

section geometry
variable {α : Type} [Add α] [Sub α] [Mul α] [Div α] [OfNat α 2] [NatCast α]

/-- `(a + b) / 2`, the expression used by `P_node.__init__`, `BinaryPartition` and
`DimensionBinaryPartition`. -/
def mid (a b : α) : α := (a + b) / 2

def Iv.mid (i : Iv α) : α := PyXAB.mid i.lo i.hi

/-- `P_node.c_point`. -/
def Box.cpoint (b : Box α) : List α := b.map Iv.mid

/-- consecutive pairs of a boundary list -/
def chainIvs : List α → List (Iv α)
  | a :: b :: rest => ⟨a, b⟩ :: chainIvs (b :: rest)
  | _ => []

/-- Generic single-dimension split: interval `dim` of `b` is replaced by the consecutive
intervals of `lo :: pts ++ [hi]`. An out-of-range `dim` gives no children (the Python code
would raise `IndexError`; `np.random.randint(0, d)` never produces one). -/
def splitChain (b : Box α) (dim : Nat) (pts : List α) : List (Box α) :=
  match b[dim]? with
  | none => []
  | some iv => (chainIvs (iv.lo :: (pts ++ [iv.hi]))).map (fun i => b.set dim i)

/-- interior boundary points of `np.linspace(lo, hi, num=K+1)`: `i * ((hi - lo) / K) + lo`
for `i = 1 .. K-1` (NumPy's operation order; the first and last boundaries are `lo`, `hi`). -/
def linspacePts (lo hi : α) (K : Nat) : List α :=
  (List.range' 1 (K - 1)).map (fun (i : Nat) => (i : α) * ((hi - lo) / (K : α)) + lo)

def Iv.lower (i : Iv α) : Iv α := ⟨i.lo, i.mid⟩
def Iv.upper (i : Iv α) : Iv α := ⟨i.mid, i.hi⟩

/-- `DimensionBinaryPartition`: all `2^d` products of halves; child `i` takes the upper half
in dimension `j` iff bit `j` of `i` is set (so dimension 0 alternates fastest). -/
def splitAll : Box α → List (Box α)
  | [] => [[]]
  | iv :: rest => (splitAll rest).flatMap (fun r => [iv.lower :: r, iv.upper :: r])

end geometry

/-- The five partition classes. -/
inductive Kind where
  | binary | randBinary | dimBinary
  | kary (K : Nat) | randKary (K : Nat)
deriving Repr, BEq, DecidableEq, Inhabited

/-- The random choices consumed by one `make_children` call: the `np.random.randint` split
dimension (ignored by `dimBinary`) and the `np.random.uniform` split points (one for
`randBinary`, `K-1` for `randKary`, none otherwise). -/
structure Draw (α : Type) where
  dim : Nat
  pts : List α
deriving Repr, Inhabited

section kinds
variable {α : Type} [Add α] [Sub α] [Mul α] [Div α] [OfNat α 2] [NatCast α]

/-- Children boxes created by `make_children` of each class, in child-list order. -/
def childBoxes (k : Kind) (b : Box α) (d : Draw α) : List (Box α) :=
  match k with
  | .binary => match b[d.dim]? with
      | none => []
      | some iv => splitChain b d.dim [iv.mid]
  | .randBinary => splitChain b d.dim (d.pts.take 1)
  | .dimBinary => splitAll b
  | .kary K => match b[d.dim]? with
      | none => []
      | some iv => splitChain b d.dim (linspacePts iv.lo iv.hi K)
  | .randKary K => splitChain b d.dim (d.pts.take (K - 1))

/-- Index label of child `j` (0-based position in the child list) of a parent with index `i`,
each class's own formula, `dimn` = dimension of the box. -/
def childIndex (k : Kind) (dimn : Nat) (i j : Nat) : Nat :=
  match k with
  | .binary | .randBinary => if j = 0 then 2 * i - 1 else 2 * i
  | .dimBinary => 2 ^ dimn * (i - 1) + j + 1
  | .kary K | .randKary K => K * i - (K - j - 1)

/-- documented arity -/
def Kind.arity (k : Kind) (dimn : Nat) : Nat :=
  match k with
  | .binary | .randBinary => 2
  | .dimBinary => 2 ^ dimn
  | .kary K | .randKary K => K

end kinds
end PyXAB
