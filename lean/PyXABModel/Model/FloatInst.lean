/-
  `Float` instances and NumPy-faithful reductions used when the models are *executed*
  (driver only; no theorem mentions this file).
-/
import PyXABModel.Model.Box
namespace PyXAB

instance : NatCast Float := ⟨Float.ofNat⟩

def fInf : Float := 1.0 / 0.0
def fNegInf : Float := -1.0 / 0.0

/-- NumPy's pairwise summation kernel (`pairwise_sum_DOUBLE`) on `a[off .. off+n)`. -/
partial def npPairwise (a : Array Float) (off n : Nat) : Float :=
  if n < 8 then Id.run do
    let mut res : Float := -0.0
    for i in [0:n] do res := res + a[off + i]!
    return res
  else if n ≤ 128 then Id.run do
    let mut r0 := a[off]!
    let mut r1 := a[off+1]!
    let mut r2 := a[off+2]!
    let mut r3 := a[off+3]!
    let mut r4 := a[off+4]!
    let mut r5 := a[off+5]!
    let mut r6 := a[off+6]!
    let mut r7 := a[off+7]!
    let m := n - n % 8
    let mut i := 8
    while i < m do
      r0 := r0 + a[off+i]!
      r1 := r1 + a[off+i+1]!
      r2 := r2 + a[off+i+2]!
      r3 := r3 + a[off+i+3]!
      r4 := r4 + a[off+i+4]!
      r5 := r5 + a[off+i+5]!
      r6 := r6 + a[off+i+6]!
      r7 := r7 + a[off+i+7]!
      i := i + 8
    let mut res := ((r0 + r1) + (r2 + r3)) + ((r4 + r5) + (r6 + r7))
    while i < n do
      res := res + a[off+i]!
      i := i + 1
    return res
  else
    let n2 := n / 2
    let n2 := n2 - n2 % 8
    npPairwise a off n2 + npPairwise a (off + n2) (n - n2)

/-- `np.sum(np.array(xs))` for a float64 array. -/
def npSum (xs : List Float) : Float :=
  let a := xs.toArray
  0.0 + npPairwise a 0 a.size

/-- `np.average` / `np.mean` -/
def npMean (xs : List Float) : Float := npSum xs / Float.ofNat xs.length

/-- `np.var` (population variance, NumPy's two-pass formula) -/
def npVar (xs : List Float) : Float :=
  let m := npMean xs
  npSum (xs.map fun x => (x - m) * (x - m)) / Float.ofNat xs.length

end PyXAB
