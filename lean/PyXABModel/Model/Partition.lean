/-
  Model of PyXAB/partition/Partition.py + the bookkeeping half of every `make_children`:
  an arena of nodes (id = creation order, root = 0), the per-depth lists `node_list`
  (`layers`) and the reported `depth`.  Misuse (expanding a non-leaf, wrong `newlayer`
  flag) is modelled as the code behaves, not rejected.
-/
import PyXABModel.Model.Box
namespace PyXAB

/-- Python exceptions the models can produce. -/
inductive Err where
  | indexError      -- list index out of range
  | noneDeref       -- attribute access on `None` / missing attribute (AttributeError/TypeError)
  | valueError
  | badId           -- model-internal: dangling node id (never produced from a reachable state)
  | noDraw          -- model-internal: draw stream exhausted
  | outOfFuel       -- an unbounded Python loop made no progress (maps to a hang)
  | returnedNone    -- `pull` fell off the end of the function and returned `None`
deriving Repr, BEq, DecidableEq, Inhabited

/-- A node of the partition tree. `st` is the algorithm-specific part of the node class. -/
structure Node (α σ : Type) where
  depth : Nat
  index : Nat
  parent : Option Nat
  children : Option (List Nat)
  box : Box α
  st : σ
deriving Repr, Inhabited

structure Part (α σ : Type) where
  kind : Kind
  nodes : List (Node α σ)
  layers : List (List Nat)
  depth : Nat
deriving Repr, Inhabited

namespace Part
variable {α σ : Type}

/-- `Partition.__init__` -/
def init (k : Kind) (domain : Box α) (s0 : σ) : Part α σ :=
  { kind := k
    nodes := [{ depth := 0, index := 1, parent := none, children := none, box := domain, st := s0 }]
    layers := [[0]]
    depth := 0 }

def node? (P : Part α σ) (i : Nat) : Option (Node α σ) := P.nodes[i]?

def isLeaf (P : Part α σ) (i : Nat) : Bool :=
  match P.nodes[i]? with
  | some nd => nd.children.isNone
  | none => false

def modifyNode (P : Part α σ) (i : Nat) (f : Node α σ → Node α σ) : Part α σ :=
  { P with nodes := P.nodes.modify i f }

def modifySt (P : Part α σ) (i : Nat) (f : σ → σ) : Part α σ :=
  P.modifyNode i (fun nd => { nd with st := f nd.st })

section mk
variable [Add α] [Sub α] [Mul α] [Div α] [OfNat α 2] [NatCast α]

/-- The new nodes created by splitting node `p` (value `nd`). -/
def newKids (k : Kind) (p : Nat) (nd : Node α σ) (s0 : σ) (d : Draw α) : List (Node α σ) :=
  (childBoxes k nd.box d).mapIdx fun j b =>
    { depth := nd.depth + 1
      index := childIndex k nd.box.length nd.index j
      parent := some p
      children := none
      box := b
      st := s0 }

/-- `make_children(parent, newlayer)` of every partition class. -/
def makeChildren (P : Part α σ) (s0 : σ) (p : Nat) (newlayer : Bool) (d : Draw α) :
    Except Err (Part α σ) :=
  match P.nodes[p]? with
  | none => .error .badId
  | some nd =>
    let kids := newKids P.kind p nd s0 d
    let n := P.nodes.length
    let ids := List.range' n kids.length
    let nodes' := P.nodes.set p { nd with children := some ids } ++ kids
    if newlayer then
      .ok { P with nodes := nodes', layers := P.layers ++ [ids], depth := P.depth + 1 }
    else if nd.depth + 1 < P.layers.length then
      .ok { P with nodes := nodes', layers := P.layers.modify (nd.depth + 1) (· ++ ids) }
    else .error .indexError

/-- One draw per `make_children` call; `none` when the recorded stream is exhausted. -/
def popDraw : List (Draw α) → Except Err (Draw α × List (Draw α))
  | [] => .error .noDraw
  | d :: ds => .ok (d, ds)

/-- `make_children` taking its random choices from the front of a draw list. -/
def makeChildrenD (P : Part α σ) (s0 : σ) (p : Nat) (newlayer : Bool) (ds : List (Draw α)) :
    Except Err (Part α σ × List (Draw α)) := do
  let (d, ds') ← popDraw ds
  let P' ← P.makeChildren s0 p newlayer d
  return (P', ds')

/-- The expansion discipline used by the tree bandits (`expand` in HOO/HCT/VHCT). -/
def expand (P : Part α σ) (s0 : σ) (p : Nat) (ds : List (Draw α)) :
    Except Err (Part α σ × List (Draw α)) :=
  match P.nodes[p]? with
  | none => .error .badId
  | some nd => P.makeChildrenD s0 p (decide (nd.depth ≥ P.depth)) ds

/-- `Partition.deepen`: the ids of the deepest layer are read once per iteration from the
current `node_list[depth]` with the *initial* depth, as the Python loop does. -/
def deepenLoop (s0 : σ) (depth0 : Nat) : Nat → Nat → Part α σ → List (Draw α) →
    Except Err (Part α σ × List (Draw α))
  | 0, _, P, ds => .ok (P, ds)
  | fuel + 1, i, P, ds =>
    match P.layers[depth0]? with
    | none => .error .indexError
    | some layer =>
      match layer[i]? with
      | none => .error .indexError
      | some p => do
        let (P', ds') ← P.makeChildrenD s0 p (i == 0) ds
        deepenLoop s0 depth0 fuel (i + 1) P' ds'

def deepen (P : Part α σ) (s0 : σ) (ds : List (Draw α)) : Except Err (Part α σ × List (Draw α)) :=
  match P.layers[P.depth]? with
  | none => .error .indexError
  | some layer => deepenLoop s0 P.depth layer.length 0 P ds

end mk
end Part
end PyXAB
