/-
  Model of PyXAB/algos/VROOM.py.
-/
import PyXABModel.Model.Partition
import PyXABModel.Model.TreeBandit
namespace PyXAB

/-- Algorithm part of `VROOM_node`. -/
structure VrSt (R S : Type) where
  rewards : List R
  ranks : List Nat
  tilde : List S
deriving Repr, Inhabited

structure VrCfg (R S : Type) where
  negInf : S
  sd : Nat                              -- search_depth = floor(log2 n)
  hmax : Nat                            -- min(h_max, n)
  lcb : List R → S                      -- rank key: −∞ if unevaluated, else mean − sqrt(ln(4n³/δ)/(2·evals))
  probOf : Nat → Nat → S                -- h, rank ↦ 1/(h·rank·const)
  pzero : S
  pone : S
  padd : S → S → S
  tildeOf : R → S → Nat → S             -- reward, prob, i ↦ reward / (prob / 2^i)
  value : List R → List S → List Nat → S  -- rewards, reward_tilde, ranks ↦ recommendation score
  probOK : List S → Bool                -- `np.random.choice` accepts the weights (they sum to 1)

/-- random choices of one `pull` / `get_last_point`: the index drawn by `np.random.choice`, per
descent step the draw of `make_children` (when the cell had to be split) and the child sign,
and the `np.random.uniform` coordinates of `sample_uniform`. -/
structure VDraw (α : Type) where
  choice : Nat
  steps : List (Option (Draw α) × Nat)
  pt : List α
deriving Inhabited

structure VROOM (α R S : Type) where
  P : Part α (VrSt R S)
  iteration : Nat
  prob : List S
  curr : Option Nat
  updateList : List Nat

namespace VROOM
variable {α R S : Type} [Add α] [Sub α] [Mul α] [Div α] [OfNat α 2] [NatCast α]
variable [LE S] [DecidableLE S] [Inhabited S] [Inhabited R]

def st0 : VrSt R S := { rewards := [], ranks := [], tilde := [] }

/-- `while depth < search_depth: deepen()` -/
def deepenTo (sd : Nat) : Nat → Part α (VrSt R S) → List (Draw α) → Except Err (Part α (VrSt R S) × List (Draw α))
  | 0, P, ds => if P.depth < sd then .error .outOfFuel else .ok (P, ds)
  | fuel + 1, P, ds =>
    if P.depth < sd then do
      let (P', ds') ← P.deepen st0 ds
      deepenTo sd fuel P' ds'
    else .ok (P, ds)

def init (cfg : VrCfg R S) (k : Kind) (domain : Box α) (ds : List (Draw α)) :
    Except Err (VROOM α R S × List (Draw α)) := do
  let (P, ds') ← deepenTo cfg.sd (cfg.sd + 1) (Part.init k domain st0) ds
  return ({ P := P, iteration := 0, prob := [], curr := none, updateList := [] }, ds')

/-- insert `x` after all elements whose key is `≥` its key (stable descending order) -/
def insertDesc (key : Nat → S) (x : Nat) : List Nat → List Nat
  | [] => [x]
  | y :: ys => if key x ≤ key y then y :: insertDesc key x ys else x :: y :: ys

/-- `sorted(nodes, key=rank_fun, reverse=True)` (stable) -/
def sortDesc (key : Nat → S) (l : List Nat) : List Nat := l.foldl (fun acc x => insertDesc key x acc) []

/-- `self.rank(node_list[h])`: append rank `i+1` to the `i`-th cell in descending key order -/
def rankLayer (cfg : VrCfg R S) (P : Part α (VrSt R S)) (layer : List Nat) : Part α (VrSt R S) :=
  let sorted := sortDesc (fun id => cfg.lcb (P.stOf id).rewards) layer
  (sorted.zipIdx).foldl (fun P (id, i) => P.modifySt id (fun st => { st with ranks := st.ranks ++ [i + 1] })) P

/-- ranking stage: returns the tree with ranks appended, the index list and the weights -/
def rankAll (cfg : VrCfg R S) (P : Part α (VrSt R S)) :
    Except Err (Part α (VrSt R S) × List (Nat × Nat) × List S) :=
  (List.range' 1 cfg.sd).foldlM (fun (acc : Part α (VrSt R S) × List (Nat × Nat) × List S) h =>
    let (P, index, prob) := acc
    match P.layers[h]? with
    | none => .error .indexError
    | some layer =>
      let P' := rankLayer cfg P layer
      let entries := layer.zipIdx.map (fun (id, l) =>
        ((h, l), cfg.probOf h ((P'.stOf id).ranks.getLast?.getD 0)))
      .ok (P', index ++ entries.map (·.1), prob ++ entries.map (·.2))) (P, [], [])

/-- the descent `while h < h_max` below the drawn / recommended cell -/
def descentLoop (hmax : Nat) :
    List (Option (Draw α) × Nat) → Nat → Nat → List Nat → Part α (VrSt R S) →
    Except Err (Part α (VrSt R S) × Nat × List Nat)
  | steps, h, node, ul, P =>
    if h < hmax then
      match steps with
      | [] => .error .noDraw
      | (od, sign) :: rest =>
        match P.nodes[node]? with
        | none => .error .badId
        | some nd => do
          let P1 ← (match nd.children, od with
            | none, some d => P.makeChildren st0 node (decide (h ≥ P.depth)) d
            | none, none => .error .noDraw
            | some _, _ => .ok P)
          match P1.nodes[node]? with
          | none => .error .badId
          | some nd1 =>
            match nd1.children with
            | none => .error .noneDeref
            | some cs =>
              match cs[sign]? with
              | none => .error .indexError
              | some c => descentLoop hmax rest (h + 1) c (ul ++ [c]) P1
    else .ok (P, node, ul)
termination_by steps _ _ _ _ => steps.length

def pull (cfg : VrCfg R S) (s : VROOM α R S) (time : Nat) (dr : VDraw α) :
    Except Err (VROOM α R S × Nat × List α) := do
  let (P1, index, prob) ← rankAll cfg s.P
  if !cfg.probOK prob then .error .valueError else
  match index[dr.choice]? with
  | none => .error .indexError
  | some (h, l) =>
    match P1.layers[h]? with
    | none => .error .indexError
    | some layer =>
      match layer[l]? with
      | none => .error .indexError
      | some node =>
        let (P2, last, ul) ← descentLoop cfg.hmax dr.steps h node [node] P1
        return ({ s with P := P2, iteration := time, prob := prob, curr := some node, updateList := ul }, last, dr.pt)

/-- cumulative weight of layers `1..depth` as `receive_reward` computes it -/
def cumProb (cfg : VrCfg R S) (probs : List S) (depth : Nat) : Except Err S :=
  let rec go : Nat → Nat → Nat → S → Except Err S
    | 0, _, _, p => .ok p
    | fuel + 1, h, idx, p =>
      if h ≤ depth then
        match (List.range (2 ^ h)).foldlM (fun (acc : S × Nat) _ =>
            match probs[acc.2]? with
            | none => Except.error Err.indexError
            | some q => .ok (cfg.padd acc.1 q, acc.2 + 1)) (p, idx) with
        | .error e => .error e
        | .ok (p', idx') =>
          if idx' ≥ probs.length then .ok cfg.pone else go fuel (h + 1) idx' p'
      else .ok p
  go depth 1 0 cfg.pzero

def receive (cfg : VrCfg R S) (s : VROOM α R S) (r : R) : Except Err (VROOM α R S) := do
  let P ← (s.updateList.zipIdx).foldlM (fun P (id, i) =>
    match P.nodes[id]? with
    | none => .error .badId
    | some nd => do
      let p ← cumProb cfg s.prob nd.depth
      pure (P.modifySt id (fun st =>
        { st with rewards := st.rewards ++ [r], tilde := st.tilde ++ [cfg.tildeOf r p i] }))) s.P
  return { s with P := P }

/-- `get_last_point`: last listed cell with maximal score, then a random descent to `h_max`. -/
def lastPoint (cfg : VrCfg R S) (s : VROOM α R S) (dr : VDraw α) :
    Except Err (VROOM α R S × Nat × Nat × List α) := do
  let best := ((s.P.layers.zipIdx).foldl (fun (acc : S × Option (Nat × Nat)) (layer, h) =>
    layer.foldl (fun acc id =>
      match s.P.nodes[id]? with
      | none => acc
      | some nd =>
        let v := cfg.value nd.st.rewards nd.st.tilde nd.st.ranks
        if acc.1 ≤ v then (v, some (id, h)) else acc) acc) (cfg.negInf, none)).2
  match best with
  | none => .error .noneDeref
  | some (node, h) =>
    let (P2, last, _) ← descentLoop cfg.hmax dr.steps h node [node] s.P
    return ({ s with P := P2 }, node, last, dr.pt)

end VROOM
end PyXAB
