/-
  Model of PyXAB/algos/Zooming.py.
-/
import PyXABModel.Model.Partition
namespace PyXAB

/-- An active arm: its point, the cell it is responsible for, its pull count and mean. -/
structure Arm (α S : Type) where
  pt : List α
  cell : Nat
  pulls : Nat
  avg : S
deriving Repr, Inhabited

structure ZoomCfg (R S : Type) where
  negInf : S
  zero : S
  indexOf : S → Nat → Nat → S        -- avg, phase, pulls ↦ avg + 2·sqrt(8·phase/(2+pulls))
  upd : S → Nat → R → S              -- avg, pulls, r ↦ (avg·pulls + r)/(pulls+1)
  refine : Nat → Nat → Nat → Bool    -- phase, pulls, depth ↦ sqrt(8·phase/(2+pulls)) ≤ ν·ρ^depth

structure Zooming (α S : Type) where
  P : Part α Unit
  arms : List (Arm α S)              -- insertion order of the `active_points` dict
  phase : Nat
  nextEnd : Nat
  time : Nat
  best : Option Nat                  -- index of `best_arm` in `arms`

namespace Zooming
variable {α R S : Type} [Add α] [Sub α] [Mul α] [Div α] [OfNat α 2] [NatCast α]
variable [LE α] [DecidableLE α] [LE S] [DecidableLE S] [Inhabited S]

/-- closed containment test used in `receive_reward` -/
def contains (b : Box α) (x : List α) : Bool :=
  (b.zip x).all (fun (iv, c) => decide (iv.lo ≤ c) && decide (c ≤ iv.hi))

def newArm (cfg : ZoomCfg R S) (P : Part α Unit) (cell : Nat) : Arm α S :=
  { pt := match P.nodes[cell]? with | some nd => Box.cpoint nd.box | none => []
    cell := cell, pulls := 0, avg := cfg.zero }

/-- `Zooming.__init__`: one `deepen()`, then an arm at the centre of every depth-1 cell. -/
def init (cfg : ZoomCfg R S) (k : Kind) (domain : Box α) (ds : List (Draw α)) :
    Except Err (Zooming α S × List (Draw α)) := do
  let P0 : Part α Unit := Part.init k domain ()
  let (P1, ds') ← P0.deepen () ds
  match P1.layers[1]? with
  | none => .error .indexError
  | some layer =>
    return ({ P := P1, arms := layer.map (newArm cfg P1), phase := 1, nextEnd := 2, time := 0, best := none }, ds')

/-- last arm (in insertion order) with maximal index -/
def argmaxArm (cfg : ZoomCfg R S) (phase : Nat) (arms : List (Arm α S)) : Option Nat :=
  ((arms.foldl (fun (acc : Nat × S × Option Nat) a =>
      let (i, mx, bi) := acc
      let v := cfg.indexOf a.avg phase a.pulls
      if mx ≤ v then (i + 1, v, some i) else (i + 1, mx, bi)) (0, cfg.negInf, none))).2.2

def pull (cfg : ZoomCfg R S) (s : Zooming α S) : Except Err (Zooming α S × Nat × List α) :=
  match argmaxArm cfg s.phase s.arms with
  | none => .error .noneDeref
  | some i =>
    match s.arms[i]? with
    | none => .error .badId
    | some a => .ok ({ s with best := some i }, i, a.pt)

/-- distribute the children of the refined cell: the first child containing the arm keeps it,
every other child gets a fresh arm at its centre -/
def assign (cfg : ZoomCfg R S) (P : Part α Unit) (pt : List α) :
    List Nat → Bool → Option Nat → List (Arm α S) → Option Nat × List (Arm α S)
  | [], _, cell, fresh => (cell, fresh)
  | c :: cs, assigned, cell, fresh =>
    match P.nodes[c]? with
    | none => assign cfg P pt cs assigned cell fresh
    | some nd =>
      if contains nd.box pt && !assigned then assign cfg P pt cs true (some c) fresh
      else assign cfg P pt cs assigned cell (fresh ++ [newArm cfg P c])

def receive (cfg : ZoomCfg R S) (s : Zooming α S) (r : R) (ds : List (Draw α)) :
    Except Err (Zooming α S × List (Draw α)) := do
  match s.best with
  | none => .error .noneDeref
  | some i =>
    match s.arms[i]? with
    | none => .error .badId
    | some a =>
      let a1 := { a with avg := cfg.upd a.avg a.pulls r, pulls := a.pulls + 1 }
      let time := s.time + 1
      let (phase, nextEnd) := if time ≥ s.nextEnd then (s.phase + 1, s.nextEnd + 2 ^ (s.phase + 1)) else (s.phase, s.nextEnd)
      let s1 := { s with arms := s.arms.set i a1, time := time, phase := phase, nextEnd := nextEnd }
      match s1.P.nodes[a1.cell]? with
      | none => .error .badId
      | some nd =>
        if cfg.refine phase a1.pulls nd.depth then
          let (P2, ds') ← s1.P.makeChildrenD () a1.cell (decide (nd.depth ≥ s1.P.depth)) ds
          match P2.nodes[a1.cell]? with
          | none => .error .badId
          | some nd2 =>
            match nd2.children with
            | none => .error .noneDeref
            | some cs =>
              let (cell, fresh) := assign cfg P2 a1.pt cs false none []
              let a2 := match cell with | some c => { a1 with cell := c } | none => a1
              return ({ s1 with P := P2, arms := s1.arms.set i a2 ++ fresh }, ds')
        else return (s1, ds)

end Zooming
end PyXAB
