/-
  Model of PyXAB/algos/SequOOL.py.
-/
import PyXABModel.Model.Partition
namespace PyXAB

/-- Algorithm part of `SequOOL_node`. -/
structure SqSt (S : Type) where
  rewards : List S
  opened : Bool
deriving Repr, Inhabited

structure SequOOL (α S : Type) where
  P : Part α (SqSt S)
  iteration : Nat
  hmax : Nat
  currDepth : Nat
  loc : Nat
  budget : Option Nat          -- attribute created when depth 1 is entered
  chosen : List Nat
  curr : Option Nat

namespace SequOOL
variable {α S : Type} [Add α] [Sub α] [Mul α] [Div α] [OfNat α 2] [NatCast α]
variable [LE S] [DecidableLE S] [Inhabited S]

def st0 : SqSt S := { rewards := [], opened := false }

def init (k : Kind) (domain : Box α) (hmax : Nat) : SequOOL α S :=
  { P := Part.init k domain st0, iteration := 0, hmax := hmax, currDepth := 0, loc := 0,
    budget := none, chosen := [], curr := none }

/-- scan of `node_list[curr_depth]`: number of unopened cells and the last unopened cell whose
first reward is maximal (`>=`).  `get_reward()` of a never-evaluated cell raises IndexError. -/
def scan (P : Part α (SqSt S)) : List Nat → Nat → S → Option Nat → Except Err (Nat × Option Nat)
  | [], num, _, maxn => .ok (num, maxn)
  | id :: rest, num, maxv, maxn =>
    match P.nodes[id]? with
    | none => scan P rest num maxv maxn
    | some nd =>
      if !nd.st.opened then
        match nd.st.rewards with
        | [] => .error .indexError
        | r :: _ => if maxv ≤ r then scan P rest (num + 1) r (some id) else scan P rest (num + 1) maxv maxn
      else scan P rest num maxv maxn

def pull (negInf : S) (s : SequOOL α S) (t : Nat) (ds : List (Draw α)) :
    Except Err (SequOOL α S × List (Draw α) × Nat) := do
  let s := { s with iteration := t }
  if s.currDepth ≤ s.hmax then
    -- the cell being opened
    let (target, num) ← (if s.currDepth = 0 then
        match s.P.layers[0]? with
        | some (r :: _) => .ok (r, 0)
        | _ => .error .indexError
      else
        match s.P.layers[s.currDepth]? with
        | none => .error .indexError
        | some layer => do
          let (num, maxn) ← scan s.P layer 0 negInf none
          match maxn with
          | none => .error .noneDeref
          | some m => .ok (m, num))
    match s.P.nodes[target]? with
    | none => .error .badId
    | some nd =>
      let (P1, ds1) ← (if nd.children.isNone
        then s.P.makeChildrenD st0 target (decide (s.currDepth ≥ s.P.depth)) ds else .ok (s.P, ds))
      match P1.nodes[target]? with
      | none => .error .badId
      | some nd1 =>
        match nd1.children with
        | none => .error .noneDeref
        | some cs =>
          if s.loc < cs.length then
            if s.loc = cs.length - 1 then
              match cs.getLast? with
              | none => .error .indexError
              | some c =>
                if s.currDepth = 0 then
                  .ok ({ s with P := P1, loc := 0, currDepth := 1, budget := some (s.hmax / 1),
                                chosen := s.chosen ++ [c], curr := some c }, ds1, c)
                else
                  match s.budget with
                  | none => .error .noneDeref
                  | some b =>
                    let P2 := P1.modifySt target (fun st => { st with opened := true })
                    let b' := b - 1
                    let s' := { s with P := P2, loc := 0, chosen := s.chosen ++ [c], curr := some c }
                    if b' = 0 || num = 1 then
                      .ok ({ s' with currDepth := s.currDepth + 1,
                                     budget := some (s.hmax / (s.currDepth + 1)) }, ds1, c)
                    else .ok ({ s' with budget := some b' }, ds1, c)
            else
              match cs[s.loc]? with
              | none => .error .indexError
              | some c =>
                .ok ({ s with P := P1, loc := s.loc + 1, chosen := s.chosen ++ [c], curr := some c }, ds1, c)
          else .error .returnedNone
  else
    match s.P.layers[0]? with
    | some (r :: _) => .ok ({ s with curr := some r }, ds, r)
    | _ => .error .indexError

def receive (s : SequOOL α S) (r : S) : Except Err (SequOOL α S) :=
  match s.curr with
  | none => .error .noneDeref
  | some c => .ok { s with P := s.P.modifySt c (fun st => { st with rewards := st.rewards ++ [r] }) }

/-- last chosen cell with maximal first reward -/
def lastScan (P : Part α (SqSt S)) : List Nat → S → Option Nat → Except Err (Option Nat)
  | [], _, maxn => .ok maxn
  | id :: rest, maxv, maxn =>
    match P.nodes[id]? with
    | none => .error .badId
    | some nd =>
      match nd.st.rewards with
      | [] => .error .indexError
      | r :: _ => if maxv ≤ r then lastScan P rest r (some id) else lastScan P rest maxv maxn

def lastPoint (negInf : S) (s : SequOOL α S) : Except Err Nat := do
  match ← lastScan s.P s.chosen negInf none with
  | some id => .ok id
  | none => .error .noneDeref

end SequOOL
end PyXAB
