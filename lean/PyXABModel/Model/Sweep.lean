/-
  Models of PyXAB/algos/SOO.py, DOO.py, StoSOO.py (layer-sweep optimisers).
  Generic in the score type `S`; numeric formulas are fields of configuration records.
-/
import PyXABModel.Model.Partition
import PyXABModel.Model.TreeBandit
namespace PyXAB

/-- Algorithm part of `SOO_node` / `DOO_node`. -/
structure SwSt (S : Type) where
  visited : Bool
  reward : S
  b : S            -- DOO only (`b_value`)
deriving Repr, Inhabited

/-- Result of scanning one layer for the first unevaluated leaf / the best evaluated leaf. -/
inductive Scan (S : Type) where
  | found (id : Nat)                          -- an unevaluated leaf: it is handed out
  | best (maxv : S) (maxn : Option Nat)       -- no unevaluated leaf: running maximum

/-! ## SOO -/

structure SOO (α S : Type) where
  P : Part α (SwSt S)
  iteration : Nat
  hmax : Nat
  curr : Option Nat

namespace SOO
variable {α S : Type} [Add α] [Sub α] [Mul α] [Div α] [OfNat α 2] [NatCast α]
variable [LE S] [DecidableLE S] [Inhabited S]

def st0 (negInf : S) : SwSt S := { visited := false, reward := negInf, b := negInf }

def init (negInf : S) (k : Kind) (domain : Box α) (hmax : Nat) : SOO α S :=
  { P := Part.init k domain (st0 negInf), iteration := 0, hmax := hmax, curr := none }

/-- the `for node in node_list[h]` loop of `SOO.pull` -/
def scan (P : Part α (SwSt S)) : List Nat → S → Option Nat → Scan S
  | [], maxv, maxn => .best maxv maxn
  | id :: rest, maxv, maxn =>
    match P.nodes[id]? with
    | none => scan P rest maxv maxn
    | some nd =>
      if nd.children.isNone then
        if !nd.st.visited then .found id
        else if maxv ≤ nd.st.reward then scan P rest nd.st.reward (some id)
        else scan P rest maxv maxn
      else scan P rest maxv maxn

/-- one top-down sweep (`while h <= min(depth, h_max)`); `none` = the sweep ended without
handing out a cell -/
def sweep (negInf : S) (hmax : Nat) :
    Nat → Nat → S → Part α (SwSt S) → List (Draw α) →
    Except Err (Part α (SwSt S) × List (Draw α) × Option Nat)
  | 0, _, _, _, _ => .error .outOfFuel
  | fuel + 1, h, vmax, P, ds =>
    if h ≤ min P.depth hmax then
      match P.layers[h]? with
      | none => .error .indexError
      | some layer =>
        match scan P layer negInf none with
        | .found id => .ok (P.modifySt id (fun s => { s with visited := true }), ds, some id)
        | .best maxv maxn =>
          if vmax ≤ maxv then
            match maxn with
            | some m => do
              let (P', ds') ← P.makeChildrenD (st0 negInf) m (decide (h ≥ P.depth)) ds
              sweep negInf hmax fuel (h + 1) maxv P' ds'
            | none => sweep negInf hmax fuel (h + 1) vmax P ds
          else sweep negInf hmax fuel (h + 1) vmax P ds
    else .ok (P, ds, none)

/-- `while True:` around the sweeps -/
def sweeps (negInf : S) (hmax : Nat) :
    Nat → Part α (SwSt S) → List (Draw α) → Except Err (Part α (SwSt S) × List (Draw α) × Nat)
  | 0, _, _ => .error .outOfFuel
  | fuel + 1, P, ds => do
    let (P', ds', r) ← sweep negInf hmax (P.depth + 3) 0 negInf P ds
    match r with
    | some id => .ok (P', ds', id)
    | none => sweeps negInf hmax fuel P' ds'

def pull (negInf : S) (s : SOO α S) (time : Nat) (ds : List (Draw α)) :
    Except Err (SOO α S × List (Draw α) × Nat) := do
  let (P', ds', id) ← sweeps negInf s.hmax (s.P.nodes.length + 3) s.P ds
  return ({ s with P := P', iteration := time, curr := some id }, ds', id)

def receive (s : SOO α S) (r : S) : Except Err (SOO α S) :=
  match s.curr with
  | none => .error .noneDeref
  | some c => .ok { s with P := s.P.modifySt c (fun st => { st with reward := r }) }

/-- `for layer: for node: if reward >= max_value` — last maximum in (layer, list) order -/
def argmaxListed (P : Part α (SwSt S)) (negInf : S) : Option Nat :=
  (P.layers.flatten.foldl (fun (acc : S × Option Nat) id =>
    match P.nodes[id]? with
    | none => acc
    | some nd => if acc.1 ≤ nd.st.reward then (nd.st.reward, some id) else acc) (negInf, none)).2

def lastPoint (negInf : S) (s : SOO α S) : Except Err Nat :=
  match argmaxListed s.P negInf with
  | some id => .ok id
  | none => .error .noneDeref

end SOO

/-! ## DOO -/

structure DOOCfg (α S : Type) where
  negInf : S
  inf : S
  reward0 : S                               -- initial `DOO_node.reward`
  bOf : S → S → S                           -- reward, delta ↦ reward + delta
  delta : Part α (SwSt S) → Nat → Except Err S   -- `self.delta(h)`

structure DOO (α S : Type) where
  P : Part α (SwSt S)
  iteration : Nat
  curr : Option Nat

namespace DOO
variable {α S : Type} [Add α] [Sub α] [Mul α] [Div α] [OfNat α 2] [NatCast α]
variable [LE S] [DecidableLE S] [Inhabited S]

def st0 (cfg : DOOCfg α S) : SwSt S := { visited := false, reward := cfg.reward0, b := cfg.inf }

def init (cfg : DOOCfg α S) (k : Kind) (domain : Box α) : DOO α S :=
  { P := Part.init k domain (st0 cfg), iteration := 0, curr := none }

/-- the `for node in node_list[h]` loop of `DOO.pull` (it stores `b_value` of evaluated leaves) -/
def scan (cfg : DOOCfg α S) (delta : S) :
    List Nat → Part α (SwSt S) → S → Option Nat → Part α (SwSt S) × Scan S
  | [], P, maxv, maxn => (P, .best maxv maxn)
  | id :: rest, P, maxv, maxn =>
    match P.nodes[id]? with
    | none => scan cfg delta rest P maxv maxn
    | some nd =>
      if nd.children.isNone then
        if nd.st.visited then
          let b := cfg.bOf nd.st.reward delta
          let P' := P.modifySt id (fun s => { s with b := b })
          if maxv ≤ b then scan cfg delta rest P' b (some id)
          else scan cfg delta rest P' maxv maxn
        else (P, .found id)
      else scan cfg delta rest P maxv maxn

def loop (cfg : DOOCfg α S) :
    Nat → Nat → S → Option Nat → Part α (SwSt S) → List (Draw α) →
    Except Err (Part α (SwSt S) × List (Draw α) × Nat)
  | 0, _, _, _, _, _ => .error .outOfFuel
  | fuel + 1, h, maxv, maxn, P, ds =>
    if h ≤ P.depth then do
      let delta ← cfg.delta P h
      match P.layers[h]? with
      | none => .error .indexError
      | some layer =>
        match scan cfg delta layer P maxv maxn with
        | (P1, .found id) => .ok (P1.modifySt id (fun s => { s with visited := true }), ds, id)
        | (P1, .best maxv' maxn') =>
          if h + 1 > P1.depth then
            match maxn' with
            | none => .error .noneDeref
            | some m =>
              match P1.nodes[m]? with
              | none => .error .badId
              | some nd => do
                let (P2, ds') ← P1.makeChildrenD (st0 cfg) m (decide (nd.depth ≥ P1.depth)) ds
                loop cfg fuel 0 maxv' maxn' P2 ds'
          else loop cfg fuel (h + 1) maxv' maxn' P1 ds
    else .error .returnedNone

def pull (cfg : DOOCfg α S) (s : DOO α S) (time : Nat) (ds : List (Draw α)) :
    Except Err (DOO α S × List (Draw α) × Nat) := do
  let (P', ds', id) ← loop cfg (2 * s.P.depth + 8) 0 cfg.negInf none s.P ds
  return ({ s with P := P', iteration := time, curr := some id }, ds', id)

def receive (s : DOO α S) (r : S) : Except Err (DOO α S) :=
  match s.curr with
  | none => .error .noneDeref
  | some c => .ok { s with P := s.P.modifySt c (fun st => { st with reward := r }) }

def lastPoint (cfg : DOOCfg α S) (s : DOO α S) : Except Err Nat :=
  match SOO.argmaxListed s.P cfg.negInf with
  | some id => .ok id
  | none => .error .noneDeref

end DOO

/-! ## StoSOO -/

structure StoCfg (S R : Type) where
  negInf : S
  inf : S
  zero : S
  n : Nat
  meanOf : List R → Nat → S            -- np.sum(np.array(rewards)) / visited_times
  bOf : S → Nat → S                    -- mean, count ↦ mean + sqrt(ln(nk/δ) / (2·count))
  countLT : Nat → Bool                 -- visited_times < k
  hmax : Nat

structure StoSOO (α R S : Type) where
  P : Part α (TBSt R S)
  iteration : Nat
  bmax : S
  sel : Option (Nat × Nat)             -- (max_b_node_h, max_b_node_ind)

namespace StoSOO
variable {α R S : Type} [Add α] [Sub α] [Mul α] [Div α] [OfNat α 2] [NatCast α]
variable [LE S] [DecidableLE S] [Inhabited S] [Inhabited R]

def st0 (cfg : StoCfg S R) : TBSt R S :=
  { count := 0, rewards := [], mean := cfg.zero, u := cfg.zero, b := cfg.inf, var := cfg.zero, tau := cfg.zero }

def init (cfg : StoCfg S R) (k : Kind) (domain : Box α) : StoSOO α R S :=
  { P := Part.init k domain (st0 cfg), iteration := 0, bmax := cfg.negInf, sel := none }

def computeB (cfg : StoCfg S R) (st : TBSt R S) : TBSt R S :=
  if st.count = 0 then { st with b := cfg.inf }
  else
    let m := cfg.meanOf st.rewards st.count
    { st with mean := m, b := cfg.bOf m st.count }

/-- the `for j in range(len(node_list[h]))` loop: refresh `b` of every leaf, keep the index of
the last leaf whose `b` is maximal (`<=`) -/
def scan (cfg : StoCfg S R) :
    List Nat → Nat → Part α (TBSt R S) → Option (Nat × Nat × S) → Part α (TBSt R S) × Option (Nat × Nat × S)
  | [], _, P, best => (P, best)
  | id :: rest, j, P, best =>
    match P.nodes[id]? with
    | none => scan cfg rest (j + 1) P best
    | some nd =>
      if nd.children.isNone then
        let st' := computeB cfg nd.st
        let P' := P.modifySt id (fun _ => st')
        match best with
        | none => scan cfg rest (j + 1) P' (some (j, id, st'.b))
        | some (bj, bid, bb) =>
          if bb ≤ st'.b then scan cfg rest (j + 1) P' (some (j, id, st'.b))
          else scan cfg rest (j + 1) P' (some (bj, bid, bb))
      else scan cfg rest (j + 1) P best

def loop (cfg : StoCfg S R) (time : Nat) :
    Nat → Nat → S → Part α (TBSt R S) → List (Draw α) →
    Except Err (Part α (TBSt R S) × List (Draw α) × S × Nat × Nat × Nat)
  | 0, _, _, _, _ => .error .outOfFuel
  | fuel + 1, h, bmax, P, ds =>
    if h ≤ min (P.depth + 1) cfg.hmax then
      if time ≤ cfg.n then
        match P.layers[h]? with
        | none => .error .indexError
        | some layer =>
          match scan cfg layer 0 P none with
          | (P1, none) => loop cfg time fuel (h + 1) bmax P1 ds
          | (P1, some (j, id, b)) =>
            if bmax ≤ b then
              match P1.nodes[id]? with
              | none => .error .badId
              | some nd =>
                if cfg.countLT nd.st.count then .ok (P1, ds, bmax, h, j, id)
                else do
                  let (P2, ds') ← P1.makeChildrenD (st0 cfg) id (decide (h ≥ P1.depth)) ds
                  loop cfg time fuel (h + 1) b P2 ds'
            else loop cfg time fuel (h + 1) bmax P1 ds
      else .error .outOfFuel      -- `h` is never advanced: the Python loop spins forever
    else .error .returnedNone

def pull (cfg : StoCfg S R) (s : StoSOO α R S) (time : Nat) (ds : List (Draw α)) :
    Except Err (StoSOO α R S × List (Draw α) × Nat) := do
  let (P', ds', bmax, h, j, id) ← loop cfg time (s.P.depth + 4) 0 cfg.negInf s.P ds
  return ({ s with P := P', iteration := time, bmax := bmax, sel := some (h, j) }, ds', id)

/-- State left behind by a `pull` that falls off the end of the loop and returns `None`
(the refreshed `b` values, the expansions made on the way and `b_max` stay): the driver uses it
to keep following the implementation after such a call.  Mirrors `loop`. -/
def loopN (cfg : StoCfg S R) (time : Nat) :
    Nat → Nat → S → Part α (TBSt R S) → List (Draw α) → Option (Part α (TBSt R S) × S)
  | 0, _, _, _, _ => none
  | fuel + 1, h, bmax, P, ds =>
    if h ≤ min (P.depth + 1) cfg.hmax then
      if time ≤ cfg.n then
        match P.layers[h]? with
        | none => none
        | some layer =>
          match scan cfg layer 0 P none with
          | (P1, none) => loopN cfg time fuel (h + 1) bmax P1 ds
          | (P1, some (_, id, b)) =>
            if bmax ≤ b then
              match P1.nodes[id]? with
              | none => none
              | some nd =>
                if cfg.countLT nd.st.count then none
                else
                  match P1.makeChildrenD (st0 cfg) id (decide (h ≥ P1.depth)) ds with
                  | .ok (P2, ds') => loopN cfg time fuel (h + 1) b P2 ds'
                  | .error _ => none
            else loopN cfg time fuel (h + 1) bmax P1 ds
      else none
    else some (P, bmax)

def pullNone (cfg : StoCfg S R) (s : StoSOO α R S) (time : Nat) (ds : List (Draw α)) : StoSOO α R S :=
  match loopN cfg time (s.P.depth + 4) 0 cfg.negInf s.P ds with
  | some (P, bmax) => { s with P := P, iteration := time, bmax := bmax }
  | none => s

def receive (cfg : StoCfg S R) (s : StoSOO α R S) (r : R) : Except Err (StoSOO α R S) :=
  match s.sel with
  | none => .error .noneDeref
  | some (h, j) =>
    match s.P.layers[h]? with
    | none => .error .indexError
    | some layer =>
      match layer[j]? with
      | none => .error .indexError
      | some id =>
        .ok { s with P := s.P.modifySt id (fun st =>
          let rs := st.rewards ++ [r]
          { st with count := st.count + 1, rewards := rs, mean := cfg.meanOf rs (st.count + 1) }) }

/-- deepest layer, last cell with maximal stored mean -/
def lastPoint (cfg : StoCfg S R) (s : StoSOO α R S) : Except Err Nat :=
  match s.P.layers[s.P.depth]? with
  | none => .error .indexError
  | some layer =>
    match (layer.foldl (fun (acc : S × Option Nat) id =>
        match s.P.nodes[id]? with
        | none => acc
        | some nd => if acc.1 ≤ nd.st.mean then (nd.st.mean, some id) else acc) (cfg.negInf, none)).2 with
    | some id => .ok id
    | none => .error .returnedNone

end StoSOO
end PyXAB
