/-
  Models of PyXAB/algos/HOO.py (T_HOO) and PyXAB/algos/HCT.py, VHCT.py (one model, flag
  `variance`).  Generic in the reward type `R` and the score type `S`: every numeric formula
  of the code is a field of a configuration record, so the theorems in `Props/` hold for all
  formulas (and all linear orders of scores) while the driver instantiates the records with
  the code's float expressions.
-/
import PyXABModel.Model.Partition
namespace PyXAB

/-- Algorithm part of `HOO_node` / `HCT_node` / `VHCT_node`. -/
structure TBSt (R S : Type) where
  count : Nat          -- visited_times
  rewards : List R
  mean : S             -- mean_reward
  u : S                -- u_value
  b : S                -- b_value
  var : S              -- VHCT: variance
  tau : S              -- VHCT: tau
deriving Repr, Inhabited

section common
variable {α R S : Type}

def Part.stOf [Inhabited σ] (P : Part α σ) (i : Nat) : σ :=
  match P.nodes[i]? with
  | some nd => nd.st
  | none => default

/-- `maxchild = children[0]; for child in children[1:]: if child.b >= maxchild.b: maxchild = child` -/
def pickChild [LE S] [DecidableLE S] (bOf : Nat → S) : List Nat → Option Nat
  | [] => none
  | c :: cs => some (cs.foldl (fun m c' => if bOf m ≤ bOf c' then c' else m) c)

/-- The descent loop shared by the three `optTraverse`s. `cont nd` is the extra loop condition
(HCT/VHCT: pull count has reached the threshold); the loop also stops at a leaf.  Returns the
path root … end (in order).  `fuel` bounds the number of steps (ids grow along child links,
so `nodes.length` steps always suffice in a well-formed tree). -/
def descend [LE S] [DecidableLE S] [Inhabited S] [Inhabited R] (P : Part α (TBSt R S))
    (cont : Node α (TBSt R S) → Except Err Bool) :
    Nat → Nat → List Nat → Except Err (List Nat)
  | 0, _, _ => .error .outOfFuel
  | fuel + 1, cur, acc =>
    match P.nodes[cur]? with
    | none => .error .badId
    | some nd => do
      let go ← cont nd
      match go, nd.children with
      | true, some cs =>
        match pickChild (fun i => (P.stOf i).b) cs with
        | none => .error .indexError
        | some m => descend P cont fuel m (acc ++ [m])
      | _, _ => .ok acc

/-- One layer of `updateBackwardTree`. -/
def backwardLayer [Max S] [Min S] [Inhabited S] [Inhabited R] (negInf : S) (P : Part α (TBSt R S))
    (layer : List Nat) : Part α (TBSt R S) :=
  layer.foldl (fun P id =>
    match P.nodes[id]? with
    | none => P
    | some nd =>
      match nd.children with
      | none => P.modifySt id (fun s => { s with b := s.u })
      | some cs =>
        let tempB := cs.foldl (fun t c => max t (P.stOf c).b) negInf
        P.modifySt id (fun s => { s with b := min s.u tempB })) P

/-- `updateBackwardTree`: layers `nodes[-1], nodes[-2], …, nodes[-depth]`. -/
def backward [Max S] [Min S] [Inhabited S] [Inhabited R] (negInf : S) (P : Part α (TBSt R S)) :
    Except Err (Part α (TBSt R S)) :=
  (List.range P.depth).foldlM (fun P i =>
    if i + 1 ≤ P.layers.length then
      match P.layers[P.layers.length - (i + 1)]? with
      | some layer => .ok (backwardLayer negInf P layer)
      | none => .error .indexError
    else .error .indexError) P

/-- apply `f` to every node listed in `node_list` (layer by layer, list order) -/
def forListed (P : Part α σ) (f : Node α σ → σ) : Part α σ :=
  P.layers.flatten.foldl (fun P id =>
    match P.nodes[id]? with
    | none => P
    | some nd => P.modifySt id (fun _ => f nd)) P

end common

/-! ## T-HOO -/

structure HOOCfg (R S : Type) where
  inf : S
  negInf : S
  mean0 : S                           -- initial `mean_reward = 0`
  meanOf : List R → Nat → S           -- np.sum(np.array(rewards)) / visited_times
  uOf : S → Nat → Nat → S             -- mean, count, depth ↦ mean + sqrt(2 ln(rounds)/count) + nu*rho^depth
  expandOK : Nat → Bool               -- depth ≤ ceil((ln(rounds)/2 − ln(1/nu)) / ln(1/rho))

structure HOO (α R S : Type) where
  P : Part α (TBSt R S)
  iteration : Nat
  path : Option (List Nat)            -- `self.path` (absent before the first pull)

namespace HOO
variable {α R S : Type} [Add α] [Sub α] [Mul α] [Div α] [OfNat α 2] [NatCast α]
variable [LE S] [DecidableLE S] [Max S] [Min S] [Inhabited S] [Inhabited R]

def st0 (cfg : HOOCfg R S) : TBSt R S :=
  { count := 0, rewards := [], mean := cfg.mean0, u := cfg.inf, b := cfg.inf, var := cfg.mean0, tau := cfg.mean0 }

/-- `T_HOO.__init__` (after argument checks): build the partition, split the root. -/
def init (cfg : HOOCfg R S) (k : Kind) (domain : Box α) (ds : List (Draw α)) :
    Except Err (HOO α R S × List (Draw α)) := do
  let P0 : Part α (TBSt R S) := Part.init k domain (st0 cfg)
  let (P1, ds') ← P0.expand (st0 cfg) 0 ds
  return ({ P := P1, iteration := 0, path := none }, ds')

/-- `pull`: greedy descent on B-values to a leaf; returns (state, pulled id). -/
def pull (s : HOO α R S) : Except Err (HOO α R S × Nat) := do
  let path ← descend s.P (fun _ => .ok true) (s.P.nodes.length + 1) 0 [0]
  match path.getLast? with
  | none => .error .badId
  | some v => return ({ s with path := some path }, v)

def updateReward (cfg : HOOCfg R S) (P : Part α (TBSt R S)) (id : Nat) (r : R) : Part α (TBSt R S) :=
  P.modifySt id (fun st =>
    let rs := st.rewards ++ [r]
    { st with count := st.count + 1, rewards := rs, mean := cfg.meanOf rs (st.count + 1) })

def computeU (cfg : HOOCfg R S) (nd : Node α (TBSt R S)) : TBSt R S :=
  if nd.st.count = 0 then { nd.st with b := cfg.inf }
  else
    let m := cfg.meanOf nd.st.rewards nd.st.count
    { nd.st with mean := m, u := cfg.uOf m nd.st.count nd.depth }

/-- `receive_reward` = `updateAllTree(self.path, reward)`. -/
def receive (cfg : HOOCfg R S) (s : HOO α R S) (r : R) (ds : List (Draw α)) :
    Except Err (HOO α R S × List (Draw α)) := do
  match s.path with
  | none => .error .noneDeref
  | some path =>
    let P1 := path.foldl (fun P id => updateReward cfg P id r) s.P
    let P2 := forListed P1 (computeU cfg)
    match path.getLast? with
    | none => .error .indexError
    | some last =>
      match P2.nodes[last]? with
      | none => .error .badId
      | some nd =>
        let (P3, ds') ← (if cfg.expandOK nd.depth then P2.expand (st0 cfg) last ds else .ok (P2, ds))
        let P4 ← backward cfg.negInf P3
        return ({ s with P := P4, iteration := s.iteration + 1 }, ds')

end HOO

/-! ## HCT / VHCT -/

structure HCTCfg (R S : Type) where
  variance : Bool                     -- true = VHCT
  inf : S
  negInf : S
  zero : S                            -- 0 / 0.0 (initial mean, tau_h[0], root tau)
  var0 : S                            -- VHCT minvariance 1e-3
  meanOf : List R → Nat → S           -- HCT: np.sum/visited ; VHCT: np.average
  varOf : List R → S                  -- VHCT: max(np.var(rewards), 1e-3)
  dtHalf : Nat → S                    -- t⁺ ↦ min(1/2, c1·δ/t⁺)   (used for thresholds)
  dtOne : Nat → S                     -- t⁺ ↦ min(1,   c1·δ/t⁺)   (used for U-values)
  tauH : S → Nat → S                  -- HCT: δ̃, depth ↦ ceil(c² ln(1/δ̃) ρ^(−2h)/ν²)
  tauNode : S → Nat → S → S           -- VHCT: δ̃, depth, variance ↦ threshold
  uOf : S → Nat → S → Nat → S → S     -- δ̃, depth, mean, count, variance ↦ U
  countGE : Nat → S → Bool            -- visited_times >= threshold

structure HCT (α R S : Type) where
  P : Part α (TBSt R S)
  iteration : Nat
  tauH : List S                       -- `self.tau_h` (HCT only)
  path : Option (List Nat)

/-- `compute_t_plus` in exact arithmetic: the least power of two `≥ n`. -/
def tPlus (n : Nat) : Nat := Nat.nextPowerOfTwo n

namespace HCT
variable {α R S : Type} [Add α] [Sub α] [Mul α] [Div α] [OfNat α 2] [NatCast α]
variable [LE S] [DecidableLE S] [Max S] [Min S] [Inhabited S] [Inhabited R]

def st0 (cfg : HCTCfg R S) : TBSt R S :=
  { count := 0, rewards := [], mean := cfg.zero, u := cfg.inf, b := cfg.inf, var := cfg.var0, tau := cfg.zero }

def init (cfg : HCTCfg R S) (k : Kind) (domain : Box α) (ds : List (Draw α)) :
    Except Err (HCT α R S × List (Draw α)) := do
  let P0 : Part α (TBSt R S) := Part.init k domain (st0 cfg)
  let (P1, ds') ← P0.expand (st0 cfg) 0 ds
  return ({ P := P1, iteration := 1, tauH := [cfg.zero], path := none }, ds')

/-- VHCT `optTraverse` prologue: recompute `tau` of every node of layers `1..depth`. -/
def refreshTau (cfg : HCTCfg R S) (dt : S) (P : Part α (TBSt R S)) : Except Err (Part α (TBSt R S)) :=
  (List.range' 1 P.depth).foldlM (fun P h =>
    match P.layers[h]? with
    | none => .error .indexError
    | some layer =>
      .ok (layer.foldl (fun P id =>
        match P.nodes[id]? with
        | none => P
        | some nd => P.modifySt id (fun st => { st with tau := cfg.tauNode dt nd.depth st.var })) P)) P

def pull (cfg : HCTCfg R S) (s : HCT α R S) : Except Err (HCT α R S × Nat) := do
  let dt := cfg.dtHalf (tPlus s.iteration)
  let (P1, tauH) ←
    (if cfg.variance then do
       let P1 ← refreshTau cfg dt s.P
       pure (P1, s.tauH)
     else
       pure (s.P, cfg.zero :: (List.range' 1 s.P.depth).map (cfg.tauH dt)))
  let cont : Node α (TBSt R S) → Except Err Bool := fun nd =>
    if cfg.variance then .ok (cfg.countGE nd.st.count nd.st.tau)
    else match tauH[nd.depth]? with
      | none => .error .indexError
      | some t => .ok (cfg.countGE nd.st.count t)
  let path ← descend P1 cont (P1.nodes.length + 1) 0 [0]
  match path.getLast? with
  | none => .error .badId
  | some v => return ({ s with P := P1, tauH := tauH, path := some path }, v)

def computeU (cfg : HCTCfg R S) (dt : S) (nd : Node α (TBSt R S)) : TBSt R S :=
  if nd.st.count = 0 then { nd.st with u := cfg.inf }
  else
    let m := cfg.meanOf nd.st.rewards nd.st.count
    { nd.st with mean := m, u := cfg.uOf dt nd.depth m nd.st.count nd.st.var }

def updateReward (cfg : HCTCfg R S) (P : Part α (TBSt R S)) (id : Nat) (r : R) : Part α (TBSt R S) :=
  P.modifySt id (fun st =>
    let rs := st.rewards ++ [r]
    let st' := { st with count := st.count + 1, rewards := rs, mean := cfg.meanOf rs (st.count + 1) }
    if cfg.variance then { st' with var := cfg.varOf rs } else st')

/-- `receive_reward` = `updateAllTree(self.path, reward)`.  `leafTest` = the expansion test
includes "the pulled cell is a leaf" (as in the published pseudo-code). -/
def receive (cfg : HCTCfg R S) (s : HCT α R S) (r : R) (ds : List (Draw α)) :
    Except Err (HCT α R S × List (Draw α)) := do
  match s.path with
  | none => .error .noneDeref
  | some path =>
    let tp := tPlus s.iteration
    let dt := cfg.dtOne tp
    let P1 ← (if s.iteration = tp then backward cfg.negInf (forListed s.P (computeU cfg dt)) else .ok s.P)
    match path.getLast? with
    | none => .error .indexError
    | some last =>
      let P2 := updateReward cfg P1 last r
      let P3 := match P2.nodes[last]? with
        | none => P2
        | some nd => P2.modifySt last (fun _ => computeU cfg dt nd)
      let P4 ← backward cfg.negInf P3
      match P4.nodes[last]? with
      | none => .error .badId
      | some nd =>
        let thr ← (if cfg.variance then .ok nd.st.tau
                   else match s.tauH[nd.depth]? with
                     | none => .error .indexError
                     | some t => .ok t)
        let (P5, ds') ← (if nd.children.isNone && cfg.countGE nd.st.count thr
                         then P4.expand (st0 cfg) last ds else .ok (P4, ds))
        return ({ s with P := P5, iteration := s.iteration + 1 }, ds')

end HCT
end PyXAB
