/-
  Model of PyXAB/algos/StroquOOL.py (time-driven: the schedule is read off the `time` argument).
-/
import PyXABModel.Model.Partition
import PyXABModel.Model.TreeBandit
namespace PyXAB

/-- Algorithm part of `StroquOOL_node`. -/
structure SkSt (R S : Type) where
  visited : Nat
  opened : Bool
  rewards : List R
  mean : S
deriving Repr, Inhabited

structure SkCfg (R S : Type) where
  negInf : S
  hmax : Nat
  pmax : Nat                         -- floor(log2 h_max)
  meanOf : List R → S                -- np.sum(rewards) / len(rewards)   (NaN on an empty list)

structure StroquOOL (α R S : Type) where
  P : Part α (SkSt R S)
  iteration : Nat
  currDepth : Nat
  currP : Int
  chosen : List Nat
  timeStamp : Nat
  candidate : List (Option Nat)
  currLoc : Nat
  curr : Nat
  eval : Bool
  maxNode : Option Nat
  ended : Bool

namespace StroquOOL
variable {α R S : Type} [Add α] [Sub α] [Mul α] [Div α] [OfNat α 2] [NatCast α]
variable [LE S] [DecidableLE S] [Inhabited S] [Inhabited R]

def st0 (cfg : SkCfg R S) : SkSt R S := { visited := 0, opened := false, rewards := [], mean := cfg.negInf }

/-- `math.floor(np.log2(h_max / d))` for `1 ≤ d ≤ h_max`; `-1` otherwise (ratio below 1) -/
def resetP (hmax d : Nat) : Int :=
  if d = 0 then (Nat.log2 hmax : Int) else if hmax / d = 0 then -1 else (Nat.log2 (hmax / d) : Int)

def init (cfg : SkCfg R S) (k : Kind) (domain : Box α) : StroquOOL α R S :=
  { P := Part.init k domain (st0 cfg), iteration := 0, currDepth := 0, currP := (Nat.log2 cfg.hmax : Int),
    chosen := [], timeStamp := 0, candidate := [], currLoc := 0, curr := 0, eval := true,
    maxNode := none, ended := false }

/-- children[0], children[1] of a node (IndexError / TypeError when missing) -/
def twoKids (P : Part α (SkSt R S)) (id : Nat) : Except Err (Nat × Nat) :=
  match P.nodes[id]? with
  | none => .error .badId
  | some nd =>
    match nd.children with
    | none => .error .noneDeref
    | some (a :: b :: _) => .ok (a, b)
    | some _ => .error .indexError

def compMean (cfg : SkCfg R S) (st : SkSt R S) : SkSt R S :=
  if st.visited > 0 then { st with mean := cfg.meanOf st.rewards } else st

/-- the scan of `node_list[curr_depth]` when `eval` is set -/
def scanLayer (cfg : SkCfg R S) (thr : Nat) :
    List Nat → Part α (SkSt R S) → S → Option Nat → Part α (SkSt R S) × Option Nat
  | [], P, _, mx => (P, mx)
  | id :: rest, P, best, mx =>
    match P.nodes[id]? with
    | none => scanLayer cfg thr rest P best mx
    | some nd =>
      if !nd.st.opened && nd.st.visited ≥ thr then
        let st' := compMean cfg nd.st
        let P' := P.modifySt id (fun _ => st')
        if best ≤ st'.mean then scanLayer cfg thr rest P' st'.mean (some id)
        else scanLayer cfg thr rest P' best mx
      else scanLayer cfg thr rest P best mx

/-- `get_last_point`: refresh the candidates' means, take the last maximal one -/
def lastPoint (cfg : SkCfg R S) (s : StroquOOL α R S) : Except Err (StroquOOL α R S × Nat) := do
  let (P, _, mx) ← s.candidate.foldlM (fun (acc : Part α (SkSt R S) × S × Option Nat) c =>
    match c with
    | none => .error .noneDeref
    | some id =>
      let (P, best, mx) := acc
      match P.nodes[id]? with
      | none => .error .badId
      | some nd =>
        let st' := compMean cfg nd.st
        let P' := P.modifySt id (fun _ => st')
        if best ≤ st'.mean then .ok (P', st'.mean, some id) else .ok (P', best, mx)) (s.P, cfg.negInf, none)
  match mx with
  | none => .error .noneDeref
  | some id => return ({ s with P := P }, id)

/-- the end of `pull`: `self.end = True; return self.get_last_point()` -/
def finish (cfg : SkCfg R S) (s : StroquOOL α R S) (ds : List (Draw α)) :
    Except Err (StroquOOL α R S × List (Draw α) × Nat) := do
  let (s', id) ← lastPoint cfg { s with ended := true }
  return (s', ds, id)

/-- candidate selection at the start of the cross-validation stage -/
def buildCandidates (cfg : SkCfg R S) (s : StroquOOL α R S) : Except Err (StroquOOL α R S) := do
  let cands := (List.range (cfg.pmax + 1)).map (fun p =>
    (s.chosen.foldl (fun (acc : S × Option Nat) id =>
      match s.P.nodes[id]? with
      | none => acc
      | some nd =>
        if nd.st.visited ≥ 2 ^ p then
          if acc.1 ≤ nd.st.mean then (nd.st.mean, some id) else acc
        else acc) (cfg.negInf, none)).2)
  let P ← cands.foldlM (fun P c =>
    match c with
    | none => .error .noneDeref
    | some id => .ok (P.modifySt id (fun st => { st with rewards := [] }))) s.P
  return { s with candidate := cands, P := P }

def pull (cfg : SkCfg R S) (s : StroquOOL α R S) (time : Nat) (ds : List (Draw α)) :
    Except Err (StroquOOL α R S × List (Draw α) × Nat) := do
  let s := { s with iteration := time }
  let h := cfg.hmax
  if s.currDepth ≤ h then
    -- depth 0: the two children of the root, h_max evaluations each
    let (s, ds, ret) ← (if s.currDepth = 0 then do
        let (s, ds) ← (if s.P.isLeaf 0 then do
            let (P', ds') ← s.P.makeChildrenD (st0 cfg) 0 (decide (0 ≥ s.P.depth)) ds
            let (a, b) ← twoKids P' 0
            pure ({ s with P := P', chosen := s.chosen ++ [a, b] }, ds')
          else pure (s, ds))
        let (a, b) ← twoKids s.P 0
        if time ≤ h then pure ({ s with curr := a }, ds, some a)
        else if time ≤ 2 * h then
          let s := if time = 2 * h then
            { s with timeStamp := 2 * h, currDepth := 1, currP := resetP h 1 } else s
          pure ({ s with curr := b }, ds, some b)
        else pure (s, ds, none)
      else pure (s, ds, none))
    match ret with
    | some id => return (s, ds, id)
    | none =>
      if s.currP ≥ 0 then
        let p := s.currP.toNat
        let (s, ds) ← (if s.eval then do
            match s.P.layers[s.currDepth]? with
            | none => .error .indexError
            | some layer =>
              let (P1, mx) := scanLayer cfg (2 ^ p) layer s.P cfg.negInf s.maxNode
              let s := { s with P := P1, maxNode := mx, eval := false }
              match mx with
              | none => .error .noneDeref
              | some m =>
                if s.P.isLeaf m then do
                  let (P2, ds') ← s.P.makeChildrenD (st0 cfg) m (decide (s.currDepth ≥ s.P.depth)) ds
                  let (a, b) ← twoKids P2 m
                  pure ({ s with P := P2, chosen := s.chosen ++ [a, b] }, ds')
                else pure (s, ds)
          else pure (s, ds))
        match s.maxNode with
        | none => .error .noneDeref
        | some m =>
          if time ≤ s.timeStamp + 2 ^ p then do
            let (a, _) ← twoKids s.P m
            return ({ s with curr := a }, ds, a)
          else if time ≤ s.timeStamp + 2 ^ (p + 1) then do
            let s1 := if time = s.timeStamp + 2 ^ (p + 1) then
                let s1 := { s with timeStamp := s.timeStamp + 2 ^ (p + 1), currP := s.currP - 1,
                                   P := s.P.modifySt m (fun st => { st with opened := true }), eval := true }
                if s1.currP < 0 then { s1 with currDepth := s1.currDepth + 1, currP := resetP h (s1.currDepth + 1) } else s1
              else s
            let (_, b) ← twoKids s1.P m
            return ({ s1 with curr := b }, ds, b)
          else finish cfg s ds
      else finish cfg s ds
  else
    let s ← (if s.candidate.isEmpty then buildCandidates cfg s else pure s)
    if s.currLoc < s.candidate.length then
      if time ≤ s.timeStamp + h then
        match s.candidate[s.currLoc]? with
        | some (some c) =>
          let s1 := { s with curr := c }
          let s2 := if time = s.timeStamp + h then { s1 with timeStamp := s.timeStamp + h, currLoc := s.currLoc + 1 } else s1
          return (s2, ds, c)
        | _ => .error .noneDeref
      else finish cfg s ds
    else finish cfg s ds

def receive (s : StroquOOL α R S) (r : R) : StroquOOL α R S :=
  if s.ended then s
  else { s with P := s.P.modifySt s.curr (fun st => { st with visited := st.visited + 1, rewards := st.rewards ++ [r] }) }

end StroquOOL
end PyXAB
