/-
  Models of PyXAB/algos/POO.py and GPO.py (PCT/VPCT are GPO with a fixed base learner).
  Generic in the base learner: any state machine with `create / pull / receive`, so every
  theorem about routing, scores and schedule holds for every base algorithm.  The float tests
  of the code (`N <= 0.5*Dmax*log(n/log n)`) and parameter formulas are fields of the
  configuration records.
-/
import PyXABModel.Model.Partition
namespace PyXAB

/-- A base learner as seen by the wrappers. `ρ` = constructor parameters, `Pt` = proposed point. -/
structure LearnerOps (L α R Pt ρ : Type) where
  create : ρ → List (Draw α) → Except Err (L × List (Draw α))
  pull : L → Nat → Except Err (L × Pt)
  receive : L → Nat → R → List (Draw α) → Except Err (L × List (Draw α))

/-- `np.argmax`: index of the first maximal element; `none` on an empty list (ValueError). -/
def argmaxFirst {S : Type} [LT S] [DecidableLT S] : List S → Option Nat
  | [] => none
  | x :: xs =>
    some (((xs.foldl (fun (acc : Nat × Nat × S) y =>
      let (i, bi, bv) := acc
      if bv < y then (i + 1, i + 1, y) else (i + 1, bi, bv)) (0, 0, x))).2.1)

/-! ## POO -/

structure POOCfg (R S ρ : Type) where
  cond : Nat → Nat → Bool            -- N, n ↦ N ≤ ½·Dmax·ln(n / ln n)
  rhoOf : Nat → Nat → ρ              -- N, phase ↦ (numax, rhomax^(2N/(2·phase+1)))
  upd : S → Nat → R → S              -- V, k, r ↦ (V·k + r)/(k+1)
  zero : S

structure POO (L S : Type) where
  N : Nat
  n : Nat
  phase : Nat
  counter : Nat
  algoCounter : Option Nat           -- attribute `algo_counter` exists only after the first doubling
  learners : List L
  V : List S
  times : List Nat

namespace POO
variable {L α R S Pt ρ : Type}

def init : POO L S :=
  { N := 2, n := 2, phase := 1, counter := 0, algoCounter := none, learners := [], V := [], times := [] }

/-- `np.ceil(n / N)` -/
def ceilDiv (n N : Nat) : Nat := (n + N - 1) / N

def pull (ops : LearnerOps L α R Pt ρ) (cfg : POOCfg R S ρ) (s : POO L S) (time : Nat)
    (ds : List (Draw α)) : Except Err (POO L S × List (Draw α) × Nat × Pt) := do
  if cfg.cond s.N s.n then
    let (s1, ds1) ← (if s.counter = 0 then do
        let (l, ds') ← ops.create (cfg.rhoOf s.N s.phase) ds
        pure ({ s with learners := s.learners ++ [l], V := s.V ++ [cfg.zero], times := s.times ++ [0] }, ds')
      else pure (s, ds))
    match s1.learners.getLast? with
    | none => .error .indexError
    | some l =>
      let i := s1.learners.length - 1
      let (l', pt) ← ops.pull l time
      return ({ s1 with learners := s1.learners.set i l' }, ds1, i, pt)
  else
    match s.algoCounter with
    | none => .error .noneDeref
    | some ac =>
      match s.learners[ac]? with
      | none => .error .indexError
      | some l =>
        let (l', pt) ← ops.pull l time
        return ({ s with learners := s.learners.set ac l' }, ds, ac, pt)

def receive (ops : LearnerOps L α R Pt ρ) (cfg : POOCfg R S ρ) (s : POO L S) (time : Nat) (r : R)
    (ds : List (Draw α)) : Except Err (POO L S × List (Draw α)) := do
  if cfg.cond s.N s.n then
    match s.learners.getLast?, s.V.getLast?, s.times.getLast? with
    | some l, some v, some t =>
      let i := s.learners.length - 1
      let (l', ds') ← ops.receive l time r ds
      let s1 := { s with learners := s.learners.set i l', V := s.V.set (s.V.length - 1) (cfg.upd v s.counter r),
                         times := s.times.set (s.times.length - 1) (t + 1), counter := s.counter + 1 }
      let s2 := if s1.counter ≥ ceilDiv s1.n s1.N then { s1 with counter := 0, phase := s1.phase + 1 } else s1
      let s3 := if s2.phase ≥ s2.N then
          { s2 with n := 2 * s2.n, N := 2 * s2.N, phase := 0, counter := 0, algoCounter := some 0 } else s2
      return (s3, ds')
    | _, _, _ => .error .indexError
  else
    match s.algoCounter with
    | none => .error .noneDeref
    | some ac =>
      match s.learners[ac]?, s.V[ac]?, s.times[ac]? with
      | some l, some v, some t =>
        let (l', ds') ← ops.receive l time r ds
        let s1 := { s with learners := s.learners.set ac l', V := s.V.set ac (cfg.upd v (ceilDiv s.n s.N) r),
                           times := s.times.set ac (t + 1) }
        let ac' := ac + 1
        let s2 := if ac' = s1.learners.length then { s1 with algoCounter := some 0, n := s1.n + s1.N }
                  else { s1 with algoCounter := some ac' }
        return (s2, ds')
      | _, _, _ => .error .indexError

/-- `get_last_point`: the next proposal of the first learner with maximal score. -/
def lastPoint [LT S] [DecidableLT S] (ops : LearnerOps L α R Pt ρ) (s : POO L S) :
    Except Err (POO L S × Nat × Pt) :=
  match argmaxFirst s.V with
  | none => .error .valueError
  | some i =>
    match s.learners[i]? with
    | none => .error .indexError
    | some l => do
      let (l', pt) ← ops.pull l 0
      return ({ s with learners := s.learners.set i l' }, i, pt)

end POO

/-! ## GPO (and PCT / VPCT) -/

structure GPOCfg (R S ρ : Type) where
  N : Nat                            -- number of phases, ceil(½·Dmax·ln((n/2)/ln(n/2)))
  half : Nat                         -- half_phase_length = floor(n / 2N)
  rhoOf : Nat → ρ                    -- phase ↦ (numax, rhomax^(2N/(2·phase+1)))
  upd : S → Nat → R → S
  zero : S

structure GPO (L S Pt : Type) where
  phase : Nat
  counter : Nat
  curr : Option L
  goodx : Option Pt
  Vx : List Pt
  V : List S
  created : Nat                      -- ghost: number of base learners constructed so far

namespace GPO
variable {L α R S Pt ρ : Type}

def init : GPO L S Pt :=
  { phase := 1, counter := 0, curr := none, goodx := none, Vx := [], V := [], created := 0 }

def pull (ops : LearnerOps L α R Pt ρ) (cfg : GPOCfg R S ρ) (s : GPO L S Pt) (time : Nat)
    (ds : List (Draw α)) : Except Err (GPO L S Pt × List (Draw α) × Pt) := do
  if s.phase > cfg.N then
    match s.goodx with
    | some p => return (s, ds, p)
    | none => .error .returnedNone
  else
    let (s1, ds1) ← (if s.counter = 0 then do
        let (l, ds') ← ops.create (cfg.rhoOf s.phase) ds
        pure ({ s with curr := some l, created := s.created + 1 }, ds')
      else pure (s, ds))
    if s1.counter < cfg.half then
      match s1.curr with
      | none => .error .noneDeref
      | some l =>
        let (l', pt) ← ops.pull l time
        return ({ s1 with curr := some l', goodx := some pt }, ds1, pt)
    else
      match s1.goodx with
      | none => .error .returnedNone
      | some p =>
        if s1.counter = cfg.half then
          return ({ s1 with Vx := s1.Vx ++ [p], V := s1.V ++ [cfg.zero] }, ds1, p)
        else return (s1, ds1, p)

def receive [LT S] [DecidableLT S] (ops : LearnerOps L α R Pt ρ) (cfg : GPOCfg R S ρ) (s : GPO L S Pt)
    (time : Nat) (r : R) (ds : List (Draw α)) : Except Err (GPO L S Pt × List (Draw α)) := do
  if s.phase > cfg.N then return (s, ds)
  else
    let (s1, ds1) ← (if s.counter < cfg.half then
        match s.curr with
        | none => .error .noneDeref
        | some l => do
          let (l', ds') ← ops.receive l time r ds
          pure ({ s with curr := some l' }, ds')
      else
        match s.V[s.phase - 1]? with
        | none => .error .indexError
        | some v => pure ({ s with V := s.V.set (s.phase - 1) (cfg.upd v (s.counter - cfg.half) r) }, ds))
    let s2 := { s1 with counter := s1.counter + 1 }
    if s2.counter ≥ 2 * cfg.half then
      let s3 := { s2 with phase := s2.phase + 1, counter := 0 }
      if s3.phase > cfg.N then
        match argmaxFirst s3.V with
        | none => .error .valueError
        | some i =>
          match s3.Vx[i]? with
          | none => .error .indexError
          | some p => return ({ s3 with goodx := some p }, ds1)
      else return (s3, ds1)
    else return (s2, ds1)

def lastPoint [LT S] [DecidableLT S] (s : GPO L S Pt) : Except Err Pt :=
  match argmaxFirst s.V with
  | none => .error .valueError
  | some i =>
    match s.Vx[i]? with
    | none => .error .indexError
    | some p => .ok p

end GPO
end PyXAB
