/-
  Property C08 — the layer-sweep optimisers SOO, DOO, StoSOO.

  "SOO and DOO evaluate each cell at most once and StoSOO at most k times; they expand only
  leaves that have been evaluated (StoSOO: k times), never evaluate a cell deeper than the depth
  cap (SOO, StoSOO), and a leaf is expanded only while no unevaluated leaf precedes it in the
  sweep.  The expanded leaf is the best of its depth (SOO: highest reward, and at least the
  reward of any shallower leaf expanded in the same sweep; StoSOO: highest b, likewise monotone
  over the sweep; DOO: highest reward + delta(depth) over all leaves, one expansion per pull),
  and the cell handed out is an unevaluated leaf (SOO, DOO: the first in top-down order) or, for
  StoSOO, a max-b leaf of its depth evaluated fewer than k times."

  Setting.  `PyXABModel/Model/Sweep.lean` models `SOO`, `DOO`, `StoSOO` on the arena `Part` of
  C03; the numeric formulas are parameters (`negInf`, `DOOCfg`, `StoCfg`), so everything below
  holds for all of them; scores live in an arbitrary linear order `S`.  Hypotheses: `negInf` is
  a bottom element, `cfg.inf` a top element (only where stated), random draws are well-formed
  (`Tree.DrawOKLen`), at least one per `pull` for the totality theorems.

  `Spec/SweepSpec.lean` defines: the instrumented loops `pullT` (they also return the expansion
  events `Ev = (layer h, expanded id, its score, the partition BEFORE the expansion)`; `pull_erasure`
  says that forgetting the events gives the model's `pull`), the invariants `Inv` / `Ready`, the
  per-event facts `EvOK`, the growth relation `Ext`, `IsLastMax` ("the last element of maximal
  score of a list"), `firstUnvisited` ("first unevaluated leaf in top-down order"), the documented
  loop `round` / `runRounds` / `run` with its history `H` of (handed-out cell, reward).
-/
import PyXABProofs.Lemmas.SW_SOORun
import PyXABProofs.Lemmas.SW_DOORun
import PyXABProofs.Lemmas.SW_StoHist
import Mathlib.Data.Int.Order.Basic
import Mathlib.Order.WithBot
import Mathlib.Order.Fin.Basic

set_option linter.unusedSectionVars false

namespace PyXAB
open Tree TBA SW

/-! ## SOO -/

namespace SOO
variable {α S : Type} [Add α] [Sub α] [Mul α] [Div α] [OfNat α 2] [NatCast α]
variable [LinearOrder S] [Inhabited S]

/-- **Erasure**: the instrumented `pullT` computes `pull` (plus the expansion events). -/
theorem pull_erasure (negInf : S) (s : SOO α S) (time : Nat) (ds : List (Draw α)) :
    pull negInf s time ds = (pullT negInf s time ds).map (fun x => (x.1, x.2.1, x.2.2.1)) :=
  pull_eq negInf s time ds

/-- so every successful `pull` has a list of expansion events, and conversely -/
theorem pull_ok_iff_pullT (negInf : S) (s : SOO α S) (time : Nat) (ds : List (Draw α))
    (s' : SOO α S) (ds' : List (Draw α)) (v : Nat) :
    pull negInf s time ds = .ok (s', ds', v) ↔
      ∃ trs, pullT negInf s time ds = .ok (s', ds', v, trs) :=
  pull_ok_iff negInf s time ds s' ds' v

/-! ### 1. Invariant, totality -/

theorem init_Inv (negInf : S) (k : Kind) (domain : Box α) (hmax : Nat) :
    Inv negInf (init negInf k domain hmax) :=
  (init_inv negInf k domain hmax).1

/-- `pull` preserves the invariant (whenever it returns). -/
theorem pull_Inv (negInf : S) (hbot : ∀ x, negInf ≤ x) {s s' : SOO α S} {time : Nat}
    {ds ds' : List (Draw α)} {v : Nat} (hI : Inv negInf s)
    (hds : ∀ d ∈ ds, DrawOKLen s.P.kind (dimn s.P) d)
    (hrun : pull negInf s time ds = .ok (s', ds', v)) :
    Inv negInf s' ∧ s'.curr = some v ∧ s'.hmax = s.hmax ∧ s'.iteration = time ∧
      s'.P.kind = s.P.kind ∧ dimn s'.P = dimn s.P := by
  obtain ⟨trs, hT⟩ := (pull_ok_iff negInf s time ds s' ds' v).1 hrun
  obtain ⟨⟨Pb, hp⟩, h1, h2, h3, h4⟩ := pullT_spec negInf hbot hI hds hT
  refine ⟨h1, h2, h3, h4, ?_, ?_⟩
  · rw [hp.marked]; exact hp.ext.kind
  · rw [hp.marked, dimn_mark]; exact hp.ext.dimn

/-- **Totality of `pull`**: below the depth cap, with one well-formed draw, `pull` returns: the
explicit fuel of the two loops is never exhausted, no index error, and the tree gets at most
one level deeper. -/
theorem pull_total (negInf : S) (hbot : ∀ x, negInf ≤ x) {s : SOO α S} (time : Nat)
    {ds : List (Draw α)} (hI : Inv negInf s) (hcap : s.P.depth < s.hmax)
    (hlen : 1 ≤ ds.length) (hds : ∀ d ∈ ds, DrawOKLen s.P.kind (dimn s.P) d) :
    ∃ s' ds' v, pull negInf s time ds = .ok (s', ds', v) ∧ Inv negInf s' ∧
      s'.P.depth ≤ s.P.depth + 1 := by
  obtain ⟨s', ds', v, trs, e, hd⟩ := pullT_total negInf hbot time hI hcap hlen hds
  have hp := (pull_ok_iff negInf s time ds s' ds' v).2 ⟨trs, e⟩
  exact ⟨s', ds', v, hp, (pull_Inv negInf hbot hI hds hp).1, hd⟩

/-- `receive` after a `pull` (more generally, whenever a cell has been handed out) returns, and
keeps the invariant. -/
theorem receive_total (negInf : S) {s : SOO α S} (hI : Inv negInf s) {v : Nat}
    (hc : s.curr = some v) (r : S) :
    ∃ s', receive s r = .ok s' ∧ Inv negInf s' := by
  obtain ⟨nd, n1, n2⟩ := hI.curr v hc
  refine ⟨_, receive_eq hc r, hI.pinv.setReward n1 n2 r, ?_⟩
  intro c hc'
  obtain ⟨cn, c1, c2⟩ := hI.curr c hc'
  show ∃ nd, (setReward s.P v r).nodes[c]? = some nd ∧ nd.st.visited = true
  simp only [setReward, getElem?_modifySt, c1, Option.map_some]
  by_cases hvc : v = c <;> simp [hvc, c2]

/-- **The documented loop is total** as long as the number of rounds does not exceed the depth
cap: `init`, then `T ≤ hmax` rounds `pull; receive`, never fails. -/
theorem loop_total (negInf : S) (hbot : ∀ x, negInf ≤ x) (k : Kind) (domain : Box α) (hmax : Nat)
    (inputs : List (Input α S)) (hin : InputsOK k domain.length inputs)
    (hT : inputs.length ≤ hmax) :
    ∃ s H, run negInf k domain hmax inputs = .ok (s, H) ∧ Inv negInf s ∧
      H.map (·.2) = inputs.map (·.2.2) ∧ s.P.depth ≤ inputs.length := by
  obtain ⟨hI, hk, hd, h0, hm, hH⟩ := init_inv negInf k domain hmax
  obtain ⟨s, H, e, hdep⟩ := runRounds_total negInf hbot inputs _ hI (by rw [hk, hd]; exact hin)
    (by rw [h0, hm]; omega)
  obtain ⟨_, a2, a3⟩ := runRounds_hist negInf hbot inputs _ [] s H hI
    (by rw [hk, hd]; exact fun x hx => (hin x hx).2) hH e
  exact ⟨s, H, e, a2, a3, by rw [h0] at hdep; omega⟩

/-! ### 2. The handed-out cell -/

/-- The cell `v` returned by `pull`: `s'.P` is a tree `Pb` (an extension of `s.P` in which no
payload of an old cell changed and new cells carry the initial payload) with `v` marked;
`v` is the FIRST unevaluated leaf of `Pb` in top-down order (`Pb` and `s'.P` have the same
layers and the same leaves: they differ in the flag of `v` only); it is a leaf of `s'.P` of depth
`≤ hmax`, now marked; it was not evaluated before (in `s.P`, if it existed there), and its
stored reward is still `negInf`. -/
theorem pull_handed_out (negInf : S) (hbot : ∀ x, negInf ≤ x) {s s' : SOO α S} {time : Nat}
    {ds ds' : List (Draw α)} {v : Nat} (hI : Inv negInf s)
    (hds : ∀ d ∈ ds, DrawOKLen s.P.kind (dimn s.P) d)
    (hrun : pull negInf s time ds = .ok (s', ds', v)) :
    ∃ Pb, s'.P = mark Pb v ∧ s'.P.layers = Pb.layers ∧ Ext (· = ·) (st0 negInf) s.P Pb ∧
      firstUnvisited Pb = some v ∧
      (∃ pre post, Pb.layers.flatten = pre ++ v :: post ∧
        ∀ w ∈ pre, unvisitedLeaf Pb w = false) ∧
      (∃ nd, Pb.nodes[v]? = some nd ∧ nd.children = none ∧ nd.st.visited = false ∧
        nd.st.reward = negInf ∧ nd.depth ≤ s.hmax ∧
        s'.P.nodes[v]? = some { nd with st := { nd.st with visited := true } }) ∧
      (∀ nd, s.P.nodes[v]? = some nd → nd.st.visited = false) := by
  obtain ⟨trs, hT⟩ := (pull_ok_iff negInf s time ds s' ds' v).1 hrun
  obtain ⟨⟨Pb, hp⟩, _⟩ := pullT_spec negInf hbot hI hds hT
  obtain ⟨nd, n1, n2, n3, n4⟩ := hp.node
  refine ⟨Pb, hp.marked, by rw [hp.marked]; rfl, hp.ext, hp.first, ?_,
    ⟨nd, n1, n2, n3, hp.pinv.fresh v nd n1 n3, n4, ?_⟩, ?_⟩
  · obtain ⟨_, pre, post, e, h⟩ := List.find?_eq_some_iff_append.1 hp.first
    exact ⟨pre, post, e, fun w hw => by simpa using h w hw⟩
  · rw [hp.marked]; exact mark_node_self n1
  · intro nd0 h0
    obtain ⟨nd', a1, _, _, _, _, _, a7⟩ := hp.ext.old v nd0 h0
    obtain rfl := getElem?_inj a1 n1
    rw [a7]; exact n3

/-! ### 3. The expansions -/

/-- Every expansion event of a `pull` (`trs` = one list of events per sweep): the facts `EvOK`
hold in the tree `ev.before` just before the expansion — the target is an evaluated leaf of
layer `ev.h ≤ min depth hmax`, the LAST leaf of maximal stored reward of that layer, and every
leaf of the layers `≤ ev.h` has been evaluated; along one sweep the layers strictly increase
and the scores do not decrease; each expansion consumes one draw. -/
theorem pull_expansions (negInf : S) (hbot : ∀ x, negInf ≤ x) {s s' : SOO α S} {time : Nat}
    {ds ds' : List (Draw α)} {v : Nat} {trs : List (List (Ev α (SwSt S) S))}
    (hI : Inv negInf s) (hds : ∀ d ∈ ds, DrawOKLen s.P.kind (dimn s.P) d)
    (hrun : pullT negInf s time ds = .ok (s', ds', v, trs)) :
    (∀ tr ∈ trs, TraceMono tr ∧
      ∀ ev ∈ tr, EvOK negInf s.hmax ev ∧ Ext (· = ·) (st0 negInf) s.P ev.before) ∧
    trs.flatten.length ≤ ds.length ∧ ds' = ds.drop trs.flatten.length := by
  obtain ⟨⟨Pb, hp⟩, _⟩ := pullT_spec negInf hbot hI hds hrun
  exact ⟨hp.evs, hp.len, hp.drop⟩

/-! ### 5. `receive` -/

/-- `receive_reward(r)` stores `r` in the handed-out cell and changes nothing else. -/
theorem receive_frame {s s' : SOO α S} {r : S} (hrun : receive s r = .ok s') :
    ∃ c, s.curr = some c ∧ s'.P = s.P.modifySt c (fun st => { st with reward := r }) ∧
      s'.iteration = s.iteration ∧ s'.hmax = s.hmax ∧ s'.curr = s.curr ∧
      s'.P.layers = s.P.layers ∧ s'.P.depth = s.P.depth ∧ s'.P.kind = s.P.kind ∧
      (∀ i, i ≠ c → s'.P.nodes[i]? = s.P.nodes[i]?) ∧
      (∀ nd, s.P.nodes[c]? = some nd →
        s'.P.nodes[c]? = some { nd with st := { nd.st with reward := r } }) := by
  unfold receive at hrun
  cases hc : s.curr with
  | none => simp [hc] at hrun
  | some c =>
    simp only [hc, Except.ok.injEq] at hrun
    subst hrun
    refine ⟨c, rfl, rfl, rfl, rfl, rfl, rfl, rfl, rfl, ?_, ?_⟩
    · intro i hi
      simp only [getElem?_modifySt]
      cases s.P.nodes[i]? with
      | none => rfl
      | some nd => simp [Ne.symm hi]
    · intro nd hnd
      simp [getElem?_modifySt, hnd]

/-! ### 4. Each cell is evaluated at most once -/

/-- Over a whole run, the evaluated cells are exactly the cells of the history, each cell is
handed out at most once, and the stored reward of an evaluated cell is the reward it
received. -/
theorem eval_once (negInf : S) (hbot : ∀ x, negInf ≤ x) (k : Kind) (domain : Box α) (hmax : Nat)
    (inputs : List (Input α S)) {s : SOO α S} {H : List (Nat × S)}
    (hds : ∀ x ∈ inputs, ∀ d ∈ x.2.1, DrawOKLen k domain.length d)
    (hrun : run negInf k domain hmax inputs = .ok (s, H)) :
    (H.map (·.1)).Nodup ∧ HistOK s.P H ∧ Inv negInf s := by
  obtain ⟨hI, hk, hd, _, _, hH⟩ := init_inv negInf k domain hmax
  obtain ⟨a1, a2, _⟩ := runRounds_hist negInf hbot inputs _ [] s H hI
    (by rw [hk, hd]; exact hds) hH hrun
  simp only [List.nil_append] at a1
  exact ⟨a1.nodup, a1, a2⟩

/-- The same from any invariant state. -/
theorem eval_once_from (negInf : S) (hbot : ∀ x, negInf ≤ x) (inputs : List (Input α S))
    {s s' : SOO α S} {H0 H : List (Nat × S)} (hI : Inv negInf s) (hH : HistOK s.P H0)
    (hds : ∀ x ∈ inputs, ∀ d ∈ x.2.1, DrawOKLen s.P.kind (dimn s.P) d)
    (hrun : runRounds negInf s inputs = .ok (s', H)) :
    ((H0 ++ H).map (·.1)).Nodup ∧ HistOK s'.P (H0 ++ H) ∧ Inv negInf s' := by
  obtain ⟨a1, a2, _⟩ := runRounds_hist negInf hbot inputs s H0 s' H hI hds hH hrun
  exact ⟨a1.nodup, a1, a2⟩

end SOO

/-! ## DOO -/

namespace DOO
variable {α S : Type} [Add α] [Sub α] [Mul α] [Div α] [OfNat α 2] [NatCast α]
variable [LinearOrder S] [Inhabited S]

/-- **Erasure**: the instrumented `pullT` computes `pull` (plus the expansion events). -/
theorem pull_erasure (cfg : DOOCfg α S) (s : DOO α S) (time : Nat) (ds : List (Draw α)) :
    pull cfg s time ds = (pullT cfg s time ds).map (fun x => (x.1, x.2.1, x.2.2.1)) :=
  pull_eq cfg s time ds

theorem pull_ok_iff_pullT (cfg : DOOCfg α S) (s : DOO α S) (time : Nat) (ds : List (Draw α))
    (s' : DOO α S) (ds' : List (Draw α)) (v : Nat) :
    pull cfg s time ds = .ok (s', ds', v) ↔ ∃ tr, pullT cfg s time ds = .ok (s', ds', v, tr) :=
  pull_ok_iff cfg s time ds s' ds' v

/-! ### 1. Invariant, totality -/

theorem init_Inv (cfg : DOOCfg α S) (k : Kind) (domain : Box α) : Inv cfg (init cfg k domain) :=
  (init_inv cfg k domain).1

theorem pull_Inv (cfg : DOOCfg α S) (hbot : ∀ x, cfg.negInf ≤ x) {s s' : DOO α S} {time : Nat}
    {ds ds' : List (Draw α)} {v : Nat} (hI : Inv cfg s)
    (hds : ∀ d ∈ ds, DrawOKLen s.P.kind (dimn s.P) d)
    (hrun : pull cfg s time ds = .ok (s', ds', v)) :
    Inv cfg s' ∧ s'.curr = some v ∧ s'.iteration = time ∧
      s'.P.kind = s.P.kind ∧ dimn s'.P = dimn s.P := by
  obtain ⟨tr, hT⟩ := (pull_ok_iff cfg s time ds s' ds' v).1 hrun
  obtain ⟨⟨Pb, hp⟩, h1, h2, h3⟩ := pullT_spec cfg hbot hI hds hT
  refine ⟨h1, h2, h3, ?_, ?_⟩
  · rw [hp.marked]; exact hp.ext.kind
  · rw [hp.marked]; exact (PRel_modifySt Pb v _).dimn_eq.trans hp.ext.dimn

/-- **Totality of `pull`** (no depth cap): given that `delta` never raises (`DeltaOK`) and one
well-formed draw, `pull` returns — the explicit fuel is never exhausted, `max_node` is never
`None`, no index error — and the tree gets at most one level deeper. -/
theorem pull_total (cfg : DOOCfg α S) (hbot : ∀ x, cfg.negInf ≤ x) (hδ : DeltaOK cfg)
    {s : DOO α S} (time : Nat) {ds : List (Draw α)} (hI : Inv cfg s) (hlen : 1 ≤ ds.length)
    (hds : ∀ d ∈ ds, DrawOKLen s.P.kind (dimn s.P) d) :
    ∃ s' ds' v, pull cfg s time ds = .ok (s', ds', v) ∧ Inv cfg s' ∧
      s'.P.depth ≤ s.P.depth + 1 := by
  obtain ⟨s', ds', v, tr, e, hd⟩ := pullT_total cfg hbot hδ time hI hlen hds
  have hp := (pull_ok_iff cfg s time ds s' ds' v).2 ⟨tr, e⟩
  exact ⟨s', ds', v, hp, (pull_Inv cfg hbot hI hds hp).1, hd⟩

theorem receive_total (cfg : DOOCfg α S) {s : DOO α S} (hI : Inv cfg s) {v : Nat}
    (hc : s.curr = some v) (r : S) :
    ∃ s', receive s r = .ok s' ∧ Inv cfg s' := by
  obtain ⟨nd, n1, n2⟩ := hI.curr v hc
  refine ⟨_, receive_eq hc r, hI.pinv.setReward n1 n2 r, ?_⟩
  intro c hc'
  obtain ⟨cn, c1, c2⟩ := hI.curr c hc'
  show ∃ nd, (setReward s.P v r).nodes[c]? = some nd ∧ nd.st.visited = true
  simp only [setReward, getElem?_modifySt, c1, Option.map_some]
  by_cases hvc : v = c <;> simp [hvc, c2]

/-- **The documented loop of DOO is total**, for any number of rounds. -/
theorem loop_total (cfg : DOOCfg α S) (hbot : ∀ x, cfg.negInf ≤ x) (hδ : DeltaOK cfg) (k : Kind)
    (domain : Box α) (inputs : List (Input α S)) (hin : InputsOK k domain.length inputs) :
    ∃ s H, run cfg k domain inputs = .ok (s, H) ∧ Inv cfg s ∧
      H.map (·.2) = inputs.map (·.2.2) ∧ s.P.depth ≤ inputs.length := by
  obtain ⟨hI, hk, hd, h0, hH⟩ := init_inv cfg k domain
  obtain ⟨s, H, e, hdep⟩ := runRounds_total cfg hbot hδ inputs _ hI (by rw [hk, hd]; exact hin)
  obtain ⟨_, a2, a3⟩ := runRounds_hist cfg hbot inputs _ [] s H hI
    (by rw [hk, hd]; exact fun x hx => (hin x hx).2) hH e
  exact ⟨s, H, e, a2, a3, by rw [h0] at hdep; omega⟩

/-! ### 2. The handed-out cell -/

/-- The cell `v` returned by `pull`: `s'.P` is a tree `Pb` (an extension of `s.P` in which the
`visited` flag and the stored reward of no old cell changed) with `v` marked; `v` is the FIRST
unevaluated leaf of `Pb` in top-down order; it was not evaluated before. -/
theorem pull_handed_out (cfg : DOOCfg α S) (hbot : ∀ x, cfg.negInf ≤ x) {s s' : DOO α S}
    {time : Nat} {ds ds' : List (Draw α)} {v : Nat} (hI : Inv cfg s)
    (hds : ∀ d ∈ ds, DrawOKLen s.P.kind (dimn s.P) d)
    (hrun : pull cfg s time ds = .ok (s', ds', v)) :
    ∃ Pb, s'.P = mark Pb v ∧ s'.P.layers = Pb.layers ∧ Ext SameVR (st0 cfg) s.P Pb ∧
      firstUnvisited Pb = some v ∧
      (∃ pre post, Pb.layers.flatten = pre ++ v :: post ∧
        ∀ w ∈ pre, unvisitedLeaf Pb w = false) ∧
      (∃ nd, Pb.nodes[v]? = some nd ∧ nd.children = none ∧ nd.st.visited = false ∧
        nd.st.reward = cfg.reward0 ∧
        s'.P.nodes[v]? = some { nd with st := { nd.st with visited := true } }) ∧
      (∀ nd, s.P.nodes[v]? = some nd → nd.st.visited = false) := by
  obtain ⟨tr, hT⟩ := (pull_ok_iff cfg s time ds s' ds' v).1 hrun
  obtain ⟨⟨Pb, hp⟩, _⟩ := pullT_spec cfg hbot hI hds hT
  obtain ⟨nd, n1, n2, n3⟩ := hp.node
  refine ⟨Pb, hp.marked, by rw [hp.marked]; rfl, hp.ext, hp.first, ?_,
    ⟨nd, n1, n2, n3, hp.pinv.fresh v nd n1 n3, ?_⟩, ?_⟩
  · obtain ⟨_, pre, post, e, h⟩ := List.find?_eq_some_iff_append.1 hp.first
    exact ⟨pre, post, e, fun w hw => by simpa using h w hw⟩
  · rw [hp.marked]; exact mark_node_self n1
  · intro nd0 h0
    obtain ⟨nd', a1, _, _, _, _, _, a7⟩ := hp.ext.old v nd0 h0
    obtain rfl := getElem?_inj a1 n1
    rw [← a7.1]; exact n3

/-! ### 3. The expansions -/

/-- A `pull` of DOO performs at most one expansion; it happens only when EVERY leaf of the tree
has been evaluated (`EvOK.low`, equivalently `firstUnvisited ev.before = none`), and the expanded
cell is the LAST leaf, in top-down order, of maximal `b_value = reward + delta(depth)` over all
leaves (`EvOK.best`, `EvOK.deltas`). -/
theorem pull_expansions (cfg : DOOCfg α S) (hbot : ∀ x, cfg.negInf ≤ x) {s s' : DOO α S}
    {time : Nat} {ds ds' : List (Draw α)} {v : Nat} {tr : List (Ev α (SwSt S) S)}
    (hI : Inv cfg s) (hds : ∀ d ∈ ds, DrawOKLen s.P.kind (dimn s.P) d)
    (hrun : pullT cfg s time ds = .ok (s', ds', v, tr)) :
    tr.length ≤ 1 ∧ tr.length ≤ ds.length ∧ ds' = ds.drop tr.length ∧
    ∀ ev ∈ tr, EvOK cfg ev ∧ firstUnvisited ev.before = none ∧
      Ext SameVR (st0 cfg) s.P ev.before := by
  obtain ⟨⟨Pb, hp⟩, _⟩ := pullT_spec cfg hbot hI hds hrun
  refine ⟨hp.le1, hp.len, hp.drop, fun ev hev => ?_⟩
  obtain ⟨a, b⟩ := hp.evs ev hev
  exact ⟨a, firstUnvisited_none a.pinv.wf a.low, b⟩

/-- If `delta` does not read the stored `b_value`s (`DeltaStable`), the `b_value` of every leaf
at the moment of an expansion is `bOf reward (delta(depth))` with `delta` computed on the tree
`ev.before` itself. -/
theorem expansion_scores (cfg : DOOCfg α S) (hst : DeltaStable cfg) {ev : Ev α (SwSt S) S}
    (hev : EvOK cfg ev) (w : Nat) (nd : Node α (SwSt S)) (hw : ev.before.nodes[w]? = some nd)
    (hleaf : nd.children = none) :
    ∃ δ, cfg.delta ev.before nd.depth = .ok δ ∧ nd.st.b = cfg.bOf nd.st.reward δ := by
  obtain ⟨Ph, δ, a1, a2, a3⟩ := hev.deltas nd.depth (hev.pinv.wf.depth_le w nd hw)
  exact ⟨δ, by rw [hst Ph ev.before nd.depth a1]; exact a2, a3 w nd hw hleaf rfl⟩

/-! ### 5. `receive` -/

theorem receive_frame {s s' : DOO α S} {r : S} (hrun : receive s r = .ok s') :
    ∃ c, s.curr = some c ∧ s'.P = s.P.modifySt c (fun st => { st with reward := r }) ∧
      s'.iteration = s.iteration ∧ s'.curr = s.curr ∧
      s'.P.layers = s.P.layers ∧ s'.P.depth = s.P.depth ∧ s'.P.kind = s.P.kind ∧
      (∀ i, i ≠ c → s'.P.nodes[i]? = s.P.nodes[i]?) ∧
      (∀ nd, s.P.nodes[c]? = some nd →
        s'.P.nodes[c]? = some { nd with st := { nd.st with reward := r } }) := by
  unfold receive at hrun
  cases hc : s.curr with
  | none => simp [hc] at hrun
  | some c =>
    simp only [hc, Except.ok.injEq] at hrun
    subst hrun
    refine ⟨c, rfl, rfl, rfl, rfl, rfl, rfl, rfl, ?_, ?_⟩
    · intro i hi
      simp only [getElem?_modifySt]
      cases s.P.nodes[i]? with
      | none => rfl
      | some nd => simp [Ne.symm hi]
    · intro nd hnd
      simp [getElem?_modifySt, hnd]

/-! ### 4. Each cell is evaluated at most once -/

theorem eval_once (cfg : DOOCfg α S) (hbot : ∀ x, cfg.negInf ≤ x) (k : Kind) (domain : Box α)
    (inputs : List (Input α S)) {s : DOO α S} {H : List (Nat × S)}
    (hds : ∀ x ∈ inputs, ∀ d ∈ x.2.1, DrawOKLen k domain.length d)
    (hrun : run cfg k domain inputs = .ok (s, H)) :
    (H.map (·.1)).Nodup ∧ HistOK s.P H ∧ Inv cfg s := by
  obtain ⟨hI, hk, hd, _, hH⟩ := init_inv cfg k domain
  obtain ⟨a1, a2, _⟩ := runRounds_hist cfg hbot inputs _ [] s H hI
    (by rw [hk, hd]; exact hds) hH hrun
  simp only [List.nil_append] at a1
  exact ⟨a1.nodup, a1, a2⟩

theorem eval_once_from (cfg : DOOCfg α S) (hbot : ∀ x, cfg.negInf ≤ x)
    (inputs : List (Input α S))
    {s s' : DOO α S} {H0 H : List (Nat × S)} (hI : Inv cfg s) (hH : HistOK s.P H0)
    (hds : ∀ x ∈ inputs, ∀ d ∈ x.2.1, DrawOKLen s.P.kind (dimn s.P) d)
    (hrun : runRounds cfg s inputs = .ok (s', H)) :
    ((H0 ++ H).map (·.1)).Nodup ∧ HistOK s'.P (H0 ++ H) ∧ Inv cfg s' := by
  obtain ⟨a1, a2, _⟩ := runRounds_hist cfg hbot inputs s H0 s' H hI hds hH hrun
  exact ⟨a1.nodup, a1, a2⟩

end DOO

/-! ## StoSOO -/

namespace StoSOO
variable {α R S : Type} [Add α] [Sub α] [Mul α] [Div α] [OfNat α 2] [NatCast α]
variable [LinearOrder S] [Inhabited S] [Inhabited R]

/-- **Erasure**: the instrumented `pullT` computes `pull` (plus the expansion events). -/
theorem pull_erasure (cfg : StoCfg S R) (s : StoSOO α R S) (time : Nat) (ds : List (Draw α)) :
    pull cfg s time ds = (pullT cfg s time ds).map (fun x => (x.1, x.2.1, x.2.2.1)) :=
  pull_eq cfg s time ds

theorem pull_ok_iff_pullT (cfg : StoCfg S R) (s : StoSOO α R S) (time : Nat)
    (ds : List (Draw α)) (s' : StoSOO α R S) (ds' : List (Draw α)) (v : Nat) :
    pull cfg s time ds = .ok (s', ds', v) ↔ ∃ tr, pullT cfg s time ds = .ok (s', ds', v, tr) :=
  pull_ok_iff cfg s time ds s' ds' v

/-! ### 1. Invariant, totality -/

theorem init_Inv (cfg : StoCfg S R) (k : Kind) (domain : Box α) : Inv cfg (init cfg k domain) :=
  (init_inv cfg k domain).1

/-- `pull` leads from the invariant `Inv` to `Ready` (the invariant between `pull` and
`receive`: `Inv` plus the description `Handed` of the cell addressed by `s'.sel`). -/
theorem pull_Ready (cfg : StoCfg S R) {s s' : StoSOO α R S} {time : Nat}
    {ds ds' : List (Draw α)} {v : Nat} (hI : Inv cfg s)
    (hds : ∀ d ∈ ds, DrawOKLen s.P.kind (dimn s.P) d)
    (hrun : pull cfg s time ds = .ok (s', ds', v)) :
    Ready cfg s' v ∧ s'.iteration = time ∧ s'.P.kind = s.P.kind ∧ dimn s'.P = dimn s.P ∧
      Ext (Refr cfg) (st0 cfg) s.P s'.P := by
  obtain ⟨tr, hT⟩ := (pull_ok_iff cfg s time ds s' ds' v).1 hrun
  obtain ⟨⟨h, j, _, hp⟩, h1, h2⟩ := pullT_spec cfg hI hds hT
  exact ⟨h1, h2, hp.ext.kind, hp.ext.dimn, hp.ext⟩

/-- **Totality of `pull`**: if the depth cap is not reached (`depth + 1 ≤ h_max`), the budget is
not exhausted (`time ≤ n`), `k ≥ 1` (`countLT 0`) and one well-formed draw is supplied, `pull`
returns: the fuel is never exhausted, `node_list[h]` is never indexed out of range, `pull`
does not fall off its loop; the tree gets at most one level deeper. -/
theorem pull_total (cfg : StoCfg S R) (hbot : ∀ x, cfg.negInf ≤ x) (htop : ∀ x, x ≤ cfg.inf)
    (hk0 : cfg.countLT 0 = true) {s : StoSOO α R S} {time : Nat} {ds : List (Draw α)}
    (hI : Inv cfg s) (hcap : s.P.depth + 1 ≤ cfg.hmax) (ht : time ≤ cfg.n)
    (hlen : 1 ≤ ds.length) (hds : ∀ d ∈ ds, DrawOKLen s.P.kind (dimn s.P) d) :
    ∃ s' ds' v, pull cfg s time ds = .ok (s', ds', v) ∧ Ready cfg s' v ∧
      s'.P.depth ≤ s.P.depth + 1 := by
  obtain ⟨s', ds', v, tr, e, hd⟩ := pullT_total cfg hbot htop hk0 hI hcap ht hlen hds
  have hp := (pull_ok_iff cfg s time ds s' ds' v).2 ⟨tr, e⟩
  exact ⟨s', ds', v, hp, (pull_Ready cfg hI hds hp).1, hd⟩

/-- `receive` after `pull` returns and re-establishes the invariant; it changes only the
payload of the handed-out cell: one more reward, `visited_times + 1`, the new mean (5.). -/
theorem receive_total (cfg : StoCfg S R) {s : StoSOO α R S} {v : Nat} (r : R)
    (hR : Ready cfg s v) :
    ∃ s', receive cfg s r = .ok s' ∧ Inv cfg s' ∧
      s'.P = s.P.modifySt v (fun st =>
        { st with count := st.count + 1, rewards := st.rewards ++ [r],
                  mean := cfg.meanOf (st.rewards ++ [r]) (st.count + 1) }) ∧
      s'.iteration = s.iteration ∧ s'.bmax = s.bmax ∧ s'.sel = s.sel :=
  receive_spec cfg r hR

/-- Frame of `receive` (5.): skeleton and every other cell unchanged. -/
theorem receive_only_handed_out (cfg : StoCfg S R) {s s' : StoSOO α R S} {v : Nat} {r : R}
    (hR : Ready cfg s v) (hrun : receive cfg s r = .ok s') :
    s'.P.kind = s.P.kind ∧ s'.P.layers = s.P.layers ∧ s'.P.depth = s.P.depth ∧
      s'.P.nodes.length = s.P.nodes.length ∧
      (∀ i, i ≠ v → s'.P.nodes[i]? = s.P.nodes[i]?) ∧
      ∃ nd nd', s.P.nodes[v]? = some nd ∧ s'.P.nodes[v]? = some nd' ∧
        nd'.depth = nd.depth ∧ nd'.index = nd.index ∧ nd'.parent = nd.parent ∧
        nd'.children = nd.children ∧ nd'.box = nd.box ∧
        nd'.st.count = nd.st.count + 1 ∧ nd'.st.rewards = nd.st.rewards ++ [r] ∧
        nd'.st.mean = cfg.meanOf (nd.st.rewards ++ [r]) (nd.st.count + 1) := by
  obtain ⟨a1, a2, a3, a4, _, a6, nd, nd', b1, b2, b3, b4, b5, b6, b7, b8, b9, b10, _⟩ :=
    receive_frame cfg hR hrun
  exact ⟨a1, a2, a3, a4, a6, nd, nd', b1, b2, b3, b4, b5, b6, b7, b8, b9, b10⟩

/-- **The documented loop is total** for `T ≤ h_max` rounds with `time ≤ n`. -/
theorem loop_total (cfg : StoCfg S R) (hbot : ∀ x, cfg.negInf ≤ x) (htop : ∀ x, x ≤ cfg.inf)
    (hk0 : cfg.countLT 0 = true) (k : Kind) (domain : Box α) (inputs : List (Input α R))
    (hin : InputsOK k domain.length inputs) (hn : ∀ x ∈ inputs, x.1 ≤ cfg.n)
    (hT : inputs.length ≤ cfg.hmax) :
    ∃ s H, run cfg k domain inputs = .ok (s, H) ∧ Inv cfg s ∧
      H.map (·.2) = inputs.map (·.2.2) ∧ s.P.depth ≤ inputs.length := by
  obtain ⟨s, H, e, a1, a2, a3, _⟩ := run_ok cfg hbot htop hk0 k domain inputs hin hn hT
  exact ⟨s, H, e, a1, a2, a3⟩

/-! ### 2. The handed-out cell -/

/-- The cell `v` returned by `pull` is `node_list[h][j]` for the stored `sel = (h, j)`; it is a
leaf of depth `h ≤ h_max` evaluated fewer than `k` times; every leaf of its layer carries a
refreshed `b` (`st = computeB st`), and `v` is the LAST leaf of maximal `b` of the layer. -/
theorem pull_handed_out (cfg : StoCfg S R) {s s' : StoSOO α R S} {time : Nat}
    {ds ds' : List (Draw α)} {v : Nat} (hI : Inv cfg s)
    (hds : ∀ d ∈ ds, DrawOKLen s.P.kind (dimn s.P) d)
    (hrun : pull cfg s time ds = .ok (s', ds', v)) :
    ∃ h j l nd, s'.sel = some (h, j) ∧ h ≤ cfg.hmax ∧ s'.P.layers[h]? = some l ∧
      l[j]? = some v ∧ s'.P.nodes[v]? = some nd ∧ nd.children = none ∧ nd.depth = h ∧
      cfg.countLT nd.st.count = true ∧
      (∀ w ∈ l, ∀ nw, s'.P.nodes[w]? = some nw → nw.children = none →
        nw.st = computeB cfg nw.st) ∧
      IsLastMax (leafScore s'.P (·.b)) l v nd.st.b := by
  obtain ⟨⟨_, h, j, hsel, hle, l, a1, a2, a3, nd, b1, b2, b3, b4, b5⟩, _⟩ :=
    pull_Ready cfg hI hds hrun
  exact ⟨h, j, l, nd, hsel, hle, a1, a2, b1, b2, b3, b4, a3, b5⟩

/-! ### 3. The expansions -/

/-- Every expansion event of a `pull`: in the tree `ev.before` the target is a leaf of layer
`ev.h ≤ min depth h_max` which has been evaluated `k` times (`countLT count = false`), the LAST
leaf of maximal refreshed `b` of its layer; along the sweep the layers strictly increase and the
`b`-values do not decrease; each expansion consumes one draw. -/
theorem pull_expansions (cfg : StoCfg S R) {s s' : StoSOO α R S} {time : Nat}
    {ds ds' : List (Draw α)} {v : Nat} {tr : List (Ev α (TBSt R S) S)}
    (hI : Inv cfg s) (hds : ∀ d ∈ ds, DrawOKLen s.P.kind (dimn s.P) d)
    (hrun : pullT cfg s time ds = .ok (s', ds', v, tr)) :
    TraceMono tr ∧
    (∀ ev ∈ tr, EvOK cfg ev ∧ cfg.negInf ≤ ev.score ∧ Ext (Refr cfg) (st0 cfg) s.P ev.before) ∧
    tr.length ≤ ds.length ∧ ds' = ds.drop tr.length := by
  obtain ⟨⟨h, j, _, hp⟩, _⟩ := pullT_spec cfg hI hds hrun
  exact ⟨hp.mono, fun ev hev => ⟨(hp.evs ev hev).1, (hp.evs ev hev).2.2.1, (hp.evs ev hev).2.2.2⟩,
    hp.len, hp.drop⟩

/-! ### 4. No cell is evaluated more than `k` times -/

/-- In every state reachable by the documented loop the invariant holds; in particular
(`PInv.atMostK`) every evaluation of a cell was made while `visited_times < k`, and
(`PInv.internal`) every internal cell has been evaluated `k` times. -/
theorem eval_at_most_k (cfg : StoCfg S R) (k : Kind) (domain : Box α)
    (inputs : List (Input α R)) {s : StoSOO α R S} {H : List (Nat × R)}
    (hds : ∀ x ∈ inputs, ∀ d ∈ x.2.1, DrawOKLen k domain.length d)
    (hrun : run cfg k domain inputs = .ok (s, H)) :
    Inv cfg s ∧ ∀ (i : Nat) (nd : Node α (TBSt R S)), s.P.nodes[i]? = some nd →
      nd.st.count = nd.st.rewards.length ∧
      (nd.st.count > 0 → cfg.countLT (nd.st.count - 1) = true) ∧
      (nd.children ≠ none → cfg.countLT nd.st.count = false) := by
  obtain ⟨hI, hk, hd, _⟩ := init_inv cfg k domain
  obtain ⟨a, _⟩ := runRounds_inv cfg inputs _ s H hI (by rw [hk, hd]; exact hds) hrun
  exact ⟨a, fun i nd hi => ⟨a.count i nd hi, a.atMostK i nd hi, a.internal i nd hi⟩⟩

/-- With the code's test `visited_times < k`: `visited_times ≤ k` in every reachable state, and
internal cells have `visited_times ≥ k`. -/
theorem count_le_k (cfg : StoCfg S R) (kk : Nat) (hk : cfg.countLT = fun c => decide (c < kk))
    {P : Part α (TBSt R S)} (hI : PInv cfg P) (i : Nat) (nd : Node α (TBSt R S))
    (hi : P.nodes[i]? = some nd) :
    (1 ≤ kk → nd.st.count ≤ kk) ∧ (nd.children ≠ none → kk ≤ nd.st.count) := by
  constructor
  · intro h1
    by_cases h0 : nd.st.count > 0
    · have := hI.atMostK i nd hi h0
      rw [hk] at this
      simp only [decide_eq_true_eq] at this
      omega
    · omega
  · intro hne
    have := hI.internal i nd hi hne
    rw [hk] at this
    simp only [decide_eq_false_iff_not] at this
    omega

/-- The rewards stored in a cell are exactly the rewards of the rounds which handed out that
cell, so `visited_times` is the number of times the cell was handed out (evaluated). -/
theorem evaluations_eq_history (cfg : StoCfg S R) (k : Kind) (domain : Box α)
    (inputs : List (Input α R)) {s : StoSOO α R S} {H : List (Nat × R)}
    (hds : ∀ x ∈ inputs, ∀ d ∈ x.2.1, DrawOKLen k domain.length d)
    (hrun : run cfg k domain inputs = .ok (s, H)) :
    (∀ e ∈ H, e.1 < s.P.nodes.length) ∧
    ∀ (i : Nat) (nd : Node α (TBSt R S)), s.P.nodes[i]? = some nd →
      nd.st.rewards = (H.filter (fun e => decide (e.1 = i))).map (·.2) ∧
      nd.st.count = (H.filter (fun e => decide (e.1 = i))).length := by
  obtain ⟨hI, hk, hd, _⟩ := init_inv cfg k domain
  have hH := runRounds_hist cfg inputs _ s [] H hI (by rw [hk, hd]; exact hds)
    (HistOK.init cfg k domain) hrun
  obtain ⟨a, _⟩ := runRounds_inv cfg inputs _ s H hI (by rw [hk, hd]; exact hds) hrun
  simp only [List.nil_append] at hH
  refine ⟨hH.valid, fun i nd hi => ⟨hH.rewards i nd hi, ?_⟩⟩
  rw [a.count i nd hi, hH.rewards i nd hi, List.length_map]

/-- **StoSOO hands out (evaluates) every cell at most `k` times** over a whole run, for the
code's test `visited_times < k` with `k ≥ 1`. -/
theorem handed_out_at_most_k (cfg : StoCfg S R) (kk : Nat)
    (hk : cfg.countLT = fun c => decide (c < kk)) (h1 : 1 ≤ kk) (k : Kind) (domain : Box α)
    (inputs : List (Input α R)) {s : StoSOO α R S} {H : List (Nat × R)}
    (hds : ∀ x ∈ inputs, ∀ d ∈ x.2.1, DrawOKLen k domain.length d)
    (hrun : run cfg k domain inputs = .ok (s, H)) (i : Nat) :
    (H.filter (fun e => decide (e.1 = i))).length ≤ kk := by
  obtain ⟨hv, hr⟩ := evaluations_eq_history cfg k domain inputs hds hrun
  obtain ⟨hI, _⟩ := eval_at_most_k cfg k domain inputs hds hrun
  by_cases hlt : i < s.P.nodes.length
  · obtain ⟨nd, hnd⟩ : ∃ nd, s.P.nodes[i]? = some nd := ⟨_, List.getElem?_eq_getElem hlt⟩
    rw [← (hr i nd hnd).2]
    exact (count_le_k cfg kk hk hI i nd hnd).1 h1
  · have hnil : H.filter (fun e => decide (e.1 = i)) = [] := by
      rw [List.filter_eq_nil_iff]
      intro e he
      have := hv e he
      simp only [decide_eq_true_eq]; omega
    rw [hnil]; exact Nat.zero_le _

end StoSOO

/-! ## Non-vacuity: concrete runs (`α := Nat`; scores `WithBot ℤ` for SOO / DOO, `Fin 100` for
StoSOO, so that bottom / top elements exist) -/

namespace Ex08

/-- the square `[0,8] × [0,8]` -/
def dom2 : Box Nat := [⟨0, 8⟩, ⟨0, 8⟩]
def dr (dim : Nat) : Draw Nat := ⟨dim, []⟩

abbrev Sc := WithBot Int
def sc (i : Int) : Sc := (i : WithBot Int)
theorem botLe : ∀ x : Sc, (⊥ : Sc) ≤ x := fun _ => bot_le

/-- the exception raised, if any -/
def errOf {β : Type} : Except Err β → Option Err
  | .error e => some e
  | .ok _ => none

theorem eq_error_of_errOf {β : Type} {x : Except Err β} {e : Err} (h : errOf x = some e) :
    x = .error e := by
  cases x with
  | error e' => simp only [errOf, Option.some.injEq] at h; rw [h]
  | ok _ => simp [errOf] at h

/-! ### SOO -/

def inSOO : List (Input Nat Sc) :=
  [(1, [dr 0], sc 5), (2, [dr 1], sc (-3)), (3, [dr 0], sc 7), (4, [dr 1], sc 2)]

/-- the state after the first `n` rounds -/
def stSOO (hmax n : Nat) : SOO Nat Sc :=
  match SOO.run ⊥ .binary dom2 hmax (inSOO.take n) with
  | .ok x => x.1
  | .error _ => SOO.init ⊥ .binary dom2 hmax

example : InputsOK .binary dom2.length inSOO := by decide

/-- the history of four rounds: the root, its two children, then a grandchild -/
example : (SOO.run ⊥ .binary dom2 10 inSOO).toOption.map (·.2) =
    some [(0, sc 5), (1, sc (-3)), (2, sc 7), (3, sc 2)] := by decide

example : (stSOO 10 4).P.layers = [[0], [1, 2], [3, 4]] := by decide

/-- `loop_total` applies -/
example : ∃ s H, SOO.run ⊥ .binary dom2 10 inSOO = .ok (s, H) ∧ SOO.Inv ⊥ s ∧
    H.map (·.2) = inSOO.map (·.2.2) ∧ s.P.depth ≤ inSOO.length :=
  SOO.loop_total ⊥ botLe .binary dom2 10 inSOO (by decide) (by decide)

/-- the fifth `pull`: layer 1 has no unevaluated leaf, its only leaf `1` (reward `-3`) is
expanded (one event), and the cell handed out is `4` — the first unevaluated leaf in top-down
order, which is NOT a child of the cell just expanded. -/
example : (SOO.pullT ⊥ (stSOO 10 4) 5 [dr 0]).toOption.map (·.2.2.1) = some 4 ∧
    (SOO.pullT ⊥ (stSOO 10 4) 5 [dr 0]).toOption.map
      (fun x => x.2.2.2.flatten.map (fun ev => (ev.h, ev.id, ev.score))) =
    some [(1, 1, sc (-3))] := by decide

/-- the hypotheses of `pull_total` / `pull_handed_out` hold in that state -/
example : (stSOO 10 4).P.depth < (stSOO 10 4).hmax ∧
    ∀ d ∈ [dr 0], DrawOKLen (stSOO 10 4).P.kind (dimn (stSOO 10 4).P) d := by decide

/-- **Beyond the depth cap** (`hmax = 0`, the root has been evaluated): `pull` expands the root,
finds no cell of depth `≤ hmax` to hand out, and then sweeps for ever — the model runs out of
fuel (the Python code hangs). -/
theorem SOO_pull_outOfFuel_counterexample :
    (stSOO 0 1).P.depth = (stSOO 0 1).hmax ∧
    SOO.pull ⊥ (stSOO 0 1) 2 [dr 0] = .error .outOfFuel :=
  ⟨by decide, eq_error_of_errOf (by decide)⟩

/-- The same from a state in which no leaf of depth `≤ hmax` exists (root split, cap 0). -/
theorem SOO_pull_outOfFuel_counterexample' :
    ({ stSOO 10 2 with hmax := 0 } : SOO Nat Sc).P.layers = [[0], [1, 2]] ∧
    SOO.pull ⊥ { stSOO 10 2 with hmax := 0 } 3 [dr 0] = .error .outOfFuel :=
  ⟨by decide, eq_error_of_errOf (by decide)⟩

/-! ### DOO -/

def addSc : Sc → Sc → Sc
  | some a, some b => some (a + b)
  | _, _ => ⊥

/-- `delta(h) = 10 - 2h`, `b = reward + delta`, repaired initial reward `-inf` -/
def cfgDOO : DOOCfg Nat Sc :=
  { negInf := ⊥, inf := sc 1000, reward0 := ⊥, bOf := addSc,
    delta := fun _ h => .ok (sc (10 - 2 * (h : Int))) }

theorem cfgDOO_deltaOK : DOO.DeltaOK cfgDOO := fun _ _ _ _ => ⟨_, rfl⟩
theorem cfgDOO_deltaStable : DOO.DeltaStable cfgDOO := fun _ _ _ _ => rfl

def inDOO : List (Input Nat Sc) :=
  [(1, [dr 0], sc 5), (2, [dr 1], sc (-3)), (3, [dr 0], sc 7), (4, [dr 1], sc 2),
   (5, [dr 0], sc 1)]

def stDOO (n : Nat) : DOO Nat Sc :=
  match DOO.run cfgDOO .binary dom2 (inDOO.take n) with
  | .ok x => x.1
  | .error _ => DOO.init cfgDOO .binary dom2

example : (DOO.run cfgDOO .binary dom2 inDOO).toOption.map (·.2) =
    some [(0, sc 5), (1, sc (-3)), (2, sc 7), (3, sc 2), (4, sc 1)] := by decide

example : ∃ s H, DOO.run cfgDOO .binary dom2 inDOO = .ok (s, H) ∧ DOO.Inv cfgDOO s ∧
    H.map (·.2) = inDOO.map (·.2.2) ∧ s.P.depth ≤ inDOO.length :=
  DOO.loop_total cfgDOO botLe cfgDOO_deltaOK .binary dom2 inDOO (by decide)

/-- the sixth `pull`: all leaves `1, 3, 4` are evaluated; `b = -3 + 8, 2 + 6, 1 + 6`; the
last maximum `3` is expanded and its first child `5` handed out. -/
example : (DOO.pullT cfgDOO (stDOO 5) 6 [dr 0]).toOption.map (·.2.2.1) = some 5 ∧
    (DOO.pullT cfgDOO (stDOO 5) 6 [dr 0]).toOption.map
      (fun x => x.2.2.2.map (fun ev => (ev.h, ev.id, ev.score))) =
    some [(2, 3, sc 8)] := by decide

/-! ### StoSOO -/

abbrev Sf := Fin 100

/-- `k = 2`, `mean = min 90 (sum / count)`, `b = min 98 (mean + 8 / count)` -/
def cfgSto : StoCfg Sf Nat :=
  { negInf := 0, inf := 99, zero := 0, n := 50,
    meanOf := fun rs c => ⟨min 90 (rs.sum / c), by omega⟩,
    bOf := fun m c => ⟨min 98 (m.val + 8 / c), by omega⟩,
    countLT := fun c => decide (c < 2), hmax := 6 }

theorem cfgSto_bot : ∀ x : Sf, cfgSto.negInf ≤ x := fun x => Fin.zero_le x
theorem cfgSto_top : ∀ x : Sf, x ≤ cfgSto.inf := by decide

def inSto : List (Input Nat Nat) :=
  [(1, [dr 0], 5), (2, [dr 1], 7), (3, [dr 0], 3), (4, [dr 1], 4), (5, [dr 0], 9),
   (6, [dr 1], 2)]

def stSto (n : Nat) : StoSOO Nat Nat Sf :=
  match StoSOO.run cfgSto .binary dom2 (inSto.take n) with
  | .ok x => x.1
  | .error _ => StoSOO.init cfgSto .binary dom2

/-- the root is evaluated twice (`k = 2`), then split; then its children (the one with the
larger `b` first) -/
example : (StoSOO.run cfgSto .binary dom2 inSto).toOption.map (·.2) =
    some [(0, 5), (0, 7), (2, 3), (1, 4), (1, 9), (2, 2)] := by decide

example : ∃ s H, StoSOO.run cfgSto .binary dom2 inSto = .ok (s, H) ∧ StoSOO.Inv cfgSto s ∧
    H.map (·.2) = inSto.map (·.2.2) ∧ s.P.depth ≤ inSto.length :=
  StoSOO.loop_total cfgSto cfgSto_bot cfgSto_top rfl .binary dom2 inSto (by decide) (by decide)
    (by decide)

/-- the third `pull` expands the root (evaluated `k` times) and hands out its last child -/
example : (StoSOO.pullT cfgSto (stSto 2) 3 [dr 0]).toOption.map (fun x => (x.2.2.1, x.1.sel)) =
      some (2, some (1, 1)) ∧
    (StoSOO.pullT cfgSto (stSto 2) 3 [dr 0]).toOption.map
      (fun x => x.2.2.2.map (fun ev => (ev.h, ev.id, ev.score))) =
    some [(0, 0, 10)] := by decide

/-- **`k = 0`** (the hypothesis `countLT 0 = true` of `pull_total` is needed): no cell can ever
be handed out; `pull` expands down to the depth cap (here `h_max = 2`) and falls off its loop
(returns `None`). -/
theorem StoSOO_pull_k0_counterexample :
    StoSOO.pull { cfgSto with countLT := fun _ => false, hmax := 2 }
      (StoSOO.init cfgSto .binary dom2) 1
      [dr 0, dr 1, dr 0, dr 1, dr 0, dr 1, dr 0, dr 1] = .error .returnedNone :=
  eq_error_of_errOf (by decide)

end Ex08

end PyXAB
