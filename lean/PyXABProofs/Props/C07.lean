/-
  C07 — "simple-regret algorithms recommend their best evaluated candidate".
  The property theorems live next to the models they are about; this module gathers them:
    * SOO, DOO, StoSOO      : Props/C07sweep.lean (`SOO.lastPoint_best`, `DOO.lastPoint_best`,
                              `StoSOO.lastPoint_deepest`, DOO counterexample for a finite default reward)
    * SequOOL               : Props/C07seq.lean  (`lastPoint_spec`, `recommendation`)
    * POO                   : Props/C10.lean     (`POO_lastPoint`)
    * GPO / PCT / VPCT      : Props/C09.lean     (`GPO_done`, `GPO_total`)
  The check audits all of these modules for C07.
-/
import PyXABProofs.Props.C07sweep
import PyXABProofs.Props.C07seq
import PyXABProofs.Props.C09
import PyXABProofs.Props.C10
