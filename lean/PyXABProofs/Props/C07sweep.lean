/-
  Property C07 (sweep part) — the recommendation `get_last_point` of SOO, DOO and StoSOO.

  SOO / DOO: in every state reached by complete rounds (at least one), if every received reward
  is above `negInf` (and, for DOO, the initial stored reward `cfg.reward0` is `cfg.negInf`), then
  `get_last_point` returns an EVALUATED cell whose received reward is maximal among all received
  rewards — whatever the sign of the rewards.  With the code's `reward0 = 0` DOO can recommend a
  cell which was never evaluated (`DOO.lastPoint_counterexample`).

  StoSOO: `get_last_point` returns the LAST cell of the deepest layer with maximal stored mean.
-/
import PyXABProofs.Props.C08

set_option linter.unusedSectionVars false

namespace PyXAB
open Tree TBA SW

namespace SOO
variable {α S : Type} [Add α] [Sub α] [Mul α] [Div α] [OfNat α 2] [NatCast α]
variable [LinearOrder S] [Inhabited S]

/-- From any invariant state whose evaluated cells are described by the history `H`
(`HistOK`: evaluated = handed out and rewarded, stored reward = received reward). -/
theorem lastPoint_of_hist (negInf : S) (hbot : ∀ x, negInf ≤ x) {s : SOO α S}
    {H : List (Nat × S)} (hI : Inv negInf s) (hH : HistOK s.P H) (hne : H ≠ [])
    (hpos : ∀ e ∈ H, negInf < e.2) :
    ∃ v rv nd, lastPoint negInf s = .ok v ∧ (v, rv) ∈ H ∧ s.P.nodes[v]? = some nd ∧
      nd.st.visited = true ∧ nd.st.reward = rv ∧ (∀ e ∈ H, e.2 ≤ rv) ∧
      (∀ (w : Nat) (nw : Node α (SwSt S)), s.P.nodes[w]? = some nw → nw.st.visited = true →
        nw.st.reward ≤ rv) ∧
      IsLastMax (nodeScore s.P (·.reward)) s.P.layers.flatten v rv := by
  obtain ⟨v, rv, h1, h2, h3, h4⟩ := argmaxListed_spec hbot hI.pinv hH hne hpos
  obtain ⟨nd, n1, n2, n3⟩ := hH.valid _ h2
  refine ⟨v, rv, nd, by unfold lastPoint; rw [h1], h2, n1, n2, n3, h3, ?_, h4⟩
  intro w nw hw hv
  obtain ⟨e, he, rfl⟩ := List.mem_map.1 (hH.visited w nw hw hv)
  obtain ⟨nd', m1, _, m3⟩ := hH.valid e he
  obtain rfl := getElem?_inj hw m1
  rw [m3]; exact h3 e he

/-- **C07 for SOO**: after `init` and `T ≥ 1` complete rounds with rewards `> negInf`,
`get_last_point` returns a cell `v` which was handed out and whose received reward `rv` is the
maximum of all received rewards; equivalently, no evaluated cell stores a larger reward. -/
theorem lastPoint_best (negInf : S) (hbot : ∀ x, negInf ≤ x) (k : Kind) (domain : Box α)
    (hmax : Nat) (inputs : List (Input α S)) {s : SOO α S} {H : List (Nat × S)}
    (hds : ∀ x ∈ inputs, ∀ d ∈ x.2.1, DrawOKLen k domain.length d)
    (hrun : run negInf k domain hmax inputs = .ok (s, H)) (hne : inputs ≠ [])
    (hpos : ∀ x ∈ inputs, negInf < x.2.2) :
    ∃ v rv nd, lastPoint negInf s = .ok v ∧ (v, rv) ∈ H ∧ s.P.nodes[v]? = some nd ∧
      nd.st.visited = true ∧ nd.st.reward = rv ∧ (∀ e ∈ H, e.2 ≤ rv) ∧
      (∀ (w : Nat) (nw : Node α (SwSt S)), s.P.nodes[w]? = some nw → nw.st.visited = true →
        nw.st.reward ≤ rv) ∧
      IsLastMax (nodeScore s.P (·.reward)) s.P.layers.flatten v rv := by
  obtain ⟨hI0, hk, hd, _, _, hH0⟩ := init_inv negInf k domain hmax
  obtain ⟨a1, a2, a3⟩ := runRounds_hist negInf hbot inputs _ [] s H hI0
    (by rw [hk, hd]; exact hds) hH0 hrun
  simp only [List.nil_append] at a1
  refine lastPoint_of_hist negInf hbot a2 a1 ?_ ?_
  · intro h; subst h; simp at a3; exact hne a3
  · intro e he
    have : e.2 ∈ inputs.map (·.2.2) := by rw [← a3]; exact List.mem_map.2 ⟨e, he, rfl⟩
    obtain ⟨x, hx, hxe⟩ := List.mem_map.1 this
    rw [← hxe]; exact hpos x hx

end SOO

namespace DOO
variable {α S : Type} [Add α] [Sub α] [Mul α] [Div α] [OfNat α 2] [NatCast α]
variable [LinearOrder S] [Inhabited S]

theorem lastPoint_of_hist (cfg : DOOCfg α S) (hbot : ∀ x, cfg.negInf ≤ x)
    (h0 : cfg.reward0 = cfg.negInf) {s : DOO α S}
    {H : List (Nat × S)} (hI : Inv cfg s) (hH : HistOK s.P H) (hne : H ≠ [])
    (hpos : ∀ e ∈ H, cfg.negInf < e.2) :
    ∃ v rv nd, lastPoint cfg s = .ok v ∧ (v, rv) ∈ H ∧ s.P.nodes[v]? = some nd ∧
      nd.st.visited = true ∧ nd.st.reward = rv ∧ (∀ e ∈ H, e.2 ≤ rv) ∧
      (∀ (w : Nat) (nw : Node α (SwSt S)), s.P.nodes[w]? = some nw → nw.st.visited = true →
        nw.st.reward ≤ rv) ∧
      IsLastMax (nodeScore s.P (·.reward)) s.P.layers.flatten v rv := by
  have hP : PInv cfg.negInf s.P := by rw [← h0]; exact hI.pinv
  obtain ⟨v, rv, h1, h2, h3, h4⟩ := argmaxListed_spec hbot hP hH hne hpos
  obtain ⟨nd, n1, n2, n3⟩ := hH.valid _ h2
  refine ⟨v, rv, nd, by unfold lastPoint; rw [h1], h2, n1, n2, n3, h3, ?_, h4⟩
  intro w nw hw hv
  obtain ⟨e, he, rfl⟩ := List.mem_map.1 (hH.visited w nw hw hv)
  obtain ⟨nd', m1, _, m3⟩ := hH.valid e he
  obtain rfl := getElem?_inj hw m1
  rw [m3]; exact h3 e he

/-- **C07 for DOO**, under the repaired initialisation `reward0 = negInf`. -/
theorem lastPoint_best (cfg : DOOCfg α S) (hbot : ∀ x, cfg.negInf ≤ x)
    (h0 : cfg.reward0 = cfg.negInf) (k : Kind) (domain : Box α)
    (inputs : List (Input α S)) {s : DOO α S} {H : List (Nat × S)}
    (hds : ∀ x ∈ inputs, ∀ d ∈ x.2.1, DrawOKLen k domain.length d)
    (hrun : run cfg k domain inputs = .ok (s, H)) (hne : inputs ≠ [])
    (hpos : ∀ x ∈ inputs, cfg.negInf < x.2.2) :
    ∃ v rv nd, lastPoint cfg s = .ok v ∧ (v, rv) ∈ H ∧ s.P.nodes[v]? = some nd ∧
      nd.st.visited = true ∧ nd.st.reward = rv ∧ (∀ e ∈ H, e.2 ≤ rv) ∧
      (∀ (w : Nat) (nw : Node α (SwSt S)), s.P.nodes[w]? = some nw → nw.st.visited = true →
        nw.st.reward ≤ rv) ∧
      IsLastMax (nodeScore s.P (·.reward)) s.P.layers.flatten v rv := by
  obtain ⟨hI0, hk, hd, _, hH0⟩ := init_inv cfg k domain
  obtain ⟨a1, a2, a3⟩ := runRounds_hist cfg hbot inputs _ [] s H hI0
    (by rw [hk, hd]; exact hds) hH0 hrun
  simp only [List.nil_append] at a1
  refine lastPoint_of_hist cfg hbot h0 a2 a1 ?_ ?_
  · intro h; subst h; simp at a3; exact hne a3
  · intro e he
    have : e.2 ∈ inputs.map (·.2.2) := by rw [← a3]; exact List.mem_map.2 ⟨e, he, rfl⟩
    obtain ⟨x, hx, hxe⟩ := List.mem_map.1 this
    rw [← hxe]; exact hpos x hx

end DOO

namespace StoSOO
variable {α R S : Type} [Add α] [Sub α] [Mul α] [Div α] [OfNat α 2] [NatCast α]
variable [LinearOrder S] [Inhabited S] [Inhabited R]

/-- **C07 for StoSOO**: `get_last_point` returns a cell of the deepest layer, the LAST one whose
stored mean is maximal in that layer. -/
theorem lastPoint_deepest (cfg : StoCfg S R) (hbot : ∀ x, cfg.negInf ≤ x) {s : StoSOO α R S}
    (hI : Inv cfg s) :
    ∃ v l nd, lastPoint cfg s = .ok v ∧ s.P.layers[s.P.depth]? = some l ∧
      s.P.nodes[v]? = some nd ∧ nd.depth = s.P.depth ∧ nd.children = none ∧
      IsLastMax (nodeScore s.P (·.mean)) l v nd.st.mean := by
  obtain ⟨v, l, nd, a1, a2, a3, a4, a5⟩ := lastPoint_spec cfg hbot hI.wf
  exact ⟨v, l, nd, a1, a2, a3, a4, hI.wf.leaf_of_deepest a3 a4, a5⟩

end StoSOO

/-! ## Non-vacuity and the counterexample -/

namespace Ex07
open Ex08

/-- only negative rewards -/
def inNeg : List (Input Nat Sc) :=
  [(1, [dr 0], sc (-5)), (2, [dr 1], sc (-3)), (3, [dr 0], sc (-7)), (4, [dr 0], sc (-4))]

def stNeg : SOO Nat Sc :=
  match SOO.run ⊥ .binary dom2 10 inNeg with
  | .ok x => x.1
  | .error _ => SOO.init ⊥ .binary dom2 10

/-- SOO recommends cell `1` (reward `-3`, the best received reward), although cell `4`
(never evaluated) and the root are listed too. -/
example : (SOO.lastPoint ⊥ stNeg).toOption = some 1 ∧ stNeg.P.layers = [[0], [1, 2], [3, 4]] ∧
    stNeg.P.nodes.map (fun nd => (nd.st.visited, nd.st.reward)) =
      [(true, sc (-5)), (true, sc (-3)), (true, sc (-7)), (true, sc (-4)), (false, ⊥)] := by
  decide

/-- `SOO.lastPoint_best` applies to this run. -/
example : ∃ s H v rv, SOO.run ⊥ .binary dom2 10 inNeg = .ok (s, H) ∧
    SOO.lastPoint ⊥ s = .ok v ∧ (v, rv) ∈ H ∧ ∀ e ∈ H, e.2 ≤ rv := by
  obtain ⟨s, H, e, _⟩ := SOO.loop_total ⊥ botLe .binary dom2 10 inNeg (by decide) (by decide)
  obtain ⟨v, rv, _, h1, h2, _, _, _, h3, _⟩ := SOO.lastPoint_best ⊥ botLe .binary dom2 10 inNeg
    (by decide) e (by decide) (by decide)
  exact ⟨s, H, v, rv, e, h1, h2, h3⟩

/-- `DOO.lastPoint_best` applies to the run of `Ex08` (repaired `reward0 = -inf`). -/
example : ∃ s H v rv, DOO.run cfgDOO .binary dom2 inDOO = .ok (s, H) ∧
    DOO.lastPoint cfgDOO s = .ok v ∧ (v, rv) ∈ H ∧ ∀ e ∈ H, e.2 ≤ rv := by
  obtain ⟨s, H, e, _⟩ := DOO.loop_total cfgDOO botLe cfgDOO_deltaOK .binary dom2 inDOO (by decide)
  obtain ⟨v, rv, _, h1, h2, _, _, _, h3, _⟩ := DOO.lastPoint_best cfgDOO botLe rfl .binary dom2
    inDOO (by decide) e (by decide) (by decide)
  exact ⟨s, H, v, rv, e, h1, h2, h3⟩

/-- the code's configuration: `DOO_node.reward` starts at `0` (scores `ℤ`, `-1000` plays `-inf`) -/
def cfgBad : DOOCfg Nat Int :=
  { negInf := -1000, inf := 1000, reward0 := 0, bOf := fun r d => r + d,
    delta := fun _ h => .ok (10 - 2 * (h : Int)) }

def inBad : List (Input Nat Int) := [(1, [dr 0], -5), (2, [dr 1], -3)]

def stBad (cfg : DOOCfg Nat Int) : DOO Nat Int :=
  match DOO.run cfg .binary dom2 inBad with
  | .ok x => x.1
  | .error _ => DOO.init cfg .binary dom2

/-- **Counterexample (DOO, `reward0 = 0`)**: after two rounds with the negative rewards `-5`
(root) and `-3` (cell `1`), `get_last_point` returns cell `2`, which has never been evaluated
(it still stores the initial reward `0`, larger than every received reward). -/
theorem DOO_lastPoint_counterexample :
    (DOO.run cfgBad .binary dom2 inBad).toOption.map (·.2) = some [(0, -5), (1, -3)] ∧
    (DOO.lastPoint cfgBad (stBad cfgBad)).toOption = some 2 ∧
    (stBad cfgBad).P.nodes.map (fun nd => (nd.st.visited, nd.st.reward)) =
      [(true, -5), (true, -3), (false, 0)] := by decide

/-- with `reward0 = negInf` the same run recommends the evaluated cell `1` -/
example : (DOO.lastPoint { cfgBad with reward0 := -1000 }
    (stBad { cfgBad with reward0 := -1000 })).toOption = some 1 := by decide

/-- StoSOO: after the six rounds of `Ex08` the deepest layer is `[1, 2]` with stored means
`(4 + 9) / 2 = 6` and `(3 + 2) / 2 = 2`; the recommendation is cell `1`. -/
example : (StoSOO.lastPoint cfgSto (stSto 6)).toOption = some 1 ∧
    (stSto 6).P.layers = [[0], [1, 2]] ∧
    (stSto 6).P.nodes.map (fun nd => (nd.st.count, nd.st.mean)) = [(2, 6), (2, 6), (2, 2)] := by
  decide

end Ex07

end PyXAB
