/-
  C02, tree level: "consequently, the leaves of any tree grown from a domain always tile that domain".
  The statement is proved in the Zooming development (`Lemmas/ZM_Tree.lean`, exported in `Props/C11.lean`);
  it is restated here, under C02's name, so that the C02 check audits it.
-/
import PyXABProofs.Props.C11
namespace PyXAB.C02
open PyXAB PyXAB.Tree PyXAB.ZM
variable {α σ : Type} [Field α] [LinearOrder α] [IsStrictOrderedRing α]

/-- one expansion of a leaf with an admissible draw keeps "the leaf boxes tile the root box", and the new
children tile the expanded cell -/
theorem leaves_tile_step {root : Box α} {P P' : Part α σ} {s0 : σ} {p : Nat} {nd : Node α σ}
    {nl : Bool} {d : Draw α} (hT : Tiles (leafBoxes P) root)
    (hp : P.nodes[p]? = some nd) (hleaf : nd.children = none)
    (hd : DrawOK P.kind nd.box d) (h : P.makeChildren s0 p nl d = .ok P') :
    Tiles (leafBoxes P') root ∧ Tiles (childBoxes P.kind nd.box d) nd.box :=
  PyXAB.C11.leaves_tile_step hT hp hleaf hd h

/-- for every order of expansions: in a tree grown from a valid domain by `make_children` on leaves with draws
NumPy can produce (end points included), the leaves tile the domain -/
theorem leaves_tile_domain {k : Kind} {root : Box α} {s0 : σ} {P : Part α σ}
    (hroot : Box.Valid root) (hG : Grown k root s0 P) :
    WF P ∧ P.kind = k ∧ Tiles (leafBoxes P) root :=
  PyXAB.C11.leaves_tile_root hroot hG

end PyXAB.C02
