/-
  Property C01 — "For every algorithm, partition and domain, driving the documented loop (pull,
  then receive_reward with any finite reward, for t = 1..T with T no larger than the declared
  budget) never raises, never hangs, and every pull returns a list of d finite numbers lying
  inside the user-supplied box.  The point returned by get_last_point after the loop is likewise
  a d-vector inside the box."

  Setting.  The models of `PyXABModel/Model/*.lean` return the id `v` of the pulled cell; the
  Python code returns that cell's representative point `Box.cpoint (box v)` (`TT.ptOf P v`).
  Coordinates live in an arbitrary linearly ordered field `α`, rewards / scores in the types the
  reused totality theorems ask for; every numeric formula of the code is a parameter.
  Definitions: `Spec/TotalSpec.lean`; lemmas: `Lemmas/TT_*.lean`.

  * `TT.BoxInv root P` — EVERY cell of the arena (leaf or internal) is a valid sub-box of `root`
    of the same dimension; `TT.DomInv k root P` — `BoxInv` + "the partition class is `k`";
    `TT.PointOK root P v` — `v` is a cell of `P` and `Box.cpoint (box v)` is a `d`-vector inside
    `root`; `TT.Keeps P P'` — cells and boxes of `P` are kept in `P'` (so a point handed out
    earlier is still the point of that cell: `keeps_point`).
  * Draws.  Which cell is split by which recorded draw depends on the run, so the NumPy
    guarantee `DrawOK kind (box of the split cell) draw` is a hypothesis on the run:
    `TT.<Algo>.GoodDraws` (tree bandits, SequOOL: the first draw offered in a round fits the one
    cell that round may split; SOO / DOO / StoSOO: the i-th expansion event of the instrumented
    `pullT` of `Spec/SweepSpec.lean` fits the i-th draw offered to that `pull`; Zooming: the
    existing `ZM.GoodRun`).  For the deterministic classes (Binary, DimensionBinary, Kary) these
    hypotheses follow from the well-formedness `DrawOKLen` already assumed by the totality
    theorems (`…_det` corollaries) — no extra hypothesis at all.
  * "Never raises / never hangs": the existing totality theorems (C06 `HOO.loop_total`,
    `HCT.loop_total`; C08 `SOO/DOO/StoSOO.loop_total`; C12 `run_total`; C11 `round_Cover`;
    C10 `POO_total`; C09 `GPO_total`) are cited, with their hypotheses restated (SOO, StoSOO:
    number of rounds ≤ depth cap; StoSOO: `time ≤ n`, `k ≥ 1`; DOO: `delta` never raises).
  * A run over an arbitrary input list covers "every state": every prefix of the inputs is
    itself an input list (`runRounds` is defined by recursion on the inputs).

  1. Backbone: `node_box_subset_root`, `cpoint_in_domain`, `grown_mapSt`, `boxInv_init`,
     `boxInv_payload`, `boxInv_modifySt`, `boxInv_makeChildren`, `keeps_point`,
     `pointOK_of_valid`, `drawOK_of_len`.
  2. `HOO_points_in_domain`, `HCT_points_in_domain` (both variance flags), `SOO_…`, `DOO_…`,
     `StoSOO_…`, `SequOOL_…`, `Zooming_points_in_domain`; for each the corollary `…_det` for the
     deterministic classes, the per-step theorems `…_pull_in_domain` / `…_receive_in_domain`, and
     `…_lastPoint_in_domain` for the algorithms whose model has a recommendation function
     (SOO, DOO, StoSOO, SequOOL).  T-HOO / HCT / VHCT / Zooming have no separate recommendation
     in the models (the Python `get_last_point` of these classes is `pull`).
     In a round in which no cell is split the offered draws are not consumed; `GoodDraws` still
     asks the first one to fit the pulled cell, which is harmless (a fitting draw always exists
     for a valid box, e.g. the midpoint).
  3. `POO_points_in_domain`, `POO_lastPoint_in_domain`, `POO_total_in_domain`,
     `GPO_points_in_domain`, `GPO_total_in_domain`.
  4. The recorded exceptions: `POO_start_failure`, `GPO_degenerate`, `GPO_lastPoint_no_score`,
     `POO_lastPoint_no_score`, `SequOOL_lastPoint_before_any_round`, `SOO_pull_outOfFuel`,
     `StoSOO_pull_budget_exhausted`.
  5. Non-vacuity examples over `ℚ` (all algorithms; `RandomBinaryPartition` for T-HOO) and
     `HOO_bad_draw_counterexample`: without the hypothesis on the draws `BoxInv` fails.
-/
import PyXABProofs.Lemmas.TT_TB
import PyXABProofs.Lemmas.TT_SW
import PyXABProofs.Lemmas.TT_SQ
import PyXABProofs.Lemmas.TT_ZM
import PyXABProofs.Lemmas.TT_Meta
import PyXABProofs.Props.C07
import PyXABProofs.Lemmas.TT_Example

set_option linter.unusedSectionVars false
set_option linter.unusedVariables false

namespace PyXAB
namespace C01
open _root_.PyXAB.Tree TBA TT

/-! ## 1. Geometry backbone -/
section backbone
variable {α σ : Type} [Field α] [LinearOrder α] [IsStrictOrderedRing α]

/-- **node_box_subset_root**: in a tree grown from a `Valid` root box by `make_children` with
NumPy-conformant draws, EVERY cell — not only the leaves — is a valid sub-box of the root box and
has its dimension. -/
theorem node_box_subset_root {k : Kind} {root : Box α} {s0 : σ} {P : Part α σ}
    (hroot : Box.Valid root) (hG : ZM.Grown k root s0 P) (i : Nat) (nd : Node α σ)
    (hi : P.nodes[i]? = some nd) :
    Box.Subset nd.box root ∧ Box.Valid nd.box ∧ nd.box.length = root.length :=
  (grown_domInv hroot hG).box i nd hi

/-- **cpoint_in_domain**: hence the representative point of every cell is a `d`-vector inside
the root box. -/
theorem cpoint_in_domain {k : Kind} {root : Box α} {s0 : σ} {P : Part α σ}
    (hroot : Box.Valid root) (hG : ZM.Grown k root s0 P) (i : Nat) (nd : Node α σ)
    (hi : P.nodes[i]? = some nd) :
    Box.Mem root (Box.cpoint nd.box) ∧ (Box.cpoint nd.box).length = root.length :=
  (grown_domInv hroot hG).box.cpoint hi

/-- **grown_mapSt**: `Grown` fixes the payloads (`s0` everywhere), but its geometric content
survives every payload-only update `PRel ρ` (all the `modifySt` / `forListed` / `backward` /
`refreshTau` passes of the algorithms). -/
theorem grown_mapSt {k : Kind} {root : Box α} {s0 : σ} {P P' : Part α σ}
    {ρ : Nat → Node α σ → Node α σ → Prop} (hroot : Box.Valid root) (hG : ZM.Grown k root s0 P)
    (h : PRel ρ P P') : DomInv k root P' :=
  DomInv.of_prel h (grown_domInv hroot hG)

/-- `Partition.__init__` on a valid domain. -/
theorem boxInv_init (k : Kind) {root : Box α} (hv : Box.Valid root) (s0 : σ) :
    DomInv k root (Part.init k root s0) := DomInv.init hv s0

/-- (a) payload-only updates keep the invariant … -/
theorem boxInv_payload {k : Kind} {root : Box α} {P P' : Part α σ}
    {ρ : Nat → Node α σ → Node α σ → Prop} (h : PRel ρ P P') (hD : DomInv k root P) :
    DomInv k root P' ∧ Keeps P P' := ⟨DomInv.of_prel h hD, Keeps.of_prel h⟩

/-- … in particular `modifySt`. -/
theorem boxInv_modifySt {k : Kind} {root : Box α} {P : Part α σ} (i : Nat) (f : σ → σ)
    (hD : DomInv k root P) : DomInv k root (P.modifySt i f) ∧ Keeps P (P.modifySt i f) :=
  boxInv_payload (PRel_modifySt P i f) hD

/-- (b) `make_children` on ANY cell (leaf or not, any `newlayer` flag) with a draw which satisfies
the NumPy guarantees for the box of that cell keeps the invariant. -/
theorem boxInv_makeChildren {k : Kind} {root : Box α} {P P' : Part α σ} {s0 : σ} {p : Nat}
    {nd : Node α σ} {nl : Bool} {d : Draw α} (hD : DomInv k root P) (hp : P.nodes[p]? = some nd)
    (hd : DrawOK k nd.box d) (h : P.makeChildren s0 p nl d = .ok P') :
    DomInv k root P' ∧ Keeps P P' :=
  makeChildren_dom hD hp (fun _ _ => hd) h

/-- A point handed out for the cell `v` is still the point of `v` in every later tree, and it
stays inside the domain. -/
theorem keeps_point {root : Box α} {P P' : Part α σ} {v : Nat} (hK : Keeps P P')
    (h : PointOK root P v) : ptOf P' v = ptOf P v ∧ PointOK root P' v :=
  ⟨hK.ptOf h.1, h.keeps hK⟩

/-- In a tree satisfying the invariant every valid id names a point of the domain. -/
theorem pointOK_of_valid {k : Kind} {root : Box α} {P : Part α σ} (hD : DomInv k root P) {v : Nat}
    (hv : v < P.nodes.length) :
    v < P.nodes.length ∧ Box.Mem root (ptOf P v) ∧ (ptOf P v).length = root.length :=
  hD.pointOK hv

/-- For the deterministic partition classes `DrawOKLen` implies the NumPy guarantee. -/
theorem drawOK_of_len {k : Kind} (hk : Kind.Deterministic k) {root b : Box α} {d : Draw α}
    (hd : DrawOKLen k root.length d) (hb : Box.Valid b) (hs : Box.Subset b root) : DrawOK k b d :=
  drawFits_of_det hk hd hb hs

end backbone

/-! ## 2. The algorithms -/

/-! ### T-HOO -/
section hoo
variable {α R S : Type} [Field α] [LinearOrder α] [IsStrictOrderedRing α]
variable [LE S] [DecidableLE S] [Max S] [Min S] [Inhabited S] [Inhabited R]

/-- `pull` from an invariant state never raises and hands out a cell whose point lies in the
domain (`s1.P = s.P`). -/
theorem HOO_pull_in_domain (cfg : HOOCfg R S) {k : Kind} {root : Box α} {s : HOO α R S}
    (hI : HOO.Inv cfg s) (hD : DomInv k root s.P) :
    ∃ s1 path v, HOO.pull s = .ok (s1, v) ∧ HOO.Ready cfg s1 path v ∧ DomInv k root s1.P ∧
      PointOK root s1.P v := by
  obtain ⟨s1, path, v, hp, hR, hP1, _⟩ := HOO.pull_total cfg hI
  have hD1 : DomInv k root s1.P := hP1 ▸ hD
  exact ⟨s1, path, v, hp, hR, hD1, hD1.pointOK
    ((TBA.path_spec hR.isPath).2.1 v (List.mem_of_getLast? hR.lastEq))⟩

/-- `receive_reward` keeps the invariant when the first draw fits the pulled cell. -/
theorem HOO_receive_in_domain (cfg : HOOCfg R S) {k : Kind} {root : Box α} {s s' : HOO α R S}
    {path : List Nat} {last : Nat} (hR : HOO.Ready cfg s path last) (hD : DomInv k root s.P) {r : R}
    {ds ds' : List (Draw α)} (hS : SplitFits k root s.P last ds)
    (h : HOO.receive cfg s r ds = .ok (s', ds')) : DomInv k root s'.P ∧ Keeps s.P s'.P :=
  TT.HOO.receive_dom cfg hD (fun path' last' e1 e2 => by
    rw [hR.stored] at e1; cases e1; rw [hR.lastEq] at e2; cases e2; exact hS) h

/-- **HOO_points_in_domain**: construction followed by any number of rounds never raises
(`HOO.loop_total`); the final (hence every intermediate) tree satisfies `DomInv`, and every cell
handed out is a cell of the tree whose point is a `d`-vector inside the domain. -/
theorem HOO_points_in_domain (cfg : HOOCfg R S) (k : Kind) (domain : Box α)
    (ds0 : List (Draw α)) (inputs : List (R × List (Draw α))) (hv : Box.Valid domain)
    (h0 : DrawsOK k domain.length ds0) (hin : InputsOK k domain.length inputs)
    (hd0 : HeadFits k domain domain ds0)
    (hG : ∀ s0 ds', HOO.init cfg k domain ds0 = .ok (s0, ds') →
      TT.HOO.GoodDraws cfg k domain s0 inputs) :
    ∃ s H, HOO.run cfg k domain ds0 inputs = .ok (s, H) ∧ HOO.Inv cfg s ∧
      DomInv k domain s.P ∧ H.map (·.2) = inputs.map (·.1) ∧
      ∀ e ∈ H, PointOK domain s.P e.1 := by
  obtain ⟨s0, ds', e0, hI0, _, _, _⟩ := HOO.init_total cfg k domain ds0 h0
  have hD0 := TT.HOO.init_dom cfg hv hd0 e0
  obtain ⟨s, H, e, hI, hD, _, hH, hpts⟩ :=
    TT.HOO.runRounds_dom cfg inputs s0 hI0 hD0 hin (hG s0 ds' e0)
  exact ⟨s, H, by simp only [HOO.run, e0, e], hI, hD, hH, hpts⟩

/-- Deterministic partition classes: no hypothesis beyond those of `HOO.loop_total`. -/
theorem HOO_points_in_domain_det (cfg : HOOCfg R S) (k : Kind) (hk : Kind.Deterministic k)
    (domain : Box α) (ds0 : List (Draw α)) (inputs : List (R × List (Draw α)))
    (hv : Box.Valid domain) (h0 : DrawsOK k domain.length ds0)
    (hin : InputsOK k domain.length inputs) :
    ∃ s H, HOO.run cfg k domain ds0 inputs = .ok (s, H) ∧ HOO.Inv cfg s ∧
      DomInv k domain s.P ∧ H.map (·.2) = inputs.map (·.1) ∧
      ∀ e ∈ H, PointOK domain s.P e.1 :=
  HOO_points_in_domain cfg k domain ds0 inputs hv h0 hin (headFits_of_det hk h0.2)
    (fun s0 _ _ => TT.HOO.goodDraws_of_det cfg hk inputs s0 hin)

end hoo

/-! ### HCT / VHCT (`cfg.variance` arbitrary) -/
section hct
variable {α R S : Type} [Field α] [LinearOrder α] [IsStrictOrderedRing α]
variable [LE S] [DecidableLE S] [Max S] [Min S] [Inhabited S] [Inhabited R]

theorem HCT_pull_in_domain (cfg : HCTCfg R S) {k : Kind} {root : Box α} {s : HCT α R S}
    (hI : HCT.Inv cfg s) (hD : DomInv k root s.P) :
    ∃ s1 path v, HCT.pull cfg s = .ok (s1, v) ∧ HCT.Ready cfg s1 path v ∧ DomInv k root s1.P ∧
      Keeps s.P s1.P ∧ PointOK root s1.P v := by
  obtain ⟨s1, path, v, hp, hR, hT, _⟩ := TBA.HCT.pull_ok cfg hI
  have hD1 : DomInv k root s1.P := DomInv.of_prel hT hD
  exact ⟨s1, path, v, hp, hR, hD1, Keeps.of_prel hT, hD1.pointOK
    ((TBA.path_spec hR.isPath).2.1 v (List.mem_of_getLast? hR.lastEq))⟩

theorem HCT_receive_in_domain (cfg : HCTCfg R S) {k : Kind} {root : Box α} {s s' : HCT α R S}
    {path : List Nat} {last : Nat} (hR : HCT.Ready cfg s path last) (hD : DomInv k root s.P) {r : R}
    {ds ds' : List (Draw α)} (hS : SplitFits k root s.P last ds)
    (h : HCT.receive cfg s r ds = .ok (s', ds')) : DomInv k root s'.P ∧ Keeps s.P s'.P :=
  TT.HCT.receive_dom cfg hD (fun path' last' e1 e2 => by
    rw [hR.stored] at e1; cases e1; rw [hR.lastEq] at e2; cases e2; exact hS) h

/-- **HCT_points_in_domain** (HCT and VHCT). -/
theorem HCT_points_in_domain (cfg : HCTCfg R S) (k : Kind) (domain : Box α)
    (ds0 : List (Draw α)) (inputs : List (R × List (Draw α))) (hv : Box.Valid domain)
    (h0 : DrawsOK k domain.length ds0) (hin : InputsOK k domain.length inputs)
    (hd0 : HeadFits k domain domain ds0)
    (hG : ∀ s0 ds', HCT.init cfg k domain ds0 = .ok (s0, ds') →
      TT.HCT.GoodDraws cfg k domain s0 inputs) :
    ∃ s H, HCT.run cfg k domain ds0 inputs = .ok (s, H) ∧ HCT.Inv cfg s ∧
      DomInv k domain s.P ∧ H.map (·.2) = inputs.map (·.1) ∧
      ∀ e ∈ H, PointOK domain s.P e.1 := by
  obtain ⟨s0, ds', e0, hI0, _, _, _⟩ := HCT.init_total cfg k domain ds0 h0
  have hD0 := TT.HCT.init_dom cfg hv hd0 e0
  obtain ⟨s, H, e, hI, hD, _, hH, hpts⟩ :=
    TT.HCT.runRounds_dom cfg inputs s0 hI0 hD0 hin (hG s0 ds' e0)
  exact ⟨s, H, by simp only [HCT.run, e0, e], hI, hD, hH, hpts⟩

theorem HCT_points_in_domain_det (cfg : HCTCfg R S) (k : Kind) (hk : Kind.Deterministic k)
    (domain : Box α) (ds0 : List (Draw α)) (inputs : List (R × List (Draw α)))
    (hv : Box.Valid domain) (h0 : DrawsOK k domain.length ds0)
    (hin : InputsOK k domain.length inputs) :
    ∃ s H, HCT.run cfg k domain ds0 inputs = .ok (s, H) ∧ HCT.Inv cfg s ∧
      DomInv k domain s.P ∧ H.map (·.2) = inputs.map (·.1) ∧
      ∀ e ∈ H, PointOK domain s.P e.1 :=
  HCT_points_in_domain cfg k domain ds0 inputs hv h0 hin (headFits_of_det hk h0.2)
    (fun s0 _ _ => TT.HCT.goodDraws_of_det cfg hk inputs s0 hin)

end hct

/-! ### SOO, DOO, StoSOO -/
section sweep
open SW
variable {α R S : Type} [Field α] [LinearOrder α] [IsStrictOrderedRing α]
variable [LinearOrder S] [Inhabited S] [Inhabited R]

/-- One `pull` of SOO keeps the invariant when the draws of its expansion events fit. -/
theorem SOO_pull_in_domain (negInf : S) {k : Kind} {root : Box α} {s s' : SOO α S} {t : Nat}
    {ds ds' : List (Draw α)} {v : Nat} {trs : List (List (Ev α (SwSt S) S))}
    (hD : DomInv k root s.P) (hE : EvDraws k root ds trs.flatten)
    (h : SOO.pullT negInf s t ds = .ok (s', ds', v, trs)) :
    DomInv k root s'.P ∧ Keeps s.P s'.P := TT.SOO.pullT_dom negInf hD hE h

/-- The recommendation of SOO is a cell of the tree, hence a point of the domain. -/
theorem SOO_lastPoint_in_domain (negInf : S) {k : Kind} {root : Box α} {s : SOO α S}
    (hD : DomInv k root s.P) {v : Nat} (h : SOO.lastPoint negInf s = .ok v) :
    PointOK root s.P v := hD.pointOK (TT.SOO.lastPoint_valid negInf h)

/-- **SOO_points_in_domain**: with at most `hmax` rounds (the hypothesis of `SOO.loop_total`;
beyond the cap `pull` hangs, see `SOO_pull_outOfFuel`) the loop never raises, the tree satisfies
`DomInv`, every cell handed out and the recommendation are points of the domain. -/
theorem SOO_points_in_domain (negInf : S) (hbot : ∀ x, negInf ≤ x) (k : Kind) (domain : Box α)
    (hmax : Nat) (inputs : List (Input α S)) (hv : Box.Valid domain)
    (hin : SW.InputsOK k domain.length inputs) (hT : inputs.length ≤ hmax)
    (hG : TT.SOO.GoodDraws negInf k domain (SOO.init negInf k domain hmax) inputs) :
    ∃ s H, SOO.run negInf k domain hmax inputs = .ok (s, H) ∧ SOO.Inv negInf s ∧
      DomInv k domain s.P ∧ H.map (·.2) = inputs.map (·.2.2) ∧
      (∀ e ∈ H, PointOK domain s.P e.1) ∧
      ∀ v, SOO.lastPoint negInf s = .ok v → PointOK domain s.P v := by
  obtain ⟨hI0, _, _, h0, hm0, _⟩ := SOO.init_inv (α := α) negInf k domain hmax
  obtain ⟨s, H, e, hI, hD, _, hH, _, hpts⟩ := TT.SOO.runRounds_dom negInf hbot inputs _ hI0
    (DomInv.init hv _) hin (by rw [h0, hm0]; omega) hG
  exact ⟨s, H, e, hI, hD, hH, hpts, fun v hv' => SOO_lastPoint_in_domain negInf hD hv'⟩

theorem SOO_points_in_domain_det (negInf : S) (hbot : ∀ x, negInf ≤ x) (k : Kind)
    (hk : Kind.Deterministic k) (domain : Box α) (hmax : Nat) (inputs : List (Input α S))
    (hv : Box.Valid domain) (hin : SW.InputsOK k domain.length inputs)
    (hT : inputs.length ≤ hmax) :
    ∃ s H, SOO.run negInf k domain hmax inputs = .ok (s, H) ∧ SOO.Inv negInf s ∧
      DomInv k domain s.P ∧ H.map (·.2) = inputs.map (·.2.2) ∧
      (∀ e ∈ H, PointOK domain s.P e.1) ∧
      ∀ v, SOO.lastPoint negInf s = .ok v → PointOK domain s.P v :=
  SOO_points_in_domain negInf hbot k domain hmax inputs hv hin hT
    (TT.SOO.goodDraws_of_det negInf hk inputs _ hin)

theorem DOO_pull_in_domain (cfg : DOOCfg α S) {k : Kind} {root : Box α} {s s' : DOO α S} {t : Nat}
    {ds ds' : List (Draw α)} {v : Nat} {tr : List (Ev α (SwSt S) S)}
    (hD : DomInv k root s.P) (hE : EvDraws k root ds tr)
    (h : DOO.pullT cfg s t ds = .ok (s', ds', v, tr)) :
    DomInv k root s'.P ∧ Keeps s.P s'.P := TT.DOO.pullT_dom cfg hD hE h

theorem DOO_lastPoint_in_domain (cfg : DOOCfg α S) {k : Kind} {root : Box α} {s : DOO α S}
    (hD : DomInv k root s.P) {v : Nat} (h : DOO.lastPoint cfg s = .ok v) :
    PointOK root s.P v := hD.pointOK (TT.DOO.lastPoint_valid cfg h)

/-- **DOO_points_in_domain** (any number of rounds; `delta` never raises: `DeltaOK`). -/
theorem DOO_points_in_domain (cfg : DOOCfg α S) (hbot : ∀ x, cfg.negInf ≤ x)
    (hδ : DOO.DeltaOK cfg) (k : Kind) (domain : Box α) (inputs : List (Input α S))
    (hv : Box.Valid domain) (hin : SW.InputsOK k domain.length inputs)
    (hG : TT.DOO.GoodDraws cfg k domain (DOO.init cfg k domain) inputs) :
    ∃ s H, DOO.run cfg k domain inputs = .ok (s, H) ∧ DOO.Inv cfg s ∧
      DomInv k domain s.P ∧ H.map (·.2) = inputs.map (·.2.2) ∧
      (∀ e ∈ H, PointOK domain s.P e.1) ∧
      ∀ v, DOO.lastPoint cfg s = .ok v → PointOK domain s.P v := by
  obtain ⟨hI0, _⟩ := DOO.init_inv cfg k domain
  obtain ⟨s, H, e, hI, hD, _, hH, hpts⟩ := TT.DOO.runRounds_dom cfg hbot hδ inputs _ hI0
    (DomInv.init hv _) hin hG
  exact ⟨s, H, e, hI, hD, hH, hpts, fun v hv' => DOO_lastPoint_in_domain cfg hD hv'⟩

theorem DOO_points_in_domain_det (cfg : DOOCfg α S) (hbot : ∀ x, cfg.negInf ≤ x)
    (hδ : DOO.DeltaOK cfg) (k : Kind) (hk : Kind.Deterministic k) (domain : Box α)
    (inputs : List (Input α S)) (hv : Box.Valid domain)
    (hin : SW.InputsOK k domain.length inputs) :
    ∃ s H, DOO.run cfg k domain inputs = .ok (s, H) ∧ DOO.Inv cfg s ∧
      DomInv k domain s.P ∧ H.map (·.2) = inputs.map (·.2.2) ∧
      (∀ e ∈ H, PointOK domain s.P e.1) ∧
      ∀ v, DOO.lastPoint cfg s = .ok v → PointOK domain s.P v :=
  DOO_points_in_domain cfg hbot hδ k domain inputs hv hin
    (TT.DOO.goodDraws_of_det cfg hk inputs _ hin)

theorem StoSOO_pull_in_domain (cfg : StoCfg S R) {k : Kind} {root : Box α}
    {s s' : StoSOO α R S} {t : Nat} {ds ds' : List (Draw α)} {v : Nat}
    {tr : List (Ev α (TBSt R S) S)} (hD : DomInv k root s.P) (hE : EvDraws k root ds tr)
    (h : StoSOO.pullT cfg s t ds = .ok (s', ds', v, tr)) :
    DomInv k root s'.P ∧ Keeps s.P s'.P := TT.StoSOO.pullT_dom cfg hD hE h

theorem StoSOO_lastPoint_in_domain (cfg : StoCfg S R) {k : Kind} {root : Box α}
    {s : StoSOO α R S} (hD : DomInv k root s.P) {v : Nat} (h : StoSOO.lastPoint cfg s = .ok v) :
    PointOK root s.P v := hD.pointOK (TT.StoSOO.lastPoint_valid cfg h)

/-- **StoSOO_points_in_domain**: `T ≤ h_max` rounds with `time ≤ n` and `k ≥ 1`
(`countLT 0`), the hypotheses of `StoSOO.loop_total`. -/
theorem StoSOO_points_in_domain (cfg : StoCfg S R) (hbot : ∀ x, cfg.negInf ≤ x)
    (htop : ∀ x, x ≤ cfg.inf) (hk0 : cfg.countLT 0 = true) (k : Kind) (domain : Box α)
    (inputs : List (Input α R)) (hv : Box.Valid domain)
    (hin : SW.InputsOK k domain.length inputs) (hn : ∀ x ∈ inputs, x.1 ≤ cfg.n)
    (hT : inputs.length ≤ cfg.hmax)
    (hG : TT.StoSOO.GoodDraws cfg k domain (StoSOO.init cfg k domain) inputs) :
    ∃ s H, StoSOO.run cfg k domain inputs = .ok (s, H) ∧ StoSOO.Inv cfg s ∧
      DomInv k domain s.P ∧ H.map (·.2) = inputs.map (·.2.2) ∧
      (∀ e ∈ H, PointOK domain s.P e.1) ∧
      ∀ v, StoSOO.lastPoint cfg s = .ok v → PointOK domain s.P v := by
  obtain ⟨hI0, _, _, h0⟩ := StoSOO.init_inv (α := α) cfg k domain
  obtain ⟨s, H, e, hI, hD, _, hH, hpts⟩ := TT.StoSOO.runRounds_dom cfg hbot htop hk0 inputs _
    hI0 (DomInv.init hv _) hin hn (by rw [h0]; omega) hG
  exact ⟨s, H, e, hI, hD, hH, hpts, fun v hv' => StoSOO_lastPoint_in_domain cfg hD hv'⟩

theorem StoSOO_points_in_domain_det (cfg : StoCfg S R) (hbot : ∀ x, cfg.negInf ≤ x)
    (htop : ∀ x, x ≤ cfg.inf) (hk0 : cfg.countLT 0 = true) (k : Kind)
    (hk : Kind.Deterministic k) (domain : Box α) (inputs : List (Input α R))
    (hv : Box.Valid domain) (hin : SW.InputsOK k domain.length inputs)
    (hn : ∀ x ∈ inputs, x.1 ≤ cfg.n) (hT : inputs.length ≤ cfg.hmax) :
    ∃ s H, StoSOO.run cfg k domain inputs = .ok (s, H) ∧ StoSOO.Inv cfg s ∧
      DomInv k domain s.P ∧ H.map (·.2) = inputs.map (·.2.2) ∧
      (∀ e ∈ H, PointOK domain s.P e.1) ∧
      ∀ v, StoSOO.lastPoint cfg s = .ok v → PointOK domain s.P v :=
  StoSOO_points_in_domain cfg hbot htop hk0 k domain inputs hv hin hn hT
    (TT.StoSOO.goodDraws_of_det cfg hk inputs _ hin)

end sweep

/-! ### SequOOL -/
section seq
open SQ
variable {α S : Type} [Field α] [LinearOrder α] [IsStrictOrderedRing α]
variable [LinearOrder S] [Inhabited S] {negInf : S}

/-- One `pull` of SequOOL keeps the invariant when — IF the cell being opened is still a leaf —
the first draw fits its box. -/
theorem SequOOL_pull_in_domain {k : Kind} {root : Box α} {s s1 : SequOOL α S} {t : Nat}
    {ds ds1 : List (Draw α)} {v : Nat} (hD : DomInv k root s.P)
    (hS : ∀ tgt nd, TT.SQ.targetOf negInf s = some tgt → s.P.nodes[tgt]? = some nd →
      nd.children = none → HeadFits k root nd.box ds)
    (h : SequOOL.pull negInf s t ds = .ok (s1, ds1, v)) :
    DomInv k root s1.P ∧ Keeps s.P s1.P := TT.SQ.pull_dom negInf hD hS h

theorem SequOOL_lastPoint_in_domain {k : Kind} {root : Box α} {s : SequOOL α S}
    (hD : DomInv k root s.P) {v : Nat} (h : SequOOL.lastPoint negInf s = .ok v) :
    PointOK root s.P v := hD.pointOK (TT.SQ.lastPoint_valid negInf h)

/-- **SequOOL_points_in_domain**: any number of rounds (`C12.run_total`; after the schedule is
exhausted `pull` returns the root cell, i.e. the centre of the domain). -/
theorem SequOOL_points_in_domain (hbot : ∀ x : S, negInf ≤ x) (k : Kind) (domain : Box α)
    (hmax : Nat) (hK : 1 ≤ k.arity domain.length) (inputs : List (S × List (Draw α)))
    (hv : Box.Valid domain) (hin : SQ.InputsOK k domain.length inputs)
    (hG : TT.SQ.GoodDraws negInf k domain (SequOOL.init k domain hmax) 1 inputs) :
    ∃ s H, SQ.run negInf k domain hmax inputs = .ok (s, H) ∧ SQ.Inv negInf s ∧
      DomInv k domain s.P ∧ H.map (·.2) = inputs.map (·.1) ∧
      (∀ e ∈ H, PointOK domain s.P e.1) ∧
      ∀ v, SequOOL.lastPoint negInf s = .ok v → PointOK domain s.P v := by
  obtain ⟨s, H, e, hI, hD, _, hH, _, hpts⟩ := TT.SQ.runRounds_dom hbot inputs _ 1
    (SQ.C12.init_Inv k domain hmax hK) (DomInv.init hv _) hin hG
  exact ⟨s, H, e, hI, hD, hH, hpts, fun v hv' => SequOOL_lastPoint_in_domain hD hv'⟩

theorem SequOOL_points_in_domain_det (hbot : ∀ x : S, negInf ≤ x) (k : Kind)
    (hk : Kind.Deterministic k) (domain : Box α) (hmax : Nat) (hK : 1 ≤ k.arity domain.length)
    (inputs : List (S × List (Draw α))) (hv : Box.Valid domain)
    (hin : SQ.InputsOK k domain.length inputs) :
    ∃ s H, SQ.run negInf k domain hmax inputs = .ok (s, H) ∧ SQ.Inv negInf s ∧
      DomInv k domain s.P ∧ H.map (·.2) = inputs.map (·.1) ∧
      (∀ e ∈ H, PointOK domain s.P e.1) ∧
      ∀ v, SequOOL.lastPoint negInf s = .ok v → PointOK domain s.P v :=
  SequOOL_points_in_domain hbot k domain hmax hK inputs hv hin
    (TT.SQ.goodDraws_of_det negInf hk inputs _ 1 hin)

end seq

/-! ### Zooming (the model's `pull` returns the arm's stored point itself) -/
section zoom
open ZM Zooming
variable {α R S : Type} [Field α] [LinearOrder α] [IsStrictOrderedRing α] [LinearOrder S]

/-- **Zooming_points_in_domain**: in every state of a run whose draws satisfy the NumPy
guarantees (`ZM.GoodRun`): the invariant `Cover` of C11 and `DomInv` hold; every active arm's
point is a `d`-vector inside the domain (`cover_arm_in_cell`: the point lies in the arm's leaf
cell, a sub-box of the domain); `pull` never raises and returns such a point; and `receive` with
any reward never raises (`C11.receive_Cover`). -/
theorem Zooming_points_in_domain {cfg : ZoomCfg R S} {k : Kind} {domain : Box α}
    (hv : Box.Valid domain) {s : Zooming α S} {H : List (Nat × R)}
    (hG : GoodRun cfg k domain s H) :
    Cover domain s ∧ DomInv k domain s.P ∧
    (∀ a ∈ s.arms, Box.Mem domain a.pt ∧ a.pt.length = domain.length) ∧
    (NegInfLe cfg s → ∃ i a, s.arms[i]? = some a ∧
      pull cfg s = .ok ({ s with best := some i }, i, a.pt) ∧
      Box.Mem domain a.pt ∧ a.pt.length = domain.length ∧
      ∀ (r : R) (ds : List (Draw α)), RecvDrawsOK cfg { s with best := some i } ds →
        ∃ s' ds', receive cfg { s with best := some i } r ds = .ok (s', ds') ∧
          Cover domain s') := by
  have hC := (goodRun_cover hv hG).1
  refine ⟨hC, TT.ZM.goodRun_dom hv hG, fun a ha => TT.ZM.arm_in_domain hC ha, fun hneg => ?_⟩
  obtain ⟨_, i, a, h1, h2, h3⟩ := C11.pull_Cover cfg hC hneg
  obtain ⟨m1, m2⟩ := TT.ZM.arm_in_domain hC (List.mem_of_getElem? h1)
  refine ⟨i, a, h1, h2, m1, m2, fun r ds hds => ?_⟩
  obtain ⟨s', ds', e, hC', _⟩ := C11.receive_Cover cfg h3 rfl h1 r hds
  exact ⟨s', ds', e, hC'⟩

/-- The point returned by any successful `pull` of a good-run state lies in the domain. -/
theorem Zooming_pull_in_domain {cfg : ZoomCfg R S} {k : Kind} {domain : Box α}
    (hv : Box.Valid domain) {s s1 : Zooming α S} {H : List (Nat × R)}
    (hG : GoodRun cfg k domain s H) {i : Nat} {pt : List α}
    (hp : pull cfg s = .ok (s1, i, pt)) : Box.Mem domain pt ∧ pt.length = domain.length := by
  obtain ⟨_, a, ha, rfl⟩ := pull_inv hp
  exact TT.ZM.arm_in_domain (goodRun_cover hv hG).1 (List.mem_of_getElem? ha)

end zoom

/-! ## 3. POO and GPO (PCT / VPCT), generic in the base learner -/
section wrappers
variable {L α R S Pt ρ : Type}

/-- **POO_points_in_domain**: if the base learner only proposes points satisfying `InDom`
(`OpsInDom`, under its own invariant `LI`), then from every state reachable by the documented
loop, the point returned by `pull` satisfies `InDom`, and `LI` holds of every learner POO has
constructed — before and after the following `receive`.  Totality: `POO_total` (cited below). -/
theorem POO_points_in_domain {ops : LearnerOps L α R Pt ρ} {LI : L → Prop} {InDom : Pt → Prop}
    (hops : OpsInDom ops LI InDom) (cfg : POOCfg R S ρ) {s : POO L S}
    (hs : POO.Reach ops cfg s) :
    POOInv LI s ∧
    ∀ time ds s1 ds1 i pt, POO.pull ops cfg s time ds = .ok (s1, ds1, i, pt) →
      InDom pt ∧ POOInv LI s1 ∧
      ∀ time' r ds' s2 ds2, POO.receive ops cfg s1 time' r ds' = .ok (s2, ds2) → POOInv LI s2 := by
  obtain ⟨xs, log, hrun⟩ := hs
  have hI := TT.POO.run_inv hops cfg xs _ _ log (TT.POO.init_inv LI) hrun
  refine ⟨hI, fun time ds s1 ds1 i pt hp => ?_⟩
  obtain ⟨h1, h2⟩ := TT.POO.pull_inDom hops cfg hI hp
  exact ⟨h2, h1, fun time' r ds' s2 ds2 hr => TT.POO.receive_inv hops cfg h1 hr⟩

/-- `get_last_point` of POO (the next proposal of the best learner) returns a point satisfying
`InDom`, from every reachable state. -/
theorem POO_lastPoint_in_domain [LT S] [DecidableLT S] {ops : LearnerOps L α R Pt ρ}
    {LI : L → Prop} {InDom : Pt → Prop} (hops : OpsInDom ops LI InDom) (cfg : POOCfg R S ρ)
    {s s' : POO L S} (hs : POO.Reach ops cfg s) {i : Nat} {pt : Pt}
    (h : POO.lastPoint ops s = .ok (s', i, pt)) : InDom pt ∧ POOInv LI s' := by
  obtain ⟨h1, h2⟩ := TT.POO.lastPoint_inDom hops (POO_points_in_domain hops cfg hs).1 h
  exact ⟨h2, h1⟩

/-- Totality of POO (C10 `POO_total`), together with the domain property of every round. -/
theorem POO_total_in_domain {ops : LearnerOps L α R Pt ρ} {LI : L → Prop} {InDom : Pt → Prop}
    (hops : OpsInDom ops LI InDom) {cfg : POOCfg R S ρ} (hc : cfg.cond 2 2 = true)
    (htot : OpsTotal ops) (xs : List (RoundIn α R)) :
    ∃ s' log, POO.run ops cfg (POO.init : POO L S) xs = .ok (s', log) ∧ POOInv LI s' := by
  obtain ⟨s', log, h⟩ := POO_total hc htot xs
  exact ⟨s', log, h, TT.POO.run_inv hops cfg xs _ _ log (TT.POO.init_inv LI) h⟩

/-- **GPO_points_in_domain**: along every run of the documented loop, every point returned by
`pull` (recorded in the log) satisfies `InDom`; `goodx` and `Vx` only ever hold points proposed
by learners, so the final `pull`s and `get_last_point` return such points too. -/
theorem GPO_points_in_domain [LT S] [DecidableLT S] {ops : LearnerOps L α R Pt ρ}
    {LI : L → Prop} {InDom : Pt → Prop} (hops : OpsInDom ops LI InDom) (cfg : GPOCfg R S ρ)
    {xs : List (RoundIn α R)} {s : GPO L S Pt} {log : List (GPO.Entry R Pt)}
    (hrun : GPO.run ops cfg GPO.init xs = .ok (s, log)) :
    GPOInv LI InDom s ∧ (∀ e ∈ log, InDom e.pt) ∧
    (∀ time ds s1 ds1 pt, GPO.pull ops cfg s time ds = .ok (s1, ds1, pt) → InDom pt) ∧
    (∀ p, GPO.lastPoint s = .ok p → InDom p) := by
  obtain ⟨hI, hlog⟩ := TT.GPO.run_inDom hops cfg xs _ _ log (TT.GPO.init_inv LI InDom) hrun
  exact ⟨hI, hlog, fun time ds s1 ds1 pt hp => (TT.GPO.pull_inDom hops cfg hI hp).2,
    fun p hp => TT.GPO.lastPoint_inDom hI hp⟩

/-- Totality of GPO (C09 `GPO_total`: `1 ≤ N`, `1 ≤ half`, total base learner), together with
the domain property. -/
theorem GPO_total_in_domain [LT S] [DecidableLT S] {ops : LearnerOps L α R Pt ρ}
    {LI : L → Prop} {InDom : Pt → Prop} (hops : OpsInDom ops LI InDom) {cfg : GPOCfg R S ρ}
    (hN : 1 ≤ cfg.N) (hh : 1 ≤ cfg.half) (htot : OpsTotal ops) (xs : List (RoundIn α R)) :
    ∃ s' log, GPO.run ops cfg (GPO.init : GPO L S Pt) xs = .ok (s', log) ∧
      GPOInv LI InDom s' ∧ ∀ e ∈ log, InDom e.pt := by
  obtain ⟨s', log, h, _⟩ := GPO_total hN hh htot xs
  obtain ⟨h1, h2, _⟩ := GPO_points_in_domain hops cfg h
  exact ⟨s', log, h, h1, h2⟩

end wrappers

/-! ## 4. The recorded exceptions -/
section exceptions
variable {L α R S Pt ρ : Type}

/-- POO cannot start when the oracle refuses `N = n = 2` (C10). -/
theorem POO_start_failure (ops : LearnerOps L α R Pt ρ) (cfg : POOCfg R S ρ)
    (hc : cfg.cond 2 2 = false) (time : Nat) (ds : List (Draw α)) :
    POO.pull ops cfg (POO.init : POO L S) time ds = .error .noneDeref :=
  (PyXAB.POO_start_failure ops cfg hc time ds).1

/-- GPO with `N = 0` or `half_phase_length = 0`: the first `pull` returns `None` (C09). -/
theorem GPO_degenerate [LT S] [DecidableLT S] {ops : LearnerOps L α R Pt ρ} {cfg : GPOCfg R S ρ}
    (hops : OpsTotal ops) (h0 : cfg.N = 0 ∨ cfg.half = 0) (time : Nat) (ds : List (Draw α)) :
    GPO.pull ops cfg (GPO.init : GPO L S Pt) time ds = .error .returnedNone :=
  PyXAB.GPO_degenerate hops h0 time ds

/-- `get_last_point` of GPO before any validation: `np.argmax([])` raises `ValueError`. -/
theorem GPO_lastPoint_no_score [LT S] [DecidableLT S] {s : GPO L S Pt} (h : s.V = []) :
    GPO.lastPoint s = .error .valueError := by
  simp [GPO.lastPoint, h, MT.argmaxFirst_nil]

/-- `get_last_point` of POO before the first `pull`: `np.argmax([])` raises `ValueError`. -/
theorem POO_lastPoint_no_score [LT S] [DecidableLT S] (ops : LearnerOps L α R Pt ρ)
    {s : POO L S} (h : s.V = []) : POO.lastPoint ops s = .error .valueError := by
  simp [POO.lastPoint, h, MT.argmaxFirst_nil]

/-- `get_last_point` of SequOOL before any round dereferences `max_node = None` (C07). -/
theorem SequOOL_lastPoint_before_any_round {α S : Type} [Add α] [Sub α] [Mul α] [Div α]
    [OfNat α 2] [NatCast α] [LinearOrder S] [Inhabited S] (negInf : S) (k : Kind)
    (domain : Box α) (hmax : Nat) :
    SequOOL.lastPoint negInf (SequOOL.init k domain hmax : SequOOL α S) = .error .noneDeref :=
  SQ.C07.lastPoint_init k domain hmax

/-- SOO beyond its depth cap: `pull` sweeps for ever (C08; the model runs out of fuel). -/
theorem SOO_pull_outOfFuel :
    (Ex08.stSOO 0 1).P.depth = (Ex08.stSOO 0 1).hmax ∧
    SOO.pull ⊥ (Ex08.stSOO 0 1) 2 [Ex08.dr 0] = .error .outOfFuel :=
  Ex08.SOO_pull_outOfFuel_counterexample

/-- StoSOO beyond its budget (`time > n`): the `while` loop of `pull` never advances — the
Python code hangs, the model reports `outOfFuel` — in EVERY state. -/
theorem StoSOO_pull_budget_exhausted {α R S : Type} [Add α] [Sub α] [Mul α] [Div α] [OfNat α 2]
    [NatCast α] [LE S] [DecidableLE S] [Inhabited S] [Inhabited R] (cfg : StoCfg S R)
    (s : StoSOO α R S) {time : Nat} (ht : cfg.n < time) (ds : List (Draw α)) :
    StoSOO.pull cfg s time ds = .error .outOfFuel := by
  have h : ¬ time ≤ cfg.n := by omega
  simp [StoSOO.pull, StoSOO.loop, h, bind, Except.bind]

end exceptions

/-! ## 5. Non-vacuity: concrete runs over `ℚ` (data: `Lemmas/TT_Example.lean`) -/
section examples
open TT.Ex01 TBB.Ex

/-! ### T-HOO, `BinaryPartition` (configuration `cfgH` of `Lemmas/TBB_Example.lean`),
box `[0,1] × [-1,3]` -/

/-- the hypotheses of `HOO_points_in_domain_det` hold … -/
example : DrawsOK .binary domQ.length [dq 0] ∧ InputsOK .binary domQ.length inH := by decide

/-- … so the run never raises and all handed-out points lie in the box … -/
example : ∃ s H, HOO.run cfgH .binary domQ [dq 0] inH = .ok (s, H) ∧ HOO.Inv cfgH s ∧
    DomInv .binary domQ s.P ∧ H.map (·.2) = inH.map (·.1) ∧ ∀ e ∈ H, PointOK domQ s.P e.1 :=
  HOO_points_in_domain_det cfgH .binary trivial domQ [dq 0] inH domQ_valid (by decide) (by decide)

/-- … and these are the cells and points of the four rounds (kernel evaluation over `ℚ`). -/
example : (HOO.run cfgH .binary domQ [dq 0] inH).toOption.map
      (fun x => x.2.map (fun e => (e.1, ptOf x.1.P e.1))) =
    some [(2, [3 / 4, 1]), (1, [1 / 4, 1]), (6, [1 / 4, 2]), (4, [7 / 8, 1])] := by
  decide +kernel

/-! ### T-HOO, `RandomBinaryPartition`: `GoodDraws` is satisfiable, and it is needed -/

/-- `HOO_points_in_domain` applies to a `RandomBinaryPartition` run (root split at `1/3`, the
pulled cell `[1/3,1] × [-1,3]` split at `1/2`: `TT.Ex01.rGood`). -/
example : ∃ s H, HOO.run cfgH .randBinary domQ [dr 0 (1 / 3)] [(3, [dr 0 (1 / 2)])] = .ok (s, H) ∧
    HOO.Inv cfgH s ∧ DomInv .randBinary domQ s.P ∧ H.map (·.2) = [3] ∧
    ∀ e ∈ H, PointOK domQ s.P e.1 := by
  refine HOO_points_in_domain cfgH .randBinary domQ [dr 0 (1 / 3)] [(3, [dr 0 (1 / 2)])]
    domQ_valid (by decide) (by decide) rHead ?_
  intro s0 ds' h0
  rw [rS0_eq] at h0
  cases h0
  exact rGood

/-- **The hypothesis on the draws is needed**: with the split point `1/4 ∉ [1/3, 1]` (which
`np.random.uniform(1/3, 1)` cannot produce) the same run creates the "cell" `[1/3, 1/4]`, which
is not a valid box: `BoxInv` fails. -/
theorem HOO_bad_draw_counterexample :
    (HOO.run cfgH .randBinary domQ [dr 0 (1 / 3)] [(3, [dr 0 (1 / 4)])]).toOption.map
      (fun x => x.1.P.nodes.map (·.box)) =
    some [[⟨0, 1⟩, ⟨-1, 3⟩], [⟨0, 1 / 3⟩, ⟨-1, 3⟩], [⟨1 / 3, 1⟩, ⟨-1, 3⟩],
      [⟨1 / 3, 1 / 4⟩, ⟨-1, 3⟩], [⟨1 / 4, 1⟩, ⟨-1, 3⟩]] ∧
    ¬ Box.Valid ([⟨1 / 3, 1 / 4⟩, ⟨-1, 3⟩] : Box ℚ) := by
  refine ⟨by decide +kernel, fun h => ?_⟩
  have := h ⟨1 / 3, 1 / 4⟩ (by simp)
  have h' : (1 / 3 : ℚ) ≤ 1 / 4 := this
  norm_num at h'

/-! ### HCT and VHCT, `BinaryPartition` -/

/-- HCT (`variance = false`) and VHCT (`variance = true`) -/
example (var : Bool) : ∃ s H, HCT.run (cfgC var) .binary domQ [dq 0] inH = .ok (s, H) ∧
    HCT.Inv (cfgC var) s ∧ DomInv .binary domQ s.P ∧ H.map (·.2) = inH.map (·.1) ∧
    ∀ e ∈ H, PointOK domQ s.P e.1 :=
  HCT_points_in_domain_det (cfgC var) .binary trivial domQ [dq 0] inH domQ_valid (by decide)
    (by decide)

/-! ### SOO, `BinaryPartition` (scores `WithBot ℤ` as in `Props/C08.lean`) -/

example : SW.InputsOK .binary domQ.length inS := by decide

example : ∃ s H, SOO.run ⊥ .binary domQ 10 inS = .ok (s, H) ∧ SOO.Inv ⊥ s ∧
    DomInv .binary domQ s.P ∧ H.map (·.2) = inS.map (·.2.2) ∧
    (∀ e ∈ H, PointOK domQ s.P e.1) ∧
    ∀ v, SOO.lastPoint ⊥ s = .ok v → PointOK domQ s.P v :=
  SOO_points_in_domain_det ⊥ Ex08.botLe .binary trivial domQ 10 inS domQ_valid (by decide)
    (by decide)

/-- the cells and points handed out, and the recommendation (cell `2`, reward `7`) -/
example : (SOO.run ⊥ .binary domQ 10 inS).toOption.map
      (fun x => (x.2.map (fun e => (e.1, ptOf x.1.P e.1)),
        (SOO.lastPoint ⊥ x.1).toOption.map (fun v => (v, ptOf x.1.P v)))) =
    some ([(0, [1 / 2, 1]), (1, [1 / 2, 0]), (2, [1 / 2, 2]), (3, [1 / 2, 3 / 2])],
      some (2, [1 / 2, 2])) := by
  decide +kernel

/-! ### DOO, SequOOL and StoSOO, `BinaryPartition` -/

example : ∃ s H, DOO.run (α := ℚ) ⟨⊥, Ex08.sc 1000, ⊥, Ex08.addSc,
      fun _ h => .ok (Ex08.sc (10 - 2 * (h : Int)))⟩ .binary domQ inS = .ok (s, H) ∧
    DomInv .binary domQ s.P ∧ (∀ e ∈ H, PointOK domQ s.P e.1) := by
  obtain ⟨s, H, e, _, hD, _, hp, _⟩ := DOO_points_in_domain_det (α := ℚ)
    ⟨⊥, Ex08.sc 1000, ⊥, Ex08.addSc, fun _ h => .ok (Ex08.sc (10 - 2 * (h : Int)))⟩
    Ex08.botLe (fun _ _ _ _ => ⟨_, rfl⟩) .binary trivial domQ inS domQ_valid (by decide)
  exact ⟨s, H, e, hD, hp⟩

example : ∃ s H, SQ.run ⊥ .binary domQ 4 inQ = .ok (s, H) ∧ SQ.Inv ⊥ s ∧
    DomInv .binary domQ s.P ∧ H.map (·.2) = inQ.map (·.1) ∧
    (∀ e ∈ H, PointOK domQ s.P e.1) ∧
    ∀ v, SequOOL.lastPoint ⊥ s = .ok v → PointOK domQ s.P v :=
  SequOOL_points_in_domain_det Ex08.botLe .binary trivial domQ 4 (by decide) inQ domQ_valid
    (by decide)

example : ∃ s H, StoSOO.run Ex08.cfgSto .binary domQ inSto = .ok (s, H) ∧
    StoSOO.Inv Ex08.cfgSto s ∧ DomInv .binary domQ s.P ∧ H.map (·.2) = inSto.map (·.2.2) ∧
    (∀ e ∈ H, PointOK domQ s.P e.1) ∧
    ∀ v, StoSOO.lastPoint Ex08.cfgSto s = .ok v → PointOK domQ s.P v :=
  StoSOO_points_in_domain_det Ex08.cfgSto Ex08.cfgSto_bot Ex08.cfgSto_top rfl .binary trivial
    domQ inSto domQ_valid (by decide) (by decide) (by decide)

/-! ### Zooming: the 3-round run of `Lemmas/ZM_Example.lean` -/

example : ZM.Cover ZM.dom01 ZM.st3 ∧ DomInv .binary ZM.dom01 ZM.st3.P ∧
    ∀ a ∈ ZM.st3.arms, Box.Mem ZM.dom01 a.pt ∧ a.pt.length = ZM.dom01.length :=
  ⟨(Zooming_points_in_domain ZM.dom01_valid ZM.good3).1,
    (Zooming_points_in_domain ZM.dom01_valid ZM.good3).2.1,
    (Zooming_points_in_domain ZM.dom01_valid ZM.good3).2.2.1⟩

/-! ### POO / GPO: a base learner satisfying `OpsInDom` (the recording learner, trivially) -/

example : OpsInDom (recOps ℚ ℚ Nat) (fun _ => True) (fun _ => True) :=
  ⟨fun _ _ _ _ _ => trivial, fun _ _ _ _ _ _ => ⟨trivial, trivial⟩, fun _ _ _ _ _ _ _ _ => trivial⟩

end examples

end C01
end PyXAB
