/-
  C01 — placeholder index until the umbrella development is merged: the totality theorems
  live with each model (Props/C06 HOO/HCT `loop_total`, C08 SOO/DOO/StoSOO, C12 SequOOL,
  C09/C10 GPO/POO, C11 Zooming `init_Cover/receive_Cover`).
-/
import PyXABProofs.Props.C06
import PyXABProofs.Props.C08
import PyXABProofs.Props.C09
import PyXABProofs.Props.C10
import PyXABProofs.Props.C11
import PyXABProofs.Props.C12
