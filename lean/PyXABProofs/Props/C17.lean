/-
  Property C17 — the synthetic objectives never exceed their declared maximum.

  "For every synthetic objective and every point x of its documented domain, f(x) is a finite
  number not larger than the declared fmax, so the regret fmax - f(x) is never negative; fmax is
  attained at the documented maximiser for every objective except Garland, whose declared 1
  overshoots its true maximum by less than 0.003.  Evaluation is a pure function of x (and, for
  the perturbed variants, of the offset drawn at construction), and a point of the wrong dimension
  is rejected with ValueError."

  Setting.  `Generated/ObjectivesReal.lean` is the machine translation (regenerated at every check
  run) of `PyXAB/synthetic_obj/*.py` over the reals: every objective `F` is a function
  `F.f params (x : List ℝ) : Except Err ℝ` together with its declared `F.fmax`.  The theorems below
  unfold these generated definitions and argue semantically (helper inequalities over plain reals:
  `Lemmas/OBJ_Basic.lean`).

  * Finiteness is automatic: a value `v : ℝ` is a real number (no `inf`/`nan` in `ℝ`); what the
    theorems establish is that the evaluation returns `.ok v` (no exception) with `v ≤ fmax`.
    (Partial real operations are totalised by Mathlib — `log 0 = 0`, `x / 0 = 0`, `√(-1) = 0` — and
    every place where the Python code could meet one of them on the documented domain is guarded
    by the `if` that the code itself contains; the theorems go through these guards.)
  * Purity is automatic as well: `F.f` is a Lean function of the construction-time parameters
    (`tmax`, exponents, `perturb`, `k`) and of the point; no state, no randomness.

  1. `X_le_fmax`      : `∃ v, X.f … [coords] = .ok v ∧ v ≤ X.fmax …` on the documented domain
                        (for most objectives: for all real coordinates), and `X_regret_nonneg`-style
                        consequences follow by `sub_nonneg`.
  2. `X_attained`     : `X.f … [maximiser] = .ok (X.fmax …)`, for every objective but Garland.
  3. Garland          : `Garland_lt_fmax` (1 is never attained on [0,1]), `Garland_near`
                        (`f(π/6) > 0.997`), `Garland_gap` (`∃ x ∈ [0,1], fmax - f x < 0.003`).
  4. `X_wrong_dim`    : `xs.length ≠ d → X.f … xs = .error .valueError`.
  5. non-vacuity `example`s.
-/
import PyXABProofs.Lemmas.OBJ_Basic

namespace PyXAB.C17
open PyXAB PyXAB.Obj PyXAB.OBJ

/-! ## 1. Garland and Perturbed_Garland (domain `[0,1]`) -/

theorem Garland_fmax_eq : Garland.fmax = 1 := by simp only [Garland.fmax]

theorem Garland_le_fmax {x : ℝ} (hx0 : 0 ≤ x) (hx1 : x ≤ 1) :
    ∃ v, Garland.f [x] = .ok v ∧ v ≤ Garland.fmax := by
  refine ⟨_, rfl, ?_⟩
  simp only [Garland.fmax]
  have h := garland_core hx0 hx1 (sqrt_abs_sin_nonneg (60 * x))
  linarith

/-- the declared maximum `1` is not attained anywhere on `[0,1]`. -/
theorem Garland_lt_fmax {x : ℝ} (hx0 : 0 ≤ x) (hx1 : x ≤ 1) :
    ∃ v, Garland.f [x] = .ok v ∧ v < Garland.fmax := by
  refine ⟨_, rfl, ?_⟩
  simp only [Garland.fmax]
  have h := garland_core_lt hx0 hx1 (sqrt_abs_sin_nonneg (60 * x))
    sqrt_abs_sin_sixty_pos_of_eq_half
  linarith

/-- near-attainment: `f(π/6) = 4 (π/6)(1 - π/6) > 0.997`. -/
theorem Garland_near : ∃ v, Garland.f [Real.pi / 6] = .ok v ∧ (0.997 : ℝ) < v := by
  refine ⟨_, rfl, ?_⟩
  simp only [sin_sixty_mul_pi_div_six, abs_zero, Real.sqrt_zero]
  have h := garland_value_pi_div_six
  linarith

/-- the declared `fmax = 1` overshoots the true supremum over `[0,1]` by less than `0.003`. -/
theorem Garland_gap :
    ∃ x : ℝ, 0 ≤ x ∧ x ≤ 1 ∧ ∃ v, Garland.f [x] = .ok v ∧ Garland.fmax - v < 0.003 := by
  obtain ⟨v, hv, hlt⟩ := Garland_near
  refine ⟨Real.pi / 6, pi_div_six_mem.1, pi_div_six_mem.2, v, hv, ?_⟩
  simp only [Garland.fmax]
  norm_num at hlt ⊢
  linarith

theorem Perturbed_Garland_le_fmax (perturb : ℝ) {x : ℝ} (hx0 : 0 ≤ x) (hx1 : x ≤ 1) :
    ∃ v, Perturbed_Garland.f perturb [x] = .ok v ∧ v ≤ Perturbed_Garland.fmax perturb := by
  refine ⟨_, rfl, ?_⟩
  simp only [Perturbed_Garland.fmax]
  have h := garland_core hx0 hx1 (sqrt_abs_sin_nonneg (60 * x))
  linarith

theorem Perturbed_Garland_lt_fmax (perturb : ℝ) {x : ℝ} (hx0 : 0 ≤ x) (hx1 : x ≤ 1) :
    ∃ v, Perturbed_Garland.f perturb [x] = .ok v ∧ v < Perturbed_Garland.fmax perturb := by
  refine ⟨_, rfl, ?_⟩
  simp only [Perturbed_Garland.fmax]
  have h := garland_core_lt hx0 hx1 (sqrt_abs_sin_nonneg (60 * x))
    sqrt_abs_sin_sixty_pos_of_eq_half
  linarith

theorem Perturbed_Garland_near (perturb : ℝ) :
    ∃ v, Perturbed_Garland.f perturb [Real.pi / 6] = .ok v ∧ (0.997 : ℝ) + perturb < v := by
  refine ⟨_, rfl, ?_⟩
  simp only [sin_sixty_mul_pi_div_six, abs_zero, Real.sqrt_zero]
  have h := garland_value_pi_div_six
  linarith

theorem Perturbed_Garland_gap (perturb : ℝ) :
    ∃ x : ℝ, 0 ≤ x ∧ x ≤ 1 ∧
      ∃ v, Perturbed_Garland.f perturb [x] = .ok v ∧ Perturbed_Garland.fmax perturb - v < 0.003 := by
  obtain ⟨v, hv, hlt⟩ := Perturbed_Garland_near perturb
  refine ⟨Real.pi / 6, pi_div_six_mem.1, pi_div_six_mem.2, v, hv, ?_⟩
  simp only [Perturbed_Garland.fmax]
  norm_num at hlt ⊢
  linarith

/-! ## 2. DoubleSine and Perturbed_DoubleSine -/

theorem DoubleSine_fmax_eq : DoubleSine.fmax = 0 := by simp only [DoubleSine.fmax]; norm_num

/-- the bound holds for arbitrary exponents, `tmax` and real `x`. -/
theorem DoubleSine_le_fmax_gen (tmax ep2 ep1 x : ℝ) :
    ∃ v, DoubleSine.f tmax ep2 ep1 [x] = .ok v ∧ v ≤ DoubleSine.fmax := by
  refine ⟨_, rfl, ?_⟩
  have h00 : (0.0 : ℝ) = 0 := by norm_num
  simp only [DoubleSine.fmax, h00]
  split_ifs with hu
  · exact le_refl _
  · have hu0 := two_abs_nonneg (x - tmax)
    have h := dsine_core
      (mysin2_nonneg (Real.log (2 * |x - tmax|) / Real.log 2 / 2.0))
      (mysin2_le_one (Real.log (2 * |x - tmax|) / Real.log 2 / 2.0))
      (Real.rpow_nonneg hu0 ep2) (Real.rpow_nonneg hu0 ep1)
    linarith

/-- the documented instance: `rho1, rho2 ∈ (0,1]`, `tmax ∈ [0,1]`, `x ∈ [0,1]`. -/
theorem DoubleSine_le_fmax {rho1 rho2 tmax x : ℝ}
    (_h1 : 0 < rho1 ∧ rho1 ≤ 1) (_h2 : 0 < rho2 ∧ rho2 ≤ 1)
    (_ht : 0 ≤ tmax ∧ tmax ≤ 1) (_hx : 0 ≤ x ∧ x ≤ 1) :
    ∃ v, DoubleSine.f (DoubleSine.tmax tmax) (DoubleSine.ep2 rho2) (DoubleSine.ep1 rho1) [x] = .ok v
      ∧ v ≤ DoubleSine.fmax :=
  DoubleSine_le_fmax_gen _ _ _ _

theorem DoubleSine_attained (tmax ep2 ep1 : ℝ) :
    DoubleSine.f tmax ep2 ep1 [tmax] = .ok DoubleSine.fmax := by
  simp only [DoubleSine.f, DoubleSine.fmax, sub_self, abs_zero, mul_zero, if_true]

theorem DoubleSine_attained' (rho1 rho2 tmax : ℝ) :
    DoubleSine.f (DoubleSine.tmax tmax) (DoubleSine.ep2 rho2) (DoubleSine.ep1 rho1)
      [DoubleSine.tmax tmax] = .ok 0 := by
  rw [DoubleSine_attained, DoubleSine_fmax_eq]

/-- side fact: the exponents are non-negative for `rho ∈ (0,1]`. -/
theorem DoubleSine_ep_nonneg {rho : ℝ} (h0 : 0 < rho) (h1 : rho ≤ 1) :
    0 ≤ DoubleSine.ep1 rho ∧ 0 ≤ DoubleSine.ep2 rho := by
  simp only [DoubleSine.ep1, DoubleSine.ep2]
  exact ⟨neg_log_div_log_two_nonneg h0 h1, neg_log_div_log_two_nonneg h0 h1⟩

theorem Perturbed_DoubleSine_le_fmax_gen (tmax perturb ep2 ep1 x : ℝ) :
    ∃ v, Perturbed_DoubleSine.f tmax perturb ep2 ep1 [x] = .ok v
      ∧ v ≤ Perturbed_DoubleSine.fmax perturb := by
  refine ⟨_, rfl, ?_⟩
  have h00 : (0.0 : ℝ) = 0 := by norm_num
  simp only [Perturbed_DoubleSine.fmax, h00]
  split_ifs with hu
  · exact le_refl _
  · have hu0 := two_abs_nonneg (x - tmax)
    have h := dsine_core
      (mysin2_nonneg (Real.log (2 * |x - tmax|) / Real.log 2 / 2.0))
      (mysin2_le_one (Real.log (2 * |x - tmax|) / Real.log 2 / 2.0))
      (Real.rpow_nonneg hu0 ep2) (Real.rpow_nonneg hu0 ep1)
    linarith

theorem Perturbed_DoubleSine_le_fmax {rho1 rho2 tmax x : ℝ} (perturb : ℝ)
    (_h1 : 0 < rho1 ∧ rho1 ≤ 1) (_h2 : 0 < rho2 ∧ rho2 ≤ 1)
    (_ht : 0 ≤ tmax ∧ tmax ≤ 1) (_hx : 0 ≤ x ∧ x ≤ 1) :
    ∃ v, Perturbed_DoubleSine.f (Perturbed_DoubleSine.tmax tmax) perturb
        (Perturbed_DoubleSine.ep2 rho2) (Perturbed_DoubleSine.ep1 rho1) [x] = .ok v
      ∧ v ≤ Perturbed_DoubleSine.fmax perturb :=
  Perturbed_DoubleSine_le_fmax_gen _ _ _ _ _

theorem Perturbed_DoubleSine_attained (tmax perturb ep2 ep1 : ℝ) :
    Perturbed_DoubleSine.f tmax perturb ep2 ep1 [tmax] = .ok (Perturbed_DoubleSine.fmax perturb) := by
  simp only [Perturbed_DoubleSine.f, Perturbed_DoubleSine.fmax, sub_self, abs_zero, mul_zero,
    if_true]

theorem Perturbed_DoubleSine_fmax_eq (perturb : ℝ) : Perturbed_DoubleSine.fmax perturb = perturb := by
  simp only [Perturbed_DoubleSine.fmax]; norm_num

/-! ## 3. DifficultFunc (domain `[0,1]`; the bound in fact holds for every real `x`) -/

theorem DifficultFunc_fmax_eq : DifficultFunc.fmax = 0 := by
  simp only [DifficultFunc.fmax]; norm_num

theorem DifficultFunc_le_fmax_gen (x : ℝ) :
    ∃ v, DifficultFunc.f [x] = .ok v ∧ v ≤ DifficultFunc.fmax := by
  refine ⟨_, rfl, ?_⟩
  have h00 : (0.0 : ℝ) = 0 := by norm_num
  simp only [DifficultFunc.fmax, h00]
  split_ifs with hy
  · exact le_refl _
  · have h := difficult_core (y := |x - 0.5|) (threshold_cases (Real.log |x - 0.5|))
    linarith

theorem DifficultFunc_le_fmax {x : ℝ} (_hx0 : 0 ≤ x) (_hx1 : x ≤ 1) :
    ∃ v, DifficultFunc.f [x] = .ok v ∧ v ≤ DifficultFunc.fmax :=
  DifficultFunc_le_fmax_gen x

theorem DifficultFunc_attained : DifficultFunc.f [0.5] = .ok DifficultFunc.fmax := by
  simp only [DifficultFunc.f, DifficultFunc.fmax, sub_self, abs_zero, if_true]
  norm_num

/-! ## 4. Ackley and Ackley_Normalized (all of `ℝ²`) -/

theorem Ackley_le_fmax (x1 x2 : ℝ) : ∃ v, Ackley.f [x1, x2] = .ok v ∧ v ≤ Ackley.fmax := by
  refine ⟨_, rfl, ?_⟩
  simp only [Ackley.fmax]
  have h := ackley_core (a := 0.5 * (x1 ^ 2 + x2 ^ 2))
    (Real.cos_le_one (2 * Real.pi * x1)) (Real.cos_le_one (2 * Real.pi * x2))
  linarith

theorem Ackley_attained : Ackley.f [0, 0] = .ok Ackley.fmax := by
  simp only [Ackley.f, Ackley.fmax]
  norm_num

theorem Ackley_fmax_eq : Ackley.fmax = 0 := by simp only [Ackley.fmax]

theorem Ackley_Normalized_le_fmax (x1 x2 : ℝ) :
    ∃ v, Ackley_Normalized.f [x1, x2] = .ok v ∧ v ≤ Ackley_Normalized.fmax := by
  refine ⟨_, rfl, ?_⟩
  simp only [Ackley_Normalized.fmax]
  refine div_nonpos_of_nonpos_of_nonneg ?_ (abs_nonneg _)
  have h := ackley_core (a := 0.5 * (x1 ^ 2 + x2 ^ 2))
    (Real.cos_le_one (2 * Real.pi * x1)) (Real.cos_le_one (2 * Real.pi * x2))
  linarith

theorem Ackley_Normalized_attained : Ackley_Normalized.f [0, 0] = .ok Ackley_Normalized.fmax := by
  simp only [Ackley_Normalized.f, Ackley_Normalized.fmax]
  norm_num

theorem Ackley_Normalized_fmax_eq : Ackley_Normalized.fmax = 0 := by
  simp only [Ackley_Normalized.fmax]

/-! ## 5. Himmelblau and Himmelblau_Normalized (all of `ℝ²`) -/

theorem Himmelblau_le_fmax (x1 x2 : ℝ) :
    ∃ v, Himmelblau.f [x1, x2] = .ok v ∧ v ≤ Himmelblau.fmax := by
  refine ⟨_, rfl, ?_⟩
  simp only [Himmelblau.fmax]
  nlinarith [sq_nonneg (x1 ^ 2 + x2 - 11), sq_nonneg (x1 + x2 ^ 2 - 7)]

theorem Himmelblau_attained : Himmelblau.f [3, 2] = .ok Himmelblau.fmax := by
  simp only [Himmelblau.f, Himmelblau.fmax]
  norm_num

theorem Himmelblau_fmax_eq : Himmelblau.fmax = 0 := by simp only [Himmelblau.fmax]

theorem Himmelblau_Normalized_le_fmax (x1 x2 : ℝ) :
    ∃ v, Himmelblau_Normalized.f [x1, x2] = .ok v ∧ v ≤ Himmelblau_Normalized.fmax := by
  refine ⟨_, rfl, ?_⟩
  simp only [Himmelblau_Normalized.fmax]
  refine div_nonpos_of_nonpos_of_nonneg ?_ (by norm_num)
  nlinarith [sq_nonneg (x1 ^ 2 + x2 - 11), sq_nonneg (x1 + x2 ^ 2 - 7)]

theorem Himmelblau_Normalized_attained :
    Himmelblau_Normalized.f [3, 2] = .ok Himmelblau_Normalized.fmax := by
  simp only [Himmelblau_Normalized.f, Himmelblau_Normalized.fmax]
  norm_num

theorem Himmelblau_Normalized_fmax_eq : Himmelblau_Normalized.fmax = 0 := by
  simp only [Himmelblau_Normalized.fmax]

/-! ## 6. Rastrigin and Rastrigin_Normalized (every dimension, all of `ℝ^d`) -/

theorem Rastrigin_le_fmax (xs : List ℝ) : ∃ v, Rastrigin.f xs = .ok v ∧ v ≤ Rastrigin.fmax := by
  refine ⟨_, rfl, ?_⟩
  simp only [Rastrigin.fmax]
  refine foldl_nonpos _ ?_ xs 0 le_rfl
  intro acc xi hacc
  have h := rastrigin_step (x := xi) hacc (Real.cos_le_one (2 * Real.pi * xi))
  linarith

theorem Rastrigin_attained (d : ℕ) : Rastrigin.f (List.replicate d 0) = .ok Rastrigin.fmax := by
  simp only [Rastrigin.f, Rastrigin.fmax]
  rw [foldl_replicate_fix _ 0 0 (by norm_num)]

theorem Rastrigin_fmax_eq : Rastrigin.fmax = 0 := by simp only [Rastrigin.fmax]

theorem Rastrigin_Normalized_le_fmax {k : ℝ} (hk : 0 ≤ k) (xs : List ℝ) :
    ∃ v, Rastrigin_Normalized.f (Rastrigin_Normalized.k k) xs = .ok v
      ∧ v ≤ Rastrigin_Normalized.fmax := by
  refine ⟨_, rfl, ?_⟩
  simp only [Rastrigin_Normalized.fmax, Rastrigin_Normalized.k]
  refine div_nonpos_of_nonpos_of_nonneg ?_ (mul_nonneg hk (Nat.cast_nonneg _))
  refine foldl_nonpos _ ?_ xs 0 le_rfl
  intro acc xi hacc
  have h := rastrigin_step (x := xi) hacc (Real.cos_le_one (2 * Real.pi * xi))
  linarith

/-- the default normalisation constant `k = 20`. -/
theorem Rastrigin_Normalized_le_fmax_default (xs : List ℝ) :
    ∃ v, Rastrigin_Normalized.f (Rastrigin_Normalized.k 20) xs = .ok v
      ∧ v ≤ Rastrigin_Normalized.fmax :=
  Rastrigin_Normalized_le_fmax (by norm_num) xs

theorem Rastrigin_Normalized_attained (k : ℝ) (d : ℕ) :
    Rastrigin_Normalized.f k (List.replicate d 0) = .ok Rastrigin_Normalized.fmax := by
  simp only [Rastrigin_Normalized.f, Rastrigin_Normalized.fmax]
  rw [foldl_replicate_fix _ 0 0 (by norm_num), zero_div]

theorem Rastrigin_Normalized_fmax_eq : Rastrigin_Normalized.fmax = 0 := by
  simp only [Rastrigin_Normalized.fmax]

/-! ## 7. Cexample (domain `[0, 1/e]`) -/

theorem Cexample_fmax_eq : Cexample.fmax = 1 := by simp only [Cexample.fmax]

theorem Cexample_le_fmax {x : ℝ} (hx0 : 0 ≤ x) (hx1 : x ≤ Real.exp (-1)) :
    ∃ v, Cexample.f [x] = .ok v ∧ v ≤ Cexample.fmax := by
  refine ⟨_, rfl, ?_⟩
  simp only [Cexample.fmax]
  split_ifs with h0
  · exact le_refl _
  · have h := cexample_core_le (lt_of_le_of_ne hx0 (Ne.symm h0)) hx1
    linarith

/-- (extra) on its domain the function is also non-negative, so the regret is at most `1`. -/
theorem Cexample_nonneg {x : ℝ} (hx0 : 0 ≤ x) (hx1 : x ≤ Real.exp (-1)) :
    ∃ v, Cexample.f [x] = .ok v ∧ 0 ≤ v := by
  refine ⟨_, rfl, ?_⟩
  simp only []
  split_ifs with h0
  · exact zero_le_one
  · have h := cexample_core_ge (lt_of_le_of_ne hx0 (Ne.symm h0)) hx1
    linarith

theorem Cexample_attained : Cexample.f [0] = .ok Cexample.fmax := by
  simp only [Cexample.f, Cexample.fmax, if_true]

/-! ## 8. Wrong dimension ⇒ `ValueError` -/

theorem Garland_wrong_dim (xs : List ℝ) (h : xs.length ≠ 1) :
    Garland.f xs = .error .valueError := by
  match xs, h with
  | [], _ => rfl
  | [_], h => exact absurd rfl h
  | _ :: _ :: _, _ => rfl

theorem Perturbed_Garland_wrong_dim (perturb : ℝ) (xs : List ℝ) (h : xs.length ≠ 1) :
    Perturbed_Garland.f perturb xs = .error .valueError := by
  match xs, h with
  | [], _ => rfl
  | [_], h => exact absurd rfl h
  | _ :: _ :: _, _ => rfl

theorem DoubleSine_wrong_dim (tmax ep2 ep1 : ℝ) (xs : List ℝ) (h : xs.length ≠ 1) :
    DoubleSine.f tmax ep2 ep1 xs = .error .valueError := by
  match xs, h with
  | [], _ => rfl
  | [_], h => exact absurd rfl h
  | _ :: _ :: _, _ => rfl

theorem Perturbed_DoubleSine_wrong_dim (tmax perturb ep2 ep1 : ℝ) (xs : List ℝ)
    (h : xs.length ≠ 1) :
    Perturbed_DoubleSine.f tmax perturb ep2 ep1 xs = .error .valueError := by
  match xs, h with
  | [], _ => rfl
  | [_], h => exact absurd rfl h
  | _ :: _ :: _, _ => rfl

theorem DifficultFunc_wrong_dim (xs : List ℝ) (h : xs.length ≠ 1) :
    DifficultFunc.f xs = .error .valueError := by
  match xs, h with
  | [], _ => rfl
  | [_], h => exact absurd rfl h
  | _ :: _ :: _, _ => rfl

theorem Cexample_wrong_dim (xs : List ℝ) (h : xs.length ≠ 1) :
    Cexample.f xs = .error .valueError := by
  match xs, h with
  | [], _ => rfl
  | [_], h => exact absurd rfl h
  | _ :: _ :: _, _ => rfl

theorem Ackley_wrong_dim (xs : List ℝ) (h : xs.length ≠ 2) :
    Ackley.f xs = .error .valueError := by
  match xs, h with
  | [], _ => rfl
  | [_], _ => rfl
  | [_, _], h => exact absurd rfl h
  | _ :: _ :: _ :: _, _ => rfl

theorem Ackley_Normalized_wrong_dim (xs : List ℝ) (h : xs.length ≠ 2) :
    Ackley_Normalized.f xs = .error .valueError := by
  match xs, h with
  | [], _ => rfl
  | [_], _ => rfl
  | [_, _], h => exact absurd rfl h
  | _ :: _ :: _ :: _, _ => rfl

theorem Himmelblau_wrong_dim (xs : List ℝ) (h : xs.length ≠ 2) :
    Himmelblau.f xs = .error .valueError := by
  match xs, h with
  | [], _ => rfl
  | [_], _ => rfl
  | [_, _], h => exact absurd rfl h
  | _ :: _ :: _ :: _, _ => rfl

theorem Himmelblau_Normalized_wrong_dim (xs : List ℝ) (h : xs.length ≠ 2) :
    Himmelblau_Normalized.f xs = .error .valueError := by
  match xs, h with
  | [], _ => rfl
  | [_], _ => rfl
  | [_, _], h => exact absurd rfl h
  | _ :: _ :: _ :: _, _ => rfl

/-- conversely a point of the right dimension is never rejected (shown for one 1-d and one 2-d
    objective; the `_le_fmax` theorems give it for all of them on their domains). -/
theorem Garland_ok_of_dim (xs : List ℝ) (h : xs.length = 1) : ∃ v, Garland.f xs = .ok v := by
  match xs, h with
  | [_], _ => exact ⟨_, rfl⟩

theorem Himmelblau_ok_of_dim (xs : List ℝ) (h : xs.length = 2) : ∃ v, Himmelblau.f xs = .ok v := by
  match xs, h with
  | [_, _], _ => exact ⟨_, rfl⟩

/-! ## 9. Regret is never negative (the form used by the regret computation) -/

theorem Rastrigin_regret_nonneg (xs : List ℝ) :
    ∃ v, Rastrigin.f xs = .ok v ∧ 0 ≤ Rastrigin.fmax - v := by
  obtain ⟨v, hv, hle⟩ := Rastrigin_le_fmax xs
  exact ⟨v, hv, sub_nonneg.mpr hle⟩

theorem Garland_regret_pos {x : ℝ} (hx0 : 0 ≤ x) (hx1 : x ≤ 1) :
    ∃ v, Garland.f [x] = .ok v ∧ 0 < Garland.fmax - v := by
  obtain ⟨v, hv, hlt⟩ := Garland_lt_fmax hx0 hx1
  exact ⟨v, hv, sub_pos.mpr hlt⟩

/-! ## 10. Non-vacuity: the hypotheses are satisfiable and the theorems instantiate -/

example : ∃ v, Garland.f [0.3] = .ok v ∧ v ≤ Garland.fmax :=
  Garland_le_fmax (by norm_num) (by norm_num)

example : ∃ v, Perturbed_Garland.f 0.01 [1] = .ok v ∧ v ≤ Perturbed_Garland.fmax 0.01 :=
  Perturbed_Garland_le_fmax 0.01 (by norm_num) (by norm_num)

example : ∃ v, DoubleSine.f (DoubleSine.tmax 0.5) (DoubleSine.ep2 0.8) (DoubleSine.ep1 0.3) [0.25]
    = .ok v ∧ v ≤ DoubleSine.fmax :=
  DoubleSine_le_fmax (rho1 := 0.3) (rho2 := 0.8) (tmax := 0.5) (x := 0.25)
    (by norm_num) (by norm_num) (by norm_num) (by norm_num)

example : DoubleSine.f (DoubleSine.tmax 0.5) (DoubleSine.ep2 0.8) (DoubleSine.ep1 0.3)
    [DoubleSine.tmax 0.5] = .ok 0 :=
  DoubleSine_attained' 0.3 0.8 0.5

example : 0 ≤ DoubleSine.ep1 0.3 ∧ 0 ≤ DoubleSine.ep2 0.3 :=
  DoubleSine_ep_nonneg (by norm_num) (by norm_num)

example : ∃ v, Perturbed_DoubleSine.f (Perturbed_DoubleSine.tmax 0.5) (-0.02)
    (Perturbed_DoubleSine.ep2 0.8) (Perturbed_DoubleSine.ep1 0.3) [1] = .ok v
      ∧ v ≤ Perturbed_DoubleSine.fmax (-0.02) :=
  Perturbed_DoubleSine_le_fmax (rho1 := 0.3) (rho2 := 0.8) (tmax := 0.5) (x := 1) (-0.02)
    (by norm_num) (by norm_num) (by norm_num) (by norm_num)

example : ∃ v, DifficultFunc.f [0.75] = .ok v ∧ v ≤ DifficultFunc.fmax :=
  DifficultFunc_le_fmax (by norm_num) (by norm_num)

example : ∃ v, Ackley.f [1, -2.5] = .ok v ∧ v ≤ Ackley.fmax := Ackley_le_fmax 1 (-2.5)

example : ∃ v, Himmelblau.f [-5, 5] = .ok v ∧ v ≤ Himmelblau.fmax := Himmelblau_le_fmax (-5) 5

example : ∃ v, Rastrigin.f [1, 2, 3] = .ok v ∧ v ≤ Rastrigin.fmax := Rastrigin_le_fmax [1, 2, 3]

example : ∃ v, Rastrigin_Normalized.f (Rastrigin_Normalized.k 20) [1, 2] = .ok v
    ∧ v ≤ Rastrigin_Normalized.fmax :=
  Rastrigin_Normalized_le_fmax_default [1, 2]

example : Rastrigin.f [0, 0, 0] = .ok 0 := by
  have h := Rastrigin_attained 3
  rwa [Rastrigin_fmax_eq] at h

/-- `0.25 ≤ 1/e`. -/
example : ∃ v, Cexample.f [0.25] = .ok v ∧ v ≤ Cexample.fmax :=
  Cexample_le_fmax (by norm_num) quarter_le_exp_neg_one

example : Garland.f [1, 2] = .error .valueError := Garland_wrong_dim _ (by simp)
example : Ackley.f [1] = .error .valueError := Ackley_wrong_dim _ (by simp)
example : Cexample.f [] = .error .valueError := Cexample_wrong_dim _ (by simp)
example (a b c : ℝ) (rest : List ℝ) : Himmelblau.f (a :: b :: c :: rest) = .error .valueError :=
  Himmelblau_wrong_dim _ (by simp)

end PyXAB.C17
