import PyXABProofs.Generated.ObjectivesReal
namespace PyXAB.C17
open PyXAB.Obj
/-- placeholder until the analysis development is merged -/
theorem Himmelblau_le_fmax (x1 x2 : ℝ) : ∃ v, Himmelblau.f [x1, x2] = .ok v ∧ v ≤ Himmelblau.fmax := by
  refine ⟨_, rfl, ?_⟩
  simp only [Himmelblau.fmax]
  nlinarith [sq_nonneg (x1 ^ 2 + x2 - 11), sq_nonneg (x1 + x2 ^ 2 - 7)]
end PyXAB.C17
