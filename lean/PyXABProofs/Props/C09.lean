/-
  Property C09 — GPO (and PCT / VPCT, which are GPO with a fixed base learner): "GPO creates N
  base learners with parameters (nu_max, rho_max^(2N/(2i+1))), i = 1..N, all distinct; each
  learner is driven for `half` pull/reward rounds and receives only rewards of points it
  proposed, after which its last proposed point is evaluated `half` times and scored by the mean
  of exactly those rewards.  Once all phases are over, pull and get_last_point return the
  validated point with the highest score."

  Setting.  `GPO.pull / receive / lastPoint` of `PyXABModel/Model/Meta.lean`, for EVERY base
  learner `ops : LearnerOps L α R Pt ρ` and every configuration record with `1 ≤ N`, `1 ≤ half`
  (both necessary: with `N = 0` or `half = 0` the first `pull` returns `None`, see
  `GPO_degenerate`).  `Spec/MetaSpec.lean` defines the ghost-instrumented loop (`GPO.round`,
  `GPO.run`; a log entry records phase and counter before the round, the point returned by
  `pull`, the reward, and the argument of `rhoOf` if a learner was constructed), `OpsTotal`,
  and the effect predicates `GPO.PullEffect` / `GPO.RecvEffect`.
-/
import PyXABProofs.Lemmas.MT_GPOScore
import PyXABProofs.Lemmas.MT_Argmax
import PyXABProofs.Lemmas.MT_Grid
import PyXABProofs.Lemmas.MT_Example

namespace PyXAB
open GPO MT MT.GPO

variable {L α R S Pt ρ : Type}

/-- every prefix of a successful run is a successful run, with the corresponding prefix of the log -/
theorem GPO_run_prefix [LT S] [DecidableLT S] (ops : LearnerOps L α R Pt ρ) (cfg : GPOCfg R S ρ)
    (s s' : GPO L S Pt) (xs ys : List (RoundIn α R)) (log : List (GPO.Entry R Pt))
    (h : GPO.run ops cfg s (xs ++ ys) = .ok (s', log)) :
    ∃ s1 log1 log2, GPO.run ops cfg s xs = .ok (s1, log1) ∧ GPO.run ops cfg s1 ys = .ok (s', log2) ∧
      log = log1 ++ log2 :=
  (MT.GPO.run_append_ok_iff ..).mp h

/-! ## 1. The schedule -/

/-- After `k ≤ N·2·half` complete rounds: phase, counter, the number of learners constructed
(= phases started), the number of validated points (= phases whose validation has started);
the learners were constructed with `rhoOf 1, rhoOf 2, …` in this order; and the `j`-th log
entry was played in phase `j / (2·half) + 1` with counter `j % (2·half)`, constructing a learner
(with `rhoOf phase`) exactly when the counter is `0`. -/
theorem GPO_schedule [LT S] [DecidableLT S] {ops : LearnerOps L α R Pt ρ} {cfg : GPOCfg R S ρ}
    (hN : 1 ≤ cfg.N) (hh : 1 ≤ cfg.half) {s' : GPO L S Pt} {xs : List (RoundIn α R)}
    {log : List (GPO.Entry R Pt)} (h : GPO.run ops cfg GPO.init xs = .ok (s', log))
    (hk : xs.length ≤ cfg.N * (2 * cfg.half)) :
    s'.phase = xs.length / (2 * cfg.half) + 1 ∧ s'.counter = xs.length % (2 * cfg.half) ∧
    s'.created = (xs.length + 2 * cfg.half - 1) / (2 * cfg.half) ∧
    s'.V.length = (xs.length + cfg.half - 1) / (2 * cfg.half) ∧ s'.Vx.length = s'.V.length ∧
    createdParams log = List.range' 1 s'.created ∧
    ∀ (j : Nat) e, log[j]? = some e →
      e.phase = j / (2 * cfg.half) + 1 ∧ e.counter = j % (2 * cfg.half) ∧ e.phase ≤ cfg.N ∧
      e.created = if j % (2 * cfg.half) = 0 then some (j / (2 * cfg.half) + 1) else none := by
  obtain ⟨hI, h1, h2, h3⟩ := run_schedule hN hh h
  have hlen := run_length h
  have hrn : roundNo cfg s' = xs.length := by
    by_cases hd : s'.phase ≤ cfg.N
    · rw [h1 hd, hlen]
    · have := h2 (by omega)
      have hp := hI.hph
      have hc0 := (hI.done (by omega)).1
      have : s'.phase - 1 = cfg.N := by omega
      unfold roundNo; rw [this, hc0]; omega
  obtain ⟨e1, e2, e3, e4⟩ := schedule_of_roundNo hh hI hrn
  refine ⟨e1, e2, e3, e4, hI.hlen, run_created hN hh h, fun j e hj => ?_⟩
  have hjl : j < log.length := (List.getElem?_eq_some_iff.mp hj).1
  obtain ⟨ha, hb⟩ := h3 j e hj
  have hd : e.phase ≤ cfg.N := by
    by_cases hd : e.phase ≤ cfg.N
    · exact hd
    · have := (hb (by omega)).2.2; omega
  obtain ⟨hjk, hc, hp1⟩ := ha hd
  obtain ⟨d1, d2⟩ := divmod_of hc hjk
  refine ⟨by omega, d2.symm, hd, ?_⟩
  rw [run_entry_created h e (List.mem_of_getElem? hj), d1, d2]
  have : e.phase - 1 + 1 = e.phase := by omega
  by_cases h0 : e.counter = 0
  · rw [if_pos ⟨hd, h0⟩, if_pos h0, this]
  · rw [if_neg (fun h' => h0 h'.2), if_neg h0]

/-! ## 2. Exploration / validation routing -/

/-- One round of a running phase (`phase ≤ N`), from ANY state.  Exploring (`counter < half`):
`pull` calls `ops.pull` on the current learner — constructed in this very `pull` with
`rhoOf phase` if `counter = 0` — and `receive` hands the reward to that same learner; scores and
validated points are untouched.  Validating (`counter ≥ half`): NO learner operation is
performed (the current learner and the draws are returned unchanged), `pull` returns the
remembered point `goodx`, and `receive` updates `V[phase-1]` (appended as `zero` by the `pull`
when `counter = half`) with `k = counter - half`.  Times and draws of `receive` are arbitrary. -/
theorem GPO_explore_routing [LT S] [DecidableLT S] {ops : LearnerOps L α R Pt ρ} {cfg : GPOCfg R S ρ}
    (hh : 1 ≤ cfg.half) {s s1 s2 : GPO L S Pt} {time time' : Nat} {ds ds1 ds' ds2 : List (Draw α)}
    {pt : Pt} {r : R} (hd : s.phase ≤ cfg.N)
    (hp : GPO.pull ops cfg s time ds = .ok (s1, ds1, pt))
    (hr : GPO.receive ops cfg s1 time' r ds' = .ok (s2, ds2)) :
    (s.counter < cfg.half → ∃ l l1 l2,
      (if s.counter = 0 then ops.create (cfg.rhoOf s.phase) ds = .ok (l, ds1)
        else s.curr = some l ∧ ds1 = ds) ∧
      ops.pull l time = .ok (l1, pt) ∧ s1.curr = some l1 ∧
      ops.receive l1 time' r ds' = .ok (l2, ds2) ∧ s2.curr = some l2 ∧
      s2.V = s.V ∧ s2.Vx = s.Vx) ∧
    (cfg.half ≤ s.counter →
      s1.curr = s.curr ∧ s2.curr = s.curr ∧ ds1 = ds ∧ ds2 = ds' ∧ s.goodx = some pt ∧
      ∃ V1 v, V1 = (if s.counter = cfg.half then s.V ++ [cfg.zero] else s.V) ∧
        V1[s.phase - 1]? = some v ∧
        s2.V = V1.set (s.phase - 1) (cfg.upd v (s.counter - cfg.half) r) ∧
        s2.Vx = (if s.counter = cfg.half then s.Vx ++ [pt] else s.Vx)) := by
  obtain ⟨hph, hcn, hpe⟩ := pull_effect hh hp
  have hre := receive_effect hr
  unfold GPO.RecvEffect at hre
  have hd' : ¬ cfg.N < s.phase := by omega
  rw [hph, hcn, if_neg hd'] at hre
  rw [if_neg hd'] at hpe
  obtain ⟨hVx2, -, -, hbr⟩ := hre
  constructor
  · intro hlt
    rw [if_pos hlt] at hpe hbr
    obtain ⟨l, l1, hif, hpl, hc1, -, hV1, hVx1⟩ := hpe
    obtain ⟨l1', l2, hc1', hrc, hc2, hV2⟩ := hbr
    rw [hc1] at hc1'
    cases hc1'
    refine ⟨l, l1, l2, ?_, hpl, hc1, hrc, hc2, by rw [hV2, hV1], by rw [hVx2, hVx1]⟩
    by_cases h0 : s.counter = 0
    · rw [if_pos h0] at hif ⊢; exact hif.1
    · rw [if_neg h0] at hif ⊢; exact ⟨hif.1, hif.2.1⟩
  · intro hge
    have hlt : ¬ s.counter < cfg.half := by omega
    rw [if_neg hlt] at hpe hbr
    obtain ⟨hc1, hds1, hg, -, -, hif⟩ := hpe
    obtain ⟨v, hv, hV2, hc2, hds2⟩ := hbr
    refine ⟨hc1, by rw [hc2, hc1], hds1, hds2, hg, ?_⟩
    by_cases hch : s.counter = cfg.half
    · rw [if_pos hch] at hif ⊢
      rw [if_pos hch]
      rw [hif.2] at hv hV2
      exact ⟨_, v, rfl, hv, hV2, by rw [hVx2, hif.1]⟩
    · rw [if_neg hch] at hif ⊢
      rw [if_neg hch]
      rw [hif.2] at hv hV2
      exact ⟨_, v, rfl, hv, hV2, by rw [hVx2, hif.1]⟩

/-- Along a run from the constructor, every validation round (log index `j`, phase `p ≤ N`,
counter `c ≥ half`) returns the point which the learner of phase `p` proposed in its last
exploration round — the log entry of index `(p-1)·2·half + half - 1`, whose counter is
`half - 1`; and every validated point `Vx[q]` is the last proposal of the learner of phase `q+1`. -/
theorem GPO_validation_point [LT S] [DecidableLT S] {ops : LearnerOps L α R Pt ρ} {cfg : GPOCfg R S ρ}
    (hN : 1 ≤ cfg.N) (hh : 1 ≤ cfg.half) {s' : GPO L S Pt} {xs : List (RoundIn α R)}
    {log : List (GPO.Entry R Pt)} (h : GPO.run ops cfg GPO.init xs = .ok (s', log)) :
    (∀ (j : Nat) e, log[j]? = some e → e.phase ≤ cfg.N → cfg.half ≤ e.counter →
      ∃ e0, log[(e.phase - 1) * (2 * cfg.half) + cfg.half - 1]? = some e0 ∧ e0.phase = e.phase ∧
        e0.counter = cfg.half - 1 ∧ e0.pt = e.pt) ∧
    (∀ (q : Nat) pt, s'.Vx[q]? = some pt →
      ∃ e0, log[q * (2 * cfg.half) + cfg.half - 1]? = some e0 ∧ e0.phase = q + 1 ∧
        e0.counter = cfg.half - 1 ∧ e0.pt = pt) := by
  obtain ⟨-, hb, hc⟩ := run_points hN hh h
  obtain ⟨-, -, -, h3⟩ := run_schedule hN hh h
  constructor
  · intro j e hj hd hge
    obtain ⟨e0, hle, he0, h1, h2, hpt⟩ := hb j e hj hd hge
    obtain ⟨hjk, -, -⟩ := (h3 j e hj).1 hd
    have : j - (e.counter - cfg.half + 1) = (e.phase - 1) * (2 * cfg.half) + cfg.half - 1 := by omega
    rw [this] at he0
    exact ⟨e0, he0, h1, by omega, hpt⟩
  · intro q pt hq
    obtain ⟨k, e0, hk, h1, h2, hpt⟩ := hc q pt hq
    have hI := (run_schedule hN hh h).1
    have hqlt : q < s'.Vx.length := (List.getElem?_eq_some_iff.mp hq).1
    have hd : e0.phase ≤ cfg.N := by
      have hp := hI.hph
      rw [hI.hlen] at hqlt
      by_cases hd : s'.phase ≤ cfg.N
      · have := (hI.run hd).2.2.1
        split at this <;> omega
      · have := (hI.done (by omega)).2.2.1; omega
    obtain ⟨hkk, -, -⟩ := (h3 k e0 hk).1 hd
    have : e0.phase - 1 = q := by omega
    rw [this] at hkk
    have : q * (2 * cfg.half) + cfg.half - 1 = k := by omega
    rw [this]
    exact ⟨e0, hk, h1, by omega, hpt⟩

/-! ## 3. Validation scores -/

/-- Over a field of characteristic zero with the running-mean update `(V·k + r)/(k+1)` (any
`zero`): once phase `p` is over, `V[p-1]` is the arithmetic mean of exactly the `half` rewards
of the validation rounds (`counter ≥ half`) of phase `p`. -/
theorem GPO_validation_mean [Field α] [CharZero α] [LT α] [DecidableLT α] {ops : LearnerOps L α α Pt ρ}
    {cfg : GPOCfg α α ρ} (hN : 1 ≤ cfg.N) (hh : 1 ≤ cfg.half)
    (hupd : ∀ v k r, cfg.upd v k r = (v * (k : α) + r) / ((k : α) + 1))
    {s' : GPO L α Pt} {xs : List (RoundIn α α)} {log : List (GPO.Entry α Pt)}
    (h : GPO.run ops cfg GPO.init xs = .ok (s', log)) {p : Nat} (hp1 : 1 ≤ p) (hp : p < s'.phase) :
    (valRewards cfg log p).length = cfg.half ∧
    ∃ v, s'.V[p - 1]? = some v ∧ v = (valRewards cfg log p).sum / (cfg.half : α) := by
  obtain ⟨hcnt, hsum⟩ := run_validation hN hh hupd h
  have hI := run_inv hh (inv_init cfg hN hh) h
  have hl := hcnt p
  rw [if_pos hp, if_pos hp1] at hl
  refine ⟨hl, ?_⟩
  have hlt : p - 1 < s'.V.length := by
    have hph := hI.hph
    by_cases hd : s'.phase ≤ cfg.N
    · have := (hI.run hd).2.2.1; omega
    · have := (hI.done (by omega)).2.2.1; omega
  refine ⟨s'.V[p - 1], List.getElem?_eq_getElem hlt, ?_⟩
  have := hsum (p - 1) _ (List.getElem?_eq_getElem hlt)
  rw [show p - 1 + 1 = p by omega, hl] at this
  have hne : (cfg.half : α) ≠ 0 := Nat.cast_ne_zero.mpr (by omega)
  rw [← this, mul_div_assoc, div_self hne, mul_one]

/-- the same over a linearly ordered field (whose order is the one used by `np.argmax`) -/
theorem GPO_validation_mean_ordered [Field α] [LinearOrder α] [IsStrictOrderedRing α]
    {ops : LearnerOps L α α Pt ρ} {cfg : GPOCfg α α ρ} (hN : 1 ≤ cfg.N) (hh : 1 ≤ cfg.half)
    (hupd : ∀ v k r, cfg.upd v k r = (v * (k : α) + r) / ((k : α) + 1))
    {s' : GPO L α Pt} {xs : List (RoundIn α α)} {log : List (GPO.Entry α Pt)}
    (h : GPO.run ops cfg GPO.init xs = .ok (s', log)) {p : Nat} (hp1 : 1 ≤ p) (hp : p < s'.phase) :
    (valRewards cfg log p).length = cfg.half ∧
    ∃ v, s'.V[p - 1]? = some v ∧ v = (valRewards cfg log p).sum / (cfg.half : α) :=
  GPO_validation_mean hN hh hupd h hp1 hp

/-! ## 4. After the last phase -/

/-- After `N·2·half` rounds (or more) all phases are over: `phase = N + 1`, exactly `N` learners
were constructed and `N` points validated; `pull` returns the validated point `Vx[i]` with `i`
the FIRST index of a maximal score, without any learner operation (state and draws unchanged);
`receive` changes nothing; and `get_last_point` returns the same point. -/
theorem GPO_done [LinearOrder S] {ops : LearnerOps L α R Pt ρ} {cfg : GPOCfg R S ρ}
    (hN : 1 ≤ cfg.N) (hh : 1 ≤ cfg.half) {s' : GPO L S Pt} {xs : List (RoundIn α R)}
    {log : List (GPO.Entry R Pt)} (h : GPO.run ops cfg GPO.init xs = .ok (s', log))
    (hk : cfg.N * (2 * cfg.half) ≤ xs.length) :
    s'.phase = cfg.N + 1 ∧ s'.counter = 0 ∧ s'.created = cfg.N ∧ s'.V.length = cfg.N ∧
    s'.Vx.length = cfg.N ∧
    ∃ i p, argmaxFirst s'.V = some i ∧ IsFirstMax s'.V i ∧ s'.Vx[i]? = some p ∧
      (∀ time ds, GPO.pull ops cfg s' time ds = .ok (s', ds, p)) ∧
      (∀ time r ds, GPO.receive ops cfg s' time r ds = .ok (s', ds)) ∧
      GPO.lastPoint s' = .ok p := by
  obtain ⟨hI, h1, -, -⟩ := run_schedule hN hh h
  have hlen := run_length h
  have hph := hI.hph
  have hd : cfg.N < s'.phase := by
    by_cases hd : s'.phase ≤ cfg.N
    · have := roundNo_lt hph.1 (hI.run hd).1 hd
      rw [h1 hd, hlen] at this
      omega
    · omega
  obtain ⟨hc0, hcr, hvl, i, p, hi, hx, hg⟩ := hI.done hd
  refine ⟨by omega, hc0, hcr, hvl, by rw [hI.hlen, hvl], i, p, hi, argmaxFirst_spec hi, hx, ?_, ?_, ?_⟩
  · intro time ds
    exact (MT.GPO.pull_ok_iff ops cfg hh ..).mpr (Or.inl ⟨hd, hg, rfl, rfl⟩)
  · intro time r ds
    exact (MT.GPO.receive_ok_iff ..).mpr (Or.inl ⟨hd, rfl, rfl⟩)
  · simp only [GPO.lastPoint, hi, hx]

/-! ## 5. Totality -/

/-- If the base learner never raises, no round ever raises; `get_last_point` raises `ValueError`
(`np.argmax` of an empty list) as long as no validation has started, in particular during the
first `half` rounds. -/
theorem GPO_total [LT S] [DecidableLT S] {ops : LearnerOps L α R Pt ρ} {cfg : GPOCfg R S ρ}
    (hN : 1 ≤ cfg.N) (hh : 1 ≤ cfg.half) (hops : OpsTotal ops) (xs : List (RoundIn α R)) :
    ∃ s' log, GPO.run ops cfg (GPO.init : GPO L S Pt) xs = .ok (s', log) ∧
      (s'.V = [] → GPO.lastPoint s' = .error .valueError) ∧
      (xs.length ≤ cfg.half → s'.V = []) := by
  obtain ⟨s', log, h⟩ := run_total hh hops xs (inv_init cfg hN hh)
  refine ⟨s', log, h, fun hV => by simp [GPO.lastPoint, hV, argmaxFirst_nil], fun hk => ?_⟩
  have hle : xs.length ≤ cfg.N * (2 * cfg.half) := by
    have : 1 * (2 * cfg.half) ≤ cfg.N * (2 * cfg.half) := Nat.mul_le_mul_right _ hN
    omega
  obtain ⟨-, -, -, hvl, -⟩ := GPO_schedule hN hh h hle
  rw [Nat.div_eq_of_lt (by omega)] at hvl
  exact List.eq_nil_of_length_eq_zero hvl

/-- The hypotheses `1 ≤ N` and `1 ≤ half` are necessary: otherwise the first `pull` falls off the
end of the function (returns `None`) even for a total base learner. -/
theorem GPO_degenerate [LT S] [DecidableLT S] {ops : LearnerOps L α R Pt ρ} {cfg : GPOCfg R S ρ}
    (hops : OpsTotal ops) (h0 : cfg.N = 0 ∨ cfg.half = 0) (time : Nat) (ds : List (Draw α)) :
    GPO.pull ops cfg (GPO.init : GPO L S Pt) time ds = .error .returnedNone := by
  by_cases hN : cfg.N = 0
  · simp [GPO.pull, GPO.init, hN]
  · have hh : cfg.half = 0 := by rcases h0 with h | h; exact absurd h hN; exact h
    obtain ⟨⟨l, ds'⟩, hc⟩ := hops.1 (cfg.rhoOf 1) ds
    have : ¬ 1 > cfg.N := by omega
    simp [GPO.pull, GPO.init, hh, hc, this, bind, Except.bind, pure, Except.pure]

/-! ## 6. The parameter grid -/

/-- Over ℝ, for a fixed `N ≥ 1` and `0 < rhomax < 1`: the exponents `2N/(2i+1)` and the grid
values `rhomax^(2N/(2i+1))`, `i = 1..N` (in fact for all `i`), are pairwise distinct, and every
grid value lies in `(0, 1)`.  It is below `rhomax` iff `i < N` (iff `2i+1 < 2N`, exponent `> 1`)
— so this FAILS for the last learner `i = N`, whose exponent `2N/(2N+1)` is `< 1`: its `rho`
EXCEEDS `rhomax`. -/
theorem GPO_grid {rhomax : ℝ} (h0 : 0 < rhomax) (h1 : rhomax < 1) {N : ℕ} (hN : 1 ≤ N) :
    (∀ i j, gridExp N i = gridExp N j → i = j) ∧
    (∀ i j, gridRho rhomax N i = gridRho rhomax N j → i = j) ∧
    (∀ i, 0 < gridRho rhomax N i ∧ gridRho rhomax N i < 1) ∧
    (∀ i, gridRho rhomax N i < rhomax ↔ i < N) ∧
    (∀ i, rhomax < gridRho rhomax N i ↔ N ≤ i) ∧
    gridExp N N < 1 ∧ rhomax < gridRho rhomax N N :=
  ⟨fun _ _ h => gridExp_inj_fixed hN h,
   fun _ _ h => gridExp_inj_fixed hN ((gridRho_eq_iff h0 h1 ..).mp h),
   fun i => ⟨gridRho_pos h0 N i, gridRho_lt_one h0 h1 hN i⟩,
   fun i => gridRho_lt_rhomax_iff h0 h1 N i,
   fun i => rhomax_lt_gridRho_iff h0 h1 N i,
   gridExp_lt_one_iff.mpr (Nat.le_refl N),
   (rhomax_lt_gridRho_iff h0 h1 N N).mpr (Nat.le_refl N)⟩

/-- The grid values of the learners actually constructed by a complete run (`rhoOf 1 … rhoOf N`,
`GPO_schedule`) are pairwise distinct. -/
theorem GPO_grid_run [LT S] [DecidableLT S] {ops : LearnerOps L α R Pt ρ} {cfg : GPOCfg R S ρ}
    (hN : 1 ≤ cfg.N) (hh : 1 ≤ cfg.half) {s' : GPO L S Pt} {xs : List (RoundIn α R)}
    {log : List (GPO.Entry R Pt)} (h : GPO.run ops cfg GPO.init xs = .ok (s', log))
    (hk : xs.length = cfg.N * (2 * cfg.half)) {rhomax : ℝ} (h0 : 0 < rhomax) (h1 : rhomax < 1) :
    createdParams log = List.range' 1 cfg.N ∧
    ((createdParams log).map (gridRho rhomax cfg.N)).Nodup := by
  obtain ⟨-, -, hcr, -, -, hcp, -⟩ := GPO_schedule hN hh h (by omega)
  have hd : 0 < 2 * cfg.half := by omega
  have : (xs.length + 2 * cfg.half - 1) / (2 * cfg.half) = cfg.N := by
    rw [hk]
    have : cfg.N * (2 * cfg.half) + 2 * cfg.half - 1 = cfg.N * (2 * cfg.half) + (2 * cfg.half - 1) := by
      omega
    rw [this]
    exact (divmod_of (by omega) rfl).1
  rw [hcr, this] at hcp
  refine ⟨hcp, ?_⟩
  rw [hcp]
  refine (List.nodup_map_iff_inj_on List.nodup_range').mpr ?_
  intro i _ j _ hij
  exact gridExp_inj_fixed hN ((gridRho_eq_iff h0 h1 ..).mp hij)

/-! ## 7. Non-vacuity (recording learner, `N = 2`, `half = 2`, rewards 1, 2, 3, …) -/

open MT.Ex in
/-- the hypotheses of the theorems are satisfiable -/
example : 1 ≤ gpoCfg.N ∧ 1 ≤ gpoCfg.half ∧ OpsTotal (recOps Unit Nat Nat) :=
  ⟨by decide, by decide, recOps_total ..⟩

open MT.Ex in
/-- a complete run: two learners (parameters 1, 2); each explores for two rounds (it receives
exactly the two rewards of its own proposals: `[1,2]`, `[5,6]`), then its last proposal (`[1]`,
resp. `[5]`: the state of the learner when it proposed) is evaluated twice; with
`upd = sum` the scores are `3+4` and `7+8`; the best validated point is `[5]`. -/
example : gpoState 8 = some (3, 0, 2) ∧
    gpoLists 8 = some (some [5, 6], some [5], [[1], [5]], [7, 15]) ∧
    gpoLog 8 = some [(1, 0, [], 1), (1, 1, [1], 2), (1, 2, [1], 3), (1, 3, [1], 4),
                     (2, 0, [], 5), (2, 1, [5], 6), (2, 2, [5], 7), (2, 3, [5], 8)] ∧
    gpoParams 8 = some [1, 2] := by decide

open MT.Ex in
/-- in the middle of phase 1 (validation started): one learner, which received `[1, 2]` -/
example : gpoState 3 = some (1, 3, 1) ∧ gpoLists 3 = some (some [1, 2], some [1], [[1]], [3]) := by
  decide

open MT.Ex in
/-- after the last phase nothing changes any more and `pull` returns the best point -/
example : gpoState 10 = some (3, 0, 2) ∧ gpoLists 10 = gpoLists 8 ∧
    (gpoLog 10).map (fun l => l.drop 8) = some [(3, 0, [5], 9), (3, 0, [5], 10)] := by decide

open MT.Ex in
/-- `get_last_point`: `ValueError` before the first validation, then the best validated point -/
example : gpoLast 2 = some (.inl .valueError) ∧ gpoLast 3 = some (.inr [1]) ∧
    gpoLast 8 = some (.inr [5]) := by decide

end PyXAB
