/-
  The budget of SequOOL (Bartlett, Gabillon, Valko 2019).

  "Given a budget `n`, SequOOL sets `h_max = floor(n / H_n)`, `H_n = 1 + 1/2 + … + 1/n`, and opens
  at most `floor(h_max / h)` cells at each depth `h = 1 … h_max` (plus the root).  The total
  number of openings stays within the budget: `sum_{h=1}^{h_max} floor(h_max / h) ≤ n`."

  Setting: `Props/C12.lean` (the schedule per depth: `C12.schedule`, `C12.depth_bounds`,
  `C12.run_schedule`) and `Spec/SeqSpec.lean`.  `harmonic : ℕ → ℚ` is Mathlib's harmonic number;
  the model takes `hmax` as a parameter, the theorems below instantiate it with
  `⌊n / harmonic n⌋₊` (what the code computes).
  Vocabulary (`Lemmas/SQB_Count.lean`): `Budget.openedCount P` is the number of cells of depth
  `≥ 1` of the tree which have a child list (their opening has at least started; this is the
  count of `C12.schedule`, summed over the depths — `openedCount_spec`, `opened_by_depth`);
  `s.chosen` is the list of the handed-out (= evaluated) search cells (`C12.chosen_nodup`,
  `C12.rewards_once`, `C12.history`).

  1. Arithmetic: `schedule_sum_le_harmonic`, `hmax_le_budget`, `harmonic_hmax_le`,
     `schedule_sum_le_budget_rat`, `schedule_sum_le_budget`.
  2. Model: `openedCount_spec`, `opened_by_depth`, `opened_le_schedule`, `opened_le_budget`,
     `run_opened_le_schedule`, `run_opened_le_budget`.
  3. Evaluations: `evaluated_eq_chosen`, `evaluated_le`, `run_evaluated_le`,
     `run_evaluated_le_budget`.
  4. Sanity: `n = 10` (`h_max = 3`), `n = 100` (`h_max = 19`), and the concrete run of C12.
-/
import PyXABProofs.Props.C12
import PyXABProofs.Lemmas.SQB_Arith
import PyXABProofs.Lemmas.SQB_Count

set_option linter.unusedSectionVars false
set_option linter.unusedVariables false

namespace PyXAB
namespace SQ
namespace Budget
open _root_.PyXAB.Tree Finset

variable {α S : Type} [Add α] [Sub α] [Mul α] [Div α] [OfNat α 2] [NatCast α]
variable [LinearOrder S] [Inhabited S] {negInf : S}

/-! ## 1. Arithmetic of the schedule -/

/-- **The schedule against the harmonic number**: for every `hmax`, the scheduled numbers of
openings `⌊hmax / h⌋` (natural-number division), summed over the depths `h = 1 … hmax`, are at
most `hmax · H_hmax`, where `H` is the harmonic number. -/
theorem schedule_sum_le_harmonic (hmax : ℕ) :
    ((∑ h ∈ Icc 1 hmax, hmax / h : ℕ) : ℚ) ≤ hmax * harmonic hmax :=
  sum_div_le_mul_harmonic hmax

/-- With a budget `n ≥ 1`, the depth bound `hmax = ⌊n / H_n⌋` is at most `n`. -/
theorem hmax_le_budget {n hmax : ℕ} (hn : 1 ≤ n) (hh : hmax = ⌊(n : ℚ) / harmonic n⌋₊) :
    hmax ≤ n :=
  floor_le_self hn hh

/-- The harmonic numbers are monotone; in particular `H_hmax ≤ H_n` for `hmax = ⌊n / H_n⌋`. -/
theorem harmonic_hmax_le {n hmax : ℕ} (hn : 1 ≤ n) (hh : hmax = ⌊(n : ℚ) / harmonic n⌋₊) :
    harmonic hmax ≤ harmonic n :=
  harmonic_mono (floor_le_self hn hh)

/-- The schedule stays within the budget, in `ℚ`: `∑ ⌊hmax / h⌋ ≤ hmax · H_hmax ≤
(n / H_n) · H_n = n`. -/
theorem schedule_sum_le_budget_rat {n hmax : ℕ} (hn : 1 ≤ n)
    (hh : hmax = ⌊(n : ℚ) / harmonic n⌋₊) :
    ((∑ h ∈ Icc 1 hmax, hmax / h : ℕ) : ℚ) ≤ hmax * harmonic hmax ∧
      (hmax : ℚ) * harmonic hmax ≤ n :=
  ⟨sum_div_le_mul_harmonic hmax, mul_harmonic_le hn hh⟩

/-- **The schedule stays within the budget**: if `n ≥ 1` and `hmax = ⌊n / H_n⌋` (floor in `ℚ`),
then the scheduled numbers of openings `⌊hmax / h⌋`, summed over the depths `h = 1 … hmax`, are
at most `n`. -/
theorem schedule_sum_le_budget {n hmax : ℕ} (hn : 1 ≤ n)
    (hh : hmax = ⌊(n : ℚ) / harmonic n⌋₊) :
    ∑ h ∈ Icc 1 hmax, hmax / h ≤ n :=
  sum_div_le_budget hn hh

/-! ## 2. The opened cells of a run -/

/-- `openedCount P` is the number of cells of the tree which have depth `≥ 1` and a child
list. -/
theorem openedCount_spec {σ : Type} (P : Part α σ) :
    openedCount P = ((List.range P.nodes.length).filter (fun i =>
      match P.nodes[i]? with
      | some nd => decide (1 ≤ nd.depth) && nd.children.isSome
      | none => false)).length := by
  unfold openedCount
  rw [List.countP_eq_length_filter]
  congr 1
  apply List.filter_congr
  intro i _
  unfold isDeep isExp
  cases P.nodes[i]? <;> rfl

/-- In every reachable state the opened cells of depth `≥ 1` are exactly those counted by the
schedule at the depths `1 … hmax` (nothing deeper is opened). -/
theorem opened_by_depth {s : SequOOL α S} (I : Inv negInf s) :
    openedCount s.P = ∑ h ∈ Icc 1 s.hmax, expCount s.P h :=
  openedCount_eq_sum I.wf s.hmax (fun i nd hi hc => (I.depth_bounds hi).2 hc)

/-- **Total number of openings**: in every reachable state, the number of opened cells of depth
`≥ 1` (even partially opened), over the whole tree, is at most the sum of the schedule
`⌊hmax / h⌋` over `h = 1 … hmax`. -/
theorem opened_le_schedule {s : SequOOL α S} (I : Inv negInf s) :
    openedCount s.P ≤ ∑ h ∈ Icc 1 s.hmax, s.hmax / h := by
  rw [opened_by_depth I]
  apply Finset.sum_le_sum
  intro h hh
  exact C12.schedule I (Finset.mem_Icc.1 hh).1

/-- **Within the budget**: in every reachable state of SequOOL run with
`hmax = ⌊n / H_n⌋`, `n ≥ 1`, at most `n` cells of depth `≥ 1` have been opened. -/
theorem opened_le_budget {s : SequOOL α S} (I : Inv negInf s) {n : ℕ} (hn : 1 ≤ n)
    (hh : s.hmax = ⌊(n : ℚ) / harmonic n⌋₊) :
    openedCount s.P ≤ n :=
  (opened_le_schedule I).trans (schedule_sum_le_budget hn hh)

/-- **Total number of openings over any run of the documented loop** (any number of rounds, any
partition class of arity `≥ 1`, any rewards, any well-formed draws): the opened cells of depth
`≥ 1` are those of the depths `1 … hmax`, and there are at most `∑_{h=1}^{hmax} ⌊hmax / h⌋` of
them. -/
theorem run_opened_le_schedule (hbot : ∀ x : S, negInf ≤ x) (k : Kind) (domain : Box α)
    (hmax : Nat) (hK : 1 ≤ k.arity domain.length) (inputs : List (S × List (Draw α)))
    (hin : InputsOK k domain.length inputs) {s' : SequOOL α S} {H : List (Nat × S)}
    (hrun : run negInf k domain hmax inputs = .ok (s', H)) :
    openedCount s'.P = ∑ h ∈ Icc 1 hmax, expCount s'.P h ∧
    openedCount s'.P ≤ ∑ h ∈ Icc 1 hmax, hmax / h := by
  obtain ⟨s'', H'', h1, I, _, _, h5⟩ := C12.run_inv hbot k domain hmax hK inputs hin
  rw [hrun] at h1
  simp only [Except.ok.injEq, Prod.mk.injEq] at h1
  obtain ⟨rfl, rfl⟩ := h1
  rw [← h5]
  exact ⟨opened_by_depth I, opened_le_schedule I⟩

/-- **SequOOL stays within its budget**: over any run of the documented loop with
`hmax = ⌊n / H_n⌋` for a budget `n ≥ 1` (this is the `h_max` the code computes), at most `n`
cells of depth `≥ 1` are opened — however long the loop is run. -/
theorem run_opened_le_budget (hbot : ∀ x : S, negInf ≤ x) (k : Kind) (domain : Box α)
    (n : Nat) (hn : 1 ≤ n) (hK : 1 ≤ k.arity domain.length)
    (inputs : List (S × List (Draw α))) (hin : InputsOK k domain.length inputs)
    {s' : SequOOL α S} {H : List (Nat × S)}
    (hrun : run negInf k domain ⌊(n : ℚ) / harmonic n⌋₊ inputs = .ok (s', H)) :
    openedCount s'.P ≤ n :=
  (run_opened_le_schedule hbot k domain _ hK inputs hin hrun).2.trans
    (schedule_sum_le_budget hn rfl)

/-! ## 3. Evaluations -/

/-- The evaluated search cells are the handed-out ones: the number of non-root cells of the
tree with a non-empty reward list is the length of `chosen`. -/
theorem evaluated_eq_chosen {s : SequOOL α S} (I : Inv negInf s) :
    ((List.range s.P.nodes.length).filter (fun i => i != 0 &&
      match s.P.nodes[i]? with
      | some nd => !nd.st.rewards.isEmpty
      | none => false)).length = s.chosen.length := by
  rw [← List.toFinset_card_of_nodup (List.nodup_range.filter _)]
  have : ((List.range s.P.nodes.length).filter (fun i => i != 0 &&
      match s.P.nodes[i]? with
      | some nd => !nd.st.rewards.isEmpty
      | none => false)).toFinset = Finset.Icc 1 s.chosen.length := by
    ext i
    rw [List.mem_toFinset, List.mem_filter, List.mem_range, Finset.mem_Icc]
    have hlen := I.len
    constructor
    · rintro ⟨hlt, hp⟩
      rw [List.getElem?_eq_getElem hlt] at hp
      simp only [Bool.and_eq_true, bne_iff_ne, ne_eq, Bool.not_eq_true',
        List.isEmpty_eq_false_iff] at hp
      refine ⟨by omega, ?_⟩
      by_contra hgt
      exact hp.2 ((I.rew i _ (List.getElem?_eq_getElem hlt)).2 (by omega))
    · rintro ⟨h1, h2⟩
      have hlt : i < s.P.nodes.length := by omega
      refine ⟨hlt, ?_⟩
      rw [List.getElem?_eq_getElem hlt]
      have hr := (I.rew i _ (List.getElem?_eq_getElem hlt)).1 h1 h2
      have hne : (s.P.nodes[i]).st.rewards ≠ [] := by
        intro h; rw [h] at hr; simp at hr
      simp only [Bool.and_eq_true, bne_iff_ne, ne_eq, Bool.not_eq_true',
        List.isEmpty_eq_false_iff]
      exact ⟨by omega, hne⟩
  rw [this, Nat.card_Icc]
  omega

/-- **Evaluations against openings**: every evaluated cell is one of the `K` children of an
opened cell (the root or a cell of depth `≥ 1`), and no cell is evaluated twice; hence the
number of evaluated search cells is at most `K · (1 + number of opened cells of depth ≥ 1)`. -/
theorem evaluated_le {s : SequOOL α S} (I : Inv negInf s) :
    s.chosen.length ≤ K s.P * (1 + openedCount s.P) := by
  have h1 := nodes_le_expTotal I.wf
  have h2 := expTotal_le I.wf
  have h3 := I.len
  have h4 : K s.P * expTotal s.P ≤ K s.P * (1 + openedCount s.P) := Nat.mul_le_mul_left _ h2
  omega

/-- **Evaluations over any run of the documented loop**: the rounds of the history which hand
out a search cell (not the root) are as many as the evaluated search cells `chosen`, and there
are at most `K · (1 + number of opened cells of depth ≥ 1)`, hence at most
`K · (1 + ∑_{h=1}^{hmax} ⌊hmax / h⌋)` of them, where `K` is the arity of the partition. -/
theorem run_evaluated_le (hbot : ∀ x : S, negInf ≤ x) (k : Kind) (domain : Box α)
    (hmax : Nat) (hK : 1 ≤ k.arity domain.length) (inputs : List (S × List (Draw α)))
    (hin : InputsOK k domain.length inputs) {s' : SequOOL α S} {H : List (Nat × S)}
    (hrun : run negInf k domain hmax inputs = .ok (s', H)) :
    (H.filter (fun e => e.1 != 0)).length = s'.chosen.length ∧
    s'.chosen.length ≤ k.arity domain.length * (1 + openedCount s'.P) ∧
    s'.chosen.length ≤ k.arity domain.length * (1 + ∑ h ∈ Icc 1 hmax, hmax / h) := by
  have I0 : Inv negInf (SequOOL.init k domain hmax : SequOOL α S) :=
    C12.init_Inv k domain hmax hK
  obtain ⟨s'', H'', h1, I, h3, h4, h5, _, _, j, _, _, _, j4, j5⟩ :=
    runRounds_inv hbot inputs _ 1 I0 hin
  have hrun' : runRounds negInf (SequOOL.init k domain hmax) 1 inputs = .ok (s', H) := hrun
  rw [hrun'] at h1
  simp only [Except.ok.injEq, Prod.mk.injEq] at h1
  obtain ⟨rfl, rfl⟩ := h1
  have hKe : K s'.P = k.arity domain.length := by
    rw [K_eq_of h4 h5]; rfl
  have hch : s'.chosen.length = j := by
    rw [j4]; simp [SequOOL.init]
  have hop := opened_le_schedule I
  rw [h3] at hop
  have hev := evaluated_le I
  rw [hKe] at hev
  refine ⟨?_, hev, hev.trans (Nat.mul_le_mul_left _ (Nat.add_le_add_left hop 1))⟩
  have hf : (H.filter (fun e => e.1 != 0)).length =
      ((H.map (·.1)).filter (fun v => v != 0)).length := by
    rw [List.filter_map, List.length_map]; rfl
  rw [hf, j5, hch, List.filter_append]
  have e1 : (List.range' ((SequOOL.init k domain hmax : SequOOL α S).chosen.length + 1) j).filter
      (fun v => v != 0) =
      List.range' ((SequOOL.init k domain hmax : SequOOL α S).chosen.length + 1) j := by
    rw [List.filter_eq_self]
    intro v hv
    rw [List.mem_range'_1] at hv
    simp only [bne_iff_ne, ne_eq]
    omega
  have e2 : (List.replicate (inputs.length - j) 0).filter (fun v => v != 0) = [] := by
    rw [List.filter_eq_nil_iff]
    intro v hv
    rw [List.mem_replicate] at hv
    simp [hv.2]
  rw [e1, e2]
  simp

/-- **Evaluations within the budget**: over any run with `hmax = ⌊n / H_n⌋`, `n ≥ 1`, at most
`K · (1 + n)` search cells are evaluated, where `K` is the arity of the partition. -/
theorem run_evaluated_le_budget (hbot : ∀ x : S, negInf ≤ x) (k : Kind) (domain : Box α)
    (n : Nat) (hn : 1 ≤ n) (hK : 1 ≤ k.arity domain.length)
    (inputs : List (S × List (Draw α))) (hin : InputsOK k domain.length inputs)
    {s' : SequOOL α S} {H : List (Nat × S)}
    (hrun : run negInf k domain ⌊(n : ℚ) / harmonic n⌋₊ inputs = .ok (s', H)) :
    s'.chosen.length ≤ k.arity domain.length * (1 + n) :=
  (run_evaluated_le hbot k domain _ hK inputs hin hrun).2.2.trans
    (Nat.mul_le_mul_left _ (Nat.add_le_add_left (schedule_sum_le_budget hn rfl) 1))

/-! ## 4. Sanity -/

section examples

/-- `H_10 = 7381/2520`, `⌊10 / H_10⌋ = 3` -/
example : harmonic 10 = 7381 / 2520 := harmonic_10

example : ⌊(10 : ℚ) / harmonic 10⌋₊ = 3 := floor_10

/-- the schedule for `n = 10`: `3/1 + 3/2 + 3/3 = 5 ≤ 10` -/
example : ∑ h ∈ Icc 1 3, 3 / h = 5 := by decide

example : ∑ h ∈ Icc 1 3, 3 / h ≤ 10 :=
  schedule_sum_le_budget (n := 10) (by norm_num) (by exact_mod_cast floor_10.symm)

/-- `n = 100`: `5 < H_100 ≤ 100/19`, hence `⌊100 / H_100⌋ = 19` -/
theorem harmonic_100_bounds : (5 : ℚ) < harmonic 100 ∧ harmonic 100 ≤ 100 / 19 := by
  simp only [harmonic, Finset.sum_range_succ, Finset.sum_range_zero]
  norm_num

theorem floor_100 : ⌊(100 : ℚ) / harmonic 100⌋₊ = 19 := by
  obtain ⟨h1, h2⟩ := harmonic_100_bounds
  have hpos : (0 : ℚ) < harmonic 100 := by linarith
  rw [Nat.floor_eq_iff (by positivity)]
  constructor
  · rw [le_div_iff₀ hpos]; push_cast; linarith
  · rw [div_lt_iff₀ hpos]; push_cast; linarith

/-- the schedule for `n = 100` (`hmax = 19`): 60 openings, within the budget -/
example : ∑ h ∈ Icc 1 19, 19 / h = 60 := by decide

example : ∑ h ∈ Icc 1 19, 19 / h ≤ 100 :=
  schedule_sum_le_budget (n := 100) (by norm_num) (by exact_mod_cast floor_100.symm)

/-- the bound is not vacuous the other way either: a larger `hmax` would overspend (`hmax = 30`
schedules 111 openings for the budget 100) -/
example : ¬ ∑ h ∈ Icc 1 30, 30 / h ≤ 100 := by decide

/-- the concrete run of `C12` (binary partition, `hmax = 3 = ⌊10 / H_10⌋`, twelve rounds): the
cells 1, 2 (depth 1), 6 (depth 2) and 8 (depth 3) are opened: 4 cells `≤ 3/1 + 3/2 + 3/3 = 5 ≤
10`; ten cells are evaluated, `10 ≤ 2 · (1 + 4)` -/
example : C12.run12.map (fun p => (openedCount p.1.P, p.1.chosen.length)) = some (4, 10) := by
  decide +kernel

/-- the theorems apply to this run (rewards in `Nat`, `-inf := 0`) -/
example : ∃ s' H, run (0 : Nat) .binary C12.dom2 ⌊(10 : ℚ) / harmonic 10⌋₊ C12.inputsN =
    .ok (s', H) ∧ openedCount s'.P ≤ 10 ∧ s'.chosen.length ≤ 2 * (1 + 10) := by
  obtain ⟨s', H, h1, _⟩ := C12.run_inv (negInf := (0 : Nat)) Nat.zero_le .binary C12.dom2
    ⌊(10 : ℚ) / harmonic 10⌋₊ (by decide) C12.inputsN (by decide)
  exact ⟨s', H, h1,
    run_opened_le_budget (negInf := (0 : Nat)) Nat.zero_le .binary C12.dom2 10 (by norm_num)
      (by decide) C12.inputsN (by decide) h1,
    run_evaluated_le_budget (negInf := (0 : Nat)) Nat.zero_le .binary C12.dom2 10 (by norm_num)
      (by decide) C12.inputsN (by decide) h1⟩

end examples

end Budget
end SQ
end PyXAB
