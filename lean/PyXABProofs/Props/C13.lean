/-
  Property C13 — the ranking, sampling and credit assignment of VROOM.

  "At every pull the ranks VROOM assigns within each depth 1..floor(log2 n) form a permutation of
  1..2^h that is non-increasing in the cells' lower confidence value, and a cell of depth h and
  rank r is drawn with probability 1/(h*r*C) where C normalises these weights to sum to one.  The
  returned point is drawn from a descendant (down to the depth cap) of the drawn cell and
  therefore lies in that cell, and the reward is credited to the drawn cell and the descendants
  on that path."

  Quantifier: binary-child partitions (`Tree.K P = 2`, see `arity_two`), every reward history,
  every outcome of the internal sampling (`PullDrawsOK` / `InitDrawsOK` state what NumPy
  guarantees about the random choices; `pullDrawsOK_of_simple` / `initDrawsOK_of_simple` are
  simple sufficient conditions).  Theorems which do not need arity 2 are stated for every arity.

  Definitions: `Spec/VroomSpec.lean`; proofs of the lemmas: `Lemmas/VR_*.lean`.
  `sd` = `search_depth` = floor(log2 n), `hmax` = the depth cap.
-/
import PyXABProofs.Lemmas.VR_Example

namespace PyXAB
namespace C13
open VR VROOM _root_.PyXAB.Tree

/-! ## 1. Sorting and ranks -/
section sorting
variable {S : Type} [LinearOrder S]

/-- `sorted(nodes, key, reverse=True)` permutes its input. -/
theorem sortDesc_perm (key : Nat → S) (l : List Nat) : (sortDesc key l).Perm l :=
  VR.sortDesc_perm key l

/-- … sorts by non-increasing key. -/
theorem sortDesc_sorted (key : Nat → S) (l : List Nat) :
    (sortDesc key l).Pairwise (fun a b => key b ≤ key a) :=
  VR.sortDesc_sorted key l

/-- … and is stable: the elements of any given key keep their order. -/
theorem sortDesc_stable_filter (key : Nat → S) (l : List Nat) (k : S) :
    (sortDesc key l).filter (fun a => decide (key a = k)) =
      l.filter (fun a => decide (key a = k)) :=
  VR.sortDesc_stable_filter key l k

/-- Stability, "occurs before" form (no `Nodup` needed): if `a` occurs before `b` in `l` and
they have equal keys then `a` occurs before `b` in the sorted list. -/
theorem sortDesc_stable (key : Nat → S) (l : List Nat) {a b : Nat}
    (hab : Before a b l) (hk : key a = key b) : Before a b (sortDesc key l) :=
  VR.sortDesc_stable key l hab hk

/-- "occurs before", by positions -/
theorem before_iff {a b : Nat} {l : List Nat} :
    Before a b l ↔ ∃ i j : Nat, i < j ∧ l[i]? = some a ∧ l[j]? = some b :=
  pair_sublist_iff

variable {α R : Type}

/-- **`rankLayer_spec`**: for a duplicate-free list of valid ids, `self.rank(layer)` appends
exactly one rank to every cell of the list; the new ranks are a permutation of
`1..layer.length`, non-increasing in the key `cfg.lcb rewards` with ties broken by list
position; nothing else changes (see `RankedLayer` for the clauses). -/
theorem rankLayer_spec (cfg : VrCfg R S) (P : Part α (VrSt R S)) (layer : List Nat)
    (hnd : layer.Nodup) (hvalid : ∀ id ∈ layer, id < P.nodes.length) :
    RankedLayer cfg P (rankLayer cfg P layer) layer :=
  VR.rankLayer_spec cfg P layer hnd hvalid

/-- ranking keeps the C03 tree invariant -/
theorem rankLayer_WF (cfg : VrCfg R S) (P : Part α (VrSt R S)) (layer : List Nat)
    (hnd : layer.Nodup) (hvalid : ∀ id ∈ layer, id < P.nodes.length) (W : WF P) :
    WF (rankLayer cfg P layer) :=
  (rankLayer_rel cfg P layer hnd hvalid).rel.wf W

/-- strict form of monotonicity: a strictly larger key gets a strictly smaller rank -/
theorem rankLayer_strict (cfg : VrCfg R S) (P : Part α (VrSt R S)) (layer : List Nat)
    (hnd : layer.Nodup) (hvalid : ∀ id ∈ layer, id < P.nodes.length) {a b : Nat}
    (ha : a ∈ layer) (hb : b ∈ layer) (hk : key cfg P b < key cfg P a) :
    lastRank (rankLayer cfg P layer) a < lastRank (rankLayer cfg P layer) b := by
  have h := VR.rankLayer_spec cfg P layer hnd hvalid
  rcases Nat.lt_trichotomy (lastRank (rankLayer cfg P layer) a)
    (lastRank (rankLayer cfg P layer) b) with h1 | h1 | h1
  · exact h1
  · -- equal ranks: same position of the sorted list, hence `a = b`
    exfalso
    obtain ⟨i, hi⟩ := List.mem_iff_getElem?.1 ((VR.sortDesc_perm (key cfg P) layer).mem_iff.2 ha)
    obtain ⟨j, hj⟩ := List.mem_iff_getElem?.1 ((VR.sortDesc_perm (key cfg P) layer).mem_iff.2 hb)
    rw [h.rank_eq i a hi, h.rank_eq j b hj] at h1
    obtain rfl : i = j := by omega
    obtain rfl : a = b := Option.some.inj (hi.symm.trans hj)
    exact lt_irrefl _ hk
  · exact absurd (h.mono b a hb ha h1) (not_le.2 hk)

/-- **The ranking stage of a `pull`** in a tree deepened to `sd` (any arity): it never raises,
realises `Ranked` for the depths `1..sd` (ranks of each depth are a permutation of
`1..(size of the layer)`, non-increasing in the lower confidence value, stable), and returns the
index list and the weights layer by layer. -/
theorem rankAll_spec (cfg : VrCfg R S) (P : Part α (VrSt R S)) (W : WF P)
    (hdeep : cfg.sd ≤ P.depth) :
    ∃ P', rankAll cfg P = .ok (P', idxList cfg.sd P, probList cfg P P') ∧
      Ranked cfg (List.range' 1 cfg.sd) P P' :=
  VR.rankAll_spec cfg P W hdeep

end sorting

/-! ## 2. Layer sizes and the tree invariant -/
section layers
variable {α σ : Type}

/-- documented arity 2: the kinds `.binary`, `.randBinary`, `.kary 2`, `.randKary 2`, and
`.dimBinary` in dimension 1 -/
theorem arity_two (P : Part α σ)
    (h : P.kind = .binary ∨ P.kind = .randBinary ∨ P.kind = .kary 2 ∨ P.kind = .randKary 2 ∨
      (P.kind = .dimBinary ∧ dimn P = 1)) : K P = 2 := by
  unfold K
  rcases h with h | h | h | h | ⟨h, h'⟩
  · rw [h]; rfl
  · rw [h]; rfl
  · rw [h]; rfl
  · rw [h]; rfl
  · rw [h, h']; rfl

/-- **`deepen` doubles** (static form, arity `K`): under the C03 invariant, if every cell of
layer `h` has been split then layer `h + 1` has `K` times as many cells. -/
theorem layer_succ_length {P : Part α σ} (W : WF P) {h : Nat} {l l' : List Nat}
    (hl : P.layers[h]? = some l) (hl' : P.layers[h + 1]? = some l')
    (hint : ∀ p pn, p ∈ l → P.nodes[p]? = some pn → pn.children ≠ none) :
    l'.length = K P * l.length :=
  VR.layer_succ_length W hl hl' hint

/-- layer `h + 1` is a permutation of the concatenated child lists of layer `h` -/
theorem layer_succ_perm {P : Part α σ} (W : WF P) {h : Nat} {l l' : List Nat}
    (hl : P.layers[h]? = some l) (hl' : P.layers[h + 1]? = some l') :
    l'.Perm (l.flatMap (kids P)) :=
  VR.layer_succ_perm W hl hl'

variable [LinearOrder α]

/-- **Layer sizes** from the invariant (any arity): layer `h ≤ sd` has `K^h` cells. -/
theorem layers_pow {sd : Nat} {P : Part α σ} (T : TInv sd P) : LayersPow sd P :=
  layersPow_of_internal T.wf T.deep T.internal

/-- **Layer sizes, arity 2**: layer `h ≤ sd` has exactly `2^h` cells. -/
theorem layers_two {sd : Nat} {P : Part α σ} (T : TInv sd P) (hK : K P = 2) :
    ∀ h, h ≤ sd → ∃ l, P.layers[h]? = some l ∧ l.length = 2 ^ h := by
  intro h hh
  obtain ⟨l, h1, h2⟩ := layers_pow T h hh
  exact ⟨l, h1, by rw [h2, hK]⟩

end layers

section inv
variable {α R S : Type} [Field α] [LinearOrder α] [IsStrictOrderedRing α]

/-- **`deepen` doubles** (dynamic form, arity `K`): one `deepen()` with draws satisfying the
NumPy guarantees succeeds, keeps the C03 invariant and the geometry, increases the depth by one,
makes every cell of the old deepest layer internal, and the new deepest layer has exactly `K`
times as many cells as the old one. -/
theorem deepen_doubles {σ : Type} {P : Part α σ} (W : WF P) (G : Geo P) (s0 : σ)
    (ds : List (Draw α)) (hds : DeepenDrawsOK P ds) :
    ∃ P', P.deepen s0 ds = .ok (P', ds.drop (lastLayer P).length) ∧ WF P' ∧ Geo P' ∧
      P'.depth = P.depth + 1 ∧ K P' = K P ∧
      (lastLayer P').length = K P * (lastLayer P).length ∧
      (∀ q, q ∈ lastLayer P → ∃ qn, P'.nodes[q]? = some qn ∧ qn.children ≠ none) := by
  obtain ⟨P', m, W', G', hdep, Gr, hlast⟩ := deepen_VR W G s0 ds hds
  exact ⟨P', m, W', G', hdep, Gr.K_eq, lastLayer_deepen W W' hdep Gr hlast, hlast⟩

/-- **`__init__`**: with a valid domain and draws satisfying the NumPy guarantees the
construction succeeds and establishes the tree invariant `TInv`: C03 invariant, depth exactly
`sd`, every cell of depth `< sd` internal, every box valid and contained in its parent's box;
all payloads are empty, the root box is the domain, the arity is the documented one. -/
theorem init_inv (cfg : VrCfg R S) (k : Kind) (domain : Box α) (ds : List (Draw α))
    (hv : Box.Valid domain)
    (hds : InitDrawsOK (VROOM.st0 (R := R) (S := S)) cfg.sd (cfg.sd + 1)
      (Part.init k domain VROOM.st0) ds) :
    ∃ s ds', VROOM.init cfg k domain ds = .ok (s, ds') ∧ TInv cfg.sd s.P ∧ AllSt0 s.P ∧
      s.P.depth = cfg.sd ∧ s.P.kind = k ∧ K s.P = k.arity domain.length ∧
      boxOf s.P 0 = domain ∧ s.prob = [] ∧ s.curr = none ∧ s.updateList = [] := by
  obtain ⟨s, ds', h1, h2, h3, h4, h5, h6, h7, h8⟩ := init_VR cfg k domain ds hv hds
  exact ⟨s, ds', h1, h2, h3, h4, h5, by simp only [K, h5, h6], h7, h8⟩

/-- simple sufficient condition for the draw hypothesis of `init_inv` (`.binary`, `.kary K`,
`.dimBinary`): `Σ_{i<sd} K^i` draws, each well-formed -/
theorem initDrawsOK_of_simple (sd : Nat) (k : Kind) (domain : Box α) (ds : List (Draw α))
    (hv : Box.Valid domain)
    (hs : ∀ d ∈ ds, SimpleDraw (Part.init k domain (VROOM.st0 (R := R) (S := S))) d)
    (hlen : geomSum (k.arity domain.length) sd ≤ ds.length) :
    InitDrawsOK (VROOM.st0 (R := R) (S := S)) sd (sd + 1) (Part.init k domain VROOM.st0) ds :=
  VR.initDrawsOK_of_simple sd (sd + 1) _ ds (init_WF' k domain _) (Geo.init k domain _ hv) hs
    (by simpa [lastLayer, Part.init, K, dimn] using hlen)

/-- after `__init__` with arity 2, layer `h ≤ sd` has exactly `2^h` cells -/
theorem init_layers (cfg : VrCfg R S) (k : Kind) (domain : Box α) (ds ds' : List (Draw α))
    (hv : Box.Valid domain)
    (hds : InitDrawsOK (VROOM.st0 (R := R) (S := S)) cfg.sd (cfg.sd + 1)
      (Part.init k domain VROOM.st0) ds)
    (hk : k.arity domain.length = 2) {s : VROOM α R S}
    (hm : VROOM.init cfg k domain ds = .ok (s, ds')) :
    ∀ h, h ≤ cfg.sd → ∃ l, s.P.layers[h]? = some l ∧ l.length = 2 ^ h := by
  obtain ⟨s0, ds0, h1, h2, _, _, _, h6, _⟩ := init_inv cfg k domain ds hv hds
  rw [hm] at h1
  injection h1 with h1
  injection h1 with e1 e2
  subst e1
  exact layers_two h2 (h6.trans hk)

variable [LinearOrder S]
variable {cfg : VrCfg R S} {s s' : VROOM α R S} {time : Nat} {dr : VDraw α} {last : Nat}
  {P1 : Part α (VrSt R S)} {h l node : Nat} {path : List Nat}

/-- **`pull` keeps the invariant and never changes the layers `≤ sd`** (the descent only
expands cells of depth `≥ sd`, because every shallower cell is internal): after a successful
`pull` the tree invariant holds again, the layers `0..sd` are the same lists, kind / dimension /
arity are unchanged; the cells that existed before keep position, box, rewards and `tilde` and
stay internal; the new cells lie strictly below depth `sd` and carry the empty payload. -/
theorem pull_inv (F : PullFacts cfg s time dr s' last P1 h l node path) :
    TInv cfg.sd s'.P ∧
    (∀ h', h' ≤ cfg.sd → s'.P.layers[h']? = s.P.layers[h']?) ∧
    s'.P.kind = s.P.kind ∧ dimn s'.P = dimn s.P ∧ K s'.P = K s.P ∧
    (∀ (i : Nat) (nd : Node α (VrSt R S)), s.P.nodes[i]? = some nd →
      ∃ nd', s'.P.nodes[i]? = some nd' ∧ nd'.depth = nd.depth ∧ nd'.index = nd.index ∧
        nd'.parent = nd.parent ∧ nd'.box = nd.box ∧ nd'.st.rewards = nd.st.rewards ∧
        nd'.st.tilde = nd.st.tilde ∧ (nd.children ≠ none → nd'.children = nd.children)) ∧
    (∀ (i : Nat) (nd' : Node α (VrSt R S)), s'.P.nodes[i]? = some nd' → s.P.nodes.length ≤ i →
      cfg.sd < nd'.depth ∧ nd'.st = st0) :=
  ⟨F.tinv, F.frame⟩

/-- `receive` keeps the invariant and the whole tree skeleton (`RecvFacts`). -/
theorem receive_inv (cfg : VrCfg R S) (s : VROOM α R S) (r : R) (hsd : 1 ≤ cfg.sd)
    (hp : PullPost cfg s) (T : TInv cfg.sd s.P) {s' : VROOM α R S}
    (hm : receive cfg s r = .ok s') :
    TInv cfg.sd s'.P ∧ s'.P.layers = s.P.layers ∧ K s'.P = K s.P := by
  obtain ⟨s'', m, F, hT⟩ := receive_facts cfg s r hsd hp
  rw [hm] at m
  injection m with m
  subst m
  refine ⟨hT T, F.layers, ?_⟩
  have hroot : dimn s'.P = dimn s.P := by
    obtain ⟨r0, h0, _⟩ := T.wf.root
    obtain ⟨r1, h1, _, _, _, _, hb, _⟩ := F.node 0 r0 h0
    simp [dimn, h0, h1, hb]
  simp only [K, hroot, F.kind]

/-- `get_last_point` keeps the invariant, only expands cells of depth `≥ sd` (`Grow`: in
particular the layers `≤ sd`, all payloads and all boxes are unchanged), recommends a listed
cell, and changes no other component of the state. -/
theorem lastPoint_inv (cfg : VrCfg R S) (s : VROOM α R S) (dr : VDraw α)
    (T : TInv cfg.sd s.P)
    (hdesc : ∀ h layer node, s.P.layers[h]? = some layer → node ∈ layer →
      DescOK cfg.hmax dr.steps h node s.P)
    {s' : VROOM α R S} {node last : Nat} {pt : List α}
    (hm : lastPoint cfg s dr = .ok (s', node, last, pt)) :
    pt = dr.pt ∧ s'.iteration = s.iteration ∧ s'.prob = s.prob ∧ s'.curr = s.curr ∧
    s'.updateList = s.updateList ∧ TInv cfg.sd s'.P ∧ Grow st0 cfg.sd s.P s'.P ∧
    K s'.P = K s.P ∧ (∀ h', h' ≤ cfg.sd → s'.P.layers[h']? = s.P.layers[h']?) ∧
    ∃ h path, (∃ layer, s.P.layers[h]? = some layer ∧ node ∈ layer) ∧
      IsPath s'.P node path last ∧ path.length = cfg.hmax - h := by
  obtain ⟨h1, h2, h3, h4, h5, h6, h7, h8⟩ := lastPoint_facts cfg s dr T hdesc hm
  exact ⟨h1, h2, h3, h4, h5, h6, h7, h7.K_eq, h7.layers, h8⟩

end inv

/-! ## 3. The weights -/
section weights
variable {S : Type} [Field S] [LinearOrder S] [IsStrictOrderedRing S]

/-- the normalising constant is positive -/
theorem normC_pos {sd : Nat} (hsd : 1 ≤ sd) : 0 < (normC sd : S) := VR.normC_pos hsd

/-- `Σ_{h=1..sd} Σ_{l=1..2^h} 1/(h·l·C) = 1` -/
theorem weights_sum_one {sd : Nat} (hsd : 1 ≤ sd) :
    ((List.range' 1 sd).map (fun (h : Nat) =>
      ((List.range' 1 ((2 : Nat) ^ h)).map
        (fun (l : Nat) => (1 / ((h : S) * (l : S) * normC sd)))).sum)).sum = 1 :=
  VR.weights_sum_one hsd

/-- number of weights: `Σ_{h=1..sd} 2^h = 2^(sd+1) - 2` -/
theorem cumIdx_eq (sd : Nat) :
    cumIdx sd = ((List.range' 1 sd).map (fun h => 2 ^ h)).sum ∧ cumIdx sd + 2 = 2 ^ (sd + 1) :=
  ⟨cumIdx_eq_sum sd, cumIdx_closed sd⟩

variable {α R : Type} [Field α] [LinearOrder α] [IsStrictOrderedRing α]
variable {cfg : VrCfg R S} {s s' : VROOM α R S} {time : Nat} {dr : VDraw α} {last : Nat}
  {P1 : Part α (VrSt R S)} {h l node : Nat} {path : List Nat}

omit [Field S] [IsStrictOrderedRing S] in
/-- **The ranks** assigned at a `pull` (arity 2): within each depth `h' = 1..sd` they are a
permutation of `1..2^h'`, non-increasing in the lower confidence value of the cells (computed
from the rewards before the pull), ties broken by the position in the layer. -/
theorem pull_ranks (F : PullFacts cfg s time dr s' last P1 h l node path)
    (T : TInv cfg.sd s.P) (hK : K s.P = 2) :
    ∀ h', 1 ≤ h' → h' ≤ cfg.sd →
      ((layerAt s.P h').map (lastRank P1)).Perm (List.range' 1 (2 ^ h')) ∧
      (∀ a b, a ∈ layerAt s.P h' → b ∈ layerAt s.P h' → lastRank P1 a < lastRank P1 b →
        key cfg s.P b ≤ key cfg s.P a) ∧
      (∀ a b, Before a b (layerAt s.P h') → key cfg s.P a = key cfg s.P b →
        lastRank P1 a < lastRank P1 b) := by
  intro h' h1 h2
  have hm : h' ∈ List.range' 1 cfg.sd := by rw [List.mem_range'_1]; omega
  have := F.ranked.perm h' hm
  rw [VR.layers_two T hK h' h2] at this
  exact ⟨this, F.ranked.mono h' hm, F.ranked.stable h' hm⟩

/-- **The weights** computed at a `pull` (arity 2, over a field): they sum to one; there are
`Σ_{h=1..sd} 2^h` of them; the index list is `[(h, l) | h = 1..sd, l < 2^h]` in lexicographic
order; and the drawn cell — the `l`-th cell of layer `h`, `(h, l)` the drawn entry of the index
list — was drawn with the weight `1/(h · rank · C)` where `rank` is its new rank and
`C = normC sd > 0`. -/
theorem pull_weights (F : PullFacts cfg s time dr s' last P1 h l node path)
    (FC : FieldCfg cfg) (hsd : 1 ≤ cfg.sd) (T : TInv cfg.sd s.P) (hK : K s.P = 2) :
    s'.prob.sum = 1 ∧ s'.prob.length = cumIdx cfg.sd ∧
    idxList cfg.sd s.P = indexList cfg.sd ∧
    (indexList cfg.sd)[dr.choice]? = some (h, l) ∧ (layerAt s.P h)[l]? = some node ∧
    s'.prob[dr.choice]? = some (1 / ((h : S) * (lastRank P1 node : S) * normC cfg.sd)) ∧
    (0 : S) < normC cfg.sd := by
  obtain ⟨h1, h2, h3⟩ := F.weights2 FC hsd T hK
  obtain ⟨i1, i2, _⟩ := F.index2 T hK
  exact ⟨h1, i2, i1, i1 ▸ F.drawn, F.cell, h2, h3⟩

omit [IsStrictOrderedRing S] in
/-- **`weight_formula`**, every entry (arity 2): if entry `c` of the index list is `(h', l')`,
the `c`-th weight is `1/(h' · rank · C)` with `rank` the new rank of the `l'`-th cell of layer
`h'`. -/
theorem weight_formula (F : PullFacts cfg s time dr s' last P1 h l node path)
    (FC : FieldCfg cfg) (T : TInv cfg.sd s.P) (hK : K s.P = 2) {c h' l' : Nat}
    (hc : (indexList cfg.sd)[c]? = some (h', l')) :
    1 ≤ h' ∧ h' ≤ cfg.sd ∧ l' < 2 ^ h' ∧ ∃ cell, (layerAt s.P h')[l']? = some cell ∧
      s'.prob[c]? = some (1 / ((h' : S) * (lastRank P1 cell : S) * normC cfg.sd)) := by
  rw [← (F.index2 T hK).1] at hc
  obtain ⟨h1, h2, cell, h3, h4⟩ := weight_at (P' := P1) hc
  refine ⟨h1, h2, ?_, cell, h3, ?_⟩
  · rw [← VR.layers_two T hK h' h2]; exact lt_length_of_getElem? h3
  · rw [F.prob_eq, h4, FC.probOf]; rfl

end weights

/-! ## 4. The returned point lies in the drawn cell -/
section point
variable {α R S : Type} [Field α] [LinearOrder α] [IsStrictOrderedRing α] [LinearOrder S]

omit [LinearOrder S] in
/-- **The descent** `while h < h_max` from a cell `node` of depth `h` (any arity): under `DescOK`
it never raises and returns `(P', last, ul ++ path)` where `path` follows child links of `P'`
from `node` to `last` and has `hmax - h` steps; the tree invariant is kept and only cells of
depth `≥ sd` are expanded. -/
theorem descentLoop_spec (hmax sd : Nat) (steps : List (Option (Draw α) × Nat))
    (h node : Nat) (ul : List Nat) (P : Part α (VrSt R S)) (nd : Node α (VrSt R S))
    (T : TInv sd P) (hnd : P.nodes[node]? = some nd) (hdep : nd.depth = h)
    (hok : DescOK hmax steps h node P) :
    ∃ P' last path, descentLoop hmax steps h node ul P = .ok (P', last, ul ++ path) ∧
      TInv sd P' ∧ Grow st0 sd P P' ∧ IsPath P' node path last ∧ path.length = hmax - h :=
  VR.descentLoop_spec hmax sd steps h node ul P nd T hnd hdep hok

omit [Field α] [IsStrictOrderedRing α] in
/-- Along a path of the tree: the end cell has depth `depth(start) + length`, its box is
contained in the box of the start cell, every cell on the path is strictly deeper than the
start and contained in it, and `start :: path` has no repetitions. -/
theorem path_facts {σ : Type} {P : Part α σ} (W : WF P) (G : Geo P) (path : List Nat)
    (node last : Nat) (nd : Node α σ) (hnd : P.nodes[node]? = some nd)
    (hp : IsPath P node path last) :
    (∃ ln, P.nodes[last]? = some ln ∧ ln.depth = nd.depth + path.length ∧
      Box.Subset ln.box nd.box) ∧
    (∀ c ∈ path, ∃ cn, P.nodes[c]? = some cn ∧ nd.depth < cn.depth ∧
      Box.Subset cn.box nd.box) ∧
    (node :: path).Nodup ∧ last = (node :: path).getLast (by simp) :=
  let ⟨a, b, c⟩ := IsPath.facts W G path node last nd hnd hp
  ⟨a, b, c, IsPath.getLast path node last hp⟩

variable {cfg : VrCfg R S} {s s' : VROOM α R S} {time : Nat} {dr : VDraw α} {last : Nat}
  {P1 : Part α (VrSt R S)} {h l node : Nat} {path : List Nat}

/-- **The returned cell**: it is the last element of the update list, has depth `max h hmax`,
and its box is contained in the box of the drawn cell (depth `h`). -/
theorem pull_last (F : PullFacts cfg s time dr s' last P1 h l node path) :
    last = s'.updateList.getLast (by rw [F.updateList]; simp) ∧
    ∃ nn ln, s'.P.nodes[node]? = some nn ∧ nn.depth = h ∧ s'.P.nodes[last]? = some ln ∧
      ln.depth = max h cfg.hmax ∧ Box.Subset ln.box nn.box := by
  obtain ⟨_, _, h3, nn, ln, h4, h5, h6, h7, h8, _⟩ := F.path_facts
  exact ⟨h3, nn, ln, h4, h5, h6, h7, h8⟩

/-- **`point_in_drawn_cell`**: if the sampled coordinates lie in the box of the returned cell
(what `np.random.uniform(lo, hi)` guarantees coordinatewise), then the point returned by `pull`
lies in the drawn cell `s'.curr` — whose box is the one it had before the pull — and in the root
cell (the domain). -/
theorem point_in_drawn_cell (F : PullFacts cfg s time dr s' last P1 h l node path)
    (hpt : Box.Mem (boxOf s'.P last) dr.pt) :
    s'.curr = some node ∧ Box.Mem (boxOf s'.P node) dr.pt ∧ Box.Mem (boxOf s.P node) dr.pt ∧
      Box.Mem (boxOf s.P 0) dr.pt := by
  obtain ⟨h1, h2, h3, h4⟩ := F.point hpt
  exact ⟨F.curr, h1, h3 ▸ h1, h4 ▸ h2⟩

end point

/-! ## 5. Credit -/
section credit
variable {α R S : Type} [Field α] [LinearOrder α] [IsStrictOrderedRing α] [LinearOrder S]
variable {cfg : VrCfg R S} {s s' : VROOM α R S} {time : Nat} {dr : VDraw α} {last : Nat}
  {P1 : Part α (VrSt R S)} {h l node : Nat} {path : List Nat}

/-- after `pull`: the drawn cell is recorded, the update list is the drawn cell followed by the
descent path, it has no repetitions and names valid cells of increasing depth -/
theorem pull_updateList (F : PullFacts cfg s time dr s' last P1 h l node path) :
    s'.curr = some node ∧ s'.updateList = node :: path ∧ IsPath s'.P node path last ∧
    s'.updateList.Nodup ∧ (∀ id ∈ s'.updateList, id < s'.P.nodes.length) ∧
    path.length = cfg.hmax - h := by
  obtain ⟨h1, h2, _⟩ := F.path_facts
  exact ⟨F.curr, F.updateList, F.isPath, h1, h2, F.steps⟩

/-- **`receive`** (any state satisfying `PullPost`): never raises; appends `r` to `rewards` and
one entry to `tilde` of exactly the cells of the update list (once each), changes no other
payload, no rank, no tree field, no other component of the state (`RecvFacts`). -/
theorem receive_credit (cfg : VrCfg R S) (s : VROOM α R S) (r : R) (hsd : 1 ≤ cfg.sd)
    (hp : PullPost cfg s) :
    ∃ s', receive cfg s r = .ok s' ∧ RecvFacts cfg s s' r :=
  let ⟨s', h1, h2, _⟩ := receive_facts cfg s r hsd hp
  ⟨s', h1, h2⟩

/-- **One round `pull; receive r`** (arity 2): the reward is credited to the drawn cell and to
the descendants on the descent path — each of them gets `r` appended to its rewards exactly
once — and to no other cell. -/
theorem round_credit (F : PullFacts cfg s time dr s' last P1 h l node path)
    (T : TInv cfg.sd s.P) (hK : K s.P = 2) (hsd : 1 ≤ cfg.sd) (r : R) :
    ∃ s'', receive cfg s' r = .ok s'' ∧ TInv cfg.sd s''.P ∧ K s''.P = 2 ∧
      s''.P.layers = s'.P.layers ∧
      ∀ (i : Nat) (nd : Node α (VrSt R S)), s'.P.nodes[i]? = some nd →
        ∃ nd'', s''.P.nodes[i]? = some nd'' ∧ nd''.st.ranks = nd.st.ranks ∧
          (i ∈ node :: path → nd''.st.rewards = nd.st.rewards ++ [r] ∧
            nd''.st.tilde.length = nd.st.tilde.length + 1) ∧
          (i ∉ node :: path → nd''.st = nd.st) := by
  have hp := F.post T hK
  obtain ⟨s'', m, RF, hT⟩ := receive_facts cfg s' r hsd hp
  obtain ⟨_, _, _, hK', _⟩ := F.frame
  have hK'' : K s''.P = 2 := by
    rw [(receive_inv cfg s' r hsd hp F.tinv m).2.2, hK', hK]
  refine ⟨s'', m, hT F.tinv, hK'', RF.layers, fun i nd hi => ?_⟩
  obtain ⟨nd'', h0, _, _, _, _, _, h6, h7, h8⟩ := RF.node i nd hi
  refine ⟨nd'', h0, h6, fun hmem => ?_, fun hmem => h8 (by rw [F.updateList]; exact hmem)⟩
  rw [← F.updateList] at hmem
  obtain ⟨j, hj⟩ := List.mem_iff_getElem?.1 hmem
  obtain ⟨e1, e2⟩ := h7 j hj
  exact ⟨e1, by rw [e2]; simp⟩

end credit

/-! ## 6. Totality -/
section totality
variable {α R S : Type} [Field α] [LinearOrder α] [IsStrictOrderedRing α]

/-- **`pull` never raises** (any arity), given that `np.random.choice` accepts the weights:
complete description of the result in `PullFacts`. -/
theorem pull_total' [LinearOrder S] (cfg : VrCfg R S) (s : VROOM α R S) (time : Nat)
    (dr : VDraw α) (T : TInv cfg.sd s.P) (hOK : ProbAccepted cfg s)
    (hdr : PullDrawsOK cfg s dr) :
    ∃ s' last P1 h l node path, pull cfg s time dr = .ok (s', last, dr.pt) ∧
      PullFacts cfg s time dr s' last P1 h l node path :=
  pull_facts cfg s time dr T hOK hdr

/-- simple sufficient condition for `PullDrawsOK` (`.binary`, `.kary K`, `.dimBinary`) -/
theorem pullDrawsOK_of_simple [LinearOrder S] (cfg : VrCfg R S) (s : VROOM α R S)
    (dr : VDraw α) (T : TInv cfg.sd s.P) (hch : dr.choice < (idxList cfg.sd s.P).length)
    (hlen : ∀ h l, (idxList cfg.sd s.P)[dr.choice]? = some (h, l) →
      cfg.hmax - h ≤ dr.steps.length)
    (hsteps : ∀ x ∈ dr.steps, x.2 < K s.P ∧ ∃ d, x.1 = some d ∧ SimpleDraw s.P d) :
    PullDrawsOK cfg s dr :=
  VR.pullDrawsOK_of_simple cfg s dr T hch hlen hsteps

variable [Field S] [LinearOrder S] [IsStrictOrderedRing S]

omit [Field S] [IsStrictOrderedRing S] in
/-- for arity 2 the drawn index ranges over `Σ_{h=1..sd} 2^h` positions -/
theorem length_idxList (cfg : VrCfg R S) (s : VROOM α R S) (T : TInv cfg.sd s.P)
    (hK : K s.P = 2) : (idxList cfg.sd s.P).length = cumIdx cfg.sd :=
  VR.length_idxList (fun h' _ hh' => VR.layers_two T hK h' hh')

/-- **Totality of `pull` for arity 2** over a field: the weights the code computes sum to one,
so a `probOK` that accepts every list summing to one accepts them, and `pull` returns. -/
theorem pull_total (cfg : VrCfg R S) (FC : FieldCfg cfg) (hsd : 1 ≤ cfg.sd)
    (hOK : ∀ ps : List S, ps.sum = 1 → cfg.probOK ps = true)
    (s : VROOM α R S) (time : Nat) (dr : VDraw α) (T : TInv cfg.sd s.P) (hK : K s.P = 2)
    (hdr : PullDrawsOK cfg s dr) :
    ∃ s' last P1 h l node path, pull cfg s time dr = .ok (s', last, dr.pt) ∧
      PullFacts cfg s time dr s' last P1 h l node path ∧ PullPost cfg s' ∧ K s'.P = 2 := by
  obtain ⟨s', last, P1, h, l, node, path, m, F⟩ :=
    pull_facts cfg s time dr T (probAccepted_of_field FC hsd hOK T hK) hdr
  exact ⟨s', last, P1, h, l, node, path, m, F, F.post T hK, by rw [F.frame.2.2.2.1, hK]⟩

omit [Field S] [IsStrictOrderedRing S] in
/-- **Totality of `receive`**: for a weight list of length `Σ_{h=1..sd} 2^h` (`sd ≥ 1`) the
indexing in `cumProb` never fails, and `receive` returns. -/
theorem receive_total (cfg : VrCfg R S) (s : VROOM α R S) (r : R) (hsd : 1 ≤ cfg.sd)
    (hp : PullPost cfg s) : ∃ s', receive cfg s r = .ok s' :=
  let ⟨s', h1, _⟩ := receive_facts cfg s r hsd hp
  ⟨s', h1⟩

/-- **Every reachable state** (`Reachable`: `__init__`, then any number of rounds
`pull; receive r` with arbitrary rewards `r`, and `get_last_point` calls, the random choices
being arbitrary among those NumPy can produce; arity 2, over a field): the tree invariant holds,
the arity is 2 and the root box is the domain.  Hence (`layers_two`) layer `h ≤ sd` has `2^h`
cells in every reachable state, and `pull_total` / `pull_weights` / `point_in_drawn_cell` /
`round_credit` apply at every round of every run. -/
theorem reachable_inv (cfg : VrCfg R S) (FC : FieldCfg cfg) (hsd : 1 ≤ cfg.sd)
    (hOK : ∀ ps : List S, ps.sum = 1 → cfg.probOK ps = true)
    (k : Kind) (domain : Box α) (hv : Box.Valid domain) (hk : k.arity domain.length = 2)
    {s : VROOM α R S} (hr : Reachable cfg k domain s) :
    TInv cfg.sd s.P ∧ K s.P = 2 ∧ boxOf s.P 0 = domain ∧
      ∀ h, h ≤ cfg.sd → ∃ l, s.P.layers[h]? = some l ∧ l.length = 2 ^ h := by
  obtain ⟨h1, h2, h3⟩ := VR.reachable_inv FC hsd hOK hv hk hr
  exact ⟨h1, h2, h3, layers_two h1 h2⟩

end totality

/-! ## 7. `cumProb` -/
section cum
variable {R S : Type}

/-- **`cumProb_spec`** (no field structure needed): for `sd ≥ 1` and a weight list of length
`Σ_{h=1..sd} 2^h`, for a cell of depth `d < sd` the loop accumulates exactly the first
`Σ_{h≤d} 2^h` weights, and for `d ≥ sd` it returns `pone`. -/
theorem cumProb_spec (cfg : VrCfg R S) (probs : List S) {sd : Nat} (hsd : 1 ≤ sd)
    (hlen : probs.length = cumIdx sd) (d : Nat) :
    cumProb cfg probs d =
      .ok (if d < sd then (probs.take (cumIdx d)).foldl cfg.padd cfg.pzero else cfg.pone) :=
  VR.cumProb_spec cfg probs hsd hlen d

variable {α : Type} [Field S]

/-- over a field, for the weights of a `pull` (layer `h` has `2^h` cells) and a cell of depth
`d < sd`: `cumProb` is the sum of the weights of the layers `1..d`. -/
theorem cumProb_field {cfg : VrCfg R S} (FC : FieldCfg cfg) (hsd : 1 ≤ cfg.sd)
    {P P' : Part α (VrSt R S)}
    (hL : ∀ h, 1 ≤ h → h ≤ cfg.sd → (layerAt P h).length = 2 ^ h) {d : Nat} (hd : d < cfg.sd) :
    cumProb cfg (probList cfg P P') d =
      .ok (((List.range' 1 d).flatMap (fun h => layerProbs cfg P' h (layerAt P h))).sum) := by
  rw [VR.cumProb_spec cfg _ hsd (length_probList hL) d]
  have := cumVal_field FC (probList cfg P P') cfg.sd d hd
  rw [cumVal] at this
  rw [this, probList_take hL (by omega)]

end cum

/-! ## 8. Arity ≠ 2: the recorded crash -/
section counterexample

/-- the three weights the code computes for a ternary partition with `search_depth = 1` (the
constant `C = 1 + 1/2` is computed for `2^h` cells per layer) sum to
`(1 + 1/2 + 1/3)/(1 + 1/2) = 11/9 ≠ 1` -/
theorem arity3_weights_counterexample :
    ((List.range' 1 3).map (fun l => (weight 1 1 l : ℚ))).sum = 11 / 9 ∧
      (11 / 9 : ℚ) ≠ 1 := by
  constructor <;> decide +kernel

/-- **Counterexample for arity 3**: on the ternary partition (`.kary 3`) of `[0,1]` with
`search_depth = 1`, `__init__` succeeds and establishes the tree invariant (with arity 3 and
a layer 1 of 3 cells), but the weights computed by the very first `pull` sum to `11/9`, so
`np.random.choice` rejects them: `pull` raises `ValueError`, whatever the random choices. -/
theorem arity3_counterexample :
    (∃ ds', VROOM.init cfgT (.kary 3) dom01 [d0] = .ok (sT0, ds')) ∧
    TInv 1 sT0.P ∧ K sT0.P = 3 ∧ sT0.P.layers = [[0], [1, 2, 3]] ∧
    (∃ P1, rankAll cfgT sT0.P = .ok (P1, [(1, 0), (1, 1), (1, 2)], probList cfgT sT0.P P1) ∧
      (probList cfgT sT0.P P1).sum = 11 / 9) ∧
    ∀ time dr, pull cfgT sT0 time dr = .error .valueError := by
  have hds : InitDrawsOK (VROOM.st0 (R := ℚ) (S := ℚ)) cfgT.sd (cfgT.sd + 1)
      (Part.init (.kary 3) dom01 VROOM.st0) [d0] :=
    initDrawsOK_of_simple 1 (.kary 3) dom01 [d0] dom01_valid (fun d hd => by
      obtain rfl : d = d0 := by simpa using hd
      exact ⟨by decide, fun b hb => ⟨by omega, by rw [hb]; decide⟩⟩) (by decide)
  obtain ⟨s, ds', h1, h2, _⟩ := init_inv cfgT (.kary 3) dom01 [d0] dom01_valid hds
  rw [sT0_eq] at h1
  injection h1 with h1
  injection h1 with e1 e2
  subst e1
  have hT : TInv 1 sT0.P := h2
  obtain ⟨P1, m, _⟩ := VR.rankAll_spec cfgT sT0.P hT.wf hT.deep
  have hidx : idxList cfgT.sd sT0.P = [(1, 0), (1, 1), (1, 2)] := by decide +kernel
  have hsum : (probList cfgT sT0.P P1).sum = 11 / 9 := by
    have e : rankAll cfgT sT0.P = .ok (getOk (rankAll cfgT sT0.P)) :=
      eq_ok_getOk _ (by decide +kernel)
    rw [e] at m
    injection m with m
    have e2 : (getOk (rankAll cfgT sT0.P)).2.2.sum = 11 / 9 := by decide +kernel
    rw [m] at e2
    exact e2
  refine ⟨⟨_, sT0_eq⟩, hT, by decide +kernel, by decide +kernel, ⟨P1, hidx ▸ m, hsum⟩, ?_⟩
  intro time dr
  have hbad : cfgT.probOK (probList cfgT sT0.P P1) = false := by
    show decide ((probList cfgT sT0.P P1).sum = 1) = false
    rw [hsum]; decide +kernel
  rw [pull, m]
  simp only [probList] at hbad
  simp [bind, Except.bind, hbad]

end counterexample

/-! ## 9. Non-vacuity: a concrete round over `ℚ`

Binary partition of `[0,1]`, `search_depth = 2`, `h_max = 3`; `np.random.choice` returns
position 3 of the weight list (cell 4 = `[1/4, 1/2]`, depth 2), the descent expands cell 4 and
moves to its second child (cell 8 = `[3/8, 1/2]`, depth 3 = `h_max`), the sampled point is `7/16`,
the reward is `3/4`. -/
section examples

/-- the draw hypothesis of `init_inv` holds for the three draws of the two `deepen()` calls -/
theorem exB_initDraws : InitDrawsOK (VROOM.st0 (R := ℚ) (S := ℚ)) cfgB.sd (cfgB.sd + 1)
    (Part.init .binary dom01 VROOM.st0) [d0, d0, d0] :=
  initDrawsOK_of_simple 2 .binary dom01 [d0, d0, d0] dom01_valid (fun d hd => by
    obtain rfl : d = d0 := by simpa using hd
    exact ⟨by decide, fun b hb => by show 0 < b.length; rw [hb]; decide⟩) (by decide)

/-- the initial state satisfies the invariant, with arity 2 -/
theorem exB_inv : TInv cfgB.sd sB0.P ∧ K sB0.P = 2 := by
  obtain ⟨s, ds', h1, h2, _⟩ := init_inv cfgB .binary dom01 [d0, d0, d0] dom01_valid exB_initDraws
  rw [sB0_eq] at h1
  injection h1 with h1
  injection h1 with e1 e2
  subst e1
  exact ⟨h2, by decide +kernel⟩

example : sB0.P.layers = [[0], [1, 2], [3, 4, 5, 6]] := by decide +kernel

/-- the hypotheses on the random choices of the pull hold -/
theorem exB_draws : PullDrawsOK cfgB sB0 drB :=
  pullDrawsOK_of_simple cfgB sB0 drB exB_inv.1 (by decide +kernel) (fun h l hidx => by
    have e : (idxList cfgB.sd sB0.P)[drB.choice]? = some (2, 1) := by decide +kernel
    rw [e] at hidx
    obtain ⟨rfl, rfl⟩ : 2 = h ∧ 1 = l := by simpa using hidx
    decide) (fun x hx => by
    obtain rfl : x = (some d0, 1) := by simpa [drB] using hx
    refine ⟨by rw [exB_inv.2]; decide, d0, rfl, by decide +kernel, fun b hb => ?_⟩
    show 0 < b.length
    rw [hb]; decide +kernel)

/-- all hypotheses of `pull_total` are satisfied; its conclusion for the concrete round -/
example : ∃ P1 h l node path, PullFacts cfgB sB0 1 drB sB1 8 P1 h l node path := by
  obtain ⟨s', last, P1, h, l, node, path, m, F, _⟩ := pull_total cfgB (exCfg_field 2 3)
    (by decide) (exCfg_probOK 2 3) sB0 1 drB exB_inv.1 exB_inv.2 exB_draws
  rw [pB_eq] at m
  injection m with m
  injection m with e1 e2
  injection e2 with e2 e3
  subst e1
  have : last = 8 := by rw [← e2, pB_val]
  subst this
  exact ⟨P1, h, l, node, path, F⟩

/-- what the concrete `pull` returned -/
example : pull cfgB sB0 1 drB = .ok (sB1, 8, [7 / 16]) := by
  rw [pB_eq, pB_val]

example : sB1.curr = some 4 ∧ sB1.updateList = [4, 8] ∧ sB1.prob.sum = 1 ∧
    sB1.prob.length = 6 ∧ sB1.P.layers = [[0], [1, 2], [3, 4, 5, 6], [7, 8]] := by
  decide +kernel

/-- the ranks of layer 2 after the pull (no rewards yet: all keys equal, ranks by position) and
the weight of the drawn cell `(h, rank) = (2, 2)`: `1/(2·2·C)`, `C = 1 + 1/2 + 1/2 + 1/4 + 1/6 + 1/8` -/
example : [3, 4, 5, 6].map (lastRank sB1.P) = [1, 2, 3, 4] ∧
    sB1.prob[3]? = some (1 / (2 * 2 * normC 2)) ∧ (normC 2 : ℚ) = 61 / 24 := by
  decide +kernel

/-- the sampled point lies in the returned cell `[3/8, 1/2]`, hence (by `point_in_drawn_cell`)
in the drawn cell `[1/4, 1/2]` -/
example : boxOf sB1.P 8 = [⟨3 / 8, 1 / 2⟩] ∧ boxOf sB1.P 4 = [⟨1 / 4, 1 / 2⟩] := by
  decide +kernel

example : Box.Mem (boxOf sB1.P 8) drB.pt := by
  have e : boxOf sB1.P 8 = [⟨3 / 8, 1 / 2⟩] := by decide +kernel
  rw [e]
  exact List.Forall₂.cons ⟨by decide +kernel, by decide +kernel⟩ List.Forall₂.nil

/-- the concrete `receive`: the reward is credited to cells 4 and 8 only -/
example : receive cfgB sB1 (3 / 4) = .ok sB2 := sB2_eq

example : (List.range 9).map (fun i => (sB2.P.stOf i).rewards) =
    [[], [], [], [], [3 / 4], [], [], [], [3 / 4]] := by
  decide +kernel

/-- the state after the round is reachable, so `reachable_inv` applies to it -/
example : Reachable cfgB .binary dom01 sB2 :=
  Reachable.round (Reachable.init exB_initDraws sB0_eq) exB_draws pB_eq sB2_eq

example : TInv cfgB.sd sB2.P ∧ K sB2.P = 2 :=
  let ⟨h1, h2, _⟩ := reachable_inv cfgB (exCfg_field 2 3) (by decide) (exCfg_probOK 2 3) .binary
    dom01 dom01_valid rfl
    (Reachable.round (Reachable.init exB_initDraws sB0_eq) exB_draws pB_eq sB2_eq)
  ⟨h1, h2⟩

end examples

end C13
end PyXAB
