/-
  The *optimism* lemma of the Zooming analysis, for the model `PyXABModel/Model/Zooming.lean`.

  "Fix a point `xstar` of the (valid) domain and a level `fstar`.  Call a state *optimistic* (at
  phase `ph`) when every active arm whose cell contains `xstar` has index
  `cfg.indexOf avg ph pulls ≥ fstar` (in the regret analysis this is the high-probability event
  `mean + confidence radius + radius of the cell ≥ f*` for the arms whose cell contains a
  maximiser; here it is a hypothesis on the state).  Then in every state reached by the
  algorithm, (1) some active arm's cell contains `xstar`, and (2) if the state is optimistic at
  its current phase, the arm which the next `pull` returns has index `≥ fstar`:
  **Zooming only ever pulls arms whose optimistic index is at least `fstar`**."

  The theorems hold for all runs (any number of rounds), every ordered field of coordinates,
  every linear order of index values, all numeric formulas (fields of `ZoomCfg`), the five
  partition classes and all admissible draws.

  Vocabulary.
  * `Spec/ZoomSpec.lean`, `Props/C11.lean`: the invariant `Cover`, the index `idx`, the reachable
    states `GoodRun cfg k domain s H` (`init`, then rounds `pull; receive` whose draws satisfy the
    NumPy guarantees `RecvDrawsOK` and in which `negInf` is below every index), `NegInfLe`
    (`negInf` is below the index of every active arm of the state: the hypothesis of
    `C11.pull_argmax`; automatic when `negInf` is a bottom element — `*_bot`).
  * `Spec/OptZSpec.lean` (new): `OPTZ.Optimistic`, `OPTZ.CoversAt`.
  * Lemmas: `Lemmas/OPTZ_Core.lean` (the statements for a single `Cover` state, from
    `C11.cover_cells_tile` and `C11.pull_argmax`; an executable test for `Optimistic`).

  Since `GoodRun.round` extends a `GoodRun` state, every state in which a `pull` of a run is made
  is itself a `GoodRun` state: the theorems below, stated for the next `pull` on any reachable
  state, cover every `pull` of every run (`Zooming_optimism_round`).

  Contents.
  1. `Zooming_cover_xstar` (1), `Zooming_pull_dominates`, `Zooming_optimism` (main, (2)),
     `Zooming_optimism_bot`, `Zooming_optimism_round`, `Zooming_optimism_state` (from the
     invariant, no run), `Zooming_not_optimistic_of_pull_lt` (contrapositive),
     `Optimistic.mono`, `Optimistic.of_all`.
  2. Non-vacuity (`ExOptZ`): `α = S = ℚ`, binary partition of `[0,1]`, the configuration `exCfg`
     and the 3-round run of `Lemmas/ZM_Example.lean`; `xstar = 1/3` and the boundary point
     `xstar = 3/4`; an instance with scores `WithBot ℚ` for the `*_bot` form.
-/
import PyXABProofs.Lemmas.OPTZ_Core
import PyXABProofs.Props.C11
import Mathlib.Algebra.Order.Monoid.WithTop

set_option linter.unusedSectionVars false
set_option linter.unusedVariables false

namespace PyXAB
namespace ZoomOpt
open Zooming ZM OPTZ _root_.PyXAB.Tree

variable {α R S : Type} [Field α] [LinearOrder α] [IsStrictOrderedRing α]

/-! ## 1. The theorems -/

omit [Field α] [LinearOrder α] [IsStrictOrderedRing α] in
/-- `Optimistic` is antitone in the level: optimistic at `fstar` implies optimistic at every
smaller level. -/
theorem Optimistic.mono [LE α] [Preorder S] {cfg : ZoomCfg R S} {s : Zooming α S} {ph : Nat}
    {xstar : List α} {f g : S} (h : Optimistic cfg s ph xstar f) (hgf : g ≤ f) :
    Optimistic cfg s ph xstar g :=
  fun a ha hm => le_trans hgf (h a ha hm)

omit [Field α] [LinearOrder α] [IsStrictOrderedRing α] in
/-- A state all of whose active arms have index `≥ fstar` is optimistic for every point. -/
theorem Optimistic.of_all [LE α] [LE S] {cfg : ZoomCfg R S} {s : Zooming α S} {ph : Nat}
    {fstar : S} (h : ∀ a ∈ s.arms, fstar ≤ idx cfg ph a) (xstar : List α) :
    Optimistic cfg s ph xstar fstar :=
  fun a ha _ => h a ha

/-- **(1) Some active arm is responsible for `xstar`.**

In plain words: run Zooming (the model of `PyXAB/algos/Zooming.py`) on a valid domain with a
partition of any class, for ANY number of rounds, with admissible draws.  In the state `s`
reached, every point `xstar` of the domain lies in the closed cell of some active arm `a`
(`CoversAt s xstar a`: `a ∈ s.arms` and `Box.Mem (cellBox s.P a.cell) xstar`); that cell is a
leaf `nd` of depth `≥ 1` of the partition tree and it also contains the arm's own point.

This is the cover invariant of C11 (`run_Cover`, `cover_cells_tile`): the cells of the active
arms tile the domain.  Nothing is assumed about the state being optimistic. -/
theorem Zooming_cover_xstar [LinearOrder S] {cfg : ZoomCfg R S} {k : Kind} {domain : Box α}
    (hv : Box.Valid domain) {s : Zooming α S} {H : List (Nat × R)}
    (hG : GoodRun cfg k domain s H) {xstar : List α} (hx : Box.Mem domain xstar) :
    ∃ a, CoversAt s xstar a ∧ ∃ nd, LeafAt s.P a.cell nd ∧ 1 ≤ nd.depth ∧
      Box.Mem nd.box xstar ∧ Box.Mem nd.box a.pt :=
  cover_exists (C11.run_Cover hv hG).1 hx

variable [LinearOrder S]

/-- **The pulled arm dominates the arm responsible for `xstar`** (no optimism hypothesis).

In plain words: in every reachable state `s` in which `negInf` is below the index of every
active arm (`NegInfLe`, the hypothesis of `C11.pull_argmax`), `pull` succeeds and returns a
position `i` of `arms` and the point of the arm `a` stored there; `a` has the largest index (at
the current phase) among ALL active arms; and for every point `xstar` of the domain there is an
active arm `c` whose cell contains `xstar`, so that `index c ≤ index a`. -/
theorem Zooming_pull_dominates {cfg : ZoomCfg R S} {k : Kind} {domain : Box α}
    (hv : Box.Valid domain) {s : Zooming α S} {H : List (Nat × R)}
    (hG : GoodRun cfg k domain s H) (hbot : NegInfLe cfg s) {xstar : List α}
    (hx : Box.Mem domain xstar) :
    ∃ i a, s.arms[i]? = some a ∧ pull cfg s = .ok ({ s with best := some i }, i, a.pt) ∧
      (∀ b ∈ s.arms, idx cfg s.phase b ≤ idx cfg s.phase a) ∧
      ∃ c, CoversAt s xstar c ∧ idx cfg s.phase c ≤ idx cfg s.phase a :=
  pull_dominates cfg (C11.run_Cover hv hG).1 hbot hx

/-- **(2) Optimism of Zooming: the pulled arm has index `≥ fstar`.**

In plain words: run Zooming on the valid domain `domain` with a partition of class `k`, for ANY
number of rounds, with admissible draws (`GoodRun`), reaching the state `s`.  Let `xstar` be a
point of the domain and `fstar` a level such that `s` is optimistic at its current phase: every
active arm whose cell contains `xstar` has index `cfg.indexOf avg s.phase pulls ≥ fstar`.  Then
the next `pull` succeeds, and the arm `a` it returns (position `i`, point `a.pt`) has index
`≥ fstar` — indeed its index is the maximum of the indices of all active arms, one of which is
responsible for `xstar` (`Zooming_cover_xstar`).  Only the field `best` of the state changes.

Assumptions:
* `hv`, `hx`: the domain is a valid box (`lo ≤ hi` in every coordinate) and `xstar` lies in it
  (closed containment).  `xstar` need not be a maximiser of anything;
* `hG`: `s` is reachable (`GoodRun`: the draws consumed by refinements satisfy the NumPy
  guarantees, and in every earlier round `negInf` was below every index);
* `hbot`: in `s`, `negInf` is below the index of every active arm (as in `C11.pull_argmax`;
  see `Zooming_optimism_bot` when `negInf` is a bottom element);
* `hO`: `s` is optimistic for `xstar`, `fstar` at the phase `s.phase` in which `pull` computes
  the indices.

The second part of the conclusion says the same for any given successful `pull` (the model is
deterministic). -/
theorem Zooming_optimism {cfg : ZoomCfg R S} {k : Kind} {domain : Box α}
    (hv : Box.Valid domain) {s : Zooming α S} {H : List (Nat × R)}
    (hG : GoodRun cfg k domain s H) (hbot : NegInfLe cfg s) {xstar : List α}
    (hx : Box.Mem domain xstar) {fstar : S} (hO : Optimistic cfg s s.phase xstar fstar) :
    (∃ i a, s.arms[i]? = some a ∧ pull cfg s = .ok ({ s with best := some i }, i, a.pt) ∧
      fstar ≤ idx cfg s.phase a ∧ ∀ b ∈ s.arms, idx cfg s.phase b ≤ idx cfg s.phase a) ∧
    ∀ s1 i pt, pull cfg s = .ok (s1, i, pt) →
      ∃ a, s.arms[i]? = some a ∧ pt = a.pt ∧ s1 = { s with best := some i } ∧
        fstar ≤ cfg.indexOf a.avg s.phase a.pulls ∧
        ∀ b ∈ s.arms, idx cfg s.phase b ≤ idx cfg s.phase a :=
  ⟨pull_optimistic cfg (C11.run_Cover hv hG).1 hbot hx hO,
   fun _ _ _ hp => pull_optimistic_of_ok cfg (C11.run_Cover hv hG).1 hbot hx hO hp⟩

/-- **Optimism of Zooming when `negInf` is a bottom element** of the index values (`-inf`): the
hypothesis `NegInfLe` of `Zooming_optimism` is then automatic (`C11.negInfLe_of_bot`).  In every
reachable state which is optimistic for `xstar`, `fstar` at its current phase, `pull` succeeds
and returns an arm of index `≥ fstar`. -/
theorem Zooming_optimism_bot {cfg : ZoomCfg R S} (hbot : ∀ x, cfg.negInf ≤ x) {k : Kind}
    {domain : Box α} (hv : Box.Valid domain) {s : Zooming α S} {H : List (Nat × R)}
    (hG : GoodRun cfg k domain s H) {xstar : List α} (hx : Box.Mem domain xstar) {fstar : S}
    (hO : Optimistic cfg s s.phase xstar fstar) :
    ∃ i a, s.arms[i]? = some a ∧ pull cfg s = .ok ({ s with best := some i }, i, a.pt) ∧
      fstar ≤ idx cfg s.phase a ∧ ∀ b ∈ s.arms, idx cfg s.phase b ≤ idx cfg s.phase a :=
  (Zooming_optimism hv hG (C11.negInfLe_of_bot cfg s hbot) hx hO).1

/-- **Optimism, for a round of a run.**  Let one more round `pull; receive r` be made after a
run (so that the run continues: `GoodRun … s2 (H ++ [(i, r)])`).  If the state `s` in which the
round started was optimistic for `xstar`, `fstar` at its phase, then the position `i` recorded
in the history is that of an arm of `s` whose index, in the phase of `s`, was `≥ fstar`; and the
point handed out was the point of that arm. -/
theorem Zooming_optimism_round {cfg : ZoomCfg R S} {k : Kind} {domain : Box α}
    (hv : Box.Valid domain) {s s1 s2 : Zooming α S} {H : List (Nat × R)}
    (hG : GoodRun cfg k domain s H) (hbot : NegInfLe cfg s) {i : Nat} {pt : List α} {r : R}
    {ds ds' : List (Draw α)} (hp : pull cfg s = .ok (s1, i, pt)) (hds : RecvDrawsOK cfg s1 ds)
    (hr : receive cfg s1 r ds = .ok (s2, ds')) {xstar : List α} (hx : Box.Mem domain xstar)
    {fstar : S} (hO : Optimistic cfg s s.phase xstar fstar) :
    GoodRun cfg k domain s2 (H ++ [(i, r)]) ∧
    ∃ a, s.arms[i]? = some a ∧ pt = a.pt ∧ fstar ≤ idx cfg s.phase a := by
  obtain ⟨a, h1, h2, _, h3, _⟩ := (Zooming_optimism hv hG hbot hx hO).2 s1 i pt hp
  exact ⟨GoodRun.round hG hbot hp hds hr, a, h1, h2, h3⟩

omit [Field α] [IsStrictOrderedRing α] in
/-- **Optimism from the invariant of the state** (no run): in a state satisfying the invariant
`Cover` of C11 for the domain `root`, with `negInf` below every index, which is optimistic for
a point `xstar` of `root` and the level `fstar` at its current phase, some active arm is
responsible for `xstar` and `pull` returns an arm of index `≥ fstar`. -/
theorem Zooming_optimism_state (cfg : ZoomCfg R S) {root : Box α} {s : Zooming α S}
    (hC : Cover root s) (hbot : NegInfLe cfg s) {xstar : List α} (hx : Box.Mem root xstar)
    {fstar : S} (hO : Optimistic cfg s s.phase xstar fstar) :
    (∃ c, CoversAt s xstar c ∧ fstar ≤ idx cfg s.phase c) ∧
    ∃ i a, s.arms[i]? = some a ∧ pull cfg s = .ok ({ s with best := some i }, i, a.pt) ∧
      fstar ≤ idx cfg s.phase a ∧ ∀ b ∈ s.arms, idx cfg s.phase b ≤ idx cfg s.phase a := by
  obtain ⟨c, hc, _⟩ := cover_exists hC hx
  exact ⟨⟨c, hc, hO c hc.1 hc.2⟩, pull_optimistic cfg hC hbot hx hO⟩

/-- **Contrapositive**: if, in a reachable state, `pull` returns an arm whose index is below
`fstar`, then the state is not optimistic for any point of the domain: for every `xstar` of the
domain some active arm whose cell contains `xstar` has index `< fstar`.  (In the analysis:
pulling an arm with a small index is only possible outside the high-probability event.) -/
theorem Zooming_not_optimistic_of_pull_lt {cfg : ZoomCfg R S} {k : Kind} {domain : Box α}
    (hv : Box.Valid domain) {s : Zooming α S} {H : List (Nat × R)}
    (hG : GoodRun cfg k domain s H) (hbot : NegInfLe cfg s) {s1 : Zooming α S} {i : Nat}
    {pt : List α} (hp : pull cfg s = .ok (s1, i, pt)) {a : Arm α S} (ha : s.arms[i]? = some a)
    {fstar : S} (hlt : idx cfg s.phase a < fstar) {xstar : List α} (hx : Box.Mem domain xstar) :
    ∃ c, CoversAt s xstar c ∧ idx cfg s.phase c < fstar ∧ ¬ Optimistic cfg s s.phase xstar fstar := by
  obtain ⟨i', a', h1, h2, _, c, hc, hca⟩ := Zooming_pull_dominates hv hG hbot hx
  rw [h2] at hp
  simp only [Except.ok.injEq, Prod.mk.injEq] at hp
  obtain ⟨_, rfl, _⟩ := hp
  obtain rfl : a' = a := Option.some.inj (h1.symm.trans ha)
  have hcl : idx cfg s.phase c < fstar := lt_of_le_of_lt hca hlt
  exact ⟨c, hc, hcl, fun hO => absurd (hO c hc.1 hc.2) (not_le_of_gt hcl)⟩

end ZoomOpt

/-! ## 2. Non-vacuity

`α = S = ℚ`, the interval `dom01 = [0,1]` with binary midpoint splits, the configuration `exCfg`
(`index = avg + 8*phase/(2+pulls)`, `negInf = -1`, refinement as soon as `pulls > depth`) and the
run `st0 → st1 → st2 → st3` of `Lemmas/ZM_Example.lean` (all rewards `1`; round 3 refines the cell
`[1/2,1]`).

* After `init` (`st0`: arms at `1/4`, `3/4` for the cells `[0,1/2]`, `[1/2,1]`, phase 1, both
  indices `0 + 8/2 = 4`): for `xstar = 1/3` the state is optimistic at `fstar = 4`, NOT optimistic
  at `fstar = 5`, and `pull` returns position 1 (tie: last maximiser) of index `4 ≥ 4`.
* After three rounds (`st3`: cells `[0,1/2]`, `[1/2,3/4]`, `[3/4,1]`, pulls `1, 2, 0`, means
  `1, 1, 0`, phase 2, indices `19/3, 5, 8`): for `xstar = 1/3` optimistic at `6`, not at `7`; for
  the boundary point `xstar = 3/4` (in BOTH cells `[1/2,3/4]` and `[3/4,1]`) optimistic at `5`,
  not at `6`; `pull` returns position 2 of index `8`.
* `cfgB`: scores `WithBot ℚ`, `negInf = ⊥`: the `*_bot` form applies to every run. -/
namespace ExOptZ
open Zooming ZM OPTZ ZoomOpt _root_.PyXAB.Tree

def xstarQ : List ℚ := [1 / 3]
/-- the common boundary of the cells `3 = [1/2,3/4]` and `4 = [3/4,1]` of `st3` -/
def xbndQ : List ℚ := [3 / 4]

theorem xstarQ_mem : Box.Mem dom01 xstarQ := by
  unfold Box.Mem dom01 xstarQ
  refine List.Forall₂.cons ⟨?_, ?_⟩ List.Forall₂.nil
  · show (0 : ℚ) ≤ 1 / 3; decide +kernel
  · show (1 / 3 : ℚ) ≤ 1; decide +kernel

theorem xbndQ_mem : Box.Mem dom01 xbndQ := by
  unfold Box.Mem dom01 xbndQ
  refine List.Forall₂.cons ⟨?_, ?_⟩ List.Forall₂.nil
  · show (0 : ℚ) ≤ 3 / 4; decide +kernel
  · show (3 / 4 : ℚ) ≤ 1; decide +kernel

/-! ### After `init` -/

/-- the state after `init`: per arm `(cell, box of the cell, point, pulls, mean, index)` -/
theorem st0_view : st0.phase = 1 ∧ st0.arms.map (fun a =>
      (a.cell, cellBox st0.P a.cell, a.pt, a.pulls, a.avg, idx exCfg st0.phase a)) =
    [(1, [⟨0, 1 / 2⟩], [1 / 4], 0, 0, 4), (2, [⟨1 / 2, 1⟩], [3 / 4], 0, 0, 4)] := by
  decide +kernel

theorem st0_negInfLe : NegInfLe exCfg st0 := by
  show ∀ a ∈ st0.arms, exCfg.negInf ≤ idx exCfg st0.phase a
  decide +kernel

/-- **(1) instantiated**: some arm of `st0` is responsible for `1/3` -/
theorem st0_covers : ∃ a, CoversAt st0 xstarQ a :=
  (Zooming_cover_xstar dom01_valid good0 xstarQ_mem).imp fun _ h => h.1

/-- **the hypothesis `Optimistic` holds** after `init` for `xstar = 1/3`, `fstar = 4` -/
theorem st0_optimistic : Optimistic exCfg st0 st0.phase xstarQ 4 :=
  optimistic_of_check (by decide +kernel)

/-- … and fails for `fstar = 5` (the arm of the cell `[0,1/2] ∋ 1/3` has index 4): the
hypothesis is not vacuous in the other direction either -/
theorem st0_not_optimistic : ¬ Optimistic exCfg st0 st0.phase xstarQ 5 :=
  not_optimistic_of_witness 0 (by decide +kernel)

/-- **`Zooming_optimism` instantiated** after `init`: every hypothesis is discharged -/
theorem st0_optimism :
    ∃ i a, st0.arms[i]? = some a ∧
      pull exCfg st0 = .ok ({ st0 with best := some i }, i, a.pt) ∧
      (4 : ℚ) ≤ idx exCfg st0.phase a ∧
      ∀ b ∈ st0.arms, idx exCfg st0.phase b ≤ idx exCfg st0.phase a :=
  (Zooming_optimism dom01_valid good0 st0_negInfLe xstarQ_mem st0_optimistic).1

/-- the conclusion, for the `pull` which the kernel evaluates: position 1 (the LAST arm of
maximal index), point `3/4`, index 4 -/
theorem st0_pull : ((pl st0).2.1, (pl st0).2.2,
    st0.arms[(pl st0).2.1]?.map (idx exCfg st0.phase)) = (1, [3 / 4], some 4) := by
  decide +kernel

/-! ### After three rounds (one refinement) -/

/-- the state after three rounds: per arm `(cell, box of the cell, point, pulls, mean, index)` -/
theorem st3_view : st3.phase = 2 ∧ st3.arms.map (fun a =>
      (a.cell, cellBox st3.P a.cell, a.pt, a.pulls, a.avg, idx exCfg st3.phase a)) =
    [(1, [⟨0, 1 / 2⟩], [1 / 4], 1, 1, 19 / 3), (3, [⟨1 / 2, 3 / 4⟩], [3 / 4], 2, 1, 5),
     (4, [⟨3 / 4, 1⟩], [7 / 8], 0, 0, 8)] := by
  decide +kernel

theorem st3_negInfLe : NegInfLe exCfg st3 := by
  show ∀ a ∈ st3.arms, exCfg.negInf ≤ idx exCfg st3.phase a
  decide +kernel

/-- `xstar = 1/3`: optimistic at `fstar = 6` (the arm of `[0,1/2]` has index `19/3`) … -/
theorem st3_optimistic : Optimistic exCfg st3 st3.phase xstarQ 6 :=
  optimistic_of_check (by decide +kernel)

/-- … and not at `fstar = 7` -/
theorem st3_not_optimistic : ¬ Optimistic exCfg st3 st3.phase xstarQ 7 :=
  not_optimistic_of_witness 0 (by decide +kernel)

/-- **`Zooming_optimism` instantiated** after three rounds -/
theorem st3_optimism :
    ∃ i a, st3.arms[i]? = some a ∧
      pull exCfg st3 = .ok ({ st3 with best := some i }, i, a.pt) ∧
      (6 : ℚ) ≤ idx exCfg st3.phase a ∧
      ∀ b ∈ st3.arms, idx exCfg st3.phase b ≤ idx exCfg st3.phase a :=
  (Zooming_optimism dom01_valid good3 st3_negInfLe xstarQ_mem st3_optimistic).1

/-- the fourth `pull`, evaluated: position 2 (the fresh arm of `[3/4,1]`), point `7/8`,
index `8 ≥ 6` — an arm whose cell does NOT contain `xstar` -/
theorem st3_pull : ((pl st3).2.1, (pl st3).2.2,
    st3.arms[(pl st3).2.1]?.map (idx exCfg st3.phase)) = (2, [7 / 8], some 8) := by
  decide +kernel

/-- the second form of the conclusion, for that `pull` -/
theorem st3_pull_optimistic :
    ∃ a, st3.arms[(pl st3).2.1]? = some a ∧ (pl st3).2.2 = a.pt ∧
      (6 : ℚ) ≤ exCfg.indexOf a.avg st3.phase a.pulls := by
  have hp : pull exCfg st3 = .ok ((pl st3).1, (pl st3).2.1, (pl st3).2.2) :=
    eq_ok_getOk _ (by decide +kernel)
  obtain ⟨a, h1, h2, _, h3, _⟩ :=
    (Zooming_optimism dom01_valid good3 st3_negInfLe xstarQ_mem st3_optimistic).2 _ _ _ hp
  exact ⟨a, h1, h2, h3⟩

/-- The boundary point `xstar = 3/4` lies in the cells of TWO active arms (indices 5 and 8):
`Optimistic` asks for both, so it holds at `fstar = 5` … -/
theorem st3_bnd_optimistic : Optimistic exCfg st3 st3.phase xbndQ 5 :=
  optimistic_of_check (by decide +kernel)

/-- … and fails at `fstar = 6` (witness: position 1, index 5), although the pulled arm, whose
cell also contains `3/4`, has index 8 -/
theorem st3_bnd_not_optimistic : ¬ Optimistic exCfg st3 st3.phase xbndQ 6 :=
  not_optimistic_of_witness 1 (by decide +kernel)

example : ∃ i a, st3.arms[i]? = some a ∧
    pull exCfg st3 = .ok ({ st3 with best := some i }, i, a.pt) ∧
    (5 : ℚ) ≤ idx exCfg st3.phase a ∧
    ∀ b ∈ st3.arms, idx exCfg st3.phase b ≤ idx exCfg st3.phase a :=
  (Zooming_optimism dom01_valid good3 st3_negInfLe xbndQ_mem st3_bnd_optimistic).1

/-- The optimism hypothesis cannot be dropped: at `fstar = 9` the state is not optimistic for
`1/3` and the pulled arm (index 8) is below `fstar`; `Zooming_not_optimistic_of_pull_lt` derives
the former from the latter. -/
example : ∃ c, CoversAt st3 xstarQ c ∧ idx exCfg st3.phase c < 9 ∧
    ¬ Optimistic exCfg st3 st3.phase xstarQ 9 := by
  have hp : pull exCfg st3 = .ok ((pl st3).1, (pl st3).2.1, (pl st3).2.2) :=
    eq_ok_getOk _ (by decide +kernel)
  obtain ⟨a, ha, _⟩ := (pull_inv hp).2
  have h8 : (st3.arms[(pl st3).2.1]?.map (idx exCfg st3.phase)) = some 8 :=
    congrArg (fun t => t.2.2) st3_pull
  rw [ha] at h8
  simp only [Option.map_some, Option.some.injEq] at h8
  exact Zooming_not_optimistic_of_pull_lt dom01_valid good3 st3_negInfLe hp ha
    (by rw [h8]; decide +kernel) xstarQ_mem

/-- `Zooming_optimism_round` applies to round 3 of the run (`st2 → st3`, the refining round):
`st2` is optimistic for `1/3` at `fstar = 3`, hence the arm pulled in round 3 (position 1) had
index `≥ 3`. -/
example : ∃ a, st2.arms[(pl st2).2.1]? = some a ∧ (pl st2).2.2 = a.pt ∧
    (3 : ℚ) ≤ idx exCfg st2.phase a := by
  have hp : pull exCfg st2 = .ok ((pl st2).1, (pl st2).2.1, (pl st2).2.2) :=
    eq_ok_getOk _ (by decide +kernel)
  have hr : receive exCfg (pl st2).1 1 [d0] =
      .ok (st3, (getOk (receive exCfg (pl st2).1 1 [d0])).2) :=
    eq_ok_getOk _ (by decide +kernel)
  have hds : RecvDrawsOK exCfg (pl st2).1 [d0] :=
    recvDrawsOK_binary exCfg cover_pulled2 kind_pulled2.1
      (by rw [kind_pulled2.2]; show 0 < 1; omega)
  exact (Zooming_optimism_round dom01_valid good2
    (show ∀ a ∈ st2.arms, exCfg.negInf ≤ idx exCfg st2.phase a by decide +kernel) hp hds hr
    xstarQ_mem (fstar := 3) (optimistic_of_check (by decide +kernel))).2

/-! ### Scores with a bottom element: the `*_bot` form -/

/-- the same formulas with index values in `WithBot ℚ` and `negInf = ⊥` (`-inf`) -/
def cfgB : ZoomCfg ℚ (WithBot ℚ) :=
  { negInf := ⊥, zero := ((0 : ℚ) : WithBot ℚ)
    indexOf := fun avg ph n => avg + ((8 * (ph : ℚ) / (2 + (n : ℚ)) : ℚ) : WithBot ℚ)
    upd := fun avg n r => WithBot.map (fun q => (q * (n : ℚ) + r) / ((n : ℚ) + 1)) avg
    refine := fun _ n d => decide (d + 1 ≤ n) }

/-- **`Zooming_optimism_bot` for this instance**: every hypothesis except the run and the
optimism of its last state is discharged; all runs, all points `x` of `[0,1]` given by a
coordinate `0 ≤ x ≤ 1`. -/
theorem optimism_B {s : Zooming ℚ (WithBot ℚ)} {H : List (Nat × ℚ)}
    (hG : GoodRun cfgB .binary dom01 s H) {x : ℚ} (h0 : 0 ≤ x) (h1 : x ≤ 1) {fstar : WithBot ℚ}
    (hO : Optimistic cfgB s s.phase [x] fstar) :
    ∃ i a, s.arms[i]? = some a ∧ pull cfgB s = .ok ({ s with best := some i }, i, a.pt) ∧
      fstar ≤ idx cfgB s.phase a ∧ ∀ b ∈ s.arms, idx cfgB s.phase b ≤ idx cfgB s.phase a :=
  Zooming_optimism_bot (fun _ => bot_le) dom01_valid hG
    (List.Forall₂.cons ⟨h0, h1⟩ List.Forall₂.nil) hO

/-- reachable states of this instance exist (`init` with the draw `d0`), and the initial state
is optimistic for every point at the level `4 = 0 + 8*1/(2+0)` -/
example : ∃ s, GoodRun cfgB .binary dom01 s [] ∧
    ∀ x : List ℚ, Optimistic cfgB s s.phase x (((4 : ℚ) : WithBot ℚ)) := by
  obtain ⟨s, e, _, _, _, harms, hph, _⟩ :=
    C11.init_Cover cfgB .binary dom01 d0 [] dom01_valid (by decide) (by show 0 < 1; omega)
  refine ⟨s, GoodRun.init (d := d0) (ds := []) (by decide) (by show 0 < 1; omega) e,
    fun x => Optimistic.of_all ?_ x⟩
  intro a ha
  rw [harms] at ha
  obtain ⟨c, _, rfl⟩ := List.mem_map.1 ha
  rw [hph]
  show ((4 : ℚ) : WithBot ℚ) ≤ ((0 : ℚ) : WithBot ℚ) + ((8 * ((1 : ℕ) : ℚ) / (2 + ((0 : ℕ) : ℚ)) : ℚ) : WithBot ℚ)
  rw [← WithBot.coe_add, WithBot.coe_le_coe]
  decide +kernel

end ExOptZ
end PyXAB
