/-
  StroquOOL (model `PyXABModel/Model/StroquOOL.lean`): its parts of the library properties
  C04 (credit, with the documented exception), C07 (recommendation), C03 (tree bookkeeping),
  plus the end behaviour and the bookkeeping of evaluated cells.

  Setting.  Scores `S` carry `[LE S] [DecidableLE S]` (what the model asks for); the
  recommendation theorems need `[LinearOrder S]` (over `Float`, `NaN` is outside this order
  assumption: `meanOf [] = NaN` in Python) and, for totality only, `cfg.negInf` a bottom element.
  Partitions are binary (`k.arity domain.length = 2`, i.e. `Tree.K P = 2`), draws well-formed
  (`SK.DrawsOK P ds := ∀ d ∈ ds, Tree.DrawOKLen P.kind (dimn P) d`).

  Definitions: `Spec/SkSpec.lean` (`Inv`, `PullFrame`, `Credit`, `Reach`, `runRounds`,
  `IsLastMax`, `candList`, …); helper lemmas: `Lemmas/SK_*.lean`.

  Contents
  1. Credit (C04):  `receive_ended`, `receive_credits_curr`, `pull_returns_curr`,
     `buildCandidates_resets`, `pull_stats_frame`, `reach_credit`, `run_credit`,
     `credit_visited`, `credit_rewards`.
  2. Recommendation (C07): `compMean_spec`, `lastPoint_spec`, `lastPoint_nil`, `lastPoint_none`,
     `lastPoint_total`, `lastPoint_idem`; candidate selection: `candidate_spec`, `candidate_some`.
  3. End: `receive_ended`, `pull_end_recommends`, `ended_mono`, and stability of the
     recommendation under later `pull`s at non-decreasing times: `pull_end_afterEnd`,
     `afterEnd_pull`, `afterEnd_receive`.
  4. Tree (C03): `pull_preserves_inv`, `pull_WF`, `reach_WF`, `reach_clauses`, `chosen_spec`,
     `pull_chosen_grows`.  `Tree.WF` alone is NOT preserved by `pull` from arbitrary states: a
     leftover `maxNode` that is a leaf of another depth would be expanded with the wrong
     `newlayer` flag; `Inv` records that `maxNode` is always an expanded cell, which is what the
     Python code relies on.
  5. Evaluated cells: `pull_returns_chosen`, `run_history_chosen`.
  6. Non-vacuity: an 18-round run with `hmax = 2`, `pmax = 1` (candidates built in round 13, end in
     round 17), and the counterexample `pull_WF_needs_inv`.
-/
import PyXABProofs.Lemmas.SK_Run
import PyXABProofs.Lemmas.SK_End
import PyXABProofs.Lemmas.SK_Example

set_option linter.unusedSectionVars false

namespace PyXAB
namespace SkProps
open Tree TBA StroquOOL SK

variable {α R S : Type}

section general
variable [Add α] [Sub α] [Mul α] [Div α] [OfNat α 2] [NatCast α]
variable [LE S] [DecidableLE S] [Inhabited S] [Inhabited R]

/-! ## 1. Credit -/

/-- (C04, exception; End (a)) after the end `receive` ignores the reward. -/
theorem receive_ended (s : StroquOOL α R S) (r : R) (h : s.ended = true) : receive s r = s :=
  SK.receive_ended s r h

/-- (C04) before the end `receive s r` appends `r` to the reward list of exactly the cell
`s.curr` and increments its `visited`; nothing else changes (neither in the arena nor in the
other fields of the state). -/
theorem receive_credits_curr (s : StroquOOL α R S) (r : R) (h : s.ended = false) :
    receive s r = { s with P := (receive s r).P } ∧
    (receive s r).P.kind = s.P.kind ∧ (receive s r).P.layers = s.P.layers ∧
    (receive s r).P.depth = s.P.depth ∧
    ∀ j : Nat, (receive s r).P.nodes[j]? = (s.P.nodes[j]?).map (fun nd =>
      if j = s.curr then
        { nd with st := { nd.st with visited := nd.st.visited + 1, rewards := nd.st.rewards ++ [r] } }
      else nd) := by
  rw [receive_open s r h]
  refine ⟨rfl, rfl, rfl, rfl, fun j => ?_⟩
  show (s.P.modifySt s.curr _).nodes[j]? = _
  rw [getElem?_modifySt]
  cases s.P.nodes[j]? with
  | none => rfl
  | some nd =>
    by_cases hj : j = s.curr
    · subst hj; simp
    · have : ¬ s.curr = j := fun e => hj e.symm
      simp [hj, this]

/-- (C04) the cell credited by `receive` is the one the preceding `pull` returned. -/
theorem pull_returns_curr (cfg : SkCfg R S) {s s' : StroquOOL α R S} {t : Nat}
    {ds ds' : List (Draw α)} {v : Nat} (h : pull cfg s t ds = .ok (s', ds', v))
    (he : s'.ended = false) : s'.curr = v := by
  obtain ⟨hO, _⟩ := pull_spec cfg h
  cases hO with
  | eval _ b => exact b
  | fin s1 _ F => rw [F.ended] at he; cases he

/-- (C04, the exception) `buildCandidates` stores the candidate list `candList cfg s` (one entry
per exponent `p ≤ pmax`), succeeds iff no entry is `none`, and empties the reward list of exactly
the `some id` entries: `visited` and everything else is untouched. -/
theorem buildCandidates_resets (cfg : SkCfg R S) {s s' : StroquOOL α R S}
    (h : buildCandidates cfg s = .ok s') :
    s' = { s with candidate := s'.candidate, P := s'.P } ∧
    s'.candidate = candList cfg s ∧ s'.candidate.length = cfg.pmax + 1 ∧
    (∀ c ∈ s'.candidate, c ≠ none) ∧
    (∀ id, some id ∈ s'.candidate → id ∈ s.chosen ∧ id < s.P.nodes.length) ∧
    s'.P.kind = s.P.kind ∧ s'.P.layers = s.P.layers ∧ s'.P.depth = s.P.depth ∧
    ∀ j : Nat, s'.P.nodes[j]? = (s.P.nodes[j]?).map (fun nd =>
      if some j ∈ s'.candidate then { nd with st := { nd.st with rewards := [] } } else nd) := by
  obtain ⟨h1, rfl⟩ := (buildCandidates_ok_iff cfg s s').1 h
  exact ⟨rfl, rfl, candList_length cfg s, h1, fun id hid => candList_mem cfg s hid, rfl, rfl, rfl,
    fun j => getElem?_clearP s.P (candList cfg s) j⟩

theorem buildCandidates_none (cfg : SkCfg R S) (s : StroquOOL α R S)
    (h : none ∈ candList cfg s) : buildCandidates cfg s = .error .noneDeref :=
  SK.buildCandidates_none cfg s h

/-- (C04) what one `pull` does to the statistics (`SK.PullFrame`): `visited` never changes,
`rewards` changes only by the reset of the candidates at the moment the candidate list is built,
new cells are unvisited. -/
theorem pull_stats_frame (cfg : SkCfg R S) {s s' : StroquOOL α R S} {t : Nat}
    {ds ds' : List (Draw α)} {v : Nat} (hI : Inv s) (hd : DrawsOK s.P ds)
    (h : pull cfg s t ds = .ok (s', ds', v)) : PullFrame s s' :=
  ((pull_spec cfg h).2 hI hd).frame

/-- (C04, run level) **the credit invariant holds in every reachable state** (any interleaving
of `pull`s with well-formed draws and `receive`s), for the ghost history `H` of the pairs
(`curr`, reward) received before the end and the ghost `resetAt` (length of `H` when the
candidates were built). -/
theorem reach_credit (cfg : SkCfg R S) (k : Kind) (domain : Box α)
    (hK : k.arity domain.length = 2) {s : StroquOOL α R S} {H : List (Nat × R)}
    {ra : Option Nat} (h : Reach cfg k domain s H ra) : Credit s H ra :=
  (reach_inv cfg k domain hK h).2.1

/-- (C04, run level) the documented loop `pull(t); receive(r)`: after any successful run the
credit invariant holds for the history of the pairs (returned id, reward) of the rounds before
the end. -/
theorem run_credit (cfg : SkCfg R S) (k : Kind) (domain : Box α)
    (hK : k.arity domain.length = 2) (inputs : List (Nat × R × List (Draw α)))
    (hin : InputsOK k domain.length inputs) {s : StroquOOL α R S} {H : List (Nat × R)}
    {ra : Option Nat} (h : run cfg k domain inputs = .ok (s, H, ra)) :
    Reach cfg k domain s H ra ∧ Inv s ∧ Credit s H ra := by
  have hR := runRounds_reach cfg k domain hK inputs Reach.init hin h
  obtain ⟨h1, h2, _⟩ := reach_inv cfg k domain hK hR
  exact ⟨hR, h1, h2⟩

/-- `Credit` unpacked: `visited` = number of recorded rounds in which the cell was returned. -/
theorem credit_visited {s : StroquOOL α R S} {H : List (Nat × R)} {ra : Option Nat}
    (C : Credit s H ra) {id : Nat} {nd : Node α (SkSt R S)} (h : s.P.nodes[id]? = some nd) :
    nd.st.visited = (H.filter (fun e => decide (e.1 = id))).length := by
  rw [C.visited id nd h, hist, List.length_map]

/-- `Credit` unpacked: `rewards` = the rewards of those rounds in order — all of them for a
non-candidate; for a candidate those received since the candidates were built. -/
theorem credit_rewards {s : StroquOOL α R S} {H : List (Nat × R)} {ra : Option Nat}
    (C : Credit s H ra) {id : Nat} {nd : Node α (SkSt R S)} (h : s.P.nodes[id]? = some nd) :
    (some id ∉ s.candidate → nd.st.rewards = hist H id) ∧
    (some id ∈ s.candidate → ∃ k, ra = some k ∧ k ≤ H.length ∧
      nd.st.rewards = hist (H.drop k) id) := by
  have hr := C.rewards id nd h
  constructor
  · intro hn; rw [hr, if_neg hn]
  · intro hm
    rw [if_pos hm] at hr
    cases hra : ra with
    | none => rw [C.ra_none hra] at hm; cases hm
    | some k => exact ⟨k, rfl, C.ra_le k hra, by rw [hr, hra]; rfl⟩

/-! ## 3. End behaviour -/

/-- (End (b)) the `pull` that ends the run returns the recommendation: `lastPoint` of the new
state returns that same state and id, and the id is one of the candidates. -/
theorem pull_end_recommends (cfg : SkCfg R S) {s s' : StroquOOL α R S} {t : Nat}
    {ds ds' : List (Draw α)} {v : Nat} (h : pull cfg s t ds = .ok (s', ds', v))
    (h0 : s.ended = false) (he : s'.ended = true) :
    lastPoint cfg s' = .ok (s', v) ∧ some v ∈ s'.candidate := by
  obtain ⟨hO, _⟩ := pull_spec cfg h
  cases hO with
  | eval a _ => rw [a, h0] at he; cases he
  | fin s1 _ F => exact ⟨F.reco, F.mem⟩

/-- `ended` is only ever set (by `finish`), never cleared. -/
theorem ended_mono (cfg : SkCfg R S) {s s' : StroquOOL α R S} {t : Nat}
    {ds ds' : List (Draw α)} {v : Nat} (h : pull cfg s t ds = .ok (s', ds', v))
    (h0 : s.ended = true) : s'.ended = true := by
  obtain ⟨hO, _⟩ := pull_spec cfg h
  cases hO with
  | eval a _ => rw [a, h0]
  | fin s1 _ F => exact F.ended

/-- (End (c)) the configurations `SK.AfterEnd` (ended, in a `SK.Stuck` configuration, with an
up-to-date recommendation `v`) are closed under `pull` at non-decreasing times and under
`receive`: every later `pull` returns `v` again and only records the time. -/
theorem afterEnd_pull (cfg : SkCfg R S) {s : StroquOOL α R S} {t t' v : Nat}
    (h : AfterEnd cfg s t v) (ht : t ≤ t') (ds : List (Draw α)) :
    pull cfg s t' ds = .ok ({ s with iteration := t' }, ds, v) ∧
    AfterEnd cfg { s with iteration := t' } t' v := by
  obtain ⟨h1, h2, h3⟩ := h
  refine ⟨stuck_stable cfg h1 h2 h3 ht ds, h1.mono ht, h2, ?_⟩
  obtain ⟨hv, hp, e⟩ := (lastPoint_ok_iff cfg s s v).1 h3
  rw [lastPoint_ok_iff]
  refine ⟨hv, hp, ?_⟩
  have eP : s.P = refreshP cfg s.P s.candidate := congrArg StroquOOL.P e
  show _ = { s with iteration := t', P := refreshP cfg s.P s.candidate }
  rw [← eP]

theorem afterEnd_receive (cfg : SkCfg R S) {s : StroquOOL α R S} {t v : Nat}
    (h : AfterEnd cfg s t v) (r : R) : receive s r = s ∧ AfterEnd cfg (receive s r) t v := by
  have e := SK.receive_ended s r h.2.1
  exact ⟨e, by rw [e]; exact h⟩

/-- (End (c)) the `pull` which ends the run (entered at depth `≥ 1`; at depth 0 the end can only
be reached by calling `pull` with a time `> 2·hmax`, which the documented loop never does)
establishes `AfterEnd` for the id it returns. -/
theorem pull_end_afterEnd (cfg : SkCfg R S) {s s' : StroquOOL α R S} {t : Nat}
    {ds ds' : List (Draw α)} {v : Nat} (h : pull cfg s t ds = .ok (s', ds', v))
    (hd : s.currDepth ≠ 0) (h0 : s.ended = false) (he : s'.ended = true) :
    AfterEnd cfg s' t v :=
  ⟨pull_stuck cfg h hd h0 he, he, (pull_end_recommends cfg h h0 he).1⟩

/-! ## 4. Tree consistency -/

/-- (C03) `pull` keeps the state invariant `SK.Inv` — in particular `Tree.WF`: it only expands
leaves (the root at depth 0, `maxNode` later) with the right `newlayer` flag — and leaves the
remaining draws well-formed. -/
theorem pull_preserves_inv (cfg : SkCfg R S) {s s' : StroquOOL α R S} {t : Nat}
    {ds ds' : List (Draw α)} {v : Nat} (hI : Inv s) (hd : DrawsOK s.P ds)
    (h : pull cfg s t ds = .ok (s', ds', v)) : Inv s' ∧ DrawsOK s'.P ds' :=
  have G := (pull_spec cfg h).2 hI hd
  ⟨G.inv, G.dok⟩

theorem pull_WF (cfg : SkCfg R S) {s s' : StroquOOL α R S} {t : Nat}
    {ds ds' : List (Draw α)} {v : Nat} (hI : Inv s) (hd : DrawsOK s.P ds)
    (h : pull cfg s t ds = .ok (s', ds', v)) : WF s'.P :=
  (pull_preserves_inv cfg hI hd h).1.wf

theorem receive_preserves_inv {s : StroquOOL α R S} (r : R) (hI : Inv s) : Inv (receive s r) :=
  receive_inv r hI

theorem init_inv (cfg : SkCfg R S) (k : Kind) (domain : Box α) (hK : k.arity domain.length = 2) :
    Inv (init cfg k domain) :=
  SK.init_inv cfg k domain hK

/-- (C03) every state reachable from `init` by `pull` (well-formed draws) / `receive` satisfies
`Inv`; kind and dimension never change. -/
theorem reach_inv (cfg : SkCfg R S) (k : Kind) (domain : Box α)
    (hK : k.arity domain.length = 2) {s : StroquOOL α R S} {H : List (Nat × R)}
    {ra : Option Nat} (h : Reach cfg k domain s H ra) :
    Inv s ∧ s.P.kind = k ∧ dimn s.P = domain.length :=
  have h' := SK.reach_inv cfg k domain hK h
  ⟨h'.1, h'.2.2⟩

theorem reach_WF (cfg : SkCfg R S) (k : Kind) (domain : Box α)
    (hK : k.arity domain.length = 2) {s : StroquOOL α R S} {H : List (Nat × R)}
    {ra : Option Nat} (h : Reach cfg k domain s H ra) : WF s.P :=
  (reach_inv cfg k domain hK h).1.wf

/-- (C03) all clauses of the tree-bookkeeping property hold in every reachable state. -/
theorem reach_clauses (cfg : SkCfg R S) (k : Kind) (domain : Box α)
    (hK : k.arity domain.length = 2) {s : StroquOOL α R S} {H : List (Nat × R)}
    {ra : Option Nat} (h : Reach cfg k domain s H ra) : Clauses s.P :=
  clauses_of_WF (reach_WF cfg k domain hK h)

/-- `chosen` is the list of ALL non-root cells in creation order: valid ids, no duplicates,
never the root, each one a child of an expanded cell with exactly two children. -/
theorem chosen_spec {s : StroquOOL α R S} (hI : Inv s) :
    s.chosen = List.range' 1 (s.P.nodes.length - 1) ∧ s.chosen.Nodup ∧
    ∀ c, c ∈ s.chosen ↔ (1 ≤ c ∧ c < s.P.nodes.length) ∧
      ∃ (p : Nat) (pn : Node α (SkSt R S)) (cs : List Nat),
        s.P.nodes[p]? = some pn ∧ pn.children = some cs ∧ c ∈ cs ∧ cs.length = 2 := by
  refine ⟨hI.ch, by rw [hI.ch]; exact List.nodup_range', fun c => ?_⟩
  rw [hI.mem_chosen]
  constructor
  · rintro ⟨h1, h2⟩
    refine ⟨⟨h1, h2⟩, ?_⟩
    obtain ⟨p, pn, cs, _, _, a3, a4, a5, _⟩ :=
      hI.wf.parent c _ (by omega) (List.getElem?_eq_getElem h2)
    exact ⟨p, pn, cs, a3, a4, a5, by
      rw [(children_indices hI.wf a3 a4).1, hI.ar]⟩
  · rintro ⟨h, _⟩; exact h

/-- the ids added to `chosen` by a `pull` are exactly the cells it created (both children of the
expanded cell, in child order), at the moment they are created. -/
theorem pull_chosen_grows (cfg : SkCfg R S) {s s' : StroquOOL α R S} {t : Nat}
    {ds ds' : List (Draw α)} {v : Nat} (hI : Inv s) (hd : DrawsOK s.P ds)
    (h : pull cfg s t ds = .ok (s', ds', v)) :
    s.P.nodes.length ≤ s'.P.nodes.length ∧
    s'.chosen = s.chosen ++
      List.range' s.P.nodes.length (s'.P.nodes.length - s.P.nodes.length) := by
  have G := (pull_spec cfg h).2 hI hd
  have hpos := hI.wf.length_pos
  have hle := G.frame.len
  refine ⟨hle, ?_⟩
  rw [G.inv.ch, hI.ch]
  have e : s.P.nodes.length = 1 + (s.P.nodes.length - 1) := by omega
  conv => rhs; rhs; rw [e]
  rw [List.range'_append_1]
  congr 1
  omega

/-! ## 5. Evaluated cells -/

/-- every id returned by `pull` is an element of `chosen` (a child of an expanded cell, never the
root) — before the end it is the cell to evaluate, at the end a candidate. -/
theorem pull_returns_chosen (cfg : SkCfg R S) {s s' : StroquOOL α R S} {t : Nat}
    {ds ds' : List (Draw α)} {v : Nat} (hI : Inv s) (hd : DrawsOK s.P ds)
    (h : pull cfg s t ds = .ok (s', ds', v)) :
    v ∈ s'.chosen ∧ 1 ≤ v ∧ v < s'.P.nodes.length := by
  have G := (pull_spec cfg h).2 hI hd
  exact ⟨G.mem, G.inv.mem_chosen.1 G.mem⟩

/-- in the documented loop every id of the history is in the final `chosen`. -/
theorem run_history_chosen (cfg : SkCfg R S) (k : Kind) (domain : Box α)
    (hK : k.arity domain.length = 2) (inputs : List (Nat × R × List (Draw α)))
    (hin : InputsOK k domain.length inputs) {s : StroquOOL α R S} {H : List (Nat × R)}
    {ra : Option Nat} (h : run cfg k domain inputs = .ok (s, H, ra)) :
    ∀ e ∈ H, e.1 ∈ s.chosen := by
  obtain ⟨_, hI, hC⟩ := run_credit cfg k domain hK inputs hin h
  have hp := runRounds_pos cfg k domain hK inputs Reach.init hin (fun _ he => nomatch he) h
  intro e he
  exact hI.mem_chosen.2 ⟨hp e he, hC.valid e he⟩

end general

/-! ## 2. Recommendation (C07) -/

section recommendation

/-- `compute_mean`: the mean is refreshed from the reward list iff the cell has been visited;
nothing else changes. -/
theorem compMean_spec [LE S] [DecidableLE S] (cfg : SkCfg R S) (st : SkSt R S) :
    compMean cfg st = { st with mean := if st.visited > 0 then cfg.meanOf st.rewards else st.mean } := by
  unfold compMean
  split <;> rfl

variable [LinearOrder S]

/-- (C07) **`get_last_point`.**  If `lastPoint cfg s = .ok (s', v)` then `v` is a candidate;
`s'` differs from `s` only by the refreshed `mean` fields of the candidates (`compMean`:
`mean := cfg.meanOf rewards` for those with `visited > 0`); and `v` is the LAST candidate, in
list order, whose refreshed mean is maximal — in particular every candidate's refreshed mean is
`≤` that of `v`.  (Needs a total order: over `Float`, `NaN` means are outside this assumption.) -/
theorem lastPoint_spec (cfg : SkCfg R S) {s s' : StroquOOL α R S} {v : Nat}
    (h : lastPoint cfg s = .ok (s', v)) :
    some v ∈ s.candidate ∧
    s' = { s with P := s'.P } ∧
    s'.P.kind = s.P.kind ∧ s'.P.layers = s.P.layers ∧ s'.P.depth = s.P.depth ∧
    (∀ j : Nat, s'.P.nodes[j]? = (s.P.nodes[j]?).map (fun nd =>
      if some j ∈ s.candidate then { nd with st := compMean cfg nd.st } else nd)) ∧
    IsLastMax (meanAt cfg.negInf s'.P) s.candidate v ∧
    ∀ c, some c ∈ s.candidate → meanAt cfg.negInf s'.P c ≤ meanAt cfg.negInf s'.P v := by
  obtain ⟨_, hp, rfl⟩ := (lastPoint_ok_iff cfg s s' v).1 h
  have hL : IsLastMax (meanAt cfg.negInf (refreshP cfg s.P s.candidate)) s.candidate v :=
    (pickLast_isLastMax _ _ _ hp).congr
      (fun c hc => (meanAt_refreshP cfg s.P s.candidate hc).symm)
  exact ⟨hL.mem, rfl, rfl, rfl, rfl, fun j => getElem?_refreshP cfg s.P s.candidate j, hL,
    fun c hc => hL.le hc⟩

omit [LinearOrder S] in
/-- with no candidates `get_last_point` raises (`max_node` is `None`). -/
theorem lastPoint_nil [LE S] [DecidableLE S] (cfg : SkCfg R S) (s : StroquOOL α R S)
    (h : s.candidate = []) : lastPoint cfg s = .error .noneDeref :=
  SK.lastPoint_nil cfg s h

omit [LinearOrder S] in
/-- a `None` candidate makes `get_last_point` raise. -/
theorem lastPoint_none [LE S] [DecidableLE S] (cfg : SkCfg R S) (s : StroquOOL α R S)
    (hv : ∀ c, some c ∈ s.candidate → c < s.P.nodes.length) (h : none ∈ s.candidate) :
    lastPoint cfg s = .error .noneDeref :=
  SK.lastPoint_none cfg s hv h

/-- (C07, totality) with `negInf` a bottom element, a non-empty list of valid candidates always
yields a recommendation. -/
theorem lastPoint_total (cfg : SkCfg R S) (hbot : ∀ x : S, cfg.negInf ≤ x)
    (s : StroquOOL α R S) (hne : s.candidate ≠ [])
    (hv : ∀ c ∈ s.candidate, ∃ id, c = some id ∧ id < s.P.nodes.length) :
    ∃ s' v, lastPoint cfg s = .ok (s', v) := by
  obtain ⟨c, hc⟩ := List.exists_mem_of_ne_nil _ hne
  obtain ⟨id, rfl, _⟩ := hv c hc
  obtain ⟨v, hv'⟩ := pickLast_isSome (cmean cfg s.P) s.candidate cfg.negInf hbot hc
  exact ⟨_, v, (lastPoint_ok_iff cfg s _ v).2 ⟨hv, hv', rfl⟩⟩

/-- (cross-validation stage) the candidate for the exponent `p` is, among the evaluated cells
(`chosen`) with at least `2^p` evaluations, the LAST one (in creation order) whose stored mean is
maximal (existence: `candidate_some`). -/
theorem candidate_spec (cfg : SkCfg R S) (s : StroquOOL α R S) {p id : Nat}
    (h : candFor cfg s p = some id) :
    id ∈ s.chosen ∧ eligible s.P p id = true ∧
    IsLastMax (meanAt cfg.negInf s.P) (eligibles s p) id ∧
    ∀ c ∈ s.chosen, eligible s.P p c = true →
      meanAt cfg.negInf s.P c ≤ meanAt cfg.negInf s.P id := by
  rw [candFor_eq] at h
  have hL := pickLast_isLastMax _ _ _ h
  have hmem : ∀ c, some c ∈ eligibles s p ↔ c ∈ s.chosen ∧ eligible s.P p c = true := by
    intro c
    simp only [eligibles, List.mem_map]
    constructor
    · rintro ⟨x, hx, e⟩
      by_cases he : eligible s.P p x = true
      · rw [if_pos he] at e
        obtain rfl := Option.some.inj e
        exact ⟨hx, he⟩
      · rw [if_neg he] at e; cases e
    · rintro ⟨h1, h2⟩
      exact ⟨c, h1, by rw [if_pos h2]⟩
  obtain ⟨h1, h2⟩ := (hmem id).1 hL.mem
  exact ⟨h1, h2, hL, fun c hc he => hL.le ((hmem c).2 ⟨hc, he⟩)⟩

/-- with `negInf` a bottom element a candidate exists as soon as some evaluated cell has `2^p`
evaluations (otherwise the entry is `None` and `buildCandidates` raises). -/
theorem candidate_some (cfg : SkCfg R S) (hbot : ∀ x : S, cfg.negInf ≤ x) (s : StroquOOL α R S)
    {p c : Nat} (hc : c ∈ s.chosen) (he : eligible s.P p c = true) :
    ∃ id, candFor cfg s p = some id := by
  rw [candFor_eq]
  apply pickLast_isSome _ _ _ hbot (c := c)
  simp only [eligibles, List.mem_map]
  exact ⟨c, hc, by rw [if_pos he]⟩

omit [LinearOrder S] in
/-- `get_last_point` is idempotent. -/
theorem lastPoint_idem [LE S] [DecidableLE S] (cfg : SkCfg R S) {s s' : StroquOOL α R S}
    {v : Nat} (h : lastPoint cfg s = .ok (s', v)) : lastPoint cfg s' = .ok (s', v) :=
  SK.lastPoint_idem cfg h

end recommendation

end SkProps
end PyXAB

/-! ## 6. Non-vacuity: a concrete run reaching the cross-validation stage and the end
(`Lemmas/SK_Example.lean`: `hmax = 2`, `pmax = 1`, binary partition of `[0, 64]`, rounds
`1, 2, …, 18`) -/

namespace PyXAB
namespace SkProps
open Tree StroquOOL SK SK.Ex

/-- the hypotheses of the run-level theorems hold for the example -/
example : Kind.arity .binary dom.length = 2 := rfl
example : InputsOK .binary dom.length inputs := by decide
example : (after 18).isSome = true := by decide +kernel

/-- hence its final state satisfies `Inv`, `Credit` and all tree clauses -/
example : ∃ s H ra, run cfg .binary dom inputs = .ok (s, H, ra) ∧ Inv s ∧ Credit s H ra ∧
    Clauses s.P := by
  have hsome : (after 18).isSome = true := by decide +kernel
  have htake : inputs.take 18 = inputs := rfl
  unfold after at hsome
  rw [htake] at hsome
  cases h : run cfg .binary dom inputs with
  | error e => rw [h] at hsome; cases hsome
  | ok x =>
    obtain ⟨s, H, ra⟩ := x
    obtain ⟨hR, hI, hC⟩ := run_credit cfg .binary dom rfl inputs (by decide) h
    exact ⟨s, H, ra, rfl, hI, hC, clauses_of_WF hI.wf⟩

/-- exploration: ids returned in rounds 1–12, all recorded with their rewards -/
example : (after 12).map (·.2.1) = some [(1, 3), (1, 5), (2, 6), (2, 8), (3, 2), (3, 4), (4, 9),
    (4, 9), (5, 10), (6, 1), (7, 20), (8, 4)] := by decide +kernel
example : (after 12).map (fun x => (x.1.chosen, x.1.candidate, x.1.currDepth, x.2.2)) =
    some ([1, 2, 3, 4, 5, 6, 7, 8], [], 3, none) := by decide +kernel
/-- before the cross-validation stage cells 4 and 5 hold all their rewards -/
example : stats 12 4 = some (2, [9, 9], 9) ∧ stats 12 5 = some (1, [10], 10) := by decide +kernel

/-- the `pull` of round 13 builds the candidates (`p = 0`: cell 5, one evaluation, mean 10;
`p = 1`: cell 4, two evaluations, mean 9), returns the first one … -/
example : nextPull 12 = some (5, false, [some 5, some 4]) := by decide +kernel
/-- … and empties the candidates' reward lists, keeping `visited` (the documented exception) -/
example : statsNextPull 12 4 = some (2, [], 9) ∧ statsNextPull 12 5 = some (1, [], 10) ∧
    statsNextPull 12 3 = some (2, [2, 4], 3) := by decide +kernel
/-- the ghost `resetAt` records the 12 rounds played so far -/
example : (after 13).map (fun x => (x.1.candidate, x.2.2)) =
    some ([some 5, some 4], some 12) := by decide +kernel

/-- re-evaluation: rounds 13–14 go to cell 5, rounds 15–16 to cell 4 -/
example : (after 16).map (fun x => x.2.1.drop 12) = some [(5, 6), (5, 8), (4, 8), (4, 8)] := by
  decide +kernel
/-- a candidate's `rewards` are those received since the reset, `visited` counts all rounds -/
example : stats 16 4 = some (4, [8, 8], 9) ∧ stats 16 5 = some (3, [6, 8], 10) := by
  decide +kernel

/-- the `pull` of round 17 ends the run and returns the recommendation, cell 4 … -/
example : nextPull 16 = some (4, true, [some 5, some 4]) := by decide +kernel
/-- … whose refreshed mean 8 beats cell 5's 7; the reward of round 17 is ignored -/
example : stats 17 4 = some (4, [8, 8], 8) ∧ stats 17 5 = some (3, [6, 8], 7) := by decide +kernel
example : (after 17).map (fun x => (x.1.ended, x.2.1.length)) = some (true, 16) := by
  decide +kernel
example : recommend 17 = some 4 := by decide +kernel
/-- later `pull`s keep returning it -/
example : nextPull 17 = some (4, true, [some 5, some 4]) := by decide +kernel

/-- **Why `Inv`.**  `Tree.WF` alone is not preserved by `pull`: from the well-formed (but
unreachable) state `badS` — depth 2, a stale `maxNode = some 2` which is a LEAF of depth 1, no
cell of depth 2 evaluated — `pull` succeeds, expands cell 2 with `newlayer = True`, files its
children (depth 2) in a new list `node_list[3]`, and the tree is no longer well-formed. -/
theorem pull_WF_needs_inv :
    WF badS.P ∧ DrawsOK badS.P [⟨0, []⟩] ∧
    ∃ s' ds' v, pull cfg badS 1 [⟨0, []⟩] = .ok (s', ds', v) ∧ ¬ WF s'.P := by
  refine ⟨?_, ?_, ?_⟩
  · obtain ⟨P', h1, h2, _⟩ := ops_WF_from (init_WF .binary dom (st0 cfg)) (st0 cfg)
      [.mk 0 ⟨0, []⟩, .mk 1 ⟨0, []⟩] (by decide)
    have : badS.P = P' := by simp only [badS, badP, h1, getOk]
    exact this ▸ h2
  · unfold DrawsOK; decide
  · have hs : badNext.isSome = true := by decide +kernel
    have hf : badNext.map (fun s => (s.P.layers[3]?, (s.P.nodes[5]?).map (·.depth))) =
        some (some [5, 6], some 2) := by decide +kernel
    unfold badNext at hs hf
    cases h : pull cfg badS 1 [⟨0, []⟩] with
    | error e => rw [h] at hs; cases hs
    | ok x =>
      obtain ⟨s', ds', v⟩ := x
      refine ⟨s', ds', v, rfl, fun W => ?_⟩
      rw [h] at hf
      simp only [Option.map_some, Option.some.injEq, Prod.mk.injEq] at hf
      obtain ⟨h1, h2⟩ := hf
      obtain ⟨nd, n1, n2⟩ := ((W.layers_mem 3 [5, 6] h1).2.2 5).1 (by decide)
      rw [n1] at h2
      simp only [Option.map_some, Option.some.injEq] at h2
      omega

end SkProps
end PyXAB
