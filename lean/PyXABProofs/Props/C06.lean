/-
  Property C06 — "Tree bandits grow only at the pulled leaf, under the published rule"
  (T-HOO, HCT, VHCT), together with the totality of the documented ask/tell loop.

  Setting.  The models `HOO.init/pull/receive`, `HCT.init/pull/receive` (`HCTCfg.variance = true`
  is VHCT) of `PyXABModel/Model/TreeBandit.lean` run on the arena `Part` of C03; every numeric
  formula of the Python code is a field of the configuration record, so the theorems hold for
  all formulas and all reward/score types.  `Spec/TBRun.lean` defines the loop
  (`round`, `runRounds`, `run`), the invariant `Inv` between rounds and the invariant `Ready`
  between a `pull` and the `receive` which follows it.  Draws (the random choices of
  `make_children`) are universally quantified and assumed well-formed (`DrawsOK`): at least one
  per `receive` / `init`.

  (A) `init_total`, `pull_total`, `receive_total`, `runRounds_ok`, `loop_total`.
  (B) `grow_at_most_one`, `grow_shape`, `grow_iff` (HOO: `expandOK (depth last)`; HCT/VHCT:
      leaf ∧ `countGE (count + 1) thr`), `depth_bound`, `internal_reached_threshold`,
      `root_split`, `pull_frame`.
-/
import PyXABProofs.Lemmas.TBA_Effect

set_option linter.unusedSectionVars false

namespace PyXAB
open Tree TBA

/-! ## What `Ready` says about the stored path -/

/-- The stored path is a root-to-cell chain of valid ids ending in `last`. -/
theorem TBA.path_spec {α σ : Type} {P : Part α σ} {path : List Nat} (h : IsPath P path) :
    path.head? = some 0 ∧ (∀ v ∈ path, v < P.nodes.length) ∧
    ∀ (k a b : Nat), path[k]? = some a → path[k + 1]? = some b → Child P a b :=
  h.spec

/-! ## T-HOO -/

namespace HOO
open TBA.HOO
variable {α R S : Type} [Add α] [Sub α] [Mul α] [Div α] [OfNat α 2] [NatCast α]
variable [LE S] [DecidableLE S] [Max S] [Min S] [Inhabited S] [Inhabited R]

/-! ### (A) The ask/tell loop is total -/

/-- `T_HOO.__init__` succeeds given one well-formed draw, establishes the invariant, and has
split the root. -/
theorem init_total (cfg : HOOCfg R S) (k : Kind) (domain : Box α) (ds : List (Draw α))
    (hds : DrawsOK k domain.length ds) :
    ∃ s0 ds', init cfg k domain ds = .ok (s0, ds') ∧ Inv cfg s0 ∧ s0.P.kind = k ∧
      dimn s0.P = domain.length ∧ s0.P.isLeaf 0 = false := by
  obtain ⟨hlen, hok⟩ := hds
  cases ds with
  | nil => simp at hlen
  | cons d ds =>
    obtain ⟨s0, e, hI, h1, h2, h3, _⟩ :=
      init_ok cfg k domain d ds (hok d (List.mem_cons_self ..))
    exact ⟨s0, ds, e, hI, h1, h2, h3⟩

/-- `pull` from an invariant state never raises (in particular the fuel of the descent is
never exhausted); it stores a root-to-leaf path, returns its last element, and changes
nothing else (clause 5). -/
theorem pull_total (cfg : HOOCfg R S) {s : HOO α R S} (hI : Inv cfg s) :
    ∃ s1 path v, pull s = .ok (s1, v) ∧ Ready cfg s1 path v ∧ s1.P = s.P ∧
      s1.iteration = s.iteration := by
  obtain ⟨path, v, e, hR⟩ := pull_ok cfg hI
  exact ⟨_, path, v, e, hR, rfl, rfl⟩

/-- `receive` after a `pull` never raises given well-formed draws, and re-establishes the
invariant. -/
theorem receive_total (cfg : HOOCfg R S) {s : HOO α R S} {path : List Nat} {last : Nat}
    (hR : Ready cfg s path last) (r : R) {ds : List (Draw α)}
    (hds : DrawsOK s.P.kind (dimn s.P) ds) :
    ∃ s' ds', receive cfg s r ds = .ok (s', ds') ∧ Inv cfg s' ∧ s'.P.kind = s.P.kind ∧
      dimn s'.P = dimn s.P := by
  obtain ⟨s', ds', _, _, e, hI, _, _, E⟩ := receive_ok cfg hR r hds
  exact ⟨s', ds', e, hI, E.kind, E.dimn⟩

/-- The loop from any invariant state never raises. -/
theorem runRounds_ok (cfg : HOOCfg R S) {s : HOO α R S} (hI : Inv cfg s)
    (inputs : List (R × List (Draw α))) (hin : InputsOK s.P.kind (dimn s.P) inputs) :
    ∃ s' H, runRounds cfg s inputs = .ok (s', H) ∧ Inv cfg s' ∧
      H.map (·.2) = inputs.map (·.1) := by
  obtain ⟨s', H, e, hI', _, hl, _⟩ := runRounds_induct cfg (fun _ _ => True)
    (fun _ _ _ _ _ _ _ _ _ _ _ _ _ => trivial) inputs s [] hI trivial hin
  exact ⟨s', H, e, hI', hl⟩

/-- **The ask/tell loop of T-HOO is total**: construction followed by any number of rounds
`pull; receive_reward(r)` never raises, whatever the rewards, the formulas of `cfg` and the
(well-formed) random draws. -/
theorem loop_total (cfg : HOOCfg R S) (k : Kind) (domain : Box α) (ds0 : List (Draw α))
    (inputs : List (R × List (Draw α))) (h0 : DrawsOK k domain.length ds0)
    (hin : InputsOK k domain.length inputs) :
    ∃ s H, run cfg k domain ds0 inputs = .ok (s, H) ∧ Inv cfg s ∧
      H.map (·.2) = inputs.map (·.1) := by
  obtain ⟨s0, ds', e0, hI0, hk, hd, _⟩ := init_total cfg k domain ds0 h0
  obtain ⟨s, H, e, hI, hl⟩ := runRounds_ok cfg hI0 inputs (by rw [hk, hd]; exact hin)
  exact ⟨s, H, by simp only [run, e0, e], hI, hl⟩

/-! ### (B) Growth -/

/-- The extensional effect of one `receive` (everything below is read off from it). -/
theorem receive_spec (cfg : HOOCfg R S) {s s' : HOO α R S} {path : List Nat} {last : Nat}
    (hR : Ready cfg s path last) {r : R} {ds ds' : List (Draw α)}
    (hds : DrawsOK s.P.kind (dimn s.P) ds) (hrecv : receive cfg s r ds = .ok (s', ds')) :
    ∃ nd, s.P.nodes[last]? = some nd ∧ Inv cfg s' ∧ 1 ≤ K s.P ∧
      RecvEffect cfg.meanOf none r (st0 cfg) (· ∈ path) s.P s'.P last (cfg.expandOK nd.depth) := by
  obtain ⟨s'', ds'', nd, h1, e, hI, _, _, E⟩ := receive_ok cfg hR r hds
  rw [e] at hrecv
  obtain ⟨rfl, -⟩ : s'' = s' ∧ ds'' = ds' := by simpa using hrecv
  obtain ⟨hlen, hok⟩ := hds
  cases ds with
  | nil => simp at hlen
  | cons d ds => exact ⟨nd, h1, hI, arity_pos_of_drawOK (hok d (List.mem_cons_self ..)), E⟩

/-- Clause 1: the arena grows by `0` or by `K` cells; old cells keep depth/index/parent/box,
and every old cell other than the pulled one keeps its child list. -/
theorem grow_at_most_one (cfg : HOOCfg R S) {s s' : HOO α R S} {path : List Nat} {last : Nat}
    (hR : Ready cfg s path last) {r : R} {ds ds' : List (Draw α)}
    (hds : DrawsOK s.P.kind (dimn s.P) ds) (hrecv : receive cfg s r ds = .ok (s', ds')) :
    (s'.P.nodes.length = s.P.nodes.length ∨ s'.P.nodes.length = s.P.nodes.length + K s.P) ∧
    ∀ (i : Nat) (nd : Node α (TBSt R S)), s.P.nodes[i]? = some nd →
      ∃ nd', s'.P.nodes[i]? = some nd' ∧ nd'.depth = nd.depth ∧ nd'.index = nd.index ∧
        nd'.parent = nd.parent ∧ nd'.box = nd.box ∧ (i ≠ last → nd'.children = nd.children) := by
  obtain ⟨_, _, _, _, E⟩ := receive_spec cfg hR hds hrecv
  exact ⟨E.len_cases, E.frame⟩

/-- Clause 2: if the arena grew, the pulled cell was a leaf, the new ids are exactly its child
list, and every new cell is a leaf one level below it with parent `last` and payload `st0`. -/
theorem grow_shape (cfg : HOOCfg R S) {s s' : HOO α R S} {path : List Nat} {last : Nat}
    (hR : Ready cfg s path last) {r : R} {ds ds' : List (Draw α)}
    (hds : DrawsOK s.P.kind (dimn s.P) ds) (hrecv : receive cfg s r ds = .ok (s', ds'))
    (hg : s.P.nodes.length < s'.P.nodes.length) :
    s.P.isLeaf last = true ∧ s'.P.nodes.length = s.P.nodes.length + K s.P ∧
    ∃ ln ln' cs, s.P.nodes[last]? = some ln ∧ s'.P.nodes[last]? = some ln' ∧
      ln'.children = some cs ∧
      (∀ i, i ∈ cs ↔ s.P.nodes.length ≤ i ∧ i < s'.P.nodes.length) ∧
      ∀ i, i ∈ cs → ∃ cn, s'.P.nodes[i]? = some cn ∧ cn.parent = some last ∧
        cn.children = none ∧ cn.depth = ln.depth + 1 ∧ cn.st = st0 cfg := by
  obtain ⟨_, _, _, hK, E⟩ := receive_spec cfg hR hds hrecv
  exact E.shape ((E.grew_iff hK).1 hg)

/-- Clause 3 (the T-HOO rule): the arena grew iff `expandOK (depth of the pulled leaf)`. -/
theorem grow_iff (cfg : HOOCfg R S) {s s' : HOO α R S} {path : List Nat} {last : Nat}
    (hR : Ready cfg s path last) {r : R} {ds ds' : List (Draw α)}
    (hds : DrawsOK s.P.kind (dimn s.P) ds) (hrecv : receive cfg s r ds = .ok (s', ds'))
    {nd : Node α (TBSt R S)} (hnd : s.P.nodes[last]? = some nd) :
    s.P.nodes.length < s'.P.nodes.length ↔ cfg.expandOK nd.depth = true := by
  obtain ⟨nd', h1, _, hK, E⟩ := receive_spec cfg hR hds hrecv
  obtain rfl := getElem?_inj h1 hnd
  exact E.grew_iff hK

/-- Corollary of clause 3: with the rule `depth ≤ D`, no cell is ever deeper than
`max 1 (D + 1)` (the root is always split once at construction). -/
theorem depth_bound (cfg : HOOCfg R S) (D : Nat) (hE : cfg.expandOK = fun d => decide (d ≤ D))
    (k : Kind) (domain : Box α) (ds0 : List (Draw α)) (inputs : List (R × List (Draw α)))
    (h0 : DrawsOK k domain.length ds0) (hin : InputsOK k domain.length inputs)
    {s : HOO α R S} {H : List (Nat × R)} (hrun : run cfg k domain ds0 inputs = .ok (s, H)) :
    ∀ (i : Nat) (nd : Node α (TBSt R S)), s.P.nodes[i]? = some nd → nd.depth ≤ max 1 (D + 1) := by
  obtain ⟨hlen, hok⟩ := h0
  cases ds0 with
  | nil => simp at hlen
  | cons d ds0 =>
    obtain ⟨s0, e0, hI0, hk, hd, _, _, _, hdep⟩ :=
      init_ok cfg k domain d ds0 (hok d (List.mem_cons_self ..))
    obtain ⟨s', H', e, _, hJ, _⟩ := runRounds_induct cfg
      (fun s _ => ∀ (i : Nat) (nd : Node α (TBSt R S)), s.P.nodes[i]? = some nd →
        nd.depth ≤ max 1 (D + 1))
      (fun s s' _ _ _ v nd _ hJ _ hv _ E i nd' hi => by
        rcases E.cases_node hi with ⟨x, x1, x2, _⟩ | ⟨g, _, ln, l1, l2, _⟩
        · rw [x2]; exact hJ i x x1
        · obtain rfl := getElem?_inj l1 hv
          rw [hE] at g
          have : ln.depth ≤ D := by simpa using g
          rw [l2]; omega)
      inputs s0 [] hI0 (fun i nd hi => by have := (hdep i nd hi).2; omega)
      (by rw [hk, hd]; exact hin)
    simp only [run, e0, e] at hrun
    obtain ⟨rfl, -⟩ : s' = s ∧ H' = H := by simpa using hrun
    exact hJ

/-- Clause 5: `pull` only stores the path. -/
theorem pull_frame {s s1 : HOO α R S} {v : Nat} (h : pull s = .ok (s1, v)) :
    s1.P = s.P ∧ s1.iteration = s.iteration := by
  unfold pull at h
  cases hd : descend s.P (fun _ => Except.ok true) (s.P.nodes.length + 1) 0 [0] with
  | error e => simp [hd, bind, Except.bind] at h
  | ok p =>
    simp only [hd, bind, Except.bind] at h
    cases hl : p.getLast? with
    | none => simp [hl] at h
    | some w =>
      simp only [hl, pure, Except.pure, Except.ok.injEq, Prod.mk.injEq] at h
      obtain ⟨rfl, _⟩ := h
      exact ⟨rfl, rfl⟩

end HOO

/-! ## HCT / VHCT -/

namespace HCT
open TBA.HCT
variable {α R S : Type} [Add α] [Sub α] [Mul α] [Div α] [OfNat α 2] [NatCast α]
variable [LE S] [DecidableLE S] [Max S] [Min S] [Inhabited S] [Inhabited R]

/-! ### (A) The ask/tell loop is total -/

theorem init_total (cfg : HCTCfg R S) (k : Kind) (domain : Box α) (ds : List (Draw α))
    (hds : DrawsOK k domain.length ds) :
    ∃ s0 ds', init cfg k domain ds = .ok (s0, ds') ∧ Inv cfg s0 ∧ s0.P.kind = k ∧
      dimn s0.P = domain.length ∧ s0.P.isLeaf 0 = false := by
  obtain ⟨hlen, hok⟩ := hds
  cases ds with
  | nil => simp at hlen
  | cons d ds =>
    obtain ⟨s0, e, hI, h1, h2, h3, _⟩ :=
      init_ok cfg k domain d ds (hok d (List.mem_cons_self ..))
    exact ⟨s0, ds, e, hI, h1, h2, h3⟩

/-- `pull` from an invariant state never raises; it stores a root-to-cell path and returns its
last element.  Clause 5: the tree skeleton (kind, layers, depth, every cell's
depth/index/parent/children/box) and every `count/rewards/mean/u/b/var` are unchanged — only
`tau_h` (HCT) and the cells' `tau` (VHCT) are rewritten. -/
theorem pull_total (cfg : HCTCfg R S) {s : HCT α R S} (hI : Inv cfg s) :
    ∃ s1 path v, pull cfg s = .ok (s1, v) ∧ Ready cfg s1 path v ∧
      s1.iteration = s.iteration ∧ (cfg.variance = false → s1.P = s.P) ∧
      s1.P.kind = s.P.kind ∧ s1.P.layers = s.P.layers ∧ s1.P.depth = s.P.depth ∧
      s1.P.nodes.length = s.P.nodes.length ∧
      ∀ (i : Nat) (nd : Node α (TBSt R S)), s.P.nodes[i]? = some nd →
        ∃ nd', s1.P.nodes[i]? = some nd' ∧ nd'.depth = nd.depth ∧ nd'.index = nd.index ∧
          nd'.parent = nd.parent ∧ nd'.children = nd.children ∧ nd'.box = nd.box ∧
          nd'.st.count = nd.st.count ∧ nd'.st.rewards = nd.st.rewards ∧
          nd'.st.mean = nd.st.mean ∧ nd'.st.u = nd.st.u ∧ nd'.st.b = nd.st.b ∧
          nd'.st.var = nd.st.var := by
  obtain ⟨s1, path, v, e, hR, hT, hit, hP, _⟩ := pull_ok cfg hI
  refine ⟨s1, path, v, e, hR, hit, hP, hT.kind, hT.layers, hT.depth, hT.len, fun i nd hi => ?_⟩
  obtain ⟨nd', n1, n2, n3⟩ := hT.node i nd hi
  exact ⟨nd', n1, n2.depth, n2.index, n2.parent, n2.children, n2.box, n3⟩

/-- Clause 5 in hypothesis form. -/
theorem pull_frame (cfg : HCTCfg R S) {s s1 : HCT α R S} {v : Nat} (hI : Inv cfg s)
    (h : pull cfg s = .ok (s1, v)) :
    s1.iteration = s.iteration ∧ (cfg.variance = false → s1.P = s.P) ∧
      s1.P.kind = s.P.kind ∧ s1.P.layers = s.P.layers ∧ s1.P.depth = s.P.depth ∧
      s1.P.nodes.length = s.P.nodes.length ∧
      ∀ (i : Nat) (nd : Node α (TBSt R S)), s.P.nodes[i]? = some nd →
        ∃ nd', s1.P.nodes[i]? = some nd' ∧ nd'.depth = nd.depth ∧ nd'.index = nd.index ∧
          nd'.parent = nd.parent ∧ nd'.children = nd.children ∧ nd'.box = nd.box ∧
          nd'.st.count = nd.st.count ∧ nd'.st.rewards = nd.st.rewards ∧
          nd'.st.mean = nd.st.mean ∧ nd'.st.u = nd.st.u ∧ nd'.st.b = nd.st.b ∧
          nd'.st.var = nd.st.var := by
  obtain ⟨s1', _, v', e, _, h1, h2, h3⟩ := pull_total cfg hI
  rw [e] at h
  obtain ⟨rfl, -⟩ : s1' = s1 ∧ v' = v := by simpa using h
  exact ⟨h1, h2, h3⟩

theorem receive_total (cfg : HCTCfg R S) {s : HCT α R S} {path : List Nat} {last : Nat}
    (hR : Ready cfg s path last) (r : R) {ds : List (Draw α)}
    (hds : DrawsOK s.P.kind (dimn s.P) ds) :
    ∃ s' ds', receive cfg s r ds = .ok (s', ds') ∧ Inv cfg s' ∧ s'.P.kind = s.P.kind ∧
      dimn s'.P = dimn s.P := by
  obtain ⟨s', ds', _, _, _, _, _, e, hI, _, _, _, E⟩ := receive_ok cfg hR r hds
  exact ⟨s', ds', e, hI, E.kind, E.dimn⟩

theorem runRounds_ok (cfg : HCTCfg R S) {s : HCT α R S} (hI : Inv cfg s)
    (inputs : List (R × List (Draw α))) (hin : InputsOK s.P.kind (dimn s.P) inputs) :
    ∃ s' H, runRounds cfg s inputs = .ok (s', H) ∧ Inv cfg s' ∧
      H.map (·.2) = inputs.map (·.1) := by
  obtain ⟨s', H, e, hI', _, hl, _⟩ := runRounds_induct cfg (fun _ _ => True)
    (fun _ _ _ _ _ _ _ _ _ _ _ _ _ _ _ _ => trivial) inputs s [] hI trivial hin
  exact ⟨s', H, e, hI', hl⟩

/-- **The ask/tell loop of HCT and VHCT is total.** -/
theorem loop_total (cfg : HCTCfg R S) (k : Kind) (domain : Box α) (ds0 : List (Draw α))
    (inputs : List (R × List (Draw α))) (h0 : DrawsOK k domain.length ds0)
    (hin : InputsOK k domain.length inputs) :
    ∃ s H, run cfg k domain ds0 inputs = .ok (s, H) ∧ Inv cfg s ∧
      H.map (·.2) = inputs.map (·.1) := by
  obtain ⟨s0, ds', e0, hI0, hk, hd, _⟩ := init_total cfg k domain ds0 h0
  obtain ⟨s, H, e, hI, hl⟩ := runRounds_ok cfg hI0 inputs (by rw [hk, hd]; exact hin)
  exact ⟨s, H, by simp only [run, e0, e], hI, hl⟩

/-! ### (B) Growth -/

/-- The extensional effect of one `receive`. -/
theorem receive_spec (cfg : HCTCfg R S) {s s' : HCT α R S} {path : List Nat} {last : Nat}
    (hR : Ready cfg s path last) {r : R} {ds ds' : List (Draw α)}
    (hds : DrawsOK s.P.kind (dimn s.P) ds) (hrecv : receive cfg s r ds = .ok (s', ds')) :
    ∃ nd thr, s.P.nodes[last]? = some nd ∧ IsThr cfg s nd thr ∧ Inv cfg s' ∧ 1 ≤ K s.P ∧
      RecvEffect cfg.meanOf (voOf cfg) r (st0 cfg) (· = last) s.P s'.P last
        (nd.children.isNone && cfg.countGE (nd.st.count + 1) thr) := by
  obtain ⟨s'', ds'', nd, thr, h1, t1, t2, e, hI, _, _, _, E⟩ := receive_ok cfg hR r hds
  rw [e] at hrecv
  obtain ⟨rfl, -⟩ : s'' = s' ∧ ds'' = ds' := by simpa using hrecv
  obtain ⟨hlen, hok⟩ := hds
  cases ds with
  | nil => simp at hlen
  | cons d ds =>
    exact ⟨nd, thr, h1, ⟨t1, t2⟩, hI, arity_pos_of_drawOK (hok d (List.mem_cons_self ..)), E⟩

/-- Clause 1. -/
theorem grow_at_most_one (cfg : HCTCfg R S) {s s' : HCT α R S} {path : List Nat} {last : Nat}
    (hR : Ready cfg s path last) {r : R} {ds ds' : List (Draw α)}
    (hds : DrawsOK s.P.kind (dimn s.P) ds) (hrecv : receive cfg s r ds = .ok (s', ds')) :
    (s'.P.nodes.length = s.P.nodes.length ∨ s'.P.nodes.length = s.P.nodes.length + K s.P) ∧
    ∀ (i : Nat) (nd : Node α (TBSt R S)), s.P.nodes[i]? = some nd →
      ∃ nd', s'.P.nodes[i]? = some nd' ∧ nd'.depth = nd.depth ∧ nd'.index = nd.index ∧
        nd'.parent = nd.parent ∧ nd'.box = nd.box ∧ (i ≠ last → nd'.children = nd.children) := by
  obtain ⟨_, _, _, _, _, _, E⟩ := receive_spec cfg hR hds hrecv
  exact ⟨E.len_cases, E.frame⟩

/-- Clause 2. -/
theorem grow_shape (cfg : HCTCfg R S) {s s' : HCT α R S} {path : List Nat} {last : Nat}
    (hR : Ready cfg s path last) {r : R} {ds ds' : List (Draw α)}
    (hds : DrawsOK s.P.kind (dimn s.P) ds) (hrecv : receive cfg s r ds = .ok (s', ds'))
    (hg : s.P.nodes.length < s'.P.nodes.length) :
    s.P.isLeaf last = true ∧ s'.P.nodes.length = s.P.nodes.length + K s.P ∧
    ∃ ln ln' cs, s.P.nodes[last]? = some ln ∧ s'.P.nodes[last]? = some ln' ∧
      ln'.children = some cs ∧
      (∀ i, i ∈ cs ↔ s.P.nodes.length ≤ i ∧ i < s'.P.nodes.length) ∧
      ∀ i, i ∈ cs → ∃ cn, s'.P.nodes[i]? = some cn ∧ cn.parent = some last ∧
        cn.children = none ∧ cn.depth = ln.depth + 1 ∧ cn.st = st0 cfg := by
  obtain ⟨_, _, _, _, _, hK, E⟩ := receive_spec cfg hR hds hrecv
  exact E.shape ((E.grew_iff hK).1 hg)

/-- Clause 4 (the HCT/VHCT rule): the arena grew iff the pulled cell was a leaf and its count
after crediting this reward (`nd'.st.count = nd.st.count + 1`) reaches the threshold. -/
theorem grow_iff (cfg : HCTCfg R S) {s s' : HCT α R S} {path : List Nat} {last : Nat}
    (hR : Ready cfg s path last) {r : R} {ds ds' : List (Draw α)}
    (hds : DrawsOK s.P.kind (dimn s.P) ds) (hrecv : receive cfg s r ds = .ok (s', ds')) :
    ∃ nd nd' thr, s.P.nodes[last]? = some nd ∧ s'.P.nodes[last]? = some nd' ∧
      nd'.st.count = nd.st.count + 1 ∧ IsThr cfg s nd thr ∧
      (s.P.nodes.length < s'.P.nodes.length ↔
        (s.P.isLeaf last = true ∧ cfg.countGE nd'.st.count thr = true)) := by
  obtain ⟨nd, thr, h1, ht, _, hK, E⟩ := receive_spec cfg hR hds hrecv
  obtain ⟨nd', n1, _, _, _, _, _, _, n8, _⟩ := E.old last nd h1
  have hc := (n8 rfl).1
  refine ⟨nd, nd', thr, h1, n1, hc, ht, ?_⟩
  rw [E.grew_iff hK, Bool.and_eq_true, hc]
  simp [Part.isLeaf, h1]

/-- Corollary of clause 4: a cell which is internal after the `receive` but was a leaf before
is the pulled cell, and it had reached its threshold. -/
theorem internal_reached_threshold (cfg : HCTCfg R S) {s s' : HCT α R S} {path : List Nat}
    {last : Nat} (hR : Ready cfg s path last) {r : R} {ds ds' : List (Draw α)}
    (hds : DrawsOK s.P.kind (dimn s.P) ds) (hrecv : receive cfg s r ds = .ok (s', ds'))
    {i : Nat} (h1 : s.P.isLeaf i = true) (h2 : s'.P.isLeaf i = false) :
    i = last ∧ ∃ nd thr, s.P.nodes[i]? = some nd ∧ IsThr cfg s nd thr ∧
      cfg.countGE (nd.st.count + 1) thr = true := by
  obtain ⟨nd, thr, n1, ht, _, _, E⟩ := receive_spec cfg hR hds hrecv
  obtain ⟨rfl, hg⟩ := E.new_internal h1 h2
  rw [Bool.and_eq_true] at hg
  exact ⟨rfl, nd, thr, n1, ht, hg.2⟩

/-- The root is split at construction. -/
theorem root_split (cfg : HCTCfg R S) (k : Kind) (domain : Box α) (ds : List (Draw α))
    (hds : DrawsOK k domain.length ds) {s0 : HCT α R S} {ds' : List (Draw α)}
    (h : init cfg k domain ds = .ok (s0, ds')) : s0.P.isLeaf 0 = false := by
  obtain ⟨s0', ds'', e, _, _, _, hl⟩ := init_total cfg k domain ds hds
  rw [e] at h
  obtain ⟨rfl, -⟩ : s0' = s0 ∧ ds'' = ds' := by simpa using h
  exact hl

end HCT

theorem HOO.root_split {α R S : Type} [Add α] [Sub α] [Mul α] [Div α] [OfNat α 2] [NatCast α]
    [LE S] [DecidableLE S] [Max S] [Min S] [Inhabited S] [Inhabited R]
    (cfg : HOOCfg R S) (k : Kind) (domain : Box α) (ds : List (Draw α))
    (hds : DrawsOK k domain.length ds) {s0 : HOO α R S} {ds' : List (Draw α)}
    (h : HOO.init cfg k domain ds = .ok (s0, ds')) : s0.P.isLeaf 0 = false := by
  obtain ⟨s0', ds'', e, _, _, _, hl⟩ := HOO.init_total cfg k domain ds hds
  rw [e] at h
  obtain ⟨rfl, -⟩ : s0' = s0 ∧ ds'' = ds' := by simpa using h
  exact hl

end PyXAB
