/-
  Property group C14: "Runs are reproducible, instances are isolated, user inputs are not
  mutated."

  * Reproducibility.  The models are pure functions of (state, inputs, recorded random draws):
    `pull`, `receive`, `init` are Lean functions, so two runs on the same inputs and the same
    draws return *equal* results.  This holds by construction and needs no theorem (`rfl`).
  * Isolation.  Proved generically for ANY two state machines: in the product machine driven by
    an arbitrary interleaving of tagged operations, every component behaves exactly as if it
    ran alone on the sub-sequence of its own operations (success case, converse, failing case).
    Instantiated for two T-HOO instances (different reward / score types allowed).
  * Inputs are not mutated.  The `domain : Box α` argument is an immutable value; its
    model-level trace is the box of the root node: `Part.init` stores it there and no
    operation ever changes the box of an existing node (`BoxesKept`), hence the root box of
    every later state is still `domain`.

  Vocabulary: `Spec/RelSpec.lean`; helper lemmas: `Lemmas/RL_*.lean`.
-/
import PyXABProofs.Lemmas.RL_Runs

namespace PyXAB.C14
open Rel RL
set_option linter.unusedSectionVars false

/-! ## Isolation of instances (generic) -/
section isolation
variable {σ₁ σ₂ ι₁ ι₂ ο₁ ο₂ ε : Type}
variable (step₁ : σ₁ → ι₁ → Except ε (σ₁ × ο₁)) (step₂ : σ₂ → ι₂ → Except ε (σ₂ × ο₂))

/-- If the interleaved run succeeds, then `proj_i (runPair l) = run_i (l|_i)`: each component of
the final state and each sub-sequence of the outputs is exactly what that instance produces
when run alone on the sub-sequence of its own operations. -/
theorem isolation_ok (l : List (ι₁ ⊕ ι₂)) (s₁ : σ₁) (s₂ : σ₂) (t₁ : σ₁) (t₂ : σ₂)
    (os : List (ο₁ ⊕ ο₂)) (h : runM (stepPair step₁ step₂) (s₁, s₂) l = .ok ((t₁, t₂), os)) :
    runM step₁ s₁ (lefts l) = .ok (t₁, lefts os) ∧ runM step₂ s₂ (rights l) = .ok (t₂, rights os) :=
  runPair_ok step₁ step₂ l s₁ s₂ t₁ t₂ os h

/-- Conversely, if both solo runs succeed then every interleaving succeeds, with these final
states and these outputs. -/
theorem isolation_of_solo (l : List (ι₁ ⊕ ι₂)) (s₁ : σ₁) (s₂ : σ₂) (t₁ : σ₁) (t₂ : σ₂)
    (o₁ : List ο₁) (o₂ : List ο₂) (h₁ : runM step₁ s₁ (lefts l) = .ok (t₁, o₁))
    (h₂ : runM step₂ s₂ (rights l) = .ok (t₂, o₂)) :
    ∃ os, runM (stepPair step₁ step₂) (s₁, s₂) l = .ok ((t₁, t₂), os) ∧
      lefts os = o₁ ∧ rights os = o₂ :=
  runPair_of_solo step₁ step₂ l s₁ s₂ t₁ t₂ o₁ o₂ h₁ h₂

/-- Failing case: the interleaved run stops at a first failing operation `x`; up to there both
instances behaved as in their solo runs, the failure is the failure of the instance that owns
`x` in the state its solo run has reached, and that instance's solo run on its whole
sub-sequence fails with the same exception. -/
theorem isolation_error (l : List (ι₁ ⊕ ι₂)) (s₁ : σ₁) (s₂ : σ₂) (e : ε)
    (h : runM (stepPair step₁ step₂) (s₁, s₂) l = .error e) :
    ∃ pre x post t₁ t₂ os, l = pre ++ x :: post ∧
      runM (stepPair step₁ step₂) (s₁, s₂) pre = .ok ((t₁, t₂), os) ∧
      runM step₁ s₁ (lefts pre) = .ok (t₁, lefts os) ∧
      runM step₂ s₂ (rights pre) = .ok (t₂, rights os) ∧
      (match x with
       | .inl i => step₁ t₁ i = .error e ∧ runM step₁ s₁ (lefts l) = .error e
       | .inr i => step₂ t₂ i = .error e ∧ runM step₂ s₂ (rights l) = .error e) :=
  runPair_error step₁ step₂ l s₁ s₂ e h

theorem isolation_error_solo (l : List (ι₁ ⊕ ι₂)) (s₁ : σ₁) (s₂ : σ₂) (e : ε)
    (h : runM (stepPair step₁ step₂) (s₁, s₂) l = .error e) :
    runM step₁ s₁ (lefts l) = .error e ∨ runM step₂ s₂ (rights l) = .error e :=
  runPair_error_solo step₁ step₂ l s₁ s₂ e h

end isolation

/-! ## Isolation of two T-HOO instances -/
section hoo
variable {α α' R R' S S' : Type}
variable [Add α] [Sub α] [Mul α] [Div α] [OfNat α 2] [NatCast α]
variable [Add α'] [Sub α'] [Mul α'] [Div α'] [OfNat α' 2] [NatCast α']
variable [LE S] [DecidableLE S] [Max S] [Min S] [Inhabited S] [Inhabited R]
variable [LE S'] [DecidableLE S'] [Max S'] [Min S'] [Inhabited S'] [Inhabited R']

/-- Two T-HOO instances (possibly with different configurations, domains, reward and score
types) driven by any interleaving of `pull` / `receive_reward` calls: each one ends in the
state, and has returned the cells, of its own solo run. -/
theorem HOO_instances_isolated (cfg : HOOCfg R S) (cfg' : HOOCfg R' S') (s : HOO α R S)
    (s' : HOO α' R' S') (ops : List (TBOp α R ⊕ TBOp α' R')) (t : HOO α R S) (t' : HOO α' R' S')
    (os : List (Option Nat ⊕ Option Nat))
    (h : runM (stepPair (hooOp cfg) (hooOp cfg')) (s, s') ops = .ok ((t, t'), os)) :
    runM (hooOp cfg) s (lefts ops) = .ok (t, lefts os) ∧
      runM (hooOp cfg') s' (rights ops) = .ok (t', rights os) :=
  runPair_ok _ _ ops s s' t t' os h

end hoo

/-! ### a concrete interleaving (evaluated by the kernel) -/

def exCfg : HOOCfg Nat Nat where
  inf := 1000
  negInf := 0
  mean0 := 0
  meanOf := fun rs n => rs.sum / n
  uOf := fun m c d => m + 10 / c + (4 - d)
  expandOK := fun d => decide (d ≤ 2)

def exCfg' : HOOCfg Nat Nat := { exCfg with uOf := fun m c _ => m + 20 / c }

def exD : Draw Nat := ⟨0, []⟩

/-- initial state on the domain `[0, hi]` -/
def exInit (cfg : HOOCfg Nat Nat) (hi : Nat) : HOO Nat Nat Nat :=
  match HOO.init cfg .binary [⟨0, hi⟩] [exD] with
  | .ok (s, _) => s
  | .error _ => ⟨Part.init .binary [⟨0, hi⟩] (HOO.st0 cfg), 0, none⟩

def exOps : List (TBOp Nat Nat ⊕ TBOp Nat Nat) :=
  [.inl .pull, .inr .pull, .inr (.receive 2 [exD]), .inl (.receive 7 [exD]), .inl .pull,
   .inl (.receive 1 [exD]), .inr .pull, .inl .pull, .inr (.receive 9 [exD]), .inr .pull]

/-- the interleaved run succeeds: the hypothesis of `HOO_instances_isolated` is satisfiable -/
example : (outs (runM (stepPair (hooOp exCfg) (hooOp exCfg')) (exInit exCfg 16, exInit exCfg' 64)
    exOps)).toOption.map List.length = some 10 := by decide +kernel

/-- and (evaluated independently of the theorem) the outputs of instance 1 inside the interleaving
are those of its solo run -/
example : (outs (runM (stepPair (hooOp exCfg) (hooOp exCfg')) (exInit exCfg 16, exInit exCfg' 64)
      exOps)).toOption.map lefts =
    (outs (runM (hooOp exCfg) (exInit exCfg 16) (lefts exOps))).toOption := by decide +kernel

def exBad : List (TBOp Nat Nat ⊕ TBOp Nat Nat) :=
  [.inl .pull, .inr (.receive 2 [exD]), .inl .pull]

/-- a failing interleaving: instance 2 calls `receive_reward` before any `pull`; its solo run fails
with the same exception -/
example : (match runM (stepPair (hooOp exCfg) (hooOp exCfg')) (exInit exCfg 16, exInit exCfg' 64) exBad with
      | .error e => some e | .ok _ => none) = some .noneDeref ∧
    (match runM (hooOp exCfg') (exInit exCfg' 64) (rights exBad) with
      | .error e => some e | .ok _ => none) = some .noneDeref := by
  decide +kernel

/-! ## The user's `domain` is never modified -/
section domain
variable {α σ : Type}

/-- `Partition.__init__` stores `domain` as the root box. -/
theorem init_rootBox (k : Kind) (domain : Box α) (s0 : σ) :
    rootBox (Part.init k domain s0) = some domain := rfl

/-- boxes of existing cells are kept ⇒ the root box is kept -/
theorem rootBox_of_boxesKept {P P' : Part α σ} (h : BoxesKept P P') {b : Box α}
    (hb : rootBox P = some b) : rootBox P' = some b :=
  boxesKept_rootBox h hb

variable [Add α] [Sub α] [Mul α] [Div α] [OfNat α 2] [NatCast α]

/-- the partition operations never change the box of an existing cell -/
theorem partition_ops_keep_boxes (P P' : Part α σ) (s0 : σ) (ds ds' : List (Draw α)) :
    (∀ p nl d, P.makeChildren s0 p nl d = .ok P' → BoxesKept P P') ∧
      (∀ p, P.expand s0 p ds = .ok (P', ds') → BoxesKept P P') ∧
      (P.deepen s0 ds = .ok (P', ds') → BoxesKept P P') ∧
      (∀ i (f : σ → σ), BoxesKept P (P.modifySt i f)) :=
  ⟨fun p nl d h => boxesKept_makeChildren P P' s0 p nl d h,
   fun p h => boxesKept_expand P P' s0 p ds ds' h,
   fun h => boxesKept_deepen P P' s0 ds ds' h,
   fun i f => boxesKept_modifySt P i f⟩

variable {R S : Type} [LE S] [DecidableLE S] [Max S] [Min S] [Inhabited S] [Inhabited R]

/-- T-HOO: after `__init__` the root box is `domain` … -/
theorem HOO_init_rootBox (cfg : HOOCfg R S) (k : Kind) (domain : Box α) {ds ds' : List (Draw α)}
    {s : HOO α R S} (h : HOO.init cfg k domain ds = .ok (s, ds')) : rootBox s.P = some domain :=
  hoo_init_rootBox cfg k domain h

/-- … no sequence of `pull` / `receive_reward` calls (in any order) changes the box of any
existing cell … -/
theorem HOO_ops_keep_boxes (cfg : HOOCfg R S) (ops : List (TBOp α R)) (s s1 : HOO α R S)
    (os : List (Option Nat)) (h : runM (hooOp cfg) s ops = .ok (s1, os)) : BoxesKept s.P s1.P :=
  hoo_ops_boxesKept cfg ops s s1 os h

/-- … hence the root box of every state of a run is still the user's `domain`. -/
theorem HOO_run_rootBox (cfg : HOOCfg R S) (k : Kind) (domain : Box α) (ds0 : List (Draw α))
    (inputs : List (R × List (Draw α))) {s : HOO α R S} {H : List (Nat × R)}
    (h : HOO.run cfg k domain ds0 inputs = .ok (s, H)) : rootBox s.P = some domain :=
  hoo_run_rootBox cfg k domain ds0 inputs h

theorem HOO_ops_rootBox (cfg : HOOCfg R S) (k : Kind) (domain : Box α) {ds ds' : List (Draw α)}
    {s0 : HOO α R S} (h0 : HOO.init cfg k domain ds = .ok (s0, ds')) (ops : List (TBOp α R))
    (s1 : HOO α R S) (os : List (Option Nat)) (h : runM (hooOp cfg) s0 ops = .ok (s1, os)) :
    rootBox s1.P = some domain :=
  boxesKept_rootBox (hoo_ops_boxesKept cfg ops s0 s1 os h) (hoo_init_rootBox cfg k domain h0)

end domain

end PyXAB.C14
