/- placeholder index until the relational development is merged -/
import PyXABProofs.Props.C06
