import PyXABModel.Model.Box
namespace PyXAB
/-- placeholder until the geometry development is merged -/
theorem C02_placeholder : (mid (1 : Nat) 3) = 2 := by decide
end PyXAB
