/-
  Property group C02: geometry of the five PyXAB partition classes.

  All theorems are about the executable model `PyXABModel/Model/Box.lean`, instantiated at an
  arbitrary linearly ordered field `α` (the model only asks for the notation classes, which the
  field supplies).  Vocabulary (`Box.Mem`, `Tiles`, `Mono`, `DrawOK`, ...) is defined in
  `PyXABProofs/Spec/Geometry.lean`; helper lemmas are in `PyXABProofs/Lemmas/`.

  Boundary lists are written `lo :: (pts ++ [hi])`, the form used by the model (this is the same
  list as `lo :: pts ++ [hi]`).
-/
import PyXABProofs.Lemmas.Geometry
import Mathlib.Algebra.Order.Field.Rat
import Mathlib.Tactic.NormNum.Basic

namespace PyXAB.C02
open List ListAux

/-! ## 2. faces of a single-dimension split (no order structure needed) -/
section faces
variable {α : Type}

/-- Child `j` of `splitChain b dim pts` is `b` with interval `dim` replaced by
`[L[j], L[j+1]]`, where `L = b[dim].lo :: pts ++ [b[dim].hi]` is the boundary list. -/
theorem splitChain_child (b : Box α) (dim : Nat) (pts : List α) (hd : dim < b.length)
    (j : Nat) (hj : j < pts.length + 1) :
    (splitChain b dim pts)[j]? = some (b.set dim
      ⟨(b[dim].lo :: (pts ++ [b[dim].hi]))[j]'(by simp; omega),
       (b[dim].lo :: (pts ++ [b[dim].hi]))[j + 1]'(by simp; omega)⟩) :=
  splitChain_getElem? b pts hd (getElem?_eq_getElem _) (getElem?_eq_getElem _)

/-- (a) consecutive children share a face: `child_j[dim].hi = child_{j+1}[dim].lo` (the same
element of the boundary list); (b) the first child starts at the parent's `lo`; (c) the last
child ends at the parent's `hi`; (d) every child has the parent's dimension and the parent's
interval in every dimension other than `dim`. -/
theorem splitChain_faces (b : Box α) (dim : Nat) (pts : List α) (hd : dim < b.length) :
    (∀ j c c', (splitChain b dim pts)[j]? = some c → (splitChain b dim pts)[j + 1]? = some c' →
        ∃ (h : dim < c.length) (h' : dim < c'.length), c[dim].hi = c'[dim].lo) ∧
    (∀ c, (splitChain b dim pts)[0]? = some c →
        ∃ h : dim < c.length, c[dim].lo = b[dim].lo) ∧
    (∀ c, (splitChain b dim pts)[pts.length]? = some c →
        ∃ h : dim < c.length, c[dim].hi = b[dim].hi) ∧
    (∀ c ∈ splitChain b dim pts, c.length = b.length ∧ ∀ k, k ≠ dim → c[k]? = b[k]?) := by
  have hlen : ∀ iv : Iv α, dim < (b.set dim iv).length := fun iv => by
    rw [length_set]; exact hd
  refine ⟨?_, ?_, ?_, ?_⟩
  · intro j c c' hc hc'
    obtain ⟨iv, rfl, _, h2⟩ := splitChain_getElem?_inv b pts hd hc
    obtain ⟨iv', rfl, h1', _⟩ := splitChain_getElem?_inv b pts hd hc'
    refine ⟨hlen iv, hlen iv', ?_⟩
    rw [getElem_set_self, getElem_set_self]
    rw [h2] at h1'
    exact Option.some.inj h1'
  · intro c hc
    obtain ⟨iv, rfl, h1, _⟩ := splitChain_getElem?_inv b pts hd hc
    refine ⟨hlen iv, ?_⟩
    rw [getElem_set_self]
    rw [getElem?_cons_zero] at h1
    exact (Option.some.inj h1).symm
  · intro c hc
    obtain ⟨iv, rfl, _, h2⟩ := splitChain_getElem?_inv b pts hd hc
    refine ⟨hlen iv, ?_⟩
    rw [getElem_set_self]
    rw [getElem?_cons_succ, getElem?_append_right (le_refl _), Nat.sub_self,
      getElem?_cons_zero] at h2
    exact (Option.some.inj h2).symm
  · intro c hc
    obtain ⟨iv, _, rfl⟩ := splitChain_mem b pts hd hc
    exact ⟨length_set, fun k hk => getElem?_set_ne (Ne.symm hk)⟩

end faces

variable {α : Type} [Field α] [LinearOrder α] [IsStrictOrderedRing α]

/-! ## 1. a single-dimension split along a weakly increasing boundary list is a tiling -/

omit [Field α] [IsStrictOrderedRing α] in
theorem splitChain_tiles (b : Box α) (dim : Nat) (pts : List α) (hb : Box.Valid b)
    (hd : dim < b.length) (hm : Mono (b[dim].lo :: (pts ++ [b[dim].hi]))) :
    Tiles (splitChain b dim pts) b ∧ (splitChain b dim pts).length = pts.length + 1 :=
  ⟨splitChain_tiles_aux hb hd hm, splitChain_length b pts hd⟩

/-! ## 3. `DimensionBinaryPartition` -/

theorem splitAll_tiles (b : Box α) (hb : Box.Valid b) : Tiles (splitAll b) b :=
  splitAll_tiles_aux hb

omit [LinearOrder α] [IsStrictOrderedRing α] in
theorem splitAll_length (b : Box α) : (splitAll b).length = 2 ^ b.length :=
  PyXAB.splitAll_length b

omit [LinearOrder α] [IsStrictOrderedRing α] in
/-- Child `i` exists for every `i < 2^d`, has `d` coordinates, and its interval in dimension `j`
is the upper half of the parent's iff bit `j` of `i` is set. -/
theorem splitAll_child (b : Box α) (i : Nat) (hi : i < 2 ^ b.length) :
    ∃ c, (splitAll b)[i]? = some c ∧ c.length = b.length ∧
      ∀ j (hj : j < b.length) (hc : j < c.length),
        c[j] = if Nat.testBit i j then b[j].upper else b[j].lower := by
  refine ⟨_, splitAll_getElem? b i hi, length_mapIdx, fun j hj hc => ?_⟩
  rw [getElem_mapIdx]

/-! ## 4. `np.linspace` boundaries are weakly increasing -/

theorem linspace_mono (lo hi : α) (K : Nat) (h : lo ≤ hi) (hK : 1 ≤ K) :
    Mono (lo :: (linspacePts lo hi K ++ [hi])) :=
  linspace_mono' h hK

/-! ## 5. every class produces a tiling with the documented number of children -/

theorem childBoxes_tiles (k : Kind) (b : Box α) (d : Draw α) (hb : Box.Valid b)
    (hd : DrawOK k b d) :
    Tiles (childBoxes k b d) b ∧ (childBoxes k b d).length = k.arity b.length := by
  by_cases hk : k = .dimBinary
  · subst hk
    exact ⟨splitAll_tiles_aux hb, PyXAB.splitAll_length b⟩
  · obtain ⟨h, pts, heq, hm, hl⟩ := childBoxes_eq_splitChain hk hb hd
    rw [heq, ← hl]
    exact splitChain_tiles b d.dim pts hb h hm

/-- the dimensions not drawn are untouched (all classes except `DimensionBinaryPartition`) -/
theorem childBoxes_other_dims (k : Kind) (hk : k ≠ .dimBinary) (b : Box α) (d : Draw α)
    (hb : Box.Valid b) (hd : DrawOK k b d) :
    ∀ c ∈ childBoxes k b d, c.length = b.length ∧ ∀ j, j ≠ d.dim → c[j]? = b[j]? := by
  obtain ⟨h, pts, heq, _, _⟩ := childBoxes_eq_splitChain hk hb hd
  rw [heq]
  exact (splitChain_faces b d.dim pts h).2.2.2

/-! ## 6. equal sizes -/

/-- `BinaryPartition`: both children have half the parent's width on the split dimension. -/
theorem binary_width (b : Box α) (d : Draw α) (hd : DrawOK .binary b d) :
    ∀ c ∈ childBoxes .binary b d, ∃ h : d.dim < c.length,
      c[d.dim].hi - c[d.dim].lo = ((b[d.dim]'hd).hi - (b[d.dim]'hd).lo) / 2 := by
  have hd' : d.dim < b.length := hd
  intro c hc
  rw [childBoxes_binary_explicit b d hd'] at hc
  simp only [mem_cons, not_mem_nil, or_false] at hc
  rcases hc with rfl | rfl
  · exact ⟨by rw [length_set]; exact hd', by rw [getElem_set_self]; exact Iv.lower_width _⟩
  · exact ⟨by rw [length_set]; exact hd', by rw [getElem_set_self]; exact Iv.upper_width _⟩

/-- `KaryPartition`: child `j` is `[lo + j w, lo + (j+1) w]`, `w = (hi - lo) / K`, on the split
dimension. -/
theorem kary_child (K : Nat) (b : Box α) (d : Draw α) (hd : DrawOK (.kary K) b d)
    (j : Nat) (hj : j < K) :
    (childBoxes (.kary K) b d)[j]? =
      some (b.set d.dim
        ⟨(j : α) * (((b[d.dim]'hd.2).hi - (b[d.dim]'hd.2).lo) / (K : α)) + (b[d.dim]'hd.2).lo,
         ((j : α) + 1) * (((b[d.dim]'hd.2).hi - (b[d.dim]'hd.2).lo) / (K : α)) +
           (b[d.dim]'hd.2).lo⟩) :=
  kary_child_getElem? hd.1 b d hd.2 hj

/-- `KaryPartition`: all `K` children have width `(hi - lo) / K` on the split dimension. -/
theorem kary_width (K : Nat) (b : Box α) (d : Draw α) (hb : Box.Valid b)
    (hd : DrawOK (.kary K) b d) :
    ∀ c ∈ childBoxes (.kary K) b d, ∃ h : d.dim < c.length,
      c[d.dim].hi - c[d.dim].lo = ((b[d.dim]'hd.2).hi - (b[d.dim]'hd.2).lo) / (K : α) := by
  intro c hc
  obtain ⟨j, hj⟩ := mem_iff_getElem?.1 hc
  have hjK : j < K := by
    have h1 := (List.getElem?_eq_some_iff.1 hj).1
    have h2 : (childBoxes (.kary K) b d).length = K := (childBoxes_tiles _ b d hb hd).2
    omega
  rw [kary_child K b d hd j hjK] at hj
  have hc' := Option.some.inj hj
  subst hc'
  refine ⟨by rw [length_set]; exact hd.2, ?_⟩
  rw [getElem_set_self]
  ring

/-- `DimensionBinaryPartition`: every child has half the parent's width in *every* dimension. -/
theorem dimBinary_width (b : Box α) (d : Draw α) :
    ∀ c ∈ childBoxes .dimBinary b d, c.length = b.length ∧
      ∀ j (hc : j < c.length) (hj : j < b.length),
        c[j].hi - c[j].lo = (b[j].hi - b[j].lo) / 2 := by
  intro c hc
  have h := splitAll_halves b c hc
  rw [forall₂_iff_getElem] at h
  obtain ⟨hl, h⟩ := h
  refine ⟨hl, fun j hc hj => ?_⟩
  rcases h j hc hj with e | e <;> rw [e]
  · exact Iv.lower_width _
  · exact Iv.upper_width _

/-! ## 7. the representative point -/

omit [LinearOrder α] [IsStrictOrderedRing α] in
theorem cpoint_centre (b : Box α) (j : Nat) (hj : j < b.length) :
    (Box.cpoint b)[j]'(by rw [cpoint_length]; exact hj) = (b[j].lo + b[j].hi) / 2 :=
  cpoint_getElem b j hj

theorem cpoint_mem (b : Box α) (hb : Box.Valid b) : Box.Mem b (Box.cpoint b) :=
  cpoint_mem_aux hb

/-- bonus: for a cell with non-empty interior the representative point is interior -/
theorem cpoint_intMem (b : Box α) (hb : ∀ iv ∈ b, iv.lo < iv.hi) : Box.IntMem b (Box.cpoint b) :=
  cpoint_intMem_aux hb

section orderOnly
variable {α : Type} [LinearOrder α]

theorem mem_of_subset (c b : Box α) (x : List α) (h : Box.Subset c b) (hx : Box.Mem c x) :
    Box.Mem b x :=
  Box.mem_of_subset h hx

/-! ## 8. refinement of tilings -/

/-- `Tiles` is invariant under permutation of the cells. -/
theorem tiles_perm (kids kids' : List (Box α)) (b : Box α) (hp : kids.Perm kids') :
    Tiles kids b ↔ Tiles kids' b :=
  ⟨Tiles.perm hp, Tiles.perm hp.symm⟩

/-- Replacing one cell of a tiling by a tiling of that cell gives a tiling (new cells appended
at the end, as a leaf list of a tree would do). -/
theorem tiles_refine (l₁ l₂ kids : List (Box α)) (c b : Box α)
    (h : Tiles (l₁ ++ c :: l₂) b) (hk : Tiles kids c) : Tiles (l₁ ++ l₂ ++ kids) b :=
  Tiles.perm perm_append_comm (tiles_refine_cons (Tiles.perm perm_middle h) hk)

/-- The same with the new cells spliced in place. -/
theorem tiles_refine_inplace (l₁ l₂ kids : List (Box α)) (c b : Box α)
    (h : Tiles (l₁ ++ c :: l₂) b) (hk : Tiles kids c) : Tiles (l₁ ++ kids ++ l₂) b := by
  refine Tiles.perm ?_ (tiles_refine l₁ l₂ kids c b h hk)
  rw [append_assoc, append_assoc]
  exact (perm_append_left_iff l₁).2 perm_append_comm

end orderOnly

/-! ## 9. non-vacuity: a concrete 2-D box over `ℚ` with a valid draw for each class -/
section examples

/-- the cell `[0,1] × [-1,3]` -/
private abbrev b0 : Box ℚ := [⟨0, 1⟩, ⟨-1, 3⟩]

private theorem b0_valid : Box.Valid b0 := by
  intro iv hiv
  simp only [mem_cons, not_mem_nil, or_false] at hiv
  rcases hiv with rfl | rfl <;> (show (_ : ℚ) ≤ _; norm_num)

example : Box.Valid b0 := b0_valid

example : DrawOK .binary b0 ⟨1, []⟩ := by show 1 < 2; omega
example : DrawOK .dimBinary b0 ⟨0, []⟩ := trivial
example : DrawOK .randBinary b0 ⟨1, [2]⟩ :=
  ⟨by decide, 2, rfl, by show (-1 : ℚ) ≤ 2; norm_num, by show (2 : ℚ) ≤ 3; norm_num⟩
example : DrawOK (.kary 3) b0 ⟨0, []⟩ := ⟨by omega, by decide⟩

private theorem drawOK_randKary : DrawOK (.randKary 3) b0 ⟨1, [0, 2]⟩ := by
  refine ⟨by omega, by decide, rfl, ?_⟩
  show Mono [(-1 : ℚ), 0, 2, 3]
  exact ⟨by norm_num, by norm_num, by norm_num, trivial⟩

/-- degenerate draws (equal to an end point, and equal to each other) are allowed -/
private theorem drawOK_randKary_degenerate : DrawOK (.randKary 3) b0 ⟨1, [-1, -1]⟩ := by
  refine ⟨by omega, by decide, rfl, ?_⟩
  show Mono [(-1 : ℚ), -1, -1, 3]
  exact ⟨by norm_num, by norm_num, by norm_num, trivial⟩

example : Tiles (childBoxes (.randKary 3) b0 ⟨1, [0, 2]⟩) b0 ∧
    (childBoxes (.randKary 3) b0 ⟨1, [0, 2]⟩).length = 3 :=
  childBoxes_tiles _ _ _ b0_valid drawOK_randKary

example : Tiles (childBoxes (.randKary 3) b0 ⟨1, [-1, -1]⟩) b0 ∧
    (childBoxes (.randKary 3) b0 ⟨1, [-1, -1]⟩).length = 3 :=
  childBoxes_tiles _ _ _ b0_valid drawOK_randKary_degenerate

/-- hypotheses of `splitChain_tiles` on a concrete instance -/
example : Mono (b0[1].lo :: ([(0 : ℚ), 2] ++ [b0[1].hi])) := by
  show Mono [(-1 : ℚ), 0, 2, 3]
  exact ⟨by norm_num, by norm_num, by norm_num, trivial⟩

/-- hypotheses of `tiles_refine`: split `b0` in two, then split the first half again -/
example : Tiles ([] ++ [] ++ childBoxes .binary (b0.set 0 (Iv.lower b0[0])) ⟨1, []⟩ ++
    [b0.set 0 (Iv.upper b0[0])]) b0 := by
  have h : Tiles ([] ++ b0.set 0 (Iv.lower b0[0]) :: [b0.set 0 (Iv.upper b0[0])]) b0 := by
    have := (childBoxes_tiles .binary b0 ⟨0, []⟩ b0_valid (by show 0 < 2; omega)).1
    rwa [childBoxes_binary_explicit b0 ⟨0, []⟩ (by show 0 < 2; omega)] at this
  have hv : Box.Valid (b0.set 0 (Iv.lower b0[0])) := (h.1 _ (by simp)).2
  exact tiles_refine_inplace [] _ _ _ b0 h
    (childBoxes_tiles .binary _ ⟨1, []⟩ hv (by show 1 < 2; omega)).1

/-- the specification has teeth: a list with a repeated cell is *not* a tiling -/
example : ¬ Tiles [b0, b0] b0 := by
  rintro ⟨_, _, hp⟩
  rw [pairwise_pair] at hp
  refine hp ⟨[1 / 2, 0], ?_, ?_⟩ <;>
  · refine Forall₂.cons ⟨?_, ?_⟩ (Forall₂.cons ⟨?_, ?_⟩ Forall₂.nil) <;>
    (show (_ : ℚ) < _; norm_num)

/-- the concrete children of a ternary split of `[0,1] × [-1,3]` along dimension 0 -/
example : childBoxes (.kary 3) b0 ⟨0, []⟩ =
    [[⟨0, 1 / 3⟩, ⟨-1, 3⟩], [⟨1 / 3, 2 / 3⟩, ⟨-1, 3⟩], [⟨2 / 3, 1⟩, ⟨-1, 3⟩]] := by
  simp [childBoxes, splitChain, linspacePts, chainIvs, range']
  norm_num

end examples

end PyXAB.C02
