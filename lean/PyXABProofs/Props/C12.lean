/-
  Property C12 — the opening schedule of SequOOL.

  "SequOOL opens the root, then for depth h = 1, 2, ... opens at most floor(h_max/h) cells of
  depth h, never opening beyond depth h_max; each opened cell is an unopened cell of the current
  depth with the highest observed reward, and opening it evaluates each of its children exactly
  once, in order.  No search cell is evaluated twice; once the schedule is exhausted, further
  pulls return the domain centre (the root cell) and do not alter the recommendation."

  Setting (`Spec/SeqSpec.lean`): the documented loop `init; (pull; receive)*` is `SQ.round` /
  `SQ.runRounds` / `SQ.run`; the invariant between rounds is `SQ.Inv`; `SQ.SearchPull s s1 v`
  is the documented effect of one `pull` of the search phase; `SQ.expCount P h` counts the
  expanded cells of depth `h` (cells whose opening has at least started); `h_max` is the
  parameter `hmax` (the code computes `floor(n / H_n)`, checked numerically elsewhere).
  Rewards live in a linear order `S` with a bottom element `negInf` (`-inf` of the code);
  draws are well-formed (`SQ.HeadOK`: `pull` expands at most one cell, one draw suffices).
  Lemmas: `Lemmas/SQ_*.lean`.

  1. Totality: `pull_total`, `receive_total`, `current_layer`, `round_total`, `loop_total`,
     `run_total`, `run_inv`.
  2. Schedule: `schedule`, `budget_bounds`, `depth_bounds`, `run_schedule`, `root_first`.
  3. Opened cell: `pull_search_spec`, `selected_max`, `opening_in_progress`,
     `opening_complete`, `opened_iff`.
  4. `no_double_eval`, `chosen_nodup`, `rewards_once`, `history`.
  5. Exhaustion: `exhausted_round`, `credit_root_frame`, `exhausted_stays`, `root_is_domain`.
-/
import Mathlib.Data.Int.Order.Basic
import Mathlib.Data.Nat.Basic
import PyXABProofs.Lemmas.SQ_Sched

set_option linter.unusedSectionVars false
set_option linter.unusedVariables false

namespace PyXAB
namespace SQ
namespace C12
open Tree TBA

variable {α S : Type} [Add α] [Sub α] [Mul α] [Div α] [OfNat α 2] [NatCast α]
variable [LinearOrder S] [Inhabited S] {negInf : S}

/-! ## 0. The initial state -/

/-- The state after `__init__` satisfies the invariant (for a partition class of arity `≥ 1`;
every well-formed draw witnesses this: `arity_pos_of_headOK`). -/
theorem init_Inv (k : Kind) (domain : Box α) (hmax : Nat) (hK : 1 ≤ k.arity domain.length) :
    Inv negInf (SequOOL.init k domain hmax : SequOOL α S) :=
  init_inv k domain hmax hK

theorem arity_pos_of_headOK {k : Kind} {n : Nat} {ds : List (Draw α)} (h : HeadOK k n ds) :
    1 ≤ k.arity n := by
  obtain ⟨d, _, _, hd⟩ := h.cons
  exact arity_pos_of_drawOK hd

/-! ## 1. Totality -/

/-- `pull` never raises from an invariant state (no `IndexError` from `get_reward()` of an
unevaluated cell, no `None` dereference of `max_node`: the current layer always contains an
evaluated unopened cell). -/
theorem pull_total (hbot : ∀ x : S, negInf ≤ x) {s : SequOOL α S} (I : Inv negInf s) (t : Nat)
    {ds : List (Draw α)} (hds : HeadOK s.P.kind (dimn s.P) ds) :
    ∃ s1 ds1 v, SequOOL.pull negInf s t ds = .ok (s1, ds1, v) := by
  by_cases hex : Exhausted s
  · exact ⟨_, _, _, pull_exhausted I.wf hex t ds⟩
  · obtain ⟨s1, ds1, h, _⟩ := pull_search hbot (t := t) I (Nat.le_of_not_lt hex) hds
    exact ⟨s1, ds1, _, h⟩

/-- `receive` after a `pull` never raises and re-establishes the invariant. -/
theorem receive_total (hbot : ∀ x : S, negInf ≤ x) {s s1 : SequOOL α S} (I : Inv negInf s)
    {t v : Nat} {ds ds1 : List (Draw α)} (hds : HeadOK s.P.kind (dimn s.P) ds)
    (hp : SequOOL.pull negInf s t ds = .ok (s1, ds1, v)) (r : S) :
    ∃ s2, SequOOL.receive s1 r = .ok s2 ∧ Inv negInf s2 := by
  by_cases hex : Exhausted s
  · rw [pull_exhausted I.wf hex t ds] at hp
    simp only [Except.ok.injEq, Prod.mk.injEq] at hp
    obtain ⟨rfl, _, _⟩ := hp
    exact ⟨_, receive_eq rfl r, inv_credit_root I r rfl rfl rfl rfl rfl rfl⟩
  · obtain ⟨s1', ds1', h, M, _⟩ := pull_search hbot (t := t) I (Nat.le_of_not_lt hex) hds
    rw [h] at hp
    simp only [Except.ok.injEq, Prod.mk.injEq] at hp
    obtain ⟨rfl, _, _⟩ := hp
    exact ⟨_, (receive_mid M r).1, (receive_mid M r).2⟩

/-- What makes the scan of `pull` succeed: while a depth `1 ≤ currDepth ≤ hmax` is being
processed its layer exists, every cell of the layer has been evaluated (exactly one reward), and
at least one of them is unopened. -/
theorem current_layer {s : SequOOL α S} (I : Inv negInf s) (h1 : 1 ≤ s.currDepth)
    (h2 : s.currDepth ≤ s.hmax) :
    ∃ layer, s.P.layers[s.currDepth]? = some layer ∧
      (∀ id ∈ layer, ∃ nd r, s.P.nodes[id]? = some nd ∧ nd.depth = s.currDepth ∧
        nd.st.rewards = [r]) ∧
      ∃ id ∈ layer, isUnopened s.P id = true := by
  obtain ⟨layer, id, a1, a2, a3⟩ := I.unopened h1 h2
  refine ⟨layer, a1, fun i hi => ?_, id, a2, a3⟩
  obtain ⟨b1, b2⟩ := Core.layer_le I h1 a1 hi
  obtain ⟨nd, n1, n2⟩ := (mem_layer I.wf a1 i).1 hi
  have := (I.rew i nd n1).1 b1 b2
  match hr : nd.st.rewards, this with
  | [r], _ => exact ⟨nd, r, n1, n2, hr⟩

/-- One round never raises and keeps the invariant (as well as `hmax`, the partition class and
the dimension). -/
theorem round_total (hbot : ∀ x : S, negInf ≤ x) {s : SequOOL α S} (I : Inv negInf s) (t : Nat)
    (r : S) {ds : List (Draw α)} (hds : HeadOK s.P.kind (dimn s.P) ds) :
    ∃ s2 v, round negInf s t r ds = .ok (s2, v) ∧ Inv negInf s2 ∧ s2.hmax = s.hmax ∧
      s2.P.kind = s.P.kind ∧ dimn s2.P = dimn s.P := by
  obtain ⟨s2, v, h1, h2, h3, h4, h5, _⟩ := round_inv hbot I t r hds
  exact ⟨s2, v, h1, h2, h3, h4, h5⟩

/-- **Totality of the loop** from any invariant state, for any number of rounds. -/
theorem loop_total (hbot : ∀ x : S, negInf ≤ x) {s : SequOOL α S} (I : Inv negInf s) (t : Nat)
    (inputs : List (S × List (Draw α))) (hin : InputsOK s.P.kind (dimn s.P) inputs) :
    ∃ s' H, runRounds negInf s t inputs = .ok (s', H) ∧ Inv negInf s' ∧
      H.length = inputs.length ∧ H.map (·.2) = inputs.map (·.1) ∧ s'.hmax = s.hmax := by
  obtain ⟨s', H, h1, h2, h3, _, _, h6, _⟩ := runRounds_inv hbot inputs s t I hin
  refine ⟨s', H, h1, h2, ?_, h6, h3⟩
  have := congrArg List.length h6
  simpa using this

/-- Construction followed by any number of rounds: the invariant holds at the end. -/
theorem run_inv (hbot : ∀ x : S, negInf ≤ x) (k : Kind) (domain : Box α) (hmax : Nat)
    (hK : 1 ≤ k.arity domain.length) (inputs : List (S × List (Draw α)))
    (hin : InputsOK k domain.length inputs) :
    ∃ s' H, run negInf k domain hmax inputs = .ok (s', H) ∧ Inv negInf s' ∧
      H.length = inputs.length ∧ H.map (·.2) = inputs.map (·.1) ∧ s'.hmax = hmax :=
  loop_total hbot (init_Inv k domain hmax hK) 1 inputs hin

/-- **The documented loop never raises** (no hypothesis on the arity: it is witnessed by the
first draw). -/
theorem run_total (hbot : ∀ x : S, negInf ≤ x) (k : Kind) (domain : Box α) (hmax : Nat)
    (inputs : List (S × List (Draw α))) (hin : InputsOK k domain.length inputs) :
    ∃ s' H, run negInf k domain hmax inputs = .ok (s', H) ∧ H.length = inputs.length := by
  cases inputs with
  | nil => exact ⟨_, [], rfl, rfl⟩
  | cons x rest =>
    have hK := arity_pos_of_headOK (hin x (List.mem_cons_self ..))
    obtain ⟨s', H, h1, _, h3, _⟩ := run_inv hbot k domain hmax hK (x :: rest) hin
    exact ⟨s', H, h1, h3⟩

/-! ## 2. The schedule -/

/-- `expCount P h` is the number of cells of depth `h` which have a child list. -/
theorem expCount_eq {σ : Type} {P : Part α σ} (W : WF P) (h : Nat) :
    expCount P h = ((List.range P.nodes.length).filter (fun i =>
      (P.nodes[i]?.map (·.depth)) == some h && isExp P i)).length := by
  unfold expCount
  cases hl : P.layers[h]? with
  | some l =>
    simp only [Option.getD_some]
    rw [W.layers_eq_filter hl, List.countP_eq_length_filter, List.filter_filter]
    congr 1
    apply List.filter_congr
    intro i _
    rw [Bool.and_comm]
  | none =>
    simp only [Option.getD_none, List.countP_nil]
    symm
    rw [List.length_eq_zero_iff, List.filter_eq_nil_iff]
    intro i hi
    rw [List.mem_range] at hi
    have hd := W.depth_le i _ (List.getElem?_eq_getElem hi)
    have hlen := W.layers_len
    rw [List.getElem?_eq_none_iff] at hl
    have : ¬ (P.nodes[i]).depth = h := by omega
    simp [List.getElem?_eq_getElem hi, this]

/-- **Schedule**: in every reachable state, for every depth `h ≥ 1`, at most `hmax / h` cells of
depth `h` have been opened (even partially). -/
theorem schedule {s : SequOOL α S} (I : Inv negInf s) {h : Nat} (h1 : 1 ≤ h) :
    expCount s.P h ≤ s.hmax / h := I.schedule h1

/-- While depth `currDepth ≥ 1` is being processed, the remaining budget `b` satisfies
`1 ≤ b ≤ hmax / currDepth`; the number of expanded cells of this depth plus `b` is
`hmax / currDepth` (plus one while an opening is in progress). -/
theorem budget_bounds {s : SequOOL α S} (I : Inv negInf s) (h1 : 1 ≤ s.currDepth)
    (h2 : s.currDepth ≤ s.hmax) :
    ∃ b, s.budget = some b ∧ 1 ≤ b ∧ b ≤ s.hmax / s.currDepth ∧
      expCount s.P s.currDepth + b = s.hmax / s.currDepth + (if s.loc = 0 then 0 else 1) := by
  obtain ⟨b, b1, b2⟩ := I.budget h1
  obtain ⟨c1, c2, c3⟩ := b2 h2
  refine ⟨b, b1, c1, c2, ?_⟩
  rw [c3]
  by_cases hl : s.loc = 0
  · simp [hl]
  · have : 0 < s.loc := by omega
    simp [hl, this]

/-- No cell of depth `> hmax` is ever opened, no cell of depth `> hmax + 1` is ever created
(hence handed out), and `currDepth ≤ hmax + 1`, `loc < K`. -/
theorem depth_bounds {s : SequOOL α S} (I : Inv negInf s) :
    s.currDepth ≤ s.hmax + 1 ∧ s.loc < K s.P ∧
    ∀ (i : Nat) (nd : Node α (SqSt S)), s.P.nodes[i]? = some nd →
      nd.depth ≤ s.hmax + 1 ∧ (nd.children ≠ none → nd.depth ≤ s.hmax) ∧
      (nd.st.opened = true → 1 ≤ nd.depth ∧ nd.depth ≤ s.hmax) := by
  refine ⟨I.cd_le, I.loc_lt, fun i nd hi => ⟨(I.depth_bounds hi).1, (I.depth_bounds hi).2, ?_⟩⟩
  intro ho
  obtain ⟨a1, cs, a2, _⟩ := I.opened_ch i nd hi ho
  exact ⟨a1, (I.ch_depth i nd cs hi a2).1⟩

/-- The schedule over any run of the documented loop. -/
theorem run_schedule (hbot : ∀ x : S, negInf ≤ x) (k : Kind) (domain : Box α) (hmax : Nat)
    (hK : 1 ≤ k.arity domain.length) (inputs : List (S × List (Draw α)))
    (hin : InputsOK k domain.length inputs) {s' : SequOOL α S} {H : List (Nat × S)}
    (hrun : run negInf k domain hmax inputs = .ok (s', H)) :
    (∀ h, 1 ≤ h → expCount s'.P h ≤ hmax / h) ∧
    (∀ (i : Nat) (nd : Node α (SqSt S)), s'.P.nodes[i]? = some nd →
      nd.depth ≤ hmax + 1 ∧ (nd.children ≠ none → nd.depth ≤ hmax)) := by
  obtain ⟨s'', H'', h1, I, _, _, h5⟩ := run_inv hbot k domain hmax hK inputs hin
  rw [hrun] at h1
  simp only [Except.ok.injEq, Prod.mk.injEq] at h1
  obtain ⟨rfl, rfl⟩ := h1
  rw [← h5]
  exact ⟨fun h hh => I.schedule hh, fun i nd hi => I.depth_bounds hi⟩

/-- **The root is opened first**: the first `K` pulls hand out the children `1, …, K` of the
root, in this order, and then depth 1 is entered with budget `hmax / 1`. -/
theorem root_first (hbot : ∀ x : S, negInf ≤ x) (k : Kind) (domain : Box α) (hmax : Nat)
    (inputs : List (S × List (Draw α))) (hlen : inputs.length = k.arity domain.length)
    (hne : inputs ≠ []) (hin : InputsOK k domain.length inputs) :
    ∃ s' H r, run negInf k domain hmax inputs = .ok (s', H) ∧ Inv negInf s' ∧
      s'.P.nodes[0]? = some r ∧ r.children = some (List.range' 1 (k.arity domain.length)) ∧
      H.map (·.1) = List.range' 1 (k.arity domain.length) ∧ s'.chosen = H.map (·.1) ∧
      s'.currDepth = 1 ∧ s'.loc = 0 ∧ s'.budget = some hmax := by
  obtain ⟨x, hx⟩ := List.exists_mem_of_ne_nil inputs hne
  have hK := arity_pos_of_headOK (hin x hx)
  have I0 : Inv negInf (SequOOL.init k domain hmax : SequOOL α S) := init_Inv k domain hmax hK
  obtain ⟨s', H, tgt, tn, cs, h1, I', h3, h4, _, h6, h7, h8, h9, h10, _, h12⟩ :=
    opening_complete hbot I0 rfl (Nat.zero_le _) 1 (inputs := inputs) hlen hin
  obtain rfl : tgt = 0 := h4.1 rfl
  have hcs : cs = List.range' 1 (k.arity domain.length) := h8
  subst hcs
  have hc : s'.chosen = List.range' 1 (k.arity domain.length) := by simpa [SequOOL.init] using h10
  obtain ⟨d1, d2⟩ := h12 rfl
  exact ⟨s', H, tn, h1, I', h6, h7, h9, by rw [hc, h9], d1, h3,
    by simpa [SequOOL.init] using d2⟩

/-! ## 3. The opened cell -/

/-- **One `pull` of the search phase** (`SearchPull`): the cell being opened is the selected
cell of the current depth (`Selected`: the root at depth 0, otherwise the last unopened cell of
the layer with maximal first reward); when the opening starts (`loc = 0`) it is a leaf and gets
the `K` new children `n, …, n+K-1`; the handed-out cell is its child number `loc`; the last
child flags the cell `opened`, decrements the budget and advances the depth exactly when the
budget reaches 0 or the cell was the last unopened one of its depth. -/
theorem pull_search_spec (hbot : ∀ x : S, negInf ≤ x) {s : SequOOL α S} (I : Inv negInf s)
    (hne : ¬ Exhausted s) (t : Nat) {ds : List (Draw α)}
    (hds : HeadOK s.P.kind (dimn s.P) ds) :
    ∃ s1 ds1 v, SequOOL.pull negInf s t ds = .ok (s1, ds1, v) ∧ SearchPull s s1 v := by
  obtain ⟨s1, ds1, h, _, SP⟩ := pull_search hbot (t := t) I (Nat.le_of_not_lt hne) hds
  exact ⟨s1, ds1, _, h, SP⟩

/-- What `Selected` means at a search depth: the cell lies in the current layer, is unopened,
was evaluated, and no unopened cell of the layer has a larger first reward. -/
theorem selected_max {s : SequOOL α S} {tgt : Nat} (h : Selected s tgt) (h1 : 1 ≤ s.currDepth) :
    ∃ layer rt, s.P.layers[s.currDepth]? = some layer ∧ tgt ∈ layer ∧
      isUnopened s.P tgt = true ∧ firstRew s.P tgt = some rt ∧
      ∀ id ∈ layer, isUnopened s.P id = true → ∀ r, firstRew s.P id = some r → r ≤ rt := by
  obtain ⟨layer, hl, harg⟩ := h.2 h1
  obtain ⟨rt, a1, a2⟩ := harg.max
  exact ⟨layer, rt, hl, harg.mem, harg.unopened, a1, a2⟩

/-- **An opening in progress** (`loc > 0`, between two rounds): the cell `t` being opened is the
selected cell of the current depth (the scan keeps returning it), it is not yet flagged, and of
its `K` children exactly the first `loc` have been handed out. -/
theorem opening_in_progress (hbot : ∀ x : S, negInf ≤ x) {s : SequOOL α S} (I : Inv negInf s)
    (hl : 0 < s.loc) :
    ∃ (t : Nat) (tn : Node α (SqSt S)) (cs : List Nat), s.P.nodes[t]? = some tn ∧
      tn.depth = s.currDepth ∧ s.currDepth ≤ s.hmax ∧ Selected s t ∧ tn.children = some cs ∧
      cs.length = K s.P ∧ (1 ≤ s.currDepth → tn.st.opened = false) ∧
      ∀ j c, cs[j]? = some c → (c ∈ s.chosen ↔ j < s.loc) := by
  have C : Core negInf true s.chosen.length s := by
    unfold Inv at I; simpa [hl] using I
  obtain ⟨tgt, num, nd, _, hnd, hdep, hch, hsel, hsc⟩ := select_cont hbot C
  obtain ⟨_, _, _, _, t3, t4, _, _⟩ := C.opening rfl
  refine ⟨tgt, nd, _, hnd, hdep, t3, hsel, hch, by simp, fun h => (hsc h).1, fun j c hj => ?_⟩
  have hjK : j < K s.P := by simpa using lt_length_of_getElem? hj
  rw [List.getElem?_range' hjK] at hj
  have hc : c = 1 + s.chosen.length - s.loc + j := by simpa using hj.symm
  rw [I.mem_chosen]
  omega

/-- **One complete opening**: from a state between openings (`loc = 0`, schedule not
exhausted), the next `K` rounds open the selected cell `tgt`, which is a leaf: they hand out its
children `cs[0], …, cs[K-1]` in this order, one per round, each exactly once; afterwards
`loc = 0` again and (at a search depth) the cell is flagged `opened`. -/
theorem opening_complete (hbot : ∀ x : S, negInf ≤ x) {s : SequOOL α S} (I : Inv negInf s)
    (hl0 : s.loc = 0) (hne : ¬ Exhausted s) (t : Nat) {inputs : List (S × List (Draw α))}
    (hlen : inputs.length = K s.P) (hin : InputsOK s.P.kind (dimn s.P) inputs) :
    ∃ s' H tgt tn cs, runRounds negInf s t inputs = .ok (s', H) ∧ Inv negInf s' ∧ s'.loc = 0 ∧
      Selected s tgt ∧ s.P.isLeaf tgt = true ∧ s'.P.nodes[tgt]? = some tn ∧
      tn.children = some cs ∧ cs = List.range' s.P.nodes.length (K s.P) ∧ H.map (·.1) = cs ∧
      s'.chosen = s.chosen ++ cs ∧ (1 ≤ s.currDepth → tn.st.opened = true) := by
  obtain ⟨s', H, tgt, tn, cs, h⟩ :=
    SQ.opening_complete hbot I hl0 (Nat.le_of_not_lt hne) t hlen hin
  exact ⟨s', H, tgt, tn, cs, h.1, h.2.1, h.2.2.1, h.2.2.2.1, h.2.2.2.2.1, h.2.2.2.2.2.1,
    h.2.2.2.2.2.2.1, h.2.2.2.2.2.2.2.1, h.2.2.2.2.2.2.2.2.1, h.2.2.2.2.2.2.2.2.2.1,
    h.2.2.2.2.2.2.2.2.2.2.1⟩

/-- The `opened` flag of a search cell is set exactly when all of its children have been handed
out. -/
theorem opened_iff {s : SequOOL α S} (I : Inv negInf s) {i : Nat} {nd : Node α (SqSt S)}
    (hi : s.P.nodes[i]? = some nd) (hd : 1 ≤ nd.depth) :
    nd.st.opened = true ↔ ∃ cs, nd.children = some cs ∧ ∀ c ∈ cs, c ∈ s.chosen :=
  I.opened_iff hi hd

/-! ## 4. No search cell is evaluated twice -/

/-- **`no_double_eval`**: while the schedule is not exhausted, every `pull` hands out a cell
that was never handed out before (it is not the root either, and has no reward yet). -/
theorem no_double_eval (hbot : ∀ x : S, negInf ≤ x) {s s1 : SequOOL α S} (I : Inv negInf s)
    (hne : ¬ Exhausted s) {t v : Nat} {ds ds1 : List (Draw α)}
    (hds : HeadOK s.P.kind (dimn s.P) ds)
    (hp : SequOOL.pull negInf s t ds = .ok (s1, ds1, v)) :
    v ∉ s.chosen ∧ v ≠ 0 ∧ s1.chosen = s.chosen ++ [v] ∧
      ∃ nd, s1.P.nodes[v]? = some nd ∧ nd.st.rewards = [] := by
  obtain ⟨s1', ds1', h, M, SP⟩ := pull_search hbot (t := t) I (Nat.le_of_not_lt hne) hds
  rw [h] at hp
  simp only [Except.ok.injEq, Prod.mk.injEq] at hp
  obtain ⟨rfl, _, rfl⟩ := hp
  have hlen : s1'.chosen.length = s.chosen.length + 1 := by rw [SP.chosen]; simp
  refine ⟨fun hm => ?_, by omega, SP.chosen, ?_⟩
  · have := (I.mem_chosen.1 hm).2; omega
  · have C := M.core
    have hlt : s.chosen.length + 1 < s1'.P.nodes.length := by rw [C.len, hlen]; omega
    exact ⟨_, List.getElem?_eq_getElem hlt,
      (C.rew _ _ (List.getElem?_eq_getElem hlt)).2 (by omega)⟩

/-- `chosen` lists the handed-out search cells without duplicates; the root is not among them. -/
theorem chosen_nodup {s : SequOOL α S} (I : Inv negInf s) : s.chosen.Nodup ∧ 0 ∉ s.chosen :=
  ⟨I.chosen_nodup, I.root_not_chosen⟩

/-- Every handed-out search cell has exactly one reward; every other search cell none. -/
theorem rewards_once {s : SequOOL α S} (I : Inv negInf s) {i : Nat} {nd : Node α (SqSt S)}
    (hi : s.P.nodes[i]? = some nd) (h0 : i ≠ 0) :
    (i ∈ s.chosen → nd.st.rewards.length = 1) ∧ (i ∉ s.chosen → nd.st.rewards = []) := by
  constructor
  · intro h
    obtain ⟨h1, h2⟩ := I.mem_chosen.1 h
    exact (I.rew i nd hi).1 h1 h2
  · intro h
    apply (I.rew i nd hi).2
    apply Nat.lt_of_not_le
    intro hle
    exact h (I.mem_chosen.2 ⟨by omega, hle⟩)

/-- **The history of a run**: the search phase hands out the cells `m+1, m+2, …, m+j` (creation
order: pairwise distinct, none handed out before), each of which ends up with exactly the reward
received in its round; the remaining rounds (schedule exhausted) hand out the root `0`. -/
theorem history (hbot : ∀ x : S, negInf ≤ x) {s s' : SequOOL α S} (I : Inv negInf s) (t : Nat)
    (inputs : List (S × List (Draw α))) (hin : InputsOK s.P.kind (dimn s.P) inputs)
    {H : List (Nat × S)} (hrun : runRounds negInf s t inputs = .ok (s', H)) :
    ∃ j, j ≤ inputs.length ∧
      H.map (·.1) = List.range' (s.chosen.length + 1) j ++ List.replicate (inputs.length - j) 0 ∧
      s'.chosen = s.chosen ++ List.range' (s.chosen.length + 1) j ∧
      (j < inputs.length → Exhausted s') ∧ (Exhausted s → j = 0) ∧
      (∀ e ∈ H, e.1 ≠ 0 → ∃ nd, s'.P.nodes[e.1]? = some nd ∧ nd.st.rewards = [e.2]) := by
  obtain ⟨s'', H'', h1, _, _, _, _, _, _, j, j1, j2, j3, j4, j5⟩ :=
    runRounds_inv hbot inputs s t I hin
  rw [hrun] at h1
  simp only [Except.ok.injEq, Prod.mk.injEq] at h1
  obtain ⟨rfl, rfl⟩ := h1
  exact ⟨j, j1, j5, j4, j3, j2, (run_rewards hbot inputs s t I hin s' H hrun).2⟩

/-! ## 5. Exhaustion -/

/-- **Once the schedule is exhausted**, `pull` returns the root id `0`, and the round changes
nothing but `iteration`, `curr` and the reward list of the root: `chosen`, `currDepth`, the
tree skeleton and the rewards of all `chosen` cells are those of `s`; the invariant, exhaustion
and the recommendation `lastPoint` are kept. -/
theorem exhausted_round {s : SequOOL α S} (I : Inv negInf s) (hex : Exhausted s) (t : Nat)
    (r : S) (ds : List (Draw α)) :
    SequOOL.pull negInf s t ds = .ok ({ s with iteration := t, curr := some 0 }, ds, 0) ∧
    round negInf s t r ds = .ok (credit { s with iteration := t, curr := some 0 } 0 r, 0) ∧
    Inv negInf (credit { s with iteration := t, curr := some 0 } 0 r) ∧
    Exhausted (credit { s with iteration := t, curr := some 0 } 0 r) ∧
    SequOOL.lastPoint negInf (credit { s with iteration := t, curr := some 0 } 0 r) =
      SequOOL.lastPoint negInf s :=
  ⟨pull_exhausted I.wf hex t ds, (round_exhausted I hex t r ds).1, (round_exhausted I hex t r ds).2,
    hex, lastPoint_credit r I.root_not_chosen rfl rfl⟩

/-- the effect of `credit … 0 r` on the arena, spelled out: same skeleton, and only the reward
list of the root changes -/
theorem credit_root_frame (s : SequOOL α S) (r : S) :
    (credit s 0 r).chosen = s.chosen ∧ (credit s 0 r).currDepth = s.currDepth ∧
    (credit s 0 r).P.layers = s.P.layers ∧ (credit s 0 r).P.depth = s.P.depth ∧
    (credit s 0 r).P.nodes.length = s.P.nodes.length ∧
    ∀ (i : Nat) (nd : Node α (SqSt S)), s.P.nodes[i]? = some nd →
      ∃ nd', (credit s 0 r).P.nodes[i]? = some nd' ∧ Skel nd nd' ∧
        nd'.st.opened = nd.st.opened ∧ (i ≠ 0 → nd'.st = nd.st) := by
  have R := PRel_modifySt s.P 0 (fun st : SqSt S => { st with rewards := st.rewards ++ [r] })
  refine ⟨rfl, rfl, rfl, rfl, R.len, fun i nd hi => ?_⟩
  obtain ⟨nd', n1, n2, n3⟩ := R.node i nd hi
  refine ⟨nd', n1, n2, ?_, fun h => ?_⟩
  · rw [n3]; split <;> rfl
  · rw [n3]; simp [h]

/-- **Once exhausted, always exhausted**: any number of further rounds (whatever the draws)
return the root, and leave `chosen`, the depth and the recommendation unchanged. -/
theorem exhausted_stays {s : SequOOL α S} (I : Inv negInf s) (hex : Exhausted s) (t : Nat)
    (inputs : List (S × List (Draw α))) :
    ∃ s', runRounds negInf s t inputs = .ok (s', inputs.map (fun x => (0, x.1))) ∧
      Inv negInf s' ∧ Exhausted s' ∧ s'.chosen = s.chosen ∧ s'.currDepth = s.currDepth ∧
      SequOOL.lastPoint negInf s' = SequOOL.lastPoint negInf s := by
  obtain ⟨s', h1, h2, h3, h4, h5, _, h7⟩ := exhausted_run inputs s t I hex
  exact ⟨s', h1, h2, h3, h4, h5, h7⟩

/-- The root cell `0` is the domain: its box is the `domain` given to `__init__`, throughout
any run (so the point returned in the exhausted phase is the domain centre). -/
theorem root_is_domain (hbot : ∀ x : S, negInf ≤ x) (k : Kind) (domain : Box α) (hmax : Nat)
    (hK : 1 ≤ k.arity domain.length) (inputs : List (S × List (Draw α)))
    (hin : InputsOK k domain.length inputs) {s' : SequOOL α S} {H : List (Nat × S)}
    (hrun : run negInf k domain hmax inputs = .ok (s', H)) :
    ∃ r, s'.P.nodes[0]? = some r ∧ r.box = domain := by
  obtain ⟨nd', h1, h2⟩ := run_box hbot inputs _ 1 (init_Inv k domain hmax hK) hin s' H hrun 0
    _ rfl
  exact ⟨nd', h1, h2⟩

/-! ## 6. Non-vacuity: a concrete run (α := Nat, S := Int, binary partition, hmax = 3) -/

section examples

/-- the square `[0,8] × [0,8]` -/
def dom2 : Box Nat := [⟨0, 8⟩, ⟨0, 8⟩]
def dr (dim : Nat) : Draw Nat := ⟨dim, []⟩

/-- twelve rounds: rewards of both signs; one draw per round -/
def inputs12 : List (Int × List (Draw Nat)) :=
  [(-3, [dr 0]), (5, [dr 0]), (1, [dr 1]), (7, [dr 1]), (-2, [dr 1]), (7, [dr 1]),
   (2, [dr 0]), (9, [dr 0]), (4, [dr 1]), (-1, [dr 1]), (6, [dr 0]), (8, [dr 0])]

/-- the run: `hmax = 3`, `-inf := -1000`; `none` if the loop raised -/
def run12 : Option (SequOOL Nat Int × List (Nat × Int)) :=
  (run (-1000 : Int) .binary dom2 3 inputs12).toOption

example : InputsOK Kind.binary dom2.length inputs12 := by decide

/-- the loop succeeds (as `run_total` predicts) -/
example : run12.isSome = true := by decide +kernel

/-- handed-out cells: the search phase hands out `1 … 10` in creation order; the schedule
(root; 2 cells of depth 1 — only two exist; `3/2 = 1` cell of depth 2; `3/3 = 1` cell of
depth 3) is then exhausted and the last two pulls return the root `0`. -/
example : run12.map (fun p => p.2.map (·.1)) = some [1, 2, 3, 4, 5, 6, 7, 8, 9, 10, 0, 0] := by
  decide +kernel

example : run12.map (fun p => p.1.chosen) = some [1, 2, 3, 4, 5, 6, 7, 8, 9, 10] := by
  decide +kernel

/-- the opened cells, in the final tree: cell 2 (reward 5) was opened before cell 1 (reward
-3) — its children are 3, 4 — then, at depth 2, cell 6 (the last of the two cells with the
maximal reward 7), at depth 3 cell 8 (reward 9). -/
example : run12.map (fun p => p.1.P.nodes.map (fun nd => (nd.st.opened, nd.children))) = some
    [(false, some [1, 2]), (true, some [5, 6]), (true, some [3, 4]), (false, none), (false, none),
     (false, none), (true, some [7, 8]), (false, none), (true, some [9, 10]), (false, none),
     (false, none)] := by decide +kernel

/-- reward lists: one reward per search cell, the two late rewards at the root -/
example : run12.map (fun p => p.1.P.nodes.map (fun nd => nd.st.rewards)) = some
    [[6, 8], [-3], [5], [1], [7], [-2], [7], [2], [9], [4], [-1]] := by decide +kernel

example : run12.map (fun p => (p.1.currDepth, p.1.hmax, p.1.P.depth, p.1.P.layers)) =
    some (4, 3, 4, [[0], [1, 2], [3, 4, 5, 6], [7, 8], [9, 10]]) := by decide +kernel

/-- the state after 5 rounds: the opening of cell 1 is in progress (`loc = 1`), the budget of
depth 1 is 2 of 3 -/
example : (run (-1000 : Int) .binary dom2 3 (inputs12.take 5)).toOption.map
    (fun p => (p.1.loc, p.1.currDepth, p.1.budget, p.1.chosen)) =
    some (1, 1, some 2, [1, 2, 3, 4, 5]) := by decide +kernel

/-- the hypotheses of the theorems are satisfiable: rewards in `Nat` with `-inf := 0` (a bottom
element), the same draws — the run succeeds, ends in an invariant state, and the first two
pulls hand out the children of the root. -/
def inputsN : List (Nat × List (Draw Nat)) :=
  [(3, [dr 0]), (5, [dr 0]), (1, [dr 1]), (7, [dr 1]), (2, [dr 1]), (7, [dr 1]),
   (2, [dr 0]), (9, [dr 0]), (4, [dr 1]), (1, [dr 1]), (6, [dr 0]), (8, [dr 0])]

example : ∃ s' H, run (0 : Nat) .binary dom2 3 inputsN = .ok (s', H) ∧ Inv (0 : Nat) s' ∧
    H.length = 12 ∧ s'.hmax = 3 := by
  obtain ⟨s', H, h1, h2, h3, _, h5⟩ := run_inv (negInf := (0 : Nat)) Nat.zero_le .binary dom2 3
    (by decide) inputsN (by decide)
  exact ⟨s', H, h1, h2, h3, h5⟩

example : ∃ s' H r, run (0 : Nat) .binary dom2 3 (inputsN.take 2) = .ok (s', H) ∧
    s'.P.nodes[0]? = some r ∧ r.children = some [1, 2] ∧ H.map (·.1) = [1, 2] ∧
    s'.currDepth = 1 ∧ s'.budget = some 3 := by
  obtain ⟨s', H, r, h1, _, h3, h4, h5, _, h7, _, h9⟩ := root_first (negInf := (0 : Nat))
    Nat.zero_le .binary dom2 3 (inputsN.take 2) (by decide) (by decide) (by decide)
  exact ⟨s', H, r, h1, h3, h4, h5, h7, h9⟩

/-- the same run, evaluated -/
example : (run (0 : Nat) .binary dom2 3 inputsN).toOption.map (fun p => p.2.map (·.1)) =
    some [1, 2, 3, 4, 5, 6, 7, 8, 9, 10, 0, 0] := by decide +kernel

end examples

end C12
end SQ
end PyXAB
