/-
  Property C10 — POO: "Every POO round is served by exactly one base learner, and the reward of
  that round is delivered to that same learner and to no other; learners are only ever added,
  each with nu_max and a distinct rho in (0, rho_max) taken from the grid rho_max^(2N/(2i+1)).
  At every moment each learner's score equals the arithmetic mean of the rewards it has received
  and its recorded count equals their number, and get_last_point is the next proposal of a
  learner with the highest score."

  Setting.  `POO.pull / receive / lastPoint` of `PyXABModel/Model/Meta.lean`, for EVERY base
  learner `ops : LearnerOps L α R Pt ρ` and every configuration record (`cond` oracle, `rhoOf`,
  `upd`, `zero`).  `Spec/MetaSpec.lean` defines the ghost-instrumented loop (`POO.round`,
  `POO.run`, log entries `(served, received, r, created)`), `POO.Reach` (states reachable from
  the constructor by the documented loop), `OpsTotal`, the effect predicates `PullEffect` /
  `RecvEffect`, and the invariants.  A run over an input list covers "every moment": every
  prefix of a successful run is a successful run (`POO_run_prefix`).

  Quantifier: every oracle with `cond 2 2 = true`; otherwise POO cannot start
  (`POO_start_failure`).
-/
import PyXABProofs.Lemmas.MT_POOScore
import PyXABProofs.Lemmas.MT_Argmax
import PyXABProofs.Lemmas.MT_Grid
import PyXABProofs.Lemmas.MT_Example

namespace PyXAB
open POO MT

variable {L α R S Pt ρ : Type}

/-! ## Start -/

/-- If the oracle refuses `N = n = 2`, the very first `pull` reads the attribute `algo_counter`
which does not exist yet. -/
theorem POO_start_failure (ops : LearnerOps L α R Pt ρ) (cfg : POOCfg R S ρ)
    (hc : cfg.cond 2 2 = false) (time : Nat) (ds : List (Draw α)) :
    POO.pull ops cfg (POO.init : POO L S) time ds = .error .noneDeref ∧
    ∀ x xs, POO.run ops cfg (POO.init : POO L S) (x :: xs) = .error .noneDeref := by
  have h : ∀ time ds, POO.pull ops cfg (POO.init : POO L S) time ds = .error .noneDeref := by
    intro time ds
    simp [POO.pull, POO.init, hc]
  refine ⟨h time ds, fun x xs => ?_⟩
  simp [POO.run, POO.round, h]

/-- every prefix of a successful run is a successful run, with the corresponding prefix of the log -/
theorem POO_run_prefix (ops : LearnerOps L α R Pt ρ) (cfg : POOCfg R S ρ) (s s' : POO L S)
    (xs ys : List (RoundIn α R)) (log : List (Entry R))
    (h : POO.run ops cfg s (xs ++ ys) = .ok (s', log)) :
    ∃ s1 log1 log2, POO.run ops cfg s xs = .ok (s1, log1) ∧ POO.run ops cfg s1 ys = .ok (s', log2) ∧
      log = log1 ++ log2 :=
  (run_append_ok_iff ..).mp h

/-! ## 0. The invariant of reachable states -/

/-- Between rounds, for an arbitrary oracle: `N = 2^a ≥ 2`, `n = m·N` (so `ceil(n/N) = m`
exactly), the three lists have the same length, and
* creation mode (`cond N n`): `phase < N`, `counter < m`, every learner has received `m`
  rewards, except the last one while it is being filled (`counter` rewards, `0 < counter`);
* round-robin mode (`¬ cond N n`): `phase = counter = 0`, `algo_counter = ac` is a valid index,
  the learners before `ac` have `m + 1` rewards, the others `m`. -/
theorem POO_invariant {ops : LearnerOps L α R Pt ρ} {cfg : POOCfg R S ρ} (hc : cfg.cond 2 2 = true)
    {s : POO L S} (hs : Reach ops cfg s) :
    ∃ a m, 1 ≤ a ∧ 1 ≤ m ∧ s.N = 2 ^ a ∧ s.n = m * s.N ∧ POO.ceilDiv s.n s.N = m ∧
      s.V.length = s.learners.length ∧ s.times.length = s.learners.length ∧
      (cfg.cond s.N s.n = true → s.phase < s.N ∧ s.counter < m ∧ (0 < s.counter → s.learners ≠ []) ∧
        ∀ (i : Nat) t, s.times[i]? = some t →
          t = if i + 1 = s.learners.length ∧ 0 < s.counter then s.counter else m) ∧
      (cfg.cond s.N s.n = false → s.phase = 0 ∧ s.counter = 0 ∧
        ∃ ac, s.algoCounter = some ac ∧ ac < s.learners.length ∧
          ∀ (i : Nat) t, s.times[i]? = some t → t = if i < ac then m + 1 else m) := by
  obtain ⟨a, m, hI⟩ := reach_inv hc hs
  have hN0 : 0 < s.N := by rw [hI.hN]; exact Nat.pow_pos (by omega)
  refine ⟨a, m, hI.ha, hI.hm, hI.hN, hI.hn, ?_, hI.hV, hI.hT, hI.create, hI.rr⟩
  rw [hI.hn]
  exact ceilDiv_mul m s.N hN0

/-! ## 1. Routing -/

/-- In every round played from a reachable state: `pull` constructs at most one learner (appended
at the end, with the grid parameter `rhoOf N phase`, score `zero`, count `0`) and calls
`ops.pull` on exactly the learner of index `i`; the following `receive` calls `ops.receive` on
that same learner `i` (after its `pull`) and on no other; every other learner state, score and
count is unchanged (`PullEffect`, `RecvEffect`).  The times and draws given to `receive` are
arbitrary. -/
theorem POO_routing {ops : LearnerOps L α R Pt ρ} {cfg : POOCfg R S ρ} (hc : cfg.cond 2 2 = true)
    {s s1 s2 : POO L S} (hs : Reach ops cfg s) {time time' i : Nat} {ds ds1 ds' ds2 : List (Draw α)}
    {pt : Pt} {r : R} (hp : POO.pull ops cfg s time ds = .ok (s1, ds1, i, pt))
    (hr : POO.receive ops cfg s1 time' r ds' = .ok (s2, ds2)) :
    PullEffect ops cfg s time ds s1 ds1 i pt ∧ RecvEffect ops cfg s1 time' r ds' s2 ds2 i ∧
    Inv cfg s2 := by
  obtain ⟨a, m, hI⟩ := reach_inv hc hs
  obtain ⟨hR, hidx, hpe⟩ := pull_ready hI hp
  obtain ⟨hI2, hre⟩ := receive_inv hR hr
  rw [hidx] at hre
  exact ⟨hpe, hre, hI2⟩

/-- The same from any state satisfying the invariant `POO.Inv` (which holds initially when
`cond 2 2`, and is re-established by every `pull`/`receive` pair whatever the times and draws
given to `receive`): so the routing property also covers callers which do not thread the draws
left by `pull` into `receive`. -/
theorem POO_routing_inv {ops : LearnerOps L α R Pt ρ} {cfg : POOCfg R S ρ}
    {s s1 s2 : POO L S} (hI : Inv cfg s) {time time' i : Nat} {ds ds1 ds' ds2 : List (Draw α)}
    {pt : Pt} {r : R} (hp : POO.pull ops cfg s time ds = .ok (s1, ds1, i, pt))
    (hr : POO.receive ops cfg s1 time' r ds' = .ok (s2, ds2)) :
    PullEffect ops cfg s time ds s1 ds1 i pt ∧ RecvEffect ops cfg s1 time' r ds' s2 ds2 i ∧
    Inv cfg s2 ∧ (cfg.cond 2 2 = true → Inv cfg (POO.init : POO L S)) := by
  obtain ⟨a, m, hI⟩ := hI
  obtain ⟨hR, hidx, hpe⟩ := pull_ready hI hp
  obtain ⟨hI2, hre⟩ := receive_inv hR hr
  rw [hidx] at hre
  exact ⟨hpe, hre, hI2, inv_init' cfg⟩

/-- Frame and append-only, spelled out: after a round served by learner `i`, every old index
`j ≠ i` holds the same learner state, score and count as before, and no learner is removed. -/
theorem POO_routing_frame {ops : LearnerOps L α R Pt ρ} {cfg : POOCfg R S ρ} (hc : cfg.cond 2 2 = true)
    {s s1 s2 : POO L S} (hs : Reach ops cfg s) {time time' i : Nat} {ds ds1 ds' ds2 : List (Draw α)}
    {pt : Pt} {r : R} (hp : POO.pull ops cfg s time ds = .ok (s1, ds1, i, pt))
    (hr : POO.receive ops cfg s1 time' r ds' = .ok (s2, ds2)) :
    s.learners.length ≤ s2.learners.length ∧ s2.learners.length ≤ s.learners.length + 1 ∧
    i < s2.learners.length ∧
    ∀ j, j < s.learners.length → j ≠ i →
      s2.learners[j]? = s.learners[j]? ∧ s2.V[j]? = s.V[j]? ∧ s2.times[j]? = s.times[j]? := by
  obtain ⟨hpe, hre, -⟩ := POO_routing hc hs hp hr
  obtain ⟨a, m, hI⟩ := reach_inv hc hs
  have hV := hI.hV
  have hT := hI.hT
  obtain ⟨-, -, -, -, -, pre, l, l1, hcase, hpre, -, hl1⟩ := hpe
  obtain ⟨l', l2, v, t, hl', hv, ht, -, hl2, hv2, ht2⟩ := hre
  have hi := (List.getElem?_eq_some_iff.mp hpre).1
  rcases hcase with ⟨-, rfl, hV1, hT1, -⟩ | ⟨-, lnew, -, rfl, hV1, hT1⟩
  · rw [hl2, hl1, hv2, ht2, hV1, hT1]
    refine ⟨by simp, by simp, by simpa using hi, fun j hj hji => ?_⟩
    grind
  · rw [hl2, hl1, hv2, ht2, hV1, hT1]
    refine ⟨by simp, by simp, by simpa using hi, fun j hj hji => ?_⟩
    grind

/-- Along a run: every log entry has `received = served` (an existing learner), and the list
of learners only grows. -/
theorem POO_routing_log {ops : LearnerOps L α R Pt ρ} {cfg : POOCfg R S ρ} (hc : cfg.cond 2 2 = true)
    {s' : POO L S} {xs : List (RoundIn α R)} {log : List (Entry R)}
    (h : POO.run ops cfg POO.init xs = .ok (s', log)) :
    (∀ e ∈ log, e.received = e.served ∧ e.served < s'.learners.length) ∧
    log.length = xs.length := by
  have := run_induction (ops := ops) (cfg := cfg)
    (J := fun s1 log1 => Inv cfg s1 ∧ ∀ e ∈ log1, e.received = e.served ∧ e.served < s1.learners.length)
    (by
      intro s1 log1 x s2 e pt ⟨hI1, hJ⟩ hr
      obtain ⟨hI2, hsame, -⟩ := round_spec hI1 hr
      obtain ⟨-, -, -, hlen, hi⟩ := round_lists hI1 hr
      refine ⟨hI2, fun e' he' => ?_⟩
      rw [List.mem_append, List.mem_singleton] at he'
      rcases he' with he' | rfl
      · obtain ⟨h1, h2⟩ := hJ e' he'
        exact ⟨h1, by omega⟩
      · exact ⟨hsame, hi⟩)
    xs POO.init [] s' log ⟨inv_init' cfg hc, by simp⟩ h
  refine ⟨by simpa using this.2, ?_⟩
  clear this
  generalize (POO.init : POO L S) = s at h
  induction xs generalizing s log with
  | nil => rw [run_nil] at h; cases h; rfl
  | cons x xs ih =>
    obtain ⟨s1, e, pt, log', -, hrun, rfl⟩ := (run_cons_ok_iff ..).mp h
    simp [ih s1 hrun]

/-! ## 2. Counts -/

/-- At every moment the three lists have the same length and `times[i]` is the number of log
entries whose receiver is `i` (no reward was ever addressed to a non-existing learner). -/
theorem POO_counts {ops : LearnerOps L α R Pt ρ} {cfg : POOCfg R S ρ} (hc : cfg.cond 2 2 = true)
    {s' : POO L S} {xs : List (RoundIn α R)} {log : List (Entry R)}
    (h : POO.run ops cfg POO.init xs = .ok (s', log)) :
    s'.V.length = s'.learners.length ∧ s'.times.length = s'.learners.length ∧
    (∀ i, i < s'.learners.length → s'.times[i]? = some (recvCount log i)) ∧
    (∀ i, s'.learners.length ≤ i → recvCount log i = 0) := by
  obtain ⟨a, m, hI'⟩ := run_inv (inv_init' cfg hc) h
  have hcnt := run_counts (inv_init' cfg hc) h
  simp only [POO.init, List.getElem?_nil, Option.getD_none, Nat.zero_add] at hcnt
  have hT := hI'.hT
  refine ⟨hI'.hV, hT, fun i hi => ?_, fun i hi => ?_⟩
  · have := hcnt i
    rw [List.getElem?_eq_getElem (by omega)] at this ⊢
    simpa using this
  · have := hcnt i
    rw [List.getElem?_eq_none (by omega)] at this
    simpa using this.symm

/-! ## 3. Scores -/

/-- The `k` handed to `upd` is the learner's true count: in every round from a reachable state
the score of the serving learner `i` becomes `upd V[i] times[i] r` (with `V[i] = zero`,
`times[i] = 0` for the learner constructed in this round), `times[i]` is incremented, and no
other score or count changes. -/
theorem POO_upd_count {ops : LearnerOps L α R Pt ρ} {cfg : POOCfg R S ρ} (hc : cfg.cond 2 2 = true)
    {s s2 : POO L S} (hs : Reach ops cfg s) {x : RoundIn α R} {e : Entry R} {pt : Pt}
    (h : POO.round ops cfg s x = .ok (s2, e, pt)) :
    s2.V[e.served]? = some (cfg.upd ((s.V[e.served]?).getD cfg.zero) ((s.times[e.served]?).getD 0) x.r) ∧
    (∀ j, (s2.times[j]?).getD 0 = (s.times[j]?).getD 0 + if j = e.served then 1 else 0) ∧
    (∀ j, j ≠ e.served → (s2.V[j]?).getD cfg.zero = (s.V[j]?).getD cfg.zero) := by
  obtain ⟨h1, h2, h3, -⟩ := round_lists (reach_inv hc hs) h
  exact ⟨h3, h1, h2⟩

/-- Over a field of characteristic zero with the running-mean update `(V·k + r)/(k+1)`: at every
moment, for every learner which has received at least one reward, the score is the arithmetic
mean of exactly the rewards delivered to it, and the count is their number. -/
theorem POO_scores [Field α] [CharZero α] {ops : LearnerOps L α α Pt ρ} {cfg : POOCfg α α ρ}
    (hc : cfg.cond 2 2 = true)
    (hupd : ∀ v k r, cfg.upd v k r = (v * (k : α) + r) / ((k : α) + 1)) (hz : cfg.zero = 0)
    {s' : POO L α} {xs : List (RoundIn α α)} {log : List (Entry α)}
    (h : POO.run ops cfg POO.init xs = .ok (s', log)) :
    ∀ i v t, s'.V[i]? = some v → s'.times[i]? = some t →
      t = (recvRewards log i).length ∧ (0 < t → v = (recvRewards log i).sum / (t : α)) := by
  intro i v t hv ht
  have hsc := run_scores hupd hz (inv_init' cfg hc) h i
  have hcnt := run_counts (inv_init' cfg hc) h i
  simp only [POO.init, List.getElem?_nil, Option.getD_none, hv, ht, Option.getD_some,
    Nat.cast_zero, mul_zero, zero_add] at hsc hcnt
  refine ⟨by rw [recvRewards_length]; exact hcnt, fun hpos => ?_⟩
  have hne : (t : α) ≠ 0 := Nat.cast_ne_zero.mpr (by omega)
  rw [← hsc, mul_div_assoc, div_self hne, mul_one]

/-- the same over a linearly ordered field -/
theorem POO_scores_ordered [Field α] [LinearOrder α] [IsStrictOrderedRing α]
    {ops : LearnerOps L α α Pt ρ} {cfg : POOCfg α α ρ} (hc : cfg.cond 2 2 = true)
    (hupd : ∀ v k r, cfg.upd v k r = (v * (k : α) + r) / ((k : α) + 1)) (hz : cfg.zero = 0)
    {s' : POO L α} {xs : List (RoundIn α α)} {log : List (Entry α)}
    (h : POO.run ops cfg POO.init xs = .ok (s', log)) :
    ∀ i v t, s'.V[i]? = some v → s'.times[i]? = some t →
      t = (recvRewards log i).length ∧ (0 < t → v = (recvRewards log i).sum / (t : α)) :=
  POO_scores hc hupd hz h

/-! ## 4. Totality -/

/-- If POO can start and the base learner never raises, no round ever raises (in particular
neither `noneDeref` nor `indexError`). -/
theorem POO_total {ops : LearnerOps L α R Pt ρ} {cfg : POOCfg R S ρ} (hc : cfg.cond 2 2 = true)
    (hops : OpsTotal ops) (xs : List (RoundIn α R)) :
    ∃ s' log, POO.run ops cfg (POO.init : POO L S) xs = .ok (s', log) :=
  run_total hops xs (inv_init' cfg hc)

/-- … and from every reachable state each single call succeeds. -/
theorem POO_total_step {ops : LearnerOps L α R Pt ρ} {cfg : POOCfg R S ρ} (hc : cfg.cond 2 2 = true)
    (hops : OpsTotal ops) {s : POO L S} (hs : Reach ops cfg s) (time : Nat) (ds : List (Draw α)) :
    ∃ s1 ds1 i pt, POO.pull ops cfg s time ds = .ok (s1, ds1, i, pt) ∧
      ∀ time' r ds', ∃ s2 ds2, POO.receive ops cfg s1 time' r ds' = .ok (s2, ds2) := by
  obtain ⟨a, m, hI⟩ := reach_inv hc hs
  obtain ⟨s1, ds1, i, pt, hp⟩ := pull_total hI hops time ds
  obtain ⟨hR, -, -⟩ := pull_ready hI hp
  exact ⟨s1, ds1, i, pt, hp, fun time' r ds' => receive_total hR hops time' r ds'⟩

/-! ## 5. `get_last_point` -/

/-- `get_last_point` from a reachable state: before the first `pull` (`V = []`) it raises
`ValueError` (`np.argmax` of an empty list); otherwise it calls `ops.pull` (with time 0) on the
learner at the FIRST index of a maximal score — its next proposal — and touches nothing else. -/
theorem POO_lastPoint [LinearOrder S] {ops : LearnerOps L α R Pt ρ} {cfg : POOCfg R S ρ}
    (hc : cfg.cond 2 2 = true) {s : POO L S} (hs : Reach ops cfg s) :
    (s.V = [] → POO.lastPoint ops s = .error .valueError) ∧
    (s.V ≠ [] → ∃ i l, argmaxFirst s.V = some i ∧ IsFirstMax s.V i ∧ s.learners[i]? = some l ∧
      POO.lastPoint ops s =
        match ops.pull l 0 with
        | .error e => .error e
        | .ok (l', pt) => .ok ({ s with learners := s.learners.set i l' }, i, pt)) := by
  obtain ⟨a, m, hI⟩ := reach_inv hc hs
  constructor
  · intro h
    simp [POO.lastPoint, h, argmaxFirst_nil]
  · intro h
    obtain ⟨i, hi⟩ := argmaxFirst_isSome h
    have hmax := argmaxFirst_spec hi
    have hlt : i < s.learners.length := by rw [← hI.hV]; exact isFirstMax_lt_length hmax
    refine ⟨i, s.learners[i], hi, hmax, List.getElem?_eq_getElem hlt, ?_⟩
    simp only [POO.lastPoint, hi, List.getElem?_eq_getElem hlt, bind, Except.bind, pure, Except.pure]
    cases ops.pull s.learners[i] 0 <;> rfl

/-! ## 6. The parameter grid -/

/-- The parameters handed to `create` along a run are `rhoOf N i` for grid pairs `(N, i)` which
are pairwise distinct, with `N = 2^a ≥ 2` and `i < N` (`i = 1` for `N = 2`: the pair `(2, 0)` is
never used, and the first learner has `(2, 1)`); exactly one learner exists per pair.  (That
`create` is called with `rhoOf N phase` is part of `PullEffect` in `POO_routing`.) -/
theorem POO_grid_pairs {ops : LearnerOps L α R Pt ρ} {cfg : POOCfg R S ρ} (hc : cfg.cond 2 2 = true)
    {s' : POO L S} {xs : List (RoundIn α R)} {log : List (Entry R)}
    (h : POO.run ops cfg POO.init xs = .ok (s', log)) :
    s'.learners.length = (createdPairs log).length ∧ (createdPairs log).Nodup ∧
    (∀ p ∈ createdPairs log, (∃ a, 1 ≤ a ∧ p.1 = 2 ^ a) ∧ p.2 < p.1 ∧ (p.1 = 2 → p.2 = 1)) ∧
    (xs ≠ [] → (createdPairs log).head? = some (2, 1)) := by
  obtain ⟨hlen, hpw, hall⟩ := run_created (inv_init' cfg hc) h
  refine ⟨by simpa [POO.init] using hlen, ?_, ?_, ?_⟩
  · exact hpw.imp (fun {p q} hlt heq => by rw [heq] at hlt; exact Nat.lt_irrefl _ hlt)
  · intro p hp
    obtain ⟨h1, -, h3, h4⟩ := hall p hp
    refine ⟨h3, h4, fun h2 => ?_⟩
    simp only [nextKey, POO.init] at h1
    simp at h1
    omega
  · intro hne
    cases xs with
    | nil => exact absurd rfl hne
    | cons x xs =>
      obtain ⟨s1, e, pt, log', hr, -, rfl⟩ := (run_cons_ok_iff ..).mp h
      obtain ⟨-, -, -, hcr, -⟩ := round_spec (inv_init' cfg hc) hr
      have : e.created = some (2, 1) := by rw [hcr]; simp [creates, POO.init, hc]
      simp [createdPairs, this]

/-- Over ℝ: for `0 < rhomax < 1` the grid values `rhomax^(2N/(2i+1))` of the learners
constructed along a run are pairwise distinct (across all doublings) and lie in `(0, rhomax)`. -/
theorem POO_grid_real {ops : LearnerOps L α R Pt ρ} {cfg : POOCfg R S ρ} (hc : cfg.cond 2 2 = true)
    {s' : POO L S} {xs : List (RoundIn α R)} {log : List (Entry R)}
    (h : POO.run ops cfg POO.init xs = .ok (s', log)) {rhomax : ℝ} (h0 : 0 < rhomax) (h1 : rhomax < 1) :
    ((createdPairs log).map (fun p => gridRho rhomax p.1 p.2)).Nodup ∧
    ∀ p ∈ createdPairs log, 0 < gridRho rhomax p.1 p.2 ∧ gridRho rhomax p.1 p.2 < rhomax := by
  obtain ⟨-, hnd, hall, -⟩ := POO_grid_pairs hc h
  constructor
  · refine (List.nodup_map_iff_inj_on hnd).mpr ?_
    intro p hp q hq heq
    obtain ⟨⟨a, -, ha⟩, -, -⟩ := hall p hp
    obtain ⟨⟨b, -, hb⟩, -, -⟩ := hall q hq
    rw [gridRho_eq_iff h0 h1, ha, hb] at heq
    obtain ⟨hab, hij⟩ := gridExp_inj_pow2 heq
    exact Prod.ext (by rw [ha, hb, hab]) hij
  · intro p hp
    exact ⟨gridRho_pos h0 _ _, (gridRho_lt_rhomax_iff h0 h1 _ _).mpr (hall p hp).2.1⟩

/-- the arithmetic behind it, for arbitrary grid pairs: powers of two `N`, `0 ≤ i < N` -/
theorem POO_grid_arith {rhomax : ℝ} (h0 : 0 < rhomax) (h1 : rhomax < 1) (a b i j : ℕ) :
    (gridRho rhomax (2 ^ a) i = gridRho rhomax (2 ^ b) j → a = b ∧ i = j) ∧
    (i < 2 ^ a → 1 < gridExp (2 ^ a) i ∧ 0 < gridRho rhomax (2 ^ a) i ∧ gridRho rhomax (2 ^ a) i < rhomax) :=
  ⟨fun h => gridExp_inj_pow2 ((gridRho_eq_iff h0 h1 ..).mp h),
   fun h => ⟨one_lt_gridExp_iff.mpr h, gridRho_pos h0 _ _, (gridRho_lt_rhomax_iff h0 h1 _ _).mpr h⟩⟩

/-! ## 7. Non-vacuity (recording learner; oracle true exactly at `(2,2)` and `(4,8)`; rewards
1, 2, 3, …; `upd = sum`) -/

open MT.Ex in
/-- the hypotheses of the theorems are satisfiable -/
example : pooCfg.cond 2 2 = true ∧ OpsTotal (recOps Unit Nat (Nat × Nat)) :=
  ⟨by decide, recOps_total ..⟩

open MT.Ex in
/-- 15 rounds: learner 0 is constructed with `(2,1)` and filled (`m = 1`); doubling to `N = 4`;
one round-robin pass (`n = 8`); a creation block with `m = 2` constructs four learners
`(4,0) … (4,3)`; doubling to `N = 8`; one round-robin pass over the five learners (`n = 24`).
Each learner recorded exactly the rewards of the rounds it served. -/
example : pooState 15 = some (8, 24, 0, 0, some 0) ∧
    pooLists 15 = some ([[1, 2, 11], [3, 4, 12], [5, 6, 13], [7, 8, 14], [9, 10, 15]],
                        [14, 19, 24, 29, 34], [3, 3, 3, 3, 3]) ∧
    pooLog 15 = some [(0, 0, 1), (0, 0, 2), (1, 1, 3), (1, 1, 4), (2, 2, 5), (2, 2, 6), (3, 3, 7),
                      (3, 3, 8), (4, 4, 9), (4, 4, 10), (0, 0, 11), (1, 1, 12), (2, 2, 13),
                      (3, 3, 14), (4, 4, 15)] ∧
    pooPairs 15 = some [(2, 1), (4, 0), (4, 1), (4, 2), (4, 3)] := by decide

open MT.Ex in
/-- in the middle of the creation block (learner 2 being filled: `counter = 1 < m = 2`) -/
example : pooState 5 = some (4, 8, 1, 1, some 0) ∧
    pooLists 5 = some ([[1, 2], [3, 4], [5]], [3, 7, 5], [2, 2, 1]) := by decide

open MT.Ex in
/-- `get_last_point`: `ValueError` before the first `pull`; afterwards the next proposal of the
learner with the highest score (index 4, whose proposal is its reward list) -/
example : pooLast 0 = some (.inl .valueError) ∧ pooLast 15 = some (.inr (4, [9, 10, 15])) := by decide

open MT.Ex in
/-- an oracle refusing `(2,2)`: the first round raises `noneDeref` (`POO_start_failure`) -/
example : pooBad 0 = none ∧ pooBad 1 = some .noneDeref := by decide

end PyXAB
