/-
  Order-type tie (statements explained in `Spec/OrderType.lean`): a table written from the real code that the
  model rule agrees with on every entry (`agrees`, checked by evaluation) and that has an entry for every dense rank
  list of the covered lengths (`complete`, checked by evaluation) determines the model rule on **every** list of
  values of any linear order: the model's choice on `vs` is the table's entry for the order type of `vs`.
-/
import PyXABProofs.Lemmas.OT_Core
import PyXABProofs.Lemmas.OT_Rules
import Mathlib.Algebra.Order.Ring.Rat

namespace PyXAB.OT
open PyXAB PyXAB.OT

section
variable {S : Type} [LinearOrder S]

/-- the common argument: a rule that is unchanged under the dense rank map is given by the table -/
theorem tie_of_map (m : List S → List Nat) (mN : List Nat → List Nat)
    (hm : ∀ vs : List S, mN (denseRanks vs) = m vs)
    (t : Table) (ks : List Nat) (ok : List Nat → Bool)
    (h1 : agrees mN t = true) (h2 : complete t ks ok = true)
    (vs : List S) (hk : vs.length ∈ ks) (hpos : 1 ≤ vs.length) (hok : ok (denseRanks vs) = true) :
    lookup t (denseRanks vs) = some (m vs) := by
  rw [lookup_of_agrees_complete mN t ks ok h1 h2 hk (denseRanks_mem_allDense vs hpos) hok, hm vs]

end

variable {S : Type} [LinearOrder S] [Inhabited S]

theorem pick_tie (t : Table) (ks : List Nat)
    (h1 : agrees (pick (S := Nat)) t = true) (h2 : complete t ks (fun _ => true) = true)
    (vs : List S) (hk : vs.length ∈ ks) (hpos : 1 ≤ vs.length) :
    lookup t (denseRanks vs) = some (pick vs) :=
  tie_of_map pick pick (fun vs => pick_map vs _ (denseRank_isEmb vs)) t ks _ h1 h2 vs hk hpos rfl

theorem sortD_tie (t : Table) (ks : List Nat)
    (h1 : agrees (sortD (S := Nat)) t = true) (h2 : complete t ks (fun _ => true) = true)
    (vs : List S) (hk : vs.length ∈ ks) (hpos : 1 ≤ vs.length) :
    lookup t (denseRanks vs) = some (sortD vs) :=
  tie_of_map sortD sortD (fun vs => sortD_map vs _ (denseRank_isEmb vs)) t ks _ h1 h2 vs hk hpos rfl

omit [Inhabited S] in
theorem amaxFirst_tie (t : Table) (ks : List Nat)
    (h1 : agrees (amaxFirst (S := Nat)) t = true) (h2 : complete t ks (fun _ => true) = true)
    (vs : List S) (hk : vs.length ∈ ks) (hpos : 1 ≤ vs.length) :
    lookup t (denseRanks vs) = some (amaxFirst vs) :=
  tie_of_map amaxFirst amaxFirst (fun vs => amaxFirst_map vs _ (denseRank_isEmb vs)) t ks _ h1 h2 vs hk hpos rfl

omit [Inhabited S] in
theorem backB_tie (t : Table) (ks : List Nat)
    (h1 : agrees (backB (S := Nat)) t = true) (h2 : complete t ks botFirst = true)
    (vs : List S) (hk : vs.length ∈ ks) (hpos : 2 ≤ vs.length)
    (hbot : ∀ b, vs.head? = some b → ∀ x ∈ vs, b ≤ x) :
    lookup t (denseRanks vs) = some (backB vs) :=
  tie_of_map backB backB (fun vs => backB_map vs _ (denseRank_isEmb vs)) t ks _ h1 h2 vs hk (by omega)
    (denseRanks_head_bot vs hbot (by omega))

omit [Inhabited S] in
theorem amaxArm_tie (t : Table) (ks : List Nat)
    (h1 : agrees (amaxArm (S := Nat)) t = true) (h2 : complete t ks botFirst = true)
    (vs : List S) (hk : vs.length ∈ ks) (hpos : 1 ≤ vs.length)
    (hbot : ∀ b, vs.head? = some b → ∀ x ∈ vs, b ≤ x) :
    lookup t (denseRanks vs) = some (amaxArm vs) :=
  tie_of_map amaxArm amaxArm (fun vs => amaxArm_map vs _ (denseRank_isEmb vs)) t ks _ h1 h2 vs hk hpos
    (denseRanks_head_bot vs hbot hpos)

/-! ## sanity: the hypotheses are satisfiable and the theorems apply to concrete values -/

section sanity

def pickTable2 : Table := [([0, 0], [1]), ([0, 1], [1]), ([1, 0], [0])]

example : agrees (pick (S := Nat)) pickTable2 = true := by decide
example : complete pickTable2 [2] (fun _ => true) = true := by decide

example (a b : ℚ) : lookup pickTable2 (denseRanks [a, b]) = some (pick [a, b]) :=
  pick_tie pickTable2 [2] (by decide) (by decide) [a, b] (by simp) (by simp)

example : pick [(3 : ℤ), -1] = [0] := by
  have := pick_tie pickTable2 [2] (by decide) (by decide) [(3 : ℤ), -1] (by simp) (by simp)
  have hr : denseRanks [(3 : ℤ), -1] = [1, 0] := by decide
  rw [hr] at this
  exact (Option.some.inj this).symm

def sortTable2 : Table := [([0, 0], [0, 1]), ([0, 1], [1, 0]), ([1, 0], [0, 1])]
def amaxTable2 : Table := [([0, 0], [0]), ([0, 1], [1]), ([1, 0], [0])]
def botTable2 : Table := [([0, 0], [0]), ([0, 1], [0])]

example : agrees (sortD (S := Nat)) sortTable2 = true := by decide
example : complete sortTable2 [2] (fun _ => true) = true := by decide
example : agrees (amaxFirst (S := Nat)) amaxTable2 = true := by decide
example : complete amaxTable2 [2] (fun _ => true) = true := by decide
example : agrees (backB (S := Nat)) botTable2 = true := by decide
example : agrees (amaxArm (S := Nat)) botTable2 = true := by decide
example : complete botTable2 [2] botFirst = true := by decide

example (a b : ℚ) : lookup sortTable2 (denseRanks [a, b]) = some (sortD [a, b]) :=
  sortD_tie sortTable2 [2] (by decide) (by decide) [a, b] (by simp) (by simp)

example (a b : ℚ) : lookup amaxTable2 (denseRanks [a, b]) = some (amaxFirst [a, b]) :=
  amaxFirst_tie amaxTable2 [2] (by decide) (by decide) [a, b] (by simp) (by simp)

example (bot u : ℚ) (h : bot ≤ u) : lookup botTable2 (denseRanks [bot, u]) = some (backB [bot, u]) :=
  backB_tie botTable2 [2] (by decide) (by decide) [bot, u] (by simp) (by simp)
    (by intro b hb x hx; simp at hb hx; subst hb; rcases hx with rfl | rfl <;> simp [h])

example (bot u : ℚ) (h : bot ≤ u) : lookup botTable2 (denseRanks [bot, u]) = some (amaxArm [bot, u]) :=
  amaxArm_tie botTable2 [2] (by decide) (by decide) [bot, u] (by simp) (by simp)
    (by intro b hb x hx; simp at hb hx; subst hb; rcases hx with rfl | rfl <;> simp [h])

end sanity

end PyXAB.OT
