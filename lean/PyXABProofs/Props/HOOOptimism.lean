/-
  *Optimism of the traversed path* — the key deterministic lemma of the regret analysis of HOO
  and HCT — for the models `PyXABModel/Model/TreeBandit.lean` of T-HOO, HCT and VHCT
  (VHCT = HCT with `cfg.variance = true`).

  "Fix a point `xstar` of the domain and a level `fstar`.  Call a state *optimistic* when every
  cell whose closed box contains `xstar` has U-value `≥ fstar` (in the regret analysis this is the
  high-probability event `U_{h,i}(t) ≥ f*` for the cells containing a maximiser; here it is a
  hypothesis on the state).  Then, in every state reached by the algorithm which is optimistic,
  (1) every cell containing `xstar` has B-value `≥ fstar`, and (2) every cell on the path which
  the next `pull` traverses, from the root to the pulled cell, has B-value `≥ fstar` and U-value
  `≥ fstar`: **the algorithm only ever pulls cells whose optimistic index is at least `fstar`**."

  The theorems hold for all runs (any number of rounds), every ordered field of coordinates,
  every linear order of scores, all numeric formulas (fields of `HOOCfg` / `HCTCfg`) and the five
  partition classes.

  Vocabulary.
  * `Spec/TBIndex.lean`, `Props/C05.lean`: the invariants `HOOInv` / `HCTInv`, the B-recursion
    `BRec`, the greedy path `GreedyPath` stored by `pull`, the reachable states `HOORun` / `HCTRun`
    (rounds `pull; receive`, one well-formed draw per `receive`).
  * `Spec/OptHSpec.lean` (new): `OPTH.Optimistic`, the conclusions `OPTH.BOptimistic` (1) and
    `OPTH.PathOptimistic` (2), the geometric invariant `OPTH.TInv` (children boxes tile the box of
    every split cell), and `OPTH.HOORunFit` / `OPTH.HCTRunFit`: `HOORun` / `HCTRun` whose draws
    also satisfy what NumPy guarantees (`DrawOK`: random split points lie in the interval being
    split; automatic for the deterministic classes — `*_det`).
  * Lemmas: `Lemmas/OPTH_Geo.lean` (`TInv` along `make_children`, from C02 `childBoxes_tiles`),
    `Lemmas/OPTH_Opt.lean` ((1) and (2) for any tree with the B-recursion), `Lemmas/OPTH_Run.lean`
    (`TInv` along runs; the documented loop `HOO.run` / `HCT.run` of `Spec/TBRun.lean` produces
    such runs), `Lemmas/OPTH_Root.lean` (the root keeps `B = inf`).

  A remark on the root.  `updateBackwardTree` never writes the B-value of the root and the
  descent never reads it: C05's B-recursion is about non-root cells, and in every reachable state
  the root still has `B = cfg.inf` (`HOO_root_B`, `HCT_root_B`).  So (1) is stated for non-root
  cells, (2) says `U ≥ fstar` for every path cell and `B ≥ fstar` for every non-root path cell,
  and when `inf` is a top element `B ≥ fstar` holds at the root as well (`*_optimism_top`).

  Contents.
  1. T-HOO: `HOO_optimistic_of_visited`, `HOO_optimism_state`, `HOO_optimism` (main),
     `HOO_optimism_top`, `HOO_optimism_det`, `HOO_optimism_run`, `HOO_root_B`.
  2. HCT / VHCT: `HCT_optimistic_of_visited`, `HCT_optimism_state`, `HCT_optimism` (main),
     `HCT_optimism_det`, `HCT_optimism_run`, `HCT_root_B`.
  3. Non-vacuity (`ExOptH`): `α = ℚ`, scores `Fin 16`, binary partition of `[0,1]`,
     `xstar = 1/3`, three rounds of T-HOO and four rounds of HCT and VHCT evaluated by the kernel.
-/
import PyXABProofs.Lemmas.OPTH_Root
import Mathlib.Algebra.Order.Field.Rat
import Mathlib.Tactic.NormNum.Basic

set_option linter.unusedSectionVars false
set_option linter.unusedVariables false

namespace PyXAB
namespace HOOOpt
open _root_.PyXAB.Tree TBA TT TBB OPTH

variable {α R S : Type} [Field α] [LinearOrder α] [IsStrictOrderedRing α]
variable [LinearOrder S] [Inhabited S] [Inhabited R]

/-! ## 1. T-HOO -/

/-- **Unvisited cells are optimistic for free.**  In a state satisfying the invariant of T-HOO,
if `cfg.inf` is a top element of the scores, then the state is optimistic as soon as the VISITED
cells containing `xstar` have `U ≥ fstar`: unvisited cells have `U = inf` (C05
`HOO_unvisited_top`). -/
theorem HOO_optimistic_of_visited {cfg : HOOCfg R S} (htop : ∀ x, x ≤ cfg.inf) {s : HOO α R S}
    (I : HOOInv cfg s) {xstar : List α} {fstar : S}
    (h : ∀ (v : Nat) (nd : Node α (TBSt R S)), s.P.nodes[v]? = some nd → 0 < nd.st.count →
      Box.Mem nd.box xstar → fstar ≤ nd.st.u) :
    Optimistic s.P xstar fstar := by
  intro v nd hnd hm
  by_cases hc : nd.st.count = 0
  · rw [(C05.HOO_unvisited_top I hnd hc).1]
    exact htop _
  · exact h v nd hnd (Nat.pos_of_ne_zero hc) hm

/-- **Optimism of the traversed path, T-HOO, from the invariants of the state** (no run).

In a state `s` satisfying the invariant `HOOInv` of C05 and the geometric invariant `TInv` (the
children boxes of every split cell tile its box, the root cell is the domain `root`), let `xstar`
be a point of `root` and let `s` be optimistic for `xstar`, `fstar`.  Then
(1) every non-root cell whose closed box contains `xstar` has `B ≥ fstar`, and
(2) whenever `pull` returns `(s', v)`, the path it stored is the greedy path of C05 from the root
to the leaf `v`, and every cell on it has `U ≥ fstar` and, below the root, `B ≥ fstar`. -/
theorem HOO_optimism_state {cfg : HOOCfg R S} {k : Kind} {root : Box α} {s : HOO α R S}
    (I : HOOInv cfg s) (hT : TInv k root s.P) {xstar : List α} (hx : Box.Mem root xstar)
    {fstar : S} (hO : Optimistic s.P xstar fstar) :
    BOptimistic s.P xstar fstar ∧
    ∀ s' v, HOO.pull s = .ok (s', v) →
      ∃ path, s'.path = some path ∧ GreedyPath s.P stopHOO path v ∧
        PathOptimistic s.P path fstar := by
  refine ⟨bOptimistic I.wf I.brec hT hO, fun s' v hp => ?_⟩
  obtain ⟨_, _, path, e3, G⟩ := C05.HOO_pull_greedy hp
  exact ⟨path, e3, G, pathOptimistic I.wf I.brec hT hx hO G⟩

/-- **Optimism of the traversed path, T-HOO** (main theorem).

In plain words: run T-HOO (the model of `PyXAB/algos/HOO.py`) on the domain `root` with a
partition of class `k`, for ANY number of rounds `pull; receive`, with any rewards.  Let `xstar`
be a point of the domain and `fstar` a score, and suppose that in the state `s` reached, every
cell whose closed box contains `xstar` has U-value `≥ fstar` (`Optimistic`; for unvisited cells
this is automatic when `inf` is a top element, `HOO_optimistic_of_visited`).  Then:
(1) every non-root cell whose closed box contains `xstar` has B-value `≥ fstar`;
(2) the next `pull` succeeds, and for whatever it returns, `(s', v)`: the path it stored is the
    greedy path (root `0`, each step to the last B-maximal child, ending at the leaf `v`) and every
    cell on it has U-value `≥ fstar` and — except for the root, whose B-value is never written —
    B-value `≥ fstar`; in particular the pulled cell `v` is a leaf with `U = B ≥ fstar`.

Assumptions:
* `hbot`: `cfg.negInf` is a bottom element of the score order (as in C05);
* `hroot`, `hx`: the domain is a valid box (`lo ≤ hi` in every coordinate) and `xstar` lies in it
  (closed containment); `xstar` need not be a maximiser of anything;
* `hrun`: `s` is reachable from `init` by rounds `pull; receive`, one well-formed draw per
  `receive` (C05's `HOORun`), the draws being admissible (`HOORunFit`: the first draw of `init`
  fits the domain, the first draw of every `receive` fits the box of the pulled cell — `DrawOK`;
  nothing to check for Binary, DimensionBinary, Kary: `HOO_optimism_det`);
* `hO`: the state `s` is optimistic for `xstar`, `fstar`. -/
theorem HOO_optimism (cfg : HOOCfg R S) (hbot : ∀ x, cfg.negInf ≤ x) (k : Kind) (root : Box α)
    (hroot : Box.Valid root) (xstar : List α) (hx : Box.Mem root xstar) (fstar : S)
    {s : HOO α R S} (hrun : HOORunFit cfg k root s) (hO : Optimistic s.P xstar fstar) :
    BOptimistic s.P xstar fstar ∧
    (∃ s' v, HOO.pull s = .ok (s', v)) ∧
    ∀ s' v, HOO.pull s = .ok (s', v) →
      ∃ path, s'.path = some path ∧ GreedyPath s.P stopHOO path v ∧
        PathOptimistic s.P path fstar ∧
        ∃ nd, s.P.nodes[v]? = some nd ∧ nd.children = none ∧ nd.st.b = nd.st.u ∧
          fstar ≤ nd.st.u := by
  have I := C05.HOO_run_inv hbot hrun.toRun
  have hT := hrun.tinv hbot hroot
  obtain ⟨h1, h2⟩ := HOO_optimism_state I hT hx hO
  refine ⟨h1, C05.HOO_pull_ok I, fun s' v hp => ?_⟩
  obtain ⟨path, e1, G, hP⟩ := h2 s' v hp
  refine ⟨path, e1, G, hP, ?_⟩
  obtain ⟨nd, hnd, hu, _⟩ := hP v (List.mem_of_getLast? G.last)
  obtain ⟨nd', hnd', hleaf⟩ := G.stop
  obtain rfl := getElem?_inj hnd hnd'
  have hv : 0 < v := by
    rcases Nat.eq_zero_or_pos v with rfl | h
    · obtain ⟨r, cs, q1, q2⟩ := I.root_split
      obtain rfl := getElem?_inj q1 hnd
      have : some cs = none := q2.symm.trans hleaf
      cases this
    · exact h
  exact ⟨nd, hnd, hleaf, (I.brec v hv nd hnd).1 hleaf, hu⟩

/-- **The root of T-HOO keeps its initial B-value `inf`** in every reachable state (the code
never writes it). -/
theorem HOO_root_B {α : Type} [Add α] [Sub α] [Mul α] [Div α] [OfNat α 2] [NatCast α]
    {cfg : HOOCfg R S} (hbot : ∀ x, cfg.negInf ≤ x) {k : Kind} {root : Box α} {s : HOO α R S}
    (h : HOORun cfg k root s) : ∃ r, s.P.nodes[0]? = some r ∧ r.st.b = cfg.inf :=
  HOORun.rootB hbot h

/-- **Optimism of the traversed path, T-HOO, `inf` a top element**: under the assumptions of
`HOO_optimism`, if moreover `cfg.inf` is a top element of the scores, then EVERY cell of the path
stored by the next `pull` — the root included — has `B ≥ fstar` and `U ≥ fstar`. -/
theorem HOO_optimism_top (cfg : HOOCfg R S) (hbot : ∀ x, cfg.negInf ≤ x)
    (htop : ∀ x, x ≤ cfg.inf) (k : Kind) (root : Box α) (hroot : Box.Valid root)
    (xstar : List α) (hx : Box.Mem root xstar) (fstar : S) {s : HOO α R S}
    (hrun : HOORunFit cfg k root s) (hO : Optimistic s.P xstar fstar)
    {s' : HOO α R S} {v : Nat} (hp : HOO.pull s = .ok (s', v)) :
    ∃ path, s'.path = some path ∧ path.head? = some 0 ∧ path.getLast? = some v ∧
      ∀ p ∈ path, ∃ nd, s.P.nodes[p]? = some nd ∧ fstar ≤ nd.st.b ∧ fstar ≤ nd.st.u := by
  obtain ⟨_, _, h3⟩ := HOO_optimism cfg hbot k root hroot xstar hx fstar hrun hO
  obtain ⟨path, e1, G, hP, _⟩ := h3 s' v hp
  refine ⟨path, e1, G.head, G.last, fun p hpm => ?_⟩
  obtain ⟨nd, hnd, hu, hb⟩ := hP p hpm
  refine ⟨nd, hnd, ?_, hu⟩
  rcases Nat.eq_zero_or_pos p with rfl | h0
  · obtain ⟨r, hr, hrb⟩ := HOORun.rootB hbot hrun.toRun
    obtain rfl := getElem?_inj hr hnd
    rw [hrb]
    exact htop _
  · exact hb h0

/-- **Optimism for the deterministic partition classes** (Binary, DimensionBinary, Kary): every
C05 run `HOORun` on a valid domain qualifies, no hypothesis on the draws beyond their
well-formedness. -/
theorem HOO_optimism_det (cfg : HOOCfg R S) (hbot : ∀ x, cfg.negInf ≤ x) (k : Kind)
    (hk : Kind.Deterministic k) (root : Box α) (hroot : Box.Valid root) (xstar : List α)
    (hx : Box.Mem root xstar) (fstar : S) {s : HOO α R S} (hrun : HOORun cfg k root s)
    (hO : Optimistic s.P xstar fstar) :
    BOptimistic s.P xstar fstar ∧
    (∃ s' v, HOO.pull s = .ok (s', v)) ∧
    ∀ s' v, HOO.pull s = .ok (s', v) →
      ∃ path, s'.path = some path ∧ GreedyPath s.P stopHOO path v ∧
        PathOptimistic s.P path fstar ∧
        ∃ nd, s.P.nodes[v]? = some nd ∧ nd.children = none ∧ nd.st.b = nd.st.u ∧
          fstar ≤ nd.st.u :=
  HOO_optimism cfg hbot k root hroot xstar hx fstar (HOORunFit.of_det hbot hk hroot hrun) hO

/-- **Optimism, phrased with the documented loop** `HOO.run` of `Spec/TBRun.lean` (construction,
then one `pull; receive` per input): after any run which returned, with well-formed inputs
(`InputsOK`) and good draws (`TT.HOO.GoodDraws` of C01), the conclusions of `HOO_optimism` hold
for the final state.  Since every prefix of a run is a run, this covers every `pull` of every
run. -/
theorem HOO_optimism_run (cfg : HOOCfg R S) (hbot : ∀ x, cfg.negInf ≤ x) (k : Kind)
    (root : Box α) (hroot : Box.Valid root) (xstar : List α) (hx : Box.Mem root xstar)
    (fstar : S) {ds0 : List (Draw α)} {inputs : List (R × List (Draw α))}
    (hds0 : ∀ d ∈ ds0, DrawOKLen k root.length d) (hf0 : HeadFits k root root ds0)
    (hin : InputsOK k root.length inputs)
    (hG : ∀ s0 ds', HOO.init cfg k root ds0 = .ok (s0, ds') →
      TT.HOO.GoodDraws cfg k root s0 inputs)
    {s : HOO α R S} {H : List (Nat × R)} (hrun : HOO.run cfg k root ds0 inputs = .ok (s, H))
    (hO : Optimistic s.P xstar fstar) :
    BOptimistic s.P xstar fstar ∧
    (∃ s' v, HOO.pull s = .ok (s', v)) ∧
    ∀ s' v, HOO.pull s = .ok (s', v) →
      ∃ path, s'.path = some path ∧ GreedyPath s.P stopHOO path v ∧
        PathOptimistic s.P path fstar ∧
        ∃ nd, s.P.nodes[v]? = some nd ∧ nd.children = none ∧ nd.st.b = nd.st.u ∧
          fstar ≤ nd.st.u :=
  HOO_optimism cfg hbot k root hroot xstar hx fstar
    (HOORunFit.of_run hbot hroot hds0 hf0 hin hG hrun) hO

/-! ## 2. HCT / VHCT -/

/-- Unvisited cells are optimistic for free (C05 `HCT_unvisited_top`). -/
theorem HCT_optimistic_of_visited {cfg : HCTCfg R S} (htop : ∀ x, x ≤ cfg.inf) {s : HCT α R S}
    (I : HCTInv cfg s) {xstar : List α} {fstar : S}
    (h : ∀ (v : Nat) (nd : Node α (TBSt R S)), s.P.nodes[v]? = some nd → 0 < nd.st.count →
      Box.Mem nd.box xstar → fstar ≤ nd.st.u) :
    Optimistic s.P xstar fstar := by
  intro v nd hnd hm
  by_cases hc : nd.st.count = 0
  · rw [C05.HCT_unvisited_top I hnd hc]
    exact htop _
  · exact h v nd hnd (Nat.pos_of_ne_zero hc) hm

/-- `pull` of HCT / VHCT changes thresholds only: optimism is not affected. -/
theorem Optimistic.sameButTau {P Q : Part α (TBSt R S)} {xstar : List α} {fstar : S}
    (hO : Optimistic P xstar fstar) (h : SameButTau P Q) : Optimistic Q xstar fstar := by
  intro v nd' hnd' hm
  obtain ⟨nd, a1, a2⟩ := h.inv hnd'
  rw [a2] at hm ⊢
  exact hO v nd a1 hm

/-- … and the conclusion can be read in the state before `pull`. -/
theorem PathOptimistic.sameButTau_back {P Q : Part α (TBSt R S)} {path : List Nat} {fstar : S}
    (hP : PathOptimistic Q path fstar) (h : SameButTau P Q) : PathOptimistic P path fstar := by
  intro p hp
  obtain ⟨nd', hnd', hu, hb⟩ := hP p hp
  obtain ⟨nd, a1, a2⟩ := h.inv hnd'
  rw [a2] at hu hb
  exact ⟨nd, a1, hu, hb⟩

/-- **Optimism of the traversed path, HCT / VHCT, from the invariants of the state** (no run).

In a state `s` satisfying `HCTInv` (C05) and `TInv`, optimistic for a point `xstar` of the domain
and `fstar`:  (1) every non-root cell containing `xstar` has `B ≥ fstar`;  (2) whenever `pull`
returns `(s', v)` — `s'` differs from `s` in thresholds and the stored path only
(`SameButTau`) — the stored path is the greedy path of C05 for the stop rule "leaf, or pulled
fewer times than its threshold", and every cell on it has `U ≥ fstar` and, below the root,
`B ≥ fstar` (values read in `s`; they are the same in `s'`). -/
theorem HCT_optimism_state {cfg : HCTCfg R S} {k : Kind} {root : Box α} {s : HCT α R S}
    (I : HCTInv cfg s) (hT : TInv k root s.P) {xstar : List α} (hx : Box.Mem root xstar)
    {fstar : S} (hO : Optimistic s.P xstar fstar) :
    BOptimistic s.P xstar fstar ∧
    ∀ s' v, HCT.pull cfg s = .ok (s', v) →
      SameButTau s.P s'.P ∧
      ∃ path, s'.path = some path ∧ GreedyPath s'.P (stopHCT cfg s') path v ∧
        PathOptimistic s.P path fstar := by
  refine ⟨bOptimistic I.wf I.brec hT hO, fun s' v hp => ?_⟩
  have hpl := C05.HCT_pull_greedy I hp
  have I' := (C05.HCT_pull_ready I hp).inv
  obtain ⟨path, e3, G⟩ := hpl.path
  refine ⟨hpl.same, path, e3, G, ?_⟩
  exact PathOptimistic.sameButTau_back (pathOptimistic I'.wf I'.brec
    (HCT.sameButTau_tinv hT hpl.same) hx (Optimistic.sameButTau hO hpl.same) G) hpl.same

/-- **The root of HCT / VHCT keeps its initial B-value `inf`** in every reachable state. -/
theorem HCT_root_B {α : Type} [Add α] [Sub α] [Mul α] [Div α] [OfNat α 2] [NatCast α]
    {cfg : HCTCfg R S} (hbot : ∀ x, cfg.negInf ≤ x) (htop : ∀ x, x ≤ cfg.inf) {k : Kind}
    {root : Box α} {s : HCT α R S} {ts : Nat → Nat} (h : HCTRun cfg k root s ts) :
    ∃ r, s.P.nodes[0]? = some r ∧ r.st.b = cfg.inf :=
  HCTRun.rootB hbot htop h

/-- **Optimism of the traversed path, HCT / VHCT** (main theorem).

In plain words: run HCT or VHCT (the model of `PyXAB/algos/HCT.py`, `VHCT.py`; `cfg.variance`
selects VHCT) on the domain `root` with a partition of class `k`, for ANY number of rounds
`pull; receive`, with any rewards.  Let `xstar` be a point of the domain and `fstar` a score, and
suppose that in the state `s` reached every cell whose closed box contains `xstar` has U-value
`≥ fstar` (`Optimistic`; automatic for unvisited cells, `HCT_optimistic_of_visited`).  Then:
(1) every non-root cell whose closed box contains `xstar` has B-value `≥ fstar`;
(2) the next `pull` succeeds, and for whatever it returns, `(s', v)`: it changed thresholds and
    the stored path only, the stored path is the greedy path from the root `0` to the pulled
    cell `v` — which may be an inner cell: the descent stops at the first cell that is a leaf or
    has been pulled fewer times than its threshold — and EVERY cell on it, the root and the
    pulled cell included, has B-value `≥ fstar` and U-value `≥ fstar`.

Assumptions: `hbot`, `htop`: `cfg.negInf` / `cfg.inf` are a bottom / top element of the scores (as
in C05); `hroot`, `hx`: the domain is a valid box containing `xstar`; `hrun`: `s` is reachable by
rounds `pull; receive` with one well-formed, admissible draw per `receive` (`HCTRunFit`; for the
deterministic classes every C05 run qualifies, `HCT_optimism_det`); `hO`: `s` is optimistic. -/
theorem HCT_optimism (cfg : HCTCfg R S) (hbot : ∀ x, cfg.negInf ≤ x) (htop : ∀ x, x ≤ cfg.inf)
    (k : Kind) (root : Box α) (hroot : Box.Valid root) (xstar : List α)
    (hx : Box.Mem root xstar) (fstar : S) {s : HCT α R S} (hrun : HCTRunFit cfg k root s)
    (hO : Optimistic s.P xstar fstar) :
    BOptimistic s.P xstar fstar ∧
    (∃ s' v, HCT.pull cfg s = .ok (s', v)) ∧
    ∀ s' v, HCT.pull cfg s = .ok (s', v) →
      SameButTau s.P s'.P ∧
      ∃ path, s'.path = some path ∧ GreedyPath s'.P (stopHCT cfg s') path v ∧
        (∀ p ∈ path, ∃ nd, s.P.nodes[p]? = some nd ∧ fstar ≤ nd.st.b ∧ fstar ≤ nd.st.u) ∧
        ∃ nd, s.P.nodes[v]? = some nd ∧ fstar ≤ nd.st.b ∧ fstar ≤ nd.st.u := by
  have I := hrun.inv hbot htop
  have hT := hrun.tinv hbot htop hroot
  obtain ⟨ts, hr⟩ := hrun.toRun
  obtain ⟨h1, h2⟩ := HCT_optimism_state I hT hx hO
  refine ⟨h1, C05.HCT_pull_ok I, fun s' v hp => ?_⟩
  obtain ⟨hsame, path, e1, G, hP⟩ := h2 s' v hp
  have hall : ∀ p ∈ path, ∃ nd, s.P.nodes[p]? = some nd ∧ fstar ≤ nd.st.b ∧ fstar ≤ nd.st.u := by
    intro p hpm
    obtain ⟨nd, hnd, hu, hb⟩ := hP p hpm
    refine ⟨nd, hnd, ?_, hu⟩
    rcases Nat.eq_zero_or_pos p with rfl | h0
    · obtain ⟨r, hr0, hrb⟩ := HCTRun.rootB hbot htop hr
      obtain rfl := getElem?_inj hr0 hnd
      rw [hrb]
      exact htop _
    · exact hb h0
  exact ⟨hsame, path, e1, G, hall, hall v (List.mem_of_getLast? G.last)⟩

/-- **Optimism for the deterministic partition classes** (Binary, DimensionBinary, Kary): every
C05 run `HCTRun` on a valid domain qualifies. -/
theorem HCT_optimism_det (cfg : HCTCfg R S) (hbot : ∀ x, cfg.negInf ≤ x)
    (htop : ∀ x, x ≤ cfg.inf) (k : Kind) (hk : Kind.Deterministic k) (root : Box α)
    (hroot : Box.Valid root) (xstar : List α) (hx : Box.Mem root xstar) (fstar : S)
    {s : HCT α R S} {ts : Nat → Nat} (hrun : HCTRun cfg k root s ts)
    (hO : Optimistic s.P xstar fstar) :
    BOptimistic s.P xstar fstar ∧
    (∃ s' v, HCT.pull cfg s = .ok (s', v)) ∧
    ∀ s' v, HCT.pull cfg s = .ok (s', v) →
      SameButTau s.P s'.P ∧
      ∃ path, s'.path = some path ∧ GreedyPath s'.P (stopHCT cfg s') path v ∧
        (∀ p ∈ path, ∃ nd, s.P.nodes[p]? = some nd ∧ fstar ≤ nd.st.b ∧ fstar ≤ nd.st.u) ∧
        ∃ nd, s.P.nodes[v]? = some nd ∧ fstar ≤ nd.st.b ∧ fstar ≤ nd.st.u :=
  HCT_optimism cfg hbot htop k root hroot xstar hx fstar
    (HCTRunFit.of_det hbot htop hk hroot hrun) hO

/-- **Optimism, phrased with the documented loop** `HCT.run` of `Spec/TBRun.lean`. -/
theorem HCT_optimism_run (cfg : HCTCfg R S) (hbot : ∀ x, cfg.negInf ≤ x)
    (htop : ∀ x, x ≤ cfg.inf) (k : Kind) (root : Box α) (hroot : Box.Valid root)
    (xstar : List α) (hx : Box.Mem root xstar) (fstar : S) {ds0 : List (Draw α)}
    {inputs : List (R × List (Draw α))} (hds0 : ∀ d ∈ ds0, DrawOKLen k root.length d)
    (hf0 : HeadFits k root root ds0) (hin : InputsOK k root.length inputs)
    (hG : ∀ s0 ds', HCT.init cfg k root ds0 = .ok (s0, ds') →
      TT.HCT.GoodDraws cfg k root s0 inputs)
    {s : HCT α R S} {H : List (Nat × R)} (hrun : HCT.run cfg k root ds0 inputs = .ok (s, H))
    (hO : Optimistic s.P xstar fstar) :
    BOptimistic s.P xstar fstar ∧
    (∃ s' v, HCT.pull cfg s = .ok (s', v)) ∧
    ∀ s' v, HCT.pull cfg s = .ok (s', v) →
      SameButTau s.P s'.P ∧
      ∃ path, s'.path = some path ∧ GreedyPath s'.P (stopHCT cfg s') path v ∧
        (∀ p ∈ path, ∃ nd, s.P.nodes[p]? = some nd ∧ fstar ≤ nd.st.b ∧ fstar ≤ nd.st.u) ∧
        ∃ nd, s.P.nodes[v]? = some nd ∧ fstar ≤ nd.st.b ∧ fstar ≤ nd.st.u :=
  HCT_optimism cfg hbot htop k root hroot xstar hx fstar
    (HCTRunFit.of_run hbot htop hroot hds0 hf0 hin hG hrun) hO

end HOOOpt

/-! ## 3. Non-vacuity

`α = ℚ`, rewards `Nat`, scores `Fin 16` (a linear order with bottom `0 = negInf` and top
`15 = inf`), the configurations `cfgH` (T-HOO) and `cfgC var` (HCT / VHCT) of
`Lemmas/TBB_Example.lean` (they do not depend on `α`), the binary partition of `[0,1]`,
`xstar = 1/3`.  States are obtained by evaluating the models with the kernel.

T-HOO, three rounds with rewards `3, 5, 2`:  the tree has 9 cells, the cells containing `1/3`
are `0 = [0,1]`, `1 = [0,1/2]`, `6 = [1/4,1/2]`, `7 = [1/4,3/8]` with U-values `8, 8, 9, 15`, so the
state is optimistic for `fstar = 8` (and for no larger level) — `qS3_optimistic`.  All hypotheses
of `HOO_optimism` are proved (`qS3_fit`, `root01_valid`, `xstarQ_mem`, `cfgH_bot`), the theorem is
instantiated (`qS3_optimism`), and its conclusion is confirmed by evaluation: the fourth `pull`
stores the path `0 → 2 → 4` whose cells have `(U, B) = (8, 15), (11, 11), (15, 15)`, all `≥ 8`;
note that the cells `2 = [1/2,1]` and `4 = [3/4,1]` do NOT contain `xstar`.

HCT and VHCT, four rounds: `cQ_optimism` instantiates `HCT_optimism` in the same way
(`fstar = 8`), for both values of the flag. -/
namespace ExOptH
open _root_.PyXAB.Tree TBB TBB.Ex OPTH HOOOpt TT

/-- `[0,1]` -/
def root01 : Box ℚ := [⟨0, 1⟩]
def xstarQ : List ℚ := [1 / 3]
def dq : Draw ℚ := ⟨0, []⟩

instance : Inhabited (HOO ℚ Nat (Fin 16)) := ⟨⟨default, 0, none⟩⟩
instance : Inhabited (HCT ℚ Nat (Fin 16)) := ⟨⟨default, 0, [], none⟩⟩

theorem root01_valid : Box.Valid root01 := by
  intro iv hiv
  simp only [root01, List.mem_cons, List.not_mem_nil, or_false] at hiv
  subst hiv
  show (0 : ℚ) ≤ 1; norm_num

theorem xstarQ_mem : Box.Mem root01 xstarQ := by
  unfold Box.Mem root01 xstarQ
  refine List.Forall₂.cons ⟨?_, ?_⟩ List.Forall₂.nil
  · show (0 : ℚ) ≤ 1 / 3; norm_num
  · show (1 / 3 : ℚ) ≤ 1; norm_num

/-! ### A checker for `Optimistic` (so that the kernel can evaluate it) -/

def memB : Box ℚ → List ℚ → Bool
  | [], [] => true
  | iv :: b, c :: x => decide (iv.lo ≤ c) && decide (c ≤ iv.hi) && memB b x
  | _, _ => false

theorem memB_of_mem {b : Box ℚ} {x : List ℚ} (h : Box.Mem b x) : memB b x = true := by
  replace h : List.Forall₂ Iv.Mem b x := h
  induction h with
  | nil => rfl
  | cons h1 _ ih =>
    simp only [memB, Bool.and_eq_true, decide_eq_true_eq]
    exact ⟨⟨h1.1, h1.2⟩, ih⟩

def optCheck (P : Part ℚ (TBSt Nat (Fin 16))) (x : List ℚ) (f : Fin 16) : Bool :=
  P.nodes.all (fun nd => !(memB nd.box x) || decide (f ≤ nd.st.u))

theorem optimistic_of_check {P : Part ℚ (TBSt Nat (Fin 16))} {x : List ℚ} {f : Fin 16}
    (h : optCheck P x f = true) : Optimistic P x f := by
  intro v nd hnd hm
  have := List.all_eq_true.1 h nd (List.mem_of_getElem? hnd)
  simpa [memB_of_mem hm] using this

/-! ### T-HOO -/

def qS0 := (getOk (HOO.init cfgH .binary root01 [dq])).1
def qP0 := getOk (HOO.pull qS0)
def qS1 := (getOk (HOO.receive cfgH qP0.1 3 [dq])).1
def qP1 := getOk (HOO.pull qS1)
def qS2 := (getOk (HOO.receive cfgH qP1.1 5 [dq])).1
def qP2 := getOk (HOO.pull qS2)
def qS3 := (getOk (HOO.receive cfgH qP2.1 2 [dq])).1
def qP3 := getOk (HOO.pull qS3)

theorem qS0_eq : HOO.init cfgH .binary root01 [dq] =
    .ok (qS0, (getOk (HOO.init cfgH .binary root01 [dq])).2) := getOk_spec2 (by decide +kernel)
theorem qP0_eq : HOO.pull qS0 = .ok (qP0.1, qP0.2) := getOk_spec2 (by decide +kernel)
theorem qS1_eq : HOO.receive cfgH qP0.1 3 [dq] =
    .ok (qS1, (getOk (HOO.receive cfgH qP0.1 3 [dq])).2) := getOk_spec2 (by decide +kernel)
theorem qP1_eq : HOO.pull qS1 = .ok (qP1.1, qP1.2) := getOk_spec2 (by decide +kernel)
theorem qS2_eq : HOO.receive cfgH qP1.1 5 [dq] =
    .ok (qS2, (getOk (HOO.receive cfgH qP1.1 5 [dq])).2) := getOk_spec2 (by decide +kernel)
theorem qP2_eq : HOO.pull qS2 = .ok (qP2.1, qP2.2) := getOk_spec2 (by decide +kernel)
theorem qS3_eq : HOO.receive cfgH qP2.1 2 [dq] =
    .ok (qS3, (getOk (HOO.receive cfgH qP2.1 2 [dq])).2) := getOk_spec2 (by decide +kernel)
theorem qP3_eq : HOO.pull qS3 = .ok (qP3.1, qP3.2) := getOk_spec2 (by decide +kernel)

/-- the state after three rounds is reachable (C05's `HOORun`) -/
theorem qS3_run : HOORun cfgH .binary root01 qS3 := by
  have r0 : HOORun cfgH .binary root01 qS0 := HOORun.init (ds := [dq]) (by decide) qS0_eq
  have r1 : HOORun cfgH .binary root01 qS1 :=
    HOORun.round (d := dq) (ds := []) r0 qP0_eq
      (show DrawOKLen qP0.1.P.kind (dimn qP0.1.P) dq by decide +kernel) qS1_eq
  have r2 : HOORun cfgH .binary root01 qS2 :=
    HOORun.round (d := dq) (ds := []) r1 qP1_eq
      (show DrawOKLen qP1.1.P.kind (dimn qP1.1.P) dq by decide +kernel) qS2_eq
  exact HOORun.round (d := dq) (ds := []) r2 qP2_eq
      (show DrawOKLen qP2.1.P.kind (dimn qP2.1.P) dq by decide +kernel) qS3_eq

/-- … with admissible draws (the class is deterministic) -/
theorem qS3_fit : HOORunFit cfgH .binary root01 qS3 :=
  HOORunFit.of_det cfgH_bot (k := .binary) trivial root01_valid qS3_run

/-- the tree after three rounds: per cell `(box, count, U, B, children)` -/
theorem qS3_view : qS3.P.nodes.map
      (fun nd => (nd.box, nd.st.count, nd.st.u.val, nd.st.b.val, nd.children)) =
    [([⟨0, 1⟩], 3, 8, 15, some [1, 2]), ([⟨0, 1 / 2⟩], 2, 8, 8, some [5, 6]),
     ([⟨1 / 2, 1⟩], 1, 11, 11, some [3, 4]), ([⟨1 / 2, 3 / 4⟩], 0, 15, 15, none),
     ([⟨3 / 4, 1⟩], 0, 15, 15, none), ([⟨0, 1 / 4⟩], 0, 15, 15, none),
     ([⟨1 / 4, 1 / 2⟩], 1, 9, 9, some [7, 8]), ([⟨1 / 4, 3 / 8⟩], 0, 15, 15, none),
     ([⟨3 / 8, 1 / 2⟩], 0, 15, 15, none)] := by decide +kernel

/-- **the hypothesis `Optimistic` holds** in that state for `xstar = 1/3`, `fstar = 8` -/
theorem qS3_optimistic : Optimistic qS3.P xstarQ (8 : Fin 16) :=
  optimistic_of_check (by decide +kernel)

/-- … and fails for `fstar = 9` (the root `[0,1]` contains `1/3` and has `U = 8`): the
hypothesis is not vacuous in the other direction either -/
theorem qS3_not_optimistic : ¬ Optimistic qS3.P xstarQ (9 : Fin 16) := by
  intro h
  have hnd : qS3.P.nodes[0]? = some (qS3.P.nodes[0]?.getD default) := by
    have : (qS3.P.nodes[0]?).isSome = true := by decide +kernel
    cases h0 : qS3.P.nodes[0]? with
    | none => rw [h0] at this; cases this
    | some x => rfl
  have hb : (qS3.P.nodes[0]?.getD default).box = root01 := by decide +kernel
  have hu : (qS3.P.nodes[0]?.getD default).st.u = 8 := by decide +kernel
  have := h 0 _ hnd (hb ▸ xstarQ_mem)
  rw [hu] at this
  exact absurd this (by decide)

/-- **`HOO_optimism` instantiated**: every hypothesis is discharged -/
theorem qS3_optimism :
    BOptimistic qS3.P xstarQ (8 : Fin 16) ∧
    (∃ s' v, HOO.pull qS3 = .ok (s', v)) ∧
    ∀ s' v, HOO.pull qS3 = .ok (s', v) →
      ∃ path, s'.path = some path ∧ GreedyPath qS3.P stopHOO path v ∧
        PathOptimistic qS3.P path 8 ∧
        ∃ nd, qS3.P.nodes[v]? = some nd ∧ nd.children = none ∧ nd.st.b = nd.st.u ∧
          8 ≤ nd.st.u :=
  HOO_optimism cfgH cfgH_bot .binary root01 root01_valid xstarQ xstarQ_mem 8 qS3_fit
    qS3_optimistic

/-- the conclusion, for the `pull` which the kernel evaluates: the stored path is `0 → 2 → 4` -/
theorem qP3_path : (qP3.1.path, qP3.2) = (some [0, 2, 4], 4) := by decide +kernel

theorem qP3_pathOptimistic : PathOptimistic qS3.P [0, 2, 4] (8 : Fin 16) := by
  obtain ⟨path, e1, _, hP, _⟩ := qS3_optimism.2.2 _ _ qP3_eq
  have : qP3.1.path = some [0, 2, 4] := congrArg Prod.fst qP3_path
  rw [this] at e1
  cases e1
  exact hP

/-- `inf = 15` is a top element, so `HOO_optimism_top` applies as well -/
theorem cfgH_top : ∀ x, x ≤ cfgH.inf := fun x => Fin.le_last x

example : ∃ path, qP3.1.path = some path ∧ path.head? = some 0 ∧ path.getLast? = some qP3.2 ∧
    ∀ p ∈ path, ∃ nd, qS3.P.nodes[p]? = some nd ∧ (8 : Fin 16) ≤ nd.st.b ∧ 8 ≤ nd.st.u :=
  HOO_optimism_top cfgH cfgH_bot cfgH_top .binary root01 root01_valid xstarQ xstarQ_mem 8 qS3_fit
    qS3_optimistic qP3_eq

/-- `HOO_optimistic_of_visited`: it is enough to look at the three visited cells containing
`1/3` -/
example : Optimistic qS3.P xstarQ (8 : Fin 16) :=
  HOO_optimistic_of_visited cfgH_top (C05.HOO_run_inv cfgH_bot qS3_run)
    (fun v nd hnd _ hm => qS3_optimistic v nd hnd hm)

/-! ### HCT (`var = false`) and VHCT (`var = true`) -/

def cQ0 (var : Bool) := (getOk (HCT.init (cfgC var) .binary root01 [dq])).1
def cR0 (var : Bool) := getOk (HCT.pull (cfgC var) (cQ0 var))
def cQ1 (var : Bool) := (getOk (HCT.receive (cfgC var) (cR0 var).1 3 [dq])).1
def cR1 (var : Bool) := getOk (HCT.pull (cfgC var) (cQ1 var))
def cQ2 (var : Bool) := (getOk (HCT.receive (cfgC var) (cR1 var).1 5 [dq])).1
def cR2 (var : Bool) := getOk (HCT.pull (cfgC var) (cQ2 var))
def cQ3 (var : Bool) := (getOk (HCT.receive (cfgC var) (cR2 var).1 2 [dq])).1
def cR3 (var : Bool) := getOk (HCT.pull (cfgC var) (cQ3 var))
def cQ4 (var : Bool) := (getOk (HCT.receive (cfgC var) (cR3 var).1 2 [dq])).1
def cR4 (var : Bool) := getOk (HCT.pull (cfgC var) (cQ4 var))

theorem cQ0_eq (var : Bool) : HCT.init (cfgC var) .binary root01 [dq] =
    .ok (cQ0 var, (getOk (HCT.init (cfgC var) .binary root01 [dq])).2) :=
  getOk_spec2 (by cases var <;> decide +kernel)
theorem cR0_eq (var : Bool) : HCT.pull (cfgC var) (cQ0 var) = .ok ((cR0 var).1, (cR0 var).2) :=
  getOk_spec2 (by cases var <;> decide +kernel)
theorem cQ1_eq (var : Bool) : HCT.receive (cfgC var) (cR0 var).1 3 [dq] =
    .ok (cQ1 var, (getOk (HCT.receive (cfgC var) (cR0 var).1 3 [dq])).2) :=
  getOk_spec2 (by cases var <;> decide +kernel)
theorem cR1_eq (var : Bool) : HCT.pull (cfgC var) (cQ1 var) = .ok ((cR1 var).1, (cR1 var).2) :=
  getOk_spec2 (by cases var <;> decide +kernel)
theorem cQ2_eq (var : Bool) : HCT.receive (cfgC var) (cR1 var).1 5 [dq] =
    .ok (cQ2 var, (getOk (HCT.receive (cfgC var) (cR1 var).1 5 [dq])).2) :=
  getOk_spec2 (by cases var <;> decide +kernel)
theorem cR2_eq (var : Bool) : HCT.pull (cfgC var) (cQ2 var) = .ok ((cR2 var).1, (cR2 var).2) :=
  getOk_spec2 (by cases var <;> decide +kernel)
theorem cQ3_eq (var : Bool) : HCT.receive (cfgC var) (cR2 var).1 2 [dq] =
    .ok (cQ3 var, (getOk (HCT.receive (cfgC var) (cR2 var).1 2 [dq])).2) :=
  getOk_spec2 (by cases var <;> decide +kernel)
theorem cR3_eq (var : Bool) : HCT.pull (cfgC var) (cQ3 var) = .ok ((cR3 var).1, (cR3 var).2) :=
  getOk_spec2 (by cases var <;> decide +kernel)
theorem cQ4_eq (var : Bool) : HCT.receive (cfgC var) (cR3 var).1 2 [dq] =
    .ok (cQ4 var, (getOk (HCT.receive (cfgC var) (cR3 var).1 2 [dq])).2) :=
  getOk_spec2 (by cases var <;> decide +kernel)
theorem cR4_eq (var : Bool) : HCT.pull (cfgC var) (cQ4 var) = .ok ((cR4 var).1, (cR4 var).2) :=
  getOk_spec2 (by cases var <;> decide +kernel)

/-- the state after four rounds is reachable with admissible draws -/
theorem cQ4_fit (var : Bool) : HCTRunFit (cfgC var) .binary root01 (cQ4 var) := by
  have hf : ∀ (P : Part ℚ (TBSt Nat (Fin 16))) (v : Nat),
      SplitFits .binary root01 P v [dq] :=
    fun P v => splitFits_of_det (k := .binary) trivial (by decide)
  have r0 : HCTRunFit (cfgC var) .binary root01 (cQ0 var) :=
    HCTRunFit.init (ds := [dq]) (by decide) (headFits_of_det (k := .binary) trivial (by decide)) (cQ0_eq var)
  have r1 : HCTRunFit (cfgC var) .binary root01 (cQ1 var) :=
    HCTRunFit.round (d := dq) (ds := []) r0 (cR0_eq var)
      (show DrawOKLen (cR0 var).1.P.kind (dimn (cR0 var).1.P) dq by
        cases var <;> decide +kernel) (hf _ _) (cQ1_eq var)
  have r2 : HCTRunFit (cfgC var) .binary root01 (cQ2 var) :=
    HCTRunFit.round (d := dq) (ds := []) r1 (cR1_eq var)
      (show DrawOKLen (cR1 var).1.P.kind (dimn (cR1 var).1.P) dq by
        cases var <;> decide +kernel) (hf _ _) (cQ2_eq var)
  have r3 : HCTRunFit (cfgC var) .binary root01 (cQ3 var) :=
    HCTRunFit.round (d := dq) (ds := []) r2 (cR2_eq var)
      (show DrawOKLen (cR2 var).1.P.kind (dimn (cR2 var).1.P) dq by
        cases var <;> decide +kernel) (hf _ _) (cQ3_eq var)
  exact HCTRunFit.round (d := dq) (ds := []) r3 (cR3_eq var)
      (show DrawOKLen (cR3 var).1.P.kind (dimn (cR3 var).1.P) dq by
        cases var <;> decide +kernel) (hf _ _) (cQ4_eq var)

/-- HCT after four rounds: per cell `(box, count, U, B, children)`; the cells containing `1/3`
are `0, 1, 6` with `U = 15, 12, 8` -/
theorem cQ4_view : (cQ4 false).P.nodes.map
      (fun nd => (nd.box, nd.st.count, nd.st.u.val, nd.st.b.val, nd.children)) =
    [([⟨0, 1⟩], 0, 15, 15, some [1, 2]), ([⟨0, 1 / 2⟩], 1, 12, 8, some [5, 6]),
     ([⟨1 / 2, 1⟩], 1, 10, 10, some [3, 4]), ([⟨1 / 2, 3 / 4⟩], 0, 15, 15, none),
     ([⟨3 / 4, 1⟩], 0, 15, 15, none), ([⟨0, 1 / 4⟩], 1, 8, 8, none),
     ([⟨1 / 4, 1 / 2⟩], 1, 8, 8, none)] := by decide +kernel

/-- the hypothesis `Optimistic` holds for `xstar = 1/3`, `fstar = 8`, HCT and VHCT -/
theorem cQ4_optimistic (var : Bool) : Optimistic (cQ4 var).P xstarQ (8 : Fin 16) :=
  optimistic_of_check (by cases var <;> decide +kernel)

/-- **`HCT_optimism` instantiated** (HCT and VHCT): every hypothesis is discharged -/
theorem cQ_optimism (var : Bool) :
    BOptimistic (cQ4 var).P xstarQ (8 : Fin 16) ∧
    (∃ s' v, HCT.pull (cfgC var) (cQ4 var) = .ok (s', v)) ∧
    ∀ s' v, HCT.pull (cfgC var) (cQ4 var) = .ok (s', v) →
      SameButTau (cQ4 var).P s'.P ∧
      ∃ path, s'.path = some path ∧ GreedyPath s'.P (stopHCT (cfgC var) s') path v ∧
        (∀ p ∈ path, ∃ nd, (cQ4 var).P.nodes[p]? = some nd ∧ (8 : Fin 16) ≤ nd.st.b ∧
          8 ≤ nd.st.u) ∧
        ∃ nd, (cQ4 var).P.nodes[v]? = some nd ∧ (8 : Fin 16) ≤ nd.st.b ∧ 8 ≤ nd.st.u :=
  HCT_optimism (cfgC var) (cfgC_bot var) (cfgC_top var) .binary root01 root01_valid xstarQ
    xstarQ_mem 8 (cQ4_fit var) (cQ4_optimistic var)

/-- the fifth `pull`, evaluated (HCT and VHCT): the stored path is `0 → 2 → 4`; for HCT its cells
have `(U, B) = (15, 15), (10, 10), (15, 15)`, all `≥ 8`, and `2 = [1/2,1]`, `4 = [3/4,1]` do not
contain `xstar` -/
theorem cR4_path (var : Bool) : ((cR4 var).1.path, (cR4 var).2) = (some [0, 2, 4], 4) := by
  cases var <;> decide +kernel

/-- the conclusion of `HCT_optimism` for that `pull` -/
theorem cR4_pathOptimistic (var : Bool) : ∀ p ∈ [0, 2, 4],
    ∃ nd, (cQ4 var).P.nodes[p]? = some nd ∧ (8 : Fin 16) ≤ nd.st.b ∧ 8 ≤ nd.st.u := by
  obtain ⟨_, path, e1, _, hP, _⟩ := (cQ_optimism var).2.2 _ _ (cR4_eq var)
  have : (cR4 var).1.path = some [0, 2, 4] := congrArg Prod.fst (cR4_path var)
  rw [this] at e1
  cases e1
  exact hP

/-! ### A random partition class: `HOORunFit` is satisfiable there too -/

/-- `RandomBinaryPartition` of `[0,1]` with the split point `1/3` drawn by `init`: the draw is
well-formed and admissible (`0 ≤ 1/3 ≤ 1`), so the initial state is a `HOORunFit` state and the
theorems apply to it (the tree has the cells `[0,1]`, `[0,1/3]`, `[1/3,1]`, all unvisited:
optimistic for every `fstar`) -/
example : ∃ s : HOO ℚ Nat (Fin 16), HOORunFit cfgH .randBinary root01 s ∧
    ∀ fstar, BOptimistic s.P xstarQ fstar := by
  obtain ⟨s, hs⟩ := C05.HOO_init_ok cfgH .randBinary root01 ⟨0, [1 / 3]⟩ []
    (by show 0 < 1 ∧ 1 ≤ 1; exact ⟨by decide, by decide⟩)
  have hfit : HOORunFit cfgH .randBinary root01 s := by
    refine HOORunFit.init (ds := [⟨0, [1 / 3]⟩]) ?_ ?_ hs
    · intro d hd
      simp only [List.mem_cons, List.not_mem_nil, or_false] at hd
      subst hd
      show 0 < 1 ∧ 1 ≤ 1
      exact ⟨by decide, by decide⟩
    · intro _ _
      refine ⟨by decide, 1 / 3, rfl, ?_, ?_⟩
      · show (0 : ℚ) ≤ 1 / 3; norm_num
      · show (1 / 3 : ℚ) ≤ 1; norm_num
  refine ⟨s, hfit, fun fstar => ?_⟩
  have I := C05.HOO_run_inv cfgH_bot hfit.toRun
  refine (HOO_optimism cfgH cfgH_bot .randBinary root01 root01_valid xstarQ xstarQ_mem fstar hfit
    (HOO_optimistic_of_visited cfgH_top I ?_)).1
  intro v nd hnd hc _
  -- after `init` every cell is unvisited
  exfalso
  obtain ⟨_, _, hall⟩ := TBB.init_expand (s0 := HOO.st0 cfgH) (k := .randBinary) (domain := root01)
    (ds := [⟨0, [1 / 3]⟩]) (ds' := []) (P1 := s.P) (by
      intro d hd
      simp only [List.mem_cons, List.not_mem_nil, or_false] at hd
      subst hd
      show 0 < 1 ∧ 1 ≤ 1
      exact ⟨by decide, by decide⟩) (by
      unfold HOO.init at hs
      obtain ⟨⟨P1, ds1⟩, he, h⟩ := TT.bind_ok hs
      simp only [pure, Except.pure, Except.ok.injEq, Prod.mk.injEq] at h
      obtain ⟨rfl, rfl⟩ := h
      exact he)
  rw [(hall v nd hnd).1] at hc
  simp [HOO.st0] at hc

end ExOptH
end PyXAB
