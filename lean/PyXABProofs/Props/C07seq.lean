/-
  Property C07 (SequOOL part) — the recommendation `get_last_point()`.

  In every state between rounds (`SQ.Inv`, see `Props/C12.lean`) reached after at least one
  complete round, `lastPoint` succeeds and returns a cell `v` that was actually handed out and
  evaluated during the search (`v ∈ chosen`, never the root) and whose observed reward (the first
  element of its reward list — its only element, `C12.rewards_once`) is `≥` that of every other
  handed-out cell, whatever the sign of the rewards (`negInf` is a bottom element of the reward
  order); among the cells with maximal reward it is the one handed out last.  Before any round
  (`chosen = []`) `lastPoint` raises (`noneDeref`: the recorded crash of the Python code, which
  dereferences `max_node = None`).  Over a run of the documented loop the recommendation is a
  cell of the history whose received reward is maximal among the rewards of the search phase.
-/
import PyXABProofs.Props.C12

set_option linter.unusedSectionVars false
set_option linter.unusedVariables false

namespace PyXAB
namespace SQ
namespace C07
open Tree TBA

variable {α S : Type} [Add α] [Sub α] [Mul α] [Div α] [OfNat α 2] [NatCast α]
variable [LinearOrder S] [Inhabited S] {negInf : S}

/-- **The recommendation** in an invariant state with at least one evaluated cell: `lastPoint`
returns a handed-out cell `v` with first reward `rv`; every handed-out cell `c` has been
evaluated (`rewards = [r]`) and `r ≤ rv`; `v` is the last such cell of `chosen`. -/
theorem lastPoint_spec (hbot : ∀ x : S, negInf ≤ x) {s : SequOOL α S} (I : Inv negInf s)
    (hne : s.chosen ≠ []) :
    ∃ v rv, SequOOL.lastPoint negInf s = .ok v ∧ v ∈ s.chosen ∧ v ≠ 0 ∧
      firstRew s.P v = some rv ∧
      (∀ c ∈ s.chosen, ∃ nd r, s.P.nodes[c]? = some nd ∧ nd.st.rewards = [r] ∧ r ≤ rv) ∧
      IsMaxLast s.P s.chosen v := by
  obtain ⟨v, h1, h2⟩ := lastPoint_inv hbot I hne
  obtain ⟨hv, rv, a1, a2⟩ := h2.max
  refine ⟨v, rv, h1, hv, fun e => I.root_not_chosen (e ▸ hv), a1, fun c hc => ?_, h2⟩
  obtain ⟨nd, r, n1, n2, n3⟩ := I.chosen_rew c hc
  exact ⟨nd, r, n1, n2, a2 c hc r n3⟩

/-- Before any round `get_last_point()` raises (recorded crash of the Python code). -/
theorem lastPoint_no_round {s : SequOOL α S} (h : s.chosen = []) :
    SequOOL.lastPoint negInf s = .error .noneDeref := lastPoint_nil h

theorem lastPoint_init (k : Kind) (domain : Box α) (hmax : Nat) :
    SequOOL.lastPoint negInf (SequOOL.init k domain hmax : SequOOL α S) = .error .noneDeref :=
  lastPoint_nil rfl

/-- **Over a run** of the documented loop with at least one round: the recommendation is a
search cell `v` of the history, handed out in a round which received the reward `rv`, and `rv`
is `≥` the reward of every round of the search phase (rounds of the exhausted phase hand out
the root `0` and are not considered by the code). -/
theorem recommendation (hbot : ∀ x : S, negInf ≤ x) (k : Kind) (domain : Box α) (hmax : Nat)
    (inputs : List (S × List (Draw α))) (hne : inputs ≠ [])
    (hin : InputsOK k domain.length inputs) {s' : SequOOL α S} {H : List (Nat × S)}
    (hrun : run negInf k domain hmax inputs = .ok (s', H)) :
    ∃ v rv, SequOOL.lastPoint negInf s' = .ok v ∧ (v, rv) ∈ H ∧ v ≠ 0 ∧
      ∀ e ∈ H, e.1 ≠ 0 → e.2 ≤ rv := by
  obtain ⟨x, hx⟩ := List.exists_mem_of_ne_nil inputs hne
  have hK := C12.arity_pos_of_headOK (hin x hx)
  have I0 : Inv negInf (SequOOL.init k domain hmax : SequOOL α S) := C12.init_Inv k domain hmax hK
  obtain ⟨s'', H'', h1, I', _, _, _, _, _, j, j1, j2, j3, j4, j5⟩ :=
    runRounds_inv hbot inputs _ 1 I0 hin
  have hrun' : runRounds negInf (SequOOL.init k domain hmax) 1 inputs = .ok (s', H) := hrun
  rw [hrun'] at h1
  simp only [Except.ok.injEq, Prod.mk.injEq] at h1
  obtain ⟨rfl, rfl⟩ := h1
  have hrew := (run_rewards hbot inputs _ 1 I0 hin s' H hrun').2
  simp only [SequOOL.init, List.length_nil, Nat.zero_add, List.nil_append] at j4 j5
  -- the first round is a search round
  have hj : 1 ≤ j := by
    apply Nat.pos_of_ne_zero
    rintro rfl
    have hex : Exhausted s' := j3 (by
      cases inputs with
      | nil => exact absurd rfl hne
      | cons _ _ => simp)
    have hc : s'.chosen = [] := by simpa using j4
    -- exhausted states have a non-empty `chosen`
    have hcd : 1 ≤ s'.currDepth := by unfold Exhausted at hex; omega
    have := I'.cd_le_depth
    obtain ⟨l, hl⟩ := layer_exists I'.wf this
    obtain ⟨_, hlne, hmem⟩ := I'.wf.layers_mem _ l hl
    obtain ⟨i, hi⟩ := List.exists_mem_of_ne_nil l hlne
    obtain ⟨nd, n1, n2⟩ := (hmem i).1 hi
    have hlt := lt_length_of_getElem? n1
    have hlen := I'.len
    have hloc : s'.loc = 0 := by
      apply Nat.eq_zero_of_not_pos
      intro hp
      obtain ⟨_, _, _, _, t3, _⟩ := I'.opening (by simpa using hp)
      unfold Exhausted at hex; omega
    simp only [pend, hloc, Nat.lt_irrefl, decide_false, Bool.false_eq_true, if_false, hc,
      List.length_nil] at hlen
    obtain rfl : i = 0 := by omega
    obtain ⟨r0, r1, r2, _⟩ := I'.wf.root
    obtain rfl := getElem?_inj r1 n1
    omega
  have hcne : s'.chosen ≠ [] := by
    rw [j4]
    intro h
    have := congrArg List.length h
    simp at this; omega
  obtain ⟨v, rv, l1, l2, l3, l4, l5, _⟩ := lastPoint_spec hbot I' hcne
  -- membership in the history
  have hmemH : ∀ c, c ∈ s'.chosen → ∃ e ∈ H, e.1 = c := by
    intro c hc
    have : c ∈ H.map (·.1) := by
      rw [j5]; exact List.mem_append_left _ (j4 ▸ hc)
    obtain ⟨e, e1, e2⟩ := List.mem_map.1 this
    exact ⟨e, e1, e2⟩
  have hchosen : ∀ e ∈ H, e.1 ≠ 0 → e.1 ∈ s'.chosen := by
    intro e he h0
    have : e.1 ∈ H.map (·.1) := List.mem_map.2 ⟨e, he, rfl⟩
    rw [j5] at this
    rcases List.mem_append.1 this with h | h
    · rw [j4]; exact h
    · exact absurd (List.eq_of_mem_replicate h) h0
  obtain ⟨e, e1, e2⟩ := hmemH v l2
  obtain ⟨nd, n1, n2⟩ := hrew e e1 (by rw [e2]; exact l3)
  have hrv : e.2 = rv := by
    rw [e2] at n1
    simp only [firstRew, n1, n2, Option.bind_some, List.head?_cons, Option.some.injEq] at l4
    exact l4
  refine ⟨v, rv, l1, ?_, l3, fun e' he' h0 => ?_⟩
  · rw [← e2, ← hrv]; exact e1
  · obtain ⟨nd', r', m1, m2, m3⟩ := l5 e'.1 (hchosen e' he' h0)
    obtain ⟨nd'', k1, k2⟩ := hrew e' he' h0
    obtain rfl := getElem?_inj m1 k1
    rw [m2] at k2
    cases k2
    exact m3

/-! ## Non-vacuity (the run of `C12`: α := Nat, S := Int, binary partition, hmax = 3) -/

section examples
open C12

/-- the recommendation after each prefix of the run of `C12.inputs12`: before any round the
recorded crash; then always the best evaluated cell so far (cell 2 with reward 5, cell 4 with
reward 7, cell 6 — the later one of the two cells with reward 7 —, cell 8 with reward 9), also
when all rewards seen are negative (cell 1 with reward -3 after one round), and unchanged by
the pulls of the exhausted phase. -/
def recAfter (n : Nat) : Option (Except Err Nat) :=
  (run (-1000 : Int) .binary dom2 3 (inputs12.take n)).toOption.map
    (fun p => SequOOL.lastPoint (-1000 : Int) p.1)

example : (List.range 13).map recAfter =
    [some (.error .noneDeref), some (.ok 1), some (.ok 2), some (.ok 2), some (.ok 4),
     some (.ok 4), some (.ok 6), some (.ok 6), some (.ok 8), some (.ok 8), some (.ok 8),
     some (.ok 8), some (.ok 8)] := by decide +kernel

/-- the theorem applied to a concrete run with a bottom element (`S := Nat`, `-inf := 0`) -/
example : ∃ s' H v rv, run (0 : Nat) .binary dom2 3 inputsN = .ok (s', H) ∧
    SequOOL.lastPoint (0 : Nat) s' = .ok v ∧ (v, rv) ∈ H ∧ ∀ e ∈ H, e.1 ≠ 0 → e.2 ≤ rv := by
  obtain ⟨s', H, h1, _⟩ := run_total (negInf := (0 : Nat)) Nat.zero_le .binary dom2 3 inputsN
    (by decide)
  obtain ⟨v, rv, a1, a2, _, a4⟩ := recommendation (negInf := (0 : Nat)) Nat.zero_le .binary dom2 3
    inputsN (by decide) (by decide) h1
  exact ⟨s', H, v, rv, h1, a1, a2, a4⟩

example : (run (0 : Nat) .binary dom2 3 inputsN).toOption.map
    (fun p => SequOOL.lastPoint (0 : Nat) p.1) = some (.ok 8) := by decide +kernel

end examples

end C07
end SQ
end PyXAB
