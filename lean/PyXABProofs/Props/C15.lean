/-
  Property group C15: "the sequence of points depends only on the order of the
  pull / receive_reward calls, not on the values passed as `time`; calling `get_last_point`
  between rounds any number of times changes nothing in the subsequent run (T-HOO, HCT, VHCT,
  Zooming, POO)."

  1. Time irrelevance.
     * `HOO.pull`, `HCT.pull`, `Zooming.pull` and every `receive` of these models take no time
       argument at all: for them the statement holds by construction of the models.
     * `SOO`, `DOO`, `SequOOL`, `VROOM`: `pull … time …` only stores the label in `iteration`.
       `…EqExceptIter s s'` = "all fields equal except `iteration`".
     * `POO` / `GPO`, generic in the base learner: if the base learner ignores `time`, so do the
       wrappers.
     * `StoSOO` is excluded by the property (it compares `time` with the budget `n`):
       `StoSOO_pull_depends_on_time`.
  2. Query harmlessness: `pull` (which is what `get_last_point` calls in T-HOO; for HCT / VHCT /
     Zooming an extra `pull` is the strongest possible query) is idempotent, so any number of
     extra calls before a round changes nothing; POO generically in the base learner.

  Vocabulary: `Spec/RelSpec.lean`; helper lemmas: `Lemmas/RL_*.lean`.
-/
import PyXABProofs.Lemmas.RL_Time
import PyXABProofs.Lemmas.RL_Runs
import PyXABProofs.Lemmas.RL_POO2

namespace PyXAB.C15
open Rel RL
set_option linter.unusedSectionVars false

/-! ## 1. Time irrelevance -/

section sweep
variable {α S : Type} [Add α] [Sub α] [Mul α] [Div α] [OfNat α 2] [NatCast α]
variable [LE S] [DecidableLE S] [Inhabited S]

/-- SOO: `pull` on related states with two different time labels fails with the same exception
or returns the same cell and the same remaining draws, in related states. -/
theorem SOO_pull_time_irrelevant (negInf : S) {s s' : SOO α S} (h : SOOEqExceptIter s s')
    (t t' : Nat) (ds : List (Draw α)) :
    RelRes SOOEqExceptIter Eq (SOO.pull negInf s t ds) (SOO.pull negInf s' t' ds) :=
  soo_pull_time negInf h t t' ds

theorem SOO_receive_preserves {s s' : SOO α S} (h : SOOEqExceptIter s s') (r : S) :
    RelRes1 SOOEqExceptIter (SOO.receive s r) (SOO.receive s' r) :=
  soo_receive_time h r

/-- SOO, whole runs: two label sequences, same draws and rewards ⇒ the same exception, or the same
sequence of cells and final states that differ in `iteration` only. -/
theorem time_irrelevant_SOO (negInf : S) {s s' : SOO α S} (h : SOOEqExceptIter s s')
    (inputs inputs' : List (TIn α S)) (hu : untimed inputs = untimed inputs') :
    RelRes SOOEqExceptIter Eq (runM (sooRound negInf) s inputs) (runM (sooRound negInf) s' inputs') ∧
      outs (runM (sooRound negInf) s inputs) = outs (runM (sooRound negInf) s' inputs') := by
  have key := runM_rel (Rs := SOOEqExceptIter) (Q := Eq) (I := fun x x' => x.2 = x'.2)
    (fun a b x x' hab hx => soo_round_time negInf hab x x' hx) inputs inputs' s s' h
    (forall₂_of_map_eq _ _ _ _ hu)
  exact ⟨RelRes.mono key (fun _ _ h => h) (fun _ _ h => List.forall₂_eq_eq_eq ▸ h), outs_eq_of_rel key⟩

/-- in particular from the initial state -/
theorem time_irrelevant_SOO_init (negInf : S) (k : Kind) (domain : Box α) (hmax : Nat)
    (inputs inputs' : List (TIn α S)) (hu : untimed inputs = untimed inputs') :
    outs (runM (sooRound negInf) (SOO.init negInf k domain hmax) inputs) =
      outs (runM (sooRound negInf) (SOO.init negInf k domain hmax) inputs') :=
  (time_irrelevant_SOO negInf (soo_eqExceptIter_refl _) inputs inputs' hu).2

theorem DOO_pull_time_irrelevant (cfg : DOOCfg α S) {s s' : DOO α S} (h : DOOEqExceptIter s s')
    (t t' : Nat) (ds : List (Draw α)) :
    RelRes DOOEqExceptIter Eq (DOO.pull cfg s t ds) (DOO.pull cfg s' t' ds) :=
  doo_pull_time cfg h t t' ds

theorem DOO_receive_preserves {s s' : DOO α S} (h : DOOEqExceptIter s s') (r : S) :
    RelRes1 DOOEqExceptIter (DOO.receive s r) (DOO.receive s' r) :=
  doo_receive_time h r

theorem time_irrelevant_DOO (cfg : DOOCfg α S) {s s' : DOO α S} (h : DOOEqExceptIter s s')
    (inputs inputs' : List (TIn α S)) (hu : untimed inputs = untimed inputs') :
    RelRes DOOEqExceptIter Eq (runM (dooRound cfg) s inputs) (runM (dooRound cfg) s' inputs') ∧
      outs (runM (dooRound cfg) s inputs) = outs (runM (dooRound cfg) s' inputs') := by
  have key := runM_rel (Rs := DOOEqExceptIter) (Q := Eq) (I := fun x x' => x.2 = x'.2)
    (fun a b x x' hab hx => doo_round_time cfg hab x x' hx) inputs inputs' s s' h
    (forall₂_of_map_eq _ _ _ _ hu)
  exact ⟨RelRes.mono key (fun _ _ h => h) (fun _ _ h => List.forall₂_eq_eq_eq ▸ h), outs_eq_of_rel key⟩

theorem SequOOL_pull_time_irrelevant (negInf : S) {s s' : SequOOL α S} (h : SeqEqExceptIter s s')
    (t t' : Nat) (ds : List (Draw α)) :
    RelRes SeqEqExceptIter Eq (SequOOL.pull negInf s t ds) (SequOOL.pull negInf s' t' ds) :=
  seq_pull_time negInf h t t' ds

theorem SequOOL_receive_preserves {s s' : SequOOL α S} (h : SeqEqExceptIter s s') (r : S) :
    RelRes1 SeqEqExceptIter (SequOOL.receive s r) (SequOOL.receive s' r) :=
  seq_receive_time h r

theorem time_irrelevant_SequOOL (negInf : S) {s s' : SequOOL α S} (h : SeqEqExceptIter s s')
    (inputs inputs' : List (TIn α S)) (hu : untimed inputs = untimed inputs') :
    RelRes SeqEqExceptIter Eq (runM (seqRound negInf) s inputs) (runM (seqRound negInf) s' inputs') ∧
      outs (runM (seqRound negInf) s inputs) = outs (runM (seqRound negInf) s' inputs') := by
  have key := runM_rel (Rs := SeqEqExceptIter) (Q := Eq) (I := fun x x' => x.2 = x'.2)
    (fun a b x x' hab hx => seq_round_time negInf hab x x' hx) inputs inputs' s s' h
    (forall₂_of_map_eq _ _ _ _ hu)
  exact ⟨RelRes.mono key (fun _ _ h => h) (fun _ _ h => List.forall₂_eq_eq_eq ▸ h), outs_eq_of_rel key⟩

end sweep

section vroom
variable {α R S : Type} [Add α] [Sub α] [Mul α] [Div α] [OfNat α 2] [NatCast α]
variable [LE S] [DecidableLE S] [Inhabited S] [Inhabited R]

theorem VROOM_pull_time_irrelevant (cfg : VrCfg R S) {s s' : VROOM α R S} (h : VrEqExceptIter s s')
    (t t' : Nat) (dr : VDraw α) :
    RelRes VrEqExceptIter Eq (VROOM.pull cfg s t dr) (VROOM.pull cfg s' t' dr) :=
  vroom_pull_time cfg h t t' dr

theorem VROOM_receive_preserves (cfg : VrCfg R S) {s s' : VROOM α R S} (h : VrEqExceptIter s s')
    (r : R) : RelRes1 VrEqExceptIter (VROOM.receive cfg s r) (VROOM.receive cfg s' r) :=
  vroom_receive_time cfg h r

theorem time_irrelevant_VROOM (cfg : VrCfg R S) {s s' : VROOM α R S} (h : VrEqExceptIter s s')
    (inputs inputs' : List (Nat × VDraw α × R)) (hu : inputs.map (·.2) = inputs'.map (·.2)) :
    RelRes VrEqExceptIter Eq (runM (vroomRound cfg) s inputs) (runM (vroomRound cfg) s' inputs') ∧
      outs (runM (vroomRound cfg) s inputs) = outs (runM (vroomRound cfg) s' inputs') := by
  have key := runM_rel (Rs := VrEqExceptIter) (Q := Eq) (I := fun x x' => x.2 = x'.2)
    (fun a b x x' hab hx => vroom_round_time cfg hab x x' hx) inputs inputs' s s' h
    (forall₂_of_map_eq _ _ _ _ hu)
  exact ⟨RelRes.mono key (fun _ _ h => h) (fun _ _ h => List.forall₂_eq_eq_eq ▸ h), outs_eq_of_rel key⟩

end vroom

section metaAlgs
variable {L α R S Pt ρ : Type}

/-- POO over a base learner which ignores `time`: `pull` / `receive` do not depend on `time`
(`POO.lastPoint` has no time argument). -/
theorem POO_time_irrelevant (ops : LearnerOps L α R Pt ρ) (h : OpsIgnoreTime ops) (cfg : POOCfg R S ρ)
    (s : POO L S) (t t' : Nat) :
    (∀ ds, POO.pull ops cfg s t ds = POO.pull ops cfg s t' ds) ∧
      (∀ r ds, POO.receive ops cfg s t r ds = POO.receive ops cfg s t' r ds) :=
  ⟨fun ds => poo_pull_time ops h cfg s t t' ds, fun r ds => poo_receive_time ops h cfg s t t' r ds⟩

theorem GPO_time_irrelevant [LT S] [DecidableLT S] (ops : LearnerOps L α R Pt ρ) (h : OpsIgnoreTime ops)
    (cfg : GPOCfg R S ρ) (s : GPO L S Pt) (t t' : Nat) :
    (∀ ds, GPO.pull ops cfg s t ds = GPO.pull ops cfg s t' ds) ∧
      (∀ r ds, GPO.receive ops cfg s t r ds = GPO.receive ops cfg s t' r ds) :=
  ⟨fun ds => gpo_pull_time ops h cfg s t t' ds, fun r ds => gpo_receive_time ops h cfg s t t' r ds⟩

end metaAlgs

section sto
variable {α R S : Type} [Add α] [Sub α] [Mul α] [Div α] [OfNat α 2] [NatCast α]
variable [LE S] [DecidableLE S] [Inhabited S] [Inhabited R]

/-- StoSOO is rightly excluded: with a label beyond the budget `pull` never returns. -/
theorem StoSOO_pull_depends_on_time (cfg : StoCfg S R) (s : StoSOO α R S) (time : Nat)
    (ds : List (Draw α)) (h : cfg.n < time) : StoSOO.pull cfg s time ds = .error .outOfFuel :=
  sto_pull_late cfg s time ds h

end sto

/-- concrete counterexample: same state, same draws, `time = 1` succeeds, `time = 6 > n` does not -/
def exSto : StoCfg Nat Nat where
  negInf := 0
  inf := 10
  zero := 0
  n := 5
  meanOf := fun _ _ => 0
  bOf := fun m _ => m
  countLT := fun c => decide (c < 1)
  hmax := 3

theorem StoSOO_time_counterexample :
    (StoSOO.pull exSto (StoSOO.init exSto .binary ([⟨0, 1⟩] : Box Nat)) 1 []).toOption.map (·.2.2) = some 0 ∧
      StoSOO.pull exSto (StoSOO.init exSto .binary ([⟨0, 1⟩] : Box Nat)) 6 [] = .error .outOfFuel :=
  ⟨by decide +kernel, StoSOO_pull_depends_on_time _ _ _ _ (by decide)⟩

/-! ## 2. Queries between rounds are harmless -/

section treeBandits
variable {α R S : Type} [Add α] [Sub α] [Mul α] [Div α] [OfNat α 2] [NatCast α]
variable [LE S] [DecidableLE S] [Max S] [Min S] [Inhabited S] [Inhabited R]

/-- T-HOO: `pull` reads the tree only and writes `path` only. -/
theorem HOO_pull_frame {s s1 : HOO α R S} {v : Nat} (h : HOO.pull s = .ok (s1, v)) :
    ∃ path, s1 = { s with path := some path } ∧ path.getLast? = some v :=
  hoo_pull_frame h

/-- T-HOO: the result of `pull` depends on the tree `s.P` only: on two states with the same tree
it fails with the same exception, or returns the same cell and stores the same path. -/
theorem HOO_pull_depends_on_tree_only (s s' : HOO α R S) (h : s'.P = s.P) :
    RelRes (fun t t' => t'.P = t.P ∧ t'.path = t.path) Eq (HOO.pull s) (HOO.pull s') := by
  obtain ⟨P, it, path⟩ := s
  obtain ⟨P', it', path'⟩ := s'
  simp only at h
  subst h
  simp only [HOO.pull, bind, Except.bind, pure, Except.pure]
  split_both
  all_goals first | exact rfl | exact ⟨⟨rfl, rfl⟩, rfl⟩

/-- T-HOO: `pull` (= `get_last_point`) is idempotent. -/
theorem HOO_pull_idempotent {s s1 : HOO α R S} {v : Nat} (h : HOO.pull s = .ok (s1, v)) :
    HOO.pull s1 = .ok (s1, v) :=
  hoo_pull_idem h

/-- T-HOO: `pull; pull; receive` = `pull; receive`. -/
theorem HOO_double_pull (cfg : HOOCfg R S) {s s1 : HOO α R S} {v : Nat} (h : HOO.pull s = .ok (s1, v))
    (r : R) (ds : List (Draw α)) :
    (match HOO.pull s1 with
      | .error e => .error e
      | .ok (s2, _) => HOO.receive cfg s2 r ds) = HOO.receive cfg s1 r ds := by
  rw [hoo_pull_idem h]

/-- T-HOO: a round preceded by any number of extra queries is the plain round (also when it
fails). -/
theorem HOO_queries_harmless (cfg : HOOCfg R S) (s : HOO α R S) (q : Nat) (r : R)
    (ds : List (Draw α)) : hooRoundQ cfg s (q, r, ds) = HOO.round cfg s r ds :=
  hooRoundQ_eq_round cfg s q r ds

/-- T-HOO, whole runs: the query counts do not matter at all. -/
theorem HOO_run_queries_harmless (cfg : HOOCfg R S) (s : HOO α R S)
    (inputs : List (Nat × R × List (Draw α))) :
    runM (hooRoundQ cfg) s inputs = runM (hooRoundQ cfg) s (inputs.map (fun x => (0, x.2))) := by
  induction inputs generalizing s with
  | nil => rfl
  | cons x rest ih =>
    obtain ⟨q, r, ds⟩ := x
    simp only [List.map_cons, runM, hooRoundQ_eq_round cfg s q r ds, hooRoundQ_eq_round cfg s 0 r ds]
    cases HOO.round cfg s r ds with
    | error e => rfl
    | ok y =>
      obtain ⟨s1, v⟩ := y
      simp only [ih s1]

/-- HCT / VHCT: `pull` is idempotent (`tau_h` / the nodes' `tau` are recomputed from `iteration`
and `var` only). -/
theorem HCT_pull_idempotent (cfg : HCTCfg R S) {s s1 : HCT α R S} {v : Nat}
    (h : HCT.pull cfg s = .ok (s1, v)) : HCT.pull cfg s1 = .ok (s1, v) :=
  hct_pull_idem cfg h

theorem HCT_queries_harmless (cfg : HCTCfg R S) (s : HCT α R S) (q : Nat) (r : R)
    (ds : List (Draw α)) : hctRoundQ cfg s (q, r, ds) = HCT.round cfg s r ds :=
  hctRoundQ_eq_round cfg s q r ds

theorem HCT_run_queries_harmless (cfg : HCTCfg R S) (s : HCT α R S)
    (inputs : List (Nat × R × List (Draw α))) :
    runM (hctRoundQ cfg) s inputs = runM (hctRoundQ cfg) s (inputs.map (fun x => (0, x.2))) := by
  induction inputs generalizing s with
  | nil => rfl
  | cons x rest ih =>
    obtain ⟨q, r, ds⟩ := x
    simp only [List.map_cons, runM, hctRoundQ_eq_round cfg s q r ds, hctRoundQ_eq_round cfg s 0 r ds]
    cases HCT.round cfg s r ds with
    | error e => rfl
    | ok y =>
      obtain ⟨s1, v⟩ := y
      simp only [ih s1]

end treeBandits

section zooming
variable {α R S : Type} [Add α] [Sub α] [Mul α] [Div α] [OfNat α 2] [NatCast α]
variable [LE α] [DecidableLE α] [LE S] [DecidableLE S] [Inhabited S]

/-- Zooming: `pull` only sets `best`. -/
theorem Zooming_pull_frame (cfg : ZoomCfg R S) {s s1 : Zooming α S} {v : Nat × List α}
    (h : Zooming.pull cfg s = .ok (s1, v)) : s1 = { s with best := some v.1 } :=
  zoom_pull_frame cfg h

theorem Zooming_pull_idempotent (cfg : ZoomCfg R S) {s s1 : Zooming α S} {v : Nat × List α}
    (h : Zooming.pull cfg s = .ok (s1, v)) : Zooming.pull cfg s1 = .ok (s1, v) :=
  zoom_pull_idem cfg h

theorem Zooming_queries_harmless (cfg : ZoomCfg R S) (s : Zooming α S) (q : Nat) (r : R)
    (ds : List (Draw α)) : zoomRoundQ cfg s (q, r, ds) = zoomRoundQ cfg s (0, r, ds) :=
  zoomRoundQ_eq cfg s q r ds

theorem Zooming_run_queries_harmless (cfg : ZoomCfg R S) (s : Zooming α S)
    (inputs : List (Nat × R × List (Draw α))) :
    runM (zoomRoundQ cfg) s inputs = runM (zoomRoundQ cfg) s (inputs.map (fun x => (0, x.2))) := by
  induction inputs generalizing s with
  | nil => rfl
  | cons x rest ih =>
    obtain ⟨q, r, ds⟩ := x
    simp only [List.map_cons, runM, zoomRoundQ_eq cfg s q r ds]
    cases zoomRoundQ cfg s (0, r, ds) with
    | error e => rfl
    | ok y =>
      obtain ⟨s1, v⟩ := y
      simp only [ih s1]

end zooming

section poo
variable {L α R S Pt ρ : Type} [LT S] [DecidableLT S]

/-- POO: a `get_last_point` query leaves the state in its `≈`-class (only the queried learner
changes, within its class). -/
theorem POO_lastPoint_equiv (ops : LearnerOps L α R Pt ρ) (E : L → L → Prop)
    (hq : QueryHarmless ops E) {s s1 : POO L S} {v : Nat × Pt}
    (h : POO.lastPoint ops s = .ok (s1, v)) : POOEquiv E s s1 :=
  poo_lastPoint_equiv hq h

/-- POO: `pull` and `receive` respect `≈`, with equal outputs. -/
theorem POO_ops_respect_equiv (ops : LearnerOps L α R Pt ρ) (E : L → L → Prop)
    (hq : QueryHarmless ops E) (cfg : POOCfg R S ρ) {s s' : POO L S} (h : POOEquiv E s s') (t : Nat) :
    (∀ ds, RelRes (POOEquiv E) Eq (POO.pull ops cfg s t ds) (POO.pull ops cfg s' t ds)) ∧
      (∀ r ds, RelRes (POOEquiv E) Eq (POO.receive ops cfg s t r ds) (POO.receive ops cfg s' t r ds)) :=
  ⟨fun ds => poo_pull_resp hq cfg h t ds, fun r ds => poo_receive_resp hq cfg h t r ds⟩

/-- POO, whole runs: if the run with `get_last_point` queries inserted between the rounds
succeeds, the run without queries succeeds with the same sequence of (learner index, point) and
an equivalent final state. -/
theorem POO_queries_harmless (ops : LearnerOps L α R Pt ρ) (E : L → L → Prop)
    (hq : QueryHarmless ops E) (cfg : POOCfg R S ρ) (s : POO L S) (inputs : List (PIn α R))
    {sf : POO L S} {os : List (Nat × Pt)} (h : runM (pooRoundQ ops cfg) s inputs = .ok (sf, os)) :
    ∃ sf', runM (pooRoundQ ops cfg) s (inputs.map (fun x => { x with queries := 0 })) = .ok (sf', os) ∧
      POOEquiv E sf sf' :=
  poo_runQ_sim hq cfg inputs (pooEquiv_refl hq s) h

/-- POO, protocol-aware hypothesis (`RoundHarmless`: `E` between rounds, the finer `F` between a
`pull` and its `receive`): same conclusion.  `POO_queries_harmless` is the case `F = E`. -/
theorem POO_queries_harmless_round (ops : LearnerOps L α R Pt ρ) (E F : L → L → Prop)
    (hq : RoundHarmless ops E F) (cfg : POOCfg R S ρ) (s : POO L S) (inputs : List (PIn α R))
    {sf : POO L S} {os : List (Nat × Pt)} (h : runM (pooRoundQ ops cfg) s inputs = .ok (sf, os)) :
    ∃ sf', runM (pooRoundQ ops cfg) s (inputs.map (fun x => { x with queries := 0 })) = .ok (sf', os) ∧
      POOEquiv E sf sf' :=
  poo_runQ_sim2 hq cfg inputs (pooEquiv_refl2 hq s) h

theorem QueryHarmless_is_RoundHarmless (ops : LearnerOps L α R Pt ρ) (E : L → L → Prop)
    (hq : QueryHarmless ops E) : RoundHarmless ops E E :=
  QueryHarmless.toRound hq

end poo

section pooOverHOO
variable {α R S S' ρ : Type} [Add α] [Sub α] [Mul α] [Div α] [OfNat α 2] [NatCast α]
variable [LE S] [DecidableLE S] [Max S] [Min S] [Inhabited S] [Inhabited R]
variable [LT S'] [DecidableLT S']

/-- T-HOO (an instance together with its configuration) is a `RoundHarmless` base learner:
`E` = same configuration, tree and round counter (the stored `path` is ignored), `F` = equality.
(It is NOT `QueryHarmless` for this `E`: `receive_reward` reads the `path` stored by the `pull`
of the same round, which is exactly what the protocol-aware formulation accounts for.) -/
theorem HOO_is_RoundHarmless (mk : ρ → HOOCfg R S × Kind × Box α) :
    RoundHarmless (hooLearner (α := α) mk) HOOSameTree Eq :=
  hooLearner_roundHarmless mk

/-- POO over T-HOO base learners: `get_last_point` queries between the rounds of a successful
run change neither the sequence of (learner index, pulled cell) nor, up to the learners' stored
paths, the final state. -/
theorem POO_over_HOO_queries_harmless (mk : ρ → HOOCfg R S × Kind × Box α) (cfg : POOCfg R S' ρ)
    (s : POO (HOOCfg R S × HOO α R S) S') (inputs : List (PIn α R))
    {sf : POO (HOOCfg R S × HOO α R S) S'} {os : List (Nat × Nat)}
    (h : runM (pooRoundQ (hooLearner mk) cfg) s inputs = .ok (sf, os)) :
    ∃ sf', runM (pooRoundQ (hooLearner mk) cfg) s (inputs.map (fun x => { x with queries := 0 })) =
        .ok (sf', os) ∧ POOEquiv HOOSameTree sf sf' :=
  poo_runQ_sim2 (hooLearner_roundHarmless mk) cfg inputs (pooEquiv_refl2 (hooLearner_roundHarmless mk) s) h

end pooOverHOO

/-! ### non-vacuity of the POO statement: a base learner with a cache which `pull` refreshes -/

/-- state = (core, cache); `pull` proposes `core` and overwrites the cache, `receive` adds the
reward to the core and keeps the cache -/
def exOps : LearnerOps (Nat × Nat) Nat Nat Nat Unit where
  create := fun _ ds => .ok ((0, 0), ds)
  pull := fun l _ => .ok ((l.1, l.1 + 1), l.1)
  receive := fun l _ r ds => .ok ((l.1 + r, l.2), ds)

/-- `≈` = same core (the cache is ignored) -/
theorem exOps_queryHarmless : QueryHarmless exOps (fun a b => a.1 = b.1) where
  refl := fun _ => rfl
  symm := fun _ _ h => h.symm
  trans := fun _ _ _ h h' => h.trans h'
  pull_stay := by
    intro l t l' p h
    simp only [exOps, Except.ok.injEq, Prod.mk.injEq] at h
    rw [← h.1]
  pull_resp := by
    intro l₁ l₂ t h
    exact ⟨h, h⟩
  recv_resp := by
    intro l₁ l₂ t r ds h
    exact ⟨by show l₁.1 + r = l₂.1 + r; rw [h], rfl⟩

def exPCfg : POOCfg Nat Nat Unit where
  cond := fun N n => decide (N ≤ n)
  rhoOf := fun _ _ => ()
  upd := fun v k r => (v * k + r) / (k + 1)
  zero := 0

def exPIn : List (PIn Nat Nat) :=
  [⟨0, 1, [], 3, []⟩, ⟨2, 2, [], 5, []⟩, ⟨1, 3, [], 1, []⟩, ⟨3, 4, [], 2, []⟩, ⟨1, 5, [], 7, []⟩]

/-- the run with queries succeeds (5 rounds, 7 queries), so `POO_queries_harmless` applies -/
example : ((runM (pooRoundQ exOps exPCfg) (POO.init : POO (Nat × Nat) Nat) exPIn).toOption.map
    (fun r => r.2.length)) = some 5 := by decide +kernel

/-- and (evaluated independently) the outputs without the queries are the same -/
example : (outs (runM (pooRoundQ exOps exPCfg) (POO.init : POO (Nat × Nat) Nat) exPIn)).toOption =
    (outs (runM (pooRoundQ exOps exPCfg) (POO.init : POO (Nat × Nat) Nat)
      (exPIn.map (fun x => { x with queries := 0 })))).toOption := by decide +kernel

/-! ### POO over concrete T-HOO learners (evaluated by the kernel) -/

def exHCfg : HOOCfg Nat Nat where
  inf := 1000
  negInf := 0
  mean0 := 0
  meanOf := fun rs n => rs.sum / n
  uOf := fun m c d => m + 10 / c + (4 - d)
  expandOK := fun d => decide (d ≤ 2)

def exMk : Unit → HOOCfg Nat Nat × Kind × Box Nat := fun _ => (exHCfg, .binary, [⟨0, 16⟩])

def exPIn' : List (PIn Nat Nat) :=
  [⟨0, 1, [⟨0, []⟩], 3, [⟨0, []⟩]⟩, ⟨2, 2, [⟨0, []⟩], 5, [⟨0, []⟩]⟩, ⟨1, 3, [⟨0, []⟩], 1, [⟨0, []⟩]⟩,
   ⟨3, 4, [⟨0, []⟩], 2, [⟨0, []⟩]⟩, ⟨1, 5, [⟨0, []⟩], 7, [⟨0, []⟩]⟩]

/-- the run with queries succeeds, so `POO_over_HOO_queries_harmless` applies -/
example : ((runM (pooRoundQ (hooLearner exMk) exPCfg) POO.init exPIn').toOption.map
    (fun r => r.2.length)) = some 5 := by decide +kernel

example : (outs (runM (pooRoundQ (hooLearner exMk) exPCfg) POO.init exPIn')).toOption =
    (outs (runM (pooRoundQ (hooLearner exMk) exPCfg) POO.init
      (exPIn'.map (fun x => { x with queries := 0 })))).toOption := by decide +kernel

end PyXAB.C15
