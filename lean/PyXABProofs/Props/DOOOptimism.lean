/-
  The *optimism* guarantee of DOO (deterministic optimistic optimisation), for the model
  `PyXABModel/Model/Sweep.lean`.

  "DOO only ever expands cells whose optimistic value `f(centre) + delta(depth)` is at least the
  optimum":  let `f` be the objective, `xstar` a point of the (valid) domain `root`, and let the
  user's bound `delta` be valid for `f` along `xstar` (`DeltaValid`: for every cell of depth `h`
  whose closed box contains `xstar`, `f xstar ≤ bOf (f centre) (delta h)`).  Then in EVERY run of
  the documented loop (`init`, then any number of rounds `pull; receive`), on any of the five
  partition classes, with any admissible draws, in which every reward is the noiseless value of
  `f` at the point handed out, EVERY expansion event (every cell DOO ever splits) has a score
  (`b`-value `= bOf reward (delta depth)`) `≥ f xstar`.

  Vocabulary.
  * `Spec/SweepSpec.lean`, `Props/C08.lean`: the documented loop `DOO.run`, the instrumented
    `DOO.pullT` and its expansion events `Ev` (layer, cell id, score, tree before the expansion),
    the per-event facts `DOO.EvOK`, `DeltaStable`, `DeltaOK`, `InputsOK`.
  * `Spec/TotalSpec.lean` (C01): `TT.DOO.GoodDraws cfg k root s inputs` — every draw consumed by an
    expansion of the run satisfies what NumPy guarantees (`DrawOK`) for the box being split;
    automatic for the deterministic classes (`optimism_det`).
  * `Spec/OptSpec.lean` (new): `DOO.runT` (= `DOO.run` which also returns the expansion events of
    all its `pull`s; `runT_erasure`), `DOO.Noiseless`, `DOO.DeltaValid`, `OPT.CellAt`.
  * Lemmas: `Lemmas/OPT_Geo.lean` (the leaves of the tree of a run tile the domain — C02's
    `leaves_tile_step` along `loopT` — and every cell is a partition cell of its depth),
    `Lemmas/OPT_Run.lean` (stored rewards are values of `f`; the invariant of a noiseless run).

  Contents.
  1. `DOO.optimism` (main theorem), `DOO.optimism_max`, `DOO.optimism_det`,
     `DOO.optimism_next_pull` (phrased with the un-instrumented `DOO.run`), `DOO.runT_erasure`,
     `DOO.DeltaValid.of_boxes`, `DOO.noiseless_run_exists` (satisfiability of the hypotheses for
     every schedule), `DOO.optimism_step` (single expansion, from the state invariants).
  2. Non-vacuity (`ExOpt`): `α = ℚ`, scores `WithBot ℚ`, binary partition of `[0,1]`,
     `f x = -|x - 1/3|`, `delta h = (1/2)^h`.
-/
import PyXABProofs.Lemmas.OPT_Run
import Mathlib.Algebra.Order.Field.Rat
import Mathlib.Algebra.Order.Monoid.WithTop
import Mathlib.Tactic.Linarith
import Mathlib.Tactic.NormNum.Basic
import Mathlib.Tactic.Ring

set_option linter.unusedSectionVars false

namespace PyXAB
open _root_.PyXAB.Tree TBA SW TT

namespace DOO
variable {α S : Type} [Field α] [LinearOrder α] [IsStrictOrderedRing α]
variable [LinearOrder S] [Inhabited S]

/-! ## 1. The theorems -/

/-- **Erasure**: `runT` is the documented loop `run` plus the list of expansion events. -/
theorem runT_erasure (cfg : DOOCfg α S) (k : Kind) (domain : Box α) (inputs : List (Input α S)) :
    run cfg k domain inputs = (runT cfg k domain inputs).map (fun y => (y.1, y.2.1)) :=
  OPT.DOO.runRounds_eq cfg inputs _

/-- so every successful run has a list of expansion events, and conversely -/
theorem run_ok_iff_runT (cfg : DOOCfg α S) (k : Kind) (domain : Box α)
    (inputs : List (Input α S)) (s : DOO α S) (H : List (Nat × S)) :
    run cfg k domain inputs = .ok (s, H) ↔ ∃ evs, runT cfg k domain inputs = .ok (s, H, evs) :=
  OPT.DOO.runRounds_ok_iff cfg inputs _ s H

/-- `delta` valid on cell boxes, whatever the tree it is evaluated on (e.g. a user-supplied
table `delta(h)`), is valid in the sense of `DeltaValid`. -/
theorem DeltaValid.of_boxes {cfg : DOOCfg α S} {k : Kind} {root : Box α} {f : List α → S}
    {xstar : List α}
    (h : ∀ (P : Part α (SwSt S)) (h : Nat) (δ : S) (b : Box α), cfg.delta P h = .ok δ →
      OPT.CellAt k root h b → Box.Mem b xstar → f xstar ≤ cfg.bOf (f (Box.cpoint b)) δ) :
    DeltaValid cfg k root f xstar :=
  fun P w nd δ _ hC hw _ hm hd => h P nd.depth δ nd.box hd (hC w nd hw) hm

/-- **Optimism of DOO.**

In plain words: run DOO (the model of `PyXAB/algos/DOO.py`) on the domain `root` with a
partition of class `k`, for ANY number of rounds, feeding back at every round the exact value of
the objective `f` at the point `pull` returned.  Then every cell that DOO ever splits had, at
the moment it was split, a `b`-value `reward + delta(depth)` at least `f xstar`.

Assumptions:
* `hbot`: `cfg.negInf` is a bottom element of the score order (`-inf`);
* `hst`: `delta` does not read the stored `b_value`s (`DeltaStable`, true of the code);
* `hroot`, `hx`: the domain is a valid box (`lo ≤ hi` in every coordinate) and `xstar` lies in
  it (closed containment).  `xstar` need not be a maximiser: the statement holds for every
  point along which `delta` is valid; for a maximiser see `optimism_max`;
* `hδ`: `delta` is valid for `f` along `xstar` — `f xstar ≤ bOf (f centre) (delta h)` for every
  partition cell of depth `h` whose closed box contains `xstar` (`DeltaValid`);
* `hds`, `hG`: the draws offered to `pull` are well-formed (`DrawOKLen`) and those consumed by
  expansions are admissible (`DrawOK` for the box being split: `GoodDraws`);
* `hN`: every reward is `f` of the centre (`Box.cpoint`) of the cell handed out (`Noiseless`);
* `hrun`: the run returned (it always does when `delta` never raises and every round is offered
  a draw: C08 `DOO.loop_total`, see `noiseless_run_exists`), with final state `s`, history `H`
  and expansion events `evs` (all rounds, in order).

Conclusion: every expansion event `ev` of the run satisfies `f xstar ≤ ev.score`, where
`ev.score` is the stored `b_value` of the expanded cell `ev.id` (C08 `EvOK.node`). -/
theorem optimism (cfg : DOOCfg α S) (hbot : ∀ x, cfg.negInf ≤ x) (hst : DeltaStable cfg)
    (k : Kind) (root : Box α) (hroot : Box.Valid root) (f : List α → S) (xstar : List α)
    (hx : Box.Mem root xstar) (hδ : DeltaValid cfg k root f xstar)
    (inputs : List (Input α S))
    (hds : ∀ x ∈ inputs, ∀ d ∈ x.2.1, DrawOKLen k root.length d)
    (hG : TT.DOO.GoodDraws cfg k root (init cfg k root) inputs)
    (hN : Noiseless cfg f (init cfg k root) inputs)
    {s : DOO α S} {H : List (Nat × S)} {evs : List (Ev α (SwSt S) S)}
    (hrun : runT cfg k root inputs = .ok (s, H, evs)) :
    ∀ ev ∈ evs, f xstar ≤ ev.score :=
  (OPT.DOO.runRoundsT_optimism cfg hbot hst hx hδ inputs _ s H evs
    (OPT.DOO.OInv.init cfg k hroot f) hds hG hN hrun).2

/-- **Optimism, for a maximiser**: if moreover `f x ≤ f xstar` on the whole domain, the score of
every expanded cell dominates `f` on the whole domain. -/
theorem optimism_max (cfg : DOOCfg α S) (hbot : ∀ x, cfg.negInf ≤ x) (hst : DeltaStable cfg)
    (k : Kind) (root : Box α) (hroot : Box.Valid root) (f : List α → S) (xstar : List α)
    (hx : Box.Mem root xstar) (hmax : ∀ x, Box.Mem root x → f x ≤ f xstar)
    (hδ : DeltaValid cfg k root f xstar) (inputs : List (Input α S))
    (hds : ∀ x ∈ inputs, ∀ d ∈ x.2.1, DrawOKLen k root.length d)
    (hG : TT.DOO.GoodDraws cfg k root (init cfg k root) inputs)
    (hN : Noiseless cfg f (init cfg k root) inputs)
    {s : DOO α S} {H : List (Nat × S)} {evs : List (Ev α (SwSt S) S)}
    (hrun : runT cfg k root inputs = .ok (s, H, evs)) :
    ∀ ev ∈ evs, ∀ x, Box.Mem root x → f x ≤ ev.score :=
  fun ev hev x hxr => le_trans (hmax x hxr)
    (optimism cfg hbot hst k root hroot f xstar hx hδ inputs hds hG hN hrun ev hev)

/-- **Optimism for the deterministic partition classes** (Binary, DimensionBinary, Kary): the
admissibility of the draws follows from their well-formedness, no hypothesis on the run. -/
theorem optimism_det (cfg : DOOCfg α S) (hbot : ∀ x, cfg.negInf ≤ x) (hst : DeltaStable cfg)
    (k : Kind) (hk : Kind.Deterministic k) (root : Box α) (hroot : Box.Valid root)
    (f : List α → S) (xstar : List α) (hx : Box.Mem root xstar)
    (hδ : DeltaValid cfg k root f xstar) (inputs : List (Input α S))
    (hin : InputsOK k root.length inputs)
    (hN : Noiseless cfg f (init cfg k root) inputs)
    {s : DOO α S} {H : List (Nat × S)} {evs : List (Ev α (SwSt S) S)}
    (hrun : runT cfg k root inputs = .ok (s, H, evs)) :
    ∀ ev ∈ evs, f xstar ≤ ev.score :=
  optimism cfg hbot hst k root hroot f xstar hx hδ inputs (fun x hx' => (hin x hx').2)
    (TT.DOO.goodDraws_of_det cfg hk inputs _ hin) hN hrun

/-- **Optimism, phrased with the un-instrumented loop**: after any noiseless run of the
documented loop `DOO.run` (any number of rounds), every expansion made by the next `pull`
(events of `pullT`, C08 `pull_erasure`) is optimistic.  Since every prefix of a run is a run,
this covers every expansion of every run. -/
theorem optimism_next_pull (cfg : DOOCfg α S) (hbot : ∀ x, cfg.negInf ≤ x)
    (hst : DeltaStable cfg) (k : Kind) (root : Box α) (hroot : Box.Valid root)
    (f : List α → S) (xstar : List α) (hx : Box.Mem root xstar)
    (hδ : DeltaValid cfg k root f xstar) (inputs : List (Input α S))
    (hds : ∀ x ∈ inputs, ∀ d ∈ x.2.1, DrawOKLen k root.length d)
    (hG : TT.DOO.GoodDraws cfg k root (init cfg k root) inputs)
    (hN : Noiseless cfg f (init cfg k root) inputs)
    {s : DOO α S} {H : List (Nat × S)} (hrun : run cfg k root inputs = .ok (s, H))
    {t : Nat} {ds ds' : List (Draw α)} {s' : DOO α S} {v : Nat} {tr : List (Ev α (SwSt S) S)}
    (hds' : ∀ d ∈ ds, DrawOKLen k root.length d) (hE : EvDraws k root ds tr)
    (hpull : pullT cfg s t ds = .ok (s', ds', v, tr)) :
    ∀ ev ∈ tr, f xstar ≤ ev.score := by
  obtain ⟨evs, hT⟩ := (run_ok_iff_runT cfg k root inputs s H).1 hrun
  have hO := (OPT.DOO.runRoundsT_optimism cfg hbot hst hx hδ inputs _ s H evs
    (OPT.DOO.OInv.init cfg k hroot f) hds hG hN hT).1
  exact (OPT.DOO.pullT_optimism cfg hbot hst hx hδ hO hds' hE hpull).2

/-- **Single expansion, from the invariants of the state** (no run): in a tree `ev.before` in
which the facts `EvOK` of C08 hold, whose leaves tile the domain and are partition cells
(`OPT.GInv`), and whose evaluated cells store `f` of their point (`OPT.FInv`), the expanded
cell has a score `≥ f xstar`. -/
theorem optimism_step (cfg : DOOCfg α S) (hst : DeltaStable cfg) {k : Kind} {root : Box α}
    {f : List α → S} {xstar : List α} (hx : Box.Mem root xstar)
    (hδ : DeltaValid cfg k root f xstar) {ev : Ev α (SwSt S) S} (hev : EvOK cfg ev)
    (hG : OPT.GInv k root ev.before) (hF : OPT.FInv f ev.before) : f xstar ≤ ev.score :=
  OPT.DOO.event_optimism cfg hst hx hδ hev hG hF

/-- **The hypotheses are satisfiable for every schedule**: whatever the times and the
(well-formed, at least one per round) draws offered to the `pull`s, feeding back `f` of the
handed-out points gives a noiseless run which returns. -/
theorem noiseless_run_exists (cfg : DOOCfg α S) (hbot : ∀ x, cfg.negInf ≤ x)
    (hδok : DeltaOK cfg) (k : Kind) (root : Box α) (f : List α → S)
    (xs : List (Nat × List (Draw α)))
    (hxs : ∀ x ∈ xs, 1 ≤ x.2.length ∧ ∀ d ∈ x.2, DrawOKLen k root.length d) :
    ∃ inputs : List (Input α S), inputs.map (fun x => (x.1, x.2.1)) = xs ∧
      Noiseless cfg f (init cfg k root) inputs ∧
      ∃ s H evs, runT cfg k root inputs = .ok (s, H, evs) := by
  obtain ⟨hI, hk, hd, _⟩ := init_inv cfg k root
  obtain ⟨inputs, h1, h2, s, H, h3⟩ := OPT.DOO.exists_noiseless cfg hbot hδok f xs _ hI
    (by rw [hk, hd]; exact hxs)
  obtain ⟨evs, h4⟩ := (run_ok_iff_runT cfg k root inputs s H).1 h3
  exact ⟨inputs, h1, h2, s, H, evs, h4⟩

end DOO

/-! ## 2. Non-vacuity

`α = ℚ`, scores `WithBot ℚ` (so that the bottom element `-inf` exists), the binary partition of
`[0,1]`, `f x = -|x - 1/3|` (written with `if`, so that the kernel evaluates it), maximiser
`xstar = 1/3`, `delta h = (1/2)^h`, `b = reward + delta`.

ACHIEVED: the validity hypothesis `DeltaValid` is PROVED FOR ALL CELLS of all depths
(`cfgQ_deltaValid`, through `cellAt_shape`: a depth-`h` cell of the binary partition of `[0,1]`
is an interval of width `(1/2)^h`) — not by enumeration.  All other hypotheses of `optimism` are
proved as well (`hbot`, `DeltaStable`, `DeltaOK`, `Box.Valid`, `xstar ∈ root`, `f ≤ f xstar`),
so that `optimism_Q` is the theorem for this instance with only the run itself left as a
hypothesis; `noiseless_Q` shows that noiseless runs of every schedule exist; and for a concrete
6-round run `Noiseless`, `GoodDraws` and the run are evaluated by the kernel: its three
expansions have scores `5/6, 5/12, 5/24 ≥ 0 = f xstar`. -/
namespace ExOpt
open DOO

abbrev Sq := WithBot ℚ

/-- `[0,1]` -/
def root01 : Box ℚ := [⟨0, 1⟩]
def xstarQ : List ℚ := [1 / 3]

/-- `-|x - 1/3|` of the first coordinate -/
def fRat (x : ℚ) : ℚ := if x ≤ 1 / 3 then x - 1 / 3 else 1 / 3 - x
def fQ (x : List ℚ) : Sq := ((fRat (x.headD 0) : ℚ) : WithBot ℚ)

theorem fRat_eq (x : ℚ) : fRat x = -|x - 1 / 3| := by
  unfold fRat
  split
  · rw [abs_of_nonpos (by linarith)]; ring
  · rw [abs_of_nonneg (by linarith)]; ring

def addQ : Sq → Sq → Sq := fun a b => a + b

/-- `delta(h) = (1/2)^h`, `b = reward + delta`, initial reward `-inf` -/
def cfgQ : DOOCfg ℚ Sq :=
  { negInf := ⊥, inf := ((1000 : ℚ) : WithBot ℚ), reward0 := ⊥, bOf := addQ,
    delta := fun _ h => .ok (((1 / 2 : ℚ) ^ h : ℚ) : WithBot ℚ) }

theorem botLe : ∀ x : Sq, cfgQ.negInf ≤ x := fun _ => bot_le
theorem cfgQ_deltaOK : DeltaOK cfgQ := fun _ _ _ _ => ⟨_, rfl⟩
theorem cfgQ_deltaStable : DeltaStable cfgQ := fun _ _ _ _ => rfl

theorem root01_valid : Box.Valid root01 := by
  intro iv hiv
  simp only [root01, List.mem_cons, List.not_mem_nil, or_false] at hiv
  subst hiv
  show (0 : ℚ) ≤ 1; norm_num

theorem xstarQ_mem : Box.Mem root01 xstarQ := by
  unfold Box.Mem root01 xstarQ
  refine List.Forall₂.cons ⟨?_, ?_⟩ List.Forall₂.nil
  · show (0 : ℚ) ≤ 1 / 3; norm_num
  · show (1 / 3 : ℚ) ≤ 1; norm_num

/-- `xstar = 1/3` maximises `f` (on the whole space) -/
theorem fQ_max (x : List ℚ) : fQ x ≤ fQ xstarQ := by
  unfold fQ xstarQ
  rw [WithBot.coe_le_coe, fRat_eq, fRat_eq]
  simp

/-- A depth-`h` cell of the binary partition of `[0,1]` is an interval of width `(1/2)^h`. -/
theorem cellAt_shape {h : Nat} {b : Box ℚ} (hc : OPT.CellAt .binary root01 h b) :
    ∃ lo hi : ℚ, b = [⟨lo, hi⟩] ∧ hi - lo = (1 / 2) ^ h := by
  induction hc with
  | root => exact ⟨0, 1, rfl, by norm_num⟩
  | @child h b c d _ hd hmem ih =>
    obtain ⟨lo, hi, rfl, hw⟩ := ih
    have hdim : d.dim = 0 := by
      have : d.dim < 1 := hd
      omega
    simp only [childBoxes, hdim, List.getElem?_cons_zero, splitChain, List.cons_append,
      List.nil_append, chainIvs, List.map_cons, List.map_nil, List.set_cons_zero, List.mem_cons,
      List.not_mem_nil, or_false] at hmem
    rcases hmem with rfl | rfl
    · refine ⟨lo, Iv.mid ⟨lo, hi⟩, rfl, ?_⟩
      simp only [Iv.mid, mid]
      rw [pow_succ, ← hw]; ring
    · refine ⟨Iv.mid ⟨lo, hi⟩, hi, rfl, ?_⟩
      simp only [Iv.mid, mid]
      rw [pow_succ, ← hw]; ring

/-- **`delta h = (1/2)^h` is valid for `f x = -|x - 1/3|` along `xstar = 1/3`, for all cells of
all depths of the binary partition of `[0,1]`.** -/
theorem cfgQ_deltaValid : DeltaValid cfgQ .binary root01 fQ xstarQ := by
  apply DeltaValid.of_boxes
  intro P h δ b hd hc hm
  obtain ⟨lo, hi, rfl, hw⟩ := cellAt_shape hc
  simp only [cfgQ, Except.ok.injEq] at hd
  subst hd
  unfold Box.Mem xstarQ at hm
  rw [List.forall₂_cons] at hm
  obtain ⟨⟨h1, h2⟩, _⟩ := hm
  simp only at h1 h2
  show fQ xstarQ ≤ addQ (fQ (Box.cpoint [⟨lo, hi⟩])) _
  simp only [fQ, xstarQ, addQ, Box.cpoint, List.map_cons, List.map_nil, List.headD_cons, Iv.mid,
    mid]
  rw [← WithBot.coe_add, WithBot.coe_le_coe, fRat_eq, fRat_eq, ← hw]
  have habs : |(lo + hi) / 2 - 1 / 3| ≤ (hi - lo) / 2 := by
    rw [abs_le]; constructor <;> linarith
  have h0 : |(1 / 3 : ℚ) - 1 / 3| = 0 := by norm_num
  rw [h0]
  linarith

/-- **`optimism` for this instance**: every hypothesis except the run itself is discharged. -/
theorem optimism_Q (inputs : List (Input ℚ Sq)) (hin : InputsOK .binary 1 inputs)
    (hN : Noiseless cfgQ fQ (init cfgQ .binary root01) inputs)
    {s : DOO ℚ Sq} {H : List (Nat × Sq)} {evs : List (Ev ℚ (SwSt Sq) Sq)}
    (hrun : runT cfgQ .binary root01 inputs = .ok (s, H, evs)) :
    ∀ ev ∈ evs, ∀ x, Box.Mem root01 x → fQ x ≤ ev.score :=
  fun ev hev x _ => le_trans (fQ_max x)
    (optimism_det cfgQ botLe cfgQ_deltaStable .binary trivial root01 root01_valid fQ xstarQ
      xstarQ_mem cfgQ_deltaValid inputs hin hN hrun ev hev)

/-- noiseless runs of every schedule exist for this instance -/
theorem noiseless_Q (xs : List (Nat × List (Draw ℚ)))
    (hxs : ∀ x ∈ xs, 1 ≤ x.2.length ∧ ∀ d ∈ x.2, DrawOKLen .binary 1 d) :
    ∃ inputs : List (Input ℚ Sq), inputs.map (fun x => (x.1, x.2.1)) = xs ∧
      Noiseless cfgQ fQ (init cfgQ .binary root01) inputs ∧
      ∃ s H evs, runT cfgQ .binary root01 inputs = .ok (s, H, evs) :=
  noiseless_run_exists cfgQ botLe cfgQ_deltaOK .binary root01 fQ xs hxs

/-! ### A concrete 6-round run, evaluated by the kernel -/

def dq : Draw ℚ := ⟨0, []⟩
def rw' (q : ℚ) : Sq := ((q : ℚ) : WithBot ℚ)

/-- rewards = `f` at the points `1/2, 1/4, 3/4, 1/8, 3/8, 5/16` handed out -/
def inQ : List (Input ℚ Sq) :=
  [(1, [dq], rw' (-(1 / 6))), (2, [dq], rw' (-(1 / 12))), (3, [dq], rw' (-(5 / 12))),
   (4, [dq], rw' (-(5 / 24))), (5, [dq], rw' (-(1 / 24))), (6, [dq], rw' (-(1 / 48)))]

theorem inQ_ok : InputsOK .binary 1 inQ := by decide

theorem inQ_noiseless : Noiseless cfgQ fQ (init cfgQ .binary root01) inQ :=
  OPT.DOO.noiseless_of_check cfgQ fQ inQ _ (by decide +kernel)

/-- the cells handed out, and the three expansions (layer, cell, score): the root with
`b = -1/6 + 1`, then `[0,1/2]` with `b = -1/12 + 1/2`, then `[1/4,1/2]` with `b = -1/24 + 1/4` -/
theorem inQ_run :
    (runT cfgQ .binary root01 inQ).toOption.map (fun r => (r.2.1.map (·.1),
      r.2.2.map (fun ev => (ev.h, ev.id, ev.score)))) =
    some ([0, 1, 2, 3, 4, 5], [(0, 0, rw' (5 / 6)), (1, 1, rw' (5 / 12)), (2, 4, rw' (5 / 24))]) := by
  decide +kernel

/-- the theorem applies to this run: all its expansion scores dominate `f` on `[0,1]` -/
theorem inQ_optimism {s : DOO ℚ Sq} {H : List (Nat × Sq)} {evs : List (Ev ℚ (SwSt Sq) Sq)}
    (hrun : runT cfgQ .binary root01 inQ = .ok (s, H, evs)) :
    ∀ ev ∈ evs, ∀ x, Box.Mem root01 x → fQ x ≤ ev.score :=
  optimism_Q inQ inQ_ok inQ_noiseless hrun

end ExOpt
end PyXAB
