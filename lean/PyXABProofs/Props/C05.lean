/-
  Property C05 — the index discipline of the tree bandits T-HOO, HCT and VHCT.

  "At every round the pulled cell is reached from the root by moving, at each step, to a child
  whose B-value is maximal among its siblings, stopping at a leaf (T-HOO) or at the first cell
  that is a leaf or has been pulled fewer times than its current threshold (HCT, VHCT).
  B-values satisfy B = U at leaves and B = min(U, max over children of B) elsewhere, unvisited
  cells have infinite U, and U is the empirical mean plus nu*rho^depth plus the algorithm's
  confidence width, with delta~ recomputed when the round counter reaches a power of two."

  Models: `PyXABModel/Model/TreeBandit.lean` (`HOO`, `HCT`; VHCT = `HCT` with
  `cfg.variance = true`).  Every numeric formula is a field of `HOOCfg` / `HCTCfg`, so the
  theorems hold for all formulas and all linear orders of scores `S`.  The only hypotheses on
  the configuration are `∀ x, cfg.negInf ≤ x` (bottom) and, for HCT/VHCT, `∀ x, x ≤ cfg.inf`
  (top); they are stated explicitly where used.

  Definitions: `Spec/TBIndex.lean` (`BRec`, `LastMax`, `GreedyPath`, `tsStep`, the invariants
  `HOOInv`/`HCTInv`, the post-`pull` predicates `HOOReady`/`HCTReady`/`HCTPulled`, the
  reachable states `HOORun`/`HCTRun`).  Proofs of the lemmas: `Lemmas/TBB_*.lean`.
-/
import PyXABProofs.Lemmas.TBB_Example

set_option linter.unusedSectionVars false

namespace PyXAB
namespace C05

open Tree TBB

variable {α R S : Type} [Add α] [Sub α] [Mul α] [Div α] [OfNat α 2] [NatCast α]
variable [LinearOrder S] [Inhabited S] [Inhabited R]

/-! ## 0. Arithmetic of `tPlus` (`compute_t_plus`) -/

/-- The lazily refreshed quantities of HCT/VHCT are recomputed (`iteration = tPlus iteration`)
exactly when the round counter is a power of two. -/
theorem refresh_iff_pow2 (n : Nat) : tPlus n = n ↔ ∃ k, n = 2 ^ k :=
  tPlus_eq_self_iff n

theorem le_tPlus (n : Nat) : n ≤ tPlus n := TBB.le_tPlus n

theorem tPlus_lt_two_mul {n : Nat} (hn : 1 ≤ n) : tPlus n < 2 * n := TBB.tPlus_lt_two_mul hn

theorem tPlus_is_pow2 (n : Nat) : ∃ k, tPlus n = 2 ^ k := tPlus_isPow n

/-! ## 1. T-HOO: the invariant along a run -/

/-- `init` establishes the invariant. -/
theorem HOO_init_inv {cfg : HOOCfg R S} {k : Kind} {domain : Box α} {ds ds' : List (Draw α)}
    {s : HOO α R S} (hds : ∀ d ∈ ds, DrawOKLen k domain.length d)
    (h : HOO.init cfg k domain ds = .ok (s, ds')) : HOOInv cfg s :=
  (TBB.HOO_init_inv hds h).1

/-- `init` never raises given one well-formed draw. -/
theorem HOO_init_ok (cfg : HOOCfg R S) (k : Kind) (domain : Box α) (d : Draw α)
    (ds : List (Draw α)) (hd : DrawOKLen k domain.length d) :
    ∃ s, HOO.init cfg k domain (d :: ds) = .ok (s, ds) :=
  TBB.HOO_init_ok cfg k domain d ds hd

/-- `pull` never raises from an invariant state. -/
theorem HOO_pull_ok {cfg : HOOCfg R S} {s : HOO α R S} (I : HOOInv cfg s) :
    ∃ s' v, HOO.pull s = .ok (s', v) :=
  TBB.HOO_pull_ok I

/-- **pull_greedy (T-HOO)**: `pull` changes nothing but the stored path (so no
`count/rewards/mean/u/b` and not the tree), and the stored path is greedy: it starts at the
root `0`, ends at the pulled node `v`, every step goes to a child of maximal B-value — the
last maximal one in list order —, no node before the end is a leaf and `v` is a leaf. -/
theorem HOO_pull_greedy {s s' : HOO α R S} {v : Nat} (h : HOO.pull s = .ok (s', v)) :
    s'.P = s.P ∧ s'.iteration = s.iteration ∧
      ∃ path, s'.path = some path ∧ GreedyPath s.P stopHOO path v :=
  TBB.HOO_pull_spec h

/-- the state after `pull` is ready for `receive` -/
theorem HOO_pull_ready {cfg : HOOCfg R S} {s s' : HOO α R S} {v : Nat} (I : HOOInv cfg s)
    (h : HOO.pull s = .ok (s', v)) : HOOReady cfg s' v :=
  TBB.HOO_pull_ready I h

/-- `receive` after `pull` never raises given one well-formed draw. -/
theorem HOO_receive_ok {cfg : HOOCfg R S} (hbot : ∀ x, cfg.negInf ≤ x) {s : HOO α R S} {v : Nat}
    (Rd : HOOReady cfg s v) (r : R) (d : Draw α) (ds : List (Draw α))
    (hd : DrawOKLen s.P.kind (dimn s.P) d) :
    ∃ s' ds', HOO.receive cfg s r (d :: ds) = .ok (s', ds') := by
  obtain ⟨s', ds', h, _⟩ := HOO_receive_inv hbot Rd r d ds hd
  exact ⟨s', ds', h⟩

/-- `receive` after `pull` re-establishes the invariant and increments the round counter. -/
theorem HOO_receive_inv {cfg : HOOCfg R S} (hbot : ∀ x, cfg.negInf ≤ x) {s s' : HOO α R S}
    {v : Nat} (Rd : HOOReady cfg s v) {r : R} {d : Draw α} {ds ds' : List (Draw α)}
    (hd : DrawOKLen s.P.kind (dimn s.P) d)
    (h : HOO.receive cfg s r (d :: ds) = .ok (s', ds')) :
    HOOInv cfg s' ∧ s'.iteration = s.iteration + 1 := by
  obtain ⟨s1, ds1, h1, I, hit⟩ := TBB.HOO_receive_inv hbot Rd r d ds hd
  rw [h1] at h
  simp only [Except.ok.injEq, Prod.mk.injEq] at h
  obtain ⟨rfl, _⟩ := h
  exact ⟨I, hit⟩

/-- every state reachable from `init` by rounds `pull; receive` satisfies the invariant -/
theorem HOO_run_inv {cfg : HOOCfg R S} (hbot : ∀ x, cfg.negInf ≤ x) {k : Kind} {domain : Box α}
    {s : HOO α R S} (h : HOORun cfg k domain s) : HOOInv cfg s := by
  induction h with
  | init hds h => exact HOO_init_inv hds h
  | round _ hp hd hr ih => exact (HOO_receive_inv hbot (HOO_pull_ready ih hp) hd hr).1

/-! ## 2. T-HOO: the clauses of the property -/

/-- **B_recursion (T-HOO)**: in every invariant state (hence after `init` and after every
`receive`), every valid non-root node `v` has `b = u` if it is a leaf, and otherwise
`b = min u M` where `M` is the maximum of the B-values of its (non-empty list of) children. -/
theorem HOO_B_recursion {cfg : HOOCfg R S} {s : HOO α R S} (I : HOOInv cfg s) {v : Nat}
    {nd : Node α (TBSt R S)} (hv : 0 < v) (hnd : s.P.nodes[v]? = some nd) :
    (nd.children = none → nd.st.b = nd.st.u) ∧
    (∀ cs, nd.children = some cs → cs ≠ [] ∧
      ∃ M, nd.st.b = min nd.st.u M ∧ (∀ c ∈ cs, (s.P.stOf c).b ≤ M) ∧
        ∃ c ∈ cs, (s.P.stOf c).b = M) := by
  obtain ⟨h1, h2⟩ := I.brec v hv nd hnd
  refine ⟨h1, fun cs hcs => ⟨?_, h2 cs hcs⟩⟩
  obtain ⟨hK, a, _, rfl, _⟩ := I.wf.children v nd cs hnd hcs
  intro e
  have := congrArg List.length e
  simp at this; omega

/-- B_recursion after `init` -/
theorem HOO_B_recursion_init {cfg : HOOCfg R S} {k : Kind} {domain : Box α}
    {ds ds' : List (Draw α)} {s : HOO α R S} (hds : ∀ d ∈ ds, DrawOKLen k domain.length d)
    (h : HOO.init cfg k domain ds = .ok (s, ds')) : ∀ v, 0 < v → BRec s.P v :=
  (HOO_init_inv hds h).brec

/-- B_recursion after every successful `receive` (from a post-`pull` state) -/
theorem HOO_B_recursion_receive {cfg : HOOCfg R S} (hbot : ∀ x, cfg.negInf ≤ x)
    {s s' : HOO α R S} {v : Nat} (Rd : HOOReady cfg s v) {r : R} {d : Draw α}
    {ds ds' : List (Draw α)} (hd : DrawOKLen s.P.kind (dimn s.P) d)
    (h : HOO.receive cfg s r (d :: ds) = .ok (s', ds')) : ∀ v, 0 < v → BRec s'.P v :=
  (HOO_receive_inv hbot Rd hd h).1.brec

/-- **unvisited_top (T-HOO)**: an unvisited cell has infinite U — and infinite B. -/
theorem HOO_unvisited_top {cfg : HOOCfg R S} {s : HOO α R S} (I : HOOInv cfg s) {v : Nat}
    {nd : Node α (TBSt R S)} (hnd : s.P.nodes[v]? = some nd) (hc : nd.st.count = 0) :
    nd.st.u = cfg.inf ∧ nd.st.b = cfg.inf :=
  I.unvisited v nd hnd hc

/-- **U_formula_HOO**: every visited cell carries `mean = meanOf rewards count` and
`u = uOf mean count depth` (T-HOO recomputes all U-values every round). -/
theorem U_formula_HOO {cfg : HOOCfg R S} {s : HOO α R S} (I : HOOInv cfg s) {v : Nat}
    {nd : Node α (TBSt R S)} (hnd : s.P.nodes[v]? = some nd) (hc : 0 < nd.st.count) :
    nd.st.mean = cfg.meanOf nd.st.rewards nd.st.count ∧
    nd.st.u = cfg.uOf (cfg.meanOf nd.st.rewards nd.st.count) nd.st.count nd.depth :=
  I.visited v nd hnd hc

/-- U_formula_HOO after every successful `receive` -/
theorem U_formula_HOO_receive {cfg : HOOCfg R S} (hbot : ∀ x, cfg.negInf ≤ x)
    {s s' : HOO α R S} {v : Nat} (Rd : HOOReady cfg s v) {r : R} {d : Draw α}
    {ds ds' : List (Draw α)} (hd : DrawOKLen s.P.kind (dimn s.P) d)
    (h : HOO.receive cfg s r (d :: ds) = .ok (s', ds')) {w : Nat} {nd : Node α (TBSt R S)}
    (hnd : s'.P.nodes[w]? = some nd) (hc : 0 < nd.st.count) :
    nd.st.mean = cfg.meanOf nd.st.rewards nd.st.count ∧
    nd.st.u = cfg.uOf (cfg.meanOf nd.st.rewards nd.st.count) nd.st.count nd.depth :=
  U_formula_HOO (HOO_receive_inv hbot Rd hd h).1 hnd hc

/-- what `LastMax` says, spelled out: a child, maximal among its siblings, and every later
sibling is strictly smaller (ties are resolved towards the later child) -/
theorem lastMax_iff (b : Nat → S) (cs : List Nat) (c : Nat) :
    LastMax b cs c ↔ c ∈ cs ∧ (∀ c' ∈ cs, b c' ≤ b c) ∧
      ∃ pre post, cs = pre ++ c :: post ∧ ∀ x ∈ post, b x < b c :=
  ⟨fun h => ⟨h.mem, h.max, h.last⟩, fun h => ⟨h.1, h.2.1, h.2.2⟩⟩

/-! ## 3. HCT / VHCT: the invariant along a run -/

theorem HCT_init_inv {cfg : HCTCfg R S} {k : Kind} {domain : Box α} {ds ds' : List (Draw α)}
    {s : HCT α R S} (hds : ∀ d ∈ ds, DrawOKLen k domain.length d)
    (h : HCT.init cfg k domain ds = .ok (s, ds')) :
    HCTInv cfg s ∧ ∀ ts, HCTU cfg s.P ts :=
  ⟨(TBB.HCT_init_inv hds h).1, (TBB.HCT_init_inv hds h).2.2.2⟩

theorem HCT_init_ok (cfg : HCTCfg R S) (k : Kind) (domain : Box α) (d : Draw α)
    (ds : List (Draw α)) (hd : DrawOKLen k domain.length d) :
    ∃ s, HCT.init cfg k domain (d :: ds) = .ok (s, ds) :=
  TBB.HCT_init_ok cfg k domain d ds hd

/-- `pull` never raises from an invariant state. -/
theorem HCT_pull_ok {cfg : HCTCfg R S} {s : HCT α R S} (I : HCTInv cfg s) :
    ∃ s' v, HCT.pull cfg s = .ok (s', v) := by
  obtain ⟨s', v, h, _⟩ := HCT_pull_full I
  exact ⟨s', v, h⟩

/-- **pull_greedy (HCT / VHCT)**: `pull` from an invariant state changes thresholds and the
stored path only (`SameButTau`: no `count/rewards/mean/u/b/var`, not the tree); HCT: `tau_h`
becomes `zero :: [tauH δ̃ h | h = 1..depth]` with `δ̃ = dtHalf (tPlus iteration)`; VHCT: every
node of depth `1..depth` gets `tau = tauNode δ̃ depth var`; the stored path is greedy in the new
state for the stop condition "leaf, or pulled fewer times than its threshold". -/
theorem HCT_pull_greedy {cfg : HCTCfg R S} {s s' : HCT α R S} {v : Nat} (I : HCTInv cfg s)
    (h : HCT.pull cfg s = .ok (s', v)) : HCTPulled cfg s s' v := by
  obtain ⟨s1, v1, h1, hp, _⟩ := HCT_pull_full I
  rw [h1] at h
  simp only [Except.ok.injEq, Prod.mk.injEq] at h
  obtain ⟨rfl, rfl⟩ := h
  exact hp

theorem HCT_pull_ready {cfg : HCTCfg R S} {s s' : HCT α R S} {v : Nat} (I : HCTInv cfg s)
    (h : HCT.pull cfg s = .ok (s', v)) : HCTReady cfg s' v := by
  obtain ⟨s1, v1, h1, _, hr⟩ := HCT_pull_full I
  rw [h1] at h
  simp only [Except.ok.injEq, Prod.mk.injEq] at h
  obtain ⟨rfl, rfl⟩ := h
  exact hr

/-- `receive` after `pull` never raises given one well-formed draw. -/
theorem HCT_receive_ok {cfg : HCTCfg R S} (hbot : ∀ x, cfg.negInf ≤ x) (htop : ∀ x, x ≤ cfg.inf)
    {s : HCT α R S} {v : Nat} (Rd : HCTReady cfg s v) (r : R) (d : Draw α) (ds : List (Draw α))
    (hd : DrawOKLen s.P.kind (dimn s.P) d) :
    ∃ s' ds', HCT.receive cfg s r (d :: ds) = .ok (s', ds') := by
  obtain ⟨s', ds', h, _⟩ := HCT_receive_inv hbot htop Rd r d ds hd
  exact ⟨s', ds', h⟩

/-- `receive` after `pull` re-establishes the invariant, increments the round counter and
maintains the U-formula for the ghost time stamps updated by `tsStep`. -/
theorem HCT_receive_inv {cfg : HCTCfg R S} (hbot : ∀ x, cfg.negInf ≤ x) (htop : ∀ x, x ≤ cfg.inf)
    {s s' : HCT α R S} {v : Nat} (Rd : HCTReady cfg s v) {r : R} {d : Draw α}
    {ds ds' : List (Draw α)} (hd : DrawOKLen s.P.kind (dimn s.P) d)
    (h : HCT.receive cfg s r (d :: ds) = .ok (s', ds')) :
    HCTInv cfg s' ∧ s'.iteration = s.iteration + 1 ∧
      ∀ ts, HCTU cfg s.P ts → HCTU cfg s'.P (tsStep s.iteration s.P v ts) := by
  obtain ⟨s1, ds1, h1, I, hit, hU⟩ := TBB.HCT_receive_inv hbot htop Rd r d ds hd
  rw [h1] at h
  simp only [Except.ok.injEq, Prod.mk.injEq] at h
  obtain ⟨rfl, _⟩ := h
  exact ⟨I, hit, hU⟩

/-- every state reachable from `init` by rounds `pull; receive` satisfies the invariant, and
its U-values obey the formula for the ghost time stamps maintained along the run -/
theorem HCT_run_inv {cfg : HCTCfg R S} (hbot : ∀ x, cfg.negInf ≤ x) (htop : ∀ x, x ≤ cfg.inf)
    {k : Kind} {domain : Box α} {s : HCT α R S} {ts : Nat → Nat}
    (h : HCTRun cfg k domain s ts) : HCTInv cfg s ∧ HCTU cfg s.P ts := by
  induction h with
  | init ts0 hds h => exact ⟨(HCT_init_inv hds h).1, (HCT_init_inv hds h).2 ts0⟩
  | round _ hp hd hr ih =>
    have Rd := HCT_pull_ready ih.1 hp
    have hsame := (HCT_pull_greedy ih.1 hp).same
    obtain ⟨I, _, hU⟩ := HCT_receive_inv hbot htop Rd hd hr
    exact ⟨I, hU _ (ih.2.transfer hsame)⟩

/-! ## 4. HCT / VHCT: the clauses of the property -/

/-- **B_recursion (HCT / VHCT)**: as for T-HOO, in every invariant state. -/
theorem HCT_B_recursion {cfg : HCTCfg R S} {s : HCT α R S} (I : HCTInv cfg s) {v : Nat}
    {nd : Node α (TBSt R S)} (hv : 0 < v) (hnd : s.P.nodes[v]? = some nd) :
    (nd.children = none → nd.st.b = nd.st.u) ∧
    (∀ cs, nd.children = some cs → cs ≠ [] ∧
      ∃ M, nd.st.b = min nd.st.u M ∧ (∀ c ∈ cs, (s.P.stOf c).b ≤ M) ∧
        ∃ c ∈ cs, (s.P.stOf c).b = M) := by
  obtain ⟨h1, h2⟩ := I.brec v hv nd hnd
  refine ⟨h1, fun cs hcs => ⟨?_, h2 cs hcs⟩⟩
  obtain ⟨hK, a, _, rfl, _⟩ := I.wf.children v nd cs hnd hcs
  intro e
  have := congrArg List.length e
  simp at this; omega

theorem HCT_B_recursion_init {cfg : HCTCfg R S} {k : Kind} {domain : Box α}
    {ds ds' : List (Draw α)} {s : HCT α R S} (hds : ∀ d ∈ ds, DrawOKLen k domain.length d)
    (h : HCT.init cfg k domain ds = .ok (s, ds')) : ∀ v, 0 < v → BRec s.P v :=
  (HCT_init_inv hds h).1.brec

theorem HCT_B_recursion_receive {cfg : HCTCfg R S} (hbot : ∀ x, cfg.negInf ≤ x)
    (htop : ∀ x, x ≤ cfg.inf) {s s' : HCT α R S} {v : Nat} (Rd : HCTReady cfg s v) {r : R}
    {d : Draw α} {ds ds' : List (Draw α)} (hd : DrawOKLen s.P.kind (dimn s.P) d)
    (h : HCT.receive cfg s r (d :: ds) = .ok (s', ds')) : ∀ v, 0 < v → BRec s'.P v :=
  (HCT_receive_inv hbot htop Rd hd h).1.brec

/-- **unvisited_top (HCT / VHCT)** -/
theorem HCT_unvisited_top {cfg : HCTCfg R S} {s : HCT α R S} (I : HCTInv cfg s) {v : Nat}
    {nd : Node α (TBSt R S)} (hnd : s.P.nodes[v]? = some nd) (hc : nd.st.count = 0) :
    nd.st.u = cfg.inf :=
  I.unvisited v nd hnd hc

/-- **U_formula_HCT**: in every state reachable from `init` by rounds `pull; receive`, every
visited cell `v` carries the U-value computed with `δ̃ = dtOne (tPlus (ts v))` where `ts v` is
the round counter at its last refresh, from its current `mean = meanOf rewards count`, `count`
and variance (`varOf rewards` for VHCT, the initial `var0` for HCT). -/
theorem U_formula_HCT {cfg : HCTCfg R S} (hbot : ∀ x, cfg.negInf ≤ x) (htop : ∀ x, x ≤ cfg.inf)
    {k : Kind} {domain : Box α} {s : HCT α R S} {ts : Nat → Nat}
    (h : HCTRun cfg k domain s ts) {v : Nat} {nd : Node α (TBSt R S)}
    (hnd : s.P.nodes[v]? = some nd) (hc : 0 < nd.st.count) :
    nd.st.u = cfg.uOf (cfg.dtOne (tPlus (ts v))) nd.depth
        (cfg.meanOf nd.st.rewards nd.st.count) nd.st.count nd.st.var ∧
    nd.st.mean = cfg.meanOf nd.st.rewards nd.st.count ∧
    nd.st.var = (if cfg.variance = true then cfg.varOf nd.st.rewards else cfg.var0) := by
  obtain ⟨I, hU⟩ := HCT_run_inv hbot htop h
  refine ⟨hU v nd hnd hc, I.mean_ok v nd hnd hc, ?_⟩
  rw [I.var_ok v nd hnd]
  simp [hc]

/-- the ghost time stamp of a node is refreshed by a `receive` at counter `it` exactly when it
is the pulled node, or when `it` is a power of two and the node has been visited -/
theorem tsStep_refreshed (it : Nat) (P : Part α (TBSt R S)) (last : Nat) (ts : Nat → Nat) (v : Nat)
    (h : v = last ∨ ((∃ k, it = 2 ^ k) ∧ 0 < (P.stOf v).count)) : tsStep it P last ts v = it := by
  unfold tsStep
  rcases h with h | ⟨hk, hc⟩
  · rw [if_pos h]
  · have e : it = tPlus it := ((refresh_iff_pow2 it).2 hk).symm
    by_cases h1 : v = last
    · rw [if_pos h1]
    · rw [if_neg h1, if_pos ⟨e, hc⟩]

theorem tsStep_kept (it : Nat) (P : Part α (TBSt R S)) (last : Nat) (ts : Nat → Nat) (v : Nat)
    (h1 : v ≠ last) (h2 : ¬ ((∃ k, it = 2 ^ k) ∧ 0 < (P.stOf v).count)) :
    tsStep it P last ts v = ts v := by
  unfold tsStep
  rw [if_neg h1, if_neg]
  rintro ⟨e, hc⟩
  exact h2 ⟨(refresh_iff_pow2 it).1 e.symm, hc⟩


/-! ## 5. Non-vacuity: concrete runs (α := Nat, R := Nat, S := Fin 16 — a linear order in which
`inf = 15` is the top and `negInf = 0` the bottom element); the configurations, states
`hS0..hS3` (T-HOO), `cS0..cS4` (HCT / VHCT) and ghost time stamps `cT1..cT4` are defined in
`Lemmas/TBB_Example.lean` by evaluating the models -/

section examples
open TBB.Ex

/-! ### T-HOO -/

example : hS3.path = some [0, 1, 6] ∧ hS3.iteration = 3 ∧
    hS3.P.layers = [[0], [1, 2], [3, 4, 5, 6], [7, 8]] := by decide +kernel

example : view hS3.P =
    [(3, 8, 15, some [1, 2]), (2, 8, 8, some [5, 6]), (1, 11, 11, some [3, 4]),
     (0, 15, 15, none), (0, 15, 15, none), (0, 15, 15, none), (1, 9, 9, some [7, 8]),
     (0, 15, 15, none), (0, 15, 15, none)] := by decide +kernel

/-- the hypotheses of `HOO_B_recursion`, `HOO_unvisited_top`, `U_formula_HOO` hold there -/
example : HOOInv cfgH hS3 := HOO_run_inv cfgH_bot hS3_run

/-- e.g. node 1 (children 5, 6 with B-values 15 and 9; `U = 8`): `B = min 8 15 = 8` -/
example : ∃ nd, hS3.P.nodes[1]? = some nd ∧ nd.children = some [5, 6] ∧
    nd.st.b = min nd.st.u 15 ∧ (hS3.P.stOf 5).b = 15 ∧ (hS3.P.stOf 6).b = 9 :=
  ⟨_, rfl, by decide +kernel⟩

/-- the fourth `pull`: path `0 → 2 → 4` to the leaf 4 (2 beats 1 since `B 2 = 11 > 8 = B 1`;
4 beats 3 on the tie `15 = 15` because it comes later) -/
example : (hP3.1.path, hP3.2) = (some [0, 2, 4], 4) := by decide +kernel

example : ∃ path, hP3.1.path = some path ∧ GreedyPath hS3.P stopHOO path hP3.2 :=
  (HOO_pull_greedy hP3_eq).2.2

/-! ### HCT (`var = false`) and VHCT (`var = true`) -/

/-- HCT after three rounds: the third path is `0 → 1 → 6`; node 6 was pulled for the first time
and stays a leaf because its count 1 is below the threshold `tau_h[2] = 2` -/
example : (cS3 false).path = some [0, 1, 6] ∧ (cS3 false).iteration = 4 ∧
    (cS3 false).tauH.map (·.val) = [0, 1, 2] ∧
    (cS3 false).P.layers = [[0], [1, 2], [3, 4, 5, 6]] := by decide +kernel

example : viewC (cS3 false).P =
    [(0, 15, 15, 0, some [1, 2]), (1, 10, 10, 0, some [5, 6]), (1, 8, 8, 0, some [3, 4]),
     (0, 15, 15, 0, none), (0, 15, 15, 0, none), (0, 15, 15, 0, none), (1, 8, 8, 0, none)] := by
  decide +kernel

/-- the fourth round happens at counter `4 = 2²`: all visited U-values are refreshed (node 1:
10 → 12, node 2: 8 → 10), and `B 1 = min 12 (max 8 8) = 8` -/
example : viewC (cS4 false).P =
    [(0, 15, 15, 0, some [1, 2]), (1, 12, 8, 0, some [5, 6]), (1, 10, 10, 0, some [3, 4]),
     (0, 15, 15, 0, none), (0, 15, 15, 0, none), (1, 8, 8, 0, none), (1, 8, 8, 0, none)] := by
  decide +kernel

example : (cS4 false).path = some [0, 1, 5] ∧ (cT4 false) 1 = 4 ∧ (cT4 false) 2 = 4 ∧
    (cT4 false) 5 = 4 ∧ (cT4 false) 6 = 4 ∧ (cT3 false) 1 = 2 ∧ (cT3 false) 6 = 3 := by
  decide +kernel

/-- the hypotheses of `HCT_B_recursion`, `HCT_unvisited_top`, `U_formula_HCT` hold there -/
example (var : Bool) : HCTInv (cfgC var) (cS4 var) ∧ HCTU (cfgC var) (cS4 var).P (cT4 var) :=
  HCT_run_inv (cfgC_bot var) (cfgC_top var) (cS4_run var)

/-- VHCT after three rounds: per-node thresholds, a deeper tree -/
example : (cS3 true).path = some [0, 1, 6] ∧
    (cS3 true).P.layers = [[0], [1, 2], [3, 4, 5, 6], [7, 8]] := by decide +kernel

example : viewC (cS3 true).P =
    [(0, 15, 15, 0, some [1, 2]), (1, 11, 11, 1, some [5, 6]), (1, 9, 9, 1, some [3, 4]),
     (0, 15, 15, 1, none), (0, 15, 15, 1, none), (0, 15, 15, 1, none),
     (1, 9, 9, 1, some [7, 8]), (0, 15, 15, 0, none), (0, 15, 15, 0, none)] := by
  decide +kernel

/-- the greedy path of the next `pull` exists with the threshold stop rule -/
example (var : Bool) : HCTPulled (cfgC var) (cS4 var) (cP4 var).1 (cP4 var).2 :=
  HCT_pull_greedy (HCT_run_inv (cfgC_bot var) (cfgC_top var) (cS4_run var)).1 (cP4_eq var)

end examples

end C05
end PyXAB
