/-
  Property group C16: equivariance under per-dimension positive affine maps of the domain.

  "Translating the domain, or scaling it by a positive factor, and feeding the same rewards
  yields exactly the translated/scaled sequence of points: no decision of any algorithm depends
  on absolute coordinates.  Exception: DOO's default diameter function (invariant under
  translation, not under scaling)."

  `φ : Aff α` is the map `x_j ↦ a_j·x_j + b_j` (`φ.iv`, `φ.box`, `φ.pt` act on intervals, cells
  and points; `φ.draw` maps the random split points of a `make_children` call with the
  coefficients of the split axis).  All statements are over an arbitrary linearly ordered field.
  Vocabulary: `Spec/RelSpec.lean`; helper lemmas: `Lemmas/RL_*.lean`.
-/
import PyXABProofs.Lemmas.RL_Runs
import PyXABProofs.Lemmas.RL_SOO
import Mathlib.Algebra.Order.Field.Rat
import Mathlib.Tactic.NormNum.Basic

namespace PyXAB.C16
open Rel RL
set_option linter.unusedSectionVars false

variable {α : Type} [Field α] [LinearOrder α] [IsStrictOrderedRing α]

/-! ## 1. Geometry -/

/-- `(a + b)/2` commutes with `φ` -/
theorem mid_affine (φ : Aff α) (j : Nat) (x y : α) :
    mid (φ.ap j x) (φ.ap j y) = φ.ap j (mid x y) :=
  (aff_ap_mid φ j x y).symm

theorem Iv_mid_affine (φ : Aff α) (j : Nat) (i : Iv α) : (φ.iv j i).mid = φ.ap j i.mid :=
  aff_iv_mid φ j i

/-- the centre of the mapped cell is the mapped centre (and has the same length) -/
theorem cpoint_affine (φ : Aff α) (b : Box α) :
    Box.cpoint (φ.box b) = φ.pt (Box.cpoint b) ∧
      (Box.cpoint (φ.box b)).length = (Box.cpoint b).length :=
  ⟨aff_cpoint_box φ b, aff_cpoint_box_length φ b⟩

/-- the identity behind the `K`-ary case (NumPy's `linspace` operation order) -/
theorem kary_boundary_identity (a b lo hi : α) (i K : Nat) :
    (i : α) * ((a * hi + b - (a * lo + b)) / (K : α)) + (a * lo + b) =
      a * ((i : α) * ((hi - lo) / (K : α)) + lo) + b := by
  ring

/-- `make_children` geometry of ALL five partition classes commutes with `φ` (no hypothesis on
the draw: an out-of-range split axis gives `[]` on both sides). -/
theorem childBoxes_affine (φ : Aff α) (k : Kind) (b : Box α) (d : Draw α) :
    childBoxes k (φ.box b) (φ.draw d) = (childBoxes k b d).map φ.box :=
  aff_childBoxes φ k b d

/-- an out-of-range split axis gives no children, on both sides (every class except
`DimensionBinaryPartition`, which ignores the axis) -/
theorem childBoxes_dim_out_of_range (φ : Aff α) (k : Kind) (hk : k ≠ .dimBinary) (b : Box α)
    (d : Draw α) (hd : b.length ≤ d.dim) :
    childBoxes k b d = [] ∧ childBoxes k (φ.box b) (φ.draw d) = [] := by
  have h0 : childBoxes k b d = [] := by
    have hn : b[d.dim]? = none := List.getElem?_eq_none hd
    cases k with
    | dimBinary => exact absurd rfl hk
    | binary => simp only [childBoxes, hn]
    | randBinary => simp only [childBoxes, splitChain, hn]
    | kary K => simp only [childBoxes, hn]
    | randKary K => simp only [childBoxes, splitChain, hn]
  exact ⟨h0, by rw [aff_childBoxes, h0]; rfl⟩

theorem childBoxes_affine_length (φ : Aff α) (k : Kind) (b : Box α) (d : Draw α) :
    (childBoxes k (φ.box b) (φ.draw d)).length = (childBoxes k b d).length :=
  aff_childBoxes_length φ k b d

/-- the closed containment test of `Zooming.receive_reward` does not see `φ` (this is where
`a_j > 0` is needed) -/
theorem contains_affine (φ : Aff α) (hφ : φ.Pos) (b : Box α) (x : List α) :
    Zooming.contains (φ.box b) (φ.pt x) = Zooming.contains b x :=
  pos_contains hφ b x

/-- what NumPy guarantees about the random choices is preserved by `φ` (split points stay in
their interval, sorted) -/
theorem drawOK_affine (φ : Aff α) (hφ : φ.Pos) (k : Kind) (b : Box α) (d : Draw α)
    (h : DrawOK k b d) : DrawOK k (φ.box b) (φ.draw d) :=
  pos_drawOK hφ k b d h

/-- `φ` is strictly monotone in every coordinate -/
theorem ap_le_iff_affine (φ : Aff α) (hφ : φ.Pos) (j : Nat) (x y : α) :
    φ.ap j x ≤ φ.ap j y ↔ x ≤ y :=
  pos_ap_le_iff hφ j x y

/-! ## 2. Tree level: the partition operations commute with mapping all boxes -/

theorem makeChildren_affine {σ : Type} (φ : Aff α) (P : Part α σ) (s0 : σ) (p : Nat) (nl : Bool)
    (d : Draw α) :
    (partMapBox φ.box P).makeChildren s0 p nl (φ.draw d) =
      mapRes1 (partMapBox φ.box) (P.makeChildren s0 p nl d) :=
  makeChildren_map (aff_boxEquivariant φ) P s0 p nl d

theorem makeChildrenD_affine {σ : Type} (φ : Aff α) (P : Part α σ) (s0 : σ) (p : Nat) (nl : Bool)
    (ds : List (Draw α)) :
    (partMapBox φ.box P).makeChildrenD s0 p nl (ds.map φ.draw) =
      mapRes (partMapBox φ.box) (List.map φ.draw) (P.makeChildrenD s0 p nl ds) :=
  makeChildrenD_map (aff_boxEquivariant φ) P s0 p nl ds

theorem expand_affine {σ : Type} (φ : Aff α) (P : Part α σ) (s0 : σ) (p : Nat) (ds : List (Draw α)) :
    (partMapBox φ.box P).expand s0 p (ds.map φ.draw) =
      mapRes (partMapBox φ.box) (List.map φ.draw) (P.expand s0 p ds) :=
  expand_map (aff_boxEquivariant φ) P s0 p ds

theorem deepen_affine {σ : Type} (φ : Aff α) (P : Part α σ) (s0 : σ) (ds : List (Draw α)) :
    (partMapBox φ.box P).deepen s0 (ds.map φ.draw) =
      mapRes (partMapBox φ.box) (List.map φ.draw) (P.deepen s0 ds) :=
  deepen_map (aff_boxEquivariant φ) P s0 ds

theorem init_affine {σ : Type} (φ : Aff α) (k : Kind) (domain : Box α) (s0 : σ) :
    Part.init k (φ.box domain) s0 = partMapBox φ.box (Part.init k domain s0) := rfl

/-! ## 3. Algorithm level -/

section treeBandits
variable {R S : Type} [LE S] [DecidableLE S] [Max S] [Min S] [Inhabited S] [Inhabited R]

/-- T-HOO, `pull`: same cell id; the states stay related. -/
theorem HOO_pull_affine (φ : Aff α) (s : HOO α R S) :
    HOO.pull (hooMapBox φ.box s) = mapRes (hooMapBox φ.box) id (HOO.pull s) :=
  hoo_pull_map φ.box s

/-- T-HOO, `receive_reward` with mapped draws keeps the relation. -/
theorem HOO_receive_affine (φ : Aff α) (cfg : HOOCfg R S) (s : HOO α R S) (r : R)
    (ds : List (Draw α)) :
    HOO.receive cfg (hooMapBox φ.box s) r (ds.map φ.draw) =
      mapRes (hooMapBox φ.box) (List.map φ.draw) (HOO.receive cfg s r ds) :=
  hoo_receive_map (aff_boxEquivariant φ) cfg s r ds

theorem HOO_init_affine (φ : Aff α) (cfg : HOOCfg R S) (k : Kind) (domain : Box α)
    (ds : List (Draw α)) :
    HOO.init cfg k (φ.box domain) (ds.map φ.draw) =
      mapRes (hooMapBox φ.box) (List.map φ.draw) (HOO.init cfg k domain ds) :=
  hoo_init_map (aff_boxEquivariant φ) cfg k domain ds

/-- T-HOO, whole runs: on the mapped domain, with mapped draws and the same rewards, the run
fails with the same exception or produces the same history of (cell id, reward) and the mapped
final tree. -/
theorem HOO_run_affine (φ : Aff α) (cfg : HOOCfg R S) (k : Kind) (domain : Box α)
    (ds0 : List (Draw α)) (inputs : List (R × List (Draw α))) :
    HOO.run cfg k (φ.box domain) (ds0.map φ.draw) (inputs.map (fun x => (x.1, x.2.map φ.draw))) =
      mapRes (hooMapBox φ.box) id (HOO.run cfg k domain ds0 inputs) :=
  hoo_run_map (aff_boxEquivariant φ) cfg k domain ds0 inputs

/-- HCT / VHCT -/
theorem HCT_pull_affine (φ : Aff α) (cfg : HCTCfg R S) (s : HCT α R S) :
    HCT.pull cfg (hctMapBox φ.box s) = mapRes (hctMapBox φ.box) id (HCT.pull cfg s) :=
  hct_pull_map φ.box cfg s

theorem HCT_receive_affine (φ : Aff α) (cfg : HCTCfg R S) (s : HCT α R S) (r : R)
    (ds : List (Draw α)) :
    HCT.receive cfg (hctMapBox φ.box s) r (ds.map φ.draw) =
      mapRes (hctMapBox φ.box) (List.map φ.draw) (HCT.receive cfg s r ds) :=
  hct_receive_map (aff_boxEquivariant φ) cfg s r ds

theorem HCT_init_affine (φ : Aff α) (cfg : HCTCfg R S) (k : Kind) (domain : Box α)
    (ds : List (Draw α)) :
    HCT.init cfg k (φ.box domain) (ds.map φ.draw) =
      mapRes (hctMapBox φ.box) (List.map φ.draw) (HCT.init cfg k domain ds) :=
  hct_init_map (aff_boxEquivariant φ) cfg k domain ds

theorem HCT_run_affine (φ : Aff α) (cfg : HCTCfg R S) (k : Kind) (domain : Box α)
    (ds0 : List (Draw α)) (inputs : List (R × List (Draw α))) :
    HCT.run cfg k (φ.box domain) (ds0.map φ.draw) (inputs.map (fun x => (x.1, x.2.map φ.draw))) =
      mapRes (hctMapBox φ.box) id (HCT.run cfg k domain ds0 inputs) :=
  hct_run_map (aff_boxEquivariant φ) cfg k domain ds0 inputs

end treeBandits

section zooming
variable {R S : Type} [LE S] [DecidableLE S] [Inhabited S]

/-- Zooming (the algorithm which reads coordinates), `pull`: same arm index, the proposed point
is `φ.pt` of the original one. -/
theorem Zooming_pull_affine (φ : Aff α) (cfg : ZoomCfg R S) (s : Zooming α S) :
    Zooming.pull cfg (zoomMap φ.box φ.pt s) =
      mapRes (zoomMap φ.box φ.pt) (fun v => (v.1, φ.pt v.2)) (Zooming.pull cfg s) :=
  zoom_pull_map cfg φ.box φ.pt s

/-- Zooming, `receive_reward` with mapped draws keeps the relation (needs `a_j > 0`). -/
theorem Zooming_receive_affine (φ : Aff α) (hφ : φ.Pos) (cfg : ZoomCfg R S) (s : Zooming α S)
    (r : R) (ds : List (Draw α)) :
    Zooming.receive cfg (zoomMap φ.box φ.pt s) r (ds.map φ.draw) =
      mapRes (zoomMap φ.box φ.pt) (List.map φ.draw) (Zooming.receive cfg s r ds) :=
  zoom_receive_map (aff_zoomEquivariant φ hφ) cfg s r ds

theorem Zooming_init_affine (φ : Aff α) (hφ : φ.Pos) (cfg : ZoomCfg R S) (k : Kind)
    (domain : Box α) (ds : List (Draw α)) :
    Zooming.init (S := S) cfg k (φ.box domain) (ds.map φ.draw) =
      mapRes (zoomMap φ.box φ.pt) (List.map φ.draw) (Zooming.init cfg k domain ds) :=
  zoom_init_map (aff_zoomEquivariant φ hφ) cfg k domain ds

/-- Zooming, whole runs: same exception, or the same arm indices, the `φ`-mapped points, and the
mapped final state. -/
theorem Zooming_run_affine (φ : Aff α) (hφ : φ.Pos) (cfg : ZoomCfg R S) (k : Kind)
    (domain : Box α) (ds0 : List (Draw α)) (inputs : List (Nat × R × List (Draw α))) :
    zoomRun cfg k (φ.box domain) (ds0.map φ.draw)
        (inputs.map (fun x => (x.1, x.2.1, x.2.2.map φ.draw))) =
      mapRes (zoomMap φ.box φ.pt) (List.map (fun v => (v.1, φ.pt v.2)))
        (zoomRun cfg k domain ds0 inputs) := by
  unfold zoomRun
  rw [zoom_init_map (aff_zoomEquivariant φ hφ)]
  cases Zooming.init cfg k domain ds0 with
  | error e => rfl
  | ok x =>
    obtain ⟨s0, ds'⟩ := x
    exact runM_map (fun s x => zoomRoundQ_map (aff_zoomEquivariant φ hφ) cfg s x) inputs s0

end zooming

section sweepers
variable {S : Type} [LE S] [DecidableLE S] [Inhabited S]

/-- SOO: same cell, mapped remaining draws, related states (the `time` label is arbitrary) -/
theorem SOO_pull_affine (φ : Aff α) (negInf : S) (s : SOO α S) (time : Nat) (ds : List (Draw α)) :
    SOO.pull negInf (sooMapBox φ.box s) time (ds.map φ.draw) =
      mapRes (sooMapBox φ.box) (fun r => (r.1.map φ.draw, r.2)) (SOO.pull negInf s time ds) :=
  soo_pull_map (aff_boxEquivariant φ) negInf s time ds

theorem SOO_receive_affine (φ : Aff α) (s : SOO α S) (r : S) :
    SOO.receive (sooMapBox φ.box s) r = mapRes1 (sooMapBox φ.box) (SOO.receive s r) :=
  soo_receive_map φ.box s r

/-- SOO, whole runs from the initial state: same exception or the same sequence of cells -/
theorem SOO_run_affine (φ : Aff α) (negInf : S) (k : Kind) (domain : Box α) (hmax : Nat)
    (inputs : List (TIn α S)) :
    runM (sooRound negInf) (SOO.init negInf k (φ.box domain) hmax)
        (inputs.map (fun x => (x.1, x.2.1.map φ.draw, x.2.2))) =
      mapRes (sooMapBox φ.box) (List.map id)
        (runM (sooRound negInf) (SOO.init negInf k domain hmax) inputs) :=
  runM_map (fun s x => soo_round_map (aff_boxEquivariant φ) negInf s x) inputs
    (SOO.init negInf k domain hmax)

theorem SequOOL_pull_affine (φ : Aff α) (negInf : S) (s : SequOOL α S) (time : Nat)
    (ds : List (Draw α)) :
    SequOOL.pull negInf (seqMapBox φ.box s) time (ds.map φ.draw) =
      mapRes (seqMapBox φ.box) (fun r => (r.1.map φ.draw, r.2)) (SequOOL.pull negInf s time ds) :=
  seq_pull_map (aff_boxEquivariant φ) negInf s time ds

theorem SequOOL_receive_affine (φ : Aff α) (s : SequOOL α S) (r : S) :
    SequOOL.receive (seqMapBox φ.box s) r = mapRes1 (seqMapBox φ.box) (SequOOL.receive s r) :=
  seq_receive_map φ.box s r

theorem SequOOL_run_affine (φ : Aff α) (negInf : S) (k : Kind) (domain : Box α) (hmax : Nat)
    (inputs : List (TIn α S)) :
    runM (seqRound negInf) (SequOOL.init k (φ.box domain) hmax)
        (inputs.map (fun x => (x.1, x.2.1.map φ.draw, x.2.2))) =
      mapRes (seqMapBox φ.box) (List.map id)
        (runM (seqRound negInf) (SequOOL.init k domain hmax) inputs) :=
  runM_map (fun s x => seq_round_map (aff_boxEquivariant φ) negInf s x) inputs
    (SequOOL.init k domain hmax)

end sweepers

/-! ## 4. DOO's default diameter function -/

/-- scaling law: the squared half-width picks up the square of the factor -/
theorem halfWidthSq_affine (φ : Aff α) (j : Nat) (iv : Iv α) :
    halfWidthSq (φ.iv j iv) = φ.co j ^ 2 * halfWidthSq iv :=
  halfWidthSq_aff φ j iv

/-- invariant under translations -/
theorem halfWidthSq_translation_invariant (φ : Aff α) (hφ : φ.IsTranslation) (j : Nat)
    (iv : Iv α) : halfWidthSq (φ.iv j iv) = halfWidthSq iv := by
  rw [halfWidthSq_aff, transl_co_eq hφ j, one_pow, one_mul]

/-- scaling by 2 changes it: the documented exception is real -/
theorem halfWidthSq_scaling_counterexample :
    ∃ (φ : Aff ℚ) (iv : Iv ℚ), φ.Pos ∧ halfWidthSq (φ.iv 0 iv) ≠ halfWidthSq iv := by
  refine ⟨⟨[2], [0]⟩, ⟨0, 1⟩, ?_, ?_⟩
  · intro x hx
    simp only [List.mem_singleton] at hx
    subst hx
    norm_num
  · rw [halfWidthSq_aff]
    norm_num [halfWidthSq, Iv.mid, mid, Aff.co]

/-! ## 5. Non-vacuity over ℚ -/

/-- `x ↦ 2x + 1`, `y ↦ 3y − 1` -/
def exφ : Aff ℚ := ⟨[2, 3], [1, -1]⟩

theorem exφ_pos : exφ.Pos := by
  intro x hx
  simp only [exφ, List.mem_cons, List.not_mem_nil, or_false] at hx
  rcases hx with rfl | rfl <;> norm_num

def exBox : Box ℚ := [⟨0, 1⟩, ⟨-1, 3⟩]

example : exφ.box exBox = [⟨1, 3⟩, ⟨-4, 8⟩] := by decide +kernel
example : exφ.pt (Box.cpoint exBox) = [2, 2] := by decide +kernel
example : Box.cpoint (exφ.box exBox) = [2, 2] := by decide +kernel

/-- all five kinds on a concrete box, with a concrete draw on axis 1 -/
example : ∀ k ∈ [Kind.binary, .randBinary, .dimBinary, .kary 3, .randKary 3],
    childBoxes k (exφ.box exBox) (exφ.draw ⟨1, [0, 2]⟩) =
      (childBoxes k exBox ⟨1, [0, 2]⟩).map exφ.box ∧ (childBoxes k exBox ⟨1, [0, 2]⟩).length ≥ 2 := by
  decide +kernel

theorem exDrawOK : DrawOK (.randKary 3) exBox ⟨1, [0, 2]⟩ := by
  refine ⟨by decide, by decide, rfl, ?_⟩
  show (-1 : ℚ) ≤ 0 ∧ (0 : ℚ) ≤ 2 ∧ (2 : ℚ) ≤ 3 ∧ True
  norm_num

example : DrawOK (.randKary 3) (exφ.box exBox) (exφ.draw ⟨1, [0, 2]⟩) :=
  drawOK_affine exφ exφ_pos _ _ _ exDrawOK

/-! concrete runs over ℚ (evaluated by the kernel, independently of the theorems above) -/

def exZCfg : ZoomCfg ℚ ℚ where
  negInf := -1000
  zero := 0
  indexOf := fun avg phase pulls => avg + 8 * phase / (2 + pulls)
  upd := fun avg pulls r => (avg * pulls + r) / (pulls + 1)
  refine := fun _ pulls depth => decide (depth ≤ pulls)

def exInputs : List (Nat × ℚ × List (Draw ℚ)) :=
  [(0, 1 / 2, [⟨1, []⟩]), (2, 1 / 3, [⟨0, []⟩]), (0, 1, [⟨1, []⟩]), (1, 1 / 5, [⟨0, []⟩])]

/-- the run succeeds (so `Zooming_run_affine` is not about two failing runs) and refines cells -/
example : ((zoomRun exZCfg .binary exBox [⟨0, []⟩] exInputs).toOption.map
    (fun r => (r.2.length, decide (r.1.P.nodes.length > 3)))) = some (4, true) := by decide +kernel

/-- the points proposed on the mapped domain are the mapped points, the arm indices are equal -/
example : (outs (zoomRun exZCfg .binary (exφ.box exBox) ([⟨0, []⟩].map exφ.draw)
      (exInputs.map (fun x => (x.1, x.2.1, x.2.2.map exφ.draw))))).toOption =
    (outs (zoomRun exZCfg .binary exBox [⟨0, []⟩] exInputs)).toOption.map
      (List.map (fun v => (v.1, exφ.pt v.2))) := by decide +kernel

def exHCfg : HOOCfg ℚ ℚ where
  inf := 1000
  negInf := -1000
  mean0 := 0
  meanOf := fun rs n => rs.sum / n
  uOf := fun m c d => m + 4 / c + 1 / (d + 1)
  expandOK := fun d => decide (d ≤ 3)

def exHInputs : List (ℚ × List (Draw ℚ)) :=
  [(1 / 2, [⟨1, [1]⟩]), (1 / 3, [⟨0, [1 / 4]⟩]), (1, [⟨1, [2]⟩]), (1 / 7, [⟨0, [1 / 2]⟩])]

/-- T-HOO on a random-binary partition: the run succeeds, and the history of (cell id, reward) on
the mapped domain with mapped split points is the same -/
example : ((HOO.run exHCfg .randBinary exBox [⟨0, [1 / 3]⟩] exHInputs).toOption.map
    (fun r => r.2.length)) = some 4 := by decide +kernel

example : ((HOO.run exHCfg .randBinary (exφ.box exBox) ([⟨0, [1 / 3]⟩].map exφ.draw)
      (exHInputs.map (fun x => (x.1, x.2.map exφ.draw)))).toOption.map (·.2)) =
    ((HOO.run exHCfg .randBinary exBox [⟨0, [1 / 3]⟩] exHInputs).toOption.map (·.2)) := by
  decide +kernel

end PyXAB.C16
