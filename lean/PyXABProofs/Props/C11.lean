/-
  Property C11 — `Zooming`: arms stay in their cells and the cells cover the domain.

  "At all times every active arm lies inside the cell it is responsible for and the cells of
  the active arms cover the whole domain, so no region ever loses its arm when a cell is
  refined.  Each pull returns an active arm maximising mean + 2*sqrt(8*phase/(2+pulls)); the
  arm's mean and pull count are those of its own reward history, and its cell is refined exactly
  when its confidence radius sqrt(8*phase/(2+pulls)) has dropped to nu*rho^depth, the children
  not containing the arm receiving new arms at their centres."

  Setting.  The model `Zooming.init/pull/receive` of `PyXABModel/Model/Zooming.lean` runs on the
  arena `Part` of C03 with the geometry of C02.  Coordinates live in an arbitrary linearly
  ordered field `α`; every numeric formula of the Python code (`indexOf`, `upd`, `refine`) is a
  field of the configuration record `cfg`, scores `S` are linearly ordered.  The draws consumed
  by `make_children` are universally quantified and assumed to satisfy `Tree.DrawOKLen` and the
  NumPy guarantees `DrawOK` for the box being split (`RecvDrawsOK`: only IF a cell is refined).

  Definitions: `Spec/ZoomSpec.lean` (`Cover`, `leafBoxes`, `Grown`, `idx`, `phaseAfter`,
  `refineCond`, `credited`, `refined`, `RecvDrawsOK`, `NegInfLe`, `Run`, `GoodRun`, `Stats`,
  `PhaseInv`, `assignOld`); lemmas: `Lemmas/ZM_*.lean` (concrete data of the examples:
  `Lemmas/ZM_Example.lean`).

  1. `leaves_tile_step`, `leaves_tile_root`; `cover_arm_in_cell` (1a), `cover_bijection` (1b),
     `cover_domain`, `cover_cells_tile` (1c); `init_Cover`, `pull_Cover`, `receive_Cover`,
     `run_Cover`.
  2. `pull_argmax`, `negInfLe_of_bot`.
  3. `arms_stable`, `stats_exact`, `mean_exact`.
  4. `refine_iff`.
  5. `phase_schedule`, `phase_advance`, `nextEnd_sum`.
  6. `assignOld_counterexample`, `assignOld_loses_cell`.
  7. non-vacuity: a concrete 3-round run over `ℚ` with one refinement at a midpoint.
-/
import PyXABProofs.Lemmas.ZM_Run
import PyXABProofs.Lemmas.ZM_Example

set_option linter.unusedSectionVars false

namespace PyXAB.C11
open Zooming ZM _root_.PyXAB.Tree

/-! ## 0. Tree level: the boxes of the leaves tile the root box -/
section tree
variable {α σ : Type} [Field α] [LinearOrder α] [IsStrictOrderedRing α]

/-- One step: replacing the refined leaf by its children keeps "the leaf boxes tile `root`",
and the children tile the refined cell. -/
theorem leaves_tile_step {root : Box α} {P P' : Part α σ} {s0 : σ} {p : Nat} {nd : Node α σ}
    {nl : Bool} {d : Draw α} (hT : Tiles (leafBoxes P) root)
    (hp : P.nodes[p]? = some nd) (hleaf : nd.children = none)
    (hd : DrawOK P.kind nd.box d) (h : P.makeChildren s0 p nl d = .ok P') :
    Tiles (leafBoxes P') root ∧ Tiles (childBoxes P.kind nd.box d) nd.box :=
  tiles_step hT hp hleaf hd h

/-- In a tree grown from a `Valid` root box by `make_children` on leaves with well-formed
`DrawOK` draws, the tree invariant holds and the boxes of the leaves tile the root box. -/
theorem leaves_tile_root {k : Kind} {root : Box α} {s0 : σ} {P : Part α σ}
    (hroot : Box.Valid root) (hG : Grown k root s0 P) :
    WF P ∧ P.kind = k ∧ Tiles (leafBoxes P) root :=
  leaves_tile_root' hroot hG

end tree

/-! ## 1. The invariant `Cover` -/
section cover
variable {α R S : Type} [Field α] [LinearOrder α] [IsStrictOrderedRing α]

omit [Field α] [IsStrictOrderedRing α] in
/-- **(1a)** every arm's `cell` is a valid id of a leaf of depth ≥ 1, the closed box of the cell
contains the arm's point, and the point has the dimension of the domain. -/
theorem cover_arm_in_cell {root : Box α} {s : Zooming α S} (hC : Cover root s) {a : Arm α S}
    (ha : a ∈ s.arms) :
    ∃ nd, s.P.nodes[a.cell]? = some nd ∧ nd.children = none ∧ 1 ≤ nd.depth ∧
      Box.Mem nd.box a.pt ∧ Box.Mem (cellBox s.P a.cell) a.pt ∧
      a.pt.length = root.length ∧ dimn s.P = root.length := by
  obtain ⟨nd, ⟨h1, h2⟩, h3, h4⟩ := hC.arm_leaf a ha
  obtain ⟨r, hr, hrb⟩ := hC.root_box
  have hdim : dimn s.P = root.length := by simp only [dimn, hr, hrb]
  refine ⟨nd, h1, h2, h3, h4, by simpa [cellBox, h1] using h4, ?_, hdim⟩
  rw [Box.Mem.length_eq h4, hC.wf.boxlen _ _ h1, hdim]

omit [Field α] [IsStrictOrderedRing α] in
/-- **(1b)** `arm ↦ cell` is a bijection between the positions of `arms` and the leaves of the
arena: every arm's cell is a leaf, every leaf is the cell of exactly one position, and two
positions with the same cell are equal. -/
theorem cover_bijection {root : Box α} {s : Zooming α S} (hC : Cover root s) :
    (∀ a ∈ s.arms, ∃ nd, LeafAt s.P a.cell nd) ∧
    (∀ c nd, LeafAt s.P c nd → ∃! j : Nat, ∃ a : Arm α S, s.arms[j]? = some a ∧ a.cell = c) ∧
    (∀ (i j : Nat) (a b : Arm α S), s.arms[i]? = some a → s.arms[j]? = some b →
      a.cell = b.cell → i = j) ∧
    (s.arms.map (·.cell)).Perm (leafIds s.P) := by
  refine ⟨fun a ha => ?_, fun c nd hl => ?_, fun i j a b ha hb h => hC.cell_inj ha hb h,
    hC.cells_perm⟩
  · obtain ⟨nd, h, _⟩ := hC.arm_leaf a ha; exact ⟨nd, h⟩
  · obtain ⟨a, ha, hac⟩ := hC.leaf_arm c nd hl
    obtain ⟨j, hj⟩ := List.mem_iff_getElem?.1 ha
    refine ⟨j, ⟨a, hj, hac⟩, ?_⟩
    rintro j' ⟨b, hb, hbc⟩
    exact hC.cell_inj hb hj (hbc.trans hac.symm)

omit [Field α] [IsStrictOrderedRing α] in
/-- **(1c)** the cells of the active arms are a tiling of the domain: sub-cells of the domain,
covering it, with pairwise disjoint interiors. -/
theorem cover_cells_tile {root : Box α} {s : Zooming α S} (hC : Cover root s) :
    Tiles (s.arms.map (fun a => cellBox s.P a.cell)) root :=
  hC.arm_cells_tile

omit [Field α] [IsStrictOrderedRing α] in
/-- **(1c)** in particular no point of the domain is without an arm. -/
theorem cover_domain {root : Box α} {s : Zooming α S} (hC : Cover root s) :
    ∀ x, Box.Mem root x → ∃ a ∈ s.arms, Box.Mem (cellBox s.P a.cell) x := by
  intro x hx
  obtain ⟨c, hc, hcx⟩ := (hC.arm_cells_tile.2.1 x).1 hx
  obtain ⟨a, ha, rfl⟩ := List.mem_map.1 hc
  exact ⟨a, ha, hcx⟩

/-- **init_Cover**: `Zooming.__init__` succeeds given one well-formed draw for the root cell
(it consumes exactly that draw), establishes the invariant, and places one fresh arm at the
centre of each of the `K` depth-1 cells. -/
theorem init_Cover (cfg : ZoomCfg R S) (k : Kind) (domain : Box α) (d : Draw α)
    (ds : List (Draw α)) (hv : Box.Valid domain) (hdl : DrawOKLen k domain.length d)
    (hd : DrawOK k domain d) :
    ∃ s, Zooming.init cfg k domain (d :: ds) = .ok (s, ds) ∧ Cover domain s ∧ s.P.kind = k ∧
      dimn s.P = domain.length ∧
      s.arms = (List.range' 1 (k.arity domain.length)).map (newArm cfg s.P) ∧
      s.phase = 1 ∧ s.nextEnd = 2 ∧ s.time = 0 ∧ s.best = none :=
  init_cover cfg k domain d ds hv hdl hd

variable [LinearOrder S]

/-- **pull** from a `Cover` state never raises (there is always at least one arm), returns a
position `i` of `arms` and the point of that arm, changes only `best`, and keeps `Cover`. -/
theorem pull_Cover (cfg : ZoomCfg R S) {root : Box α} {s : Zooming α S} (hC : Cover root s)
    (hbot : NegInfLe cfg s) :
    s.arms ≠ [] ∧ ∃ i a, s.arms[i]? = some a ∧
      pull cfg s = .ok ({ s with best := some i }, i, a.pt) ∧
      Cover root { s with best := some i } := by
  refine ⟨hC.arms_ne_nil, ?_⟩
  obtain ⟨i, a, h1, h2, _⟩ := pull_spec cfg s hC.arms_ne_nil hbot
  exact ⟨i, a, h1, h2, hC.with_best _⟩

/-- **receive_Cover**: after a `pull` (`best = some i`) `receive` never raises and keeps the
invariant (and the kind and dimension of the partition). -/
theorem receive_Cover (cfg : ZoomCfg R S) {root : Box α} {s : Zooming α S} (hC : Cover root s)
    {i : Nat} {a : Arm α S} (hb : s.best = some i) (ha : s.arms[i]? = some a) (r : R)
    {ds : List (Draw α)} (hds : RecvDrawsOK cfg s ds) :
    ∃ s' ds', receive cfg s r ds = .ok (s', ds') ∧ Cover root s' ∧ s'.P.kind = s.P.kind ∧
      dimn s'.P = dimn s.P := by
  obtain ⟨nd, _, _, h⟩ := receive_cases cfg hC hb ha r hds
  rcases h with ⟨_, e, _⟩ | ⟨_, d, ds'', P2, l₁, c, l₂, cn, _, _, _, _, _, _, _, _, e, _⟩
  · exact ⟨_, _, e, receive_cover cfg hC hb ha hds e⟩
  · exact ⟨_, _, e, receive_cover cfg hC hb ha hds e⟩

/-- One full round from a `Cover` state succeeds and re-establishes `Cover`. -/
theorem round_Cover (cfg : ZoomCfg R S) {root : Box α} {s : Zooming α S} (hC : Cover root s)
    (hbot : NegInfLe cfg s) (r : R) {ds : List (Draw α)}
    (hds : ∀ b, RecvDrawsOK cfg { s with best := b } ds) :
    ∃ s1 i pt s' ds', pull cfg s = .ok (s1, i, pt) ∧ receive cfg s1 r ds = .ok (s', ds') ∧
      Cover root s' := by
  obtain ⟨_, i, a, h1, h2, h3⟩ := pull_Cover cfg hC hbot
  obtain ⟨s', ds', e, hC', _⟩ := receive_Cover cfg h3 rfl h1 r (hds (some i))
  exact ⟨_, i, a.pt, s', ds', h2, e, hC'⟩

/-- **run_Cover**: the invariant holds after `init` and after every round of a run whose draws
satisfy the NumPy guarantees. -/
theorem run_Cover {cfg : ZoomCfg R S} {k : Kind} {domain : Box α} (hv : Box.Valid domain)
    {s : Zooming α S} {H : List (Nat × R)} (hG : GoodRun cfg k domain s H) :
    Cover domain s ∧ s.P.kind = k ∧ dimn s.P = domain.length :=
  ⟨(goodRun_cover hv hG).1, (goodRun_cover hv hG).2.2⟩

end cover

/-! ## 2. `pull` returns the last arm of maximal index -/
section pull
variable {α R S : Type} [LinearOrder S]

/-- **pull_argmax**: with at least one arm and `negInf` below every index, `pull` returns
position `i` with `index j ≤ index i` for all positions `j`, and `i` is the LAST such position
(tie rule `>=`): every later position has a strictly smaller index.  Only `best` changes. -/
theorem pull_argmax (cfg : ZoomCfg R S) (s : Zooming α S) (hne : s.arms ≠ [])
    (hbot : NegInfLe cfg s) :
    ∃ i a, s.arms[i]? = some a ∧ pull cfg s = .ok ({ s with best := some i }, i, a.pt) ∧
      (∀ (j : Nat) (b : Arm α S), s.arms[j]? = some b →
        idx cfg s.phase b ≤ idx cfg s.phase a) ∧
      (∀ (j : Nat) (b : Arm α S), i < j → s.arms[j]? = some b →
        idx cfg s.phase b < idx cfg s.phase a) := by
  obtain ⟨i, a, h1, h2, h3, h4⟩ := pull_spec cfg s hne hbot
  exact ⟨i, a, h1, h2, fun j b hb => h3 b (List.mem_of_getElem? hb), h4⟩

/-- a bottom element `negInf` is below every index -/
theorem negInfLe_of_bot (cfg : ZoomCfg R S) (s : Zooming α S) (h : ∀ x, cfg.negInf ≤ x) :
    NegInfLe cfg s := fun _ _ => h _

end pull

/-! ## 3. The statistics are those of the arm's own reward history -/
section stats
variable {α R S : Type} [Field α] [LinearOrder α] [IsStrictOrderedRing α] [LinearOrder S]

/-- **arms_stable**: positions of `arms` are stable.  One round `pull` (returning position `i`);
`receive r` only appends arms: every old position `j` keeps its arm (same point; the same arm
altogether if `j ≠ i`), the pulled arm gets `pulls + 1` and the updated mean, and the appended
arms are fresh (`pulls = 0`, `avg = cfg.zero`). -/
theorem arms_stable {cfg : ZoomCfg R S} {s s1 s2 : Zooming α S} {i : Nat} {pt : List α} {r : R}
    {ds ds' : List (Draw α)} (hp : pull cfg s = .ok (s1, i, pt))
    (hr : receive cfg s1 r ds = .ok (s2, ds')) :
    s.arms.length ≤ s2.arms.length ∧
    (∃ a a' : Arm α S, s.arms[i]? = some a ∧ s2.arms[i]? = some a' ∧ a'.pt = a.pt ∧ pt = a.pt ∧
      a'.pulls = a.pulls + 1 ∧ a'.avg = cfg.upd a.avg a.pulls r) ∧
    (∀ j : Nat, j ≠ i → j < s.arms.length → s2.arms[j]? = s.arms[j]?) ∧
    (∀ (j : Nat) (b : Arm α S), s.arms.length ≤ j → s2.arms[j]? = some b →
      b.pulls = 0 ∧ b.avg = cfg.zero) := by
  obtain ⟨rfl, a0, ha0, rfl⟩ := pull_inv hp
  obtain ⟨i', hb, _, hrel⟩ := receive_inv hr
  obtain rfl : i = i' := Option.some.inj hb
  obtain ⟨a, c, fresh, ha, _, _, _, hA, hf⟩ := hrel
  have hi := (List.getElem?_eq_some_iff.1 ha).1
  obtain rfl : a0 = a := Option.some.inj (ha0.symm.trans ha)
  refine ⟨by rw [hA]; simp, ⟨a0, { credit cfg a0 r with cell := c }, ha, ?_, rfl, rfl, rfl, rfl⟩,
    ?_, ?_⟩
  · rw [hA, List.getElem?_append_left (by simpa using hi), List.getElem?_set_self hi]
  · intro j hji hj
    rw [hA, List.getElem?_append_left (by simpa using hj), List.getElem?_set_ne (Ne.symm hji)]
  · intro j b hj hb'
    rw [hA, List.getElem?_append_right (by simpa using hj)] at hb'
    exact hf b (List.mem_of_getElem? hb')

/-- **stats_exact**: along any run with ghost history `H` (position pulled, reward; oldest
first): `time` = number of rounds, every pulled position is a position of `arms`, the pull
count of the arm at position `j` = number of rounds in which `j` was pulled, the pull counts sum
to the number of rounds, and a never-pulled arm has mean `cfg.zero`. -/
theorem stats_exact {cfg : ZoomCfg R S} {k : Kind} {domain : Box α} {s : Zooming α S}
    {H : List (Nat × R)} (hR : Run cfg k domain s H) :
    s.time = H.length ∧ (∀ e ∈ H, e.1 < s.arms.length) ∧
    (∀ j a, s.arms[j]? = some a → a.pulls = (rewardsOf H j).length) ∧
    (s.arms.map (·.pulls)).sum = H.length ∧
    (∀ a ∈ s.arms, a.pulls = 0 → a.avg = cfg.zero) := by
  have h := run_stats hR
  exact ⟨h.time, h.valid, h.pulls, h.total, h.zero⟩

/-- **mean_exact**: with scores = rewards in an ordered field and the running-mean update
`upd avg n r = (avg*n + r)/(n+1)`, the mean of every pulled arm is the arithmetic mean of its
own rewards. -/
theorem mean_exact {S : Type} [Field S] [LinearOrder S] [IsStrictOrderedRing S]
    {cfg : ZoomCfg S S} {k : Kind} {domain : Box α} {s : Zooming α S} {H : List (Nat × S)}
    (hupd : ∀ (avg : S) (n : Nat) (r : S), cfg.upd avg n r = (avg * (n : S) + r) / ((n : S) + 1))
    (hR : Run cfg k domain s H) :
    ∀ j a, s.arms[j]? = some a → 0 < a.pulls →
      a.avg = (rewardsOf H j).sum / (a.pulls : S) ∧ a.pulls = (rewardsOf H j).length :=
  fun j a ha hp => ⟨run_mean hupd hR j a ha hp, (run_stats hR).pulls j a ha⟩

end stats

/-! ## 4. The cell is refined exactly under the published rule -/
section refine
variable {α R S : Type} [Field α] [LinearOrder α] [IsStrictOrderedRing α]

/-- **refine_iff**.  In `receive` from a `Cover` state (pulled arm `a` at position `i`, its
cell `nd`), the tree grows iff `cfg.refine phase' pulls' depth`, with `phase'` the phase AFTER
this round's phase update and `pulls'` the count after crediting.
* not refined: the result is the credited state, no draw is consumed;
* refined: one draw is consumed, exactly the arm's cell is split (`Step`: every other old node
  is unchanged, the `K` new leaves `n .. n+K-1` are its children), the arm moves to the FIRST
  child `c` whose closed box contains its point, every other child carries exactly one fresh arm
  (`pulls = 0`, `avg = cfg.zero`, point = centre of the child), appended in child order, and
  no other arm changes (`refined`). -/
theorem refine_iff (cfg : ZoomCfg R S) {root : Box α} {s s' : Zooming α S} (hC : Cover root s)
    {i : Nat} {a : Arm α S} {nd : Node α Unit} (hb : s.best = some i)
    (ha : s.arms[i]? = some a) (hn : s.P.nodes[a.cell]? = some nd) {r : R}
    {ds ds' : List (Draw α)} (hds : RecvDrawsOK cfg s ds)
    (hr : receive cfg s r ds = .ok (s', ds')) :
    (s.P.nodes.length < s'.P.nodes.length ↔
      cfg.refine (phaseAfter s) (a.pulls + 1) nd.depth = true) ∧
    (cfg.refine (phaseAfter s) (a.pulls + 1) nd.depth = false →
      s' = credited cfg s i a r ∧ ds' = ds) ∧
    (cfg.refine (phaseAfter s) (a.pulls + 1) nd.depth = true →
      ∃ d c fresh, ds = d :: ds' ∧
        s.P.makeChildren () a.cell (decide (nd.depth ≥ s.P.depth)) d = .ok s'.P ∧
        Step s.P s'.P () a.cell nd ∧
        c ∈ List.range' s.P.nodes.length (K s.P) ∧ Box.Mem (cellBox s'.P c) a.pt ∧
        (∀ x ∈ List.range' s.P.nodes.length (K s.P), x < c →
          ¬ Box.Mem (cellBox s'.P x) a.pt) ∧
        s' = refined cfg s i a r s'.P c fresh ∧
        fresh.map (·.cell) = (List.range' s.P.nodes.length (K s.P)).filter (· ≠ c) ∧
        ∀ f ∈ fresh, f.pulls = 0 ∧ f.avg = cfg.zero ∧
          f.pt = Box.cpoint (cellBox s'.P f.cell)) := by
  obtain ⟨nd', hn', _, h⟩ := receive_cases cfg hC hb ha r hds
  obtain rfl := getElem?_inj hn'.1 hn
  rcases h with ⟨hc, e, _⟩ |
    ⟨hc, d, ds'', P2, l₁, c, l₂, cn, rfl, hm, _, St, hsplit, hcn, hcm, hfirst, e, _⟩
  · rw [e] at hr
    simp only [Except.ok.injEq, Prod.mk.injEq] at hr
    obtain ⟨rfl, rfl⟩ := hr
    have hc' : cfg.refine (phaseAfter s) (a.pulls + 1) nd'.depth = false := hc
    refine ⟨?_, fun _ => ⟨rfl, rfl⟩, fun h => ?_⟩
    · rw [hc']
      exact ⟨fun h => absurd h (Nat.lt_irrefl _), fun h => by cases h⟩
    · rw [hc'] at h; cases h
  · rw [e] at hr
    simp only [Except.ok.injEq, Prod.mk.injEq] at hr
    obtain ⟨rfl, rfl⟩ := hr
    have hc' : cfg.refine (phaseAfter s) (a.pulls + 1) nd'.depth = true := hc
    have hKpos : 1 ≤ K s.P := by
      have := congrArg List.length hsplit
      simp at this; omega
    have hlen : s.P.nodes.length < P2.nodes.length := by rw [St.len]; omega
    refine ⟨⟨fun _ => hc', fun _ => hlen⟩, fun h => (by rw [hc'] at h; cases h), fun _ => ?_⟩
    have hnd : (l₁ ++ c :: l₂).Nodup := hsplit ▸ List.nodup_range'
    have hpw : (l₁ ++ c :: l₂).Pairwise (· < ·) := hsplit ▸ List.pairwise_lt_range'
    simp only [refined_P]
    refine ⟨d, c, (l₁ ++ l₂).map (newArm cfg P2), rfl, hm, St, by rw [hsplit]; simp, ?_, ?_,
      rfl, ?_, ?_⟩
    · simpa [cellBox, hcn] using hcm
    · intro x hx hlt
      rw [hsplit] at hx
      have hx1 := lt_mem_left hpw hx hlt
      have hxr : x ∈ List.range' s.P.nodes.length (K s.P) := by rw [hsplit]; exact hx
      rw [List.mem_range'_1] at hxr
      obtain ⟨xn, x1, _⟩ := St.new (x - s.P.nodes.length) (by omega)
      rw [show s.P.nodes.length + (x - s.P.nodes.length) = x by omega] at x1
      simpa [cellBox, x1] using hfirst x hx1 xn x1
    · rw [hsplit, filter_ne_middle hnd, List.map_map]
      exact List.map_id _
    · intro f hf
      obtain ⟨x, _, rfl⟩ := List.mem_map.1 hf
      refine ⟨rfl, rfl, ?_⟩
      simp only [newArm, cellBox]
      cases P2.nodes[x]? <;> rfl

end refine

/-! ## 5. The phase schedule -/
section phase
variable {α R S : Type} [Field α] [LinearOrder α] [IsStrictOrderedRing α] [LinearOrder S]

/-- **phase_schedule**: along any run, `time` counts the rounds, phases are numbered from 1,
`nextEnd = 2^(phase+1) - 2` and the current phase is the one containing the clock. -/
theorem phase_schedule {cfg : ZoomCfg R S} {k : Kind} {domain : Box α} {s : Zooming α S}
    {H : List (Nat × R)} (hR : Run cfg k domain s H) :
    s.time = H.length ∧ 1 ≤ s.phase ∧ s.nextEnd = 2 ^ (s.phase + 1) - 2 ∧
      2 ^ s.phase - 2 ≤ s.time ∧ s.time < s.nextEnd := by
  have h := run_phase hR
  exact ⟨(run_stats hR).time, h.pos, h.nextEnd, h.lo, h.hi⟩

/-- `nextEnd` is the sum `Σ_{j=1..phase} 2^j`. -/
theorem nextEnd_sum {cfg : ZoomCfg R S} {k : Kind} {domain : Box α} {s : Zooming α S}
    {H : List (Nat × R)} (hR : Run cfg k domain s H) :
    s.nextEnd = ((List.range' 1 s.phase).map (2 ^ ·)).sum := by
  rw [sum_two_pow]; exact (run_phase hR).nextEnd

/-- **phase_advance**: one more round `pull; receive` after a run: the clock advances by one;
the phase increases (by one, `nextEnd` growing by `2^(phase+1)`) exactly when the new clock value
reaches `nextEnd`, and is unchanged otherwise. -/
theorem phase_advance {cfg : ZoomCfg R S} {k : Kind} {domain : Box α} {s s1 s2 : Zooming α S}
    {H : List (Nat × R)} (hR : Run cfg k domain s H) {i : Nat} {pt : List α} {r : R}
    {ds ds' : List (Draw α)} (hp : pull cfg s = .ok (s1, i, pt))
    (hr : receive cfg s1 r ds = .ok (s2, ds')) :
    s2.time = s.time + 1 ∧
    (s2.phase = s.phase + 1 ↔ s.time + 1 = s.nextEnd) ∧
    (s.time + 1 = s.nextEnd → s2.phase = s.phase + 1 ∧
      s2.nextEnd = s.nextEnd + 2 ^ (s.phase + 1)) ∧
    (s.time + 1 ≠ s.nextEnd → s2.phase = s.phase ∧ s2.nextEnd = s.nextEnd) := by
  obtain ⟨rfl, _⟩ := pull_inv hp
  obtain ⟨_, _, _, _, _, _, _, e1, e2, e3, _⟩ := receive_inv hr
  have e2' : s2.phase = phaseAfter s := e2
  have e3' : s2.nextEnd = nextEndAfter s := e3
  obtain ⟨h1, h2, _⟩ := phase_step s (run_phase hR)
  refine ⟨e1, ?_, fun h => ?_, fun h => ?_⟩
  · constructor
    · intro h
      by_cases hc : s.time + 1 = s.nextEnd
      · exact hc
      · rw [e2', (h2 hc).1] at h; omega
    · intro h; rw [e2', (h1 h).1]
  · rw [e2', e3']; exact h1 h
  · rw [e2', e3']; exact h2 h

end phase

/-! ## 6. Why the rule "FIRST containing child" matters: the unfixed rule loses a cell -/
section counterexample

/-- The arm at `1/2` lies on the common boundary of the two children: BOTH contain it.  Under
the unfixed rule `assignOld` the last containing child (2) takes the arm and NO fresh arm is
created, so child 1 ends without an arm; the fixed rule `assign` hands the arm to the first
containing child (1) and creates a fresh arm for child 2. -/
theorem assignOld_counterexample :
    (cxP.nodes[0]?.bind (·.children)) = some [1, 2] ∧
    cxP.isLeaf 1 = true ∧ cxP.isLeaf 2 = true ∧
    contains (cellBox cxP 1) [1 / 2] = true ∧ contains (cellBox cxP 2) [1 / 2] = true ∧
    (assignOld exCfg cxP [1 / 2] [1, 2] none []).1 = some 2 ∧
    ((assignOld exCfg cxP [1 / 2] [1, 2] none []).2.map (·.cell)) = [] ∧
    (assign exCfg cxP [1 / 2] [1, 2] false none []).1 = some 1 ∧
    ((assign exCfg cxP [1 / 2] [1, 2] false none []).2.map (·.cell)) = [2] := by
  decide +kernel

/-- Consequently, with the unfixed rule the arm list after the refinement (the moved arm
followed by the fresh arms) has no arm for the leaf `1`: clause (1b) of `Cover` fails. -/
theorem assignOld_loses_cell :
    let res := assignOld exCfg cxP [1 / 2] [1, 2] none []
    let arms' : List (Arm ℚ ℚ) :=
      [{ pt := [1 / 2], cell := res.1.getD 0, pulls := 1, avg := 0 }] ++ res.2
    cxP.isLeaf 1 = true ∧ ∀ a ∈ arms', a.cell ≠ 1 := by
  decide +kernel

end counterexample

/-! ## 7. Non-vacuity: a concrete run over `ℚ` on `[0,1]` with a refinement at a midpoint -/
section examples

/-- the hypotheses of `init_Cover`, `pull_Cover`, `receive_Cover`, `refine_iff` are satisfiable
and the invariant holds on a state reached through a refinement -/
example : Cover dom01 st3 := (run_Cover dom01_valid good3).1
example : Run exCfg .binary dom01 st3 [(1, 1), (0, 1), (1, 1)] :=
  (goodRun_cover dom01_valid good3).2.1

/-- Round 3 refines cell `2 = [1/2,1]` (3 → 5 nodes).  Its arm sits at `3/4`, the common
boundary of the children `3 = [1/2,3/4]` and `4 = [3/4,1]`: it moves to the first one and
child 4 gets a fresh arm at `7/8`. -/
example : st2.P.nodes.length = 3 ∧ st3.P.nodes.length = 5 ∧
    st3.arms.map (·.cell) = [1, 3, 4] ∧ st3.arms.map (·.pt) = [[1 / 4], [3 / 4], [7 / 8]] ∧
    st3.arms.map (·.pulls) = [1, 2, 0] ∧ st3.arms.map (·.avg) = [1, 1, 0] ∧
    contains (cellBox st3.P 3) [3 / 4] = true ∧ contains (cellBox st3.P 4) [3 / 4] = true ∧
    st3.phase = 2 ∧ st3.nextEnd = 6 ∧ st3.time = 3 := by
  decide +kernel

/-- the hypotheses of `receive_Cover` / `refine_iff` are jointly satisfiable in the refining
branch: round 3 of the run (pulled arm at position 1, cell 2 of depth 1, `pulls' = 2`). -/
example : ∃ (a : Arm ℚ ℚ) (nd : Node ℚ Unit), Cover dom01 (pl st2).1 ∧
    (pl st2).1.best = some 1 ∧ (pl st2).1.arms[1]? = some a ∧
    (pl st2).1.P.nodes[a.cell]? = some nd ∧ RecvDrawsOK exCfg (pl st2).1 [d0] ∧
    exCfg.refine (phaseAfter (pl st2).1) (a.pulls + 1) nd.depth = true := by
  have hC := cover_pulled2
  obtain ⟨a, ha⟩ : ∃ a, (pl st2).1.arms[1]? = some a :=
    Option.isSome_iff_exists.1 (by decide +kernel)
  have h1 : ((pl st2).1.arms[1]?.map fun a => (a.cell, a.pulls)) = some (2, 1) := by
    decide +kernel
  rw [ha] at h1
  simp only [Option.map_some, Option.some.injEq, Prod.mk.injEq] at h1
  obtain ⟨nd, hn, _⟩ := hC.arm_leaf a (List.mem_of_getElem? ha)
  have h2 : ((pl st2).1.P.nodes[2]?.map (·.depth)) = some 1 := by decide +kernel
  rw [← h1.1, hn.1] at h2
  simp only [Option.map_some, Option.some.injEq] at h2
  refine ⟨a, nd, hC, by decide +kernel, ha, hn.1,
    recvDrawsOK_binary exCfg hC kind_pulled2.1 (by rw [kind_pulled2.2]; show 0 < 1; omega), ?_⟩
  show decide (nd.depth + 1 ≤ a.pulls + 1) = true
  rw [h1.2, h2]; rfl

/-- `mean_exact` applies to this run -/
example : ∀ j a, st3.arms[j]? = some a → 0 < a.pulls →
    a.avg = (rewardsOf [(1, (1 : ℚ)), (0, 1), (1, 1)] j).sum / (a.pulls : ℚ) ∧
      a.pulls = (rewardsOf [(1, (1 : ℚ)), (0, 1), (1, 1)] j).length :=
  mean_exact (cfg := exCfg) (fun _ _ _ => rfl) (goodRun_cover dom01_valid good3).2.1

/-- a `Grown` tree (hypothesis of `leaves_tile_root`) -/
example : Grown .binary dom01 () cxP := by
  refine Grown.mk (P := Part.init .binary dom01 ()) (p := 0) (d := d0) Grown.init rfl rfl
    (by decide) (by show 0 < 1; omega) ?_
  exact eq_ok_getOk _ (by decide +kernel)

end examples

end PyXAB.C11
