import PyXABModel.Model.Partition
namespace PyXAB
/-- placeholder until the tree development is merged -/
theorem C03_placeholder : (Part.init .binary ([] : Box Nat) ()).depth = 0 := rfl
end PyXAB
