/-
  Property C03 — bookkeeping of the partition tree.

  "After any sequence of expansions (direct make_children/deepen calls), the per-depth node
  lists contain exactly the cells reachable from the root, each once and at the list position of
  its own depth; a cell is its parent's child and vice versa, no cell's child list contains a
  cell created by splitting another cell, and the reported partition depth is the deepest
  non-empty level.  Within a depth the (depth, index) labels are unique, and the children of
  cell i carry the consecutive indices K(i-1)+1..Ki in child-list order."

  Definitions: `Spec/Tree.lean`; proofs of the lemmas: `Lemmas/Tree*.lean`.
-/
import PyXABProofs.Lemmas.TreeOps

namespace PyXAB
namespace Tree

variable {α σ : Type}

/-! ## 1. The initial state -/

theorem init_WF (k : Kind) (domain : Box α) (s0 : σ) : WF (Part.init k domain s0) :=
  init_WF' k domain s0

/-! ## 5. What the invariant gives: the clauses of the property -/

/-- (a) layer `h` lists exactly the reachable cells of depth `h`. -/
theorem listed_iff_reachable {P : Part α σ} (W : WF P) {h : Nat} {l : List Nat}
    (hl : P.layers[h]? = some l) (i : Nat) :
    i ∈ l ↔ Reach P i ∧ ∃ nd, P.nodes[i]? = some nd ∧ nd.depth = h :=
  W.listed_iff_reachable hl i

/-- (a) the reachable ids are exactly the ids of the arena (every created cell). -/
theorem reachable_iff_valid {P : Part α σ} (W : WF P) (i : Nat) :
    Reach P i ↔ i < P.nodes.length :=
  W.reach_iff_valid i

/-- (a) each cell is listed once over all per-depth lists. -/
theorem layers_nodup {P : Part α σ} (W : WF P) : P.layers.flatten.Nodup :=
  W.layers_nodup

/-- (a) closed form: layer `h` is the list of ids of depth `h` in creation order. -/
theorem layers_eq_filter {P : Part α σ} (W : WF P) {h : Nat} {l : List Nat}
    (hl : P.layers[h]? = some l) :
    l = (List.range P.nodes.length).filter (fun i => (P.nodes[i]?.map (·.depth)) == some h) :=
  W.layers_eq_filter hl

/-- (b) `c` is in the child list of `p` iff the parent pointer of `c` is `p`. -/
theorem child_iff_parent {P : Part α σ} (W : WF P) {p c : Nat} {pn cn : Node α σ}
    (hp : P.nodes[p]? = some pn) (hc : P.nodes[c]? = some cn) :
    (∃ cs, pn.children = some cs ∧ c ∈ cs) ↔ cn.parent = some p :=
  W.child_iff_parent hp hc

/-- (b) child lists of distinct cells are disjoint. -/
theorem children_disjoint {P : Part α σ} (W : WF P) {p q : Nat} {pn qn : Node α σ}
    {cs cs' : List Nat} (hp : P.nodes[p]? = some pn) (hq : P.nodes[q]? = some qn)
    (hcs : pn.children = some cs) (hcs' : qn.children = some cs') (hpq : p ≠ q) :
    ∀ c, c ∈ cs → c ∉ cs' :=
  W.children_disjoint hp hq hcs hcs' hpq

/-- (c) the reported depth is the deepest non-empty level. -/
theorem depth_is_deepest {P : Part α σ} (W : WF P) :
    P.layers.length = P.depth + 1 ∧ ∀ l ∈ P.layers, l ≠ [] :=
  W.depth_is_deepest

/-- (d) within a depth the labels are unique. -/
theorem label_injective {P : Part α σ} (W : WF P) {i j : Nat} {ni nj : Node α σ}
    (hi : P.nodes[i]? = some ni) (hj : P.nodes[j]? = some nj)
    (hd : ni.depth = nj.depth) (hx : ni.index = nj.index) : i = j :=
  W.label_injective i j ni nj hi hj hd hx

/-- (e) the children of the cell with index `i` carry `K(i-1)+1 .. Ki` in child-list order,
where `K = cs.length` is the arity of the partition class. -/
theorem children_indices {P : Part α σ} (W : WF P) {p : Nat} {pn : Node α σ} {cs : List Nat}
    (hp : P.nodes[p]? = some pn) (hcs : pn.children = some cs) :
    cs.length = K P ∧ 1 ≤ cs.length ∧ 1 ≤ pn.index ∧
    ∀ j c, cs[j]? = some c → ∃ cn, P.nodes[c]? = some cn ∧
      cn.index = cs.length * (pn.index - 1) + j + 1 :=
  W.children_indices hp hcs

/-- All clauses at once. -/
theorem clauses_of_WF {P : Part α σ} (W : WF P) : Clauses P where
  listed := fun _ _ hl i => W.listed_iff_reachable hl i
  reach_valid := W.reach_iff_valid
  once := W.layers_nodup
  child_parent := fun _ _ _ _ hp hc => W.child_iff_parent hp hc
  disjoint := fun _ _ _ _ _ _ hp hq h1 h2 hpq => W.children_disjoint hp hq h1 h2 hpq
  depth_deepest := W.depth_is_deepest
  label_inj := W.label_injective
  child_idx := fun _ _ _ hp hcs => W.children_indices hp hcs

/-- Under `WF` every node of the deepest level is a leaf (so `deepen` needs no such
hypothesis, and "is at the deepest level" is `depth = P.depth`). -/
theorem deepest_are_leaves {P : Part α σ} (W : WF P) {i : Nat} (hi : i ∈ lastLayer P) :
    P.isLeaf i = true :=
  W.isLeaf_of_mem_lastLayer hi

theorem newlayer_flag_eq {P : Part α σ} (W : WF P) {p : Nat} {nd : Node α σ}
    (hp : P.nodes[p]? = some nd) :
    decide (nd.depth ≥ P.depth) = decide (nd.depth = P.depth) := by
  have := W.depth_le p nd hp
  by_cases h : nd.depth = P.depth
  · simp [h]
  · have : ¬ nd.depth ≥ P.depth := by omega
    simp [h, this]

section ops
variable [Add α] [Sub α] [Mul α] [Div α] [OfNat α 2] [NatCast α]

/-! ## 2. `make_children` on a leaf with the correct `newlayer` flag -/

/-- Never raises; the invariant is kept. -/
theorem makeChildren_WF {P : Part α σ} (W : WF P) (s0 : σ) {p h : Nat} {nd : Node α σ}
    {d : Draw α} {newlayer : Bool}
    (hp : P.nodes[p]? = some nd) (hleaf : P.isLeaf p = true) (hh : nd.depth = h)
    (hfl : newlayer = decide (h ≥ P.depth)) (hd : DrawOKLen P.kind (dimn P) d) :
    ∃ P', P.makeChildren s0 p newlayer d = .ok P' ∧ WF P' := by
  obtain ⟨nd', h1, h2⟩ := isLeaf_iff.1 hleaf
  obtain rfl := getElem?_inj hp h1
  subst hh
  obtain ⟨P', m, W', _⟩ := makeChildren_WF_step W s0 hp h2 hfl hd
  exact ⟨P', m, W'⟩

/-- Frame: old nodes are unchanged except `children` of `p`; exactly `K` new nodes are appended,
all leaves with payload `s0`, depth `h + 1`, parent `p`, boxes of the same dimension and the
consecutive indices; kind and dimension are unchanged. -/
theorem makeChildren_frame {P : Part α σ} (W : WF P) (s0 : σ) {p h : Nat} {nd : Node α σ}
    {d : Draw α} {newlayer : Bool}
    (hp : P.nodes[p]? = some nd) (hleaf : P.isLeaf p = true) (hh : nd.depth = h)
    (hfl : newlayer = decide (h ≥ P.depth)) (hd : DrawOKLen P.kind (dimn P) d) :
    ∃ P', P.makeChildren s0 p newlayer d = .ok P' ∧
      P'.kind = P.kind ∧ dimn P' = dimn P ∧
      P'.nodes.length = P.nodes.length + K P ∧
      (∀ i, i ≠ p → i < P.nodes.length → P'.nodes[i]? = P.nodes[i]?) ∧
      P'.nodes[p]? = some { nd with children := some (List.range' P.nodes.length (K P)) } ∧
      (∀ j, j < K P → ∃ cn, P'.nodes[P.nodes.length + j]? = some cn ∧
        cn.depth = h + 1 ∧ cn.index = K P * (nd.index - 1) + j + 1 ∧ cn.parent = some p ∧
        cn.children = none ∧ cn.box.length = dimn P ∧ cn.st = s0) ∧
      P'.depth = (if h = P.depth then P.depth + 1 else P.depth) := by
  obtain ⟨nd', h1, h2⟩ := isLeaf_iff.1 hleaf
  obtain rfl := getElem?_inj hp h1
  subst hh
  obtain ⟨P', m, _, S⟩ := makeChildren_WF_step W s0 hp h2 hfl hd
  refine ⟨P', m, S.kind_eq, S.dimn_eq W hp, S.len, S.old, S.atp, S.new, ?_⟩
  rcases S.layers with ⟨e1, _, e3⟩ | ⟨e1, _, e3⟩
  · simp [e1, e3]
  · have : nd.depth ≠ P.depth := by omega
    simp [this, e3]

/-! ## 3. `deepen` -/

/-- `deepen()` never raises under `WF`, given one well-formed draw per node of the deepest
level; it keeps the invariant and increases the depth by exactly one.  (No "deepest nodes are
leaves" hypothesis: `deepest_are_leaves`.) -/
theorem deepen_WF {P : Part α σ} (W : WF P) (s0 : σ) (ds : List (Draw α))
    (hlen : (lastLayer P).length ≤ ds.length) (hok : ∀ d ∈ ds, DrawOKLen P.kind (dimn P) d) :
    ∃ P' ds', P.deepen s0 ds = .ok (P', ds') ∧ WF P' ∧ P'.depth = P.depth + 1 ∧
      ds' = ds.drop (lastLayer P).length ∧ P'.kind = P.kind ∧ dimn P' = dimn P := by
  obtain ⟨P', h1, h2, h3, h4, h5⟩ := deepen_WF' W s0 ds hlen hok
  exact ⟨P', _, h1, h2, h3, rfl, h4, h5⟩

/-! ## 4. Every legal interleaving -/

/-- From any `WF` state, a legal sequence of operations never raises and ends `WF`. -/
theorem ops_WF_from {P : Part α σ} (W : WF P) (s0 : σ) (ops : List (POp α))
    (hL : Legal s0 P ops) :
    ∃ P', run s0 P ops = .ok P' ∧ WF P' ∧ P'.kind = P.kind ∧ dimn P' = dimn P :=
  run_WF s0 ops P W hL

/-- Every legal sequence of `make_children` / `deepen` calls from the initial partition
succeeds and ends in a `WF` state. -/
theorem ops_WF (k : Kind) (domain : Box α) (s0 : σ) (ops : List (POp α))
    (hL : Legal s0 (Part.init k domain s0) ops) :
    ∃ P', run s0 (Part.init k domain s0) ops = .ok P' ∧ WF P' := by
  obtain ⟨P', h1, h2, _⟩ := run_WF s0 ops _ (init_WF k domain s0) hL
  exact ⟨P', h1, h2⟩

/-- **C03**: after every legal interleaving all clauses of the property hold. -/
theorem C03 (k : Kind) (domain : Box α) (s0 : σ) (ops : List (POp α))
    (hL : Legal s0 (Part.init k domain s0) ops) :
    ∃ P', run s0 (Part.init k domain s0) ops = .ok P' ∧ Clauses P' := by
  obtain ⟨P', h1, h2⟩ := ops_WF k domain s0 ops hL
  exact ⟨P', h1, clauses_of_WF h2⟩

end ops

/-! ## 7. Non-vacuity: concrete legal runs (α := Nat, σ := Unit) -/

section examples

/-- the square `[0,8] × [0,8]` -/
def dom2 : Box Nat := [⟨0, 8⟩, ⟨0, 8⟩]
def dr (dim : Nat) : Draw Nat := ⟨dim, []⟩

/-- root, then node 1 (deepest level → new layer), then node 2 (one level above the deepest →
filed in the existing layer), then `deepen` over the four cells of depth 2. -/
def opsBin : List (POp Nat) :=
  [.mk 0 (dr 0), .mk 1 (dr 1), .mk 2 (dr 1), .deepen [dr 0, dr 1, dr 0, dr 1, dr 0]]

example : Legal () (Part.init .binary dom2 ()) opsBin := by decide

example : ∃ P', run () (Part.init .binary dom2 ()) opsBin = .ok P' ∧ WF P' :=
  ops_WF _ _ _ _ (by decide)

/-- the final state of that run: 15 cells, 4 levels. -/
example : (getOk (run () (Part.init .binary dom2 ()) opsBin)).layers =
    [[0], [1, 2], [3, 4, 5, 6], [7, 8, 9, 10, 11, 12, 13, 14]] := by decide

example : (getOk (run () (Part.init .binary dom2 ()) opsBin)).depth = 3 := by decide

/-- a ternary run with supplied random split points -/
def opsK : List (POp Nat) :=
  [.mk 0 ⟨0, [2, 5]⟩, .mk 3 ⟨1, [1, 7]⟩, .mk 1 ⟨1, [3, 4]⟩, .deepen [⟨0, [1, 2]⟩, ⟨0, [3, 4]⟩,
    ⟨1, [5, 6]⟩, ⟨1, [5, 6]⟩, ⟨1, [5, 6]⟩, ⟨1, [5, 6]⟩]]

example : Legal () (Part.init (.randKary 3) dom2 ()) opsK := by decide

example : (getOk (run () (Part.init (.randKary 3) dom2 ()) opsK)).layers =
    [[0], [1, 2, 3], [4, 5, 6, 7, 8, 9], (List.range' 10 18)] := by decide

/-- `dimBinary`: every expansion makes `2^2 = 4` children. -/
example : Legal () (Part.init .dimBinary dom2 ())
    [.mk 0 (dr 0), .mk 2 (dr 0), .deepen [dr 0, dr 0, dr 0, dr 0]] := by decide

/-- hypotheses of `makeChildren_WF` are satisfiable on a non-trivial state: after expanding the
root and node 1, node 2 is a leaf at depth 1 < 2 = depth. -/
def Pbin2 : Part Nat Unit :=
  getOk (run () (Part.init .binary dom2 ()) [.mk 0 (dr 0), .mk 1 (dr 1)])

example : WF Pbin2 := by
  obtain ⟨P', h1, h2, _⟩ := ops_WF_from (init_WF .binary dom2 ()) ()
    [.mk 0 (dr 0), .mk 1 (dr 1)] (by decide)
  have : Pbin2 = P' := by simp only [Pbin2, h1, getOk]
  exact this ▸ h2

example : Pbin2.isLeaf 2 = true ∧ (∃ nd, Pbin2.nodes[2]? = some nd ∧ nd.depth = 1) ∧
    Pbin2.depth = 2 ∧ DrawOKLen Pbin2.kind (dimn Pbin2) (dr 1) ∧
    (lastLayer Pbin2).length ≤ 2 := by decide

/-! ## 6. Misuse: what goes wrong outside the legal discipline -/

/-- the state after expanding the root once -/
def Pbin1 : Part Nat Unit :=
  getOk ((Part.init .binary dom2 ()).makeChildren () 0 true (dr 0))

/-- **Misuse 1: expanding a non-leaf.**  The root (already expanded) is split again: the call
succeeds, the root's child list is overwritten by `[3, 4]`, and the old children 1 and 2 stay
in `node_list[1]` although nothing points to them any more. -/
def Pbad1 : Part Nat Unit := getOk (Pbin1.makeChildren () 0 false (dr 1))

example : Pbin1.isLeaf 0 = false := by decide
example : (Pbin1.makeChildren () 0 false (dr 1)).isOk = true := by decide
example : Pbad1.layers = [[0], [1, 2, 3, 4]] := by decide

/-- clause (a) fails: cell 1 is listed at depth 1 but is not reachable from the root. -/
theorem misuse_nonleaf_unreachable : 1 ∈ Pbad1.layers[1]?.getD [] ∧ ¬ Reach Pbad1 1 :=
  ⟨by decide, not_reach_of_not_child (by decide) (by decide)⟩

/-- clause (b) fails: cell 1 still names the root as its parent but is not its child. -/
theorem misuse_nonleaf_parent :
    (Pbad1.nodes[1]?.bind (·.parent)) = some 0 ∧
    (Pbad1.nodes[0]?.bind (·.children)) = some [3, 4] := by decide

/-- clause (d) fails: two cells of depth 1 carry the label `(1, 1)`. -/
theorem misuse_nonleaf_labels :
    (Pbad1.nodes[1]?.map fun n => (n.depth, n.index)) = some (1, 1) ∧
    (Pbad1.nodes[3]?.map fun n => (n.depth, n.index)) = some (1, 1) := by decide

theorem misuse_nonleaf_not_WF : ¬ WF Pbad1 := fun W =>
  misuse_nonleaf_unreachable.2 ((W.reach_iff_valid 1).2 (by decide))

/-- **Misuse 2: `newlayer = True` for a cell that is not at the deepest level.**  In `Pbin2`
(depth 2) cell 2 has depth 1; splitting it with `newlayer = True` files its children (depth 2)
in a new list `node_list[3]` and reports depth 3. -/
def Pbad2 : Part Nat Unit := getOk (Pbin2.makeChildren () 2 true (dr 0))

example : (Pbin2.makeChildren () 2 true (dr 0)).isOk = true := by decide

/-- clause (a)/(c) fail: cell 5 has depth 2 but is listed at position 3, and the reported depth
is 3 although no cell has depth 3. -/
theorem misuse_flag_true :
    Pbad2.layers = [[0], [1, 2], [3, 4], [5, 6]] ∧ Pbad2.depth = 3 ∧
    (Pbad2.nodes[5]?.map (·.depth)) = some 2 ∧
    Pbad2.nodes.all (fun n => n.depth ≤ 2) = true := by decide

theorem misuse_flag_true_not_WF : ¬ WF Pbad2 := fun W => by
  obtain ⟨nd, h1, h2⟩ := ((W.layers_mem 3 [5, 6] (by decide)).2.2 5).1 (by decide)
  have : (Pbad2.nodes[5]?.map (·.depth)) = some 2 := by decide
  rw [h1] at this
  simp at this
  omega

/-- **Misuse 3: `newlayer = False` for a cell at the deepest level** raises `IndexError`
(`self.node_list[parent.depth + 1]` does not exist yet). -/
theorem misuse_flag_false :
    (Part.init .binary dom2 ()).makeChildren () 0 false (dr 0) = .error .indexError := rfl

end examples

end Tree
end PyXAB
