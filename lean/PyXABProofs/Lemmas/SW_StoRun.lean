/-
  StoSOO: totality of `pull`, `lastPoint`, the ask/tell loop.
-/
import PyXABProofs.Lemmas.SW_Sto

set_option linter.unusedSectionVars false

namespace PyXAB
namespace StoSOO
open Tree TBA SW

variable {α R S : Type} [Add α] [Sub α] [Mul α] [Div α] [OfNat α 2] [NatCast α]
variable [LinearOrder S] [Inhabited S] [Inhabited R]

/-! ### (7) Totality of `pull` -/

/-- The iteration which follows an expansion at layer `h`: layer `h + 1` ends with the last new
child, a fresh leaf whose refreshed `b` is `inf`; it is handed out. -/
theorem loopT_after_expand (cfg : StoCfg S R) (htop : ∀ x, x ≤ cfg.inf)
    (hk0 : cfg.countLT 0 = true) {time : Nat} (ht : time ≤ cfg.n) (fuel : Nat) {h : Nat} (x : S)
    {P1 P2 : Part α (TBSt R S)} {m : Nat} {nd : Node α (TBSt R S)} (ds : List (Draw α))
    (W1 : WF P1) (St : Step P1 P2 (st0 cfg) m nd) (hdep : nd.depth = h) (hK : 1 ≤ K P1)
    (W2 : WF P2) (hcap : h + 1 ≤ cfg.hmax) :
    ∃ P3 j v, loopT cfg time (fuel + 1) (h + 1) x P2 ds = .ok (P3, ds, x, h + 1, j, v, []) ∧
      P3.depth = P2.depth := by
  obtain ⟨l1, hl1, _, hlast⟩ := Step_new_layer St W1 hK
  rw [hdep] at hl1
  have hd2 : h + 1 ≤ P2.depth := by
    have := lt_length_of_getElem? hl1
    rw [W2.layers_len] at this; omega
  have hg : h + 1 ≤ min (P2.depth + 1) cfg.hmax := by omega
  cases hsc : scan cfg l1 0 P2 none with
  | mk P3 res =>
    have hp := scan_spec0 cfg hsc
    -- the last new child
    obtain ⟨cn, c1, _, _, _, c5, _, c7⟩ := St.new (K P1 - 1) (by omega)
    have hz : P1.nodes.length + (K P1 - 1) = P1.nodes.length + K P1 - 1 := by omega
    rw [hz] at c1
    have hzl : P1.nodes.length + K P1 - 1 ∈ l1 := List.mem_of_getLast? hlast
    obtain ⟨cn3, d1, d2⟩ := hp.refreshed _ hzl cn c1 c5
    rw [c7, computeB_st0] at d2
    have d3 : cn3.children = none := by
      obtain ⟨cn3', e1, e2, _⟩ := hp.prel.node _ cn c1
      obtain rfl := getElem?_inj d1 e1
      rw [e2.children]; exact c5
    have hscore : leafScore P3 (·.b) (P1.nodes.length + K P1 - 1) = some cfg.inf :=
      leafScore_eq_some_iff.2 ⟨cn3, d1, d3, by rw [d2]; rfl⟩
    unfold loopT
    simp only [hg, if_true, ht, hl1, hsc]
    rcases hp.best with ⟨rfl, e2⟩ | ⟨k, m', x', rfl, _, hmax⟩
    · rw [e2 _ hzl] at hscore; cases hscore
    · obtain rfl := hmax.eq_last hlast hscore htop
      have hx' : x' = cfg.inf := by
        have := hmax.score; rw [hscore] at this; cases this; rfl
      subst hx'
      have hc0 : cfg.countLT cn3.st.count = true := by rw [d2]; exact hk0
      simp only [htop x, if_true, d1, hc0]
      exact ⟨P3, k, _, rfl, hp.prel.depth⟩

theorem loopT_total (cfg : StoCfg S R) (hbot : ∀ x, cfg.negInf ≤ x) (htop : ∀ x, x ≤ cfg.inf)
    (hk0 : cfg.countLT 0 = true) {time : Nat} (ht : time ≤ cfg.n) :
    ∀ (fuel h : Nat) (P : Part α (TBSt R S)) (d : Draw α) (ds : List (Draw α)),
      PInv cfg P → P.depth + 1 ≤ cfg.hmax → h ≤ P.depth → P.depth - h + 3 ≤ fuel →
      DrawOKLen P.kind (dimn P) d →
      ∃ P' ds' bm h' j v tr,
        loopT cfg time fuel h cfg.negInf P (d :: ds) = .ok (P', ds', bm, h', j, v, tr) ∧
        P'.depth ≤ P.depth + 1
  | 0, _, _, _, _, _, _, _, hf, _ => by omega
  | fuel + 1, h, P, d, ds, hI, hcap, hh, hf, hd => by
    obtain ⟨layer, hlay⟩ := WF_layer_exists hI.wf hh
    have hg : h ≤ min (P.depth + 1) cfg.hmax := by omega
    cases hsc : scan cfg layer 0 P none with
    | mk P1 res =>
      have hp := scan_spec0 cfg hsc
      have hI1 : PInv cfg P1 := hI.refresh hp.prel
      have hlay1 : P1.layers[h]? = some layer := by rw [hp.prel.layers]; exact hlay
      have hd1 : DrawOKLen P1.kind (dimn P1) d := by
        rw [hp.prel.kind, hp.prel.dimn_eq]; exact hd
      have hdep1 := hp.prel.depth
      unfold loopT
      simp only [hg, if_true, ht, hlay, hsc]
      rcases hp.best with ⟨rfl, e2⟩ | ⟨k, m, x, rfl, _, hmax⟩
      · -- no leaf in this layer: it is not the deepest one
        have hlt : h < P1.depth := by
          rcases Nat.lt_or_ge h P1.depth with h1 | h1
          · exact h1
          · exfalso
            obtain rfl : h = P1.depth := by omega
            obtain ⟨l, w, nd, a1, a2, a3, a4, _⟩ := WF_deepest_leaf hI1.wf
            rw [hlay1] at a1; cases a1
            exact leafScore_eq_none_iff.1 (e2 w a2) nd a3 a4
        obtain ⟨P', ds', bm, h', j, v, tr, e, hle⟩ := loopT_total cfg hbot htop hk0 ht fuel
          (h + 1) P1 d ds hI1 (by omega) (by omega) (by omega) hd1
        exact ⟨P', ds', bm, h', j, v, tr, e, by omega⟩
      · simp only [hbot, if_true]
        obtain ⟨nd, hm, hleaf, hx⟩ := leafScore_eq_some_iff.1 hmax.score
        obtain ⟨nd2, hm2, hdep⟩ := WF_node_of_mem_layer hI1.wf hlay1 hmax.mem
        obtain rfl := getElem?_inj hm hm2
        simp only [hm]
        cases hcl : cfg.countLT nd.st.count with
        | true =>
          simp only [if_true]
          exact ⟨_, _, _, _, _, _, _, rfl, by omega⟩
        | false =>
          obtain ⟨P2, hmk, St, W2, hK⟩ := expand_total hI1.wf (st0 cfg) ds hm hleaf
            (fl := decide (h ≥ P1.depth)) (by rw [hdep]) hd1
          simp only [Bool.false_eq_true, if_false, hmk]
          have hd2 : P2.depth ≤ P1.depth + 1 := by
            rcases St.layers with ⟨_, _, e⟩ | ⟨_, _, e⟩ <;> omega
          obtain ⟨fuel', rfl⟩ : ∃ f, fuel = f + 1 := ⟨fuel - 1, by omega⟩
          obtain ⟨P3, j, v, e, hd3⟩ := loopT_after_expand cfg htop hk0 ht fuel' x ds hI1.wf St
            hdep hK W2 (by omega)
          rw [e]
          exact ⟨_, _, _, _, _, _, _, rfl, by omega⟩

theorem pullT_total (cfg : StoCfg S R) (hbot : ∀ x, cfg.negInf ≤ x) (htop : ∀ x, x ≤ cfg.inf)
    (hk0 : cfg.countLT 0 = true) {s : StoSOO α R S} {time : Nat} {ds : List (Draw α)}
    (hI : Inv cfg s) (hcap : s.P.depth + 1 ≤ cfg.hmax) (ht : time ≤ cfg.n)
    (hlen : 1 ≤ ds.length) (hds : ∀ d ∈ ds, DrawOKLen s.P.kind (dimn s.P) d) :
    ∃ s' ds' v tr, pullT cfg s time ds = .ok (s', ds', v, tr) ∧
      s'.P.depth ≤ s.P.depth + 1 := by
  cases ds with
  | nil => simp at hlen
  | cons d ds =>
    obtain ⟨P', ds', bm, h', j, v, tr, e, hd⟩ := loopT_total cfg hbot htop hk0 ht
      (s.P.depth + 4) 0 s.P d ds hI hcap (Nat.zero_le _) (by omega) (hds d (List.mem_cons_self ..))
    refine ⟨{ s with P := P', iteration := time, bmax := bm, sel := some (h', j) }, ds', v, tr,
      ?_, hd⟩
    unfold pullT
    simp only [e]

/-! ### (9) The ask/tell loop -/

theorem init_inv (cfg : StoCfg S R) (k : Kind) (domain : Box α) :
    Inv cfg (init cfg k domain) ∧ (init cfg k domain).P.kind = k ∧
      dimn (init cfg k domain).P = domain.length ∧ (init cfg k domain).P.depth = 0 :=
  ⟨PInv.init cfg k domain, rfl, rfl, rfl⟩

/-- What a successful round preserves (no totality hypotheses). -/
theorem round_inv (cfg : StoCfg S R) {s s' : StoSOO α R S} {x : Input α R} {v : Nat}
    (hI : Inv cfg s) (hds : ∀ d ∈ x.2.1, DrawOKLen s.P.kind (dimn s.P) d)
    (hrun : round cfg s x = .ok (s', v)) :
    Inv cfg s' ∧ s'.P.kind = s.P.kind ∧ dimn s'.P = dimn s.P ∧ s.P.depth ≤ s'.P.depth := by
  unfold round at hrun
  cases hp : pull cfg s x.1 x.2.1 with
  | error e => simp [hp] at hrun
  | ok res =>
    obtain ⟨s1, ds1, v1⟩ := res
    obtain ⟨tr, hpT⟩ := (pull_ok_iff cfg s x.1 x.2.1 s1 ds1 v1).1 hp
    obtain ⟨⟨h, j, _, hpost⟩, hR, _⟩ := pullT_spec cfg hI hds hpT
    obtain ⟨s2, e2, hI2, hP2, _⟩ := receive_spec cfg x.2.2 hR
    simp only [hp, e2, Except.ok.injEq, Prod.mk.injEq] at hrun
    obtain ⟨rfl, rfl⟩ := hrun
    have hr := PRel_modifySt s1.P v1 (recvSt cfg x.2.2)
    have hP2' : s2.P = s1.P.modifySt v1 (recvSt cfg x.2.2) := hP2
    refine ⟨hI2, ?_, ?_, ?_⟩
    · rw [hP2', hr.kind]; exact hpost.ext.kind
    · rw [hP2', hr.dimn_eq]; exact hpost.ext.dimn
    · rw [hP2', hr.depth]; exact hpost.ext.depth

theorem round_spec (cfg : StoCfg S R) (hbot : ∀ x, cfg.negInf ≤ x) (htop : ∀ x, x ≤ cfg.inf)
    (hk0 : cfg.countLT 0 = true) {s : StoSOO α R S} {x : Input α R} (hI : Inv cfg s)
    (hcap : s.P.depth + 1 ≤ cfg.hmax) (ht : x.1 ≤ cfg.n) (hlen : 1 ≤ x.2.1.length)
    (hds : ∀ d ∈ x.2.1, DrawOKLen s.P.kind (dimn s.P) d) :
    ∃ s' v, round cfg s x = .ok (s', v) ∧ Inv cfg s' ∧ s'.P.kind = s.P.kind ∧
      dimn s'.P = dimn s.P ∧ s'.P.depth ≤ s.P.depth + 1 := by
  obtain ⟨s1, ds1, v, tr, hpT, hd⟩ := pullT_total cfg hbot htop hk0 hI hcap ht hlen hds
  have hp : pull cfg s x.1 x.2.1 = .ok (s1, ds1, v) :=
    (pull_ok_iff cfg s x.1 x.2.1 s1 ds1 v).2 ⟨tr, hpT⟩
  obtain ⟨_, hR, _⟩ := pullT_spec cfg hI hds hpT
  obtain ⟨s2, e2, _, hP2, _⟩ := receive_spec cfg x.2.2 hR
  have hrun : round cfg s x = .ok (s2, v) := by
    unfold round; simp only [hp, e2]
  obtain ⟨a, b, c, _⟩ := round_inv cfg hI hds hrun
  refine ⟨s2, v, hrun, a, b, c, ?_⟩
  have hP2' : s2.P = s1.P.modifySt v (recvSt cfg x.2.2) := hP2
  rw [hP2']
  exact hd

/-- Every state reachable by the documented loop from a state satisfying the invariant
satisfies the invariant (in particular no cell is ever evaluated more than `k` times). -/
theorem runRounds_inv (cfg : StoCfg S R) : ∀ (inputs : List (Input α R)) (s s' : StoSOO α R S)
    (H : List (Nat × R)), Inv cfg s →
    (∀ x ∈ inputs, ∀ d ∈ x.2.1, DrawOKLen s.P.kind (dimn s.P) d) →
    runRounds cfg s inputs = .ok (s', H) →
    Inv cfg s' ∧ s'.P.kind = s.P.kind ∧ dimn s'.P = dimn s.P ∧ s.P.depth ≤ s'.P.depth ∧
      H.map (·.2) = inputs.map (·.2.2)
  | [], s, s', H, hI, _, hrun => by
    simp only [runRounds, Except.ok.injEq, Prod.mk.injEq] at hrun
    obtain ⟨rfl, rfl⟩ := hrun
    exact ⟨hI, rfl, rfl, Nat.le_refl _, rfl⟩
  | x :: rest, s, s', H, hI, hds, hrun => by
    unfold runRounds at hrun
    cases hr : round cfg s x with
    | error e => simp [hr] at hrun
    | ok res =>
      obtain ⟨s1, v⟩ := res
      simp only [hr] at hrun
      obtain ⟨a, b, c, d⟩ := round_inv cfg hI (hds x (List.mem_cons_self ..)) hr
      cases hrec : runRounds cfg s1 rest with
      | error e => simp [hrec] at hrun
      | ok res =>
        obtain ⟨s2, H2⟩ := res
        simp only [hrec, Except.ok.injEq, Prod.mk.injEq] at hrun
        obtain ⟨rfl, rfl⟩ := hrun
        obtain ⟨a', b', c', d', e'⟩ := runRounds_inv cfg rest s1 s2 H2 a
          (fun y hy dr hdr => by rw [b, c]; exact hds y (List.mem_cons_of_mem _ hy) dr hdr) hrec
        exact ⟨a', b'.trans b, c'.trans c, Nat.le_trans d d', by simp [e']⟩

theorem runRounds_ok (cfg : StoCfg S R) (hbot : ∀ x, cfg.negInf ≤ x) (htop : ∀ x, x ≤ cfg.inf)
    (hk0 : cfg.countLT 0 = true) : ∀ (inputs : List (Input α R)) (s : StoSOO α R S),
    Inv cfg s → InputsOK s.P.kind (dimn s.P) inputs → (∀ x ∈ inputs, x.1 ≤ cfg.n) →
    s.P.depth + inputs.length ≤ cfg.hmax →
    ∃ s' H, runRounds cfg s inputs = .ok (s', H) ∧ Inv cfg s' ∧
      H.map (·.2) = inputs.map (·.2.2) ∧ s'.P.depth ≤ s.P.depth + inputs.length ∧
      s'.P.kind = s.P.kind ∧ dimn s'.P = dimn s.P
  | [], s, hI, _, _, _ => ⟨s, [], rfl, hI, rfl, Nat.le_refl _, rfl, rfl⟩
  | x :: rest, s, hI, hin, hn, hcap => by
    simp only [List.length_cons] at hcap
    obtain ⟨hlen, hds⟩ := hin x (List.mem_cons_self ..)
    obtain ⟨s1, v, hr, a, b, c, d⟩ := round_spec cfg hbot htop hk0 hI (by omega)
      (hn x (List.mem_cons_self ..)) hlen hds
    obtain ⟨s2, H2, hrec, a', e', d', b', c'⟩ := runRounds_ok cfg hbot htop hk0 rest s1 a
      (fun y hy => by rw [b, c]; exact hin y (List.mem_cons_of_mem _ hy))
      (fun y hy => hn y (List.mem_cons_of_mem _ hy)) (by omega)
    refine ⟨s2, (v, x.2.2) :: H2, ?_, a', by simp [e'], ?_, b'.trans b, c'.trans c⟩
    · unfold runRounds; simp only [hr, hrec]
    · simp only [List.length_cons]; omega

/-- The documented loop never raises (and never hangs) as long as the depth cap `h_max` is not
reached and `time ≤ n`. -/
theorem run_ok (cfg : StoCfg S R) (hbot : ∀ x, cfg.negInf ≤ x) (htop : ∀ x, x ≤ cfg.inf)
    (hk0 : cfg.countLT 0 = true) (k : Kind) (domain : Box α) (inputs : List (Input α R))
    (hin : InputsOK k domain.length inputs) (hn : ∀ x ∈ inputs, x.1 ≤ cfg.n)
    (hcap : inputs.length ≤ cfg.hmax) :
    ∃ s' H, run cfg k domain inputs = .ok (s', H) ∧ Inv cfg s' ∧
      H.map (·.2) = inputs.map (·.2.2) ∧ s'.P.depth ≤ inputs.length ∧ s'.P.kind = k ∧
      dimn s'.P = domain.length := by
  obtain ⟨hI, hk, hd, h0⟩ := init_inv (α := α) cfg k domain
  obtain ⟨s', H, e, a, b, c, d, f⟩ := runRounds_ok cfg hbot htop hk0 inputs (init cfg k domain) hI
    (by rw [hk, hd]; exact hin) hn (by rw [h0]; omega)
  exact ⟨s', H, e, a, b, by rw [h0] at c; omega, d.trans hk, f.trans hd⟩

/-! ### (8) `lastPoint` -/

theorem foldl_eq_amFold (f : Nat → Option S) (g : S × Option Nat → Nat → S × Option Nat)
    (hg : ∀ acc id, g acc id = amStep f acc id) (l : List Nat) (acc : S × Option Nat) :
    l.foldl g acc = amFold f l acc := by
  have : g = amStep f := funext fun a => funext fun b => hg a b
  rw [this]; rfl

theorem lastPoint_spec (cfg : StoCfg S R) (hbot : ∀ x, cfg.negInf ≤ x) {s : StoSOO α R S}
    (W : WF s.P) :
    ∃ v l nd, lastPoint cfg s = .ok v ∧ s.P.layers[s.P.depth]? = some l ∧
      s.P.nodes[v]? = some nd ∧ nd.depth = s.P.depth ∧
      IsLastMax (nodeScore s.P (·.mean)) l v nd.st.mean := by
  obtain ⟨l, hl⟩ := WF_layer_exists W (Nat.le_refl s.P.depth)
  obtain ⟨_, hne, hmem⟩ := W.layers_mem _ l hl
  unfold lastPoint
  simp only [hl]
  rw [foldl_eq_amFold (nodeScore s.P (·.mean)) _ ?hg l]
  case hg =>
    intro acc id
    unfold amStep nodeScore
    cases s.P.nodes[id]? <;> rfl
  rcases amFold_bot (nodeScore s.P (·.mean)) l cfg.negInf hbot with ⟨_, e2⟩ | ⟨m, x, e1, hmax⟩
  · exfalso
    obtain ⟨w, hw⟩ := List.exists_mem_of_ne_nil l hne
    obtain ⟨nd, h1, _⟩ := (hmem w).1 hw
    have := e2 w hw
    simp [nodeScore, h1] at this
  · obtain ⟨nd, h1, h2⟩ := (hmem m).1 hmax.mem
    have hx : x = nd.st.mean := by
      have := hmax.score
      simp only [nodeScore, h1, Option.some.injEq] at this
      exact this.symm
    subst hx
    rw [e1]
    exact ⟨m, l, nd, rfl, rfl, h1, h2, hmax⟩

end StoSOO
end PyXAB
