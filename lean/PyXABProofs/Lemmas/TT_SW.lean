/-
  C01 for the layer-sweep optimisers SOO, DOO, StoSOO: the instrumented loops `sweepT`,
  `sweepsT`, `loopT` keep `DomInv` when every expansion event consumed a fitting draw
  (`EvDraws`), and the documented loop hands out valid cells only.
-/
import PyXABProofs.Lemmas.TT_Box
import PyXABProofs.Props.C08

set_option linter.unusedSectionVars false
set_option linter.unusedVariables false

namespace PyXAB
namespace TT
open _root_.PyXAB.Tree TBA SW

section evdraws
variable {α σ S : Type} [LinearOrder α]

theorem evDraws_nil {k : Kind} {root : Box α} (ds : List (Draw α)) :
    EvDraws (σ := σ) (S := S) k root ds [] := by
  cases ds <;> simp [EvDraws]

end evdraws

/-! ## SOO -/
namespace SOO
open PyXAB.SOO
variable {α S : Type} [Field α] [LinearOrder α] [IsStrictOrderedRing α]
variable [LinearOrder S] [Inhabited S]

theorem sweepT_dom (negInf : S) (hmax : Nat) {k : Kind} {root : Box α} :
    ∀ (fuel h : Nat) (vmax : S) (P : Part α (SwSt S)) (ds : List (Draw α))
      (P' : Part α (SwSt S)) (ds' : List (Draw α)) (r : Option Nat)
      (tr : List (Ev α (SwSt S) S)),
      sweepT negInf hmax fuel h vmax P ds = .ok (P', ds', r, tr) → DomInv k root P →
      ∀ rest : List (Ev α (SwSt S) S), EvDraws k root ds (tr ++ rest) →
        DomInv k root P' ∧ Keeps P P' ∧ EvDraws k root ds' rest
  | 0, _, _, _, _, _, _, _, _, h, _, _, _ => by simp [sweepT] at h
  | fuel + 1, h, vmax, P, ds, P', ds', r, tr, hrun, hD, rest, hE => by
    unfold sweepT at hrun
    split at hrun
    · split at hrun
      · cases hrun
      · split at hrun
        · -- found
          simp only [Except.ok.injEq, Prod.mk.injEq] at hrun
          obtain ⟨rfl, rfl, rfl, rfl⟩ := hrun
          exact ⟨DomInv.of_prel (Geo.modifySt P _ _) hD, Keeps.of_prel (Geo.modifySt P _ _), hE⟩
        · split at hrun
          · split at hrun
            · -- expansion of `m`
              split at hrun
              · cases hrun
              · rename_i P1 ds1 hm
                split at hrun
                · cases hrun
                · rename_i P2 ds2 r2 tr2 hrec
                  simp only [Except.ok.injEq, Prod.mk.injEq] at hrun
                  obtain ⟨rfl, rfl, rfl, rfl⟩ := hrun
                  obtain ⟨d, rfl, _⟩ := makeChildrenD_ok hm
                  simp only [List.cons_append, EvDraws] at hE
                  obtain ⟨hd, hE'⟩ := hE
                  have hS : SplitFits k root P _ (d :: ds1) := fun nd hn => hd nd hn
                  obtain ⟨hD1, hK1⟩ := makeChildrenD_dom hD hS hm
                  obtain ⟨a, b, c⟩ := sweepT_dom negInf hmax fuel _ _ _ _ _ _ _ _ hrec hD1 rest hE'
                  exact ⟨a, hK1.trans b, c⟩
            · exact sweepT_dom negInf hmax fuel _ _ _ _ _ _ _ _ hrun hD rest hE
          · exact sweepT_dom negInf hmax fuel _ _ _ _ _ _ _ _ hrun hD rest hE
    · simp only [Except.ok.injEq, Prod.mk.injEq] at hrun
      obtain ⟨rfl, rfl, rfl, rfl⟩ := hrun
      exact ⟨hD, Keeps.refl _, hE⟩

theorem sweepsT_dom (negInf : S) (hmax : Nat) {k : Kind} {root : Box α} :
    ∀ (fuel : Nat) (P : Part α (SwSt S)) (ds : List (Draw α))
      (P' : Part α (SwSt S)) (ds' : List (Draw α)) (id : Nat)
      (trs : List (List (Ev α (SwSt S) S))),
      sweepsT negInf hmax fuel P ds = .ok (P', ds', id, trs) → DomInv k root P →
      ∀ rest : List (Ev α (SwSt S) S), EvDraws k root ds (trs.flatten ++ rest) →
        DomInv k root P' ∧ Keeps P P' ∧ EvDraws k root ds' rest
  | 0, _, _, _, _, _, _, h, _, _, _ => by simp [sweepsT] at h
  | fuel + 1, P, ds, P', ds', id, trs, hrun, hD, rest, hE => by
    unfold sweepsT at hrun
    split at hrun
    · cases hrun
    · rename_i P1 ds1 id1 tr hs
      simp only [Except.ok.injEq, Prod.mk.injEq] at hrun
      obtain ⟨rfl, rfl, rfl, rfl⟩ := hrun
      simp only [List.flatten_cons, List.flatten_nil, List.append_nil] at hE
      exact sweepT_dom negInf hmax _ _ _ _ _ _ _ _ _ hs hD rest hE
    · rename_i P1 ds1 tr hs
      split at hrun
      · cases hrun
      · rename_i P2 ds2 id2 trs2 hrec
        simp only [Except.ok.injEq, Prod.mk.injEq] at hrun
        obtain ⟨rfl, rfl, rfl, rfl⟩ := hrun
        simp only [List.flatten_cons, List.append_assoc] at hE
        obtain ⟨a1, b1, c1⟩ := sweepT_dom negInf hmax _ _ _ _ _ _ _ _ _ hs hD _ hE
        obtain ⟨a2, b2, c2⟩ := sweepsT_dom negInf hmax fuel _ _ _ _ _ _ hrec a1 rest c1
        exact ⟨a2, b1.trans b2, c2⟩

/-- `pull` keeps the invariant when the draws of its expansion events fit. -/
theorem pullT_dom (negInf : S) {k : Kind} {root : Box α} {s s' : SOO α S} {t : Nat}
    {ds ds' : List (Draw α)} {v : Nat} {trs : List (List (Ev α (SwSt S) S))}
    (hD : DomInv k root s.P) (hE : EvDraws k root ds trs.flatten)
    (h : pullT negInf s t ds = .ok (s', ds', v, trs)) : DomInv k root s'.P ∧ Keeps s.P s'.P := by
  unfold pullT at h
  split at h
  · cases h
  · rename_i P1 ds1 id1 trs1 hs
    simp only [Except.ok.injEq, Prod.mk.injEq] at h
    obtain ⟨rfl, rfl, rfl, rfl⟩ := h
    obtain ⟨a, b, _⟩ := sweepsT_dom negInf s.hmax _ _ _ _ _ _ _ hs hD []
      (by simpa using hE)
    exact ⟨a, b⟩

theorem receive_geo {s s' : SOO α S} {r : S} (h : receive s r = .ok s') : Geo s.P s'.P := by
  unfold receive at h
  split at h
  · cases h
  · simp only [Except.ok.injEq] at h
    subst h
    dsimp only
    exact Geo.modifySt s.P _ _

theorem runRounds_dom (negInf : S) (hbot : ∀ x, negInf ≤ x) {k : Kind} {root : Box α} :
    ∀ (inputs : List (Input α S)) (s : SOO α S), Inv negInf s → DomInv k root s.P →
      InputsOK k root.length inputs → s.P.depth + inputs.length ≤ s.hmax →
      GoodDraws negInf k root s inputs →
      ∃ s' H, runRounds negInf s inputs = .ok (s', H) ∧ Inv negInf s' ∧ DomInv k root s'.P ∧
        Keeps s.P s'.P ∧ H.map (·.2) = inputs.map (·.2.2) ∧ s'.hmax = s.hmax ∧
        ∀ e ∈ H, PointOK root s'.P e.1
  | [], s, hI, hD, _, _, _ =>
    ⟨s, [], rfl, hI, hD, Keeps.refl _, rfl, rfl, fun _ h => by cases h⟩
  | x :: rest, s, hI, hD, hin, hcap, hG => by
    have hdim : dimn s.P = root.length := dimn_of_boxInv hI.pinv.wf hD.box
    obtain ⟨hl, hds0⟩ := hin x (List.mem_cons_self ..)
    have hds : ∀ d ∈ x.2.1, DrawOKLen s.P.kind (dimn s.P) d := by
      rw [hD.kind, hdim]; exact hds0
    simp only [List.length_cons] at hcap
    obtain ⟨s2, v, hr, hdep⟩ := round_total negInf hbot x hI (by omega) hl hds
    obtain ⟨s1, ds1, trs, Pb, hp⟩ := round_spec negInf hbot hI hds hr
    obtain ⟨hE, hG'⟩ := hG s1 ds1 v trs hp.pullT
    obtain ⟨hD1, hK1⟩ := pullT_dom negInf hD hE hp.pullT
    have g12 := receive_geo hp.recv
    have hD2 := DomInv.of_prel g12 hD1
    obtain ⟨s', H, hrun, hI', hD', hK', hH, hm', hpts⟩ := runRounds_dom negInf hbot rest s2
      hp.inv2 hD2 (fun y hy => hin y (List.mem_cons_of_mem _ hy)) (by rw [hp.hmax]; omega)
      (hG' s2 hp.recv)
    obtain ⟨nd, hnd, _⟩ := hp.inv1.curr v hp.curr1
    have hv : v < s1.P.nodes.length := lt_length_of_getElem? hnd
    refine ⟨s', (v, x.2.2) :: H, ?_, hI', hD', ?_, ?_, hm'.trans hp.hmax, ?_⟩
    · simp only [runRounds, hr, hrun]
    · exact (hK1.trans (Keeps.of_prel g12)).trans hK'
    · simp [hH]
    · intro e he
      rcases List.mem_cons.1 he with rfl | he
      · exact ((hD1.pointOK hv).keeps (Keeps.of_prel g12)).keeps hK'
      · exact hpts e he

theorem goodDraws_of_det (negInf : S) {k : Kind} (hk : Kind.Deterministic k) {root : Box α} :
    ∀ (inputs : List (Input α S)) (s : SOO α S),
      InputsOK k root.length inputs → GoodDraws negInf k root s inputs
  | [], _, _ => trivial
  | x :: rest, s, hin => fun s1 ds1 v trs _ =>
    ⟨evDraws_of_det hk _ _ (hin _ (List.mem_cons_self ..)).2, fun s2 _ =>
      goodDraws_of_det negInf hk rest s2 (fun y hy => hin y (List.mem_cons_of_mem _ hy))⟩

/-- the recommendation is a cell of the tree -/
theorem lastPoint_valid (negInf : S) {s : SOO α S} {v : Nat}
    (h : lastPoint negInf s = .ok v) : v < s.P.nodes.length := by
  unfold lastPoint at h
  split at h
  · rename_i id hid
    simp only [Except.ok.injEq] at h
    subst h
    unfold argmaxListed at hid
    have key : ∀ (l : List Nat) (acc : S × Option Nat),
        (∀ w, acc.2 = some w → w < s.P.nodes.length) →
        ∀ w, (l.foldl (fun (acc : S × Option Nat) id =>
          match s.P.nodes[id]? with
          | none => acc
          | some nd => if acc.1 ≤ nd.st.reward then (nd.st.reward, some id) else acc) acc).2 = some w →
          w < s.P.nodes.length := by
      intro l
      induction l with
      | nil => intro acc ha w hw; exact ha w hw
      | cons a l ih =>
        intro acc ha w hw
        rw [List.foldl_cons] at hw
        refine ih _ ?_ w hw
        intro w' hw'
        cases hn : s.P.nodes[a]? with
        | none => simp only [hn] at hw'; exact ha w' hw'
        | some nd =>
          simp only [hn] at hw'
          split at hw'
          · simp only [Option.some.injEq] at hw'
            subst hw'
            exact lt_length_of_getElem? hn
          · exact ha w' hw'
    exact key _ _ (fun w hw => by cases hw) id hid
  · cases h

end SOO

/-- the last-maximum fold of the recommendation functions only ever returns cells of the tree -/
theorem argmaxListed_valid {α S : Type} [LE S] [DecidableLE S] (P : Part α (SwSt S)) (negInf : S)
    {v : Nat} (h : PyXAB.SOO.argmaxListed P negInf = some v) : v < P.nodes.length := by
  unfold PyXAB.SOO.argmaxListed at h
  have key : ∀ (l : List Nat) (acc : S × Option Nat),
      (∀ w, acc.2 = some w → w < P.nodes.length) →
      ∀ w, (l.foldl (fun (acc : S × Option Nat) id =>
        match P.nodes[id]? with
        | none => acc
        | some nd => if acc.1 ≤ nd.st.reward then (nd.st.reward, some id) else acc) acc).2 = some w →
        w < P.nodes.length := by
    intro l
    induction l with
    | nil => intro acc ha w hw; exact ha w hw
    | cons a l ih =>
      intro acc ha w hw
      rw [List.foldl_cons] at hw
      refine ih _ ?_ w hw
      intro w' hw'
      cases hn : P.nodes[a]? with
      | none => simp only [hn] at hw'; exact ha w' hw'
      | some nd =>
        simp only [hn] at hw'
        split at hw'
        · simp only [Option.some.injEq] at hw'
          subst hw'
          exact lt_length_of_getElem? hn
        · exact ha w' hw'
  exact key _ _ (fun w hw => by cases hw) v h

/-! ## DOO -/
namespace DOO
open PyXAB.DOO
variable {α S : Type} [Field α] [LinearOrder α] [IsStrictOrderedRing α]
variable [LinearOrder S] [Inhabited S]

theorem loopT_dom (cfg : DOOCfg α S) {k : Kind} {root : Box α} :
    ∀ (fuel h : Nat) (maxv : S) (maxn : Option Nat) (P : Part α (SwSt S)) (ds : List (Draw α))
      (P' : Part α (SwSt S)) (ds' : List (Draw α)) (id : Nat) (tr : List (Ev α (SwSt S) S)),
      loopT cfg fuel h maxv maxn P ds = .ok (P', ds', id, tr) → DomInv k root P →
      ∀ rest : List (Ev α (SwSt S) S), EvDraws k root ds (tr ++ rest) →
        DomInv k root P' ∧ Keeps P P' ∧ EvDraws k root ds' rest
  | 0, _, _, _, _, _, _, _, _, _, h, _, _, _ => by simp [loopT] at h
  | fuel + 1, h, maxv, maxn, P, ds, P', ds', id, tr, hrun, hD, rest, hE => by
    unfold loopT at hrun
    split at hrun
    · split at hrun
      · cases hrun
      · split at hrun
        · cases hrun
        · split at hrun
          · -- found
            rename_i P1 id1 hsc
            have g := Geo.of_prel (scan_spec cfg _ _ _ _ _ _ _ hsc).rel
            simp only [Except.ok.injEq, Prod.mk.injEq] at hrun
            obtain ⟨rfl, rfl, rfl, rfl⟩ := hrun
            have g' : Geo P (mark P1 id1) := g.trans (Geo.modifySt P1 id1 _)
            exact ⟨DomInv.of_prel g' hD, Keeps.of_prel g', hE⟩
          · rename_i P1 maxv' maxn' hsc
            have g := Geo.of_prel (scan_spec cfg _ _ _ _ _ _ _ hsc).rel
            have hD1 := DomInv.of_prel g hD
            split at hrun
            · split at hrun
              · cases hrun
              · split at hrun
                · cases hrun
                · split at hrun
                  · cases hrun
                  · rename_i P2 ds2 hm
                    split at hrun
                    · cases hrun
                    · rename_i P3 ds3 id3 tr3 hrec
                      simp only [Except.ok.injEq, Prod.mk.injEq] at hrun
                      obtain ⟨rfl, rfl, rfl, rfl⟩ := hrun
                      obtain ⟨d, rfl, _⟩ := makeChildrenD_ok hm
                      simp only [List.cons_append, EvDraws] at hE
                      obtain ⟨hd, hE'⟩ := hE
                      have hS : SplitFits k root P1 _ (d :: ds2) := fun nd hn => hd nd hn
                      obtain ⟨hD2, hK2⟩ := makeChildrenD_dom hD1 hS hm
                      obtain ⟨a, b, c⟩ :=
                        loopT_dom cfg fuel _ _ _ _ _ _ _ _ _ hrec hD2 rest hE'
                      exact ⟨a, ((Keeps.of_prel g).trans hK2).trans b, c⟩
            · obtain ⟨a, b, c⟩ := loopT_dom cfg fuel _ _ _ _ _ _ _ _ _ hrun hD1 rest hE
              exact ⟨a, (Keeps.of_prel g).trans b, c⟩
    · cases hrun

theorem pullT_dom (cfg : DOOCfg α S) {k : Kind} {root : Box α} {s s' : DOO α S} {t : Nat}
    {ds ds' : List (Draw α)} {v : Nat} {tr : List (Ev α (SwSt S) S)}
    (hD : DomInv k root s.P) (hE : EvDraws k root ds tr)
    (h : pullT cfg s t ds = .ok (s', ds', v, tr)) : DomInv k root s'.P ∧ Keeps s.P s'.P := by
  unfold pullT at h
  split at h
  · cases h
  · rename_i P1 ds1 id1 tr1 hs
    simp only [Except.ok.injEq, Prod.mk.injEq] at h
    obtain ⟨rfl, rfl, rfl, rfl⟩ := h
    obtain ⟨a, b, _⟩ := loopT_dom cfg _ _ _ _ _ _ _ _ _ _ hs hD [] (by simpa using hE)
    exact ⟨a, b⟩

theorem receive_geo {s s' : DOO α S} {r : S} (h : receive s r = .ok s') : Geo s.P s'.P := by
  unfold receive at h
  split at h
  · cases h
  · simp only [Except.ok.injEq] at h
    subst h
    dsimp only
    exact Geo.modifySt s.P _ _

theorem runRounds_dom (cfg : DOOCfg α S) (hbot : ∀ x, cfg.negInf ≤ x) (hδ : DeltaOK cfg)
    {k : Kind} {root : Box α} :
    ∀ (inputs : List (Input α S)) (s : DOO α S), Inv cfg s → DomInv k root s.P →
      InputsOK k root.length inputs → GoodDraws cfg k root s inputs →
      ∃ s' H, runRounds cfg s inputs = .ok (s', H) ∧ Inv cfg s' ∧ DomInv k root s'.P ∧
        Keeps s.P s'.P ∧ H.map (·.2) = inputs.map (·.2.2) ∧ ∀ e ∈ H, PointOK root s'.P e.1
  | [], s, hI, hD, _, _ => ⟨s, [], rfl, hI, hD, Keeps.refl _, rfl, fun _ h => by cases h⟩
  | x :: rest, s, hI, hD, hin, hG => by
    have hdim : dimn s.P = root.length := dimn_of_boxInv hI.pinv.wf hD.box
    obtain ⟨hl, hds0⟩ := hin x (List.mem_cons_self ..)
    have hds : ∀ d ∈ x.2.1, DrawOKLen s.P.kind (dimn s.P) d := by
      rw [hD.kind, hdim]; exact hds0
    obtain ⟨s2, v, hr, _⟩ := round_total cfg hbot hδ x hI hl hds
    obtain ⟨s1, ds1, tr, Pb, hp⟩ := round_spec cfg hbot hI hds hr
    obtain ⟨hE, hG'⟩ := hG s1 ds1 v tr hp.pullT
    obtain ⟨hD1, hK1⟩ := pullT_dom cfg hD hE hp.pullT
    have g12 := receive_geo hp.recv
    have hD2 := DomInv.of_prel g12 hD1
    obtain ⟨s', H, hrun, hI', hD', hK', hH, hpts⟩ := runRounds_dom cfg hbot hδ rest s2
      hp.inv2 hD2 (fun y hy => hin y (List.mem_cons_of_mem _ hy)) (hG' s2 hp.recv)
    obtain ⟨nd, hnd, _⟩ := hp.inv1.curr v hp.curr1
    have hv : v < s1.P.nodes.length := lt_length_of_getElem? hnd
    refine ⟨s', (v, x.2.2) :: H, ?_, hI', hD', ?_, ?_, ?_⟩
    · simp only [runRounds, hr, hrun]
    · exact (hK1.trans (Keeps.of_prel g12)).trans hK'
    · simp [hH]
    · intro e he
      rcases List.mem_cons.1 he with rfl | he
      · exact ((hD1.pointOK hv).keeps (Keeps.of_prel g12)).keeps hK'
      · exact hpts e he

theorem goodDraws_of_det (cfg : DOOCfg α S) {k : Kind} (hk : Kind.Deterministic k)
    {root : Box α} :
    ∀ (inputs : List (Input α S)) (s : DOO α S),
      InputsOK k root.length inputs → GoodDraws cfg k root s inputs
  | [], _, _ => trivial
  | x :: rest, s, hin => fun s1 ds1 v tr _ =>
    ⟨evDraws_of_det hk _ _ (hin _ (List.mem_cons_self ..)).2, fun s2 _ =>
      goodDraws_of_det cfg hk rest s2 (fun y hy => hin y (List.mem_cons_of_mem _ hy))⟩

theorem lastPoint_valid (cfg : DOOCfg α S) {s : DOO α S} {v : Nat}
    (h : lastPoint cfg s = .ok v) : v < s.P.nodes.length := by
  unfold lastPoint at h
  split at h
  · rename_i id hid
    simp only [Except.ok.injEq] at h
    subst h
    exact argmaxListed_valid _ _ hid
  · cases h

end DOO

/-! ## StoSOO -/
namespace StoSOO
open PyXAB.StoSOO
variable {α R S : Type} [Field α] [LinearOrder α] [IsStrictOrderedRing α]
variable [LinearOrder S] [Inhabited S] [Inhabited R]

theorem loopT_dom (cfg : StoCfg S R) (time : Nat) {k : Kind} {root : Box α} :
    ∀ (fuel h : Nat) (bmax : S) (P : Part α (TBSt R S)) (ds : List (Draw α))
      (P' : Part α (TBSt R S)) (ds' : List (Draw α)) (bm : S) (h' j id : Nat)
      (tr : List (Ev α (TBSt R S) S)),
      loopT cfg time fuel h bmax P ds = .ok (P', ds', bm, h', j, id, tr) → DomInv k root P →
      ∀ rest : List (Ev α (TBSt R S) S), EvDraws k root ds (tr ++ rest) →
        DomInv k root P' ∧ Keeps P P' ∧ EvDraws k root ds' rest
  | 0, _, _, _, _, _, _, _, _, _, _, _, h, _, _, _ => by simp [loopT] at h
  | fuel + 1, h, bmax, P, ds, P', ds', bm, h', j, id, tr, hrun, hD, rest, hE => by
    unfold loopT at hrun
    split at hrun
    · split at hrun
      · split at hrun
        · cases hrun
        · split at hrun
          · rename_i P1 hsc
            have g := Geo.of_prel (scan_spec cfg _ _ _ _ _ _ hsc).1
            obtain ⟨a, b, c⟩ :=
              loopT_dom cfg time fuel _ _ _ _ _ _ _ _ _ _ _ hrun (DomInv.of_prel g hD) rest hE
            exact ⟨a, (Keeps.of_prel g).trans b, c⟩
          · rename_i P1 j1 id1 b1 hsc
            have g := Geo.of_prel (scan_spec cfg _ _ _ _ _ _ hsc).1
            have hD1 := DomInv.of_prel g hD
            split at hrun
            · split at hrun
              · cases hrun
              · split at hrun
                · simp only [Except.ok.injEq, Prod.mk.injEq] at hrun
                  obtain ⟨rfl, rfl, rfl, rfl, rfl, rfl, rfl⟩ := hrun
                  exact ⟨hD1, Keeps.of_prel g, hE⟩
                · split at hrun
                  · cases hrun
                  · rename_i P2 ds2 hm
                    split at hrun
                    · cases hrun
                    · rename_i P3 ds3 bm3 h3 j3 id3 tr3 hrec
                      simp only [Except.ok.injEq, Prod.mk.injEq] at hrun
                      obtain ⟨rfl, rfl, rfl, rfl, rfl, rfl, rfl⟩ := hrun
                      obtain ⟨d, rfl, _⟩ := makeChildrenD_ok hm
                      simp only [List.cons_append, EvDraws] at hE
                      obtain ⟨hd, hE'⟩ := hE
                      have hS : SplitFits k root P1 _ (d :: ds2) := fun nd hn => hd nd hn
                      obtain ⟨hD2, hK2⟩ := makeChildrenD_dom hD1 hS hm
                      obtain ⟨a, b, c⟩ :=
                        loopT_dom cfg time fuel _ _ _ _ _ _ _ _ _ _ _ hrec hD2 rest hE'
                      exact ⟨a, ((Keeps.of_prel g).trans hK2).trans b, c⟩
            · obtain ⟨a, b, c⟩ :=
                loopT_dom cfg time fuel _ _ _ _ _ _ _ _ _ _ _ hrun hD1 rest hE
              exact ⟨a, (Keeps.of_prel g).trans b, c⟩
      · cases hrun
    · cases hrun

theorem pullT_dom (cfg : StoCfg S R) {k : Kind} {root : Box α} {s s' : StoSOO α R S} {t : Nat}
    {ds ds' : List (Draw α)} {v : Nat} {tr : List (Ev α (TBSt R S) S)}
    (hD : DomInv k root s.P) (hE : EvDraws k root ds tr)
    (h : pullT cfg s t ds = .ok (s', ds', v, tr)) : DomInv k root s'.P ∧ Keeps s.P s'.P := by
  unfold pullT at h
  split at h
  · cases h
  · rename_i P1 ds1 bm1 h1 j1 id1 tr1 hs
    simp only [Except.ok.injEq, Prod.mk.injEq] at h
    obtain ⟨rfl, rfl, rfl, rfl⟩ := h
    obtain ⟨a, b, _⟩ := loopT_dom cfg t _ _ _ _ _ _ _ _ _ _ _ _ hs hD [] (by simpa using hE)
    exact ⟨a, b⟩

theorem runRounds_dom (cfg : StoCfg S R) (hbot : ∀ x, cfg.negInf ≤ x) (htop : ∀ x, x ≤ cfg.inf)
    (hk0 : cfg.countLT 0 = true) {k : Kind} {root : Box α} :
    ∀ (inputs : List (Input α R)) (s : StoSOO α R S), Inv cfg s → DomInv k root s.P →
      InputsOK k root.length inputs → (∀ x ∈ inputs, x.1 ≤ cfg.n) →
      s.P.depth + inputs.length ≤ cfg.hmax → GoodDraws cfg k root s inputs →
      ∃ s' H, runRounds cfg s inputs = .ok (s', H) ∧ Inv cfg s' ∧ DomInv k root s'.P ∧
        Keeps s.P s'.P ∧ H.map (·.2) = inputs.map (·.2.2) ∧ ∀ e ∈ H, PointOK root s'.P e.1
  | [], s, hI, hD, _, _, _, _ => ⟨s, [], rfl, hI, hD, Keeps.refl _, rfl, fun _ h => by cases h⟩
  | x :: rest, s, hI, hD, hin, hn, hcap, hG => by
    have hdim : dimn s.P = root.length := dimn_of_boxInv hI.wf hD.box
    obtain ⟨hl, hds0⟩ := hin x (List.mem_cons_self ..)
    have hds : ∀ d ∈ x.2.1, DrawOKLen s.P.kind (dimn s.P) d := by
      rw [hD.kind, hdim]; exact hds0
    simp only [List.length_cons] at hcap
    obtain ⟨s1, ds1, v, tr, hpT, hdep⟩ := pullT_total cfg hbot htop hk0 hI (by omega)
      (hn x (List.mem_cons_self ..)) hl hds
    have hp : pull cfg s x.1 x.2.1 = .ok (s1, ds1, v) :=
      (pull_ok_iff cfg s x.1 x.2.1 s1 ds1 v).2 ⟨tr, hpT⟩
    obtain ⟨hR, _⟩ := PyXAB.StoSOO.pull_Ready cfg hI hds hp
    obtain ⟨s2, hr, hI2, hP2, _⟩ := PyXAB.StoSOO.receive_total cfg x.2.2 hR
    obtain ⟨hE, hG'⟩ := hG s1 ds1 v tr hpT
    obtain ⟨hD1, hK1⟩ := pullT_dom cfg hD hE hpT
    have g12 : Geo s1.P s2.P := hP2 ▸ Geo.modifySt s1.P v _
    have hD2 := DomInv.of_prel g12 hD1
    obtain ⟨s', H, hrun, hI', hD', hK', hH, hpts⟩ := runRounds_dom cfg hbot htop hk0 rest s2
      hI2 hD2 (fun y hy => hin y (List.mem_cons_of_mem _ hy))
      (fun y hy => hn y (List.mem_cons_of_mem _ hy)) (by rw [g12.depth]; omega) (hG' s2 hr)
    obtain ⟨_, _, _, _, _, _, _, _, nd, hnd, _⟩ := hR.sel
    have hv : v < s1.P.nodes.length := lt_length_of_getElem? hnd
    refine ⟨s', (v, x.2.2) :: H, ?_, hI', hD', ?_, ?_, ?_⟩
    · simp only [runRounds, round, hp, hr, hrun]
    · exact (hK1.trans (Keeps.of_prel g12)).trans hK'
    · simp [hH]
    · intro e he
      rcases List.mem_cons.1 he with rfl | he
      · exact ((hD1.pointOK hv).keeps (Keeps.of_prel g12)).keeps hK'
      · exact hpts e he

theorem goodDraws_of_det (cfg : StoCfg S R) {k : Kind} (hk : Kind.Deterministic k)
    {root : Box α} :
    ∀ (inputs : List (Input α R)) (s : StoSOO α R S),
      InputsOK k root.length inputs → GoodDraws cfg k root s inputs
  | [], _, _ => trivial
  | x :: rest, s, hin => fun s1 ds1 v tr _ =>
    ⟨evDraws_of_det hk _ _ (hin _ (List.mem_cons_self ..)).2, fun s2 _ =>
      goodDraws_of_det cfg hk rest s2 (fun y hy => hin y (List.mem_cons_of_mem _ hy))⟩

theorem lastPoint_valid (cfg : StoCfg S R) {s : StoSOO α R S} {v : Nat}
    (h : lastPoint cfg s = .ok v) : v < s.P.nodes.length := by
  unfold lastPoint at h
  split at h
  · cases h
  · split at h
    · rename_i layer _ id hid
      simp only [Except.ok.injEq] at h
      subst h
      have key : ∀ (l : List Nat) (acc : S × Option Nat),
          (∀ w, acc.2 = some w → w < s.P.nodes.length) →
          ∀ w, (l.foldl (fun (acc : S × Option Nat) id =>
            match s.P.nodes[id]? with
            | none => acc
            | some nd => if acc.1 ≤ nd.st.mean then (nd.st.mean, some id) else acc) acc).2 = some w →
            w < s.P.nodes.length := by
        intro l
        induction l with
        | nil => intro acc ha w hw; exact ha w hw
        | cons a l ih =>
          intro acc ha w hw
          rw [List.foldl_cons] at hw
          refine ih _ ?_ w hw
          intro w' hw'
          cases hn : s.P.nodes[a]? with
          | none => simp only [hn] at hw'; exact ha w' hw'
          | some nd =>
            simp only [hn] at hw'
            split at hw'
            · simp only [Option.some.injEq] at hw'
              subst hw'
              exact lt_length_of_getElem? hn
            · exact ha w' hw'
      exact key _ _ (fun w hw => by cases hw) id hid
    · cases h

end StoSOO

end TT
end PyXAB
