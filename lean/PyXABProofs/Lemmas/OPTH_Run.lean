/-
  Optimism of T-HOO / HCT, run part: the geometric invariant `OPTH.TInv` holds in every state
  reachable by rounds `pull; receive` with admissible draws (`OPTH.HOORunFit`, `OPTH.HCTRunFit`);
  these runs are runs in the sense of C05 (`TBB.HOORun`, `TBB.HCTRun`), and for the deterministic
  partition classes every C05 run on a valid domain is such a run.
-/
import PyXABProofs.Lemmas.OPTH_Opt
import PyXABProofs.Props.C05

set_option linter.unusedSectionVars false
set_option linter.unusedVariables false

namespace PyXAB
namespace OPTH
open _root_.PyXAB.Tree TBA TT TBB

variable {α R S : Type} [Field α] [LinearOrder α] [IsStrictOrderedRing α]
variable [LinearOrder S] [Inhabited S] [Inhabited R]

/-! ## T-HOO -/
namespace HOO

theorem init_tinv (cfg : HOOCfg R S) {k : Kind} {root : Box α} {ds ds' : List (Draw α)}
    {s0 : HOO α R S} (hv : Box.Valid root) (hd : HeadFits k root root ds)
    (h : PyXAB.HOO.init cfg k root ds = .ok (s0, ds')) : TInv k root s0.P := by
  unfold PyXAB.HOO.init at h
  obtain ⟨⟨P1, ds1⟩, he, h⟩ := bind_ok h
  simp only [pure, Except.pure, Except.ok.injEq, Prod.mk.injEq] at h
  obtain ⟨rfl, _⟩ := h
  refine (TInv.init hv _).expand ?_ ?_ he
  · intro nd hn
    simp only [Part.init, List.getElem?_cons_zero, Option.some.injEq] at hn
    subst hn
    exact hd
  · intro nd hn
    simp only [Part.init, List.getElem?_cons_zero, Option.some.injEq] at hn
    subst hn
    rfl

/-- `receive_reward` keeps the invariant, provided the pulled cell is a leaf and the first draw
fits it. -/
theorem receive_tinv (cfg : HOOCfg R S) {k : Kind} {root : Box α} {s s' : HOO α R S} {r : R}
    {ds ds' : List (Draw α)} (hT : TInv k root s.P)
    (hS : ∀ path last, s.path = some path → path.getLast? = some last →
      SplitFits k root s.P last ds ∧ ∀ nd, s.P.nodes[last]? = some nd → nd.children = none)
    (h : PyXAB.HOO.receive cfg s r ds = .ok (s', ds')) : TInv k root s'.P := by
  unfold PyXAB.HOO.receive at h
  cases hp : s.path with
  | none => simp [hp] at h
  | some path =>
    simp only [hp] at h
    have g12 : Geo s.P (forListed (path.foldl (fun P id => PyXAB.HOO.updateReward cfg P id r) s.P)
        (PyXAB.HOO.computeU cfg)) :=
      (Geo.foldl _ (fun Q x => Geo.modifySt Q x _) path s.P).trans (forListed_geo _ _)
    generalize forListed (path.foldl (fun P id => PyXAB.HOO.updateReward cfg P id r) s.P)
      (PyXAB.HOO.computeU cfg) = P2 at g12 h
    cases hl : path.getLast? with
    | none => simp [hl] at h
    | some last =>
      simp only [hl] at h
      cases hn : P2.nodes[last]? with
      | none => simp [hn] at h
      | some nd =>
        simp only [hn] at h
        obtain ⟨⟨P3, ds3⟩, he, h⟩ := bind_ok h
        obtain ⟨P4, hb, h⟩ := bind_ok h
        simp only [pure, Except.pure, Except.ok.injEq, Prod.mk.injEq] at h
        obtain ⟨rfl, rfl⟩ := h
        obtain ⟨hS1, hS2⟩ := hS path last hp hl
        have hT3 : TInv k root P3 := (hT.of_prel g12).expand_if (SplitFits.of_prel g12 hS1)
          (fun _ nd' hn' => by
            obtain ⟨x, a1, a2, _⟩ := g12.bwd hn'
            rw [a2.children]
            exact hS2 x a1) he
        exact hT3.of_prel (backward_geo cfg.negInf hb)

end HOO

theorem HOORunFit.toRun {cfg : HOOCfg R S} {k : Kind} {root : Box α} {s : PyXAB.HOO α R S}
    (h : HOORunFit cfg k root s) : HOORun cfg k root s := by
  induction h with
  | init hds _ h => exact HOORun.init hds h
  | round _ hp hd _ hr ih => exact HOORun.round ih hp hd hr

/-- every state reachable with admissible draws satisfies the geometric invariant -/
theorem HOORunFit.tinv {cfg : HOOCfg R S} (hbot : ∀ x, cfg.negInf ≤ x) {k : Kind} {root : Box α}
    (hroot : Box.Valid root) {s : PyXAB.HOO α R S} (h : HOORunFit cfg k root s) :
    TInv k root s.P := by
  induction h with
  | init _ hf h => exact HOO.init_tinv cfg hroot hf h
  | @round s s1 s2 v r d ds ds' hrun hp hd hf hr ih =>
    have I := C05.HOO_run_inv hbot hrun.toRun
    obtain ⟨e1, _, path, e3, G⟩ := C05.HOO_pull_greedy hp
    refine HOO.receive_tinv cfg (e1 ▸ ih) ?_ hr
    intro path' last' q1 q2
    rw [e3] at q1
    cases q1
    rw [G.last] at q2
    cases q2
    refine ⟨hf, fun nd hnd => ?_⟩
    rw [e1] at hnd
    obtain ⟨nd', a1, a2⟩ := G.stop
    obtain rfl := getElem?_inj a1 hnd
    exact a2

/-- For the deterministic partition classes (Binary, DimensionBinary, Kary) every C05 run on a
valid domain is a run with admissible draws. -/
theorem HOORunFit.of_det {cfg : HOOCfg R S} (hbot : ∀ x, cfg.negInf ≤ x) {k : Kind}
    (hk : Kind.Deterministic k) {root : Box α} (hroot : Box.Valid root) {s : PyXAB.HOO α R S}
    (h : HOORun cfg k root s) : HOORunFit cfg k root s := by
  induction h with
  | init hds h => exact HOORunFit.init hds (headFits_of_det hk hds) h
  | @round s s1 s2 v r d ds ds' hrun hp hd hr ih =>
    have hT := ih.tinv hbot hroot
    have I := C05.HOO_run_inv hbot hrun
    obtain ⟨e1, _⟩ := C05.HOO_pull_greedy hp
    have hdim : dimn s.P = root.length := dimn_of_boxInv I.wf hT.dom.box
    refine HOORunFit.round ih hp hd ?_ hr
    intro nd _
    apply drawFits_of_det hk
    rw [e1, hT.dom.kind, hdim] at hd
    exact hd


/-- The documented loop `HOO.runRounds` (`Spec/TBRun.lean`) from a reachable state, with
well-formed inputs (`InputsOK`) and good draws (`TT.HOO.GoodDraws`, C01), ends in a reachable
state. -/
theorem HOORunFit.runRounds {cfg : HOOCfg R S} (hbot : ∀ x, cfg.negInf ≤ x) {k : Kind}
    {root : Box α} (hroot : Box.Valid root) :
    ∀ (inputs : List (R × List (Draw α))) (s s' : PyXAB.HOO α R S) (H : List (Nat × R)),
      HOORunFit cfg k root s → InputsOK k root.length inputs →
      TT.HOO.GoodDraws cfg k root s inputs →
      PyXAB.HOO.runRounds cfg s inputs = .ok (s', H) → HOORunFit cfg k root s'
  | [], s, s', H, hs, _, _, h => by
    simp only [PyXAB.HOO.runRounds, Except.ok.injEq, Prod.mk.injEq] at h
    exact h.1 ▸ hs
  | (r, ds) :: rest, s, s', H, hs, hin, hG, h => by
    simp only [PyXAB.HOO.runRounds, PyXAB.HOO.round] at h
    cases hp : PyXAB.HOO.pull s with
    | error e => simp [hp] at h
    | ok x =>
      obtain ⟨s1, v⟩ := x
      simp only [hp] at h
      cases hr : PyXAB.HOO.receive cfg s1 r ds with
      | error e => simp [hr] at h
      | ok y =>
        obtain ⟨s2, ds2⟩ := y
        simp only [hr] at h
        cases hrest : PyXAB.HOO.runRounds cfg s2 rest with
        | error e => simp [hrest] at h
        | ok z =>
          obtain ⟨s3, H3⟩ := z
          simp only [hrest, Except.ok.injEq, Prod.mk.injEq] at h
          obtain ⟨rfl, _⟩ := h
          obtain ⟨hS, hG'⟩ := hG s1 v hp
          obtain ⟨hlen, hall⟩ := hin _ (List.mem_cons_self ..)
          have hT := hs.tinv hbot hroot
          have I := C05.HOO_run_inv hbot hs.toRun
          obtain ⟨e1, _⟩ := C05.HOO_pull_greedy hp
          have hdim : dimn s.P = root.length := dimn_of_boxInv I.wf hT.dom.box
          cases ds with
          | nil => simp at hlen
          | cons d ds0 =>
            have hd : DrawOKLen s1.P.kind (dimn s1.P) d := by
              rw [e1, hT.dom.kind, hdim]
              exact hall d (List.mem_cons_self ..)
            exact HOORunFit.runRounds hbot hroot rest s2 s3 H3
              (HOORunFit.round hs hp hd hS hr)
              (fun x hx => hin x (List.mem_cons_of_mem _ hx)) (hG' s2 ds2 hr) hrest

/-- The final state of the documented run `HOO.run` (construction, then the loop) with
well-formed inputs and good draws is reachable in the sense of `HOORunFit`. -/
theorem HOORunFit.of_run {cfg : HOOCfg R S} (hbot : ∀ x, cfg.negInf ≤ x) {k : Kind}
    {root : Box α} (hroot : Box.Valid root) {ds0 : List (Draw α)}
    {inputs : List (R × List (Draw α))} (hds0 : ∀ d ∈ ds0, DrawOKLen k root.length d)
    (hf0 : HeadFits k root root ds0) (hin : InputsOK k root.length inputs)
    (hG : ∀ s0 ds', PyXAB.HOO.init cfg k root ds0 = .ok (s0, ds') →
      TT.HOO.GoodDraws cfg k root s0 inputs)
    {s : PyXAB.HOO α R S} {H : List (Nat × R)}
    (h : PyXAB.HOO.run cfg k root ds0 inputs = .ok (s, H)) : HOORunFit cfg k root s := by
  unfold PyXAB.HOO.run at h
  cases hi : PyXAB.HOO.init cfg k root ds0 with
  | error e => simp [hi] at h
  | ok x =>
    obtain ⟨s0, ds'⟩ := x
    simp only [hi] at h
    exact HOORunFit.runRounds hbot hroot inputs s0 s H (HOORunFit.init hds0 hf0 hi) hin
      (hG s0 ds' hi) h

/-! ## HCT / VHCT -/
namespace HCT

theorem init_tinv (cfg : HCTCfg R S) {k : Kind} {root : Box α} {ds ds' : List (Draw α)}
    {s0 : HCT α R S} (hv : Box.Valid root) (hd : HeadFits k root root ds)
    (h : PyXAB.HCT.init cfg k root ds = .ok (s0, ds')) : TInv k root s0.P := by
  unfold PyXAB.HCT.init at h
  obtain ⟨⟨P1, ds1⟩, he, h⟩ := bind_ok h
  simp only [pure, Except.pure, Except.ok.injEq, Prod.mk.injEq] at h
  obtain ⟨rfl, _⟩ := h
  refine (TInv.init hv _).expand ?_ ?_ he
  · intro nd hn
    simp only [Part.init, List.getElem?_cons_zero, Option.some.injEq] at hn
    subst hn
    exact hd
  · intro nd hn
    simp only [Part.init, List.getElem?_cons_zero, Option.some.injEq] at hn
    subst hn
    rfl

/-- `pull` changes thresholds only -/
theorem sameButTau_tinv {k : Kind} {root : Box α} {P Q : Part α (TBSt R S)}
    (hT : TInv k root P) (h : SameButTau P Q) : TInv k root Q :=
  hT.of_same h.kind h.len (fun i nd' hi => by
    obtain ⟨nd, a1, a2⟩ := h.inv hi
    exact ⟨nd, a1, by rw [a2], by rw [a2]⟩)

/-- `receive_reward` keeps the invariant, provided the first draw fits the pulled cell (the
expansion test of HCT / VHCT includes "the pulled cell is a leaf"). -/
theorem receive_tinv (cfg : HCTCfg R S) {k : Kind} {root : Box α} {s s' : HCT α R S} {r : R}
    {ds ds' : List (Draw α)} (hT : TInv k root s.P)
    (hS : ∀ path last, s.path = some path → path.getLast? = some last →
      SplitFits k root s.P last ds)
    (h : PyXAB.HCT.receive cfg s r ds = .ok (s', ds')) : TInv k root s'.P := by
  unfold PyXAB.HCT.receive at h
  cases hp : s.path with
  | none => simp [hp] at h
  | some path =>
    simp only [hp] at h
    obtain ⟨P1, h1, h⟩ := bind_ok h
    have g1 : Geo s.P P1 := by
      split at h1
      · exact (forListed_geo _ _).trans (backward_geo cfg.negInf h1)
      · simp only [Except.ok.injEq] at h1
        exact h1 ▸ Geo.refl _
    cases hl : path.getLast? with
    | none => simp [hl] at h
    | some last =>
      simp only [hl] at h
      have g2 : Geo P1 (PyXAB.HCT.updateReward cfg P1 last r) := Geo.modifySt _ _ _
      generalize PyXAB.HCT.updateReward cfg P1 last r = P2 at g2 h
      obtain ⟨P4, hb, h⟩ := bind_ok h
      have g4 := backward_geo cfg.negInf hb
      have g24 : Geo P2 P4 :=
        Geo.trans (by split <;> first | exact Geo.refl _ | exact Geo.modifySt _ _ _) g4
      have g14 : Geo s.P P4 := (g1.trans g2).trans g24
      cases hn : P4.nodes[last]? with
      | none => simp [hn] at h
      | some nd =>
        simp only [hn] at h
        obtain ⟨thr, _, h⟩ := bind_ok h
        obtain ⟨⟨P5, ds5⟩, he, h⟩ := bind_ok h
        simp only [pure, Except.pure, Except.ok.injEq, Prod.mk.injEq] at h
        obtain ⟨rfl, rfl⟩ := h
        refine (hT.of_prel g14).expand_if (SplitFits.of_prel g14 (hS path last hp hl))
          (fun hc nd' hn' => ?_) he
        obtain rfl := getElem?_inj hn hn'
        rw [Bool.and_eq_true] at hc
        exact Option.isNone_iff_eq_none.1 hc.1

end HCT

theorem HCTRunFit.toRun {cfg : HCTCfg R S} {k : Kind} {root : Box α} {s : PyXAB.HCT α R S}
    (h : HCTRunFit cfg k root s) : ∃ ts, HCTRun cfg k root s ts := by
  induction h with
  | init hds _ h => exact ⟨fun _ => 0, HCTRun.init _ hds h⟩
  | round _ hp hd _ hr ih =>
    obtain ⟨ts, ih⟩ := ih
    exact ⟨_, HCTRun.round ih hp hd hr⟩

theorem HCTRunFit.inv {cfg : HCTCfg R S} (hbot : ∀ x, cfg.negInf ≤ x) (htop : ∀ x, x ≤ cfg.inf)
    {k : Kind} {root : Box α} {s : PyXAB.HCT α R S} (h : HCTRunFit cfg k root s) :
    HCTInv cfg s := by
  obtain ⟨ts, hr⟩ := h.toRun
  exact (C05.HCT_run_inv hbot htop hr).1

/-- every state reachable with admissible draws satisfies the geometric invariant -/
theorem HCTRunFit.tinv {cfg : HCTCfg R S} (hbot : ∀ x, cfg.negInf ≤ x) (htop : ∀ x, x ≤ cfg.inf)
    {k : Kind} {root : Box α} (hroot : Box.Valid root) {s : PyXAB.HCT α R S}
    (h : HCTRunFit cfg k root s) : TInv k root s.P := by
  induction h with
  | init _ hf h => exact HCT.init_tinv cfg hroot hf h
  | @round s s1 s2 v r d ds ds' hrun hp hd hf hr ih =>
    have I := hrun.inv hbot htop
    have hpl := C05.HCT_pull_greedy I hp
    obtain ⟨path, e3, G⟩ := hpl.path
    refine HCT.receive_tinv cfg (HCT.sameButTau_tinv ih hpl.same) ?_ hr
    intro path' last' q1 q2
    rw [e3] at q1
    cases q1
    rw [G.last] at q2
    cases q2
    exact hf

theorem HCTRunFit.of_det {cfg : HCTCfg R S} (hbot : ∀ x, cfg.negInf ≤ x) (htop : ∀ x, x ≤ cfg.inf)
    {k : Kind} (hk : Kind.Deterministic k) {root : Box α} (hroot : Box.Valid root)
    {s : PyXAB.HCT α R S} {ts : Nat → Nat} (h : HCTRun cfg k root s ts) :
    HCTRunFit cfg k root s := by
  induction h with
  | init _ hds h => exact HCTRunFit.init hds (headFits_of_det hk hds) h
  | @round s s1 s2 ts v r d ds ds' hrun hp hd hr ih =>
    have hT := ih.tinv hbot htop hroot
    have I := (C05.HCT_run_inv hbot htop hrun).1
    have hpl := C05.HCT_pull_greedy I hp
    have hT1 := HCT.sameButTau_tinv hT hpl.same
    have I1 := (C05.HCT_pull_ready I hp).inv
    have hdim : dimn s1.P = root.length := dimn_of_boxInv I1.wf hT1.dom.box
    refine HCTRunFit.round ih hp hd ?_ hr
    intro nd _
    apply drawFits_of_det hk
    rw [hT1.dom.kind, hdim] at hd
    exact hd

/-- The documented loop `HCT.runRounds` from a reachable state, with well-formed inputs and good
draws (`TT.HCT.GoodDraws`, C01), ends in a reachable state. -/
theorem HCTRunFit.runRounds {cfg : HCTCfg R S} (hbot : ∀ x, cfg.negInf ≤ x)
    (htop : ∀ x, x ≤ cfg.inf) {k : Kind} {root : Box α} (hroot : Box.Valid root) :
    ∀ (inputs : List (R × List (Draw α))) (s s' : PyXAB.HCT α R S) (H : List (Nat × R)),
      HCTRunFit cfg k root s → InputsOK k root.length inputs →
      TT.HCT.GoodDraws cfg k root s inputs →
      PyXAB.HCT.runRounds cfg s inputs = .ok (s', H) → HCTRunFit cfg k root s'
  | [], s, s', H, hs, _, _, h => by
    simp only [PyXAB.HCT.runRounds, Except.ok.injEq, Prod.mk.injEq] at h
    exact h.1 ▸ hs
  | (r, ds) :: rest, s, s', H, hs, hin, hG, h => by
    simp only [PyXAB.HCT.runRounds, PyXAB.HCT.round] at h
    cases hp : PyXAB.HCT.pull cfg s with
    | error e => simp [hp] at h
    | ok x =>
      obtain ⟨s1, v⟩ := x
      simp only [hp] at h
      cases hr : PyXAB.HCT.receive cfg s1 r ds with
      | error e => simp [hr] at h
      | ok y =>
        obtain ⟨s2, ds2⟩ := y
        simp only [hr] at h
        cases hrest : PyXAB.HCT.runRounds cfg s2 rest with
        | error e => simp [hrest] at h
        | ok z =>
          obtain ⟨s3, H3⟩ := z
          simp only [hrest, Except.ok.injEq, Prod.mk.injEq] at h
          obtain ⟨rfl, _⟩ := h
          obtain ⟨hS, hG'⟩ := hG s1 v hp
          obtain ⟨hlen, hall⟩ := hin _ (List.mem_cons_self ..)
          have hT := hs.tinv hbot htop hroot
          have I := hs.inv hbot htop
          have hpl := C05.HCT_pull_greedy I hp
          have hT1 := HCT.sameButTau_tinv hT hpl.same
          have I1 := (C05.HCT_pull_ready I hp).inv
          have hdim : dimn s1.P = root.length := dimn_of_boxInv I1.wf hT1.dom.box
          cases ds with
          | nil => simp at hlen
          | cons d ds0 =>
            have hd : DrawOKLen s1.P.kind (dimn s1.P) d := by
              rw [hT1.dom.kind, hdim]
              exact hall d (List.mem_cons_self ..)
            exact HCTRunFit.runRounds hbot htop hroot rest s2 s3 H3
              (HCTRunFit.round hs hp hd hS hr)
              (fun x hx => hin x (List.mem_cons_of_mem _ hx)) (hG' s2 ds2 hr) hrest

theorem HCTRunFit.of_run {cfg : HCTCfg R S} (hbot : ∀ x, cfg.negInf ≤ x)
    (htop : ∀ x, x ≤ cfg.inf) {k : Kind} {root : Box α} (hroot : Box.Valid root)
    {ds0 : List (Draw α)} {inputs : List (R × List (Draw α))}
    (hds0 : ∀ d ∈ ds0, DrawOKLen k root.length d) (hf0 : HeadFits k root root ds0)
    (hin : InputsOK k root.length inputs)
    (hG : ∀ s0 ds', PyXAB.HCT.init cfg k root ds0 = .ok (s0, ds') →
      TT.HCT.GoodDraws cfg k root s0 inputs)
    {s : PyXAB.HCT α R S} {H : List (Nat × R)}
    (h : PyXAB.HCT.run cfg k root ds0 inputs = .ok (s, H)) : HCTRunFit cfg k root s := by
  unfold PyXAB.HCT.run at h
  cases hi : PyXAB.HCT.init cfg k root ds0 with
  | error e => simp [hi] at h
  | ok x =>
    obtain ⟨s0, ds'⟩ := x
    simp only [hi] at h
    exact HCTRunFit.runRounds hbot htop hroot inputs s0 s H (HCTRunFit.init hds0 hf0 hi) hin
      (hG s0 ds' hi) h

end OPTH
end PyXAB
