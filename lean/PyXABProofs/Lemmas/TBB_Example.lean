/-
  Concrete configurations and runs used by the non-vacuity examples of `Props/C05.lean`
  (α := Nat, R := Nat, S := Fin 16 — a linear order in which `inf = 15` is the top and
  `negInf = 0` the bottom element).  States are obtained by evaluating the models; the
  equations `…_eq` (checked by kernel evaluation) say that every step returned `.ok`.
-/
import PyXABProofs.Lemmas.TBB_HCTRecv
import Mathlib.Order.Fin.Basic

namespace PyXAB
namespace TBB
namespace Ex

open Tree

instance : Inhabited (HOO Nat Nat (Fin 16)) := ⟨⟨default, 0, none⟩⟩
instance : Inhabited (HCT Nat Nat (Fin 16)) := ⟨⟨default, 0, [], none⟩⟩

theorem getOk_spec {β : Type} [Inhabited β] {x : Except Err β} (h : x.isOk = true) :
    x = .ok (getOk x) := by
  cases x with
  | ok a => rfl
  | error e => cases h

theorem getOk_spec2 {β γ : Type} [Inhabited β] [Inhabited γ] {x : Except Err (β × γ)}
    (h : x.isOk = true) : x = .ok ((getOk x).1, (getOk x).2) := getOk_spec h

def clamp (n : Nat) : Fin 16 := ⟨min n 15, by omega⟩

/-- the interval `[0,16]`, split at the midpoint by `BinaryPartition` -/
def dom1 : Box Nat := [⟨0, 16⟩]
def dr0 : Draw Nat := ⟨0, []⟩

/-! ### T-HOO -/

def cfgH : HOOCfg Nat (Fin 16) where
  inf := 15
  negInf := 0
  mean0 := 0
  meanOf := fun rs n => clamp (rs.sum / n)
  uOf := fun m count depth => clamp (m.val + 6 / count + (3 - depth))
  expandOK := fun depth => decide (depth ≤ 2)

theorem cfgH_bot : ∀ x, cfgH.negInf ≤ x := fun x => Fin.zero_le x

def hS0 := (getOk (HOO.init cfgH .binary dom1 [dr0])).1
def hP0 := getOk (HOO.pull hS0)
def hS1 := (getOk (HOO.receive cfgH hP0.1 3 [dr0])).1
def hP1 := getOk (HOO.pull hS1)
def hS2 := (getOk (HOO.receive cfgH hP1.1 5 [dr0])).1
def hP2 := getOk (HOO.pull hS2)
def hS3 := (getOk (HOO.receive cfgH hP2.1 2 [dr0])).1
def hP3 := getOk (HOO.pull hS3)

/-- what we look at: per node `(count, u, b, children)` -/
def view (P : Part Nat (TBSt Nat (Fin 16))) :=
  P.nodes.map (fun nd => (nd.st.count, nd.st.u.val, nd.st.b.val, nd.children))

theorem hS0_eq : HOO.init cfgH .binary dom1 [dr0] =
    .ok (hS0, (getOk (HOO.init cfgH .binary dom1 [dr0])).2) := getOk_spec2 (by decide +kernel)
theorem hP0_eq : HOO.pull hS0 = .ok (hP0.1, hP0.2) := getOk_spec2 (by decide +kernel)
theorem hS1_eq : HOO.receive cfgH hP0.1 3 [dr0] =
    .ok (hS1, (getOk (HOO.receive cfgH hP0.1 3 [dr0])).2) := getOk_spec2 (by decide +kernel)
theorem hP1_eq : HOO.pull hS1 = .ok (hP1.1, hP1.2) := getOk_spec2 (by decide +kernel)
theorem hS2_eq : HOO.receive cfgH hP1.1 5 [dr0] =
    .ok (hS2, (getOk (HOO.receive cfgH hP1.1 5 [dr0])).2) := getOk_spec2 (by decide +kernel)
theorem hP2_eq : HOO.pull hS2 = .ok (hP2.1, hP2.2) := getOk_spec2 (by decide +kernel)
theorem hS3_eq : HOO.receive cfgH hP2.1 2 [dr0] =
    .ok (hS3, (getOk (HOO.receive cfgH hP2.1 2 [dr0])).2) := getOk_spec2 (by decide +kernel)
theorem hP3_eq : HOO.pull hS3 = .ok (hP3.1, hP3.2) := getOk_spec2 (by decide +kernel)

/-- the state after three rounds `pull; receive` is reachable -/
theorem hS3_run : HOORun cfgH .binary dom1 hS3 := by
  have r0 : HOORun cfgH .binary dom1 hS0 := HOORun.init (ds := [dr0]) (by decide) hS0_eq
  have r1 : HOORun cfgH .binary dom1 hS1 :=
    HOORun.round (d := dr0) (ds := []) r0 hP0_eq
      (show DrawOKLen hP0.1.P.kind (dimn hP0.1.P) dr0 by decide +kernel) hS1_eq
  have r2 : HOORun cfgH .binary dom1 hS2 :=
    HOORun.round (d := dr0) (ds := []) r1 hP1_eq
      (show DrawOKLen hP1.1.P.kind (dimn hP1.1.P) dr0 by decide +kernel) hS2_eq
  exact HOORun.round (d := dr0) (ds := []) r2 hP2_eq
      (show DrawOKLen hP2.1.P.kind (dimn hP2.1.P) dr0 by decide +kernel) hS3_eq

/-! ### HCT (`var = false`) and VHCT (`var = true`) -/

def cfgC (var : Bool) : HCTCfg Nat (Fin 16) where
  variance := var
  inf := 15
  negInf := 0
  zero := 0
  var0 := 1
  meanOf := fun rs n => clamp (rs.sum / n)
  varOf := fun rs => clamp (rs.length + 1)
  dtHalf := fun tp => clamp tp
  dtOne := fun tp => clamp tp
  tauH := fun _ h => clamp h
  tauNode := fun _ depth var => clamp (depth + var.val - 2)
  uOf := fun dt depth mean count var => clamp (mean.val + (dt.val + var.val) / count + (3 - depth))
  countGE := fun n t => decide (t.val ≤ n)

theorem cfgC_bot (var : Bool) : ∀ x, (cfgC var).negInf ≤ x := fun x => Fin.zero_le x
theorem cfgC_top (var : Bool) : ∀ x, x ≤ (cfgC var).inf := fun x => Fin.le_last x

def cS0 (var : Bool) := (getOk (HCT.init (cfgC var) .binary dom1 [dr0])).1
def cP0 (var : Bool) := getOk (HCT.pull (cfgC var) (cS0 var))
def cS1 (var : Bool) := (getOk (HCT.receive (cfgC var) (cP0 var).1 3 [dr0])).1
def cP1 (var : Bool) := getOk (HCT.pull (cfgC var) (cS1 var))
def cS2 (var : Bool) := (getOk (HCT.receive (cfgC var) (cP1 var).1 5 [dr0])).1
def cP2 (var : Bool) := getOk (HCT.pull (cfgC var) (cS2 var))
def cS3 (var : Bool) := (getOk (HCT.receive (cfgC var) (cP2 var).1 2 [dr0])).1
def cP3 (var : Bool) := getOk (HCT.pull (cfgC var) (cS3 var))
def cS4 (var : Bool) := (getOk (HCT.receive (cfgC var) (cP3 var).1 2 [dr0])).1
def cP4 (var : Bool) := getOk (HCT.pull (cfgC var) (cS4 var))

/-- ghost time stamps along the run -/
def cT1 (var : Bool) := tsStep (cP0 var).1.iteration (cP0 var).1.P (cP0 var).2 (fun _ => 0)
def cT2 (var : Bool) := tsStep (cP1 var).1.iteration (cP1 var).1.P (cP1 var).2 (cT1 var)
def cT3 (var : Bool) := tsStep (cP2 var).1.iteration (cP2 var).1.P (cP2 var).2 (cT2 var)
def cT4 (var : Bool) := tsStep (cP3 var).1.iteration (cP3 var).1.P (cP3 var).2 (cT3 var)

theorem cS0_eq (var : Bool) : HCT.init (cfgC var) .binary dom1 [dr0] =
    .ok (cS0 var, (getOk (HCT.init (cfgC var) .binary dom1 [dr0])).2) :=
  getOk_spec2 (by cases var <;> decide +kernel)
theorem cP0_eq (var : Bool) : HCT.pull (cfgC var) (cS0 var) = .ok ((cP0 var).1, (cP0 var).2) :=
  getOk_spec2 (by cases var <;> decide +kernel)
theorem cS1_eq (var : Bool) : HCT.receive (cfgC var) (cP0 var).1 3 [dr0] =
    .ok (cS1 var, (getOk (HCT.receive (cfgC var) (cP0 var).1 3 [dr0])).2) :=
  getOk_spec2 (by cases var <;> decide +kernel)
theorem cP1_eq (var : Bool) : HCT.pull (cfgC var) (cS1 var) = .ok ((cP1 var).1, (cP1 var).2) :=
  getOk_spec2 (by cases var <;> decide +kernel)
theorem cS2_eq (var : Bool) : HCT.receive (cfgC var) (cP1 var).1 5 [dr0] =
    .ok (cS2 var, (getOk (HCT.receive (cfgC var) (cP1 var).1 5 [dr0])).2) :=
  getOk_spec2 (by cases var <;> decide +kernel)
theorem cP2_eq (var : Bool) : HCT.pull (cfgC var) (cS2 var) = .ok ((cP2 var).1, (cP2 var).2) :=
  getOk_spec2 (by cases var <;> decide +kernel)
theorem cS3_eq (var : Bool) : HCT.receive (cfgC var) (cP2 var).1 2 [dr0] =
    .ok (cS3 var, (getOk (HCT.receive (cfgC var) (cP2 var).1 2 [dr0])).2) :=
  getOk_spec2 (by cases var <;> decide +kernel)
theorem cP3_eq (var : Bool) : HCT.pull (cfgC var) (cS3 var) = .ok ((cP3 var).1, (cP3 var).2) :=
  getOk_spec2 (by cases var <;> decide +kernel)
theorem cS4_eq (var : Bool) : HCT.receive (cfgC var) (cP3 var).1 2 [dr0] =
    .ok (cS4 var, (getOk (HCT.receive (cfgC var) (cP3 var).1 2 [dr0])).2) :=
  getOk_spec2 (by cases var <;> decide +kernel)
theorem cP4_eq (var : Bool) : HCT.pull (cfgC var) (cS4 var) = .ok ((cP4 var).1, (cP4 var).2) :=
  getOk_spec2 (by cases var <;> decide +kernel)

theorem cS3_run (var : Bool) : HCTRun (cfgC var) .binary dom1 (cS3 var) (cT3 var) := by
  have r0 : HCTRun (cfgC var) .binary dom1 (cS0 var) (fun _ => 0) :=
    HCTRun.init (ds := [dr0]) _ (by decide) (cS0_eq var)
  have r1 : HCTRun (cfgC var) .binary dom1 (cS1 var) (cT1 var) :=
    HCTRun.round (d := dr0) (ds := []) r0 (cP0_eq var)
      (show DrawOKLen (cP0 var).1.P.kind (dimn (cP0 var).1.P) dr0 by
        cases var <;> decide +kernel) (cS1_eq var)
  have r2 : HCTRun (cfgC var) .binary dom1 (cS2 var) (cT2 var) :=
    HCTRun.round (d := dr0) (ds := []) r1 (cP1_eq var)
      (show DrawOKLen (cP1 var).1.P.kind (dimn (cP1 var).1.P) dr0 by
        cases var <;> decide +kernel) (cS2_eq var)
  exact HCTRun.round (d := dr0) (ds := []) r2 (cP2_eq var)
      (show DrawOKLen (cP2 var).1.P.kind (dimn (cP2 var).1.P) dr0 by
        cases var <;> decide +kernel) (cS3_eq var)

theorem cS4_run (var : Bool) : HCTRun (cfgC var) .binary dom1 (cS4 var) (cT4 var) :=
  HCTRun.round (d := dr0) (ds := []) (cS3_run var) (cP3_eq var)
    (show DrawOKLen (cP3 var).1.P.kind (dimn (cP3 var).1.P) dr0 by
      cases var <;> decide +kernel) (cS4_eq var)

/-- per node `(count, u, b, tau, children)` -/
def viewC (P : Part Nat (TBSt Nat (Fin 16))) :=
  P.nodes.map (fun nd => (nd.st.count, nd.st.u.val, nd.st.b.val, nd.st.tau.val, nd.children))

end Ex
end TBB
end PyXAB
