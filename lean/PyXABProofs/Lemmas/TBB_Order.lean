/-
  Order-theoretic helpers for C05: the running maximum of `backwardLayer`, the tie rule of
  `pickChild`, and the arithmetic of `tPlus` (= `Nat.nextPowerOfTwo`).
-/
import Batteries.Tactic.OpenPrivate
import PyXABProofs.Spec.TBIndex

open private Nat.nextPowerOfTwo.go from Init.Data.Nat.Power2.Basic

namespace PyXAB
namespace TBB

variable {S : Type} [LinearOrder S]

/-! ### `foldl max` -/

theorem foldl_max_aux (f : Nat → S) : ∀ (cs : List Nat) (t : S),
    t ≤ cs.foldl (fun t c => max t (f c)) t ∧
    (∀ c ∈ cs, f c ≤ cs.foldl (fun t c => max t (f c)) t) ∧
    (cs.foldl (fun t c => max t (f c)) t = t ∨
      ∃ c ∈ cs, f c = cs.foldl (fun t c => max t (f c)) t)
  | [], t => ⟨le_refl _, by simp, Or.inl rfl⟩
  | x :: cs, t => by
    obtain ⟨h1, h2, h3⟩ := foldl_max_aux f cs (max t (f x))
    simp only [List.foldl_cons]
    refine ⟨le_trans (le_max_left _ _) h1, ?_, ?_⟩
    · intro c hc
      rcases List.mem_cons.1 hc with rfl | hc
      · exact le_trans (le_max_right _ _) h1
      · exact h2 c hc
    · rcases h3 with h3 | ⟨c, hc, h3⟩
      · rcases le_total t (f x) with hle | hle
        · right
          exact ⟨x, List.mem_cons_self .., by rw [h3, max_eq_right hle]⟩
        · left
          rw [h3, max_eq_left hle]
      · exact Or.inr ⟨c, List.mem_cons_of_mem _ hc, h3⟩

/-- The running maximum started at a bottom element over a non-empty list is the maximum:
it bounds every element and is attained. -/
theorem foldl_max_spec (bot : S) (hbot : ∀ x, bot ≤ x) (f : Nat → S) (cs : List Nat)
    (hne : cs ≠ []) :
    (∀ c ∈ cs, f c ≤ cs.foldl (fun t c => max t (f c)) bot) ∧
    ∃ c ∈ cs, f c = cs.foldl (fun t c => max t (f c)) bot := by
  obtain ⟨_, h2, h3⟩ := foldl_max_aux f cs bot
  refine ⟨h2, ?_⟩
  rcases h3 with h3 | h3
  · cases cs with
    | nil => exact absurd rfl hne
    | cons x cs =>
      refine ⟨x, List.mem_cons_self .., le_antisymm (h2 x (List.mem_cons_self ..)) ?_⟩
      rw [h3]; exact hbot _
  · exact h3

/-! ### `pickChild` -/

theorem pick_foldl_aux (b : Nat → S) : ∀ (cs : List Nat) (m0 : Nat),
    let m := cs.foldl (fun m c' => if b m ≤ b c' then c' else m) m0
    (m = m0 ∧ ∀ x ∈ cs, b x < b m0) ∨
    (∃ pre post, cs = pre ++ m :: post ∧ b m0 ≤ b m ∧ (∀ x ∈ pre, b x ≤ b m) ∧
      ∀ x ∈ post, b x < b m)
  | [], m0 => Or.inl ⟨rfl, by simp⟩
  | x :: t, m0 => by
    simp only [List.foldl_cons]
    by_cases hx : b m0 ≤ b x
    · simp only [hx, if_true]
      rcases pick_foldl_aux b t x with ⟨h1, h2⟩ | ⟨pre, post, h1, h2, h3, h4⟩
      · right
        refine ⟨[], t, ?_, ?_, by simp, ?_⟩
        · rw [h1]; rfl
        · rw [h1]; exact hx
        · rw [h1]; exact h2
      · right
        refine ⟨x :: pre, post, by rw [List.cons_append, ← h1], le_trans hx h2, ?_, h4⟩
        intro y hy
        rcases List.mem_cons.1 hy with rfl | hy
        · exact h2
        · exact h3 y hy
    · simp only [hx, if_false]
      have hlt : b x < b m0 := lt_of_not_ge hx
      rcases pick_foldl_aux b t m0 with ⟨h1, h2⟩ | ⟨pre, post, h1, h2, h3, h4⟩
      · left
        refine ⟨h1, ?_⟩
        intro y hy
        rcases List.mem_cons.1 hy with rfl | hy
        · exact hlt
        · exact h2 y hy
      · right
        refine ⟨x :: pre, post, by rw [List.cons_append, ← h1], h2, ?_, h4⟩
        intro y hy
        rcases List.mem_cons.1 hy with rfl | hy
        · exact le_trans (le_of_lt hlt) h2
        · exact h3 y hy

/-- `pickChild` returns the last child of maximal score. -/
theorem pickChild_lastMax (b : Nat → S) {cs : List Nat} {m : Nat}
    (h : pickChild b cs = some m) : LastMax b cs m := by
  cases cs with
  | nil => simp [pickChild] at h
  | cons c cs =>
    simp only [pickChild, Option.some.injEq] at h
    have key := pick_foldl_aux b cs c
    simp only [h] at key
    rcases key with ⟨h1, h2⟩ | ⟨pre, post, h1, h2, h3, h4⟩
    · subst h1
      refine ⟨List.mem_cons_self .., ?_, [], cs, rfl, h2⟩
      intro y hy
      rcases List.mem_cons.1 hy with rfl | hy
      · exact le_refl _
      · exact le_of_lt (h2 y hy)
    · refine ⟨?_, ?_, c :: pre, post, by rw [h1]; rfl, h4⟩
      · rw [h1]; simp
      · intro y hy
        rw [h1] at hy
        rcases List.mem_cons.1 hy with rfl | hy
        · exact h2
        · rcases List.mem_append.1 hy with hy | hy
          · exact h3 y hy
          · rcases List.mem_cons.1 hy with rfl | hy
            · exact le_refl _
            · exact le_of_lt (h4 y hy)

theorem pickChild_isSome (b : Nat → S) {cs : List Nat} (h : cs ≠ []) :
    ∃ m, pickChild b cs = some m := by
  cases cs with
  | nil => exact absurd rfl h
  | cons c cs => exact ⟨_, rfl⟩

/-! ### `tPlus` -/

theorem go_ge (n p : Nat) (h : p > 0) : n ≤ Nat.nextPowerOfTwo.go n p h ∧ p ≤ Nat.nextPowerOfTwo.go n p h := by
  fun_induction Nat.nextPowerOfTwo.go n p h with
  | case1 p h hlt ih => omega
  | case2 p h hge => omega

theorem go_lt (n p : Nat) (h : p > 0) (hp : p < 2 * n) : Nat.nextPowerOfTwo.go n p h < 2 * n := by
  fun_induction Nat.nextPowerOfTwo.go n p h with
  | case1 p h hlt ih => exact ih (by omega)
  | case2 p h hge => exact hp

theorem go_pow (k : Nat) (p : Nat) (h : p > 0) (j : Nat) (hj : j ≤ k) (hp : p = 2 ^ j) :
    Nat.nextPowerOfTwo.go (2 ^ k) p h = 2 ^ k := by
  fun_induction Nat.nextPowerOfTwo.go (2 ^ k) p h generalizing j with
  | case1 p h hlt ih =>
    have hjk : j < k := by
      rw [hp] at hlt
      exact (Nat.pow_lt_pow_iff_right (by omega)).1 hlt
    exact ih (j + 1) hjk (by rw [hp, Nat.pow_succ])
  | case2 p h hge =>
    have : 2 ^ j ≤ 2 ^ k := Nat.pow_le_pow_right (by omega) hj
    omega

theorem le_tPlus (n : Nat) : n ≤ tPlus n := by
  unfold tPlus Nat.nextPowerOfTwo
  exact (go_ge n 1 _).1

theorem tPlus_lt_two_mul {n : Nat} (hn : 1 ≤ n) : tPlus n < 2 * n := by
  unfold tPlus Nat.nextPowerOfTwo
  exact go_lt n 1 _ (by omega)

theorem tPlus_pow (k : Nat) : tPlus (2 ^ k) = 2 ^ k := by
  unfold tPlus Nat.nextPowerOfTwo
  exact go_pow k 1 _ 0 (Nat.zero_le _) rfl

theorem tPlus_isPow (n : Nat) : ∃ k, tPlus n = 2 ^ k :=
  Nat.isPowerOfTwo_nextPowerOfTwo n

/-- The lazily refreshed U-values are recomputed exactly when the round counter is a power
of two. -/
theorem tPlus_eq_self_iff (n : Nat) : tPlus n = n ↔ ∃ k, n = 2 ^ k := by
  constructor
  · intro h
    obtain ⟨k, hk⟩ := tPlus_isPow n
    exact ⟨k, by omega⟩
  · rintro ⟨k, rfl⟩
    exact tPlus_pow k

end TBB
end PyXAB
